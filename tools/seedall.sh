#!/bin/bash
# usage: tools/seedall.sh <ID-k>   (takes /tmp/seed-out/<ID-k>, confirms it, keeps it in seeded/, runs the owning check)
ID=$1
ROOT=$(cd "$(dirname "$0")/.." && pwd)
SRC=/tmp/seed-out/$ID
[ -f "$SRC/patch.diff" ] || { echo "$ID: nothing at $SRC"; exit 3; }
mkdir -p "$ROOT/seeded/$ID"
cp -r "$SRC/patch.diff" "$SRC/meta.json" "$ROOT/seeded/$ID/"
rm -rf "$ROOT/seeded/$ID/demo"; cp -r "$SRC/demo" "$ROOT/seeded/$ID/demo"
"$ROOT/tools/seedconfirm.sh" "$ROOT/seeded/$ID" > "$ROOT/seeded/$ID/confirm.txt" 2>&1
if ! grep -q '^CONFIRMED' "$ROOT/seeded/$ID/confirm.txt"; then
  echo "$ID: NOT CONFIRMED"; tail -3 "$ROOT/seeded/$ID/confirm.txt"; exit 1
fi
"$ROOT/tools/seedrun.sh" "$ID" quick > /dev/null 2>&1
tail -1 "$ROOT/seeded/$ID/result.quick.txt"
