#!/usr/bin/env python3
"""Lead tool: integrate the findings proposals of one or more properties.

usage: tools/integrate.py [--dry] CNN [CNN ...]

For every entry of notes/CNN.findings.json that is not yet in known_findings.json:
  proposal=fix   -> apply notes/fixes/<id>.diff to /repo (git apply --3way --index) and commit it as one
                    'fix: <title>' commit; record status=fixed with the commit hash
  proposal=known -> record status=known (what / signature / witness)
An id that appears in the findings files of several properties gets the others in its "also" list.
Titles come from the entry's "title" or from notes/titles.json (id -> title); otherwise from the first clause of "what".
"""
import glob, json, os, re, subprocess, sys

ROOT = os.path.dirname(os.path.dirname(os.path.abspath(__file__)))
KF = os.path.join(ROOT, "known_findings.json")


def sh(*a, **k):
    return subprocess.run(a, text=True, capture_output=True, **k)


def title_of(e, titles):
    t = e.get("title") or titles.get(e["id"])
    if not t:
        t = re.split(r"(?<=[a-z0-9)'\"`])[;.] |; required| → required|-> required", e["what"])[0]
    t = " ".join(t.split())
    return t[:200]


def main():
    args = [a for a in sys.argv[1:] if not a.startswith("--")]
    dry = "--dry" in sys.argv
    kf = json.load(open(KF))
    have = {f["id"]: f for f in kf["findings"]}
    titles = {}
    tp = os.path.join(ROOT, "notes", "titles.json")
    if os.path.exists(tp):
        titles = json.load(open(tp))
    # which properties mention which id
    mention = {}
    for fp in glob.glob(os.path.join(ROOT, "notes", "C*.findings.json")):
        pid = os.path.basename(fp)[:3]
        try:
            for e in json.load(open(fp)):
                mention.setdefault(e["id"], set()).add(pid)
        except Exception as ex:
            print("unreadable", fp, ex)
    def save():
        if not dry:
            json.dump(kf, open(KF, "w"), indent=1, ensure_ascii=False)
            open(KF, "a").write("\n")
    for pid in args:
        fp = os.path.join(ROOT, "notes", pid + ".findings.json")
        if not os.path.exists(fp):
            print(f"{pid}: no findings file")
            continue
        save()
        entries = json.load(open(fp))
        for e in entries:
            fid = e["id"]
            also = sorted(mention.get(fid, set()) - {e.get("property", pid)})
            if fid in have:
                h = have[fid]
                merged = sorted((set(h.get("also") or []) | set(also) | {pid}) - {h.get("property")})
                if merged != (h.get("also") or []):
                    h["also"] = merged
                    print(f"{fid}: already recorded; also -> {merged}")
                continue
            rec = {"id": fid, "property": e.get("property", pid)}
            if also:
                rec["also"] = also
            if e.get("proposal") == "fix":
                diff = os.path.join(ROOT, e["fix_diff"])
                t = title_of(e, titles)
                same = [f for f in kf["findings"] if f.get("fix_diff") == e["fix_diff"] and f.get("status") == "fixed"]
                if same:  # the same repair was already committed under another finding id
                    commit = same[0]["commit"]
                    rec.update(status="fixed", commit=commit, line=f"fixed: property={rec['property']} {commit} {t}",
                               what=e["what"], witness=e.get("witness", ""), fix_diff=e["fix_diff"])
                    print(f"{fid}: repaired by the commit of {same[0]['id']} ({commit})")
                    if not dry:
                        kf["findings"].append(rec)
                        have[fid] = rec
                    continue
                # already committed under this very title (an earlier run was interrupted before recording it)?
                lg = sh("git", "-C", "/repo", "log", "--format=%h %s", "-n", "400").stdout.splitlines()
                prev = [l.split(" ", 1)[0] for l in lg if l.split(" ", 1)[1] == f"fix: {t}"]
                if prev:
                    commit = sh("git", "-C", "/repo", "rev-parse", "--short=9", prev[0]).stdout.strip()
                    rec.update(status="fixed", commit=commit, line=f"fixed: property={rec['property']} {commit} {t}",
                               what=e["what"], witness=e.get("witness", ""), fix_diff=e["fix_diff"])
                    print(f"{fid}: found existing commit {commit}")
                    if not dry:
                        kf["findings"].append(rec)
                        have[fid] = rec
                    continue
                if dry:
                    r = sh("git", "-C", "/repo", "apply", "--3way", "--check", diff)
                    print(f"{fid}: would commit 'fix: {t}' apply-check rc={r.returncode} {r.stderr.strip()[:200]}")
                    continue
                r = sh("git", "-C", "/repo", "apply", "--3way", "--index", diff)
                if r.returncode != 0:
                    print(f"{fid}: PATCH DOES NOT APPLY: {r.stderr.strip()[:400]}")
                    sh("git", "-C", "/repo", "checkout", "--", ".")
                    sh("git", "-C", "/repo", "reset", "-q", "--hard", "HEAD")
                    continue
                body = "\n".join(re.findall(r".{1,100}(?:\s|$)", " ".join(e["what"].split())))
                r = sh("git", "-C", "/repo", "commit", "-q", "-m", f"fix: {t}", "-m", body)
                if r.returncode != 0:
                    print(f"{fid}: commit failed {r.stderr[:300]}")
                    continue
                commit = sh("git", "-C", "/repo", "rev-parse", "--short=9", "HEAD").stdout.strip()
                rec.update(status="fixed", commit=commit, line=f"fixed: property={rec['property']} {commit} {t}",
                           what=e["what"], witness=e.get("witness", ""), fix_diff=e["fix_diff"])
                print(f"{fid}: committed {commit} fix: {t}")
            else:
                if dry:
                    print(f"{fid}: would record as known")
                    continue
                rec.update(status="known", what=e["what"], signature=e.get("signature", ""), witness=e.get("witness", ""),
                           why_not_fixed=e.get("why_not_fix", ""))
                print(f"{fid}: recorded as known")
            kf["findings"].append(rec)
            have[fid] = rec
    save()


if __name__ == "__main__":
    main()
