#!/bin/bash
# usage: tools/seedconfirm.sh <dir with patch.diff, demo/ (a Go test package), meta.json>
# Confirms a seeded change independently: in a scratch worktree of /repo (1) the demo passes without the patch,
# (2) the patched tree builds with -tags verif, (3) the demo fails with the patch, (4) the pinned baseline packages
# still pass with the patch (guard off, as in BASELINE.json). Prints CONFIRMED or the step that failed.
D=$(readlink -f "$1")
. "$(dirname "$0")/../env.sh"
WT=$(mktemp -d /tmp/seedc-XXXXXX); rmdir "$WT"
git -C /repo worktree add -q --detach "$WT" HEAD || exit 3
trap 'git -C /repo worktree remove --force "$WT" 2>/dev/null; rm -rf "$WT"' EXIT
cp -r "$D/demo" "$WT/verifseed_demo"
cd "$WT"
echo "== demo without patch (must pass)"
$GO test -tags verif -count=1 -timeout 600s ./verifseed_demo/ > /tmp/seedc.$$.a 2>&1; a=$?
tail -3 /tmp/seedc.$$.a
[ $a -eq 0 ] || { echo "NOT CONFIRMED: demo fails without the patch"; rm -f /tmp/seedc.$$.*; exit 1; }
git apply "$D/patch.diff" || { echo "NOT CONFIRMED: patch does not apply"; exit 1; }
echo "== build with patch"
$GO build -tags verif ./... > /tmp/seedc.$$.b 2>&1 || { tail -5 /tmp/seedc.$$.b; echo "NOT CONFIRMED: patched tree does not build"; rm -f /tmp/seedc.$$.*; exit 1; }
echo "== demo with patch (must fail)"
$GO test -tags verif -count=1 -timeout 600s ./verifseed_demo/ > /tmp/seedc.$$.c 2>&1; c=$?
tail -8 /tmp/seedc.$$.c
[ $c -ne 0 ] || { echo "NOT CONFIRMED: demo passes with the patch"; rm -f /tmp/seedc.$$.*; exit 1; }
echo "== pinned baseline packages with patch (guard off)"
$GO test -vet=off -count=1 ./errguard/... ./internal/regex/... ./internal/similartext/... ./internal/strings/... ./optgen/cmd/support/... ./sql/in_mem_table/... ./sql/planbuilder/dateparse/... ./sql/sqlredact/... ./enginetest/scriptgen/setup/... > /tmp/seedc.$$.d 2>&1; d=$?
grep -v '^ok' /tmp/seedc.$$.d | tail -5
rm -f /tmp/seedc.$$.*
[ $d -eq 0 ] || { echo "NOT CONFIRMED: baseline tests fail with the patch"; exit 1; }
echo CONFIRMED
