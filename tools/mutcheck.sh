#!/bin/bash
# usage: tools/mutcheck.sh <ID> <patch.diff> [check args...]
# Applies a patch to a scratch worktree of /repo (under /tmp), runs ./check <ID> against it
# (VERIF_REPO), prints the check's exit code and removes the worktree and its build output.
# Expected result for a property-breaking patch: exit code 1 (VIOLATION).
ID=$1; PATCH=$(readlink -f "$2"); shift 2
ROOT=$(cd "$(dirname "$0")/.." && pwd)
WT=$(mktemp -d /tmp/mut-$ID-XXXXXX)
rmdir "$WT"
git -C /repo worktree add -q --detach "$WT" HEAD || exit 3
cleanup() {
  git -C /repo worktree remove --force "$WT" 2>/dev/null
  rm -rf "$WT"
  H=$(python3 -c "import hashlib,sys;print(hashlib.sha256(sys.argv[1].encode()).hexdigest()[:10])" "$WT")
  rm -rf "$ROOT/.build/alt-$H" "$ROOT/.work-alt-$H"
}
trap cleanup EXIT
if ! git -C "$WT" apply "$PATCH"; then echo "MUTCHECK: patch does not apply"; exit 3; fi
cd "$ROOT"
VERIF_REPO="$WT" ./check "$ID" "$@" | tail -40
rc=${PIPESTATUS[0]}
echo "MUTCHECK $ID $(basename $PATCH): check exit code $rc"
exit $rc
