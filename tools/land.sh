#!/bin/bash
# usage: tools/land.sh CNN [CNN...]  — lead tool: integrate findings (fix commits / known), run the quick checks on /repo
# (3 at a time), register the ones that exit 0, regenerate manifest + results.
cd "$(dirname "$0")/.."
python3 tools/integrate.py "$@" 2>&1 | cut -c1-170
mkdir -p .work/land
printf '%s\n' "$@" | xargs -P 3 -I{} sh -c './check {} --tier quick > .work/land/{}.log 2>&1; echo $? > .work/land/{}.rc'
ok=()
for p in "$@"; do
  rc=$(cat .work/land/$p.rc)
  grep -E "^$p quick|VIOLATION|INCONCLUSIVE" .work/land/$p.log | cut -c1-220
  echo "== $p rc=$rc"
  [ "$rc" = 0 ] && ok+=($p)
done
python3 - "${ok[@]}" <<'PY'
import json,sys
p='cfg/_registered.json'
r=set(json.load(open(p)))|set(sys.argv[1:])
json.dump(sorted(r),open(p,'w'))
PY
python3 tools/mkmanifest.py; python3 tools/mkresults.py
