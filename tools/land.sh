#!/bin/bash
# usage: tools/land.sh CNN [CNN...]  — lead tool: integrate findings (fix commits / known), run each quick check on /repo,
# register the ones that exit 0, regenerate manifest + results.
cd "$(dirname "$0")/.."
python3 tools/integrate.py "$@" 2>&1 | cut -c1-170
ok=()
for p in "$@"; do
  out=$(./check $p --tier quick 2>&1); rc=$?
  echo "$out" | grep -E "^$p quick|VIOLATION|INCONCLUSIVE" | cut -c1-220
  echo "== $p rc=$rc"
  [ $rc -eq 0 ] && ok+=($p)
done
python3 - "${ok[@]}" <<'PY'
import json,sys
p='cfg/_registered.json'
r=set(json.load(open(p)))|set(sys.argv[1:])
json.dump(sorted(r),open(p,'w'))
PY
python3 tools/mkmanifest.py; python3 tools/mkresults.py
