#!/bin/bash
# usage: tools/seedrun.sh <seeded-id> [tier]
# Runs the check(s) of the property a seeded change breaks (seeded/<id>/meta.json: "property", optional
# "also_checked_by") against a scratch worktree of /repo with seeded/<id>/patch.diff applied, and records the
# outcome in seeded/<id>/result.<tier>.txt. Expected: exit code 1 (VIOLATION) from at least one check.
ID=$1; TIER=${2:-quick}
ROOT=$(cd "$(dirname "$0")/.." && pwd)
D="$ROOT/seeded/$ID"
[ -f "$D/patch.diff" ] || { echo "no $D/patch.diff"; exit 3; }
PROPS=$(python3 -c "import json,sys;m=json.load(open('$D/meta.json'));print(' '.join([m['property']]+m.get('also_checked_by',[])))")
: > "$D/result.$TIER.txt"
caught=0
for P in $PROPS; do
  out=$("$ROOT/tools/mutcheck.sh" "$P" "$D/patch.diff" --tier "$TIER" 2>&1)
  rc=$?
  echo "$out" | grep -E 'VIOLATION|MUTCHECK|INCONCLUSIVE|evaluations=' | cut -c1-300 >> "$D/result.$TIER.txt"
  [ $rc -eq 1 ] && caught=1
done
echo "seeded $ID tier=$TIER caught=$caught" | tee -a "$D/result.$TIER.txt"
[ $caught -eq 1 ]
