#!/usr/bin/env python3
"""Regenerates MANIFEST.json from checks.json (single source of truth for the check table)."""
import json, os, subprocess
ROOT = os.path.dirname(os.path.dirname(os.path.abspath(__file__)))
import glob
cfg = json.load(open(os.path.join(ROOT, "cfg", "_defaults.json")))
cfg["checks"] = {}
# only checks the lead has reviewed and accepted are claimed (cfg/_registered.json)
registered = set(json.load(open(os.path.join(ROOT, "cfg", "_registered.json"))))
for fp in sorted(glob.glob(os.path.join(ROOT, "cfg", "C*.json"))):
    if os.path.basename(fp)[:-5] in registered:
        cfg["checks"][os.path.basename(fp)[:-5]] = json.load(open(fp))
props = [json.loads(l) for l in open(os.path.join(ROOT, "properties.jsonl"))]
hooks = json.load(open(os.path.join(ROOT, "hooks.json")))
checks = []
for p in props:
    pid = p["id"]
    c = cfg["checks"].get(pid)
    if not c:
        continue
    entry = {
        "property_id": pid,
        "quick_cmd": f"./check {pid} --tier quick",
        "thorough_cmd": f"./check {pid} --tier thorough",
        "evidence_file": f"/verif/evidence/{pid}.json",
        "replay_cmd_template": f"./check {pid} --replay {{path}}",
        "engine": "rapid-harness",
        "level_claimed": {"category": c.get("level", cfg["defaults"]["level"]), "text": c["level_text"], "design_ref": f"DESIGN.md section 6, {pid}"},
        "level_note": c["level_note"],
        "technique": c["technique"],
    }
    # a thorough tier that has not been run to exit 0 on the final tree is not registered (the tier still exists in
    # cfg and can be run by hand); DESIGN.md section 9 says which and why
    if c.get("thorough_unvalidated"):
        del entry["thorough_cmd"]
    checks.append(entry)
na = []
for p in props:
    if p["id"] not in cfg["checks"]:
        na.append({"property_id": p["id"], "reason": cfg.get("not_applicable", {}).get(p["id"], "no check registered yet: the generated check designed in DESIGN.md section 6 has not been built/validated, so the property is not claimed")})
m = {
    "version": 1,
    "setup_cmd": "./setup.sh",
    "hooks": hooks,
    "engines": [{"name": "rapid-harness", "path": "/verif/harness", "serves_properties": [c["property_id"] for c in checks],
                 "kind_free_text": "Go module with pgregory.net/rapid v1.3.0 property tests (stateful where the property is over histories), porcupine as linearizability oracle, native go fuzz targets in the thorough tier; driven by /verif/check"}],
    "checks": checks,
    "notes": "All checks decide their property by generated-input search against an explicit oracle (DESIGN.md). ./check <ID> --tier quick|thorough; VERIF_SEED selects the seed; exit 2 = inconclusive. known_findings.json lists genuine defects that are recorded rather than repaired.",
    "not_applicable": na,
}
json.dump(m, open(os.path.join(ROOT, "MANIFEST.json"), "w"), indent=1)
print(f"MANIFEST.json: {len(checks)} checks, {len(na)} not claimed")
