# source me: offline Go environment for the harness
export GOFLAGS="-mod=mod -p=4" GOPROXY=off GOSUMDB=off GOTOOLCHAIN=local
GO=/root/go/pkg/mod/golang.org/toolchain@v0.0.1-go1.26.2.linux-amd64/bin/go
[ -x "$GO" ] || GO=$(command -v go1.26.8 || command -v go)
export GO
