package c30

import (
	"bytes"
	"fmt"
	"os"
	"strconv"
	"testing"
	"unicode/utf8"

	"github.com/dolthub/go-mysql-server/vh/internal/kf"
	"github.com/dolthub/go-mysql-server/vh/internal/stats"
	"pgregory.net/rapid"
)

type failFn func(format string, args ...any)

func envInt(name string, def int) int {
	if v, err := strconv.Atoi(os.Getenv(name)); err == nil {
		return v
	}
	return def
}

// safeEncode calls Encode the way the engine does (cap == len). A panic that matches the
// signature of C30-encode-oob is counted as a known hit if the finding is listed, and the
// call is repeated with spare capacity so that the *result* is still checked.
func safeEncode(c charset, s []byte, st *stats.Collector, fail failFn) (e []byte, ok bool) {
	in := exact(s)
	p, stack := guard(func() { e, ok = c.enc.Encode(in) })
	if p != nil {
		if oobSignature(c.enc, s, p) && kf.Suppress(st, kfEncodeOOB) {
			p2, stack2 := guard(func() { e, ok = c.enc.Encode(padded(s)) })
			if p2 != nil {
				fail("%s.Encode(%q) with spare capacity panics: %v\n%s", c.name, s, p2, stack2)
			}
			return e, ok
		}
		fail("%s.Encode(%q) panics: %v\n%s", c.name, s, p, stack)
	}
	if !bytes.Equal(in, s) {
		fail("%s.Encode(%q) modified its argument to %q", c.name, s, in)
	}
	return e, ok
}

// checkValid applies the round-trip / report-or-replace oracle to a valid UTF-8 string.
func checkValid(c charset, s []byte, st *stats.Collector, fail failFn) modelResult {
	m := model(c.enc, s)
	e, ok := safeEncode(c, s, st, fail)
	if ok != m.allOK {
		fail("%s.Encode(%q) = (%x, %v) but every-rune-representable is %v", c.name, s, e, ok, m.allOK)
	}
	if ok {
		if !bytes.Equal(e, m.encoded) {
			fail("%s.Encode(%q) = %x, the per-rune images give %x", c.name, s, e, m.encoded)
		}
		var d []byte
		var dok bool
		if p, stack := guard(func() { d, dok = c.enc.Decode(exact(e)) }); p != nil {
			fail("%s.Decode(%x) panics: %v\n%s", c.name, e, p, stack)
		}
		if !dok || !bytes.Equal(d, s) {
			fail("%s: round trip broken: Encode(%q) = %x, Decode of that = (%q, %v)", c.name, s, e, d, dok)
		}
	}
	var ru []byte
	if p, stack := guard(func() { ru = c.enc.EncodeReplaceUnknown(exact(s)) }); p != nil {
		fail("%s.EncodeReplaceUnknown(%q) panics: %v\n%s", c.name, s, p, stack)
	}
	if !bytes.Equal(ru, m.replaced) {
		if !(swallowSignature(m, ru) && kf.Suppress(st, kfERUSwallow)) {
			fail("%s.EncodeReplaceUnknown(%q) = %q (%x), want %q (%x): representable runes converted, the others replaced by '?'",
				c.name, s, ru, ru, m.replaced, m.replaced)
		}
	} else {
		var d []byte
		var dok bool
		if p, stack := guard(func() { d, dok = c.enc.Decode(exact(ru)) }); p != nil {
			fail("%s.Decode(%x) panics: %v\n%s", c.name, ru, p, stack)
		}
		if !dok || !bytes.Equal(d, m.decoded) {
			fail("%s: EncodeReplaceUnknown(%q) = %x decodes to (%q, %v), want %q", c.name, s, ru, d, dok, m.decoded)
		}
	}
	return m
}

func checkCase(c charset, s string, fail failFn) {
	var up, lo string
	if p, stack := guard(func() { up = c.enc.Uppercase(s); lo = c.enc.Lowercase(s) }); p != nil {
		fail("%s.Uppercase/Lowercase(%q) panics: %v\n%s", c.name, s, p, stack)
	}
	if utf8.ValidString(s) && (!utf8.ValidString(up) || !utf8.ValidString(lo)) {
		fail("%s: Uppercase(%q) = %q, Lowercase = %q: not valid UTF-8", c.name, s, up, lo)
	}
}

// TestC30Exhaustive enumerates, for every character set with an encoder, every Unicode
// scalar value. Work units are (charset, block of 4096 code points); unit u belongs to
// shard u mod shards.
func TestC30Exhaustive(t *testing.T) {
	st := stats.New("C30", "exhaustive")
	defer st.Flush()
	shard, shards := envInt("VERIF_SHARD", 0), envInt("VERIF_SHARDS", 1)
	thorough := os.Getenv("VERIF_TIER") == "thorough"
	css, without := charsets()
	st.Set("charsets_with_encoder", len(css))
	st.Set("charsets_without_encoder", without)
	fail := func(format string, args ...any) { st.Flush(); t.Fatalf(format, args...) }

	const block = 4096
	nBlocks := (0x110000 + block - 1) / block
	unit := 0
	for _, c := range css {
		_, aOK := c.enc.EncodeRune([]byte("a"))
		if !aOK {
			st.Class("no-ascii-a:" + c.name)
		}
		for b := 0; b < nBlocks; b++ {
			unit++
			if unit%shards != shard {
				continue
			}
			repr, unrepr := 0, 0
			for r := rune(b * block); r < rune((b+1)*block) && r <= 0x10FFFF; r++ {
				if r >= 0xD800 && r <= 0xDFFF {
					continue
				}
				s := []byte(string(r))
				// single rune: EncodeRune, Encode, Decode, DecodeRune, EncodeReplaceUnknown
				var er []byte
				var erOK bool
				if p, stack := guard(func() { er, erOK = c.enc.EncodeRune(exact(s)) }); p != nil {
					fail("%s.EncodeRune(%q U+%04X) panics: %v\n%s", c.name, s, r, p, stack)
				}
				if c.ref != nil {
					want := c.ref(r)
					if erOK != (want != nil) || (erOK && !bytes.Equal(er, want)) {
						fail("%s.EncodeRune(U+%04X) = (%x, %v), the definition of the encoding gives %x", c.name, r, er, erOK, want)
					}
				}
				m := checkValid(c, s, st, fail)
				if m.allOK != erOK {
					fail("%s: inconsistent EncodeRune(U+%04X)", c.name, r)
				}
				if erOK {
					repr++
					var dr []byte
					var drOK bool
					if p, stack := guard(func() { dr, drOK = c.enc.DecodeRune(exact(er)) }); p != nil {
						fail("%s.DecodeRune(%x) panics: %v\n%s", c.name, er, p, stack)
					}
					if !drOK || !bytes.Equal(dr, s) {
						fail("%s: EncodeRune(U+%04X) = %x but DecodeRune of that = (%q, %v)", c.name, r, er, dr, drOK)
					}
				} else {
					unrepr++
				}
				checkCase(c, string(s), fail)
				st.EvalN(1)
				// multi-rune buffers
				if aOK {
					checkValid(c, append([]byte("a"), s...), st, fail)
					checkValid(c, append(append([]byte(nil), s...), 'a'), st, fail)
					st.EvalN(2)
					if thorough {
						checkValid(c, append(append([]byte("a"), s...), 'a'), st, fail)
						checkValid(c, append(append([]byte(nil), s...), s...), st, fail)
						checkValid(c, append(append([]byte("ab"), s...), "é€"...), st, fail)
						st.EvalN(3)
					}
				}
			}
			st.ClassN("representable:"+c.name, repr)
			st.ClassN("unrepresentable:"+c.name, unrepr)
			// one distinct non-trivial item per (charset, block): all runes >= U+0080 of
			// the block were decided (block 0 holds 3968 of them)
			st.NonTrivial(nil, c.name, b)
		}
		// Decode direction: every 1- and 2-byte input
		for hi := -1; hi < 256; hi++ {
			unit++
			if unit%shards != shard {
				continue
			}
			okN, failN := 0, 0
			for lo := 0; lo < 256; lo++ {
				in := []byte{byte(lo)}
				if hi >= 0 {
					in = []byte{byte(hi), byte(lo)}
				}
				var d []byte
				var dok bool
				if p, stack := guard(func() { d, dok = c.enc.Decode(exact(in)) }); p != nil {
					fail("%s.Decode(%x) panics: %v\n%s", c.name, in, p, stack)
				}
				if p, stack := guard(func() { c.enc.DecodeRune(exact(in)) }); p != nil {
					fail("%s.DecodeRune(%x) panics: %v\n%s", c.name, in, p, stack)
				}
				if dok {
					okN++
					if !utf8.Valid(d) {
						// not demanded by the statement (MySQL's utf8mb3 reads CESU-8
						// surrogates too); measured only
						st.Class("decode-output-not-utf8:" + c.name)
					}
				} else {
					failN++
				}
				st.EvalN(1)
			}
			st.ClassN("decode-ok:"+c.name, okN)
			st.ClassN("decode-rejected:"+c.name, failN)
		}
	}
	st.Set("exhaustive", true)
	st.Set("code_points_per_charset", 0x110000-0x800)
}

// ---- random byte strings -----------------------------------------------------------------

var interestingRunes = []rune{
	0x00, 0x1A, '?', 'a', 'Z', '\'', '\\', 0x7F, 0x80, 0x81, 0x8D, 0x9F, 0xA0, 0xA4, 0xDF, 0xE9, 0xF1, 0xFF, 0x100, 0x141, 0x152, 0x160,
	0x17E, 0x192, 0x2C6, 0x2DC, 0x386, 0x3A9, 0x401, 0x44F, 0x531, 0x586, 0x5D0, 0x60C, 0x6D2, 0x7FF, 0x800, 0x10D0, 0x10FF,
	0x2013, 0x201C, 0x2020, 0x2022, 0x2026, 0x2030, 0x20AC, 0x2116, 0x2122, 0xD7FF, 0xE000, 0xFEFF, 0xFFFD, 0xFFFE, 0xFFFF,
	0x10000, 0x1F600, 0x10FFFF,
}

// genPiece draws one piece of a byte string: a valid rune or a malformed fragment.
func genPiece() *rapid.Generator[[]byte] {
	validRune := rapid.OneOf(
		rapid.SampledFrom(interestingRunes),
		rapid.Int32Range(0, 0x7F),
		rapid.Int32Range(0x80, 0x24F),
		rapid.Int32Range(0x370, 0x6FF),
		rapid.Int32Range(0x10A0, 0x10FF),
		rapid.Int32Range(0x2000, 0x21FF),
		rapid.Int32Range(0x800, 0xFFFF),
		rapid.Int32Range(0x10000, 0x10FFFF),
	)
	return rapid.Custom(func(rt *rapid.T) []byte {
		switch rapid.IntRange(0, 9).Draw(rt, "kind") {
		case 0, 1, 2, 3, 4: // valid rune
			r := validRune.Draw(rt, "r")
			if r >= 0xD800 && r <= 0xDFFF {
				r = 0xFFFD
			}
			return []byte(string(r))
		case 5: // truncated multi-byte sequence
			r := validRune.Draw(rt, "r")
			if r >= 0xD800 && r <= 0xDFFF || r < 0x80 {
				r = 0x20AC
			}
			b := []byte(string(r))
			return b[:rapid.IntRange(1, len(b)-1).Draw(rt, "cut")]
		case 6: // lone continuation / invalid lead bytes
			return []byte{rapid.SampledFrom([]byte{0x80, 0xBF, 0xC0, 0xC1, 0xF5, 0xF8, 0xFE, 0xFF, 0xF1, 0xE9}).Draw(rt, "b")}
		case 7: // CESU surrogates and overlongs
			return rapid.SampledFrom([][]byte{
				{0xED, 0xA0, 0x80}, {0xED, 0xBF, 0xBF}, {0xC0, 0x80}, {0xC1, 0xBF}, {0xE0, 0x80, 0x80}, {0xE0, 0x9F, 0xBF},
				{0xF0, 0x80, 0x80, 0x80}, {0xF0, 0x8F, 0xBF, 0xBF}, {0xF4, 0x90, 0x80, 0x80}, {0xF7, 0xBF, 0xBF, 0xBF},
			}).Draw(rt, "seq")
		default: // raw bytes
			return rapid.SliceOfN(rapid.Byte(), 1, 4).Draw(rt, "raw")
		}
	})
}

func genBytes(maxPieces int) *rapid.Generator[[]byte] {
	return rapid.Custom(func(rt *rapid.T) []byte {
		var b []byte
		for _, p := range rapid.SliceOfN(genPiece(), 0, maxPieces).Draw(rt, "pieces") {
			b = append(b, p...)
		}
		return b
	})
}

func TestC30(t *testing.T) {
	st := stats.New("C30", "random")
	defer st.Flush()
	css, _ := charsets()
	rapid.Check(t, func(rt *rapid.T) {
		st.Eval()
		c := css[rapid.IntRange(0, len(css)-1).Draw(rt, "charset")]
		b := genBytes(6).Draw(rt, "bytes")
		fail := failFn(rt.Fatalf)
		valid := utf8.Valid(b)
		nonASCII := false
		for _, x := range b {
			if x >= 0x80 {
				nonASCII = true
			}
		}
		if valid {
			m := checkValid(c, b, st, fail)
			switch {
			case !nonASCII:
				st.Class("valid-ascii")
			case m.allOK:
				st.Class("valid-all-representable")
			default:
				st.Class("valid-some-unrepresentable")
			}
		} else {
			st.Class("invalid-utf8")
			// only "no crash" is demanded for malformed input
			if _, ok := safeEncode(c, b, st, fail); ok {
				st.Class("invalid-utf8-accepted-by-Encode")
			}
			if p, stack := guard(func() { c.enc.EncodeReplaceUnknown(exact(b)) }); p != nil {
				fail("%s.EncodeReplaceUnknown(%q) panics: %v\n%s", c.name, b, p, stack)
			}
		}
		checkCase(c, string(b), fail)
		// the same bytes read as text *in* the character set
		var d []byte
		var dok bool
		if p, stack := guard(func() { d, dok = c.enc.Decode(exact(b)) }); p != nil {
			fail("%s.Decode(%x) panics: %v\n%s", c.name, b, p, stack)
		}
		if dok {
			st.Class("decode-accepted")
			if !utf8.Valid(d) {
				st.Class("decode-output-not-utf8")
			} else {
				// decoded text consists of representable characters only, so it must
				// survive the trip into the character set and back
				checkValid(c, d, st, fail)
			}
		} else {
			st.Class("decode-rejected")
		}
		if len(b) > 0 {
			if p, stack := guard(func() { c.enc.DecodeRune(exact(b)); c.enc.EncodeRune(exact(b)) }); p != nil {
				fail("%s.DecodeRune/EncodeRune(%x) panics: %v\n%s", c.name, b, p, stack)
			}
		}
		if nonASCII {
			st.NonTrivial(map[string]any{"charset": c.name, "bytes": fmt.Sprintf("%x", b), "valid_utf8": valid}, c.name, fmt.Sprintf("%x", b))
		}
	})
}
