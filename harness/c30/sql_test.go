package c30

import (
	"encoding/hex"
	"fmt"
	"strings"
	"sync"
	"testing"
	"unicode/utf8"

	"github.com/dolthub/go-mysql-server/vh/internal/fx"
	"github.com/dolthub/go-mysql-server/vh/internal/kf"
	"github.com/dolthub/go-mysql-server/vh/internal/stats"
	"pgregory.net/rapid"
)

// representable runes (>= U+0080, BMP) per character set, computed once through EncodeRune
var (
	reprOnce sync.Once
	reprPool map[string][]rune
)

func representablePool(css []charset) map[string][]rune {
	reprOnce.Do(func() {
		reprPool = map[string][]rune{}
		for _, c := range css {
			var rs []rune
			for r := rune(0x80); r < 0x10000; r++ {
				if r >= 0xD800 && r <= 0xDFFF {
					continue
				}
				if _, ok := c.enc.EncodeRune([]byte(string(r))); ok {
					rs = append(rs, r)
					if len(rs) >= 4096 {
						// the Unicode encodings represent everything; a sample is enough
						r += 13
					}
				}
			}
			reprPool[c.name] = rs
		}
	})
	return reprPool
}

// sqlLit renders a valid UTF-8 string without quote, backslash or control characters as a
// plain SQL string literal.
func sqlLit(s string) string { return "'" + s + "'" }

func cleanRune(r rune) rune {
	if r < 0x20 || r == '\'' || r == '\\' || r == 0x7F || (r >= 0xD800 && r <= 0xDFFF) {
		return 'x'
	}
	return r
}

func isNilDeref(p any) bool {
	return p != nil && strings.Contains(fmt.Sprint(p), "nil pointer dereference")
}

func TestC30SQL(t *testing.T) {
	st := stats.New("C30", "sql")
	defer st.Flush()
	css, without := charsets()
	pool := representablePool(css)
	byName := map[string]charset{}
	var names []string
	for _, c := range css {
		byName[c.name] = c
		names = append(names, c.name)
	}
	funcs := []string{
		"HEX(%s)", "LENGTH(%s)", "CHAR_LENGTH(%s)", "UPPER(%s)", "LOWER(%s)", "CONCAT(%s, 'é')", "SUBSTRING(%s, 2, 2)",
		"REVERSE(%s)", "TO_BASE64(%s)", "CAST(%s AS BINARY)", "%s = 'a'", "%s LIKE 'a%%'", "ORD(%s)", "BIT_LENGTH(%s)",
		"TRIM(%s)", "LEFT(%s, 1)", "LPAD(%s, 5, 'é')", "REPLACE(%s, 'a', 'é')", "MD5(%s)", "%s", "CONVERT(%s USING utf8mb4)",
		"HEX(UPPER(%s))", "LENGTH(CONCAT(%s, %[1]s))", "INSTR(%s, 'a')", "ASCII(%s)",
	}

	rapid.Check(t, func(rt *rapid.T) {
		st.Eval()
		supported := rapid.IntRange(0, 9).Draw(rt, "supported") > 0
		var name string
		if supported {
			name = rapid.SampledFrom(names).Draw(rt, "charset")
		} else {
			name = rapid.SampledFrom(without).Draw(rt, "charset-without-encoder")
		}
		c, hasEnc := byName[name]
		// a valid UTF-8 string: ASCII, runes representable in the character set, other runes
		nr := rapid.IntRange(0, 5).Draw(rt, "n")
		var sb strings.Builder
		for i := 0; i < nr; i++ {
			switch k := rapid.IntRange(0, 5).Draw(rt, "k"); {
			case k <= 1:
				sb.WriteRune(cleanRune(rapid.Int32Range(0x20, 0x7E).Draw(rt, "ascii")))
			case k <= 3 && hasEnc && len(pool[name]) > 0:
				sb.WriteRune(rapid.SampledFrom(pool[name]).Draw(rt, "repr"))
			case k == 4:
				sb.WriteRune(cleanRune(rapid.SampledFrom(interestingRunes).Draw(rt, "ir")))
			default:
				sb.WriteRune(cleanRune(rapid.Int32Range(0x80, 0x2FFF).Draw(rt, "any")))
			}
		}
		s := sb.String()
		nonASCII := false
		for _, r := range s {
			if r >= 0x80 {
				nonASCII = true
			}
		}
		mode := rapid.IntRange(0, 4).Draw(rt, "mode")

		f := fx.New(fx.Opts{})
		defer f.Close()
		sess := f.NewSession("", "", "")
		exec := func(q string) *fx.Result {
			r := sess.Exec(q)
			if r.TimedOut {
				rt.Fatalf("statement hangs: %s", q)
			}
			if r.Panic != nil {
				switch {
				case !hasEnc && isNilDeref(r.Panic) && strings.Contains(r.Stack, "ConvertUsing).Eval") && kf.Suppress(st, kfConvertNil):
				case strings.Contains(fmt.Sprint(r.Panic), "slice bounds out of range") && strings.Contains(r.Stack, "RangeMap).Encode(") && kf.Suppress(st, kfEncodeOOB):
				default:
					rt.Fatalf("statement panics: %s\n  -> %v\n%s", q, r.Panic, r.Stack)
				}
			}
			return r
		}
		val := func(r *fx.Result) (string, bool) {
			if !r.OK() || len(r.Rows) != 1 || len(r.Rows[0]) != 1 {
				return "", false
			}
			n := fx.Norm(r.Rows[0][0], nil)
			if !strings.HasPrefix(n, "s:") {
				return "", false
			}
			return n[2:], true
		}

		switch {
		case !hasEnc:
			st.Class("charset-without-encoder")
			// must be rejected (or handled), never crash
			exec(fmt.Sprintf("SELECT CONVERT(%s USING %s)", sqlLit(s), name))
			exec(fmt.Sprintf("SELECT HEX(CONVERT(%s USING %s))", sqlLit(s), name))
			exec(fmt.Sprintf("SELECT _%s%s", name, sqlLit(s)))
			exec(fmt.Sprintf("SELECT CAST(%s AS CHAR CHARACTER SET %s)", sqlLit(s), name))

		case mode == 0: // the statement's round trip through CONVERT ... USING
			st.Class("roundtrip-convert-using")
			m := model(c.enc, []byte(s))
			raw := c.enc.EncodeReplaceUnknown(exact([]byte(s)))
			rawDecoded, _ := c.enc.Decode(exact(raw))
			q := fmt.Sprintf("SELECT CONVERT(CONVERT(%s USING %s) USING utf8mb4)", sqlLit(s), name)
			r := exec(q)
			if r.Panic != nil {
				return
			}
			got, ok := val(r)
			want := string(m.decoded)
			if !ok || got != want {
				// signature of C30-convert-using-raw: the engine handed out the raw bytes of
				// the target character set as if they were its internal (utf8mb4) string
				// (observable when those bytes differ from the text they stand for)
				if ok && got == string(raw) && string(raw) != string(rawDecoded) && kf.Suppress(st, kfConvertRaw) {
					break
				}
				// C30-eru-swallow: the engine's own EncodeReplaceUnknown image, raw or decoded,
				// which lacks the tail behind an unrepresentable character
				if ok && (got == string(raw) || got == string(rawDecoded)) && swallowSignature(m, raw) && kf.Suppress(st, kfERUSwallow) {
					break
				}
				rt.Fatalf("%s\n  -> %s\n  want %q (into %s and back; unrepresentable characters as '?')", q, r, want, name)
			}
			if m.allOK {
				st.Class("roundtrip-held-all-representable")
			}

		case mode == 1: // HEX of the converted value shows the bytes in the target character set
			st.Class("hex-convert-using")
			m := model(c.enc, []byte(s))
			raw := c.enc.EncodeReplaceUnknown(exact([]byte(s)))
			rawDecoded, _ := c.enc.Decode(exact(raw))
			q := fmt.Sprintf("SELECT HEX(CONVERT(%s USING %s))", sqlLit(s), name)
			r := exec(q)
			if r.Panic != nil {
				return
			}
			got, ok := val(r)
			want := strings.ToUpper(hex.EncodeToString(m.replaced))
			if !ok || got != want {
				if string(raw) != string(rawDecoded) {
					// C30-convert-using-raw: HEX re-encodes the raw bytes a second time
					twice, fp := scan(c.enc, raw)
					if ((fp >= 0 && r.Failed()) || (fp < 0 && ok && got == strings.ToUpper(hex.EncodeToString(twice)))) && kf.Suppress(st, kfConvertRaw) {
						break
					}
				}
				if ok && swallowSignature(m, raw) && got == strings.ToUpper(hex.EncodeToString(raw)) && kf.Suppress(st, kfERUSwallow) {
					break
				}
				rt.Fatalf("%s\n  -> %s\n  want %s (the %s bytes of the string, '?' for unrepresentable characters)", q, r, want, name)
			}

		case mode == 2: // introducer: bytes in the character set are read back as the string
			st.Class("introducer")
			m := model(c.enc, []byte(s))
			if !m.allOK {
				// keep the representable part
				var keep []byte
				for _, r := range s {
					if _, ok := c.enc.EncodeRune([]byte(string(r))); ok {
						keep = append(keep, string(r)...)
					}
				}
				s = string(keep)
				m = model(c.enc, keep)
			}
			q := fmt.Sprintf("SELECT _%s X'%s'", name, hex.EncodeToString(m.encoded))
			r := exec(q)
			if r.Panic != nil {
				return
			}
			got, ok := val(r)
			if !ok || got != s {
				rt.Fatalf("%s\n  -> %s\n  want %q (these are the %s bytes of that string)", q, r, s, name)
			}
			// arbitrary bytes behind an introducer: rejected or accepted, never a crash
			junk := genBytes(3).Draw(rt, "junk")
			exec(fmt.Sprintf("SELECT _%s X'%s'", name, hex.EncodeToString(junk)))
			exec(fmt.Sprintf("SELECT HEX(_%s X'%s')", name, hex.EncodeToString(junk)))
			if !utf8.Valid(junk) {
				nonASCII = true
			}

		case mode == 3 && name != "binary": // storing into a column of the character set
			st.Class("column")
			m := model(c.enc, []byte(s))
			sess.MustExec(rt.Fatalf, fmt.Sprintf("CREATE TABLE t (a VARCHAR(20) CHARACTER SET %s)", name))
			ins := exec(fmt.Sprintf("INSERT INTO t VALUES (%s)", sqlLit(s)))
			if ins.Panic != nil {
				return
			}
			if !ins.OK() {
				if m.allOK {
					rt.Fatalf("%s column rejects %q although every character is representable: %s", name, s, ins)
				}
				st.Class("column-unrepresentable-reported")
				break
			}
			r := exec("SELECT a FROM t")
			if r.Panic != nil {
				return
			}
			got, ok := val(r)
			if !ok || got != string(m.decoded) {
				// C30-column-keeps-unknown: the unrepresentable character is stored as is
				if !(ok && !m.allOK && got == s && kf.Suppress(st, kfColumnKeep)) {
					rt.Fatalf("%s column: stored %q, read back %s, want %q", name, s, r, m.decoded)
				}
			}
			r = exec("SELECT HEX(a), LENGTH(a) FROM t")
			if r.Panic != nil {
				return
			}
			if m.allOK {
				if !r.OK() || len(r.Rows) != 1 || fx.Norm(r.Rows[0][0], nil) != "s:"+strings.ToUpper(hex.EncodeToString(m.encoded)) ||
					fx.Norm(r.Rows[0][1], nil) != fmt.Sprintf("n:%d", len(m.encoded)) {
					rt.Fatalf("%s column holding %q: HEX(a), LENGTH(a) = %s, want %X, %d", name, s, r, m.encoded, len(m.encoded))
				}
				st.Class("column-roundtrip-held")
			}

		default: // no statement over a converted value crashes
			st.Class("functions-over-converted")
			var arg string
			switch rapid.IntRange(0, 4).Draw(rt, "arg") {
			case 0, 1:
				arg = fmt.Sprintf("CONVERT(%s USING %s)", sqlLit(s), name)
			case 2:
				junk := genBytes(3).Draw(rt, "junk")
				arg = fmt.Sprintf("CONVERT(X'%s' USING %s)", hex.EncodeToString(junk), name)
				nonASCII = nonASCII || !utf8.Valid(junk)
			case 3:
				arg = fmt.Sprintf("CAST(%s AS CHAR CHARACTER SET %s)", sqlLit(s), name)
			default:
				other := rapid.SampledFrom(names).Draw(rt, "charset2")
				arg = fmt.Sprintf("CONVERT(CONVERT(%s USING %s) USING %s)", sqlLit(s), name, other)
			}
			fn := rapid.SampledFrom(funcs).Draw(rt, "fn")
			exec("SELECT " + fmt.Sprintf(fn, arg))
		}
		if nonASCII {
			st.NonTrivial(map[string]any{"charset": name, "string": s, "mode": mode}, name, s, mode)
		}
	})
}

// TestReplayC30 runs the SQL witness scripts of /verif/replays/C30.
func TestReplayC30(t *testing.T) {
	st := stats.New("C30", "replay")
	defer st.Flush()
	fx.ReplayDir(t, st)
}
