// Package c30 checks property C30: character set conversion round-trips and never crashes.
//
// Three sub-checks (one collector each):
//
//	TestC30Exhaustive  every Unicode scalar value x every character set with an encoder,
//	                   as a single-rune string and embedded in "a"+r / r+"a" (multi-rune
//	                   buffers); every 1- and 2-byte input of Decode. Partitioned by shard.
//	TestC30            rapid: random byte strings (valid runes, truncated sequences,
//	                   surrogates, overlongs, random bytes) x encoder API.
//	TestC30SQL         rapid: the SQL route (CONVERT ... USING, introducers, HEX/LENGTH/...
//	                   over converted values) on a fresh engine per case.
package c30

import (
	"bytes"
	"fmt"
	"runtime"
	"strings"
	"unicode/utf8"

	"github.com/dolthub/go-mysql-server/sql"
	"github.com/dolthub/go-mysql-server/sql/encodings"
)

// Known-finding ids proposed by this check (see notes/C30.md).
const (
	kfEncodeOOB   = "C30-encode-oob"           // RangeMap.Encode slices past len(str) -> panic
	kfERUSwallow  = "C30-eru-swallow"          // RangeMap.EncodeReplaceUnknown swallows the tail after an unknown rune
	kfConvertRaw  = "C30-convert-using-raw"    // CONVERT(x USING cs) yields the raw target-charset bytes as internal string
	kfConvertNil  = "C30-convert-using-nil"    // CONVERT(x USING <charset without encoder>) dereferences a nil encoder
	kfColumnKeep  = "C30-column-keeps-unknown" // a column of charset cs stores characters cs cannot represent, unreported
	maxRuneBytes  = 4                          // len(inputEntries) of every generated RangeMap; longest UTF-8 sequence
	replacementCh = '?'
)

type charset struct {
	id       sql.CharacterSetID
	name     string
	enc      encodings.Encoder
	rangeMap bool // table driven (RangeMap); binary and utf8mb4 are identity encoders by design
	// ref, if non-nil, is an independent definition of the encoding of one scalar value
	// (nil result = not representable). Only given where the encoding is unambiguous.
	ref func(r rune) []byte
}

// charsets returns every character set the engine lists that has an encoder, and the
// names of those without one.
func charsets() (with []charset, without []string) {
	it := sql.NewCharacterSetsIterator()
	for cs, ok := it.Next(); ok; cs, ok = it.Next() {
		if cs.Encoder == nil {
			without = append(without, cs.Name)
			continue
		}
		_, isRM := cs.Encoder.(*encodings.RangeMap)
		c := charset{id: cs.ID, name: cs.Name, enc: cs.Encoder, rangeMap: isRM}
		switch cs.Name {
		case "utf16":
			c.ref = refUTF16
		case "utf32":
			c.ref = refUTF32
		case "utf8mb3":
			c.ref = func(r rune) []byte {
				if r > 0xFFFF {
					return nil
				}
				return []byte(string(r))
			}
		case "utf8mb4", "binary":
			c.ref = func(r rune) []byte { return []byte(string(r)) }
		case "ascii":
			c.ref = func(r rune) []byte {
				if r > 0x7F {
					return nil
				}
				return []byte{byte(r)}
			}
		}
		with = append(with, c)
	}
	return
}

func refUTF16(r rune) []byte {
	if r < 0x10000 {
		return []byte{byte(r >> 8), byte(r)}
	}
	v := r - 0x10000
	hi, lo := 0xD800+(v>>10), 0xDC00+(v&0x3FF)
	return []byte{byte(hi >> 8), byte(hi), byte(lo >> 8), byte(lo)}
}

func refUTF32(r rune) []byte { return []byte{0, byte(r >> 16), byte(r >> 8), byte(r)} }

// exact returns a copy of b whose capacity equals its length: this is how the engine
// passes strings to the encoders (encodings.StringToBytes yields cap == len).
func exact(b []byte) []byte {
	c := make([]byte, len(b))
	copy(c, b)
	return c[:len(b):len(b)]
}

// padded returns a copy of b with spare capacity filled with 0xFF (a byte that occurs in no
// UTF-8 sequence). Used only to look behind finding C30-encode-oob.
func padded(b []byte) []byte {
	c := make([]byte, len(b)+8)
	copy(c, b)
	for i := len(b); i < len(c); i++ {
		c[i] = 0xFF
	}
	return c[:len(b)]
}

// guard runs f and reports a recovered panic with its stack.
func guard(f func()) (p any, stack string) {
	defer func() {
		if p = recover(); p != nil {
			buf := make([]byte, 8192)
			stack = string(buf[:runtime.Stack(buf, false)])
		}
	}()
	f()
	return nil, ""
}

// scan is the reference reading of Encode's contract on arbitrary bytes: repeatedly take
// the shortest prefix (1..4 bytes, within the string) that EncodeRune accepts. It returns
// the concatenated images and -1, or the position at which no prefix is accepted.
func scan(e encodings.Encoder, b []byte) (out []byte, failPos int) {
	pos := 0
	for pos < len(b) {
		found := false
		for n := 1; n <= maxRuneBytes && pos+n <= len(b); n++ {
			if img, ok := e.EncodeRune(b[pos : pos+n]); ok {
				out = append(out, img...)
				pos += n
				found = true
				break
			}
		}
		if !found {
			return nil, pos
		}
	}
	return out, -1
}

// oobSignature is the signature predicate of finding C30-encode-oob: Encode panicked with
// "slice bounds out of range" on an input that must be rejected (some position has no
// encodable prefix) and fewer than 4 bytes remain at that position.
func oobSignature(e encodings.Encoder, b []byte, p any) bool {
	if p == nil || !strings.Contains(fmt.Sprint(p), "slice bounds out of range") {
		return false
	}
	if _, isRM := e.(*encodings.RangeMap); !isRM {
		return false
	}
	_, fp := scan(e, b)
	return fp >= 0 && len(b)-fp < maxRuneBytes
}

// model computes, for a valid UTF-8 string, what the statement demands: every rune is
// either mapped to its EncodeRune image or (replace mode) to '?'.
type modelResult struct {
	allOK    bool
	encoded  []byte // concatenated images; valid only if allOK
	replaced []byte // images with '?' for unknown runes
	decoded  []byte // the string that `replaced` must decode to ('?' for unknown runes)
	// firstUnknownNearEnd is the byte position of the first unknown rune that has fewer
	// than 4 bytes from its start to the end of the string (-1 if none); replacedPrefix is
	// the replace-mode image of everything before it. Used by the eru-swallow signature.
	firstUnknownNearEnd int
	replacedPrefix      []byte
}

func model(e encodings.Encoder, s []byte) modelResult {
	m := modelResult{allOK: true, firstUnknownNearEnd: -1}
	for pos := 0; pos < len(s); {
		_, n := utf8.DecodeRune(s[pos:])
		img, ok := e.EncodeRune(s[pos : pos+n])
		if ok {
			m.encoded = append(m.encoded, img...)
			m.replaced = append(m.replaced, img...)
			m.decoded = append(m.decoded, s[pos:pos+n]...)
		} else {
			if m.firstUnknownNearEnd < 0 && len(s)-pos < maxRuneBytes {
				m.firstUnknownNearEnd = pos
				m.replacedPrefix = append([]byte(nil), m.replaced...)
			}
			m.allOK = false
			// the interface documents a literal question mark byte
			m.replaced = append(m.replaced, replacementCh)
			m.decoded = append(m.decoded, replacementCh)
		}
		pos += n
	}
	if !m.allOK {
		m.encoded = nil
	}
	return m
}

// swallowSignature is the signature predicate of finding C30-eru-swallow: the output is
// the correct image of everything before the first unknown rune that starts fewer than 4
// bytes before the end, followed by a single '?' — the rest of the string was swallowed.
func swallowSignature(m modelResult, got []byte) bool {
	if m.firstUnknownNearEnd < 0 || bytes.Equal(got, m.replaced) {
		return false
	}
	want := append(append([]byte(nil), m.replacedPrefix...), replacementCh)
	return bytes.Equal(got, want)
}
