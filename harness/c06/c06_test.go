// Package c06 checks property C06: statements that SQL defines as equivalent return equal
// results. One case draws a schema with data and one pair (or triple) of spellings from the
// equivalences the property lists, executes all spellings on the same data and requires equal
// row multisets.
package c06

import (
	"fmt"
	"os"
	"regexp"
	"strings"
	"testing"

	"github.com/dolthub/go-mysql-server/vh/internal/fx"
	"github.com/dolthub/go-mysql-server/vh/internal/gen"
	"github.com/dolthub/go-mysql-server/vh/internal/kf"
	"github.com/dolthub/go-mysql-server/vh/internal/stats"
	"pgregory.net/rapid"
)

type spelling struct {
	name string
	sql  string
}

// pair is one generated case: set-up statements and the equivalent spellings.
type pair struct {
	kind   string
	setup  []string
	sp     []spelling
	labels []string
}

func classOf(k gen.Kind) cls {
	switch k {
	case gen.KInt:
		return cInt
	case gen.KDec:
		return cDec
	default:
		return cStr
	}
}

func tableCols(alias string, tb *gen.Table) []colRef {
	var out []colRef
	for _, c := range tb.Cols {
		out = append(out, colRef{alias + "." + c.Name, classOf(c.Kind)})
	}
	return out
}

func scopeCols(q *gen.Select) []colRef {
	var out []colRef
	for _, f := range q.From {
		out = append(out, tableCols(f.Alias, f.Table)...)
	}
	return out
}

func refs(cs []colRef) string {
	ns := make([]string, len(cs))
	for i, c := range cs {
		ns[i] = c.ref
	}
	return strings.Join(ns, ", ")
}

// fromClause renders the FROM clause (with joins and ON conditions) of q.
func fromClause(q *gen.Select) string {
	tmp := *q
	tmp.Items = []gen.Item{{E: &gen.Raw{Text: "1"}}}
	tmp.Where, tmp.GroupBy, tmp.Having, tmp.OrderBy, tmp.Distinct, tmp.Limit, tmp.Hint = nil, nil, nil, nil, false, -1, ""
	return strings.TrimPrefix(tmp.SQL(), "SELECT 1 FROM ")
}

func whereOf(conj ...string) string {
	var cs []string
	for _, c := range conj {
		if c != "" {
			cs = append(cs, c)
		}
	}
	if len(cs) == 0 {
		return ""
	}
	return " WHERE " + strings.Join(cs, " AND ")
}

func exprSQL(e gen.Expr) string {
	if e == nil {
		return ""
	}
	return e.SQL()
}

type caseGen struct {
	rt     *rapid.T
	schema *gen.Schema
	excl   map[string]int
	skip   string // non-empty: case lies in the region of this listed finding
}

func (c *caseGen) intn(lo, hi int, l string) int { return rapid.IntRange(lo, hi).Draw(c.rt, l) }
func (c *caseGen) chance(n int, l string) bool   { return rapid.IntRange(0, n-1).Draw(c.rt, l) == 0 }

// base draws FROM / WHERE with the shared generator.
func (c *caseGen) base(minJoin, maxJoin int) (*gen.G, *gen.Select) {
	g := gen.NewG(c.rt, c.schema)
	g.NoGroup, g.NoOrder, g.NoSetOp, g.MinJoin, g.MaxJoin = true, true, true, minJoin, maxJoin
	q := g.Select()
	q.Distinct = false
	if c.intn(0, 2, "dropwhere") > 0 {
		q.Where = nil
	}
	for k, n := range g.Excl {
		c.excl[k] += n
	}
	sanitize(c.rt, q, c.excl)
	return g, q
}

// predicatePair wraps a list of equivalent predicate spellings into statements: the predicate
// as a value in the select list, or as a WHERE conjunct.
func (c *caseGen) predicateStatements(q *gen.Select, names, preds []string, selectListOnly bool) []spelling {
	from, items, w := fromClause(q), refs(scopeCols(q)), exprSQL(q.Where)
	inWhere := c.chance(2, "inwhere") && !selectListOnly
	if inWhere && reorderRegion(q) {
		c.skip = idReorder
	}
	var out []spelling
	for i, p := range preds {
		if inWhere {
			out = append(out, spelling{names[i], "SELECT " + items + " FROM " + from + whereOf(w, p)})
		} else {
			out = append(out, spelling{names[i], "SELECT " + items + ", " + p + " AS v FROM " + from + whereOf(w)})
		}
	}
	return out
}

func (c *caseGen) lits(w *W, cl cls, n int, nulls bool) []string {
	var ls []string
	for i := 0; i < n; i++ {
		var l string
		switch cl {
		case cInt:
			l = fmt.Sprint(c.intn(-3, 4, "li"))
		case cDec:
			l = w.decLit()
		case cStr:
			l = w.strLit()
		default:
			l = w.leaf(cl)
		}
		if l == "NULL" && !nulls {
			l = map[cls]string{cInt: "0", cDec: "0.25", cStr: "'a'"}[cl]
		}
		if nulls && c.chance(8, "nulllit") {
			l = "NULL"
		}
		ls = append(ls, l)
	}
	return ls
}

// x IN (list) <=> disjunction of equalities; x NOT IN (list) <=> its negation / conjunction of <>.
func (c *caseGen) inList() pair {
	_, q := c.base(1, 2)
	w := &W{rt: c.rt, cols: scopeCols(q)}
	n := c.intn(1, 6, "nin")
	if c.chance(3, "bigin") {
		n = c.intn(20, 45, "nbig") // beyond the size at which IN is evaluated through a hash table
	}
	p := pair{kind: "in-list"}
	var in, or, notIn, notOr, ne string
	selectListOnly := false
	if c.chance(5, "tuple") {
		p.labels = append(p.labels, "tuple")
		if kf.Listed(idHashTuple) {
			// region of C06-hashin-tuple-null (while listed): a row-value IN list used as a filter is
			// evaluated through a hash table that ignores NULL components; in the select list the
			// plain comparison is used
			selectListOnly = true
			c.excl[idHashTuple]++
		}
		c1, c2 := w.cmpClass(), w.cmpClass()
		if c1 == cDate || c1 == cDT {
			c1 = cInt
		}
		if c2 == cDate || c2 == cDT {
			c2 = cInt
		}
		x1, x2 := w.operand(c1, 1), w.operand(c2, 1)
		l1, l2 := c.lits(w, c1, n, true), c.lits(w, c2, n, true)
		var tup, eqs, nes []string
		for i := range l1 {
			tup = append(tup, "("+l1[i]+","+l2[i]+")")
			eqs = append(eqs, "(("+x1+" = "+l1[i]+") AND ("+x2+" = "+l2[i]+"))")
			nes = append(nes, "(("+x1+" <> "+l1[i]+") OR ("+x2+" <> "+l2[i]+"))")
		}
		x := "(" + x1 + "," + x2 + ")"
		in, or = "("+x+" IN ("+strings.Join(tup, ",")+"))", "("+strings.Join(eqs, " OR ")+")"
		notIn, notOr, ne = "("+x+" NOT IN ("+strings.Join(tup, ",")+"))", "(NOT "+or+")", "("+strings.Join(nes, " AND ")+")"
	} else {
		cl := w.cmpClass()
		if cl == cDate || cl == cDT {
			cl = cInt
		}
		x := w.operand(cl, 1)
		ls := c.lits(w, cl, n, true)
		var eqs, nes []string
		for _, l := range ls {
			eqs = append(eqs, "("+x+" = "+l+")")
			nes = append(nes, "("+x+" <> "+l+")")
		}
		in, or = "("+x+" IN ("+strings.Join(ls, ",")+"))", "("+strings.Join(eqs, " OR ")+")"
		notIn, notOr, ne = "("+x+" NOT IN ("+strings.Join(ls, ",")+"))", "(NOT "+or+")", "("+strings.Join(nes, " AND ")+")"
	}
	if n >= 20 {
		p.labels = append(p.labels, "long-list")
	}
	if c.chance(3, "notin") {
		p.labels = append(p.labels, "not-in")
		p.sp = c.predicateStatements(q, []string{"NOT IN", "NOT (disjunction of =)", "conjunction of <>"}, []string{notIn, notOr, ne}, selectListOnly)
	} else {
		p.sp = c.predicateStatements(q, []string{"IN", "disjunction of ="}, []string{in, or}, selectListOnly)
	}
	return p
}

// x BETWEEN a AND b <=> x >= a AND x <= b (and the negated forms).
func (c *caseGen) between() pair {
	_, q := c.base(1, 2)
	w := &W{rt: c.rt, cols: scopeCols(q)}
	cl := w.cmpClass()
	x, a, b := w.operand(cl, 1), w.operand(cl, 1), w.operand(cl, 1)
	pos := "((" + x + " >= " + a + ") AND (" + x + " <= " + b + "))"
	p := pair{kind: "between"}
	if c.chance(3, "notbetween") {
		p.labels = append(p.labels, "not-between")
		p.sp = c.predicateStatements(q, []string{"NOT BETWEEN", "NOT (pair of comparisons)", "x < a OR x > b"},
			[]string{"(" + x + " NOT BETWEEN " + a + " AND " + b + ")", "(NOT " + pos + ")", "((" + x + " < " + a + ") OR (" + x + " > " + b + "))"}, false)
	} else {
		p.sp = c.predicateStatements(q, []string{"BETWEEN", "pair of comparisons"}, []string{"(" + x + " BETWEEN " + a + " AND " + b + ")", pos}, false)
	}
	return p
}

// IN / EXISTS subqueries and their semi-join formulation; NOT EXISTS and its anti-join
// formulation (and NOT IN where both operands are NOT NULL columns).
func (c *caseGen) subquery() pair {
	p := pair{kind: "subquery"}
	ta := c.schema.Tables[c.intn(0, len(c.schema.Tables)-1, "ta")]
	tb := c.schema.Tables[c.intn(0, len(c.schema.Tables)-1, "tb")]
	ac, bc := tableCols("a", ta), tableCols("b", tb)
	// compared columns have exactly the same declared kind
	type cp struct{ x, y int }
	var cands []cp
	for i, x := range ta.Cols {
		for j, y := range tb.Cols {
			if x.Kind == y.Kind {
				cands = append(cands, cp{i, j})
			}
		}
	}
	sel := cands[c.intn(0, len(cands)-1, "colpair")] // never empty: column 0 of every table is an INT
	x, y := "a."+ta.Cols[sel.x].Name, "b."+tb.Cols[sel.y].Name
	f, g := "", ""
	if c.chance(2, "inner filter") {
		f = (&W{rt: c.rt, cols: bc}).Bool(1)
	}
	if c.chance(3, "outer filter") {
		g = (&W{rt: c.rt, cols: ac}).Bool(1)
	}
	items := refs(ac)
	sub := func(sel string, conj ...string) string {
		return "(SELECT " + sel + " FROM " + tb.Name + " b" + whereOf(conj...) + ")"
	}
	eq := "(" + y + " = " + x + ")"
	if c.chance(3, "anti") {
		p.labels = append(p.labels, "anti")
		p.sp = append(p.sp, spelling{"NOT EXISTS", "SELECT " + items + " FROM " + ta.Name + " a" + whereOf(g, "(NOT EXISTS "+sub("1", eq, f)+")")})
		if len(tb.PK) > 0 {
			nn := "b." + tb.Cols[tb.PK[0]].Name
			p.sp = append(p.sp, spelling{"LEFT JOIN ... IS NULL", "SELECT " + items + " FROM " + ta.Name + " a LEFT JOIN " + tb.Name + " b ON " + strings.Join(nonEmpty(eq, f), " AND ") + whereOf(g, "("+nn+" IS NULL)")})
		}
		if !ta.Cols[sel.x].Nullable && !tb.Cols[sel.y].Nullable {
			p.labels = append(p.labels, "not-in-notnull")
			p.sp = append(p.sp, spelling{"NOT IN (NOT NULL operands)", "SELECT " + items + " FROM " + ta.Name + " a" + whereOf(g, "("+x+" NOT IN "+sub(y, f)+")")})
		}
		if len(p.sp) < 2 {
			p.sp = append(p.sp, spelling{"NOT (EXISTS)", "SELECT " + items + " FROM " + ta.Name + " a" + whereOf(g, "(NOT (EXISTS "+sub(y, eq, f)+"))")})
		}
		return p
	}
	p.sp = append(p.sp,
		spelling{"IN (subquery)", "SELECT " + items + " FROM " + ta.Name + " a" + whereOf(g, "("+x+" IN "+sub(y, f)+")")},
		spelling{"EXISTS (correlated subquery)", "SELECT " + items + " FROM " + ta.Name + " a" + whereOf(g, "(EXISTS "+sub("1", eq, f)+")")})
	if len(ta.PK) > 0 {
		// the rows of a keyed table are distinct, so DISTINCT over all its columns removes exactly
		// the duplicates the join introduces
		p.labels = append(p.labels, "join-distinct")
		p.sp = append(p.sp, spelling{"DISTINCT ... INNER JOIN", "SELECT DISTINCT " + items + " FROM " + ta.Name + " a INNER JOIN " + tb.Name + " b ON " + eq + whereOf(g, f)})
	}
	return p
}

func nonEmpty(xs ...string) []string {
	var out []string
	for _, x := range xs {
		if x != "" {
			out = append(out, x)
		}
	}
	return out
}

// inner-join conditions in ON <=> in WHERE over a cross join <=> comma join.
func (c *caseGen) onWhere() pair {
	_, q := c.base(2, 3)
	var ons []string
	for i := range q.From {
		f := &q.From[i]
		if i > 0 && f.Join != "CROSS" {
			f.Join = "INNER"
			ons = append(ons, f.On.SQL())
		}
	}
	items, w := refs(scopeCols(q)), exprSQL(q.Where)
	p := pair{kind: "on-where"}
	p.sp = append(p.sp, spelling{"conditions in ON", "SELECT " + items + " FROM " + fromClause(q) + whereOf(w)})
	var comma []string
	for i := range q.From {
		f := &q.From[i]
		comma = append(comma, f.Name+" "+f.Alias)
		if i > 0 {
			f.Join, f.On = "CROSS", nil
		}
	}
	conds := append(append([]string{}, ons...), w)
	p.sp = append(p.sp,
		spelling{"CROSS JOIN, conditions in WHERE", "SELECT " + items + " FROM " + fromClause(q) + whereOf(conds...)},
		spelling{"comma join, conditions in WHERE", "SELECT " + items + " FROM " + strings.Join(comma, ", ") + whereOf(conds...)})
	return p
}

// CTE <=> derived table <=> inlined body.
func (c *caseGen) derived() pair {
	_, q := c.base(1, 3)
	f0 := &q.From[0]
	tb := f0.Table
	const ph = "@@"
	body := (&W{rt: c.rt, cols: tableCols(ph, tb)}).Bool(2)
	bodySQL := "SELECT " + refs(tableCols("z", tb)) + " FROM " + tb.Name + " z WHERE " + strings.ReplaceAll(body, ph, "z")
	items, w := refs(scopeCols(q)), exprSQL(q.Where)
	p := pair{kind: "derived"}
	if reorderRegion(q) {
		c.skip = idReorder // the inlined form adds a WHERE conjunct
	}
	f0.Name = "v"
	p.sp = append(p.sp, spelling{"CTE", "WITH v AS (" + bodySQL + ") SELECT " + items + " FROM " + fromClause(q) + whereOf(w)})
	f0.Name = "(" + bodySQL + ")"
	p.sp = append(p.sp, spelling{"derived table", "SELECT " + items + " FROM " + fromClause(q) + whereOf(w)})
	f0.Name = tb.Name
	rightJoin := false
	for _, f := range q.From[1:] {
		rightJoin = rightJoin || f.Join == "RIGHT"
	}
	if !rightJoin {
		// the first FROM item is on the preserved side of every later join, so its filter may be
		// applied after the joins
		p.labels = append(p.labels, "inlined")
		p.sp = append(p.sp, spelling{"inlined body", "SELECT " + items + " FROM " + fromClause(q) + whereOf(strings.ReplaceAll(body, ph, f0.Alias), w)})
	}
	return p
}

// an expression over literal constants <=> the same expression over the columns of a one-row
// table holding those constants.
func (c *caseGen) constCol() pair {
	p := pair{kind: "const-vs-column"}
	w := &W{rt: c.rt}
	var defs, vals []string
	lit := map[string]string{}
	n := c.intn(2, 4, "natoms")
	for i := 0; i < n; i++ {
		name := fmt.Sprintf("a%d", i)
		var cl cls
		var typ, v string
		switch c.intn(0, 3, "atomclass") {
		case 0:
			cl, typ, v = cInt, "BIGINT", fmt.Sprint(c.intn(-3, 4, "ai"))
		case 1:
			cl, typ = cDec, "DECIMAL(10,2)"
			for v = "NULL"; v == "NULL"; v = w.decLit() {
			}
		case 2:
			cl, typ = cStr, "VARCHAR(8)"
			for v = "NULL"; v == "NULL"; v = w.strLit() {
			}
		default:
			cl, typ, v = cDate, "DATE", quote(rapid.SampledFrom(dateLits).Draw(c.rt, "ad"))
		}
		if c.chance(8, "nullatom") {
			v = "NULL"
		}
		w.cols = append(w.cols, colRef{"k." + name, cl})
		defs = append(defs, name+" "+typ)
		vals = append(vals, v)
		switch {
		case v == "NULL":
			lit["k."+name] = "NULL"
		case cl == cDate:
			lit["k."+name] = "CAST(" + v + " AS DATE)"
		default:
			lit["k."+name] = "(" + v + ")"
		}
	}
	p.setup = []string{"CREATE TABLE k0 (" + strings.Join(defs, ", ") + ")", "INSERT INTO k0 VALUES (" + strings.Join(vals, ",") + ")"}
	var e string
	switch c.intn(0, 4, "exprclass") {
	case 0:
		e = w.Int(3)
	case 1:
		e = w.Dec(3)
	case 2:
		e = w.Str(3)
	default:
		e = w.Bool(3)
	}
	le := e
	for k, v := range lit {
		le = strings.ReplaceAll(le, k, v)
	}
	if w.nCol == 0 {
		p.labels = append(p.labels, "no-atom-used")
	}
	p.sp = []spelling{{"over literals", "SELECT " + le + " AS v"}, {"over columns", "SELECT " + e + " AS v FROM k0 k"}}
	return p
}

var reIDs = regexp.MustCompile(`(tableId|colSet): [^\n]*\n`)

func TestC06(t *testing.T) {
	st := stats.New("C06", "")
	defer st.Flush()
	maxRows := 8
	if os.Getenv("VERIF_TIER") == "thorough" {
		maxRows = 12
	}
	rapid.Check(t, func(rt *rapid.T) {
		st.Eval()
		schema := gen.GenSchema(rt, gen.SchemaOpts{MinTables: 1, MaxTables: 3, MaxRows: maxRows, Keys: true, ForcePK: true})
		c := &caseGen{rt: rt, schema: schema, excl: map[string]int{}}
		var p pair
		switch rapid.SampledFrom([]string{"in-list", "between", "subquery", "on-where", "derived", "const-vs-column"}).Draw(rt, "kind") {
		case "in-list":
			p = c.inList()
		case "between":
			p = c.between()
		case "subquery":
			p = c.subquery()
		case "on-where":
			p = c.onWhere()
		case "derived":
			p = c.derived()
		default:
			p = c.constCol()
		}
		for k, n := range c.excl {
			for i := 0; i < n; i++ {
				st.Excluded(k)
			}
		}
		if c.skip != "" {
			st.Excluded(c.skip)
			return
		}
		f := fx.New(fx.Opts{})
		defer f.Close()
		s := f.NewSession("", "", "")
		s.MustExec(rt.Fatalf, schema.DDL(true)...)
		s.MustExec(rt.Fatalf, p.setup...)
		type out struct {
			res  *fx.Result
			rows [][]string
			plan string
		}
		outs := make([]out, len(p.sp))
		failed := 0
		for i, sp := range p.sp {
			r := s.Exec(sp.sql)
			outs[i] = out{res: r, plan: s.Plan(sp.sql)}
			if r.TimedOut {
				rt.Skip("timeout")
			}
			if !r.OK() {
				failed++
				continue
			}
			outs[i].rows = fx.NormRows(r.Schema, r.Rows)
			if id := rangeHeapRegion(outs[i].plan); id != "" {
				st.Excluded(id)
				return
			}
		}
		st.Class("kind:" + p.kind)
		report := func(what string) {
			var sb strings.Builder
			for i, sp := range p.sp {
				fmt.Fprintf(&sb, "[%s]\n  %s\n  -> %s\n", sp.name, sp.sql, outs[i].res)
			}
			rt.Fatalf("%s (%s)\nsetup: %s\n%s", what, p.kind, strings.Join(append(schema.DDL(true), p.setup...), "; "), sb.String())
		}
		if failed == len(p.sp) {
			st.Class("discard:all-spellings-fail")
			return
		}
		if failed > 0 {
			for _, o := range outs {
				if o.res.Failed() {
					msg := o.res.Err.Error()
					if strings.Contains(msg, "failed to reorder join, unexpected intermediate expression") && kf.Suppress(st, idInterm) {
						return
					}
					if strings.Contains(msg, "unable to find field with index") && kf.Suppress(st, idOuterSub) {
						return
					}
				}
			}
			report("one spelling fails where an equivalent one returns rows")
		}
		for i := 1; i < len(outs); i++ {
			if !fx.MultisetEqual(outs[0].rows, outs[i].rows) {
				report(fmt.Sprintf("[%s] and [%s] are equivalent but return different rows", p.sp[0].name, p.sp[i].name))
			}
		}
		for _, l := range p.labels {
			st.Class(p.kind + ":" + l)
		}
		plans := map[string]bool{}
		for _, o := range outs {
			plans[reIDs.ReplaceAllString(o.plan, "")] = true
		}
		if len(outs[0].rows) > 0 {
			st.Class("nonempty")
		}
		if len(plans) >= 2 {
			st.Class("plans-differ")
		}
		if len(outs[0].rows) > 0 && len(plans) >= 2 {
			st.NonTrivial(map[string]any{"kind": p.kind, "a": p.sp[0].sql, "b": p.sp[1].sql, "rows": len(outs[0].rows)},
				schema.Describe(), strings.Join(p.setup, ";"), p.sp[0].sql, p.sp[1].sql)
		}
	})
}

func TestReplayC06(t *testing.T) {
	st := stats.New("C06", "replay")
	defer st.Flush()
	fx.ReplayDir(t, st)
}
