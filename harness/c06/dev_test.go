package c06

import (
	"os"
	"strings"
	"testing"

	"github.com/dolthub/go-mysql-server/vh/internal/fx"
)

func TestDevStack(t *testing.T) {
	src := os.Getenv("DEV_SQL")
	if src == "" {
		t.Skip()
	}
	stmts := strings.Split(src, ";")
	f := fx.New(fx.Opts{})
	s := f.NewSession("", "", "")
	for _, st := range stmts {
		if strings.TrimSpace(st) == "" {
			continue
		}
		r := s.Exec(st)
		t.Logf("%s\n -> %s\n%s", st, r, r.Stack)
		if os.Getenv("DEV_PLAN") != "" && strings.HasPrefix(strings.TrimSpace(st), "SELECT") {
			t.Logf("plan:\n%s", s.Plan(st))
		}
	}
}
