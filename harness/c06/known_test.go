package c06

import (
	"testing"

	"github.com/dolthub/go-mysql-server/vh/internal/fx"
	"github.com/dolthub/go-mysql-server/vh/internal/kf"
	"github.com/dolthub/go-mysql-server/vh/internal/stats"
)

// witness is a minimised pair of a finding: after setup, a and b must return the same rows.
type witness struct {
	id    string
	setup []string
	a, b  string
}

var witnesses = []witness{
	{idHashTuple,
		[]string{"CREATE TABLE t0 (c0 INT NOT NULL, c1 INT, PRIMARY KEY (c0))", "INSERT INTO t0 VALUES (0,NULL),(2,1)"},
		"SELECT x1.c0 FROM t0 x1 WHERE ((x1.c1,x1.c0) NOT IN ((NULL,NULL),(1,3)))",
		"SELECT x1.c0 FROM t0 x1 WHERE (NOT (((x1.c1 = NULL) AND (x1.c0 = NULL)) OR ((x1.c1 = 1) AND (x1.c0 = 3))))"},
	{idHashTuple,
		[]string{"CREATE TABLE t0 (c0 INT NOT NULL, c1 INT, PRIMARY KEY (c0))", "INSERT INTO t0 VALUES (0,NULL),(2,1)"},
		"SELECT x1.c0 FROM t0 x1 WHERE ((x1.c1,x1.c0) NOT IN ((7,0),(1,3)))",
		"SELECT x1.c0 FROM t0 x1 WHERE (NOT (((x1.c1 = 7) AND (x1.c0 = 0)) OR ((x1.c1 = 1) AND (x1.c0 = 3))))"},
	// same region, other symptom: a NULL literal as a component makes the hashed form fail with
	// 'value not nil: 0' (the compare type of the component is taken from the NULL literal)
	{idHashTuple,
		[]string{"CREATE TABLE t0 (c0 INT NOT NULL, c1 INT, PRIMARY KEY (c0))", "INSERT INTO t0 VALUES (0,0)"},
		"SELECT x1.c0 FROM t0 x1 WHERE ((NULL,x1.c0) NOT IN ((NULL,NULL),(0,NULL)))",
		"SELECT x1.c0 FROM t0 x1 WHERE (NOT (((NULL = NULL) AND (x1.c0 = NULL)) OR ((NULL = 0) AND (x1.c0 = NULL))))"},
}

// TestC06Known re-confirms the witnesses of the findings of this property: a listed finding
// must still misbehave (else it is reported as stale, not as a failure); a finding that is not
// listed (never listed, or repaired) must satisfy the property.
func TestC06Known(t *testing.T) {
	st := stats.New("C06", "known")
	defer st.Flush()
	for i, w := range witnesses {
		st.Eval()
		f := fx.New(fx.Opts{})
		s := f.NewSession("", "", "")
		s.MustExec(t.Fatalf, w.setup...)
		ra, rb := s.Exec(w.a), s.Exec(w.b)
		f.Close()
		equal := ra.OK() && rb.OK() && fx.MultisetEqual(fx.NormRows(ra.Schema, ra.Rows), fx.NormRows(rb.Schema, rb.Rows))
		switch {
		case equal && kf.Listed(w.id):
			t.Logf("witness %d of listed finding %s no longer reproduces (stale listing?)", i, w.id)
		case equal:
			st.NonTrivial(nil, "witness", i)
		case kf.Suppress(st, w.id):
			st.NonTrivial(nil, "witness", i)
			t.Logf("known finding %s reproduces: %s -> %s; %s -> %s", w.id, w.a, ra, w.b, rb)
		default:
			t.Errorf("finding %s (not listed as known): equivalent statements differ\n%v\n%s\n -> %s\n%s\n -> %s", w.id, w.setup, w.a, ra, w.b, rb)
		}
	}
}
