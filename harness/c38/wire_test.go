package c38

import (
	"context"
	"database/sql/driver"
	"fmt"
	"io"
	"net"
	"os"
	"strings"
	"sync/atomic"
	"testing"
	"time"

	sqle "github.com/dolthub/go-mysql-server"
	"github.com/dolthub/go-mysql-server/memory"
	"github.com/dolthub/go-mysql-server/server"
	"github.com/dolthub/go-mysql-server/sql"
	"github.com/dolthub/go-mysql-server/vh/internal/stats"
	"github.com/go-sql-driver/mysql"
	"github.com/sirupsen/logrus"
	"pgregory.net/rapid"
)

// watchdog is how long the harness waits for an event that the server must produce (a
// connection being torn down). It is never an oracle: when it expires the run is abandoned
// as inconclusive (the driver classifies the "test timed out" marker as exit 2).
const watchdog = 90 * time.Second

func inconclusive(st *stats.Collector, format string, a ...any) {
	if st != nil {
		st.Flush()
	}
	fmt.Printf("panic: test timed out (harness watchdog, not a verdict): "+format+"\n", a...)
	os.Exit(3)
}

// events counts the server's own connection notifications.
type events struct {
	connected    atomic.Int64
	disconnected atomic.Int64
}

func (e *events) ClientConnected()                   { e.connected.Add(1) }
func (e *events) ClientDisconnected()                { e.disconnected.Add(1) }
func (e *events) QueryStarted()                      {}
func (e *events) QueryCompleted(bool, time.Duration) {}

// wsrv is a real server on a loopback port.
type wsrv struct {
	engine *sqle.Engine
	srv    *server.Server
	addr   string
	ev     *events
	done   chan struct{}
}

func startServer() (*wsrv, error) {
	logrus.SetOutput(io.Discard) // connection life-cycle chatter of the server
	pro := memory.NewDBProvider(memory.NewDatabase("d"))
	engine := sqle.NewDefault(pro)
	ln, err := net.Listen("tcp", "127.0.0.1:0")
	if err != nil {
		return nil, err
	}
	w := &wsrv{engine: engine, addr: ln.Addr().String(), ev: &events{}, done: make(chan struct{})}
	cfg := server.Config{Protocol: "tcp", Address: w.addr, Listener: ln}
	w.srv, err = server.NewServer(cfg, engine, sql.NewContext, memory.NewSessionBuilder(pro), w.ev)
	if err != nil {
		ln.Close()
		return nil, err
	}
	go func() {
		defer close(w.done)
		_ = w.srv.Start()
	}()
	return w, nil
}

// stop closes the listener, waits for the accept loop and for every connection handler.
func (w *wsrv) stop(st *stats.Collector) {
	_ = w.srv.Close()
	fin := make(chan struct{})
	go func() {
		<-w.done
		w.srv.SessionManager().WaitForClosedConnections()
		close(fin)
	}()
	select {
	case <-fin:
	case <-time.After(watchdog):
		inconclusive(st, "server teardown did not finish")
	}
	_ = w.engine.Close()
}

// waitDisconnected blocks until the server has reported n finished connection tear-downs
// (Handler.ConnectionClosed calls the listener last, after locks, session and process-list
// entry were dealt with).
func (w *wsrv) waitDisconnected(st *stats.Collector, n int64) {
	deadline := time.Now().Add(watchdog)
	for w.ev.disconnected.Load() < n {
		if time.Now().After(deadline) {
			inconclusive(st, "server did not finish closing a connection (%d of %d)", w.ev.disconnected.Load(), n)
		}
		time.Sleep(100 * time.Microsecond)
	}
}

// wclient is one client connection (exactly one TCP connection, no pool).
type wclient struct {
	dc  driver.Conn
	raw net.Conn
	id  uint32
}

func (w *wsrv) connect() (*wclient, error) {
	c := &wclient{}
	cfg := mysql.NewConfig()
	cfg.User, cfg.Net, cfg.Addr, cfg.DBName = "root", "tcp", w.addr, "d"
	cfg.DialFunc = func(ctx context.Context, network, addr string) (net.Conn, error) {
		var d net.Dialer
		nc, err := d.DialContext(ctx, network, addr)
		c.raw = nc
		return nc, err
	}
	conn, err := mysql.NewConnector(cfg)
	if err != nil {
		return nil, err
	}
	if c.dc, err = conn.Connect(context.Background()); err != nil {
		return nil, err
	}
	null, v, err := c.scalar("SELECT CONNECTION_ID()")
	if err != nil || null {
		c.dc.Close()
		return nil, fmt.Errorf("CONNECTION_ID(): null=%v err=%v", null, err)
	}
	c.id = uint32(v)
	return c, nil
}

// query runs a statement and returns all rows as strings ("NULL" for NULL).
func (c *wclient) query(q string) ([][]string, error) {
	rows, err := c.dc.(driver.QueryerContext).QueryContext(context.Background(), q, nil)
	if err != nil {
		return nil, err
	}
	defer rows.Close()
	var res [][]string
	dest := make([]driver.Value, len(rows.Columns()))
	for {
		if err := rows.Next(dest); err != nil {
			if err == io.EOF {
				return res, nil
			}
			return res, err
		}
		row := make([]string, len(dest))
		for i, v := range dest {
			switch x := v.(type) {
			case nil:
				row[i] = "NULL"
			case []byte:
				row[i] = string(x)
			default:
				row[i] = fmt.Sprint(x)
			}
		}
		res = append(res, row)
	}
}

func (c *wclient) scalar(q string) (bool, int64, error) {
	rows, err := c.query(q)
	if err != nil {
		return false, 0, fmt.Errorf("%s: %w", q, err)
	}
	if len(rows) != 1 || len(rows[0]) != 1 {
		return false, 0, fmt.Errorf("%s: expected one value, got %v", q, rows)
	}
	if rows[0][0] == "NULL" {
		return true, 0, nil
	}
	var v int64
	if _, err := fmt.Sscan(rows[0][0], &v); err != nil {
		return false, 0, fmt.Errorf("%s: value %q: %w", q, rows[0][0], err)
	}
	return false, v, nil
}

// TestC38Wire — part C: locks over the wire; a session's locks are released when the
// connection goes away (COM_QUIT, abrupt socket close, KILL CONNECTION), and only then.
func TestC38Wire(t *testing.T) {
	st := stats.New("C38", "wire")
	defer st.Flush()
	rapid.Check(t, func(rt *rapid.T) {
		st.Eval()
		w, err := startServer()
		if err != nil {
			rt.Fatalf("harness: cannot start server: %v", err)
		}
		nSlots := rapid.IntRange(2, 3).Draw(rt, "clients")
		names := rapid.Permutation(namePool).Draw(rt, "namePool")[:rapid.IntRange(1, 2).Draw(rt, "names")]
		slots := make([]*wclient, nSlots)
		model := map[string]lockSt{}
		var trace []string
		var gone int64 // connections whose tear-down has been awaited
		logf := func(f string, a ...any) { trace = append(trace, fmt.Sprintf(f, a...)) }
		show := func() string {
			return "history:\n  " + strings.Join(trace, "\n  ") + fmt.Sprintf("\nmodel: %+v", model)
		}
		defer func() {
			for _, c := range slots {
				if c != nil {
					c.dc.Close()
				}
			}
			w.stop(st)
		}()
		for i := range slots {
			if slots[i], err = w.connect(); err != nil {
				rt.Fatalf("harness: connect: %v", err)
			}
			logf("client %d connected with id %d", i, slots[i].id)
		}
		live := func() []int {
			var l []int
			for i, c := range slots {
				if c != nil {
					l = append(l, i)
				}
			}
			return l
		}
		releasedAfterDrop, takenOver := map[string]bool{}, false
		drop := func(id uint32) {
			for n, cur := range model {
				if cur.owner == id {
					model[n] = lockSt{}
					releasedAfterDrop[n] = true
				}
			}
		}
		check := func(rt *rapid.T) {
			for _, n := range names {
				// in-process view
				stt, owner := w.engine.LS.GetLockState(n)
				o := out{inUse: stt == sql.LockInUse, owner: owner, ownerKnown: true}
				if ok, _ := step(model[n], in{kind: opState}, o); !ok {
					rt.Fatalf("lock %q: engine reports %+v, model has %+v\n%s", n, o, model[n], show())
				}
			}
			// and through a live client
			if l := live(); len(l) > 0 {
				c := slots[l[0]]
				for _, n := range names {
					null, v, err := c.scalar("SELECT IS_USED_LOCK(" + quote(n) + ")")
					if err != nil {
						rt.Fatalf("IS_USED_LOCK failed: %v\n%s", err, show())
					}
					o := out{inUse: !null, owner: uint32(v), ownerKnown: true}
					if ok, _ := step(model[n], in{kind: opState}, o); !ok {
						rt.Fatalf("lock %q: IS_USED_LOCK reports %+v, model has %+v\n%s", n, o, model[n], show())
					}
					null, v, err = c.scalar("SELECT IS_FREE_LOCK(" + quote(n) + ")")
					if err != nil || null {
						rt.Fatalf("IS_FREE_LOCK failed: null=%v %v\n%s", null, err, show())
					}
					if ok, _ := step(model[n], in{kind: opState}, out{inUse: v == 0}); !ok {
						rt.Fatalf("lock %q: IS_FREE_LOCK = %d, model has %+v\n%s", n, v, model[n], show())
					}
				}
			}
		}
		pickLive := func(rt *rapid.T, label string) (int, bool) {
			l := live()
			if len(l) == 0 {
				return 0, false
			}
			return rapid.SampledFrom(l).Draw(rt, label), true
		}
		slowUsed := false

		rt.Repeat(map[string]func(*rapid.T){
			"connect": func(rt *rapid.T) {
				for i, c := range slots {
					if c == nil {
						if slots[i], err = w.connect(); err != nil {
							rt.Fatalf("harness: connect: %v\n%s", err, show())
						}
						logf("client %d connected with id %d", i, slots[i].id)
						return
					}
				}
				rt.Skip("all slots connected")
			},
			"get": func(rt *rapid.T) {
				s, ok := pickLive(rt, "s")
				if !ok {
					rt.Skip("no client")
				}
				c, n := slots[s], rapid.SampledFrom(names).Draw(rt, "n")
				cur := model[n]
				blocked := cur.owner != 0 && cur.owner != c.id
				tmo := "0"
				if !blocked {
					tmo = rapid.SampledFrom([]string{"0", "0", "5", "-1"}).Draw(rt, "timeout")
				} else if !slowUsed && rapid.IntRange(0, 7).Draw(rt, "slow") == 0 {
					tmo, slowUsed = "1", true // a real one-second wait that must end with 0: at most once per case
				}
				q := fmt.Sprintf("SELECT GET_LOCK(%s, %s)", quote(n), tmo)
				null, v, err := c.scalar(q)
				logf("client %d (id %d): %s -> null=%v %d err=%v", s, c.id, q, null, v, err)
				if err != nil || null || (v != 0 && v != 1) {
					rt.Fatalf("%s: null=%v v=%d err=%v\n%s", q, null, v, err, show())
				}
				legal, next := step(cur, in{kind: opAcquire, sess: c.id}, out{ok: v == 1})
				if !legal {
					rt.Fatalf("%s by id %d returned %d in state %+v\n%s", q, c.id, v, cur, show())
				}
				if v == 1 && cur.owner == 0 && releasedAfterDrop[n] {
					takenOver = true
				}
				model[n] = next
			},
			"release": func(rt *rapid.T) {
				s, ok := pickLive(rt, "s")
				if !ok {
					rt.Skip("no client")
				}
				c, n := slots[s], rapid.SampledFrom(names).Draw(rt, "n")
				cur := model[n]
				q := fmt.Sprintf("SELECT RELEASE_LOCK(%s)", quote(n))
				null, v, err := c.scalar(q)
				logf("client %d (id %d): %s -> null=%v %d err=%v", s, c.id, q, null, v, err)
				if err != nil {
					rt.Fatalf("%s: %v\n%s", q, err, show())
				}
				legal, next := step(cur, in{kind: opUnlock, sess: c.id}, out{ok: !null && v == 1})
				if !legal {
					rt.Fatalf("%s by id %d returned null=%v %d in state %+v\n%s", q, c.id, null, v, cur, show())
				}
				model[n] = next
			},
			"releaseAll": func(rt *rapid.T) {
				s, ok := pickLive(rt, "s")
				if !ok {
					rt.Skip("no client")
				}
				c := slots[s]
				null, v, err := c.scalar("SELECT RELEASE_ALL_LOCKS()")
				logf("client %d (id %d): RELEASE_ALL_LOCKS() -> null=%v %d err=%v", s, c.id, null, v, err)
				if err != nil || null {
					rt.Fatalf("RELEASE_ALL_LOCKS: null=%v %v\n%s", null, err, show())
				}
				for n, cur := range model {
					if cur.owner == c.id {
						model[n] = lockSt{}
					}
				}
			},
			"disconnect": func(rt *rapid.T) {
				s, ok := pickLive(rt, "s")
				if !ok {
					rt.Skip("no client")
				}
				c := slots[s]
				how := rapid.SampledFrom([]string{"quit", "abort"}).Draw(rt, "how")
				if how == "abort" {
					c.raw.Close() // the socket goes away without COM_QUIT
				}
				c.dc.Close()
				slots[s] = nil
				gone++
				w.waitDisconnected(st, gone)
				logf("client %d (id %d): disconnected (%s); server finished closing it", s, c.id, how)
				drop(c.id)
			},
			"kill": func(rt *rapid.T) {
				l := live()
				if len(l) < 2 {
					rt.Skip("need two clients")
				}
				a := rapid.SampledFrom(l).Draw(rt, "killer")
				b := rapid.SampledFrom(l).Draw(rt, "victim")
				if a == b {
					rt.Skip("self")
				}
				kind := rapid.SampledFrom([]string{"KILL CONNECTION", "KILL", "KILL QUERY"}).Draw(rt, "kind")
				q := fmt.Sprintf("%s %d", kind, slots[b].id)
				_, err := slots[a].query(q)
				logf("client %d (id %d): %s -> err=%v", a, slots[a].id, q, err)
				if err != nil {
					rt.Fatalf("%s failed: %v\n%s", q, err, show())
				}
				if kind == "KILL QUERY" {
					return // the idle victim stays connected and keeps its locks
				}
				gone++
				w.waitDisconnected(st, gone)
				logf("server finished closing id %d", slots[b].id)
				drop(slots[b].id)
				slots[b].dc.Close()
				slots[b] = nil
			},
			"": check,
		})
		// everybody leaves: every lock must be free once the server has closed the connections
		for i, c := range slots {
			if c != nil {
				c.dc.Close()
				slots[i] = nil
				gone++
				drop(c.id)
			}
		}
		w.waitDisconnected(st, gone)
		logf("all clients disconnected")
		check(rt)
		if c := w.ev.connected.Load(); c != w.ev.disconnected.Load() {
			rt.Fatalf("harness: %d connections opened, %d closed\n%s", c, w.ev.disconnected.Load(), show())
		}
		if len(releasedAfterDrop) > 0 {
			st.Class("drop-of-a-holder")
		}
		if slowUsed {
			st.Class("timed-out-wait")
		}
		if takenOver {
			st.Class("taken-over-after-drop")
			st.NonTrivial(map[string]any{"clients": nSlots, "names": names, "history": trace}, trace)
		}
	})
}
