package c38

import (
	"fmt"
	"strings"
	"testing"

	"github.com/dolthub/go-mysql-server/vh/internal/stats"
	"pgregory.net/rapid"
)

// Names differ by more than letter case: MySQL compares lock names case-insensitively, the
// engine byte-wise; the statement is silent about that, so it is not probed.
var namePool = []string{"a", "b", "lock c", "d'q", "ü"}

// seqMachine is the sequential state machine shared by the API and the SQL variant.
type seqMachine struct {
	b      backend
	names  []string
	model  map[string]lockSt
	trace  []string
	reent  bool // saw a re-entrant acquire
	cont   bool // saw a refused (contended) acquire
	nrel   bool // saw a release that needed fewer calls than acquires (count > 1 then down to 0)
	failed bool
}

func (m *seqMachine) logf(format string, a ...any) {
	m.trace = append(m.trace, fmt.Sprintf(format, a...))
}

func (m *seqMachine) show() string {
	return "history:\n  " + strings.Join(m.trace, "\n  ") + fmt.Sprintf("\nmodel: %+v", m.model)
}

func (m *seqMachine) held(id uint32) (names int, levels int) {
	for _, s := range m.model {
		if s.owner == id {
			names++
			levels += s.count
		}
	}
	return
}

// checkAll compares the observable state of every lock with the model (the invariant
// evaluated after every step).
func (m *seqMachine) checkAll(rt *rapid.T, via int) {
	for _, n := range m.names {
		for _, free := range []bool{false, true} {
			o, how, err := m.b.state(via, n, free)
			if err != nil {
				rt.Fatalf("%s on %q failed: %v\n%s", how, n, err, m.show())
			}
			if ok, _ := step(m.model[n], in{kind: opState}, o); !ok {
				rt.Fatalf("%s on %q reports %+v but the model has %+v\n%s", how, n, o, m.model[n], m.show())
			}
		}
	}
}

func runSeq(t *testing.T, st *stats.Collector, mk func(rt *rapid.T, nSess int) backend, sqlMode bool) {
	rapid.Check(t, func(rt *rapid.T) {
		st.Eval()
		nSess := rapid.IntRange(2, 4).Draw(rt, "sessions")
		nNames := rapid.IntRange(2, 3).Draw(rt, "names")
		b := mk(rt, nSess)
		defer b.close()
		ids := b.ids()
		perm := rapid.Permutation(namePool).Draw(rt, "namePool")
		m := &seqMachine{b: b, names: perm[:nNames], model: map[string]lockSt{}}
		sess := rapid.IntRange(0, nSess-1)
		name := rapid.SampledFrom(m.names)

		rt.Repeat(map[string]func(*rapid.T){
			"acquire": func(rt *rapid.T) {
				s, n := sess.Draw(rt, "s"), name.Draw(rt, "n")
				v := acqVariant(rapid.IntRange(0, 4).Draw(rt, "variant"))
				cur := m.model[n]
				blocked := cur.owner != 0 && cur.owner != ids[s]
				if blocked && (v == acqLong || v == acqInf) {
					// a waiting acquire of a lock that nobody will release would not return
					v = acqTry
				}
				ok, how, err := b.acquire(s, n, v)
				m.logf("sess %d (id %d): %s %q -> ok=%v err=%v", s, ids[s], how, n, ok, err)
				if err != nil {
					rt.Fatalf("acquire failed with an error: %v\n%s", err, m.show())
				}
				legal, next := step(cur, in{kind: opAcquire, sess: ids[s]}, out{ok: ok})
				if !legal {
					rt.Fatalf("%s %q by id %d returned ok=%v in state %+v (free or own lock must be granted, a lock held by another session refused)\n%s",
						how, n, ids[s], ok, cur, m.show())
				}
				if ok && cur.owner == ids[s] {
					m.reent = true
				}
				if !ok {
					m.cont = true
				}
				m.model[n] = next
			},
			"unlock": func(rt *rapid.T) {
				s, n := sess.Draw(rt, "s"), name.Draw(rt, "n")
				cur := m.model[n]
				ok, how, err := b.unlock(s, n)
				m.logf("sess %d (id %d): %s %q -> ok=%v err=%v", s, ids[s], how, n, ok, err)
				if err != nil {
					rt.Fatalf("release failed with an unexpected error: %v\n%s", err, m.show())
				}
				legal, next := step(cur, in{kind: opUnlock, sess: ids[s]}, out{ok: ok})
				if !legal {
					rt.Fatalf("%s %q by id %d returned ok=%v in state %+v (the holder's release must succeed, a non-holder's must fail)\n%s",
						how, n, ids[s], ok, cur, m.show())
				}
				if ok && cur.count > 1 {
					m.nrel = true
				}
				m.model[n] = next
			},
			"releaseAll": func(rt *rapid.T) {
				s := sess.Draw(rt, "s")
				names, levels := m.held(ids[s])
				cnt, how, err := b.releaseAll(s)
				m.logf("sess %d (id %d): %s -> %d err=%v", s, ids[s], how, cnt, err)
				if err != nil {
					rt.Fatalf("release-all failed: %v\n%s", err, m.show())
				}
				// the statement does not fix the returned number; the engine documents "number of
				// locks released", MySQL counts re-entrant levels: both are accepted, but nothing else
				if cnt != names && cnt != levels {
					rt.Fatalf("%s by id %d returned %d; the session held %d lock(s) with %d level(s)\n%s", how, ids[s], cnt, names, levels, m.show())
				}
				for n, cur := range m.model {
					if cur.owner == ids[s] {
						m.model[n] = lockSt{}
					}
				}
			},
			"": func(rt *rapid.T) {
				if !sqlMode {
					m.checkAll(rt, 0)
					return
				}
				// one statement costs ~0.7 ms through the engine: probe one lock per step with one of
				// the two functions from a drawn session (all locks are compared at the end)
				n, via, free := name.Draw(rt, "probe"), sess.Draw(rt, "via"), rapid.Bool().Draw(rt, "isFree")
				o, how, err := m.b.state(via, n, free)
				if err != nil {
					rt.Fatalf("%s on %q failed: %v\n%s", how, n, err, m.show())
				}
				if ok, _ := step(m.model[n], in{kind: opState}, o); !ok {
					rt.Fatalf("%s on %q reports %+v but the model has %+v\n%s", how, n, o, m.model[n], m.show())
				}
			},
		})
		m.checkAll(rt, nSess-1)
		// every session releases everything at the end: all locks must be free afterwards
		for s := range ids {
			if _, _, err := b.releaseAll(s); err != nil {
				rt.Fatalf("final release-all failed: %v\n%s", err, m.show())
			}
			for n, cur := range m.model {
				if cur.owner == ids[s] {
					m.model[n] = lockSt{}
				}
			}
		}
		m.logf("all sessions: release all")
		m.checkAll(rt, 0)

		if m.reent {
			st.Class("reentrant-acquire")
		}
		if m.cont {
			st.Class("contended-acquire")
		}
		if m.nrel {
			st.Class("multi-level-release")
		}
		if m.reent && m.cont {
			st.NonTrivial(map[string]any{"sessions": nSess, "names": m.names, "history": m.trace}, m.trace)
		}
	})
}

// TestC38 — part A1: sequential state machine on sql.LockSubsystem against the lock model.
func TestC38(t *testing.T) {
	st := stats.New("C38", "api-seq")
	defer st.Flush()
	runSeq(t, st, func(rt *rapid.T, nSess int) backend {
		// session ids: small, plus values above 2^31 (the subsystem stores them as int64)
		idGen := rapid.OneOf(rapid.Uint32Range(1, 6), rapid.Uint32Range(1<<31-1, 1<<31+2), rapid.Just(uint32(1<<32-1)))
		ids := rapid.SliceOfNDistinct(idGen, nSess, nSess, rapid.ID[uint32]).Draw(rt, "ids")
		return newAPIBackend(ids)
	}, false)
}

// TestC38SQL — part A2: the same machine through GET_LOCK / RELEASE_LOCK / IS_FREE_LOCK /
// IS_USED_LOCK / RELEASE_ALL_LOCKS evaluated by an engine.
func TestC38SQL(t *testing.T) {
	st := stats.New("C38", "sql-seq")
	defer st.Flush()
	curStats = st
	runSeq(t, st, func(rt *rapid.T, nSess int) backend { return newSQLBackend(nSess) }, true)
}
