package c38

import (
	"testing"

	"github.com/anishathalye/porcupine"
)

// TestC38ModelSelfCheck is a self-test of the oracle (not part of the check's cfg): hand-made
// histories with a known verdict, to show that the porcupine model accepts legal concurrent
// histories and rejects illegal ones independently of the race detector.
func TestC38ModelSelfCheck(t *testing.T) {
	op := func(client int, k opKind, sess uint32, call, ret int64, o out) porcupine.Operation {
		return porcupine.Operation{ClientId: client, Input: in{kind: k, sess: sess}, Call: call, Output: o, Return: ret}
	}
	cases := []struct {
		name string
		h    []porcupine.Operation
		want bool
	}{
		{"two holders at once", []porcupine.Operation{
			op(0, opAcquire, 1, 0, 10, out{ok: true}), op(1, opAcquire, 2, 20, 30, out{ok: true})}, false},
		{"refusal while held", []porcupine.Operation{
			op(0, opAcquire, 1, 0, 10, out{ok: true}), op(1, opAcquire, 2, 5, 15, out{ok: false})}, true},
		{"refusal of a free lock", []porcupine.Operation{
			op(0, opAcquire, 1, 0, 10, out{ok: true}), op(0, opUnlock, 1, 20, 30, out{ok: true}), op(1, opAcquire, 2, 40, 50, out{ok: false})}, false},
		{"timed-out wait spanning a critical section", []porcupine.Operation{
			op(1, opAcquire, 2, 0, 100, out{ok: false}), op(0, opAcquire, 1, 10, 20, out{ok: true}), op(0, opUnlock, 1, 30, 40, out{ok: true})}, true},
		{"non-holder release succeeds", []porcupine.Operation{
			op(0, opAcquire, 1, 0, 10, out{ok: true}), op(1, opUnlock, 2, 20, 30, out{ok: true})}, false},
		{"re-entrant needs two releases", []porcupine.Operation{
			op(0, opAcquire, 1, 0, 10, out{ok: true}), op(0, opAcquire, 1, 20, 30, out{ok: true}), op(0, opUnlock, 1, 40, 50, out{ok: true}),
			op(1, opAcquire, 2, 60, 70, out{ok: true})}, false},
		{"hand-over through release-all", []porcupine.Operation{
			op(0, opAcquire, 1, 0, 10, out{ok: true}), op(0, opAcquire, 1, 20, 30, out{ok: true}), op(0, opReleaseAll, 1, 40, 50, out{}),
			op(1, opAcquire, 2, 45, 70, out{ok: true}), op(0, opState, 1, 80, 90, out{inUse: true, owner: 2, ownerKnown: true})}, true},
		{"state reports the wrong holder", []porcupine.Operation{
			op(0, opAcquire, 1, 0, 10, out{ok: true}), op(1, opState, 2, 20, 30, out{inUse: true, owner: 2, ownerKnown: true})}, false},
	}
	for _, c := range cases {
		if got := porcupine.CheckOperations(lockModel, c.h); got != c.want {
			t.Errorf("%s: linearizable=%v, expected %v", c.name, got, c.want)
		}
	}
}
