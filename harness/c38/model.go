// Package c38 checks property C38: named locks give mutual exclusion and are linearizable.
//
// model.go holds the sequential specification of one named lock. It is used in two ways:
// as the reference model of the sequential state machines (TestC38, TestC38SQL, TestC38Wire)
// and, through porcupine, as the sequential specification against which concurrently
// recorded histories are checked for linearizability (TestC38Conc).
package c38

import (
	"fmt"
	"sort"
	"strings"

	"github.com/anishathalye/porcupine"
)

// lockSt is the abstract state of one named lock: free (owner 0) or held by the session
// with id owner, count times (re-entrancy).
type lockSt struct {
	owner uint32
	count int
}

type opKind int

const (
	opAcquire    opKind = iota // TryLock / Lock / GET_LOCK; ok = acquired, !ok = held by another session (false / timeout)
	opUnlock                   // Unlock / RELEASE_LOCK; ok = one level released, !ok = caller is not the holder
	opReleaseAll               // ReleaseAll / RELEASE_ALL_LOCKS (projection on one name); no observed output here
	opState                    // GetLockState / IS_USED_LOCK / IS_FREE_LOCK
)

func (k opKind) String() string {
	return [...]string{"acquire", "unlock", "releaseAll", "state"}[k]
}

// in / out are the porcupine input / output of one operation projected on one lock name.
type in struct {
	kind opKind
	sess uint32 // session id of the caller
}

type out struct {
	ok         bool   // acquire / unlock: succeeded
	inUse      bool   // state: reported as held
	owner      uint32 // state: reported holder (valid if inUse && ownerKnown)
	ownerKnown bool   // false for IS_FREE_LOCK, which does not report the holder
}

// step is the sequential specification. It returns whether output o is possible for
// input i in state s, and the successor state.
func step(s lockSt, i in, o out) (bool, lockSt) {
	switch i.kind {
	case opAcquire:
		mine := s.owner == 0 || s.owner == i.sess
		if o.ok {
			// the lock is granted only if it is free or already held by the caller (re-entrant)
			if !mine {
				return false, s
			}
			return true, lockSt{owner: i.sess, count: s.count + 1}
		}
		// a refusal (TryLock false, GET_LOCK 0, Lock timeout) is only possible while another
		// session holds the lock. For a timed-out Lock this is the point of one of its failed
		// attempts; every Lock makes at least one attempt.
		return !mine, s
	case opUnlock:
		if o.ok {
			if s.owner != i.sess || s.count < 1 {
				return false, s
			}
			if s.count == 1 {
				return true, lockSt{}
			}
			return true, lockSt{owner: s.owner, count: s.count - 1}
		}
		return s.owner != i.sess, s
	case opReleaseAll:
		if s.owner == i.sess {
			return true, lockSt{}
		}
		return true, s
	case opState:
		if o.inUse != (s.owner != 0) {
			return false, s
		}
		if o.inUse && o.ownerKnown && o.owner != s.owner {
			return false, s
		}
		return true, s
	}
	return false, s
}

var lockModel = porcupine.Model{
	Init: func() interface{} { return lockSt{} },
	Step: func(state, input, output interface{}) (bool, interface{}) {
		ok, ns := step(state.(lockSt), input.(in), output.(out))
		return ok, ns
	},
	Equal: func(a, b interface{}) bool { return a.(lockSt) == b.(lockSt) },
	DescribeOperation: func(input, output interface{}) string {
		return fmt.Sprintf("%+v -> %+v", input, output)
	},
	DescribeState: func(state interface{}) string { return fmt.Sprintf("%+v", state) },
}

// rec is one recorded operation of a concurrent history.
type rec struct {
	Sess  int    // index of the session (goroutine)
	ID    uint32 // its session id
	Kind  opKind
	Name  int    // index of the lock name; -1 for releaseAll
	How   string // the concrete call, for the report
	Call  int64  // monotonic ns before the call
	Ret   int64  // monotonic ns after the return
	Out   out
	Count int // releaseAll: reported number
}

func (r rec) String() string {
	var res string
	switch r.Kind {
	case opAcquire, opUnlock:
		res = fmt.Sprintf("ok=%v", r.Out.ok)
	case opReleaseAll:
		res = fmt.Sprintf("n=%d", r.Count)
	case opState:
		res = fmt.Sprintf("inUse=%v owner=%d(known=%v)", r.Out.inUse, r.Out.owner, r.Out.ownerKnown)
	}
	return fmt.Sprintf("[%d..%d] sess#%d(id %d) %s name#%d -> %s", r.Call, r.Ret, r.Sess, r.ID, r.How, r.Name, res)
}

// showHistory prints a history ordered by call time.
func showHistory(h []rec) string {
	hh := append([]rec(nil), h...)
	sort.SliceStable(hh, func(i, j int) bool { return hh[i].Call < hh[j].Call })
	var sb strings.Builder
	for _, r := range hh {
		sb.WriteString("  " + r.String() + "\n")
	}
	return sb.String()
}

// projection builds the porcupine history of lock name n (releaseAll is projected on every name).
func projection(h []rec, n int) []porcupine.Operation {
	var ops []porcupine.Operation
	for _, r := range h {
		if r.Name != n && r.Kind != opReleaseAll {
			continue
		}
		ops = append(ops, porcupine.Operation{
			ClientId: r.Sess,
			Input:    in{kind: r.Kind, sess: r.ID},
			Call:     r.Call,
			Output:   r.Out,
			Return:   r.Ret,
		})
	}
	return ops
}
