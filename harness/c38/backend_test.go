package c38

import (
	"context"
	"fmt"
	"strings"
	"time"

	"github.com/dolthub/go-mysql-server/sql"
	"github.com/dolthub/go-mysql-server/vh/internal/fx"
	"github.com/dolthub/go-mysql-server/vh/internal/stats"
)

// variant of an acquire call
type acqVariant int

const (
	acqTry   acqVariant = iota // TryLock / GET_LOCK(n, 0): one attempt
	acqZero                    // Lock(timeout 0): one attempt (API only; SQL maps timeout 0 to TryLock)
	acqShort                   // Lock with a short finite timeout (API: 150 us sequential, 2 ms concurrent; SQL: not available below 1 s -> GET_LOCK(n, 0))
	acqLong                    // finite but long timeout (1 h / 3600 s): only issued where it cannot block for long
	acqInf                     // negative timeout = wait for ever: only issued where termination is guaranteed
)

func (v acqVariant) String() string {
	return [...]string{"try", "lock0", "lockShort", "lockLong", "lockInf"}[v]
}

// backend is the system under test seen through the operations the property names.
// Every method is called by one goroutine per session index at a time.
type backend interface {
	ids() []uint32
	acquire(s int, name string, v acqVariant) (ok bool, how string, err error)
	unlock(s int, name string) (ok bool, how string, err error)
	releaseAll(s int) (n int, how string, err error)
	// state asks session s about the lock; free selects IS_FREE_LOCK (holder not reported).
	state(s int, name string, free bool) (o out, how string, err error)
	close()
}

// ---------------------------------------------------------------------------------------
// API backend: sql.LockSubsystem called the way the SQL functions call it: a fresh
// sql.Context per call carrying the caller's session (server/context.go creates one context
// per command).

type apiBackend struct {
	ls    *sql.LockSubsystem
	sess  []sql.Session
	id    []uint32
	short time.Duration // timeout of the acqShort variant
}

func newAPIBackend(ids []uint32) *apiBackend {
	b := &apiBackend{ls: sql.NewLockSubsystem(), id: ids, short: 150 * time.Microsecond}
	for _, id := range ids {
		b.sess = append(b.sess, sql.NewBaseSessionWithClientServer("127.0.0.1:3306", sql.Client{User: "u", Address: "h"}, id))
	}
	return b
}

func (b *apiBackend) ids() []uint32 { return b.id }
func (b *apiBackend) close()        {}

func (b *apiBackend) ctx(s int) *sql.Context {
	return sql.NewContext(context.Background(), sql.WithSession(b.sess[s]))
}

func (b *apiBackend) acquire(s int, name string, v acqVariant) (bool, string, error) {
	switch v {
	case acqTry:
		ok, err := b.ls.TryLock(b.ctx(s), name)
		return ok, "TryLock", err
	default:
		var d time.Duration
		switch v {
		case acqZero:
			d = 0
		case acqShort:
			d = b.short
		case acqLong:
			d = time.Hour
		case acqInf:
			d = -1
		}
		err := b.ls.Lock(b.ctx(s), name, d)
		how := fmt.Sprintf("Lock(%v)", d)
		if err == nil {
			return true, how, nil
		}
		if sql.ErrLockTimeout.Is(err) {
			return false, how, nil
		}
		return false, how, err
	}
}

func (b *apiBackend) unlock(s int, name string) (bool, string, error) {
	err := b.ls.Unlock(b.ctx(s), name)
	if err == nil {
		return true, "Unlock", nil
	}
	// the statement asks that a release by a non-holder "fails without effect"; both documented
	// failure kinds count as that failure
	if sql.ErrLockNotOwned.Is(err) || sql.ErrLockDoesNotExist.Is(err) {
		return false, "Unlock", nil
	}
	return false, "Unlock", err
}

func (b *apiBackend) releaseAll(s int) (int, string, error) {
	n, err := b.ls.ReleaseAll(b.ctx(s))
	return n, "ReleaseAll", err
}

func (b *apiBackend) state(s int, name string, free bool) (out, string, error) {
	st, owner := b.ls.GetLockState(name)
	return out{inUse: st == sql.LockInUse, owner: owner, ownerKnown: true}, "GetLockState", nil
}

// ---------------------------------------------------------------------------------------
// SQL backend: the GET_LOCK family evaluated by an engine, one session per client.

type sqlBackend struct {
	f    *fx.Fixture
	sess []*fx.Sess
	id   []uint32
}

// curStats is the collector of the running test; scalar flushes it when the statement
// watchdog expires.
var curStats *stats.Collector

func newSQLBackend(n int) *sqlBackend {
	b := &sqlBackend{f: fx.New(fx.Opts{})}
	for i := 0; i < n; i++ {
		s := b.f.NewSession("", "", "")
		// the fixture's statement deadline must never decide anything here: a GET_LOCK that waits
		// for a holder on a loaded machine is not an error. It becomes a watchdog (inconclusive).
		s.Timeout = watchdog
		b.sess = append(b.sess, s)
		b.id = append(b.id, s.ID)
	}
	return b
}

func (b *sqlBackend) ids() []uint32 { return b.id }
func (b *sqlBackend) close()        { b.f.Close() }

// scalar runs a one-row one-column SELECT and returns the value as (isNull, integer).
func (b *sqlBackend) scalar(s int, q string) (bool, int64, error) {
	r := b.sess[s].Exec(q)
	if !r.OK() {
		if r.Panic != nil {
			return false, 0, fmt.Errorf("%s: PANIC %v\n%s", q, r.Panic, r.Stack)
		}
		if r.TimedOut {
			inconclusive(curStats, "%s did not return within the statement watchdog", q)
		}
		return false, 0, fmt.Errorf("%s: %v", q, r.Err)
	}
	if len(r.Rows) != 1 || len(r.Rows[0]) != 1 {
		return false, 0, fmt.Errorf("%s: expected one value, got %s", q, r)
	}
	switch v := r.Rows[0][0].(type) {
	case nil:
		return true, 0, nil
	case int8:
		return false, int64(v), nil
	case int16:
		return false, int64(v), nil
	case int32:
		return false, int64(v), nil
	case int64:
		return false, v, nil
	case int:
		return false, int64(v), nil
	case uint8:
		return false, int64(v), nil
	case uint16:
		return false, int64(v), nil
	case uint32:
		return false, int64(v), nil
	case uint64:
		return false, int64(v), nil
	case uint:
		return false, int64(v), nil
	}
	return false, 0, fmt.Errorf("%s: unexpected value %T %v", q, r.Rows[0][0], r.Rows[0][0])
}

func quote(name string) string { return "'" + strings.ReplaceAll(name, "'", "''") + "'" }

func (b *sqlBackend) acquire(s int, name string, v acqVariant) (bool, string, error) {
	t := "0"
	switch v {
	case acqLong:
		t = "3600"
	case acqInf:
		t = "-1"
	}
	q := fmt.Sprintf("SELECT GET_LOCK(%s, %s)", quote(name), t)
	null, n, err := b.scalar(s, q)
	if err != nil {
		return false, q, err
	}
	if null || (n != 0 && n != 1) {
		return false, q, fmt.Errorf("%s returned null=%v value=%d, expected 0 or 1", q, null, n)
	}
	return n == 1, q, nil
}

func (b *sqlBackend) unlock(s int, name string) (bool, string, error) {
	q := fmt.Sprintf("SELECT RELEASE_LOCK(%s)", quote(name))
	null, n, err := b.scalar(s, q)
	if err != nil {
		return false, q, err
	}
	if null { // "lock does not exist": a failed release
		return false, q, nil
	}
	if n != 0 && n != 1 {
		return false, q, fmt.Errorf("%s returned %d, expected 0, 1 or NULL", q, n)
	}
	return n == 1, q, nil
}

func (b *sqlBackend) releaseAll(s int) (int, string, error) {
	q := "SELECT RELEASE_ALL_LOCKS()"
	null, n, err := b.scalar(s, q)
	if err != nil {
		return 0, q, err
	}
	if null {
		return 0, q, fmt.Errorf("%s returned NULL", q)
	}
	return int(n), q, nil
}

func (b *sqlBackend) state(s int, name string, free bool) (out, string, error) {
	if free {
		q := fmt.Sprintf("SELECT IS_FREE_LOCK(%s)", quote(name))
		null, n, err := b.scalar(s, q)
		if err != nil {
			return out{}, q, err
		}
		if null || (n != 0 && n != 1) {
			return out{}, q, fmt.Errorf("%s returned null=%v value=%d, expected 0 or 1", q, null, n)
		}
		return out{inUse: n == 0}, q, nil
	}
	q := fmt.Sprintf("SELECT IS_USED_LOCK(%s)", quote(name))
	null, n, err := b.scalar(s, q)
	if err != nil {
		return out{}, q, err
	}
	if null {
		return out{ownerKnown: true}, q, nil
	}
	return out{inUse: true, owner: uint32(n), ownerKnown: true}, q, nil
}
