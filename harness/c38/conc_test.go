package c38

import (
	"fmt"
	"os"
	"runtime"
	"sort"
	"strings"
	"sync"
	"testing"
	"time"

	"github.com/anishathalye/porcupine"
	"github.com/dolthub/go-mysql-server/vh/internal/stats"
	"pgregory.net/rapid"
)

// progOp is one generated operation of a session's program.
type progOp struct {
	Kind   opKind
	Name   int        // index into the case's names (ignored by releaseAll)
	V      acqVariant // acquire only
	Free   bool       // state only: IS_FREE_LOCK instead of IS_USED_LOCK (SQL mode)
	Yields int        // runtime.Gosched() calls after the operation
}

func (o progOp) String() string {
	switch o.Kind {
	case opAcquire:
		return fmt.Sprintf("acquire(%s,#%d)/y%d", o.V, o.Name, o.Yields)
	case opUnlock:
		return fmt.Sprintf("unlock(#%d)/y%d", o.Name, o.Yields)
	case opReleaseAll:
		return fmt.Sprintf("releaseAll/y%d", o.Yields)
	}
	return fmt.Sprintf("state(#%d,free=%v)/y%d", o.Name, o.Free, o.Yields)
}

// monitor is the mutual-exclusion monitor: one plain (non-atomic) word per lock name.
// A session writes its id into the word while it holds the lock and re-reads it after
// yielding. If two sessions ever hold the same lock at once, either a foreign id is read or
// the race detector reports the unsynchronised accesses (the only synchronisation between
// two holders is the lock subsystem's own atomic hand-over).
type monitor struct {
	word [4]uint32
}

// runSession executes one session's program and returns its part of the history and the
// violations it observed itself.
func runSession(b backend, si int, id uint32, names []string, prog []progOp, mon *monitor, base time.Time, start <-chan struct{}, startYields int) (hist []rec, bad []string) {
	held := map[int]int{} // what this session holds according to its own results (only the session itself can change that)
	now := func() int64 { return int64(time.Since(base)) }
	<-start
	for i := 0; i < startYields; i++ {
		runtime.Gosched()
	}
	touch := func(n int, when string) {
		mon.word[n] = id
		runtime.Gosched()
		if got := mon.word[n]; got != id {
			bad = append(bad, fmt.Sprintf("mutual exclusion: session id %d holds %q (%s) but session id %d wrote the monitor word meanwhile", id, names[n], when, got))
		}
	}
	for _, op := range prog {
		r := rec{Sess: si, ID: id, Kind: op.Kind, Name: op.Name}
		switch op.Kind {
		case opAcquire:
			v := op.V
			if (v == acqInf || v == acqLong) && (len(held) > 0 && held[op.Name] == 0) {
				// waiting (practically) for ever is only deadlock-free for a session that holds no
				// other lock: every holder then still makes progress and ends with a release-all
				v = acqShort
			}
			r.Call = now()
			ok, how, err := b.acquire(si, names[op.Name], v)
			r.Ret = now()
			r.How, r.Out = how, out{ok: ok}
			if err != nil {
				bad = append(bad, fmt.Sprintf("session id %d: %s %q: unexpected error %v", id, how, names[op.Name], err))
			}
			if ok {
				held[op.Name]++
				touch(op.Name, "after "+how)
			}
		case opUnlock:
			if held[op.Name] > 0 {
				touch(op.Name, "before release")
			}
			r.Call = now()
			ok, how, err := b.unlock(si, names[op.Name])
			r.Ret = now()
			r.How, r.Out = how, out{ok: ok}
			if err != nil {
				bad = append(bad, fmt.Sprintf("session id %d: %s %q: unexpected error %v", id, how, names[op.Name], err))
			}
			if ok {
				if held[op.Name]--; held[op.Name] <= 0 {
					delete(held, op.Name)
				}
			}
		case opReleaseAll:
			r.Name = -1
			names1, levels := 0, 0
			for n, c := range held {
				names1++
				levels += c
				touch(n, "before release-all")
			}
			r.Call = now()
			n, how, err := b.releaseAll(si)
			r.Ret = now()
			r.How, r.Count = how, n
			if err != nil {
				bad = append(bad, fmt.Sprintf("session id %d: %s: unexpected error %v", id, how, err))
			} else if n != names1 && n != levels {
				// only the session itself can change what it holds, so the number is determined by
				// the session's own preceding results
				bad = append(bad, fmt.Sprintf("session id %d: %s returned %d but the session held %d lock(s) with %d level(s)", id, how, n, names1, levels))
			}
			held = map[int]int{}
		case opState:
			r.Call = now()
			o, how, err := b.state(si, names[op.Name], op.Free)
			r.Ret = now()
			r.How, r.Out = how, o
			if err != nil {
				bad = append(bad, fmt.Sprintf("session id %d: %s %q: unexpected error %v", id, how, names[op.Name], err))
			}
		}
		hist = append(hist, r)
		for i := 0; i < op.Yields; i++ {
			runtime.Gosched()
		}
	}
	return hist, bad
}

// TestC38Conc — part B: concurrent sessions; the recorded history must be linearizable with
// respect to the sequential lock model (porcupine), the monitor must never see two holders,
// the race detector must stay silent, and afterwards (every program ends with a release-all)
// every lock must be free.
func TestC38Conc(t *testing.T) {
	st := stats.New("C38", "concurrent")
	defer st.Flush()
	curStats = st
	thorough := os.Getenv("VERIF_TIER") == "thorough"
	rapid.Check(t, func(rt *rapid.T) {
		st.Eval()
		sqlMode := rapid.IntRange(0, 3).Draw(rt, "mode") == 0 // 1 in 4 through the engine (≈ 50x slower per op)
		nSess := rapid.IntRange(2, 6).Draw(rt, "sessions")
		nNames := rapid.IntRange(1, 2).Draw(rt, "names")
		names := rapid.Permutation(namePool).Draw(rt, "namePool")[:nNames]
		maxOps := 30
		if sqlMode && !thorough {
			maxOps = 12
		}
		opGen := rapid.Custom(func(rt *rapid.T) progOp {
			o := progOp{Name: rapid.IntRange(0, nNames-1).Draw(rt, "name"), Yields: rapid.SampledFrom([]int{0, 0, 0, 1, 2, 5}).Draw(rt, "yields")}
			switch k := rapid.IntRange(0, 9).Draw(rt, "kind"); {
			case k < 4:
				o.Kind = opAcquire
				o.V = rapid.SampledFrom([]acqVariant{acqTry, acqTry, acqZero, acqShort, acqInf, acqInf, acqLong}).Draw(rt, "variant")
			case k < 7:
				o.Kind = opUnlock
			case k < 8:
				o.Kind = opReleaseAll
			default:
				o.Kind = opState
				o.Free = rapid.Bool().Draw(rt, "isFree")
			}
			return o
		})
		progs := make([][]progOp, nSess)
		startYields := make([]int, nSess)
		for i := range progs {
			progs[i] = rapid.SliceOfN(opGen, 5, maxOps).Draw(rt, fmt.Sprintf("prog%d", i))
			progs[i] = append(progs[i], progOp{Kind: opReleaseAll}) // termination of waiters, and the final "all free" check
			startYields[i] = rapid.IntRange(0, 8).Draw(rt, fmt.Sprintf("startYields%d", i))
		}

		var b backend
		if sqlMode {
			b = newSQLBackend(nSess)
		} else {
			idGen := rapid.OneOf(rapid.Uint32Range(1, 8), rapid.Uint32Range(1<<31-1, 1<<31+2))
			ab := newAPIBackend(rapid.SliceOfNDistinct(idGen, nSess, nSess, rapid.ID[uint32]).Draw(rt, "ids"))
			ab.short = 2 * time.Millisecond
			b = ab
		}
		defer b.close()
		ids := b.ids()

		mon := &monitor{}
		base := time.Now()
		start := make(chan struct{})
		hists := make([][]rec, nSess)
		bads := make([][]string, nSess)
		var wg sync.WaitGroup
		for i := 0; i < nSess; i++ {
			wg.Add(1)
			go func(i int) {
				defer wg.Done()
				hists[i], bads[i] = runSession(b, i, ids[i], names, progs[i], mon, base, start, startYields[i])
			}(i)
		}
		close(start)
		wg.Wait() // all goroutines joined before anything is judged

		var hist []rec
		var bad []string
		for i := range hists {
			hist = append(hist, hists[i]...)
			bad = append(bad, bads[i]...)
		}
		// afterwards every lock is free
		for ni, n := range names {
			o, how, err := b.state(0, n, false)
			if err != nil || o.inUse {
				bad = append(bad, fmt.Sprintf("after every session released all its locks, %s %q reports %+v (err %v)", how, n, o, err))
			}
			_ = ni
		}
		// linearizability, decided exactly per lock name on the recorded history
		for ni, n := range names {
			if !porcupine.CheckOperations(lockModel, projection(hist, ni)) {
				bad = append(bad, fmt.Sprintf("history of lock %q (name#%d) is not linearizable with respect to the sequential lock model", n, ni))
			}
		}
		if len(bad) > 0 {
			var ps []string
			for i, p := range progs {
				ps = append(ps, fmt.Sprintf("  sess#%d (id %d): %v", i, ids[i], p))
			}
			msg := fmt.Sprintf("C38 concurrent violation (mode sql=%v, names %q):\n  %s\nprograms:\n%s\nrecorded history (monotonic ns; closed intervals):\n%s",
				sqlMode, names, strings.Join(bad, "\n  "), strings.Join(ps, "\n"), showHistory(hist))
			// also on stdout: if rapid cannot reproduce the schedule the recorded history is the replay artefact
			fmt.Println(msg)
			rt.Fatalf("%s", msg)
		}

		// measured contention: a refused acquire, an acquire that waited, and hand-overs
		refused, handover := false, false
		for ni := range names {
			var acq []rec
			for _, r := range hist {
				if r.Name == ni && r.Kind == opAcquire {
					if !r.Out.ok {
						refused = true
					} else {
						acq = append(acq, r)
					}
				}
			}
			sort.Slice(acq, func(i, j int) bool { return acq[i].Ret < acq[j].Ret })
			for i := 1; i < len(acq); i++ {
				if acq[i].ID != acq[i-1].ID {
					handover = true
				}
			}
		}
		overlap := false
		for i := range hist {
			for j := range hist {
				if hist[i].Sess != hist[j].Sess && hist[i].Call <= hist[j].Ret && hist[j].Call <= hist[i].Ret &&
					(hist[i].Name == hist[j].Name || hist[i].Name < 0 || hist[j].Name < 0) {
					overlap = true
				}
			}
		}
		if sqlMode {
			st.Class("mode-sql")
		} else {
			st.Class("mode-api")
		}
		if refused {
			st.Class("refused-acquire")
		}
		if handover {
			st.Class("hand-over")
		}
		if overlap {
			st.Class("overlapping-ops-on-one-name")
		}
		if refused && handover {
			var key []string
			for _, r := range hist {
				key = append(key, fmt.Sprintf("%d:%s:%d:%v:%d", r.Sess, r.How, r.Name, r.Out, r.Count))
			}
			st.NonTrivial(map[string]any{"sql": sqlMode, "sessions": nSess, "names": names, "ops": len(hist)}, sqlMode, names, key)
		}
	})
}
