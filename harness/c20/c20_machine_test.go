package c20

import (
	"fmt"
	"math/big"
	"strings"
	"testing"

	"github.com/dolthub/go-mysql-server/vh/internal/fx"
	"github.com/dolthub/go-mysql-server/vh/internal/kf"
	"github.com/dolthub/go-mysql-server/vh/internal/stats"
	"pgregory.net/rapid"
)

func (m *mach) delete(rt *rapid.T) {
	if m.dead || len(m.rows) == 0 {
		return
	}
	var q string
	switch rapid.IntRange(0, 4).Draw(rt, "delKind") {
	case 0, 1: // the row with the greatest id
		mx := m.tableMax()
		q = fmt.Sprintf("DELETE FROM t WHERE id = %v", mx)
		if mx.Cmp(m.floor) == 0 {
			m.delMax = true
		}
	case 2:
		r := rapid.SampledFrom(m.rows).Draw(rt, "delRow")
		q = fmt.Sprintf("DELETE FROM t WHERE v = %d", r.v)
		if r.id.Cmp(m.floor) == 0 {
			m.delMax = true
		}
	case 3:
		r := rapid.SampledFrom(m.rows).Draw(rt, "delFrom")
		q = fmt.Sprintf("DELETE FROM t WHERE id >= %v", r.id)
		if m.tableMax().Cmp(m.floor) == 0 {
			m.delMax = true
		}
	default: // everything, but not TRUNCATE: the counter must survive
		q = "DELETE FROM t"
		if m.tableMax().Cmp(m.floor) == 0 {
			m.delMax = true
		}
	}
	res := m.exec(rt, q)
	if res.Err != nil {
		rt.Fatalf("DELETE failed: %v\nhistory:\n%s", res.Err, m.history())
	}
	m.rows = m.read(rt)
	m.st.Class("stmt:delete")
	m.checkLastUnchanged(rt, q)
}

func (m *mach) updateID(rt *rapid.T) {
	if m.dead || len(m.rows) == 0 {
		return
	}
	r := rapid.SampledFrom(m.rows).Draw(rt, "updRow")
	var x *big.Int
	switch rapid.IntRange(0, 3).Draw(rt, "updKind") {
	case 0:
		x = new(big.Int).Add(m.tableMax(), big.NewInt(int64(rapid.IntRange(1, 3).Draw(rt, "d"))))
	case 1:
		x = new(big.Int).Add(m.floor, big.NewInt(int64(rapid.IntRange(1, 3).Draw(rt, "d"))))
	case 2:
		x = new(big.Int).Set(rapid.SampledFrom(m.rows).Draw(rt, "other").id)
	default:
		x = big.NewInt(int64(rapid.IntRange(1, 6).Draw(rt, "small")))
	}
	if x.Cmp(m.typ.max) > 0 || x.Sign() <= 0 {
		return
	}
	q := fmt.Sprintf("UPDATE t SET id = %v WHERE v = %d", x, r.v)
	if x.Cmp(m.upper) > 0 {
		m.upper = new(big.Int).Set(x) // MySQL 8 advances the counter past an updated id
	}
	m.exec(rt, q) // may fail with a duplicate key; either way the counter bookkeeping is not ours to predict
	m.rows = m.read(rt)
	m.st.Class("stmt:update-id")
	m.checkLastUnchanged(rt, q)
}

func (m *mach) alter(rt *rapid.T) {
	if m.dead {
		return
	}
	mx := m.tableMax()
	var n *big.Int
	switch rapid.IntRange(0, 5).Draw(rt, "alterKind") {
	case 0:
		n = big.NewInt(1)
	case 1: // at or below the greatest stored id
		n = new(big.Int).Sub(mx, big.NewInt(int64(rapid.IntRange(0, 3).Draw(rt, "below"))))
	case 2: // exactly the next value
		n = new(big.Int).Add(mx, big.NewInt(1))
	case 3: // between the greatest stored id and the greatest id ever inserted
		n = new(big.Int).Add(m.floor, big.NewInt(int64(rapid.IntRange(-2, 1).Draw(rt, "aroundFloor"))))
	default: // above everything
		base := mx
		if m.floor.Cmp(base) > 0 {
			base = m.floor
		}
		n = new(big.Int).Add(base, big.NewInt(int64(rapid.IntRange(2, 6).Draw(rt, "above"))))
	}
	if n.Sign() <= 0 {
		n = big.NewInt(1)
	}
	if n.Cmp(m.typ.max) > 0 {
		return
	}
	below := n.Cmp(mx) <= 0 && len(m.rows) > 0
	if below && kf.Listed(idAlterBelow) {
		// region of the known finding: excluded by construction
		m.st.Excluded(idAlterBelow)
		return
	}
	q := fmt.Sprintf("ALTER TABLE t AUTO_INCREMENT = %v", n)
	if n1 := new(big.Int).Sub(n, big.NewInt(1)); n1.Cmp(m.upper) > 0 {
		m.upper = n1
	}
	res := m.exec(rt, q)
	if res.Err != nil {
		rt.Fatalf("ALTER failed: %v\nhistory:\n%s", res.Err, m.history())
	}
	m.rows = m.read(rt)
	m.checkLastUnchanged(rt, q)
	// MySQL: the counter becomes max(n, greatest stored id + 1). Ids that were deleted may
	// therefore legitimately come back after an explicit reset below the old counter; from
	// here on a generated id has to exceed the ids that are *stored* (and everything inserted
	// later).
	n1 := new(big.Int).Sub(n, big.NewInt(1))
	switch {
	case n1.Cmp(m.floor) >= 0:
		m.st.Class("stmt:alter-up")
	default:
		m.floor = new(big.Int).Set(mx)
		m.st.Class("stmt:alter-down")
		if below {
			m.alterBelowActive = true
			m.st.Class("stmt:alter-below-stored-max")
		}
	}
}

func (m *mach) truncate(rt *rapid.T) {
	if m.dead || rapid.IntRange(0, 3).Draw(rt, "reallyTruncate") != 0 {
		return
	}
	res := m.exec(rt, "TRUNCATE TABLE t")
	if res.Err != nil {
		rt.Fatalf("TRUNCATE failed: %v\nhistory:\n%s", res.Err, m.history())
	}
	m.rows = m.read(rt)
	if len(m.rows) != 0 {
		rt.Fatalf("TRUNCATE left rows\nhistory:\n%s", m.history())
	}
	m.floor = big.NewInt(0) // a new life of the table
	m.upper = big.NewInt(0)
	m.alterBelowActive = false
	m.st.Class("stmt:truncate")
	m.checkLastUnchanged(rt, "TRUNCATE")
}

func TestC20(t *testing.T) {
	st := stats.New("C20", "")
	defer st.Flush()
	rapid.Check(t, func(rt *rapid.T) {
		st.Eval()
		f := fx.New(fx.Opts{})
		defer f.Close()
		m := &mach{st: st, s: f.NewSession("", "", ""), floor: big.NewInt(0), upper: big.NewInt(0), lastID: big.NewInt(0)}
		m.typ = rapid.SampledFrom(intTypes).Draw(rt, "type")
		m.pk = rapid.IntRange(0, 3).Draw(rt, "pk") != 0
		m.uu = rapid.Bool().Draw(rt, "uniqueU")
		key := "KEY (id)"
		if m.pk {
			key = "PRIMARY KEY (id)"
		}
		u := ""
		if m.uu {
			u = ", UNIQUE KEY uu (u)"
		}
		ddl := fmt.Sprintf("CREATE TABLE t (id %s NOT NULL AUTO_INCREMENT, v INT, u INT, %s%s)", m.typ.sql, key, u)
		if r := m.exec(rt, ddl); !r.OK() {
			rt.Fatalf("set-up failed: %s -> %s", ddl, r)
		}
		rt.Repeat(map[string]func(*rapid.T){
			"insert-a": m.insert, "insert-b": m.insert, "insert-c": m.insert, "insert-d": m.insert,
			"delete":   m.delete,
			"update":   m.updateID,
			"alter":    m.alter,
			"truncate": m.truncate,
		})
		st.Class("type:" + m.typ.sql)
		if m.genAfterDelMax && m.genAfterExplAbove {
			var sample any
			if len(m.sql) <= 14 {
				sample = m.sql
			}
			st.NonTrivial(sample, strings.Join(m.sql, ";"))
		}
	})
}

// TestC20Witness re-confirms the minimal witnesses of the findings of this property.
func TestC20Witness(t *testing.T) {
	st := stats.New("C20", "witness")
	defer st.Flush()
	type step struct {
		sql    string
		expect string // "ok" | "rows" | "insertid:<n>"
		rows   [][]string
	}
	cases := []struct {
		id    string
		what  string
		steps []step
	}{
		{idAlterBelow, "ALTER TABLE .. AUTO_INCREMENT below the stored maximum makes the next generated id a duplicate", []step{
			{"CREATE TABLE t (id INT NOT NULL AUTO_INCREMENT, v INT, KEY (id))", "ok", nil},
			{"INSERT INTO t (v) VALUES (1), (2)", "ok", nil},
			{"ALTER TABLE t AUTO_INCREMENT = 1", "ok", nil},
			{"INSERT INTO t (v) VALUES (3)", "ok", nil},
			{"SELECT id, v FROM t", "rows", [][]string{{"n:1", "n:1"}, {"n:2", "n:2"}, {"n:3", "n:3"}}},
		}},
		{idAlterBelow, "ALTER TABLE .. AUTO_INCREMENT below the stored maximum makes the next insert fail on the primary key", []step{
			{"CREATE TABLE t (id INT NOT NULL AUTO_INCREMENT PRIMARY KEY, v INT)", "ok", nil},
			{"INSERT INTO t (v) VALUES (1), (2)", "ok", nil},
			{"ALTER TABLE t AUTO_INCREMENT = 2", "ok", nil},
			{"INSERT INTO t (v) VALUES (3)", "ok", nil},
		}},
		{idOkFirstRow, "OkResult.InsertID is the explicit id of the first row instead of the first generated id", []step{
			{"CREATE TABLE t (id INT NOT NULL AUTO_INCREMENT PRIMARY KEY, v INT)", "ok", nil},
			{"INSERT INTO t VALUES (5, 1), (NULL, 2), (NULL, 3)", "insertid:6", nil},
			{"SELECT LAST_INSERT_ID()", "rows", [][]string{{"n:6"}}},
		}},
		{idIgnoreLastID, "LAST_INSERT_ID() is not set when INSERT IGNORE skips a row before the first generating row", []step{
			{"CREATE TABLE t (id INT NOT NULL AUTO_INCREMENT PRIMARY KEY, v INT)", "ok", nil},
			{"INSERT INTO t (v) VALUES (1)", "insertid:1", nil},
			{"INSERT IGNORE INTO t VALUES (1, 0), (NULL, 2)", "insertid:2", nil},
			{"SELECT LAST_INSERT_ID()", "rows", [][]string{{"n:2"}}},
		}},
		{idReplaceLast, "REPLACE that generates an id does not update LAST_INSERT_ID() / OkResult.InsertID", []step{
			{"CREATE TABLE t (id INT NOT NULL AUTO_INCREMENT PRIMARY KEY, v INT)", "ok", nil},
			{"INSERT INTO t (v) VALUES (1)", "insertid:1", nil},
			{"REPLACE INTO t VALUES (NULL, 2)", "insertid:2", nil},
			{"SELECT LAST_INSERT_ID()", "rows", [][]string{{"n:2"}}},
		}},
	}
	for _, c := range cases {
		st.Eval()
		f := fx.New(fx.Opts{})
		s := f.NewSession("", "", "")
		bad := ""
		for _, sp := range c.steps {
			r := s.Exec(sp.sql)
			if r.Panic != nil || r.TimedOut {
				t.Fatalf("%s: %s crashed: %s\n%s", c.id, sp.sql, r, r.Stack)
			}
			switch {
			case sp.expect == "error":
				if r.Err == nil {
					bad = sp.sql + ": expected an error, got " + r.String()
				}
			case r.Err != nil:
				bad = sp.sql + ": unexpected error " + r.Err.Error()
			case sp.expect == "rows":
				if got := fx.NormRows(r.Schema, r.Rows); !fx.MultisetEqual(got, sp.rows) {
					bad = sp.sql + ": " + fx.Show(got) + ", expected " + fx.Show(sp.rows)
				}
			case strings.HasPrefix(sp.expect, "insertid:"):
				ok, is := r.OkResult()
				if !is || fmt.Sprint(ok.InsertID) != strings.TrimPrefix(sp.expect, "insertid:") {
					bad = fmt.Sprintf("%s: OkResult.InsertID = %d, expected %s", sp.sql, ok.InsertID, strings.TrimPrefix(sp.expect, "insertid:"))
				}
			}
			if bad != "" {
				break
			}
		}
		f.Close()
		if bad == "" {
			st.Class("witness-no-longer-reproduces:" + c.id)
			if kf.Listed(c.id) {
				t.Logf("STALE: finding %s is listed as known but its witness (%s) satisfies the property now", c.id, c.what)
			}
			continue
		}
		st.NonTrivial(map[string]string{"finding": c.id, "observed": bad}, c.id, c.what)
		if !kf.Suppress(st, c.id) {
			t.Errorf("finding %s (%s) reproduces and is not listed as known:\n  %s", c.id, c.what, bad)
		}
	}
}
