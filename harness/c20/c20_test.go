// Package c20 checks property C20: AUTO_INCREMENT values are unique, strictly increasing
// over the table's lifetime and reported correctly (LAST_INSERT_ID(), OkResult.InsertID).
//
// A rapid state machine runs histories of INSERT / INSERT IGNORE / REPLACE / INSERT..SELECT
// (generated ids through NULL, 0, DEFAULT or an omitted column; explicit ids below, equal to
// and above the counter; mixed rows), DELETE (incl. the maximum id), UPDATE of the id,
// ALTER TABLE .. AUTO_INCREMENT = n, TRUNCATE and failed inserts on a table
// (id <int type> AUTO_INCREMENT, v INT, u INT) with PRIMARY KEY(id) or a non-unique KEY(id).
// Every inserted row carries a fresh tag v, so the id each statement row received is read
// back from the table. The oracle is a history invariant, not a model of the counter:
//
//   - every generated id is greater than `floor`, the greatest id stored by an INSERT/REPLACE
//     (explicit or generated) so far in the table's life (hence distinct from all of them, not
//     reused after deletes, above larger explicit ids), and generated ids increase in row order;
//   - LAST_INSERT_ID() and OkResult.InsertID equal the first generated id of the last
//     successful insert that stored one; other statements leave LAST_INSERT_ID() unchanged;
//   - an INSERT fails only for a reason the statement explains (duplicate explicit id /
//     duplicate u / exhausted type / collision with an id created by UPDATE).
//
// Gaps are allowed everywhere (failed or ignored rows may burn values).
package c20

import (
	"fmt"
	"math/big"
	"os"
	"sort"
	"strings"
	"testing"

	"github.com/dolthub/go-mysql-server/vh/internal/fx"
	"github.com/dolthub/go-mysql-server/vh/internal/kf"
	"github.com/dolthub/go-mysql-server/vh/internal/stats"
	"pgregory.net/rapid"
)

// Finding ids of this property (see notes/C20.md).
const (
	idAlterBelow   = "C20-alter-below-max"    // ALTER TABLE .. AUTO_INCREMENT = n with n <= max(id) is taken verbatim: generated ids collide with / duplicate existing ones
	idOkFirstRow   = "C20-okresult-first-row" // OkResult.InsertID is the id of the first inserted row even when that id was explicit
	idIgnoreLastID = "C20-ignore-lastid"      // LAST_INSERT_ID() after INSERT IGNORE counts stored rows, not statement rows, to find the first generated one
	idReplaceLast  = "C20-replace-lastid"     // REPLACE that generates an id updates neither LAST_INSERT_ID() nor OkResult.InsertID
)

type intType struct {
	sql string
	max *big.Int
	neg bool // signed
}

func bi(s string) *big.Int { v, _ := new(big.Int).SetString(s, 10); return v }

var intTypes = []intType{
	{"TINYINT", bi("127"), true}, {"TINYINT UNSIGNED", bi("255"), false},
	{"SMALLINT", bi("32767"), true}, {"SMALLINT UNSIGNED", bi("65535"), false},
	{"INT", bi("2147483647"), true}, {"INT UNSIGNED", bi("4294967295"), false},
	{"BIGINT", bi("9223372036854775807"), true}, {"BIGINT UNSIGNED", bi("18446744073709551615"), false},
}

type row struct {
	id *big.Int
	v  int64
	u  *int64
}

type mach struct {
	st  *stats.Collector
	s   *fx.Sess
	typ intType
	pk  bool // PRIMARY KEY(id) (else non-unique KEY(id))
	uu  bool // UNIQUE(u)

	rows   []row    // engine contents after the last statement
	floor  *big.Int // greatest id stored by INSERT/REPLACE in this lifetime (see package comment)
	lastID *big.Int // expected LAST_INSERT_ID(); nil = unspecified (after a failed generating insert)
	// upper bounds the last value the counter may have consumed: every explicit id ever
	// attempted (stored or not), one value per generating row ever attempted (failed and
	// ignored rows may burn values), ids set by UPDATE and ALTER targets. A generating row
	// may legitimately find the type exhausted once upper reaches the type's maximum.
	upper *big.Int
	tag   int64
	sql   []string

	alterBelowActive bool // an ALTER .. AUTO_INCREMENT = n with n <= max(id) ran in this lifetime (region of C20-alter-below-max)
	dead             bool // diverged on a listed known finding: the rest of the history is not checked

	// evidence
	delMax, genAfterDelMax, explAbove, genAfterExplAbove bool
	generated                                            int
}

func (m *mach) history() string { return "  " + strings.Join(m.sql, ";\n  ") + ";" }

func (m *mach) exec(rt *rapid.T, q string) *fx.Result {
	m.sql = append(m.sql, q)
	r := m.s.Exec(q)
	if r.Panic != nil || r.TimedOut {
		rt.Fatalf("statement crashed: %s\n%s\nhistory:\n%s", r, r.Stack, m.history())
	}
	return r
}

func parseInt(s string) (*big.Int, bool) {
	if !strings.HasPrefix(s, "n:") {
		return nil, false
	}
	return new(big.Int).SetString(s[2:], 10)
}

func (m *mach) read(rt *rapid.T) []row {
	r := m.s.Exec("SELECT id, v, u FROM t")
	if !r.OK() {
		rt.Fatalf("SELECT failed: %s\nhistory:\n%s", r, m.history())
	}
	var out []row
	for _, nr := range fx.NormRows(r.Schema, r.Rows) {
		id, ok1 := parseInt(nr[0])
		v, ok2 := parseInt(nr[1])
		if !ok1 || !ok2 {
			rt.Fatalf("unexpected row %v\nhistory:\n%s", nr, m.history())
		}
		rw := row{id: id, v: v.Int64()}
		if nr[2] != "N" {
			u, ok := parseInt(nr[2])
			if !ok {
				rt.Fatalf("unexpected row %v\nhistory:\n%s", nr, m.history())
			}
			x := u.Int64()
			rw.u = &x
		}
		out = append(out, rw)
	}
	return out
}

var two64 = new(big.Int).Lsh(big.NewInt(1), 64)

// sameMod64 compares two reported ids as 64-bit patterns (LAST_INSERT_ID() of an id above
// 2^63 may be shown signed).
func sameMod64(a, b *big.Int) bool {
	x := new(big.Int).Mod(a, two64)
	y := new(big.Int).Mod(b, two64)
	return x.Cmp(y) == 0
}

func (m *mach) lastInsertID(rt *rapid.T) *big.Int {
	r := m.s.Exec("SELECT LAST_INSERT_ID()")
	if !r.OK() || len(r.Rows) != 1 {
		rt.Fatalf("SELECT LAST_INSERT_ID() failed: %s\nhistory:\n%s", r, m.history())
	}
	v, ok := parseInt(fx.NormRows(r.Schema, r.Rows)[0][0])
	if !ok {
		rt.Fatalf("LAST_INSERT_ID() returned %s\nhistory:\n%s", r, m.history())
	}
	return v
}

func (m *mach) tableMax() *big.Int {
	mx := big.NewInt(0)
	for _, r := range m.rows {
		if r.id.Cmp(mx) > 0 {
			mx = r.id
		}
	}
	return mx
}

// checkLastUnchanged: statements other than INSERT/REPLACE leave LAST_INSERT_ID() alone.
func (m *mach) checkLastUnchanged(rt *rapid.T, what string) {
	got := m.lastInsertID(rt)
	if m.lastID != nil && !sameMod64(got, m.lastID) {
		rt.Fatalf("LAST_INSERT_ID() changed from %v to %v by %s\nhistory:\n%s", m.lastID, got, what, m.history())
	}
	if m.lastID == nil {
		m.lastID = got // whatever it is now, it must stay until the next generating insert
	}
}

// ---- INSERT ---------------------------------------------------------------------------------

type insRow struct {
	gen  bool     // id is generated (NULL / 0 / DEFAULT / omitted)
	lit  string   // literal used for the id
	expl *big.Int // explicit id
	v    int64
	u    *int64
}

func (m *mach) genExplicit(rt *rapid.T) *big.Int {
	mx := m.tableMax()
	if m.floor.Cmp(mx) > 0 {
		mx = m.floor
	}
	var e *big.Int
	switch k := rapid.IntRange(0, 31).Draw(rt, "explKind"); {
	case k <= 7: // above everything
		e = new(big.Int).Add(mx, big.NewInt(int64(rapid.IntRange(1, 4).Draw(rt, "above"))))
	case k <= 11: // equal to the greatest id so far
		e = new(big.Int).Set(mx)
	case k <= 19: // an existing id
		if len(m.rows) > 0 {
			e = new(big.Int).Set(rapid.SampledFrom(m.rows).Draw(rt, "existing").id)
		} else {
			e = big.NewInt(1)
		}
	case k <= 25: // small
		e = big.NewInt(int64(rapid.IntRange(1, 6).Draw(rt, "small")))
	case k <= 30: // negative (signed types): stored as is, no influence on the counter
		if m.typ.neg {
			e = big.NewInt(int64(-rapid.IntRange(1, 5).Draw(rt, "negative")))
		} else {
			e = big.NewInt(int64(rapid.IntRange(1, 6).Draw(rt, "small")))
		}
	default: // near the end of the type (exhaustion)
		e = new(big.Int).Sub(m.typ.max, big.NewInt(int64(rapid.IntRange(0, 2).Draw(rt, "nearMax"))))
	}
	if e.Sign() == 0 {
		e = big.NewInt(1)
	}
	if e.Cmp(m.typ.max) > 0 {
		e = new(big.Int).Set(m.typ.max)
	}
	return e
}

func (m *mach) genU(rt *rapid.T) *int64 {
	switch k := rapid.IntRange(0, 5).Draw(rt, "uKind"); {
	case k == 0:
		return nil
	case k <= 2 && len(m.rows) > 0: // an existing u (a conflict if u is unique)
		if u := rapid.SampledFrom(m.rows).Draw(rt, "uFrom").u; u != nil {
			x := *u
			return &x
		}
		return nil
	default:
		x := int64(rapid.IntRange(0, 40).Draw(rt, "u"))
		return &x
	}
}

func lit(p *int64) string {
	if p == nil {
		return "NULL"
	}
	return fmt.Sprint(*p)
}

func (m *mach) insert(rt *rapid.T) {
	if m.dead {
		return
	}
	mode := rapid.SampledFrom([]string{"INSERT", "INSERT", "INSERT", "INSERT IGNORE", "REPLACE"}).Draw(rt, "mode")
	fromSelect := len(m.rows) > 0 && m.tag < 50_000_000 && rapid.IntRange(0, 5).Draw(rt, "fromSelect") == 0
	var rows []insRow
	var q string
	prev := m.rows
	if fromSelect {
		// INSERT .. SELECT over the table itself: every source row yields a row with a
		// generated id and a fresh tag (v + offset)
		m.tag += 1000
		off := m.tag
		lim := rapid.IntRange(1, 3).Draw(rt, "limit")
		src := append([]row(nil), prev...)
		sort.Slice(src, func(i, j int) bool { return src[i].v < src[j].v })
		if lim < len(src) {
			src = src[:lim]
		}
		uExpr := "NULL"
		for _, r := range src {
			rows = append(rows, insRow{gen: true, v: r.v + off})
		}
		m.tag = 2 * off // keep the tags of later statements clear of every v + off
		q = fmt.Sprintf("%s INTO t (v, u) SELECT v + %d, %s FROM t ORDER BY v LIMIT %d", mode, off, uExpr, lim)
	} else {
		n := rapid.IntRange(1, 4).Draw(rt, "nrows")
		omitID := rapid.IntRange(0, 3).Draw(rt, "omitID") == 0
		var tuples []string
		for i := 0; i < n; i++ {
			m.tag++
			r := insRow{v: m.tag, u: m.genU(rt)}
			if omitID || rapid.IntRange(0, 2).Draw(rt, "generate") != 0 {
				r.gen = true
				r.lit = rapid.SampledFrom([]string{"NULL", "NULL", "0", "DEFAULT"}).Draw(rt, "genLit")
			} else {
				r.expl = m.genExplicit(rt)
				r.lit = r.expl.String()
			}
			rows = append(rows, r)
			if omitID {
				tuples = append(tuples, fmt.Sprintf("(%d, %s)", r.v, lit(r.u)))
			} else {
				tuples = append(tuples, fmt.Sprintf("(%s, %d, %s)", r.lit, r.v, lit(r.u)))
			}
		}
		cols := "(id, v, u)"
		if omitID {
			cols = "(v, u)"
		}
		q = fmt.Sprintf("%s INTO t %s VALUES %s", mode, cols, strings.Join(tuples, ", "))
	}

	// advance the upper bound of the counter over the statement's rows
	mayExhaust := false
	if tm := m.tableMax(); tm.Cmp(m.upper) > 0 {
		m.upper = new(big.Int).Set(tm)
	}
	for _, r := range rows {
		switch {
		case r.gen && m.upper.Cmp(m.typ.max) >= 0:
			mayExhaust = true
		case r.gen:
			m.upper = new(big.Int).Add(m.upper, big.NewInt(1))
		case r.expl.Cmp(m.upper) > 0:
			m.upper = new(big.Int).Set(r.expl)
		}
	}

	res := m.exec(rt, q)
	after := m.read(rt)
	byTag := map[int64]row{}
	for _, r := range after {
		byTag[r.v] = r
	}
	prevLast := m.lastID
	gotLast := m.lastInsertID(rt)
	m.st.Class("stmt:" + strings.ToLower(strings.ReplaceAll(mode, " ", "-")))

	anyGen := false
	for _, r := range rows {
		anyGen = anyGen || r.gen
	}

	if res.Err != nil {
		// --- a failed insert: admissible reasons ---
		for _, r := range rows {
			if _, ok := byTag[r.v]; ok {
				rt.Fatalf("the failed statement stored a row (tag %d)\nstatement: %s -> %v\nhistory:\n%s", r.v, q, res.Err, m.history())
			}
		}
		reason := ""
		ids := map[string]bool{}
		us := map[int64]bool{}
		for _, r := range prev {
			ids[r.id.String()] = true
			if r.u != nil {
				us[*r.u] = true
			}
		}
		exhausted := mayExhaust
		updAbove := m.tableMax().Cmp(m.floor) > 0
		genBefore := false
		for _, r := range rows {
			if r.gen {
				genBefore = true
			}
			if r.expl != nil {
				if m.pk && ids[r.expl.String()] {
					reason = "duplicate explicit id"
				}
				if m.pk && genBefore && r.expl.Cmp(m.floor) > 0 {
					reason = "explicit id may equal an id generated earlier in the statement"
				}
				ids[r.expl.String()] = true
			}
			if r.gen && (exhausted || updAbove) {
				reason = "type exhausted or an id created by UPDATE lies above the counter"
			}
			if m.uu && r.u != nil {
				if us[*r.u] {
					reason = "duplicate u"
				}
				us[*r.u] = true
			}
		}
		if mode == "REPLACE" && reason != "type exhausted or an id created by UPDATE lies above the counter" {
			reason = ""
		}
		if reason == "" {
			msg := fmt.Sprintf("INSERT failed although no row conflicts with the table: a generated id is not new\nstatement: %s -> %v\ntable before: %s\nfloor (greatest id inserted so far): %v\nhistory:\n%s",
				q, res.Err, showRows(prev), m.floor, m.history())
			m.fail(rt, idAlterBelow, m.alterBelowActive, msg)
			return
		}
		m.st.Class("insert-failed:" + reason)
		if anyGen {
			m.lastID = nil // MySQL: LAST_INSERT_ID() is undefined after a failed statement
		} else if prevLast != nil && !sameMod64(gotLast, prevLast) {
			rt.Fatalf("LAST_INSERT_ID() changed from %v to %v by a failed insert that generates no id\nstatement: %s\nhistory:\n%s", prevLast, gotLast, q, m.history())
		}
		m.rows = after
		return
	}

	// --- successful insert: ids in row order ---
	var firstGen *big.Int
	var lastGen *big.Int
	var firstStored *big.Int
	firstStoredExplicit := false
	var kthStored []*big.Int // ids of the stored rows in statement order
	floor := m.floor
	floorBefore := m.floor
	// REPLACE: a generating row that a later row of the same statement displaced was "successfully
	// inserted", but its id cannot be read back; if it precedes the first generated id that can,
	// the first generated id of the statement is only known to lie in (floorBefore, firstGen]
	lostGenFirst := false
	for _, r := range rows {
		st, ok := byTag[r.v]
		if !ok {
			if r.gen && mode == "REPLACE" && firstGen == nil {
				lostGenFirst = true
			}
			continue // ignored (IGNORE) or displaced by a later row (REPLACE)
		}
		kthStored = append(kthStored, st.id)
		if firstStored == nil {
			firstStored = st.id
			firstStoredExplicit = !r.gen
		}
		if !r.gen {
			if st.id.Cmp(r.expl) != 0 {
				rt.Fatalf("row with explicit id %v was stored with id %v\nstatement: %s\nhistory:\n%s", r.expl, st.id, q, m.history())
			}
			if st.id.Cmp(floor) > 0 {
				floor = st.id
				m.explAbove = true
			}
			continue
		}
		g := st.id
		m.generated++
		exhausted := floor.Cmp(m.typ.max) >= 0
		switch {
		case exhausted:
			// no value left: the statement asks only for "error or no duplicate"
			for _, p := range after {
				if p.id.Cmp(g) == 0 && p.v != st.v {
					// Not asserted: with a non-unique KEY(id) the engine stores the type's maximum a
					// second time, and so does MySQL (the generated value is clipped to the type's
					// range; only a unique key turns that into an error). The statement does not say
					// what an exhausted counter has to do.
					if !m.pk && g.Cmp(m.typ.max) == 0 {
						m.st.Class("type-max-stored-again(non-unique key)")
						break
					}
					rt.Fatalf("generated id %v duplicates a stored id (type exhausted: the attempt must fail)\nstatement: %s\nhistory:\n%s", g, q, m.history())
				}
			}
			m.st.Class("generated-at-type-max")
		case g.Cmp(floor) <= 0:
			msg := fmt.Sprintf("generated id %v is not greater than %v, the greatest id inserted before it in the table's life (reuse / not increasing)\nstatement: %s\ntable before: %s\ntable after: %s\nhistory:\n%s",
				g, floor, q, showRows(prev), showRows(after), m.history())
			m.fail(rt, idAlterBelow, m.alterBelowActive, msg)
			return
		}
		if lastGen != nil && g.Cmp(lastGen) <= 0 && !exhausted {
			rt.Fatalf("generated ids do not increase in row order: %v after %v\nstatement: %s\nhistory:\n%s", g, lastGen, q, m.history())
		}
		lastGen = g
		if firstGen == nil {
			firstGen = g
		}
		if g.Cmp(floor) > 0 {
			floor = g
		}
		if m.delMax {
			m.genAfterDelMax = true
		}
		if m.explAbove {
			m.genAfterExplAbove = true
		}
	}
	m.floor = floor
	m.rows = after

	// signature of C20-ignore-lastid: INSERT IGNORE skipped some row. The engine finds "the
	// first generated id" by counting *stored* rows up to the statement index k of the first
	// generating row: it reports the id of the k-th stored row (generated or not), or nothing
	// if fewer rows were stored.
	// The same countdown feeds OkResult.InsertID once it reports generated ids only (see
	// C20-okresult-first-row): there the fallback, when fewer rows were stored, is the id of the
	// first stored row.
	ignoreSignatureFor := func(got, fallback *big.Int) bool {
		if mode != "INSERT IGNORE" || len(kthStored) >= len(rows) || !anyGen {
			return false
		}
		k := 0
		for i, r := range rows {
			if r.gen {
				k = i
				break
			}
		}
		buggy := fallback
		if k < len(kthStored) {
			buggy = kthStored[k]
		}
		return (buggy == nil || sameMod64(got, buggy)) && kf.Suppress(m.st, idIgnoreLastID)
	}
	ignoreSignature := func() bool { return ignoreSignatureFor(gotLast, prevLast) }

	// --- reporting ---
	if lostGenFirst {
		upTo := firstGen
		if upTo == nil {
			upTo = m.typ.max
		}
		unchangedOK := firstGen == nil && (prevLast == nil || sameMod64(gotLast, prevLast))
		exhausted := floorBefore.Cmp(m.typ.max) >= 0 // then the type's maximum is generated again
		if !unchangedOK && !((gotLast.Cmp(floorBefore) > 0 || exhausted) && gotLast.Cmp(upTo) <= 0) {
			if !(mode == "REPLACE" && (prevLast == nil || sameMod64(gotLast, prevLast)) && kf.Suppress(m.st, idReplaceLast)) {
				rt.Fatalf("LAST_INSERT_ID() = %v after a REPLACE whose first generated id lies in (%v, %v] (before the statement: %v)\nstatement: %s\ntable after: %s\nhistory:\n%s",
					gotLast, floorBefore, upTo, prevLast, q, showRows(after), m.history())
			}
		}
		m.st.Class("replace-displaced-generated-row")
		m.lastID = gotLast
		return
	}
	if firstGen == nil {
		// nothing generated and stored: LAST_INSERT_ID() keeps its value
		if prevLast != nil && !sameMod64(gotLast, prevLast) && ignoreSignature() {
			m.lastID = gotLast
			return
		}
		if prevLast != nil && !sameMod64(gotLast, prevLast) {
			rt.Fatalf("LAST_INSERT_ID() changed from %v to %v by an insert that stored no generated id\nstatement: %s\nhistory:\n%s", prevLast, gotLast, q, m.history())
		}
		if prevLast == nil {
			m.lastID = gotLast
		}
		return
	}
	m.st.Class("insert-generated")
	okRes, isOK := res.OkResult()
	if !isOK {
		rt.Fatalf("no OkResult for %s: %s\nhistory:\n%s", q, res, m.history())
	}
	gotOK := new(big.Int).SetUint64(okRes.InsertID)
	lastOK := sameMod64(gotLast, firstGen)
	okOK := sameMod64(gotOK, firstGen)
	if !lastOK {
		tolerated := false
		// signature of C20-replace-lastid: REPLACE, LAST_INSERT_ID() kept its previous value
		if mode == "REPLACE" && (prevLast == nil || sameMod64(gotLast, prevLast)) && kf.Suppress(m.st, idReplaceLast) {
			tolerated = true
		}
		if !tolerated && ignoreSignature() {
			tolerated = true
		}
		if !tolerated {
			rt.Fatalf("LAST_INSERT_ID() = %v after an insert whose first generated id is %v (before the statement: %v)\nstatement: %s\ntable after: %s\nhistory:\n%s",
				gotLast, firstGen, prevLast, q, showRows(after), m.history())
		}
		m.lastID = gotLast
	} else {
		m.lastID = firstGen
	}
	if !okOK {
		tolerated := false
		// signature of C20-okresult-first-row: the first stored row had an explicit id and
		// that id is what the OK result carries
		if firstStoredExplicit && sameMod64(gotOK, firstStored) && kf.Suppress(m.st, idOkFirstRow) {
			tolerated = true
		}
		// C20-ignore-lastid: the miscounted "first generating row" (or the first stored row)
		if !tolerated && ignoreSignatureFor(gotOK, firstStored) {
			tolerated = true
		}
		// C20-replace-lastid: REPLACE carries the session's previous LAST_INSERT_ID()
		if !tolerated && mode == "REPLACE" && (prevLast == nil || sameMod64(gotOK, prevLast)) && kf.Suppress(m.st, idReplaceLast) {
			tolerated = true
		}
		if !tolerated {
			rt.Fatalf("OkResult.InsertID = %v after an insert whose first generated id is %v\nstatement: %s\ntable after: %s\nhistory:\n%s",
				gotOK, firstGen, q, showRows(after), m.history())
		}
	}
}

// fail reports a violation; inside the region of a listed known finding it ends the case
// instead (model and engine have diverged).
func (m *mach) fail(rt *rapid.T, id string, inRegion bool, msg string) {
	if inRegion && kf.Suppress(m.st, id) {
		m.dead = true
		return
	}
	rt.Fatalf("%s", msg)
}

func showRows(rs []row) string {
	var parts []string
	for _, r := range rs {
		parts = append(parts, fmt.Sprintf("(%v,%d,%s)", r.id, r.v, lit(r.u)))
	}
	return "{" + strings.Join(parts, " ") + "}"
}

func TestReplayC20(t *testing.T) {
	st := stats.New("C20", "replay")
	defer st.Flush()
	if os.Getenv("VERIF_REPLAYS") == "" {
		t.Skip()
	}
	fx.ReplayDir(t, st)
}
