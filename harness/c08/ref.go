// Package c08 checks property C08: aggregate and window functions compute their defined
// values. The reference below is written from the definitions (MySQL 8.0 reference manual,
// sections "Aggregate Function Descriptions", "Window Function Descriptions" and "Window
// Function Frame Specification"): exact rationals, frames by explicit index arithmetic over
// the sorted partition, RANGE peers by key equality / offset.
package c08

import (
	"math/big"
	"sort"
	"strconv"
	"strings"
)

// row is one table row in the reference model. nil pointers are SQL NULL.
type row struct {
	id int
	p  *int64
	o  *int64
	v  *big.Rat
	s  *string
}

// want is an expected cell.
type want struct {
	null   bool
	num    *big.Rat // numeric result
	str    *string  // string result
	pieces []string // multiset of GROUP_CONCAT pieces (order free), with sep
	sep    string
	elems  []string // multiset of JSON_ARRAYAGG elements in canonical form (order free)
	kind   wantKind
	tol    *big.Rat // absolute tolerance for exact (decimal) AVG results; nil = exact
}

type wantKind int

const (
	wNum wantKind = iota
	wStr
	wPieces
	wJSONSet
)

func wNull() want               { return want{null: true} }
func wInt(i int64) want         { return want{num: new(big.Rat).SetInt64(i)} }
func wRat(r *big.Rat) want      { return want{num: r} }
func wString(s string) want     { return want{str: &s, kind: wStr} }
func wUint(u *big.Int) want     { return want{num: new(big.Rat).SetInt(u)} }
func ratOf(i int64) *big.Rat    { return new(big.Rat).SetInt64(i) }
func clone(r *big.Rat) *big.Rat { return new(big.Rat).Set(r) }

// ---------------------------------------------------------------------------------------
// aggregates over a list of rows (a group, or a window frame)

func nonNullV(rows []row) []*big.Rat {
	var out []*big.Rat
	for _, r := range rows {
		if r.v != nil {
			out = append(out, r.v)
		}
	}
	return out
}

func aggCountStar(rows []row) want { return wInt(int64(len(rows))) }
func aggCount(rows []row) want     { return wInt(int64(len(nonNullV(rows)))) }

func aggCountDistinct(rows []row) want {
	seen := map[string]bool{}
	for _, v := range nonNullV(rows) {
		seen[v.RatString()] = true
	}
	return wInt(int64(len(seen)))
}

func aggSum(rows []row) want {
	vs := nonNullV(rows)
	if len(vs) == 0 {
		return wNull()
	}
	s := new(big.Rat)
	for _, v := range vs {
		s.Add(s, v)
	}
	return wRat(s)
}

// aggAvg: sum / count of the non-NULL inputs; NULL for none. MySQL returns a DECIMAL with
// the argument's scale + 4 for exact arguments; an exact (decimal) engine result is
// therefore compared with half a unit of that scale, a floating result with the stated
// relative tolerance.
func aggAvg(scale int) func(rows []row) want {
	return func(rows []row) want {
		vs := nonNullV(rows)
		if len(vs) == 0 {
			return wNull()
		}
		s := new(big.Rat)
		for _, v := range vs {
			s.Add(s, v)
		}
		s.Quo(s, ratOf(int64(len(vs))))
		w := wRat(s)
		den := new(big.Int).Exp(big.NewInt(10), big.NewInt(int64(scale+4)), nil)
		w.tol = new(big.Rat).SetFrac(big.NewInt(1), new(big.Int).Mul(den, big.NewInt(2)))
		return w
	}
}

func aggMin(rows []row) want {
	vs := nonNullV(rows)
	if len(vs) == 0 {
		return wNull()
	}
	m := vs[0]
	for _, v := range vs[1:] {
		if v.Cmp(m) < 0 {
			m = v
		}
	}
	return wRat(clone(m))
}

func aggMax(rows []row) want {
	vs := nonNullV(rows)
	if len(vs) == 0 {
		return wNull()
	}
	m := vs[0]
	for _, v := range vs[1:] {
		if v.Cmp(m) > 0 {
			m = v
		}
	}
	return wRat(clone(m))
}

func nonNullS(rows []row) []string {
	var out []string
	for _, r := range rows {
		if r.s != nil {
			out = append(out, *r.s)
		}
	}
	return out
}

// strings are compared under the default collation utf8mb4_0900_bin: byte order.
func aggMinS(rows []row) want {
	ss := nonNullS(rows)
	if len(ss) == 0 {
		return wNull()
	}
	sort.Strings(ss)
	return wString(ss[0])
}

func aggMaxS(rows []row) want {
	ss := nonNullS(rows)
	if len(ss) == 0 {
		return wNull()
	}
	sort.Strings(ss)
	return wString(ss[len(ss)-1])
}

var two64 = new(big.Int).Lsh(big.NewInt(1), 64)

// u64 maps an integer to its 64-bit two's complement reading (bit functions work on
// unsigned 64-bit values).
func u64(r *big.Rat) *big.Int {
	i := new(big.Int).Set(r.Num())
	if i.Sign() < 0 {
		i.Add(i, two64)
	}
	return i
}

func aggBit(op string) func(rows []row) want {
	return func(rows []row) want {
		var acc *big.Int
		switch op {
		case "AND":
			acc = new(big.Int).Sub(two64, big.NewInt(1)) // neutral element: all bits set
		default:
			acc = new(big.Int)
		}
		for _, v := range nonNullV(rows) {
			x := u64(v)
			switch op {
			case "AND":
				acc.And(acc, x)
			case "OR":
				acc.Or(acc, x)
			case "XOR":
				acc.Xor(acc, x)
			}
		}
		return wUint(acc)
	}
}

// groupConcat: the non-NULL values joined by sep; NULL if there is none. distinct removes
// byte-equal duplicates; order is "" (free: compared as a multiset of pieces), "asc" or
// "desc" (by value, then - without DISTINCT - by id, so that the sequence is determined).
func groupConcat(distinct bool, order, sep string) func(rows []row) want {
	return func(rows []row) want {
		type item struct {
			s  string
			id int
		}
		var items []item
		seen := map[string]bool{}
		for _, r := range rows {
			if r.s == nil {
				continue
			}
			if distinct {
				if seen[*r.s] {
					continue
				}
				seen[*r.s] = true
			}
			items = append(items, item{*r.s, r.id})
		}
		if len(items) == 0 {
			return wNull()
		}
		if order != "" {
			sort.SliceStable(items, func(i, j int) bool {
				if items[i].s != items[j].s {
					if order == "desc" {
						return items[i].s > items[j].s
					}
					return items[i].s < items[j].s
				}
				return items[i].id < items[j].id
			})
		}
		ps := make([]string, len(items))
		for i, it := range items {
			ps[i] = it.s
		}
		if order == "" {
			return want{pieces: ps, sep: sep, kind: wPieces}
		}
		return wString(strings.Join(ps, sep))
	}
}

// jsonArrayAgg: an array with one element per row (NULL becomes JSON null), in no
// particular order; NULL for no rows.
func jsonArrayAgg(ofString bool) func(rows []row) want {
	return func(rows []row) want {
		if len(rows) == 0 {
			return wNull()
		}
		var el []string
		for _, r := range rows {
			switch {
			case ofString && r.s == nil, !ofString && r.v == nil:
				el = append(el, "null")
			case ofString:
				el = append(el, strconv.Quote(*r.s))
			default:
				el = append(el, r.v.RatString())
			}
		}
		return want{elems: el, kind: wJSONSet}
	}
}

// ---------------------------------------------------------------------------------------
// windows

// winSpec is OVER (PARTITION BY p ORDER BY o [DESC] [, id] frame).
type winSpec struct {
	partition bool
	orderO    bool // ORDER BY o
	desc      bool
	tieID     bool // ", id" appended: total order
	frame     *frame
}

type boundKind int

const (
	bUnboundedPreceding boundKind = iota
	bPreceding
	bCurrent
	bFollowing
	bUnboundedFollowing
)

type bound struct {
	kind boundKind
	k    int64
}

type frame struct {
	rangeUnit  bool // RANGE (else ROWS)
	start, end bound
	short      bool // "ROWS <start>" form: end is CURRENT ROW
}

func (b bound) sql() string {
	switch b.kind {
	case bUnboundedPreceding:
		return "UNBOUNDED PRECEDING"
	case bPreceding:
		return strconv.FormatInt(b.k, 10) + " PRECEDING"
	case bCurrent:
		return "CURRENT ROW"
	case bFollowing:
		return strconv.FormatInt(b.k, 10) + " FOLLOWING"
	}
	return "UNBOUNDED FOLLOWING"
}

func (f *frame) sql() string {
	u := "ROWS"
	if f.rangeUnit {
		u = "RANGE"
	}
	if f.short {
		return u + " " + f.start.sql()
	}
	return u + " BETWEEN " + f.start.sql() + " AND " + f.end.sql()
}

func (w *winSpec) sql() string {
	var parts []string
	if w.partition {
		parts = append(parts, "PARTITION BY p")
	}
	if w.orderO || w.tieID {
		var keys []string
		if w.orderO {
			if w.desc {
				keys = append(keys, "o DESC")
			} else {
				keys = append(keys, "o")
			}
		}
		if w.tieID {
			keys = append(keys, "id")
		}
		parts = append(parts, "ORDER BY "+strings.Join(keys, ", "))
	}
	if w.frame != nil {
		parts = append(parts, w.frame.sql())
	}
	return "(" + strings.Join(parts, " ") + ")"
}

// cmpO orders the ORDER BY key: NULLs first for ASC, last for DESC.
func cmpO(a, b *int64, desc bool) int {
	c := 0
	switch {
	case a == nil && b == nil:
		c = 0
	case a == nil:
		c = -1
	case b == nil:
		c = 1
	case *a < *b:
		c = -1
	case *a > *b:
		c = 1
	}
	if desc {
		return -c
	}
	return c
}

// partitions splits rows into the window's partitions, each sorted by the window order.
// Rows without ORDER BY keep an unspecified order: callers only use order-insensitive
// results then.
func (w *winSpec) partitions(rows []row) [][]row {
	groups := map[string][]row{}
	var keys []string
	for _, r := range rows {
		k := "all"
		if w.partition {
			k = "N"
			if r.p != nil {
				k = strconv.FormatInt(*r.p, 10)
			}
		}
		if _, ok := groups[k]; !ok {
			keys = append(keys, k)
		}
		groups[k] = append(groups[k], r)
	}
	var out [][]row
	for _, k := range keys {
		g := groups[k]
		sort.SliceStable(g, func(i, j int) bool {
			if w.orderO {
				if c := cmpO(g[i].o, g[j].o, w.desc); c != 0 {
					return c < 0
				}
			}
			if w.tieID {
				return g[i].id < g[j].id
			}
			return false
		})
		out = append(out, g)
	}
	return out
}

// peers reports whether two rows of one partition are peers under the window order.
func (w *winSpec) peers(a, b row) bool {
	if w.tieID {
		return a.id == b.id
	}
	if w.orderO {
		return cmpO(a.o, b.o, false) == 0
	}
	return true
}

// frameOf returns the half-open index interval [lo, hi) of the frame of row i in the
// sorted partition part.
func (w *winSpec) frameOf(part []row, i int) (lo, hi int) {
	n := len(part)
	f := w.frame
	if f == nil {
		if !w.orderO && !w.tieID {
			return 0, n // no ORDER BY: the whole partition
		}
		// default with ORDER BY: RANGE BETWEEN UNBOUNDED PRECEDING AND CURRENT ROW
		f = &frame{rangeUnit: true, start: bound{kind: bUnboundedPreceding}, end: bound{kind: bCurrent}}
	}
	end := f.end
	if f.short {
		end = bound{kind: bCurrent}
	}
	if !f.rangeUnit {
		lo = rowsBound(f.start, i, n, true)
		hi = rowsBound(end, i, n, false)
	} else {
		lo = w.rangeBound(part, i, f.start, true)
		hi = w.rangeBound(part, i, end, false)
	}
	if lo < 0 {
		lo = 0
	}
	if lo > n {
		lo = n
	}
	if hi > n {
		hi = n
	}
	if hi < lo {
		hi = lo
	}
	return lo, hi
}

// rowsBound: physical offsets. Returns the first index of the frame (start) or one past
// the last index (end).
func rowsBound(b bound, i, n int, start bool) int {
	var idx int
	switch b.kind {
	case bUnboundedPreceding:
		idx = 0
	case bPreceding:
		idx = i - int(b.k)
	case bCurrent:
		idx = i
	case bFollowing:
		idx = i + int(b.k)
	case bUnboundedFollowing:
		idx = n - 1
	}
	if start {
		return idx
	}
	return idx + 1
}

// rangeBound: logical offsets on the single numeric ORDER BY key o (or peers only, for
// CURRENT ROW / UNBOUNDED). For a row whose key is NULL, "k PRECEDING/FOLLOWING" bounds
// are the row's peers (manual: "if the current row value is NULL, the bound is the peers
// of the row").
func (w *winSpec) rangeBound(part []row, i int, b bound, start bool) int {
	n := len(part)
	cur := part[i]
	firstPeer, lastPeer := i, i
	for firstPeer > 0 && w.peers(part[firstPeer-1], cur) {
		firstPeer--
	}
	for lastPeer < n-1 && w.peers(part[lastPeer+1], cur) {
		lastPeer++
	}
	switch b.kind {
	case bUnboundedPreceding:
		return 0
	case bUnboundedFollowing:
		return n
	case bCurrent:
		if start {
			return firstPeer
		}
		return lastPeer + 1
	}
	if cur.o == nil {
		if start {
			return firstPeer
		}
		return lastPeer + 1
	}
	// the boundary value in key space: PRECEDING moves against the sort direction
	delta := b.k
	if b.kind == bPreceding {
		delta = -delta
	}
	if w.desc {
		delta = -delta
	}
	limit := *cur.o + delta
	// in sort order, a row "is at or after the boundary" when its key, seen in sort
	// direction, is >= limit; NULL keys are never inside a value range
	atOrAfter := func(r row) bool {
		if r.o == nil {
			return w.desc // DESC: NULLs sort last, i.e. after every value
		}
		if w.desc {
			return *r.o <= limit
		}
		return *r.o >= limit
	}
	after := func(r row) bool {
		if r.o == nil {
			return w.desc
		}
		if w.desc {
			return *r.o < limit
		}
		return *r.o > limit
	}
	if start {
		for j := 0; j < n; j++ {
			if atOrAfter(part[j]) {
				return j
			}
		}
		return n
	}
	for j := 0; j < n; j++ {
		if after(part[j]) {
			return j
		}
	}
	return n
}

// winFn computes the expected value for every row id.
type winFn func(w *winSpec, rows []row) map[int]want

func overFrame(agg func([]row) want) winFn {
	return func(w *winSpec, rows []row) map[int]want {
		out := map[int]want{}
		for _, part := range w.partitions(rows) {
			for i := range part {
				lo, hi := w.frameOf(part, i)
				out[part[i].id] = agg(part[lo:hi])
			}
		}
		return out
	}
}

func firstValue(rows []row) want {
	if len(rows) == 0 || rows[0].v == nil {
		return wNull()
	}
	return wRat(clone(rows[0].v))
}

func lastValue(rows []row) want {
	if len(rows) == 0 || rows[len(rows)-1].v == nil {
		return wNull()
	}
	return wRat(clone(rows[len(rows)-1].v))
}

func rowNumber(w *winSpec, rows []row) map[int]want {
	out := map[int]want{}
	for _, part := range w.partitions(rows) {
		for i := range part {
			out[part[i].id] = wInt(int64(i + 1))
		}
	}
	return out
}

// ranks: RANK = 1 + number of rows before the row's peer group; DENSE_RANK = number of
// peer groups up to the row's; PERCENT_RANK = (rank - 1) / (rows - 1), 0 for one row.
func ranks(which string) winFn {
	return func(w *winSpec, rows []row) map[int]want {
		out := map[int]want{}
		for _, part := range w.partitions(rows) {
			n := len(part)
			rank, dense := 0, 0
			for i := range part {
				if i == 0 || !w.peers(part[i-1], part[i]) {
					rank = i + 1
					dense++
				}
				switch which {
				case "RANK":
					out[part[i].id] = wInt(int64(rank))
				case "DENSE_RANK":
					out[part[i].id] = wInt(int64(dense))
				default:
					if n == 1 {
						out[part[i].id] = wInt(0)
					} else {
						out[part[i].id] = wRat(big.NewRat(int64(rank-1), int64(n-1)))
					}
				}
			}
		}
		return out
	}
}

// ntile: n rows into k buckets; the first n mod k buckets get one row more.
func ntile(k int) winFn {
	return func(w *winSpec, rows []row) map[int]want {
		out := map[int]want{}
		for _, part := range w.partitions(rows) {
			n := len(part)
			q, r := n/k, n%k
			i := 0
			for b := 1; b <= k && i < n; b++ {
				size := q
				if b <= r {
					size++
				}
				for j := 0; j < size && i < n; j++ {
					out[part[i].id] = wInt(int64(b))
					i++
				}
			}
		}
		return out
	}
}

// lagLead: value of v at the row `off` positions before (LAG) / after (LEAD) the current
// row inside the partition; the default (NULL if none) when there is no such row.
func lagLead(lead bool, off int, def *int64) winFn {
	return func(w *winSpec, rows []row) map[int]want {
		out := map[int]want{}
		for _, part := range w.partitions(rows) {
			for i := range part {
				j := i - off
				if lead {
					j = i + off
				}
				switch {
				case j >= 0 && j < len(part):
					if part[j].v == nil {
						out[part[i].id] = wNull()
					} else {
						out[part[i].id] = wRat(clone(part[j].v))
					}
				case def != nil:
					out[part[i].id] = wInt(*def)
				default:
					out[part[i].id] = wNull()
				}
			}
		}
		return out
	}
}
