package c08

import (
	"context"
	"fmt"
	"math/big"
	"os"
	"sort"
	"strconv"
	"strings"
	"testing"

	"github.com/dolthub/go-mysql-server/sql"
	"github.com/dolthub/go-mysql-server/vh/internal/fx"
	"github.com/dolthub/go-mysql-server/vh/internal/kf"
	"github.com/dolthub/go-mysql-server/vh/internal/stats"
	"pgregory.net/rapid"
)

// table is the generated table t(id, p, o, v, s).
type table struct {
	dec  bool // v is DECIMAL(10,2) (else INT)
	rows []row
}

func (t *table) vScale() int {
	if t.dec {
		return 2
	}
	return 0
}

func (t *table) ddl() string {
	vt := "INT"
	if t.dec {
		vt = "DECIMAL(10,2)"
	}
	return "CREATE TABLE t (id INT PRIMARY KEY, p INT, o INT, v " + vt + ", s VARCHAR(8))"
}

func litI(p *int64) string {
	if p == nil {
		return "NULL"
	}
	return strconv.FormatInt(*p, 10)
}

func (t *table) insert() string {
	if len(t.rows) == 0 {
		return ""
	}
	var sb strings.Builder
	sb.WriteString("INSERT INTO t VALUES ")
	for i, r := range t.rows {
		if i > 0 {
			sb.WriteString(", ")
		}
		v := "NULL"
		if r.v != nil {
			v = r.v.FloatString(t.vScale())
		}
		s := "NULL"
		if r.s != nil {
			s = "'" + *r.s + "'"
		}
		fmt.Fprintf(&sb, "(%d, %s, %s, %s, %s)", r.id, litI(r.p), litI(r.o), v, s)
	}
	return sb.String()
}

func (t *table) String() string { return t.ddl() + ";\n" + t.insert() + ";" }

var sPool = []string{"a", "b", "ab", "", "A", "B", "a b", "10", "9"}

func drawTable(rt *rapid.T, maxRows int) *table {
	t := &table{dec: rapid.Bool().Draw(rt, "vDecimal")}
	mode := rapid.IntRange(0, 19).Draw(rt, "mode") // 0: empty table, 1: all v NULL, else normal
	n := rapid.IntRange(1, maxRows).Draw(rt, "rows")
	if mode == 0 {
		n = 0
	}
	parts := rapid.IntRange(1, 3).Draw(rt, "partitions")
	for i := 0; i < n; i++ {
		r := row{id: i + 1}
		if rapid.IntRange(0, 11).Draw(rt, "pNull") != 0 {
			p := int64(rapid.IntRange(1, parts).Draw(rt, "p"))
			r.p = &p
		}
		if rapid.IntRange(0, 5).Draw(rt, "oNull") != 0 {
			o := int64(rapid.IntRange(-2, 3).Draw(rt, "o"))
			r.o = &o
		}
		if mode != 1 && rapid.IntRange(0, 4).Draw(rt, "vNull") != 0 {
			if t.dec {
				r.v = big.NewRat(int64(rapid.IntRange(-6, 8).Draw(rt, "v4")), 4)
			} else {
				r.v = ratOf(int64(rapid.IntRange(-3, 4).Draw(rt, "v")))
			}
		}
		if mode != 1 && rapid.IntRange(0, 4).Draw(rt, "sNull") != 0 {
			s := rapid.SampledFrom(sPool).Draw(rt, "s")
			r.s = &s
		}
		t.rows = append(t.rows, r)
	}
	return t
}

// expr is one select expression with its reference.
type expr struct {
	sql   string
	group func(rows []row) want // aggregate over a group
	win   *winSpec              // window expression
	fn    winFn
	label string
}

func drawAgg(rt *rapid.T, t *table) expr {
	type cand struct {
		sql   string
		f     func([]row) want
		label string
	}
	cs := []cand{
		{"COUNT(*)", aggCountStar, "COUNT(*)"},
		{"COUNT(v)", aggCount, "COUNT"},
		{"COUNT(DISTINCT v)", aggCountDistinct, "COUNT(DISTINCT)"},
		{"SUM(v)", aggSum, "SUM"},
		{"AVG(v)", aggAvg(t.vScale()), "AVG"},
		{"MIN(v)", aggMin, "MIN"},
		{"MAX(v)", aggMax, "MAX"},
		{"MIN(s)", aggMinS, "MIN(str)"},
		{"MAX(s)", aggMaxS, "MAX(str)"},
		{"JSON_ARRAYAGG(s)", jsonArrayAgg(true), "JSON_ARRAYAGG"},
	}
	if !t.dec {
		cs = append(cs,
			cand{"BIT_AND(v)", aggBit("AND"), "BIT_AND"},
			cand{"BIT_OR(v)", aggBit("OR"), "BIT_OR"},
			cand{"BIT_XOR(v)", aggBit("XOR"), "BIT_XOR"},
			cand{"JSON_ARRAYAGG(v)", jsonArrayAgg(false), "JSON_ARRAYAGG"},
		)
	}
	k := rapid.IntRange(0, len(cs)+3).Draw(rt, "agg")
	if k < len(cs) {
		return expr{sql: cs[k].sql, group: cs[k].f, label: cs[k].label}
	}
	// GROUP_CONCAT([DISTINCT] s [ORDER BY s [DESC][, id]] [SEPARATOR sep])
	distinct := rapid.Bool().Draw(rt, "gcDistinct")
	order := rapid.SampledFrom([]string{"", "asc", "desc"}).Draw(rt, "gcOrder")
	sep := rapid.SampledFrom([]string{",", "|", "; ", ""}).Draw(rt, "gcSep")
	if sep == "" && order == "" {
		sep = "," // pieces could not be told apart
	}
	q := "GROUP_CONCAT("
	if distinct {
		q += "DISTINCT "
	}
	q += "s"
	switch order {
	case "asc":
		q += " ORDER BY s"
	case "desc":
		q += " ORDER BY s DESC"
	}
	if order != "" && !distinct {
		q += ", id"
	}
	if sep != "," || rapid.Bool().Draw(rt, "gcExplicitSep") {
		q += " SEPARATOR '" + sep + "'"
	}
	q += ")"
	return expr{sql: q, group: groupConcat(distinct, order, sep), label: "GROUP_CONCAT"}
}

func drawBound(rt *rapid.T, name string, lo, hi boundKind) bound {
	k := boundKind(rapid.IntRange(int(lo), int(hi)).Draw(rt, name))
	b := bound{kind: k}
	if k == bPreceding || k == bFollowing {
		b.k = int64(rapid.IntRange(0, 3).Draw(rt, name+"K"))
	}
	return b
}

// pos orders bounds: a frame is well formed when start <= end.
func (b bound) pos() int64 {
	switch b.kind {
	case bUnboundedPreceding:
		return -1000
	case bPreceding:
		return -b.k
	case bCurrent:
		return 0
	case bFollowing:
		return b.k
	}
	return 1000
}

func drawFrame(rt *rapid.T, rangeUnit bool) *frame {
	f := &frame{rangeUnit: rangeUnit}
	if rapid.IntRange(0, 5).Draw(rt, "frameShort") == 0 {
		f.short = true
		f.start = drawBound(rt, "start", bUnboundedPreceding, bCurrent)
		return f
	}
	f.start = drawBound(rt, "start", bUnboundedPreceding, bFollowing)
	f.end = drawBound(rt, "end", bPreceding, bUnboundedFollowing)
	// well-formed frames only: the start bound's kind may not come after the end bound's
	// (MySQL rejects e.g. "1 FOLLOWING AND CURRENT ROW"), and within one kind the start
	// must not lie after the end
	if f.start.kind > f.end.kind {
		f.start, f.end = f.end, f.start
	}
	if f.start.kind == f.end.kind {
		if (f.start.kind == bPreceding && f.start.k < f.end.k) || (f.start.kind == bFollowing && f.start.k > f.end.k) {
			f.start.k, f.end.k = f.end.k, f.start.k
		}
	}
	return f
}

func drawWin(rt *rapid.T, t *table) expr {
	w := &winSpec{partition: rapid.IntRange(0, 3).Draw(rt, "partitioned") != 0}
	fnKind := rapid.SampledFrom([]string{"ROW_NUMBER", "RANK", "DENSE_RANK", "PERCENT_RANK", "NTILE", "LAG", "LEAD",
		"FIRST_VALUE", "LAST_VALUE", "AGG", "AGG", "AGG"}).Draw(rt, "winFn")
	w.desc = rapid.Bool().Draw(rt, "desc")
	e := expr{win: w, label: fnKind}
	switch fnKind {
	case "ROW_NUMBER":
		w.orderO, w.tieID = rapid.Bool().Draw(rt, "orderO"), true
		e.sql, e.fn = "ROW_NUMBER()", rowNumber
	case "RANK", "DENSE_RANK", "PERCENT_RANK":
		// tie-insensitive: ties in o are kept (or a total order, or no order at all)
		switch rapid.IntRange(0, 3).Draw(rt, "rankOrder") {
		case 0:
			w.orderO, w.tieID = true, true
		case 1:
			// no ORDER BY: all rows are peers
		default:
			w.orderO = true
		}
		e.sql, e.fn = fnKind+"()", ranks(fnKind)
	case "NTILE":
		w.orderO, w.tieID = rapid.Bool().Draw(rt, "orderO"), true
		k := rapid.IntRange(1, 5).Draw(rt, "buckets")
		e.sql, e.fn = fmt.Sprintf("NTILE(%d)", k), ntile(k)
	case "LAG", "LEAD":
		w.orderO, w.tieID = rapid.Bool().Draw(rt, "orderO"), true
		switch rapid.IntRange(0, 2).Draw(rt, "lagArgs") {
		case 0:
			e.sql, e.fn = fnKind+"(v)", lagLead(fnKind == "LEAD", 1, nil)
		case 1:
			off := rapid.IntRange(0, 3).Draw(rt, "offset")
			e.sql, e.fn = fmt.Sprintf("%s(v, %d)", fnKind, off), lagLead(fnKind == "LEAD", off, nil)
		default:
			off := rapid.IntRange(0, 3).Draw(rt, "offset")
			def := int64(rapid.IntRange(-9, 9).Draw(rt, "default"))
			e.sql, e.fn = fmt.Sprintf("%s(v, %d, %d)", fnKind, off, def), lagLead(fnKind == "LEAD", off, &def)
		}
	default:
		// frame-sensitive functions
		var agg func([]row) want
		var name string
		if fnKind == "FIRST_VALUE" {
			agg, name = firstValue, "FIRST_VALUE(v)"
		} else if fnKind == "LAST_VALUE" {
			agg, name = lastValue, "LAST_VALUE(v)"
		} else {
			switch rapid.IntRange(0, 5).Draw(rt, "winAgg") {
			case 0:
				agg, name = aggSum, "SUM(v)"
			case 1:
				agg, name = aggAvg(t.vScale()), "AVG(v)"
			case 2:
				agg, name = aggCount, "COUNT(v)"
			case 3:
				agg, name = aggMin, "MIN(v)"
			case 4:
				agg, name = aggMax, "MAX(v)"
			default:
				agg, name = aggCountStar, "COUNT(*)"
			}
			e.label = "win:" + strings.SplitN(name, "(", 2)[0]
		}
		orderSensitive := fnKind != "AGG"
		switch rapid.IntRange(0, 5).Draw(rt, "frameKind") {
		case 0:
			// no frame, no order: whole partition (FIRST/LAST_VALUE would depend on an
			// unspecified order: give them a total order instead)
			if orderSensitive {
				w.orderO, w.tieID = true, true
			}
		case 1:
			// ORDER BY without frame: default frame up to the current row's last peer
			w.orderO = true
			w.tieID = orderSensitive || rapid.Bool().Draw(rt, "tieID")
		case 2, 3:
			// ROWS frame: physical offsets need a total order
			w.orderO, w.tieID = rapid.Bool().Draw(rt, "orderO"), true
			w.frame = drawFrame(rt, false)
		default:
			// RANGE frame on the single numeric key o; ties are peers. FIRST/LAST_VALUE
			// would pick an unspecified peer: only aggregates here
			if orderSensitive {
				w.orderO, w.tieID = true, true
				w.frame = drawFrame(rt, false)
			} else {
				w.orderO = true
				w.frame = drawFrame(rt, true)
			}
		}
		e.sql, e.fn = name, overFrame(agg)
	}
	e.sql += " OVER " + w.sql()
	return e
}

func maxRows() int {
	if os.Getenv("VERIF_TIER") == "thorough" {
		return 20
	}
	return 14
}

// cell compares one engine value with the expectation.
func cell(ctx context.Context, got any, typ sql.Type, w want) (bool, string) {
	if j, ok := got.(sql.JSONWrapper); ok && w.kind == wJSONSet && !w.null {
		v, err := j.ToInterface(ctx)
		if err != nil {
			return false, "json error " + err.Error()
		}
		arr, ok := v.([]any)
		if !ok {
			return false, fmt.Sprintf("not a JSON array: %v", v)
		}
		var el []string
		for _, x := range arr {
			switch y := x.(type) {
			case nil:
				el = append(el, "null")
			case string:
				el = append(el, strconv.Quote(y))
			default:
				n := fx.Norm(y, nil)
				r, ok := ratOfNorm(n)
				if !ok {
					return false, "JSON element " + n
				}
				el = append(el, r.RatString())
			}
		}
		a, b := append([]string{}, el...), append([]string{}, w.elems...)
		sort.Strings(a)
		sort.Strings(b)
		return strings.Join(a, "\x00") == strings.Join(b, "\x00"), fmt.Sprintf("JSON elements %v", el)
	}
	g := fx.Norm(got, typ)
	if w.null {
		return g == "N", g
	}
	if g == "N" {
		return false, g
	}
	switch w.kind {
	case wStr:
		return g == "s:"+*w.str, g
	case wPieces:
		if !strings.HasPrefix(g, "s:") {
			return false, g
		}
		a := strings.Split(g[2:], w.sep)
		b := append([]string{}, w.pieces...)
		sort.Strings(a)
		sort.Strings(b)
		return strings.Join(a, "\x00") == strings.Join(b, "\x00"), g
	case wJSONSet:
		return false, g
	}
	r, ok := ratOfNorm(g)
	if !ok {
		return false, g
	}
	if strings.HasPrefix(g, "f:") {
		// floating result: stated relative tolerance
		return fx.ValEq(g, "n:"+w.num.RatString()), g
	}
	if w.tol != nil {
		d := new(big.Rat).Sub(r, w.num)
		d.Abs(d)
		return d.Cmp(w.tol) <= 0, g
	}
	return r.Cmp(w.num) == 0, g
}

func ratOfNorm(n string) (*big.Rat, bool) {
	switch {
	case strings.HasPrefix(n, "n:"):
		return new(big.Rat).SetString(n[2:])
	case strings.HasPrefix(n, "f:"):
		f, err := strconv.ParseFloat(n[2:], 64)
		if err != nil {
			return nil, false
		}
		r := new(big.Rat).SetFloat64(f)
		return r, r != nil
	case strings.HasPrefix(n, "s:"):
		// a number handed out as text is a type question, not a value question
		return new(big.Rat).SetString(strings.TrimSpace(n[2:]))
	}
	return nil, false
}

func (w want) String() string {
	switch {
	case w.null:
		return "NULL"
	case w.kind == wStr:
		return strconv.Quote(*w.str)
	case w.kind == wPieces:
		return fmt.Sprintf("pieces %q in any order (separator %q)", w.pieces, w.sep)
	case w.kind == wJSONSet:
		return fmt.Sprintf("JSON array of %v in any order", w.elems)
	}
	s := w.num.RatString()
	if w.tol != nil {
		s += " (±" + w.tol.RatString() + ")"
	}
	return s
}

var survey = os.Getenv("C08_SURVEY") != ""
var tally = map[string]int{}
var first = map[string]string{}

// violated reports a violation; in survey mode (development aid) violations are tallied
// by key and the run continues.
func violated(rt *rapid.T, key, format string, args ...any) {
	if survey {
		tally[key]++
		if _, ok := first[key]; !ok {
			first[key] = fmt.Sprintf(format, args...)
		}
		return
	}
	rt.Fatalf(format, args...)
}

func TestC08(t *testing.T) {
	st := stats.New("C08", "")
	defer st.Flush()
	defer func() {
		if survey {
			var keys []string
			for k := range tally {
				keys = append(keys, k)
			}
			sort.Strings(keys)
			for _, k := range keys {
				fmt.Printf("SURVEY %6d %s\n", tally[k], k)
			}
			for _, k := range keys {
				fmt.Printf("FIRST %s\n%s\n\n", k, first[k])
			}
		}
	}()
	rapid.Check(t, func(rt *rapid.T) {
		st.Eval()
		tb := drawTable(rt, maxRows())
		f := fx.New(fx.Opts{})
		defer f.Close()
		s := f.NewSession("", "", "")
		s.MustExec(rt.Fatalf, tb.ddl())
		if len(tb.rows) > 0 {
			s.MustExec(rt.Fatalf, tb.insert())
		}
		ctx := context.Background()
		nStmts := rapid.IntRange(1, 3).Draw(rt, "statements")
		for k := 0; k < nStmts; k++ {
			ok := true
			if rapid.Bool().Draw(rt, "windowStmt") {
				ok = checkWindow(rt, st, ctx, s, tb)
			} else {
				ok = checkGroup(rt, st, ctx, s, tb)
			}
			if !ok {
				return // a statement failed or crashed: the fixture is discarded
			}
		}
	})
}

// stmtFailed: an error (or crash) of a generated statement is not a statement about the
// *value* of an aggregate; errors and crashes are owned by other properties (C10). The case
// is counted so that the evidence shows how often it happens.
func stmtFailed(rt *rapid.T, st *stats.Collector, q string, res *fx.Result, tb *table) {
	if res.Panic != nil {
		st.Class("skip:statement-panicked")
	} else {
		st.Class("skip:statement-failed")
	}
	if survey {
		violated(rt, "statement failed", "%s\n  -> %s\n%s", q, res, tb)
	}
}

// ---------------------------------------------------------------------------------------
// known findings: signatures (value level) and regions (excluded by construction)

// groupSignature returns the id of the finding whose narrow signature the failing cell
// matches, or "".
func groupSignature(e expr, g []row, got string, matches func(want) bool) string {
	switch e.label {
	case "GROUP_CONCAT":
		// empty strings are dropped from the concatenation (and a group of only empty
		// strings yields NULL): the observed value must be exactly what the definition
		// gives when the empty strings are treated as NULLs
		has := false
		g2 := make([]row, len(g))
		for i, r := range g {
			g2[i] = r
			if r.s != nil && *r.s == "" {
				has = true
				g2[i].s = nil
			}
		}
		if has && matches(e.group(g2)) {
			return "C08-groupconcat-empty-string"
		}
	case "JSON_ARRAYAGG":
		if len(g) == 0 && got == "j:[]" {
			return "C08-jsonarrayagg-empty-set"
		}
	}
	return ""
}

// windowSignature: value-level signatures of window findings.
func windowSignature(e expr, w want, got string) string {
	if w.null && ((e.label == "win:SUM" && got == "f:0") || (e.label == "win:AVG" && got == "f:NaN")) {
		return "C08-window-sum-avg-no-input"
	}
	return ""
}

// rangeFramed reports whether the window uses value-based (RANGE) framing: an explicit
// RANGE frame, or the default frame of an ordered window.
func (w *winSpec) rangeFramed(e expr) bool {
	if !frameSensitive(e) {
		return false
	}
	if w.frame != nil {
		return w.frame.rangeUnit
	}
	return w.orderO || w.tieID
}

func frameSensitive(e expr) bool {
	return strings.HasPrefix(e.label, "win:") || e.label == "FIRST_VALUE" || e.label == "LAST_VALUE"
}

// windowRegions returns, per row id, the finding in whose region the cell of expression i
// lies (regions are defined on the generated case, not on the observed result).
func windowRegions(es []expr, i int, tb *table) map[int]string {
	out := map[int]string{}
	e := es[i]
	all := func(id string) {
		for _, r := range tb.rows {
			if _, ok := out[r.id]; !ok {
				out[r.id] = id
			}
		}
	}
	// two window expressions of one statement whose printed form (sql.Expression.String) is
	// the same are computed once: the later one returns the earlier one's values. The
	// printed form loses (a) the argument of NTILE, (b) the end bound of every frame that
	// starts with UNBOUNDED PRECEDING.
	for j, o := range es {
		if j != i && o.sql != e.sql && o.engineKey() == e.engineKey() {
			if e.label == "NTILE" {
				all("C08-ntile-argument-dedup")
			} else {
				all("C08-frame-end-dedup")
			}
		}
	}
	// default frame of an ordered window aggregate (RANGE UNBOUNDED PRECEDING .. CURRENT ROW):
	// the engine builds it as a value range over the *first* ORDER BY key, assuming ascending
	// non-NULL keys. Region: the window is ordered by o DESC, or the partition has a NULL o,
	// or a further key (id) separates rows that tie in o.
	if strings.HasPrefix(e.label, "win:") && e.win.frame == nil && e.win.orderO {
		for _, part := range e.win.partitions(tb.rows) {
			bad := e.win.desc
			for k, r := range part {
				if r.o == nil || (e.win.tieID && k > 0 && cmpO(part[k-1].o, r.o, false) == 0) {
					bad = true
				}
			}
			if bad {
				for _, r := range part {
					if _, ok := out[r.id]; !ok {
						out[r.id] = "C08-window-default-frame-peers"
					}
				}
			}
		}
	}
	// explicit RANGE frames: value-based bounds assume ascending non-NULL keys
	if e.win.frame != nil && e.win.frame.rangeUnit {
		if e.win.orderO && e.win.desc {
			all("C08-window-range-desc")
		}
		if e.win.orderO {
			for _, part := range e.win.partitions(tb.rows) {
				hasNull := false
				for _, r := range part {
					if r.o == nil {
						hasNull = true
					}
				}
				if hasNull {
					for _, r := range part {
						if _, ok := out[r.id]; !ok {
							out[r.id] = "C08-window-range-null-key"
						}
					}
				}
			}
		}
	}
	return out
}

// engineKey mimics what the engine's String() keeps of a window expression.
func (e expr) engineKey() string {
	w := *e.win
	fn := strings.SplitN(e.sql, " OVER ", 2)[0]
	if e.label == "NTILE" {
		fn = "NTILE"
	}
	if w.frame != nil && w.frame.start.kind == bUnboundedPreceding {
		f := *w.frame
		f.short, f.end = false, bound{kind: bUnboundedFollowing}
		w.frame = &f
	}
	return fn + "|" + w.sql()
}

func vkind(tb *table) string {
	if tb.dec {
		return "/dec"
	}
	return "/int"
}

// shape is a coarse description of a window for the survey.
func (w *winSpec) shape() string {
	s := ""
	if w.orderO {
		s += "o"
		if w.desc {
			s += "-desc"
		}
	}
	if w.tieID {
		s += "+id"
	}
	if w.frame != nil {
		if w.frame.rangeUnit {
			s += " RANGE"
		} else {
			s += " ROWS"
		}
	}
	return s
}

func keyOf(p *int64) string {
	if p == nil {
		return "N"
	}
	return "n:" + strconv.FormatInt(*p, 10)
}

func checkGroup(rt *rapid.T, st *stats.Collector, ctx context.Context, s *fx.Sess, tb *table) bool {
	n := rapid.IntRange(1, 3).Draw(rt, "aggs")
	var es []expr
	for i := 0; i < n; i++ {
		es = append(es, drawAgg(rt, tb))
	}
	grouped := rapid.IntRange(0, 3).Draw(rt, "groupBy") != 0
	minID := 0
	if rapid.IntRange(0, 3).Draw(rt, "where") == 0 {
		minID = rapid.IntRange(0, len(tb.rows)+1).Draw(rt, "minID")
	}
	var cols []string
	for _, e := range es {
		cols = append(cols, e.sql)
	}
	q := "SELECT "
	if grouped {
		q += "p, "
	}
	q += strings.Join(cols, ", ") + " FROM t"
	if minID > 0 {
		q += fmt.Sprintf(" WHERE id > %d", minID)
	}
	if grouped {
		q += " GROUP BY p"
	}
	// reference groups
	groups := map[string][]row{}
	var order []string
	for _, r := range tb.rows {
		if r.id <= minID {
			continue
		}
		k := "all"
		if grouped {
			k = keyOf(r.p)
		}
		if _, ok := groups[k]; !ok {
			order = append(order, k)
		}
		groups[k] = append(groups[k], r)
	}
	if !grouped && len(order) == 0 {
		order, groups["all"] = []string{"all"}, nil // aggregate over the empty set: one row
	}
	res := s.Exec(q)
	if !res.OK() {
		stmtFailed(rt, st, q, res, tb)
		return false
	}
	if len(res.Rows) != len(order) {
		rt.Fatalf("C08 violated: %d result rows for %d groups\n%s\n%s\n  -> %s", len(res.Rows), len(order), tb, q, res)
	}
	seen := map[string]bool{}
	nontrivial := false
	for _, rw := range res.Rows {
		k := "all"
		vals := rw
		typs := res.Schema
		if grouped {
			k = fx.Norm(rw[0], res.Schema[0].Type)
			vals, typs = rw[1:], res.Schema[1:]
		}
		g, ok := groups[k]
		if (!ok && !(k == "all" && !grouped)) || seen[k] {
			rt.Fatalf("C08 violated: unexpected or repeated group %s\n%s\n%s\n  -> %s", k, tb, q, res)
		}
		seen[k] = true
		for i, e := range es {
			w := e.group(g)
			okc, gs := cell(ctx, vals[i], typs[i].Type, w)
			if !okc {
				matches := func(alt want) bool { m, _ := cell(ctx, vals[i], typs[i].Type, alt); return m }
				if id := groupSignature(e, g, gs, matches); id != "" && kf.Suppress(st, id) {
					continue
				}
				violated(rt, "agg "+e.label+vkind(tb), "C08 violated: %s over group p=%s (%d rows) returned %s, the definition gives %s\n%s\n%s\n  -> %s",
					e.sql, k, len(g), gs, w, tb, q, res)
			}
			st.Class("agg:" + e.label)
		}
		if len(g) >= 3 {
			for _, r := range g {
				if r.v == nil || r.s == nil {
					nontrivial = true
				}
			}
		}
		if len(g) == 0 {
			st.Class("group:empty")
		}
	}
	if nontrivial {
		st.NonTrivial(map[string]any{"table": tb.String(), "query": q}, tb.String(), q)
	}
	return true
}

func checkWindow(rt *rapid.T, st *stats.Collector, ctx context.Context, s *fx.Sess, tb *table) bool {
	n := rapid.IntRange(1, 3).Draw(rt, "windowExprs")
	var es []expr
	for i := 0; i < n; i++ {
		es = append(es, drawWin(rt, tb))
	}
	var cols []string
	for _, e := range es {
		cols = append(cols, e.sql)
	}
	q := "SELECT id, " + strings.Join(cols, ", ") + " FROM t"
	res := s.Exec(q)
	if res.Panic != nil {
		// a crash instead of the defined value. Known signature: a ROWS frame that ends
		// 2 or more rows before the current row (its end index is negative on the first rows)
		for _, e := range es {
			if f := e.win.frame; f != nil && !f.rangeUnit && !f.short && f.end.kind == bPreceding && f.end.k >= 2 {
				if kf.Suppress(st, "C08-window-rows-frame-panic") {
					return false
				}
			}
		}
		violated(rt, "panic", "C08 violated: the statement crashed instead of returning the defined values\n%s\n%s\n  -> %s\n%s", tb, q, res, res.Stack)
		return false
	}
	if !res.OK() {
		stmtFailed(rt, st, q, res, tb)
		return false
	}
	if len(res.Rows) != len(tb.rows) {
		rt.Fatalf("C08 violated: %d result rows for %d table rows\n%s\n%s\n  -> %s", len(res.Rows), len(tb.rows), tb, q, res)
	}
	wants := make([]map[int]want, len(es))
	excluded := make([]map[int]string, len(es)) // row id -> finding id whose region the cell lies in
	for i, e := range es {
		wants[i] = e.fn(e.win, tb.rows)
		excluded[i] = windowRegions(es, i, tb)
	}
	for _, rw := range res.Rows {
		id, err := strconv.Atoi(strings.TrimPrefix(fx.Norm(rw[0], nil), "n:"))
		if err != nil {
			rt.Fatalf("harness: id column %v", rw[0])
		}
		for i, e := range es {
			w, ok := wants[i][id]
			if !ok {
				rt.Fatalf("harness: no expectation for id %d", id)
			}
			if fid := excluded[i][id]; fid != "" && kf.Listed(fid) {
				st.Excluded(fid)
				continue
			}
			okc, gs := cell(ctx, rw[i+1], res.Schema[i+1].Type, w)
			if !okc {
				if fid := windowSignature(e, w, gs); fid != "" && kf.Suppress(st, fid) {
					continue
				}
				violated(rt, "win "+e.label+vkind(tb)+" "+e.win.shape(), "C08 violated: %s returned %s for row id=%d, the definition gives %s\n%s\n%s\n  -> %s",
					e.sql, gs, id, w, tb, q, res)
			}
		}
	}
	nontrivial := false
	for _, e := range es {
		st.Class("win:" + strings.TrimPrefix(e.label, "win:"))
		if e.win.frame != nil {
			if e.win.frame.rangeUnit {
				st.Class("frame:RANGE")
			} else {
				st.Class("frame:ROWS")
			}
		}
		for _, part := range e.win.partitions(tb.rows) {
			if len(part) < 3 {
				continue
			}
			for i, r := range part {
				if r.v == nil || r.o == nil {
					nontrivial = true
					st.Class("nt:null-input")
				}
				if i > 0 && e.win.orderO && cmpO(part[i-1].o, r.o, false) == 0 {
					nontrivial = true
					st.Class("nt:tie-in-o")
				}
				if e.win.frame != nil {
					lo, hi := e.win.frameOf(part, i)
					if lo == 0 || hi == len(part) {
						nontrivial = true
						st.Class("nt:frame-at-edge")
					}
				}
			}
		}
	}
	if nontrivial {
		st.NonTrivial(map[string]any{"table": tb.String(), "query": q}, tb.String(), q)
	}
	return true
}
