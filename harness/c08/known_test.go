package c08

import (
	"testing"

	"github.com/dolthub/go-mysql-server/vh/internal/fx"
	"github.com/dolthub/go-mysql-server/vh/internal/kf"
	"github.com/dolthub/go-mysql-server/vh/internal/stats"
)

// witness is the minimal reproduction of one finding: set-up, one query, the rows the
// definitions prescribe and the rows observed on the unchanged tree. The signature of the
// finding in this sub-test is the exact observation; any other deviation is a violation.
type witness struct {
	id       string
	setup    []string
	query    string
	defined  [][]string // canonical rows (fx.Norm forms), compared as a multiset with fx.ValEq
	observed [][]string // nil for a crash
}

const wt = "CREATE TABLE t (id INT PRIMARY KEY, p INT, o INT, v INT, s VARCHAR(8))"

var witnesses = []witness{
	{id: "C08-groupconcat-empty-string",
		setup:    []string{wt, "INSERT INTO t VALUES (1,1,1,1,'a'),(2,1,1,1,''),(3,1,1,1,'b')"},
		query:    "SELECT GROUP_CONCAT(s ORDER BY id) FROM t",
		defined:  [][]string{{"s:a,,b"}},
		observed: [][]string{{"s:a,b"}}},
	{id: "C08-groupconcat-empty-string",
		setup:    []string{wt, "INSERT INTO t VALUES (1,1,1,1,'')"},
		query:    "SELECT GROUP_CONCAT(s) FROM t",
		defined:  [][]string{{"s:"}},
		observed: [][]string{{"N"}}},
	{id: "C08-jsonarrayagg-empty-set",
		setup:    []string{wt},
		query:    "SELECT JSON_ARRAYAGG(v) FROM t",
		defined:  [][]string{{"N"}},
		observed: [][]string{{"j:[]"}}},
	{id: "C08-window-sum-avg-no-input",
		setup:    []string{wt, "INSERT INTO t VALUES (1,1,1,NULL,'a')"},
		query:    "SELECT id, SUM(v) OVER (), AVG(v) OVER () FROM t",
		defined:  [][]string{{"n:1", "N", "N"}},
		observed: [][]string{{"n:1", "f:0", "f:NaN"}}},
	{id: "C08-ntile-argument-dedup",
		setup:    []string{wt, "INSERT INTO t VALUES (1,1,1,10,'a'),(2,1,2,20,'a')"},
		query:    "SELECT id, NTILE(1) OVER (ORDER BY id), NTILE(2) OVER (ORDER BY id) FROM t",
		defined:  [][]string{{"n:1", "n:1", "n:1"}, {"n:2", "n:1", "n:2"}},
		observed: [][]string{{"n:1", "n:1", "n:1"}, {"n:2", "n:1", "n:1"}}},
	{id: "C08-frame-end-dedup",
		setup:    []string{wt, "INSERT INTO t VALUES (1,1,1,10,'a'),(2,1,2,20,'a')"},
		query:    "SELECT id, FIRST_VALUE(v) OVER (ORDER BY id ROWS BETWEEN UNBOUNDED PRECEDING AND 1 PRECEDING), FIRST_VALUE(v) OVER (ORDER BY id ROWS BETWEEN UNBOUNDED PRECEDING AND CURRENT ROW) FROM t",
		defined:  [][]string{{"n:1", "N", "n:10"}, {"n:2", "n:10", "n:10"}},
		observed: [][]string{{"n:1", "N", "N"}, {"n:2", "n:10", "n:10"}}},
	{id: "C08-window-range-desc",
		setup:    []string{wt, "INSERT INTO t VALUES (1,1,1,10,'a'),(2,1,2,20,'a')"},
		query:    "SELECT id, SUM(v) OVER (ORDER BY o DESC RANGE BETWEEN UNBOUNDED PRECEDING AND CURRENT ROW) FROM t",
		defined:  [][]string{{"n:1", "n:30"}, {"n:2", "n:20"}},
		observed: [][]string{{"n:1", "f:30"}, {"n:2", "f:30"}}},
	{id: "C08-window-range-desc",
		setup:    []string{wt, "INSERT INTO t VALUES (1,1,1,10,'a'),(2,1,2,20,'a'),(3,1,3,40,'a')"},
		query:    "SELECT id, SUM(v) OVER (ORDER BY o DESC RANGE BETWEEN 1 PRECEDING AND CURRENT ROW) FROM t",
		defined:  [][]string{{"n:1", "n:30"}, {"n:2", "n:60"}, {"n:3", "n:40"}},
		observed: [][]string{{"n:1", "f:70"}, {"n:2", "f:70"}, {"n:3", "f:70"}}},
	{id: "C08-window-range-null-key",
		setup:    []string{wt, "INSERT INTO t VALUES (1,1,NULL,10,'a'),(2,1,1,20,'a'),(3,1,2,40,'a')"},
		query:    "SELECT id, MAX(v) OVER (ORDER BY o RANGE BETWEEN UNBOUNDED PRECEDING AND CURRENT ROW) FROM t",
		defined:  [][]string{{"n:1", "n:10"}, {"n:2", "n:20"}, {"n:3", "n:40"}},
		observed: [][]string{{"n:1", "n:40"}, {"n:2", "n:40"}, {"n:3", "n:40"}}},
	{id: "C08-window-default-frame-peers",
		setup:    []string{wt, "INSERT INTO t VALUES (1,1,1,10,'a'),(2,1,2,20,'a')"},
		query:    "SELECT id, SUM(v) OVER (ORDER BY o DESC) FROM t",
		defined:  [][]string{{"n:1", "n:30"}, {"n:2", "n:20"}},
		observed: [][]string{{"n:1", "f:30"}, {"n:2", "f:30"}}},
	{id: "C08-window-default-frame-peers",
		setup:    []string{wt, "INSERT INTO t VALUES (1,1,NULL,10,'a'),(2,1,1,20,'a'),(3,1,2,40,'a')"},
		query:    "SELECT id, MAX(v) OVER (ORDER BY o) FROM t",
		defined:  [][]string{{"n:1", "n:10"}, {"n:2", "n:20"}, {"n:3", "n:40"}},
		observed: [][]string{{"n:1", "n:40"}, {"n:2", "n:40"}, {"n:3", "n:40"}}},
	{id: "C08-window-default-frame-peers",
		setup:    []string{wt, "INSERT INTO t VALUES (1,1,1,10,'a'),(2,1,1,20,'a')"},
		query:    "SELECT id, COUNT(*) OVER (ORDER BY o, id) FROM t",
		defined:  [][]string{{"n:1", "n:1"}, {"n:2", "n:2"}},
		observed: [][]string{{"n:1", "n:2"}, {"n:2", "n:2"}}},
	{id: "C08-window-rows-frame-panic",
		setup:    []string{wt, "INSERT INTO t VALUES (1,1,1,10,'a')"},
		query:    "SELECT id, MIN(v) OVER (ORDER BY id ROWS BETWEEN UNBOUNDED PRECEDING AND 2 PRECEDING) FROM t",
		defined:  [][]string{{"n:1", "N"}},
		observed: nil},
}

// TestC08Known re-confirms the witness of every finding; see the C07 counterpart.
func TestC08Known(t *testing.T) {
	st := stats.New("C08", "known")
	defer st.Flush()
	for _, wit := range witnesses {
		st.Eval()
		f := fx.New(fx.Opts{})
		s := f.NewSession("", "", "")
		s.MustExec(t.Fatalf, wit.setup...)
		r := s.Exec(wit.query)
		f.Close()
		var got [][]string
		if r.OK() {
			got = fx.NormRows(r.Schema, r.Rows)
			if fx.MultisetEqual(got, wit.defined) {
				st.Class("witness-not-reproduced:" + wit.id)
				t.Logf("witness of %s no longer deviates: %s", wit.id, wit.query)
				continue
			}
		}
		matches := (wit.observed == nil && r.Panic != nil) || (wit.observed != nil && r.OK() && fx.MultisetEqual(got, wit.observed))
		if matches && kf.Suppress(st, wit.id) {
			st.NonTrivial(nil, wit.id, wit.query)
			t.Logf("KNOWN-FINDING %s still reproduces: %s -> %s", wit.id, wit.query, r)
			continue
		}
		t.Errorf("C08 violated (finding %s; listed=%v, observation matches the recorded signature=%v)\n%v\n%s\n  -> %s\n  the definitions give %s",
			wit.id, kf.Listed(wit.id), matches, wit.setup, wit.query, r, fx.ShowSeq(wit.defined))
	}
}
