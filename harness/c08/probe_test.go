package c08

import (
	"fmt"
	"os"
	"strings"
	"testing"

	"github.com/dolthub/go-mysql-server/vh/internal/fx"
)

func TestProbe(t *testing.T) {
	b, err := os.ReadFile(os.Getenv("PROBE_SQL"))
	if err != nil {
		t.Skip("no PROBE_SQL")
	}
	f := fx.New(fx.Opts{})
	defer f.Close()
	s := f.NewSession("", "", "")
	for _, q := range strings.Split(string(b), ";\n") {
		q = strings.TrimSpace(q)
		if q == "" {
			continue
		}
		if strings.HasPrefix(q, "PLAN ") {
			fmt.Printf("%s\n%s\n", q, s.Plan(q[5:]))
			continue
		}
		r := s.Exec(q)
		fmt.Printf("%s\n  -> %s\n", q, r)
		if r.Panic != nil {
			fmt.Println(r.Stack)
		}
	}
}
