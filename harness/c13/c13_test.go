// Package c13 checks property C13: DML statements match a reference table model.
//
// A rapid state machine draws a schema (1-2 tables; keyless / single / composite primary
// key; optional unique and secondary keys; INT, VARCHAR(8), DECIMAL(10,2) columns) and then
// a history of INSERT / INSERT IGNORE / REPLACE / INSERT .. ON DUPLICATE KEY UPDATE /
// INSERT .. SELECT / UPDATE / DELETE / TRUNCATE statements (multi-row, WHERE, ORDER BY,
// LIMIT). After every statement the table contents (SELECT *, as a multiset) and the
// reported counts (OkResult.RowsAffected; for UPDATE also matched / changed) must equal
// one of the outcomes the reference interpreter internal/tmodel admits.
package c13

import (
	"os"
	"strings"
	"testing"

	"github.com/dolthub/go-mysql-server/vh/internal/fx"
	"github.com/dolthub/go-mysql-server/vh/internal/kf"
	"github.com/dolthub/go-mysql-server/vh/internal/stats"
	"github.com/dolthub/go-mysql-server/vh/internal/tmodel"
	"pgregory.net/rapid"
)

// Finding ids of this property (see notes/C13.md, notes/C13.findings.json). The first two
// defects are the ones C14 reports under the same ids (one defect, one id, one commit).
const (
	idRowKey        = "C14-rowkey-concat"      // composite PK whose printed parts concatenate alike: edits hit the wrong row
	idDeletedUnique = "C14-deleted-unique"     // unique key not enforced against rows added after a same-valued row was deleted in the statement
	idReplaceCount  = "C13-replace-count"      // REPLACE counts one deleted row when it displaced several
	idCINoop        = "C13-ci-noop-update"     // UPDATE to a collation-equal but different string is dropped
	idKeylessCI     = "C13-keyless-ci-rows"    // keyless table: edits of rows that differ only in case hit the wrong row
	idValuesSelect  = "C13-odku-values-select" // INSERT .. SELECT .. ON DUPLICATE KEY UPDATE c = VALUES(c) is rejected
	idOdkuAlias     = "C13-odku-row-aliasing"  // a row updated through ON DUPLICATE KEY UPDATE on a keyless table is later overwritten by another row's update
)

var known = map[string]string{
	tmodel.FlagRowKeyConcat:  idRowKey,
	tmodel.FlagDeletedUnique: idDeletedUnique,
	tmodel.FlagReplaceMulti:  idReplaceCount,
	tmodel.FlagCINoopUpdate:  idCINoop,
	tmodel.FlagKeylessCI:     idKeylessCI,
	tmodel.FlagOdkuKeyless:   idOdkuAlias,
}

// profile: the value domains. Strings use the default binary collation on key columns
// (case-insensitive keys are C14's subject); a case-insensitive collation is drawn for
// columns outside every key only.
func profile() tmodel.Profile {
	p := tmodel.Profile{
		Ints:      []int64{-3, -2, -1, 0, 1, 2, 3, 4},
		Strs:      []string{"", "a", "A", "ab", "aB", "b", "a ", "9", "á"},
		Decs:      []int64{-150, -25, 0, 25, 50, 100, 150, 175, 200},
		Colls:     []string{"", "", "", "utf8mb4_general_ci"},
		TwoTables: true,
		MaxRows:   20,

		CollsNonKeyOnly: true,
	}
	if kf.Listed(idValuesSelect) {
		p.NoValuesInSelect = true
	}
	if !kf.Listed(idRowKey) {
		// values whose printed forms concatenate alike: (1,23)/(12,3), (1,"0")/(10,"")
		p.Ints = append(p.Ints, 10, 12, 23)
		p.Strs = append(p.Strs, "0", "10", "3")
	}
	return p
}

func TestC13(t *testing.T) {
	st := stats.New("C13", "")
	defer st.Flush()
	cfg := &tmodel.Config{
		Profile:   profile(),
		Env:       &tmodel.Env{MaxPaths: 400, StrEq: tmodel.NewEngineEq(profile().Strs).Eq},
		Known:     known,
		CountOnly: map[string]bool{tmodel.FlagReplaceMulti: true},
	}
	if kf.Listed(idRowKey) {
		st.Excluded(idRowKey + ":colliding-domain")
	}
	if kf.Listed(idValuesSelect) {
		st.Excluded(idValuesSelect + ":not-generated")
	}
	rapid.Check(t, func(rt *rapid.T) {
		st.Eval()
		db := tmodel.GenSchema(rt, &cfg.Profile)
		r := tmodel.NewRunner(rt, st, cfg, db)
		defer r.Close()
		rt.Repeat(r.Actions())
		h := &r.H
		if h.Successes >= 5 && (h.Collisions > 0 || h.KeyMoves > 0) {
			var sample any
			if len(h.SQL) <= 14 {
				sample = h.SQL
			}
			st.NonTrivial(sample, strings.Join(h.SQL, ";"))
		}
		shape := "keyless"
		if pk := db[0].PK(); pk != nil {
			shape = "pk1"
			if len(pk.Cols) > 1 {
				shape = "pk2"
			}
		}
		st.Class("schema:" + shape)
	})
}

// TestC13Witness re-confirms the minimal witnesses of the findings of this property. A
// witness that still reproduces must be listed as known; one that no longer reproduces is
// simply passed (the random search then covers the region again).
func TestC13Witness(t *testing.T) {
	st := stats.New("C13", "witness")
	defer st.Flush()
	type step struct {
		sql  string
		rows [][]string // expected SELECT result after the step (nil: not checked)
		aff  int64      // expected RowsAffected (-1: not checked)
		tbl  string
	}
	cases := []struct {
		id    string
		what  string
		steps []step
	}{
		{idRowKey, "UPDATE on a composite-PK table loses the edit of a row whose key prints like another row's key", []step{
			{"CREATE TABLE t (a INT NOT NULL, b INT NOT NULL, c INT, PRIMARY KEY (a, b))", nil, -1, ""},
			{"INSERT INTO t VALUES (1, 23, 0)", nil, 1, ""},
			{"INSERT INTO t VALUES (12, 3, 1)", nil, 1, ""},
			{"UPDATE t SET c = c + 1", [][]string{{"n:1", "n:23", "n:1"}, {"n:12", "n:3", "n:2"}}, 2, "t"},
		}},
		{idDeletedUnique, "REPLACE stores two rows with the same unique value after displacing a row with that value", []step{
			{"CREATE TABLE t (pk INT PRIMARY KEY, u INT, UNIQUE KEY u1 (u))", nil, -1, ""},
			{"INSERT INTO t VALUES (1, 10), (2, 20)", nil, 2, ""},
			{"REPLACE INTO t VALUES (1, 50), (4, 10), (5, 10)", [][]string{{"n:1", "n:50"}, {"n:2", "n:20"}, {"n:5", "n:10"}}, 5, "t"},
		}},
		{idDeletedUnique, "UPDATE gives two rows the unique value of a row updated earlier in the statement", []step{
			{"CREATE TABLE t (pk INT PRIMARY KEY, u INT, c INT, UNIQUE KEY u1 (u))", nil, -1, ""},
			{"INSERT INTO t VALUES (1, 10, 0), (2, 20, 0)", nil, 2, ""},
			{"UPDATE t SET u = 10, c = c + 1 ORDER BY pk", [][]string{{"n:1", "n:10", "n:0"}, {"n:2", "n:20", "n:0"}}, -2, "t"},
		}},
		{idReplaceCount, "REPLACE displacing two rows reports 2 affected rows instead of 3", []step{
			{"CREATE TABLE t (pk INT PRIMARY KEY, u INT, UNIQUE KEY u1 (u))", nil, -1, ""},
			{"INSERT INTO t VALUES (1, 10), (2, 20)", nil, 2, ""},
			{"REPLACE INTO t VALUES (1, 20)", [][]string{{"n:1", "n:20"}}, 3, "t"},
		}},
		{idValuesSelect, "INSERT .. SELECT .. ON DUPLICATE KEY UPDATE c = VALUES(c) is rejected by the planner", []step{
			{"CREATE TABLE t (pk INT PRIMARY KEY, c INT)", nil, -1, ""},
			{"CREATE TABLE s (pk INT PRIMARY KEY, c INT)", nil, -1, ""},
			{"INSERT INTO t VALUES (1, 1)", nil, 1, ""},
			{"INSERT INTO s VALUES (1, 10), (2, 20)", nil, 2, ""},
			{"INSERT INTO t SELECT pk, c FROM s ORDER BY pk ON DUPLICATE KEY UPDATE c = VALUES(c)", [][]string{{"n:1", "n:10"}, {"n:2", "n:20"}}, 3, "t"},
		}},
		{idOdkuAlias, "after ON DUPLICATE KEY UPDATE changed a row of a keyless table, a later UPDATE overwrites another stored row and fails with a false duplicate", []step{
			{"CREATE TABLE t (s VARCHAR(8), u INT NOT NULL, UNIQUE KEY u1 (u))", nil, -1, ""},
			{"INSERT INTO t VALUES ('', -3)", nil, 1, ""},
			{"INSERT INTO t VALUES ('a', -3) ON DUPLICATE KEY UPDATE u = -4", nil, 2, ""},
			{"INSERT INTO t VALUES ('', -2)", nil, 1, ""},
			{"UPDATE t SET u = u - 2 ORDER BY u", [][]string{{"s:", "n:-6"}, {"s:", "n:-4"}}, 2, "t"},
			{"UPDATE t SET s = NULL", [][]string{{"N", "n:-6"}, {"N", "n:-4"}}, 2, "t"},
		}},
		{idKeylessCI, "UPDATE on a keyless table with a case-insensitive column edits the wrong one of two rows that differ only in case", []step{
			{"CREATE TABLE t (s VARCHAR(8) COLLATE utf8mb4_general_ci NOT NULL, c INT)", nil, -1, ""},
			{"INSERT INTO t VALUES ('ab', -2), ('aB', 1)", nil, 2, ""},
			{"UPDATE t SET c = c + 3", [][]string{{"s:ab", "n:1"}, {"s:aB", "n:4"}}, 2, "t"},
		}},
		{idCINoop, "UPDATE of a case-insensitive column to a case variant is dropped", []step{
			{"CREATE TABLE t (pk INT PRIMARY KEY, s VARCHAR(8) COLLATE utf8mb4_general_ci)", nil, -1, ""},
			{"INSERT INTO t VALUES (1, 'a')", nil, 1, ""},
			{"UPDATE t SET s = 'A'", [][]string{{"n:1", "s:A"}}, 1, "t"},
		}},
	}
	for _, c := range cases {
		st.Eval()
		f := fx.New(fx.Opts{})
		s := f.NewSession("", "", "")
		bad := ""
		for _, sp := range c.steps {
			r := s.Exec(sp.sql)
			if r.Panic != nil || r.TimedOut {
				t.Fatalf("%s: %s crashed: %s\n%s", c.id, sp.sql, r, r.Stack)
			}
			if sp.aff == -2 { // the statement must fail with a duplicate-key error and change nothing
				if !tmodel.IsDup(r.Err) {
					bad = sp.sql + ": expected a duplicate-key error, got " + r.String()
				}
			} else if r.Err != nil {
				bad = sp.sql + ": unexpected error " + r.Err.Error()
			} else if ok, is := r.OkResult(); sp.aff >= 0 && (!is || int64(ok.RowsAffected) != sp.aff) {
				bad = sp.sql + ": affected rows " + r.String()
			}
			if sp.rows != nil {
				sel := s.Exec("SELECT * FROM " + sp.tbl)
				got := fx.NormRows(sel.Schema, sel.Rows)
				if !fx.MultisetEqual(got, sp.rows) && bad == "" {
					bad = sp.sql + ": table holds " + fx.Show(got) + ", expected " + fx.Show(sp.rows)
				}
			}
			if bad != "" {
				break
			}
		}
		f.Close()
		if bad == "" {
			st.Class("witness-no-longer-reproduces:" + c.id)
			if kf.Listed(c.id) {
				t.Logf("STALE: finding %s is listed as known but its witness (%s) satisfies the property now", c.id, c.what)
			}
			continue
		}
		st.NonTrivial(map[string]string{"finding": c.id, "observed": bad}, c.id, c.what)
		if !kf.Suppress(st, c.id) {
			t.Errorf("finding %s (%s) reproduces and is not listed as known:\n  %s", c.id, c.what, bad)
		}
	}
}

func TestReplayC13(t *testing.T) {
	st := stats.New("C13", "replay")
	defer st.Flush()
	if os.Getenv("VERIF_REPLAYS") == "" {
		t.Skip()
	}
	fx.ReplayDir(t, st)
}
