package c13

import (
	"fmt"
	"os"
	"strings"
	"testing"

	"github.com/dolthub/go-mysql-server/vh/internal/fx"
)

// development probe (scratch; removed before hand-over)
func TestProbe(t *testing.T) {
	p := os.Getenv("VERIF_PROBE")
	if p == "" {
		t.Skip()
	}
	b, _ := os.ReadFile(p)
	f := fx.New(fx.Opts{})
	s := f.NewSession("", "", "")
	for _, q := range strings.Split(string(b), "\n") {
		q = strings.TrimSuffix(strings.TrimSpace(q), ";")
		if q == "" || strings.HasPrefix(q, "#") {
			continue
		}
		if q == "--reset" {
			f = fx.New(fx.Opts{})
			s = f.NewSession("", "", "")
			fmt.Println("---------")
			continue
		}
		r := s.Exec(q)
		fmt.Printf("%-90s => %s\n", q, r)
		if r.Panic != nil {
			fmt.Println(r.Stack)
		}
	}
}
