package c12

import (
	"context"
	"testing"

	"github.com/dolthub/go-mysql-server/sql"
	"github.com/dolthub/go-mysql-server/vh/internal/fx"
	"github.com/dolthub/vitess/go/vt/sqlparser"
)

func TestProbe(t *testing.T) {
	f := fx.New(fx.Opts{})
	defer f.Close()
	s := f.NewSession("", "", "")
	s.MustExec(t.Fatalf,
		"CREATE TABLE t (id INT PRIMARY KEY, b BIGINT, d DECIMAL(12,2), KEY kx1 (d, b))",
		"INSERT INTO t VALUES (0,NULL,-0.25),(1,-3,-0.25),(2,-3,-1.50),(3,NULL,NULL),(4,NULL,-1.50),(6,0,-0.25)")
	q := "SELECT t.id FROM t WHERE (t.d <> ?) ORDER BY t.id"
	ctx := s.Ctx(context.Background())
	if _, err := f.Engine.PrepareQuery(ctx, q); err != nil {
		t.Fatal(err)
	}
	b := map[string]sqlparser.Expr{"v1": sqlparser.NewFloatVal([]byte("-0.25"))}
	t.Logf("bound:   %s", s.ExecB(q, b))
	t.Logf("literal: %s", s.Exec("SELECT t.id FROM t WHERE (t.d <> -0.25) ORDER BY t.id"))
	stmt, _, _ := sqlparser.ParseOne(ctx, q)
	n, err := f.Engine.BoundQueryPlan(s.Ctx(context.Background()), q, stmt, b)
	if err != nil {
		t.Fatal(err)
	}
	t.Logf("bound plan:\n%s", sql.DebugString(ctx, n))
	t.Logf("literal plan:\n%s", s.Plan("SELECT t.id FROM t WHERE (t.d <> -0.25) ORDER BY t.id"))
	q2 := "SELECT t.id FROM t IGNORE INDEX (kx1) WHERE (t.d <> ?) ORDER BY t.id"
	stmt2, _, _ := sqlparser.ParseOne(ctx, q2)
	n2, err := f.Engine.BoundQueryPlan(s.Ctx(context.Background()), q2, stmt2, b)
	if err != nil {
		t.Fatal(err)
	}
	t.Logf("bound plan, no index:\n%s", sql.DebugString(ctx, n2))
	t.Logf("eq bound:   %s", s.ExecB("SELECT t.id FROM t WHERE (t.d = ?) ORDER BY t.id", b))
	t.Logf("in bound:   %s", s.ExecB("SELECT t.id FROM t WHERE (t.d IN (?, 100.125)) ORDER BY t.id", b))
	t.Logf("in literal: %s", s.Exec("SELECT t.id FROM t WHERE (t.d IN (-0.25, 100.125)) ORDER BY t.id"))
	t.Logf("same-type literal: %s", s.Exec("SELECT t.id FROM t WHERE (t.d <> CAST(-0.25 AS DECIMAL(12,2))) ORDER BY t.id"))
	// the same without prepared statements: a literal of another decimal type
	t.Logf("cast:    %s", s.Exec("SELECT t.id FROM t WHERE (t.d <> CAST(-0.25 AS DECIMAL(20,10))) ORDER BY t.id"))
	t.Logf("wide:    %s", s.Exec("SELECT t.id FROM t WHERE (t.d <> -0.2500000000) ORDER BY t.id"))
}
