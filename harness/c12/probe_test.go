package c12

import (
	"context"
	"testing"

	"github.com/dolthub/go-mysql-server/vh/internal/fx"
)

func TestProbe(t *testing.T) {
	f := fx.New(fx.Opts{})
	defer f.Close()
	s := f.NewSession("", "", "")
	for _, q := range []string{
		"CREATE TABLE t (id INT PRIMARY KEY, bn VARBINARY(16))",
		"INSERT INTO t VALUES (1, X'FF'), (2, NULL)",
		"SET @p1 = X'61'",
		"SELECT @p1, HEX(@p1)",
		"SELECT COALESCE(bn, @p1) FROM t",
		"SELECT COALESCE(bn, X'61') FROM t",
		"PREPARE st FROM 'SELECT COALESCE(bn, ?) FROM t'",
		"EXECUTE st USING @p1",
		"SELECT COALESCE(bn, 'a') FROM t",
	} {
		r := s.Exec(q)
		ty := ""
		for _, c := range r.Schema {
			ty += c.Type.String() + " "
		}
		t.Logf("%s -> %s   [%s]", q, r, ty)
	}
	ctx := s.Ctx(context.Background())
	typ, v, err := ctx.GetUserVariable(ctx, "p1")
	t.Logf("user var: type=%v val=%#v err=%v", typ, v, err)
}
