// Package c12 checks property C12: prepared statements behave like the inlined statement text.
//
// A generated statement (SELECT with predicates, IN lists, function arguments, subqueries,
// LIMIT/OFFSET; INSERT / REPLACE / ON DUPLICATE KEY UPDATE; UPDATE; DELETE) has typed literal
// positions; a drawn subset of them becomes parameters. The statement is prepared once on a
// subject fixture and executed repeatedly with freshly drawn parameter values of the class
// of the literal they replace - through SQL PREPARE / EXECUTE USING @vars, through
// Engine.PrepareQuery + QueryWithBindings, or (TestC12Wire) through COM_STMT_PREPARE /
// COM_STMT_EXECUTE of a go-sql-driver client - also after a data change and after ALTER
// TABLE. Oracle: a twin fixture with identical data receives the same statement with the
// values written as literals; result rows, affected rows / insert id, success-or-failure
// and the table contents afterwards must be equal after every execution.
package c12

import (
	"context"
	"fmt"
	"math/big"
	"os"
	"strings"
	"testing"

	"github.com/dolthub/go-mysql-server/vh/internal/fx"
	"github.com/dolthub/go-mysql-server/vh/internal/kf"
	"github.com/dolthub/go-mysql-server/vh/internal/stats"
	"github.com/dolthub/vitess/go/vt/sqlparser"
	"pgregory.net/rapid"
)

// ---------------------------------------------------------------------------------------
// fixture data

func setupRows(rt *rapid.T) []string {
	var out []string
	n := rapid.IntRange(0, 8).Draw(rt, "nrows")
	ids := rapid.Permutation([]int{0, 1, 2, 3, 4, 5, 6, 7, 8, 9, 10, 11, 12}).Draw(rt, "ids")
	var rows []string
	for r := 0; r < n; r++ {
		vs := []string{fmt.Sprint(ids[r])}
		for _, c := range tCols {
			v := genVal(rt, c.c, true, c.big)
			if v.c == cDec && !v.null {
				// only values that fit DECIMAL(12,2) exactly are stored at set-up
				for strings.Index(v.s, ".") != len(v.s)-3 {
					v = genVal(rt, c.c, false, false)
				}
			}
			vs = append(vs, v.lit())
		}
		rows = append(rows, "("+strings.Join(vs, ", ")+")")
	}
	if len(rows) > 0 {
		out = append(out, "INSERT INTO t VALUES "+strings.Join(rows, ", "))
	}
	n2 := rapid.IntRange(0, 5).Draw(rt, "nrows2")
	rows = nil
	for r := 0; r < n2; r++ {
		rows = append(rows, fmt.Sprintf("(%d, %s, %s)", r, genVal(rt, cInt, true, false).lit(), genVal(rt, cStr, true, false).lit()))
	}
	if len(rows) > 0 {
		out = append(out, "INSERT INTO t2 VALUES "+strings.Join(rows, ", "))
	}
	return out
}

// dataChange draws a plain statement that changes the data between two executions.
func dataChange(rt *rapid.T, seq int) string {
	switch rapid.IntRange(0, 4).Draw(rt, "change") {
	case 0:
		return fmt.Sprintf("INSERT INTO t (id, i, b, d, s) VALUES (%d, %s, %s, %s, %s)", 20+seq,
			genVal(rt, cInt, true, false).lit(), genVal(rt, cInt, true, true).lit(), genVal(rt, cDec, true, false).lit(), genVal(rt, cStr, true, false).lit())
	case 1:
		return fmt.Sprintf("UPDATE t SET i = COALESCE(i, 0) + 1, s = %s WHERE id >= %d", genVal(rt, cStr, true, false).lit(), rapid.IntRange(0, 12).Draw(rt, "from"))
	case 2:
		return fmt.Sprintf("DELETE FROM t WHERE id = %d", rapid.IntRange(0, 12).Draw(rt, "del"))
	case 3:
		return fmt.Sprintf("INSERT INTO t2 VALUES (%d, %s, %s)", 20+seq, genVal(rt, cInt, true, false).lit(), genVal(rt, cStr, true, false).lit())
	default:
		return fmt.Sprintf("UPDATE t SET d = %s, f = %s, dt = %s WHERE id <= %d", genVal(rt, cDec, true, false).lit(), genVal(rt, cDbl, true, false).lit(),
			genVal(rt, cDate, true, false).lit(), rapid.IntRange(0, 12).Draw(rt, "upto"))
	}
}

// idDecIndex: with an index on the DECIMAL column, predicates that compare the column with a
// bound DECIMAL parameter select other rows than the inlined literal (see notes/C12.findings.json).
const idDecIndex = "C12-decimal-index-bound-param"

func schemaChange(rt *rapid.T, st *stats.Collector, seq int) string {
	k := rapid.IntRange(0, 3).Draw(rt, "ddl")
	if k == 2 && kf.Listed(idDecIndex) {
		// region of the listed finding: no index on the DECIMAL column
		st.Excluded(idDecIndex + ":no-index-on-decimal-column")
		return fmt.Sprintf("CREATE INDEX kx%d ON t (b, u)", seq)
	}
	switch k {
	case 0:
		return fmt.Sprintf("ALTER TABLE t ADD COLUMN x%d INT DEFAULT 3", seq)
	case 1:
		return fmt.Sprintf("ALTER TABLE t ADD COLUMN x%d VARCHAR(8)", seq)
	case 2:
		return fmt.Sprintf("CREATE INDEX kx%d ON t (d, b)", seq)
	default:
		return fmt.Sprintf("ALTER TABLE t2 ADD COLUMN x%d INT DEFAULT 1", seq)
	}
}

// ---------------------------------------------------------------------------------------
// outcomes

// outcome is what one execution produced, in canonical form.
type outcome struct {
	failed  bool
	crashed bool
	err     string
	isOK    bool // OK packet / OkResult
	aff     int64
	id      int64
	rows    [][]string
}

func outcomeOf(r *fx.Result) outcome {
	if r.Panic != nil || r.TimedOut {
		return outcome{failed: true, crashed: true, err: r.String() + "\n" + r.Stack}
	}
	if r.Err != nil {
		return outcome{failed: true, err: r.Err.Error()}
	}
	if ok, is := r.OkResult(); is {
		return outcome{isOK: true, aff: int64(ok.RowsAffected), id: int64(ok.InsertID)}
	}
	return outcome{rows: fx.NormRows(r.Schema, r.Rows)}
}

func (o outcome) String() string {
	switch {
	case o.failed:
		return "ERROR " + o.err
	case o.isOK:
		return fmt.Sprintf("OK affected=%d insert_id=%d", o.aff, o.id)
	}
	return fx.ShowSeq(o.rows)
}

// looseEq compares two canonical values: equal by fx.ValEq, or a number and its decimal text
// (a parameter and the literal it replaces may legitimately give an expression a different
// result *type*; the statement is about values).
func looseEq(a, b string) bool {
	if fx.ValEq(a, b) {
		return true
	}
	num := func(s string) (*big.Rat, bool) {
		if len(s) < 2 {
			return nil, false
		}
		switch s[:2] {
		case "n:", "f:":
			return new(big.Rat).SetString(s[2:])
		case "s:":
			t := strings.TrimSpace(s[2:])
			if t == "" || strings.ContainsAny(t, "/") {
				return nil, false
			}
			return new(big.Rat).SetString(t)
		}
		return nil, false
	}
	if (strings.HasPrefix(a, "s:")) != (strings.HasPrefix(b, "s:")) {
		x, ok1 := num(a)
		y, ok2 := num(b)
		if ok1 && ok2 {
			return fx.ValEq("n:"+x.RatString(), "n:"+y.RatString()) || fx.ValEq("f:"+x.FloatString(17), "f:"+y.FloatString(17))
		}
	}
	return false
}

func rowsEq(a, b [][]string, ordered bool) bool {
	if len(a) != len(b) {
		return false
	}
	req := func(x, y []string) bool {
		if len(x) != len(y) {
			return false
		}
		for i := range x {
			if !looseEq(x[i], y[i]) {
				return false
			}
		}
		return true
	}
	if ordered {
		for i := range a {
			if !req(a[i], b[i]) {
				return false
			}
		}
		return true
	}
	used := make([]bool, len(b))
outer:
	for _, x := range a {
		for j, y := range b {
			if !used[j] && req(x, y) {
				used[j] = true
				continue outer
			}
		}
		return false
	}
	return true
}

func sameOutcome(a, b outcome, ordered bool) bool {
	if a.failed || b.failed {
		return a.failed == b.failed && a.crashed == b.crashed
	}
	if a.isOK != b.isOK {
		return false
	}
	if a.isOK {
		return a.aff == b.aff && a.id == b.id
	}
	return rowsEq(a.rows, b.rows, ordered)
}

// ---------------------------------------------------------------------------------------
// routes

type route interface {
	name() string
	// prepare registers the statement text with parameter markers
	prepare(text string, nparams int) error
	// exec runs the prepared statement with the values of its parameters, in order
	exec(vals []val) outcome
	// canBind reports whether position p may become a parameter on this route
	canBind(p pos) bool
	// literal renders a value the way it is written in the inlined text for this route
	literal(v val) string
	// inline runs the inlined text on the twin
	inline(text string) outcome
	close()
}

type inproc struct {
	subj, twin *fx.Sess
	sql        bool
	text       string
	n          int
	log        *[]string
}

func (r *inproc) name() string {
	if r.sql {
		return "sql-prepare-execute"
	}
	return "api-bindings"
}

func (r *inproc) literal(v val) string { return v.lit() }
func (r *inproc) canBind(p pos) bool   { return binBindable(p) }

// binBindable: a binary-string position becomes a parameter only where the value is compared
// with / stored into the VARBINARY column or its bytes are taken by HEX / LENGTH. Elsewhere
// the *type* of the bound value shows legitimately: a user variable set from X'61' is a
// VARBINARY(1), a []byte client argument is a character string, the literal is a LONGBLOB,
// and type inference of e.g. COALESCE(bn, <that>) differs per type (observed: COALESCE of a
// VARBINARY(16) column and a VARBINARY(1) value is typed LONGTEXT and then fails on bytes
// that are not UTF-8, with or without a prepared statement - not this property's subject).
func binBindable(p pos) bool { return p.c != cBin || p.direct }
func (r *inproc) close()     {}

func (r *inproc) prepare(text string, n int) error {
	r.text, r.n = text, n
	if r.sql {
		q := "PREPARE st FROM " + quote(text)
		*r.log = append(*r.log, "subject: "+q)
		res := r.subj.Exec(q)
		if !res.OK() {
			return fmt.Errorf("%s", res)
		}
		return nil
	}
	*r.log = append(*r.log, "subject: Engine.PrepareQuery("+text+")")
	var err error
	func() {
		defer func() {
			if p := recover(); p != nil {
				err = fmt.Errorf("panic: %v", p)
			}
		}()
		_, err = r.subj.F.Engine.PrepareQuery(r.subj.Ctx(context.Background()), text)
	}()
	return err
}

func (r *inproc) exec(vals []val) outcome {
	if r.sql {
		var names []string
		for k, v := range vals {
			n := fmt.Sprintf("@p%d", k+1)
			names = append(names, n)
			q := "SET " + n + " = " + v.lit()
			*r.log = append(*r.log, "subject: "+q)
			if res := r.subj.Exec(q); !res.OK() {
				return outcome{failed: true, err: "SET of the user variable failed: " + res.String()}
			}
		}
		q := "EXECUTE st"
		if len(names) > 0 {
			q += " USING " + strings.Join(names, ", ")
		}
		*r.log = append(*r.log, "subject: "+q)
		return outcomeOf(r.subj.Exec(q))
	}
	b := map[string]sqlparser.Expr{}
	var shown []string
	for k, v := range vals {
		b[fmt.Sprintf("v%d", k+1)] = v.api()
		shown = append(shown, v.String())
	}
	*r.log = append(*r.log, "subject: QueryWithBindings("+r.text+") bindings ["+strings.Join(shown, ", ")+"]")
	return outcomeOf(r.subj.ExecB(r.text, b))
}

func (r *inproc) inline(text string) outcome {
	*r.log = append(*r.log, "twin:    "+text)
	return outcomeOf(r.twin.Exec(text))
}

// ---------------------------------------------------------------------------------------
// one case

type harness struct {
	st         *stats.Collector
	subj, twin *fx.Fixture
	ss, ts     *fx.Sess
	log        []string
}

func (h *harness) both(rt *rapid.T, q string) {
	h.log = append(h.log, "both:    "+q)
	a, b := h.ss.Exec(q), h.ts.Exec(q)
	if a.OK() != b.OK() {
		rt.Fatalf("harness: the same plain statement behaves differently on the two fixtures: %s\n  subject: %s\n  twin:    %s\nhistory:\n%s", q, a, b, h.history())
	}
}

func (h *harness) history() string { return "  " + strings.Join(h.log, "\n  ") }

func (h *harness) tables(rt *rapid.T, after string) {
	for _, tb := range []string{"t", "t2"} {
		a, b := h.ss.Exec("SELECT * FROM "+tb), h.ts.Exec("SELECT * FROM "+tb)
		if !a.OK() || !b.OK() {
			rt.Fatalf("reading table %s failed: %s / %s\nhistory:\n%s", tb, a, b, h.history())
		}
		ra, rb := fx.NormRows(a.Schema, a.Rows), fx.NormRows(b.Schema, b.Rows)
		if !fx.MultisetEqual(ra, rb) {
			rt.Fatalf("different effects: table %s differs after %s\n  prepared statement side: %s\n  inlined text side:       %s\nhistory:\n%s",
				tb, after, fx.Show(ra), fx.Show(rb), h.history())
		}
	}
}

// runCase runs one generated statement through one route.
func runCase(rt *rapid.T, st *stats.Collector, mk func(h *harness, s *stmt) (route, error)) {
	h := &harness{st: st}
	h.subj, h.twin = fx.New(fx.Opts{}), fx.New(fx.Opts{})
	defer h.subj.Close()
	defer h.twin.Close()
	h.ss, h.ts = h.subj.NewSession("", "", ""), h.twin.NewSession("", "", "")
	set := append(append([]string{}, ddl...), setupRows(rt)...)
	for _, q := range set {
		h.log = append(h.log, "both:    "+q)
	}
	h.ss.MustExec(rt.Fatalf, set...)
	h.ts.MustExec(rt.Fatalf, set...)

	s := genStmt(rt)
	r, err := mk(h, s)
	if err != nil {
		rt.Fatalf("harness: %v", err)
	}
	defer r.close()
	// which literal positions become parameters (at least one)
	isParam := make([]bool, len(s.pos))
	np := 0
	var cand []int
	for j, p := range s.pos {
		if !r.canBind(p) {
			continue
		}
		cand = append(cand, j)
		if rapid.Bool().Draw(rt, "param") {
			isParam[j] = true
			np++
		}
	}
	if np == 0 {
		if len(cand) == 0 {
			rt.Skip("statement without a position that can be bound")
		}
		isParam[rapid.SampledFrom(cand).Draw(rt, "forced")] = true
		np = 1
	}
	fixed := make([]val, len(s.pos))
	for j, p := range s.pos {
		if !isParam[j] {
			fixed[j] = p.draw(rt)
			fixed[j].asTime = false
		}
	}
	tmpl := s.text(func(j int) string {
		if isParam[j] {
			return "?"
		}
		return r.literal(fixed[j])
	})
	if err := r.prepare(tmpl, np); err != nil {
		// preparing fails: the inlined text must fail as well (for every parameter value)
		vals := make([]val, len(s.pos))
		for j, p := range s.pos {
			vals[j] = fixed[j]
			if isParam[j] {
				vals[j] = p.draw(rt)
			}
		}
		o := r.inline(s.text(func(j int) string { return r.literal(vals[j]) }))
		if !o.failed {
			rt.Fatalf("the statement cannot be prepared (%v) but its inlined text executes: %s\nroute: %s\ntemplate: %s\nhistory:\n%s", err, o, r.name(), tmpl, h.history())
		}
		st.Class("prepare-and-text-both-fail")
		return
	}

	var results []string
	touched := false
	execute := func(stage string) bool {
		vals := make([]val, len(s.pos))
		var params []val
		for j, p := range s.pos {
			vals[j] = fixed[j]
			if isParam[j] {
				vals[j] = p.draw(rt)
				params = append(params, vals[j])
			}
		}
		got := r.exec(params)
		inl := s.text(func(j int) string { return r.literal(vals[j]) })
		want := r.inline(inl)
		st.Class("route:" + r.name())
		st.Class("stage:" + stage)
		if got.crashed && want.crashed {
			st.Class("both-crash")
			return false
		}
		if !sameOutcome(got, want, s.ordered) {
			var ps []string
			for _, v := range params {
				ps = append(ps, v.String())
			}
			rt.Fatalf("prepared statement and inlined text differ (%s, stage %s)\ntemplate:  %s\nparameters: [%s]\ninlined:   %s\nprepared -> %s\ninlined  -> %s\nhistory:\n%s",
				r.name(), stage, tmpl, strings.Join(ps, ", "), inl, got, want, h.history())
		}
		if s.kind != "select" {
			h.tables(rt, "executing the "+s.kind)
		}
		switch {
		case want.failed:
			st.Class("outcome:error")
			results = append(results, "E")
		case want.isOK:
			st.Class("outcome:ok")
			if want.aff > 0 {
				touched = true
			}
			results = append(results, fmt.Sprintf("A%d/%s", want.aff, inl))
		default:
			st.Class("outcome:rows")
			if len(want.rows) > 0 {
				touched = true
			}
			results = append(results, fx.Show(want.rows))
		}
		return true
	}

	steps := []func() bool{
		func() bool { return execute("first") },
		func() bool { return execute("other-values") },
		func() bool { h.both(rt, dataChange(rt, 1)); return execute("after-data-change") },
		func() bool { return execute("other-values-2") },
		func() bool { h.both(rt, schemaChange(rt, st, 1)); return execute("after-schema-change") },
		func() bool { h.both(rt, dataChange(rt, 2)); return execute("after-data-change-2") },
	}
	for _, f := range steps {
		if !f() {
			return
		}
	}

	for _, l := range s.sortedLabels() {
		st.Class(l)
	}
	st.Class("kind:" + s.kind)
	st.Class(fmt.Sprintf("params:%d", np))
	distinct := map[string]bool{}
	for _, x := range results {
		distinct[x] = true
	}
	if len(distinct) >= 2 && touched {
		st.Class("nontrivial")
		st.NonTrivial(map[string]any{"route": r.name(), "template": tmpl, "executions": len(results), "distinct_results": len(distinct)}, r.name(), strings.Join(h.log, ";"))
	}
}

func TestC12(t *testing.T) {
	st := stats.New("C12", "")
	defer st.Flush()
	_ = os.Getenv("VERIF_TIER")
	rapid.Check(t, func(rt *rapid.T) {
		st.Eval()
		sqlRoute := rapid.Bool().Draw(rt, "sql-route")
		runCase(rt, st, func(h *harness, _ *stmt) (route, error) {
			return &inproc{subj: h.ss, twin: h.ts, sql: sqlRoute, log: &h.log}, nil
		})
	})
}
