package c12

import (
	"context"
	"fmt"
	"testing"

	"github.com/dolthub/go-mysql-server/vh/internal/fx"
	"github.com/dolthub/go-mysql-server/vh/internal/kf"
	"github.com/dolthub/go-mysql-server/vh/internal/srvfx"
	"github.com/dolthub/go-mysql-server/vh/internal/stats"
	"github.com/dolthub/vitess/go/vt/sqlparser"
)

// TestC12Known re-confirms the witness of the finding of this property. While the finding is
// listed as known the witness must still misbehave (else the entry is stale: logged, not
// failed); when it is not listed the witness must satisfy the property.
func TestC12Known(t *testing.T) {
	st := stats.New("C12", "known")
	defer st.Flush()
	st.Eval()
	f := fx.New(fx.Opts{})
	defer f.Close()
	s := f.NewSession("", "", "")
	s.MustExec(t.Fatalf, "CREATE TABLE t (id INT PRIMARY KEY, i INT, s VARCHAR(20))", "INSERT INTO t VALUES (1, 7, ':v1'), (2, 7, 'a'), (3, 8, ':v1')")
	srv, err := srvfx.Start(f.Engine, f.Pro, srvfx.Opts{})
	if err != nil {
		t.Fatalf("harness: %v", err)
	}
	defer func() {
		if err := srv.Close(); err != nil {
			srvfx.Inconclusive(err)
		}
	}()
	c, err := srv.Conn("d", nil)
	if err != nil {
		t.Fatalf("harness: %v", err)
	}
	bad := ""
	guarded("witness", func(ctx context.Context) {
		// one parameter marker; the text also holds the string literal ':v1'
		stmt, err := c.PrepareContext(ctx, "SELECT id FROM t WHERE s = ':v1' AND i = ?")
		if err != nil {
			bad = "prepare failed: " + err.Error()
			return
		}
		defer stmt.Close()
		rows, err := stmt.QueryContext(ctx, int64(7))
		if err != nil {
			bad = "executing with its one parameter failed: " + err.Error()
			return
		}
		got, err := scan(rows)
		if err != nil {
			bad = "reading the result failed: " + err.Error()
			return
		}
		if len(got) != 1 || got[0][0] != "n:1" {
			bad = fmt.Sprintf("returned %v, the inlined text returns [[n:1]]", got)
		}
	})
	if bad == "" {
		if kf.Listed(idColonV) {
			t.Logf("finding %s is listed as known but its witness no longer reproduces (stale entry)", idColonV)
			st.Class("witness-no-longer-reproduces:" + idColonV)
		} else {
			st.Class("witness-holds:" + idColonV)
		}
		return
	}
	st.NonTrivial(map[string]string{"finding": idColonV, "observed": bad}, idColonV)
	if !kf.Suppress(st, idColonV) {
		t.Errorf("finding %s reproduces and is not listed as known: statement SELECT id FROM t WHERE s = ':v1' AND i = ? prepared over the binary protocol: %s", idColonV, bad)
	}
}

// TestC12KnownDecimalIndex re-confirms the witness of C12-decimal-index-bound-param (in
// process, API bindings).
func TestC12KnownDecimalIndex(t *testing.T) {
	st := stats.New("C12", "known-decimal-index")
	defer st.Flush()
	st.Eval()
	f := fx.New(fx.Opts{})
	defer f.Close()
	s := f.NewSession("", "", "")
	s.MustExec(t.Fatalf,
		"CREATE TABLE t (id INT PRIMARY KEY, b BIGINT, d DECIMAL(12,2), KEY kx1 (d, b))",
		"INSERT INTO t VALUES (0,NULL,-0.25),(1,-3,-0.25),(2,-3,-1.50),(3,NULL,NULL),(4,NULL,-1.50),(6,0,-0.25)")
	q := "SELECT t.id FROM t WHERE (t.d <> ?) ORDER BY t.id"
	if _, err := f.Engine.PrepareQuery(s.Ctx(context.Background()), q); err != nil {
		t.Fatalf("prepare: %v", err)
	}
	bound := outcomeOf(s.ExecB(q, map[string]sqlparser.Expr{"v1": val{c: cDec, s: "-0.25"}.api()}))
	lit := outcomeOf(s.Exec("SELECT t.id FROM t WHERE (t.d <> -0.25) ORDER BY t.id"))
	if sameOutcome(bound, lit, true) {
		if kf.Listed(idDecIndex) {
			t.Logf("finding %s is listed as known but its witness no longer reproduces (stale entry)", idDecIndex)
			st.Class("witness-no-longer-reproduces:" + idDecIndex)
		} else {
			st.Class("witness-holds:" + idDecIndex)
		}
		return
	}
	st.NonTrivial(map[string]string{"finding": idDecIndex, "prepared": bound.String(), "inlined": lit.String()}, idDecIndex)
	if !kf.Suppress(st, idDecIndex) {
		t.Errorf("finding %s reproduces and is not listed as known: t.d <> ? bound to -0.25 returns %s, the inlined text %s", idDecIndex, bound, lit)
	}
}
