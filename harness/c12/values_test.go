package c12

import (
	"encoding/hex"
	"fmt"
	"math"
	"strconv"
	"strings"
	"time"

	"github.com/dolthub/vitess/go/vt/sqlparser"
	"pgregory.net/rapid"
)

// class is the type class of a literal position. A parameter is always bound to a value of
// the class of the literal it replaces (a string bound where a number stood is an implicit
// conversion, which the property does not pin down).
type class int

const (
	cInt  class = iota // signed integer literal
	cUint              // unsigned integer literal (values above the signed range included)
	cDec               // exact decimal literal with a decimal point
	cDbl               // approximate literal, written with an exponent so that it stays a DOUBLE
	cStr               // character string literal
	cDate              // 'YYYY-MM-DD' string in a DATE context
	cTime              // 'YYYY-MM-DD hh:mm:ss[.ffffff]' string in a DATETIME context
	cBin               // hexadecimal literal X'..' in a binary-string context
	cLim               // small non-negative integer for LIMIT / OFFSET (never NULL)
)

func (c class) String() string {
	return [...]string{"int", "uint", "dec", "dbl", "str", "date", "time", "bin", "limit"}[c]
}

// val is one SQL value together with its class.
type val struct {
	c    class
	null bool
	i    int64
	u    uint64
	f    float64
	s    string // text of cDec / cStr / cDate / cTime
	b    []byte
	// asTime: a temporal value that is compared with / assigned to a temporal column directly
	// travels as a time.Time argument on the wire route (the inlined text keeps the string:
	// in such a position both are the same temporal value)
	asTime bool
}

// quote renders a character string literal.
func quote(s string) string {
	s = strings.ReplaceAll(s, `\`, `\\`)
	s = strings.ReplaceAll(s, `'`, `''`)
	return "'" + s + "'"
}

func dblText(f float64) string { return strconv.FormatFloat(f, 'e', -1, 64) }

// lit renders the value as the literal that stands in the inlined statement text.
func (v val) lit() string {
	if v.null {
		return "NULL"
	}
	switch v.c {
	case cInt, cLim:
		return strconv.FormatInt(v.i, 10)
	case cUint:
		return strconv.FormatUint(v.u, 10)
	case cDec:
		return v.s
	case cDbl:
		return dblText(v.f)
	case cBin:
		return "X'" + strings.ToUpper(hex.EncodeToString(v.b)) + "'"
	default:
		return quote(v.s)
	}
}

// api renders the value as the parser's literal expression (the form Engine.QueryWithBindings
// takes; the server builds the same forms from wire values in handler.bindingsToExprs).
func (v val) api() sqlparser.Expr {
	if v.null {
		return &sqlparser.NullVal{}
	}
	switch v.c {
	case cInt, cLim:
		return sqlparser.NewIntVal([]byte(strconv.FormatInt(v.i, 10)))
	case cUint:
		return sqlparser.NewIntVal([]byte(strconv.FormatUint(v.u, 10)))
	case cDec:
		return sqlparser.NewFloatVal([]byte(v.s))
	case cDbl:
		return sqlparser.NewFloatVal([]byte(dblText(v.f)))
	case cBin:
		return sqlparser.NewHexVal([]byte(strings.ToUpper(hex.EncodeToString(v.b))))
	default:
		return sqlparser.NewStrVal([]byte(v.s))
	}
}

// wire renders the value as a database/sql argument. The Go client has no decimal type:
// decimal positions are bound as float64 (the values of the decimal pool are exact binary
// fractions), and the inlined text then carries the DOUBLE literal (see wireLit).
func (v val) wire() any {
	if v.null {
		return nil
	}
	switch v.c {
	case cInt, cLim:
		return v.i
	case cUint:
		return v.u
	case cDec:
		f, _ := strconv.ParseFloat(v.s, 64)
		return f
	case cDbl:
		return v.f
	case cBin:
		return v.b
	case cDate, cTime:
		if v.asTime {
			layout := "2006-01-02 15:04:05.999999"
			if v.c == cDate {
				layout = "2006-01-02"
			}
			if t, err := time.Parse(layout, v.s); err == nil {
				return t
			}
		}
		return v.s
	default:
		return v.s
	}
}

// wireLit is lit() for the values as they travel on the wire.
func (v val) wireLit() string {
	if !v.null && v.c == cDec {
		f, _ := strconv.ParseFloat(v.s, 64)
		return dblText(f)
	}
	if !v.null && v.c == cBin {
		// a []byte argument reaches the server as a string parameter; it is only generated in
		// binary-string contexts (VARBINARY column, HEX, LENGTH), where X'..' is the same value
		return v.lit()
	}
	return v.lit()
}

func (v val) String() string { return v.c.String() + ":" + v.lit() }

// ---------------------------------------------------------------------------------------
// pools (small, colliding with the table data, with the awkward members of every class)

var (
	intPool  = []int64{-3, -2, -1, 0, 1, 2, 3, 4, 10, -10, 100, 2147483647, -2147483648}
	bigPool  = []int64{-3, -1, 0, 1, 2, 4, 10, 2147483648, -2147483649, math.MaxInt64, -math.MaxInt64}
	uintPool = []uint64{0, 1, 2, 3, 10, 9223372036854775807, 9223372036854775808, math.MaxUint64}
	decPool  = []string{"-1.50", "-0.25", "0.00", "0.25", "0.50", "1.00", "1.25", "2.50", "10.00", "12345.75", "-0.75", "3.5", "100.125"}
	dblPool  = []float64{-1.5, -0.25, 0, 0.25, 0.5, 1, 1.25, 2.5, 3, 1e10, 1e-3, 123456.789}
	strPool  = []string{"", "a", "A", "ab", "b", "a ", "10", "010", "1e2", " 7", "-3", "it's", `back\slash`, `q"uote`, "ü字", "%", "a%", "_b", "NULL", "?", ":v1", "x'y\\z"}
	datePool = []string{"2024-02-29", "1999-12-31", "2000-01-01", "2024-03-01", "1970-01-01", "9999-12-31"}
	timePool = []string{"2024-02-29 12:30:00", "1999-12-31 23:59:59", "2000-01-01 00:00:00", "2024-03-01 00:00:00.000001", "2024-02-29 12:30:00.500000", "1970-01-02 03:04:05"}
	binPool  = [][]byte{{}, {0}, {0xff}, {'a'}, {'a', 0}, {0, 0xff, 0x80}, {0xc3, 0x28}, []byte("ab"), {0x27, 0x5c}}
)

// activeStrPool is strPool, or strPool without the members in the region of a listed finding.
var activeStrPool = strPool

// genVal draws a value of class c; nullable positions yield NULL with probability 1/6.
func genVal(rt *rapid.T, c class, nullable bool, big bool) val {
	if nullable && c != cLim && rapid.IntRange(0, 5).Draw(rt, "null") == 0 {
		return val{c: c, null: true}
	}
	switch c {
	case cInt:
		if big {
			return val{c: c, i: rapid.SampledFrom(bigPool).Draw(rt, "big")}
		}
		return val{c: c, i: rapid.SampledFrom(intPool).Draw(rt, "int")}
	case cLim:
		return val{c: c, i: int64(rapid.IntRange(0, 5).Draw(rt, "lim"))}
	case cUint:
		return val{c: c, u: rapid.SampledFrom(uintPool).Draw(rt, "uint")}
	case cDec:
		return val{c: c, s: rapid.SampledFrom(decPool).Draw(rt, "dec")}
	case cDbl:
		return val{c: c, f: rapid.SampledFrom(dblPool).Draw(rt, "dbl")}
	case cStr:
		return val{c: c, s: rapid.SampledFrom(activeStrPool).Draw(rt, "str")}
	case cDate:
		return val{c: c, s: rapid.SampledFrom(datePool).Draw(rt, "date")}
	case cTime:
		return val{c: c, s: rapid.SampledFrom(timePool).Draw(rt, "time")}
	case cBin:
		return val{c: c, b: rapid.SampledFrom(binPool).Draw(rt, "bin")}
	}
	panic(fmt.Sprintf("class %d", c))
}
