package c12

import (
	"context"
	"database/sql"
	"fmt"
	"strconv"
	"strings"
	"testing"
	"time"

	"github.com/dolthub/go-mysql-server/vh/internal/kf"
	"github.com/dolthub/go-mysql-server/vh/internal/srvfx"
	"github.com/dolthub/go-mysql-server/vh/internal/stats"
	"pgregory.net/rapid"
)

// wireRoute drives the binary protocol: the subject statement is prepared once on a pinned
// go-sql-driver connection (COM_STMT_PREPARE, interpolateParams=false) and executed with
// arguments (COM_STMT_EXECUTE); the twin receives the inlined text, also through
// COM_STMT_PREPARE / COM_STMT_EXECUTE without arguments on its own server, so that both
// results travel in the same protocol and only the parameters differ.
type wireRoute struct {
	h          *harness
	srvS, srvT *srvfx.Server
	cs, ct     *sql.Conn
	stmt       *sql.Stmt
	text       string
	isSelect   bool
}

const wireGuard = 90 * time.Second // liveness guard of one client call, never an oracle

func (w *wireRoute) name() string { return "binary-protocol" }

func (w *wireRoute) literal(v val) string { return v.wireLit() }

func (w *wireRoute) canBind(p pos) bool { return binBindable(p) }

func (w *wireRoute) close() {
	if w.stmt != nil {
		_ = w.stmt.Close()
	}
	for _, s := range []*srvfx.Server{w.srvS, w.srvT} {
		if s != nil {
			if err := s.Close(); err != nil {
				srvfx.Inconclusive(err)
			}
		}
	}
}

func guarded(what string, f func(ctx context.Context)) {
	ctx, cancel := context.WithTimeout(context.Background(), wireGuard)
	defer cancel()
	done := make(chan struct{})
	go func() { defer close(done); f(ctx) }()
	select {
	case <-done:
	case <-time.After(wireGuard + 10*time.Second):
		srvfx.Inconclusive(fmt.Errorf("client call did not return: %s", what))
	}
	if ctx.Err() != nil {
		srvfx.Inconclusive(fmt.Errorf("client call exceeded the liveness guard: %s", what))
	}
}

func (w *wireRoute) prepare(text string, n int) error {
	w.text = text
	w.h.log = append(w.h.log, "subject: COM_STMT_PREPARE "+text)
	var err error
	guarded(text, func(ctx context.Context) { w.stmt, err = w.cs.PrepareContext(ctx, text) })
	return err
}

func normDriver(v any) string {
	switch x := v.(type) {
	case nil:
		return "N"
	case int64:
		return "n:" + strconv.FormatInt(x, 10)
	case uint64:
		return "n:" + strconv.FormatUint(x, 10)
	case float32:
		return "f:" + strconv.FormatFloat(float64(x), 'g', 17, 64)
	case float64:
		return "f:" + strconv.FormatFloat(x, 'g', 17, 64)
	case bool:
		if x {
			return "n:1"
		}
		return "n:0"
	case []byte:
		return "s:" + string(x)
	case string:
		return "s:" + x
	case time.Time:
		return "t:" + strconv.FormatInt(x.UTC().UnixMicro(), 10)
	}
	return fmt.Sprintf("?:%T:%v", v, v)
}

func scan(rows *sql.Rows) ([][]string, error) {
	defer rows.Close()
	cols, err := rows.Columns()
	if err != nil {
		return nil, err
	}
	var out [][]string
	for rows.Next() {
		vals := make([]any, len(cols))
		ptrs := make([]any, len(cols))
		for i := range vals {
			ptrs[i] = &vals[i]
		}
		if err := rows.Scan(ptrs...); err != nil {
			return out, err
		}
		r := make([]string, len(cols))
		for i, v := range vals {
			r[i] = normDriver(v)
		}
		out = append(out, r)
	}
	return out, rows.Err()
}

func runStmt(ctx context.Context, st *sql.Stmt, isSelect bool, args []any) outcome {
	if isSelect {
		rows, err := st.QueryContext(ctx, args...)
		if err != nil {
			return wireErr(err)
		}
		out, err := scan(rows)
		if err != nil {
			return wireErr(err)
		}
		return outcome{rows: out}
	}
	res, err := st.ExecContext(ctx, args...)
	if err != nil {
		return wireErr(err)
	}
	o := outcome{isOK: true}
	o.aff, _ = res.RowsAffected()
	o.id, _ = res.LastInsertId()
	return o
}

func wireErr(err error) outcome {
	// a broken connection means the server side died on the statement: treated like a crash
	return outcome{failed: true, crashed: srvfx.IsConnBroken(err), err: err.Error()}
}

func (w *wireRoute) exec(vals []val) outcome {
	args := make([]any, len(vals))
	shown := make([]string, len(vals))
	for i, v := range vals {
		args[i] = v.wire()
		shown[i] = fmt.Sprintf("%T(%v)", args[i], args[i])
	}
	w.h.log = append(w.h.log, "subject: COM_STMT_EXECUTE args ["+strings.Join(shown, ", ")+"]")
	var o outcome
	guarded(w.text, func(ctx context.Context) { o = runStmt(ctx, w.stmt, w.isSelect, args) })
	return o
}

func (w *wireRoute) inline(text string) outcome {
	w.h.log = append(w.h.log, "twin:    COM_STMT_PREPARE+EXECUTE "+text)
	var o outcome
	guarded(text, func(ctx context.Context) {
		st, err := w.ct.PrepareContext(ctx, text)
		if err != nil {
			o = wireErr(err)
			return
		}
		defer st.Close()
		o = runStmt(ctx, st, w.isSelect, nil)
	})
	return o
}

// idColonV: the server counts every literal whose text starts with ":v" as a parameter marker
// when a statement is prepared over the binary protocol (vitess mysql/conn.go), so a
// statement text that contains the string literal ':v1' reports one parameter too many.
const idColonV = "C12-wire-colon-v-literal"

func TestC12Wire(t *testing.T) {
	st := stats.New("C12", "wire")
	defer st.Flush()
	activeStrPool = strPool
	if kf.Listed(idColonV) {
		// region excluded by construction: no string value starting with ":v"
		activeStrPool = nil
		for _, s := range strPool {
			if !strings.HasPrefix(s, ":v") {
				activeStrPool = append(activeStrPool, s)
			}
		}
		st.Excluded(idColonV + ":string-values-starting-with-colon-v")
	}
	defer func() { activeStrPool = strPool }()
	rapid.Check(t, func(rt *rapid.T) {
		st.Eval()
		runCase(rt, st, func(h *harness, s *stmt) (route, error) {
			w := &wireRoute{h: h, isSelect: s.kind == "select"}
			var err error
			if w.srvS, err = srvfx.Start(h.subj.Engine, h.subj.Pro, srvfx.Opts{}); err != nil {
				return nil, err
			}
			if w.srvT, err = srvfx.Start(h.twin.Engine, h.twin.Pro, srvfx.Opts{}); err != nil {
				w.close()
				return nil, err
			}
			if w.cs, err = w.srvS.Conn("d", nil); err != nil {
				w.close()
				return nil, err
			}
			if w.ct, err = w.srvT.Conn("d", nil); err != nil {
				w.close()
				return nil, err
			}
			return w, nil
		})
	})
}
