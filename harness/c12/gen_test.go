package c12

import (
	"fmt"
	"sort"
	"strings"

	"pgregory.net/rapid"
)

// The fixture schema: one column per type class, keys on the columns the predicates use.
var ddl = []string{
	"CREATE TABLE t (id INT PRIMARY KEY, i INT, b BIGINT, u BIGINT UNSIGNED, d DECIMAL(12,2), f DOUBLE, s VARCHAR(20), dt DATE, ts DATETIME(6), bn VARBINARY(16), KEY ki (i), KEY ks (s))",
	"CREATE TABLE t2 (id INT PRIMARY KEY, i INT, s VARCHAR(20), KEY k2 (i))",
}

type column struct {
	name string
	c    class
	big  bool
}

var tCols = []column{{"i", cInt, false}, {"b", cInt, true}, {"u", cUint, false}, {"d", cDec, false}, {"f", cDbl, false},
	{"s", cStr, false}, {"dt", cDate, false}, {"ts", cTime, false}, {"bn", cBin, false}}

const cID class = 100 // position of a primary-key value: 0..12, never NULL

// pos is one literal position of a statement.
type pos struct {
	c        class
	nullable bool
	big      bool
	direct   bool // compared with / assigned to a column of its class directly
}

func (p pos) draw(rt *rapid.T) val {
	if p.c == cID {
		return val{c: cInt, i: int64(rapid.IntRange(0, 12).Draw(rt, "id"))}
	}
	v := genVal(rt, p.c, p.nullable, p.big)
	if (p.c == cDate || p.c == cTime) && p.direct && !v.null {
		v.asTime = rapid.Bool().Draw(rt, "as-time")
	}
	return v
}

// stmt is a generated statement with its literal positions left open.
type stmt struct {
	kind    string // select | insert | update | delete
	parts   []string
	pos     []pos
	ordered bool // the result is a sequence (ORDER BY the primary key of the only table)
	labels  map[string]bool
}

type builder struct {
	rt     *rapid.T
	parts  []string
	cur    strings.Builder
	pos    []pos
	labels map[string]bool
}

func (b *builder) w(s string) { b.cur.WriteString(s) }

// p opens a literal position of class c.
func (b *builder) p(c class, nullable bool, where string) {
	b.pb(c, nullable, false, where)
}

func (b *builder) pb(c class, nullable, big bool, where string) {
	b.parts = append(b.parts, b.cur.String())
	b.cur.Reset()
	direct := false
	switch where {
	case "where-cmp-col", "in-list", "between", "insert-values", "update-set-col":
		direct = true
	case "bin-fn-arg": // HEX(?) / LENGTH(?): the bytes of the argument, whatever its string type
		direct = true
		where = "fn-arg"
	}
	b.pos = append(b.pos, pos{c: c, nullable: nullable, big: big, direct: direct})
	b.labels["pos:"+strings.TrimSuffix(where, "-col")] = true
	if c < cID {
		b.labels["class:"+c.String()] = true
	}
}

func (b *builder) col(c column, nullable bool, where string) { b.pb(c.c, nullable, c.big, where) }

func (b *builder) intn(lo, hi int, l string) int { return rapid.IntRange(lo, hi).Draw(b.rt, l) }
func (b *builder) pick(xs []string, l string) string {
	return rapid.SampledFrom(xs).Draw(b.rt, l)
}

var cmpOps = []string{"=", "=", "<>", "<", "<=", ">", ">=", "<=>"}

// atom writes one predicate over table alias t (and possibly t2 through a subquery).
func (b *builder) atom() {
	switch b.intn(0, 9, "atom") {
	case 0, 1, 2:
		c := tCols[b.intn(0, len(tCols)-1, "col")]
		op := b.pick(cmpOps, "op")
		if c.c == cBin {
			op = b.pick([]string{"=", "<>", "<=>"}, "binop")
		}
		b.w("t." + c.name + " " + op + " ")
		b.col(c, true, "where-cmp-col")
	case 3:
		c := tCols[b.pick2([]int{0, 1, 3, 5}, "incol")]
		b.w("t." + c.name)
		if b.intn(0, 2, "notin") == 0 {
			b.w(" NOT")
		}
		b.w(" IN (")
		n := b.intn(1, 4, "nin")
		for k := 0; k < n; k++ {
			if k > 0 {
				b.w(", ")
			}
			b.col(c, true, "in-list")
		}
		b.w(")")
	case 4:
		c := tCols[b.pick2([]int{0, 3, 6}, "btcol")]
		b.w("t." + c.name + " BETWEEN ")
		b.col(c, true, "between")
		b.w(" AND ")
		b.col(c, true, "between")
	case 5:
		b.w("t.s LIKE ")
		b.p(cStr, true, "like")
	case 6, 7:
		b.labels["function-argument"] = true
		switch b.intn(0, 10, "fn") {
		case 0:
			b.w("COALESCE(t.i, ")
			b.p(cInt, true, "fn-arg")
			b.w(") " + b.pick(cmpOps, "op") + " ")
			b.p(cInt, true, "where-cmp")
		case 1:
			b.w("ABS(t.i - ")
			b.p(cInt, true, "fn-arg")
			b.w(") < ")
			b.p(cInt, true, "where-cmp")
		case 2:
			b.w("t.i + ")
			b.p(cInt, true, "arith")
			b.w(" > ")
			b.p(cInt, true, "where-cmp")
		case 3:
			b.w("CONCAT(COALESCE(t.s, ''), ")
			b.p(cStr, true, "fn-arg")
			b.w(") = ")
			b.p(cStr, true, "where-cmp")
		case 4:
			b.w("LENGTH(")
			b.p(cStr, true, "fn-arg")
			b.w(") > t.i")
		case 5:
			b.w("IF(t.i > ")
			b.p(cInt, true, "fn-arg")
			b.w(", ")
			b.p(cStr, true, "fn-arg")
			b.w(", t.s) = ")
			b.p(cStr, true, "where-cmp")
		case 6:
			b.w(b.pick([]string{"LEAST", "GREATEST"}, "lg") + "(t.i, ")
			b.p(cInt, true, "fn-arg")
			b.w(") = ")
			b.p(cInt, true, "where-cmp")
		case 7:
			b.w("CHAR_LENGTH(CONCAT(")
			b.p(cStr, true, "fn-arg")
			b.w(", ")
			b.p(cStr, true, "fn-arg")
			b.w(")) > ")
			b.p(cInt, true, "where-cmp")
		case 8:
			b.w("HEX(")
			b.p(cBin, true, "bin-fn-arg")
			b.w(") = HEX(t.bn)")
		case 9:
			b.w("DATEDIFF(t.dt, ")
			b.p(cDate, true, "fn-arg")
			b.w(") > ")
			b.p(cInt, true, "where-cmp")
		default:
			b.w("ROUND(t.d * ")
			b.p(cInt, true, "arith")
			b.w(", 1) > ")
			b.p(cDec, true, "where-cmp")
		}
	default:
		b.labels["subquery"] = true
		switch b.intn(0, 2, "sub") {
		case 0:
			b.w("t.id IN (SELECT t2.id FROM t2 WHERE t2.s = ")
			b.p(cStr, true, "subquery")
			b.w(")")
		case 1:
			b.w("EXISTS (SELECT 1 FROM t2 WHERE t2.i = t.i AND t2.id > ")
			b.p(cInt, true, "subquery")
			b.w(")")
		default:
			b.w("t.i > (SELECT COUNT(*) FROM t2 WHERE t2.i < ")
			b.p(cInt, true, "subquery")
			b.w(")")
		}
	}
}

func (b *builder) pick2(xs []int, l string) int { return rapid.SampledFrom(xs).Draw(b.rt, l) }

func (b *builder) pred() {
	n := b.intn(1, 3, "natoms")
	for k := 0; k < n; k++ {
		if k > 0 {
			b.w(b.pick([]string{" AND ", " AND ", " OR "}, "conn"))
		}
		not := b.intn(0, 5, "not") == 0
		if not {
			b.w("NOT (")
		} else {
			b.w("(")
		}
		b.atom()
		b.w(")")
	}
}

// item writes one select-list expression.
func (b *builder) item(k int) {
	switch b.intn(0, 11, "item") {
	case 0, 1:
		b.w("t." + tCols[b.intn(0, len(tCols)-1, "icol")].name)
	case 2:
		// COALESCE over the integer and string columns only: its result *type* is inferred from
		// the argument types (observed: COALESCE(d, -1.50) is typed DECIMAL(3,2) after its last
		// argument and fails on a stored 10.00; COALESCE(bn, <varbinary value>) is typed
		// LONGTEXT), so with decimal / binary / temporal arguments a parameter and a literal of
		// the same value legitimately differ through their types - the subject of C34 / C09
		c := tCols[b.pick2([]int{0, 1, 5}, "icol")]
		b.w("COALESCE(t." + c.name + ", ")
		b.col(c, true, "select-fn-arg")
		b.w(")")
	case 3:
		b.w("t.i + ")
		b.p(cInt, true, "select-arith")
	case 4:
		b.w("CONCAT(t.s, ")
		b.p(cStr, true, "select-fn-arg")
		b.w(")")
	case 5:
		c := tCols[b.intn(0, len(tCols)-1, "pcol")]
		b.col(c, true, "select-bare")
	case 6:
		b.w("IF(t.i > ")
		b.p(cInt, true, "select-fn-arg")
		b.w(", ")
		b.p(cStr, true, "select-fn-arg")
		b.w(", ")
		b.p(cStr, true, "select-fn-arg")
		b.w(")")
	case 7:
		b.w("t.d * ")
		b.p(cInt, true, "select-arith")
	case 8:
		b.w("t.d + ")
		b.p(cDec, true, "select-arith")
	case 9:
		b.w("t.f * ")
		b.p(cDbl, true, "select-arith")
	case 10:
		b.w(b.pick([]string{"HEX", "LENGTH"}, "binfn") + "(")
		b.p(cBin, true, "bin-fn-arg")
		b.w(")")
	default:
		b.w(b.pick([]string{"UPPER", "LENGTH", "CHAR_LENGTH", "REVERSE"}, "strfn") + "(")
		b.p(cStr, true, "select-fn-arg")
		b.w(")")
	}
	b.w(fmt.Sprintf(" AS o%d", k))
}

func (b *builder) limit() {
	b.w(" LIMIT ")
	b.p(cLim, false, "limit")
	if b.intn(0, 1, "offset") == 0 {
		b.w(" OFFSET ")
		b.p(cLim, false, "offset")
	}
	b.labels["limit"] = true
}

func (b *builder) finish(kind string, ordered bool) *stmt {
	b.parts = append(b.parts, b.cur.String())
	return &stmt{kind: kind, parts: b.parts, pos: b.pos, ordered: ordered, labels: b.labels}
}

func genStmt(rt *rapid.T) *stmt {
	b := &builder{rt: rt, labels: map[string]bool{}}
	switch kind := rapid.SampledFrom([]string{"select", "select", "select", "agg", "insert", "insert", "update", "update", "delete"}).Draw(rt, "kind"); kind {
	case "select":
		b.w("SELECT t.id")
		n := b.intn(0, 3, "nitems")
		for k := 0; k < n; k++ {
			b.w(", ")
			b.item(k)
		}
		join := b.intn(0, 3, "join") == 0
		if join {
			b.labels["join"] = true
			b.w(", t2.id AS j FROM t INNER JOIN t2 ON t.i = t2.i")
		} else {
			b.w(" FROM t")
		}
		if b.intn(0, 5, "nowhere") != 0 {
			b.w(" WHERE ")
			b.pred()
		}
		ordered := false
		if !join && b.intn(0, 1, "order") == 0 {
			ordered = true
			b.w(" ORDER BY t.id")
			if b.intn(0, 3, "desc") == 0 {
				b.w(" DESC")
			}
			if b.intn(0, 1, "limit") == 0 {
				b.limit()
			}
		}
		return b.finish("select", ordered)
	case "agg":
		b.labels["aggregate"] = true
		b.w("SELECT COUNT(*) AS n, SUM(t.i + ")
		b.p(cInt, true, "select-arith")
		b.w(") AS sm, MAX(CONCAT(t.s, ")
		b.p(cStr, true, "select-fn-arg")
		b.w(")) AS mx FROM t")
		if b.intn(0, 3, "nowhere") != 0 {
			b.w(" WHERE ")
			b.pred()
		}
		if b.intn(0, 1, "group") == 0 {
			b.w(" GROUP BY t.i HAVING COUNT(*) > ")
			b.p(cInt, true, "having")
		}
		return b.finish("select", false)
	case "insert":
		mode := b.pick([]string{"INSERT", "INSERT", "INSERT IGNORE", "REPLACE", "ODKU"}, "mode")
		b.labels["insert:"+mode] = true
		if mode == "ODKU" {
			b.w("INSERT")
		} else {
			b.w(mode)
		}
		var cols []column
		for _, c := range tCols {
			if b.intn(0, 1, "usecol") == 0 {
				cols = append(cols, c)
			}
		}
		names := []string{"id"}
		for _, c := range cols {
			names = append(names, c.name)
		}
		b.w(" INTO t (" + strings.Join(names, ", ") + ") VALUES ")
		nr := b.intn(1, 2, "nrows")
		for r := 0; r < nr; r++ {
			if r > 0 {
				b.w(", ")
			}
			b.w("(")
			b.pb(cID, false, false, "insert-values")
			for _, c := range cols {
				b.w(", ")
				b.col(c, true, "insert-values")
			}
			b.w(")")
		}
		if mode == "ODKU" {
			b.w(" ON DUPLICATE KEY UPDATE ")
			switch b.intn(0, 2, "odku") {
			case 0:
				b.w("i = ")
				b.p(cInt, true, "odku")
			case 1:
				b.w("s = ")
				b.p(cStr, true, "odku")
			default:
				b.w("i = COALESCE(t.i, 0) + ")
				b.p(cInt, false, "odku")
			}
		}
		return b.finish("insert", false)
	case "update":
		b.w("UPDATE t SET ")
		n := b.intn(1, 2, "nset")
		used := map[string]bool{}
		for k := 0; k < n; k++ {
			if k > 0 {
				b.w(", ")
			}
			switch b.intn(0, 5, "set") {
			case 0:
				if !used["i"] {
					used["i"] = true
					b.w("i = t.i + ")
					b.p(cInt, true, "update-set")
					continue
				}
				fallthrough
			case 1:
				if !used["s"] {
					used["s"] = true
					b.w("s = CONCAT(COALESCE(t.s, ''), ")
					b.p(cStr, true, "update-set")
					b.w(")")
					continue
				}
				fallthrough
			default:
				var c column
				for try := 0; ; try++ {
					c = tCols[b.intn(0, len(tCols)-1, "setcol")]
					if !used[c.name] {
						break
					}
				}
				used[c.name] = true
				b.w(c.name + " = ")
				b.col(c, true, "update-set")
			}
		}
		b.where()
		return b.finish("update", false)
	default:
		b.w("DELETE FROM t")
		b.where()
		return b.finish("delete", false)
	}
}

// where writes the WHERE / ORDER BY / LIMIT tail of an UPDATE or DELETE.
func (b *builder) where() {
	switch b.intn(0, 5, "wherekind") {
	case 0:
		b.w(" WHERE id = ")
		b.pb(cID, false, false, "where-cmp")
	case 1:
		b.w(" WHERE id IN (")
		b.pb(cID, false, false, "in-list")
		b.w(", ")
		b.pb(cID, false, false, "in-list")
		b.w(")")
	default:
		b.w(" WHERE ")
		b.pred()
	}
	if b.intn(0, 3, "dmllimit") == 0 {
		b.w(" ORDER BY id LIMIT ")
		b.p(cLim, false, "limit")
		b.labels["limit"] = true
	}
}

func (s *stmt) sortedLabels() []string {
	out := make([]string, 0, len(s.labels))
	for l := range s.labels {
		out = append(out, l)
	}
	sort.Strings(out)
	return out
}

// text assembles the statement; render gives the text of position j.
func (s *stmt) text(render func(j int) string) string {
	var sb strings.Builder
	for j := range s.pos {
		sb.WriteString(s.parts[j])
		sb.WriteString(render(j))
	}
	sb.WriteString(s.parts[len(s.pos)])
	return sb.String()
}
