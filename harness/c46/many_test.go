package c46

import (
	"fmt"
	"testing"

	"pgregory.net/rapid"

	"github.com/dolthub/go-mysql-server/sql"
	"github.com/dolthub/go-mysql-server/vh/internal/kf"
	"github.com/dolthub/go-mysql-server/vh/internal/stats"
)

// TestC46Many — RemoveOverlappingRanges on larger collections (up to 14 ranges, 2-3 columns):
// many stored ranges whose column-0 expressions nest exercise the interval tree's rotations and
// removals the way long OR-chains / IN lists over composite indexes do.
func TestC46Many(t *testing.T) {
	st := stats.New("C46", "many")
	defer st.Flush()
	st.Set("exhaustive", true)
	rapid.Check(t, func(rt *rapid.T) {
		st.Eval()
		k := rapid.IntRange(2, 3).Draw(rt, "k")
		gs := rapid.SliceOfN(rangeGen(k, false), 5, 14).Draw(rt, "ranges")
		in := make([]sql.MySQLRange, len(gs))
		for i := range gs {
			in[i] = gs[i].r
		}
		desc := fmt.Sprintf("k=%d ranges %s", k, showRanges(in))
		out, err := sql.RemoveOverlappingRanges(ctx, in...)
		if treeFindingSignature(k, err) && kf.Suppress(st, findingTree) {
			st.Class("known-tree-finding")
			return
		}
		if err != nil {
			rt.Fatalf("%s: RemoveOverlappingRanges failed: %v", desc, err)
		}
		if msg, ok := sameSet(k, unionOf(out), unionOf(in)); !ok {
			rt.Fatalf("%s: RemoveOverlappingRanges = %s does not denote the union of the inputs: %s", desc, showRanges(out), msg)
		}
		if msg, ok := disjoint(k, out); !ok {
			rt.Fatalf("%s: RemoveOverlappingRanges = %s overlaps: %s", desc, showRanges(out), msg)
		}
		if msg, ok := sorted(out); !ok {
			rt.Fatalf("%s: RemoveOverlappingRanges = %s is not sorted: %s", desc, showRanges(out), msg)
		}
		st.Class(fmt.Sprintf("ranges:%d", len(in)))
		st.Class(fmt.Sprintf("out-ranges:%d", min(len(out), 20)))
		st.NonTrivial(nil, desc)
	})
}
