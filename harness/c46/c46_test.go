// Package c46 checks property C46: the index range operations (building, intersecting,
// merging, removing overlaps over 1-3 key columns) produce sorted, non-overlapping ranges whose
// union contains exactly the key tuples the inputs contain, NULL being its own lowest point.
//
// Technique: generated range collections over a small key domain; every result is decided by
// an independent point-membership oracle that is evaluated exhaustively over a probe grid
// (NULL and every integer and half-integer around the bounds) in every column.
package c46

import (
	"context"
	"fmt"
	"strings"
	"testing"

	"pgregory.net/rapid"

	"github.com/dolthub/go-mysql-server/sql"
	"github.com/dolthub/go-mysql-server/sql/types"
	"github.com/dolthub/go-mysql-server/vh/internal/fx"
	"github.com/dolthub/go-mysql-server/vh/internal/kf"
	"github.com/dolthub/go-mysql-server/vh/internal/stats"
)

// Proposed finding C46-tree-max-upperbound: the interval tree keeps, per node, the maximum
// upper bound of its subtree, but its rotations and its removal maintain that value as if upper
// bounds were ordered like lower bounds (they take it from the right child only). That holds
// for one-column ranges; with two or more columns the first-column expressions of key-disjoint
// ranges nest freely ({[0,2] [1,1]} and {[1,1] [0,0]}), FindConnections then prunes a subtree
// that holds a connected range, RemoveOverlappingRanges inserts a range that overlaps a stored
// one and finally rejects its own result with the error "overlapping ranges".
const findingTree = "C46-tree-max-upperbound"

// treeFindingSignature: a multi-column collection is rejected by RemoveOverlappingRanges' own
// validation. Every other deviation (wrong set, overlap in a returned collection, unsorted
// output, any error for one column) does not match.
func treeFindingSignature(k int, err error) bool {
	return k >= 2 && err != nil && strings.HasPrefix(err.Error(), "overlapping ranges")
}

// nests: the two column expressions are ordered one way by their lower and the other way by
// their upper bounds.
func nests(a, b sql.MySQLRangeColumnExpr) bool {
	dl := cutPos(a.LowerBound) - cutPos(b.LowerBound)
	du := cutPos(a.UpperBound) - cutPos(b.UpperBound)
	return (dl < 0 && du > 0) || (dl > 0 && du < 0)
}

// ---------------------------------------------------------------------------------------
// Independent point semantics.
//
// Positions are integers: key k sits at 4k, "immediately below k" at 4k-1, "immediately above
// k" at 4k+1, NULL at nullPos with its two neighbours, "above everything" at topPos. A column
// expression (L, U) contains the point p iff pos(L) < p < pos(U). Probe points are NULL and
// all multiples of 2 (integers and half-integers) from lowKey-0.5 to highKey+0.5: because all
// bounds are integers in lowKey..highKey, two sets of points that agree on the probes agree
// everywhere.

const (
	lowKey  = 0
	highKey = 4
	nullPos = -4000
	topPos  = 4000
)

var typ = types.Int8

func keyOf(v any) int {
	switch k := v.(type) {
	case int8:
		return int(k)
	case int:
		return k
	case int64:
		return int(k)
	case int16:
		return int(k)
	case int32:
		return int(k)
	}
	panic(fmt.Sprintf("unexpected key %T %v", v, v))
}

func cutPos(c sql.MySQLRangeCut) int {
	switch c := c.(type) {
	case sql.Below:
		return 4*keyOf(c.Key) - 1
	case sql.Above:
		return 4*keyOf(c.Key) + 1
	case sql.BelowNull:
		return nullPos - 1
	case sql.AboveNull:
		return nullPos + 1
	case sql.AboveAll:
		return topPos
	}
	panic(fmt.Sprintf("unexpected cut %T", c))
}

var probes = func() []int {
	p := []int{nullPos}
	for x := 4*lowKey - 2; x <= 4*highKey+2; x += 2 {
		p = append(p, x)
	}
	return p
}()

func colContains(e sql.MySQLRangeColumnExpr, p int) bool {
	return cutPos(e.LowerBound) < p && p < cutPos(e.UpperBound)
}

func rangeContains(r sql.MySQLRange, pt []int) bool {
	for i := range r {
		if !colContains(r[i], pt[i]) {
			return false
		}
	}
	return true
}

// forEachPoint enumerates the whole probe grid for k columns.
func forEachPoint(k int, f func(pt []int)) {
	pt := make([]int, k)
	var rec func(i int)
	rec = func(i int) {
		if i == k {
			f(pt)
			return
		}
		for _, p := range probes {
			pt[i] = p
			rec(i + 1)
		}
	}
	rec(0)
}

func showPoint(pt []int) string {
	s := make([]string, len(pt))
	for i, p := range pt {
		switch {
		case p == nullPos:
			s[i] = "NULL"
		case p%4 == 0:
			s[i] = fmt.Sprint(p / 4)
		default:
			s[i] = fmt.Sprintf("%.1f", float64(p)/4)
		}
	}
	return "(" + strings.Join(s, ",") + ")"
}

func showCol(e sql.MySQLRangeColumnExpr) string {
	var sb strings.Builder
	switch c := e.LowerBound.(type) {
	case sql.Below:
		fmt.Fprintf(&sb, "[%d", keyOf(c.Key))
	case sql.Above:
		fmt.Fprintf(&sb, "(%d", keyOf(c.Key))
	case sql.BelowNull:
		sb.WriteString("[NULL")
	case sql.AboveNull:
		sb.WriteString("(NULL")
	case sql.AboveAll:
		sb.WriteString("(inf")
	}
	sb.WriteString(",")
	switch c := e.UpperBound.(type) {
	case sql.Below:
		fmt.Fprintf(&sb, "%d)", keyOf(c.Key))
	case sql.Above:
		fmt.Fprintf(&sb, "%d]", keyOf(c.Key))
	case sql.BelowNull:
		sb.WriteString("NULL)")
	case sql.AboveNull:
		sb.WriteString("NULL]")
	case sql.AboveAll:
		sb.WriteString("inf)")
	}
	return sb.String()
}

func showRange(r sql.MySQLRange) string {
	s := make([]string, len(r))
	for i := range r {
		s[i] = showCol(r[i])
	}
	return "{" + strings.Join(s, " ") + "}"
}

func showRanges(rs []sql.MySQLRange) string {
	s := make([]string, len(rs))
	for i := range rs {
		s[i] = showRange(rs[i])
	}
	return "[" + strings.Join(s, ", ") + "]"
}

func showCols(es []sql.MySQLRangeColumnExpr) string {
	s := make([]string, len(es))
	for i := range es {
		s[i] = showCol(es[i])
	}
	return "[" + strings.Join(s, ", ") + "]"
}

func colEmpty(e sql.MySQLRangeColumnExpr) bool {
	for _, p := range probes {
		if colContains(e, p) {
			return false
		}
	}
	return true
}

func rangeEmpty(r sql.MySQLRange) bool {
	for i := range r {
		if colEmpty(r[i]) {
			return true
		}
	}
	return len(r) == 0
}

// ---------------------------------------------------------------------------------------
// Generator: column expressions from the constructors, with their specification.

type colSpec struct {
	kind string
	a, b int
	expr sql.MySQLRangeColumnExpr
}

// want is the specification of the constructor, written without looking at cuts.
func (s colSpec) want(p int) bool {
	isNull := p == nullPos
	a, b := 4*s.a, 4*s.b
	switch s.kind {
	case "closed":
		return !isNull && a <= p && p <= b
	case "open":
		return !isNull && a < p && p < b
	case "closed-open":
		return !isNull && a <= p && p < b
	case "open-closed":
		return !isNull && a < p && p <= b
	case "lt":
		return !isNull && p < a
	case "le":
		return !isNull && p <= a
	case "gt":
		return !isNull && p > a
	case "ge":
		return !isNull && p >= a
	case "all":
		return true
	case "notnull":
		return !isNull
	case "null":
		return isNull
	case "empty":
		return false
	case "lt-or-null":
		return isNull || p < a
	case "le-or-null":
		return isNull || p <= a
	}
	panic(s.kind)
}

var kinds = []string{
	"closed", "closed", "closed", "point", "point", "point", "open", "closed-open", "open-closed",
	"lt", "le", "gt", "ge", "all", "notnull", "null", "lt-or-null", "le-or-null", "empty",
}

func k8(v int) any { return int8(v) }

var colGen = rapid.Custom(func(rt *rapid.T) colSpec {
	kind := rapid.SampledFrom(kinds).Draw(rt, "kind")
	a := rapid.IntRange(lowKey, highKey).Draw(rt, "a")
	b := rapid.IntRange(lowKey, highKey).Draw(rt, "b")
	if a > b {
		a, b = b, a
	}
	s := colSpec{kind: kind, a: a, b: b}
	switch kind {
	case "point":
		s.kind, s.b = "closed", a
		s.expr = sql.ClosedRangeColumnExpr(k8(a), k8(a), typ)
	case "closed":
		// callers build two-sided ranges with lower <= upper (an inverted pair comes out of
		// TryIntersect as "no intersection" and is dropped in MySQLIndexBuilder.updateCol)
		s.expr = sql.ClosedRangeColumnExpr(k8(a), k8(b), typ)
	case "open", "closed-open", "open-closed":
		if a == b {
			if b < highKey {
				b++
			} else {
				a--
			}
			s.a, s.b = a, b
		}
		switch kind {
		case "open":
			s.expr = sql.OpenRangeColumnExpr(k8(a), k8(b), typ)
		case "closed-open": // produced by Subtract / TryIntersect
			s.expr = sql.MySQLRangeColumnExpr{LowerBound: sql.Below{Key: k8(a), Typ: typ}, UpperBound: sql.Below{Key: k8(b), Typ: typ}, Typ: typ}
		case "open-closed":
			s.expr = sql.MySQLRangeColumnExpr{LowerBound: sql.Above{Key: k8(a), Typ: typ}, UpperBound: sql.Above{Key: k8(b), Typ: typ}, Typ: typ}
		}
	case "lt":
		s.expr = sql.LessThanRangeColumnExpr(k8(a), typ)
	case "le":
		s.expr = sql.LessOrEqualRangeColumnExpr(k8(a), typ)
	case "gt":
		s.expr = sql.GreaterThanRangeColumnExpr(k8(a), typ)
	case "ge":
		s.expr = sql.GreaterOrEqualRangeColumnExpr(k8(a), typ)
	case "all":
		s.expr = sql.AllRangeColumnExpr(typ)
	case "notnull":
		s.expr = sql.NotNullRangeColumnExpr(typ)
	case "null":
		s.expr = sql.NullRangeColumnExpr(typ)
	case "empty":
		s.expr = sql.EmptyRangeColumnExpr(typ)
	case "lt-or-null": // produced by TryUnion of the NULL range and a less-than range
		s.expr = sql.MySQLRangeColumnExpr{LowerBound: sql.BelowNull{}, UpperBound: sql.Below{Key: k8(a), Typ: typ}, Typ: typ}
	case "le-or-null":
		s.expr = sql.MySQLRangeColumnExpr{LowerBound: sql.BelowNull{}, UpperBound: sql.Above{Key: k8(a), Typ: typ}, Typ: typ}
	}
	return s
})

type genRange struct {
	specs []colSpec
	r     sql.MySQLRange
}

func rangeGen(k int, allowEmpty bool) *rapid.Generator[genRange] {
	return rapid.Custom(func(rt *rapid.T) genRange {
		var g genRange
		for i := 0; i < k; i++ {
			s := colGen.Draw(rt, "col")
			if s.kind == "empty" && !allowEmpty {
				s = colSpec{kind: "all", expr: sql.AllRangeColumnExpr(typ)}
			}
			g.specs = append(g.specs, s)
			g.r = append(g.r, s.expr)
		}
		return g
	})
}

func (g genRange) want(pt []int) bool {
	for i, s := range g.specs {
		if !s.want(pt[i]) {
			return false
		}
	}
	return true
}

// ---------------------------------------------------------------------------------------
// oracles

type pointSet func(pt []int) bool

func unionOf(rs []sql.MySQLRange) pointSet {
	return func(pt []int) bool {
		for _, r := range rs {
			if rangeContains(r, pt) {
				return true
			}
		}
		return false
	}
}

// sameSet compares two point sets over the whole grid; returns a witness point on difference.
func sameSet(k int, got, want pointSet) (string, bool) {
	var msg string
	ok := true
	forEachPoint(k, func(pt []int) {
		if !ok {
			return
		}
		if g, w := got(pt), want(pt); g != w {
			ok = false
			msg = fmt.Sprintf("point %s: in result %v, expected %v", showPoint(pt), g, w)
		}
	})
	return msg, ok
}

// disjoint: every point lies in at most one range.
func disjoint(k int, rs []sql.MySQLRange) (string, bool) {
	var msg string
	ok := true
	forEachPoint(k, func(pt []int) {
		if !ok {
			return
		}
		n := 0
		for _, r := range rs {
			if rangeContains(r, pt) {
				n++
			}
		}
		if n > 1 {
			ok = false
			msg = fmt.Sprintf("point %s lies in %d of the result ranges", showPoint(pt), n)
		}
	})
	return msg, ok
}

// cmpRanges: lexicographic by (lower position, upper position) per column — the order
// MySQLRange.Compare documents, computed from the independent positions.
func cmpRanges(a, b sql.MySQLRange) int {
	for i := range a {
		for _, d := range []int{cutPos(a[i].LowerBound) - cutPos(b[i].LowerBound), cutPos(a[i].UpperBound) - cutPos(b[i].UpperBound)} {
			if d < 0 {
				return -1
			}
			if d > 0 {
				return 1
			}
		}
	}
	return 0
}

func sorted(rs []sql.MySQLRange) (string, bool) {
	for i := 1; i < len(rs); i++ {
		if cmpRanges(rs[i-1], rs[i]) > 0 {
			return fmt.Sprintf("result ranges %d and %d are out of order: %s, %s", i-1, i, showRange(rs[i-1]), showRange(rs[i])), false
		}
	}
	return "", true
}

var ctx = context.Background()

// wellFormed: every result range has k columns with both bounds set.
func wellFormed(rs []sql.MySQLRange, k int) (string, bool) {
	for _, r := range rs {
		if len(r) != k {
			return fmt.Sprintf("result range %s has %d columns, expected %d", showRange(r), len(r), k), false
		}
		for _, e := range r {
			if e.LowerBound == nil || e.UpperBound == nil {
				return "result range with a nil bound", false
			}
		}
	}
	return "", true
}

func TestC46(t *testing.T) {
	st := stats.New("C46", "")
	defer st.Flush()
	st.Set("exhaustive", true) // the point grid of every case is enumerated completely
	st.Set("probe_points_per_column", len(probes))
	rapid.Check(t, func(rt *rapid.T) {
		st.Eval()
		k := rapid.IntRange(1, 3).Draw(rt, "k")
		maxN := 6
		if k == 1 {
			maxN = 8
		}
		gs := rapid.SliceOfN(rangeGen(k, true), 1, maxN).Draw(rt, "ranges")
		in := make([]sql.MySQLRange, len(gs))
		for i := range gs {
			in[i] = gs[i].r
		}
		desc := fmt.Sprintf("k=%d ranges %s", k, showRanges(in))

		// (0) building: every constructor denotes the set its name says
		for _, g := range gs {
			if msg, ok := sameSet(k, func(pt []int) bool { return rangeContains(g.r, pt) }, g.want); !ok {
				rt.Fatalf("%s: constructed range %s (kinds %v) does not denote its specification: %s", desc, showRange(g.r), g.specs, msg)
			}
		}
		want := unionOf(in)

		// (1) RemoveOverlappingRanges
		out, err := sql.RemoveOverlappingRanges(ctx, in...)
		if treeFindingSignature(k, err) && kf.Suppress(st, findingTree) {
			return
		}
		if err != nil {
			rt.Fatalf("%s: RemoveOverlappingRanges failed: %v", desc, err)
		}
		if msg, ok := wellFormed(out, k); !ok {
			rt.Fatalf("%s: RemoveOverlappingRanges = %s: %s", desc, showRanges(out), msg)
		}
		if msg, ok := sameSet(k, unionOf(out), want); !ok {
			rt.Fatalf("%s: RemoveOverlappingRanges = %s does not denote the union of the inputs: %s", desc, showRanges(out), msg)
		}
		if msg, ok := disjoint(k, out); !ok {
			rt.Fatalf("%s: RemoveOverlappingRanges = %s overlaps: %s", desc, showRanges(out), msg)
		}
		if msg, ok := sorted(out); !ok {
			rt.Fatalf("%s: RemoveOverlappingRanges = %s is not sorted: %s", desc, showRanges(out), msg)
		}
		// idempotence on the set level: a second pass keeps the set
		out2, err := sql.RemoveOverlappingRanges(ctx, out...)
		if err != nil {
			rt.Fatalf("%s: RemoveOverlappingRanges on its own output %s failed: %v", desc, showRanges(out), err)
		}
		if msg, ok := sameSet(k, unionOf(out2), want); !ok {
			rt.Fatalf("%s: second RemoveOverlappingRanges pass %s changed the set: %s", desc, showRanges(out2), msg)
		}

		// (2) SortRanges: a sorted permutation
		srt, err := sql.SortRanges(ctx, in...)
		if err != nil || len(srt) != len(in) {
			rt.Fatalf("%s: SortRanges = %s, err %v", desc, showRanges(srt), err)
		}
		if msg, ok := sorted(srt); !ok {
			rt.Fatalf("%s: SortRanges = %s: %s", desc, showRanges(srt), msg)
		}
		cnt := map[string]int{}
		for _, r := range in {
			cnt[showRange(r)]++
		}
		for _, r := range srt {
			cnt[showRange(r)]--
		}
		for s, c := range cnt {
			if c != 0 {
				rt.Fatalf("%s: SortRanges = %s is not a permutation of its input (%s)", desc, showRanges(srt), s)
			}
		}

		// (3) pairwise range operations
		overlapping, adjacent, nullBound := false, false, false
		for _, ij := range [][2]int{{0, 1}, {1, 0}, {2, 3}, {0, 2}, {3, 1}} {
			{
				i, j := ij[0], ij[1]
				if i >= len(in) || j >= len(in) {
					continue
				}
				a, b := in[i], in[j]
				pa := func(pt []int) bool { return rangeContains(a, pt) }
				pb := func(pt []int) bool { return rangeContains(b, pt) }
				inter := func(pt []int) bool { return pa(pt) && pb(pt) }
				union := func(pt []int) bool { return pa(pt) || pb(pt) }
				_, interIsEmpty := sameSet(k, inter, func([]int) bool { return false })
				if !interIsEmpty {
					overlapping = true
				}
				pair := fmt.Sprintf("a=%s b=%s", showRange(a), showRange(b))

				x, err := a.Intersect(ctx, b)
				if err != nil {
					rt.Fatalf("%s: Intersect failed: %v", pair, err)
				}
				if msg, ok := sameSet(k, func(pt []int) bool { return rangeContains(x, pt) }, inter); !ok {
					rt.Fatalf("%s: Intersect = %s: %s", pair, showRange(x), msg)
				}
				m, ok, err := a.TryMerge(ctx, b)
				if err != nil {
					rt.Fatalf("%s: TryMerge failed: %v", pair, err)
				}
				if ok {
					if msg, same := sameSet(k, func(pt []int) bool { return rangeContains(m, pt) }, union); !same {
						rt.Fatalf("%s: TryMerge = %s is not the union: %s", pair, showRange(m), msg)
					}
					st.Class("pair:mergeable")
				}
				ro, rok, err := a.RemoveOverlap(ctx, b)
				if err != nil {
					rt.Fatalf("%s: RemoveOverlap failed: %v", pair, err)
				}
				if msg, same := sameSet(k, unionOf(ro), union); !same {
					rt.Fatalf("%s: RemoveOverlap = %s (ok=%v) is not the union: %s", pair, showRanges(ro), rok, msg)
				}
				if rok {
					if msg, dj := disjoint(k, ro); !dj {
						rt.Fatalf("%s: RemoveOverlap = %s still overlaps: %s", pair, showRanges(ro), msg)
					}
				}
				// predicates, on ranges that denote at least one key (callers never ask them about
				// ranges without keys)
				if !rangeEmpty(a) && !rangeEmpty(b) {
					ov, err := a.Overlaps(ctx, b)
					if err != nil || ov == interIsEmpty {
						rt.Fatalf("%s: Overlaps = %v (err %v), the ranges share a key: %v", pair, ov, err, !interIsEmpty)
					}
					sub, err := a.IsSubsetOf(ctx, b)
					_, isSub := sameSet(k, func(pt []int) bool { return pa(pt) && !pb(pt) }, func([]int) bool { return false })
					if err != nil || sub != isSub {
						rt.Fatalf("%s: IsSubsetOf = %v (err %v), pointwise %v", pair, sub, err, isSub)
					}
					if isSub {
						st.Class("pair:subset")
					}
				}
				for c := 0; c < k; c++ {
					la, ua, lb, ub := cutPos(a[c].LowerBound), cutPos(a[c].UpperBound), cutPos(b[c].LowerBound), cutPos(b[c].UpperBound)
					if !colEmpty(a[c]) && !colEmpty(b[c]) && (ua == lb || ub == la || ua+2 == lb || ub+2 == la) {
						adjacent = true
					}
				}
			}
		}
		for _, r := range in {
			for _, e := range r {
				switch e.LowerBound.(type) {
				case sql.BelowNull, sql.AboveNull:
					nullBound = true
				}
			}
		}

		// (4) MySQLRangeCollection.Intersect of two halves
		if len(in) >= 2 {
			h := len(in) / 2
			A, B := sql.MySQLRangeCollection(in[:h]), sql.MySQLRangeCollection(in[h:])
			x, err := A.Intersect(ctx, B)
			if treeFindingSignature(k, err) && kf.Suppress(st, findingTree) {
				return
			}
			if err != nil {
				rt.Fatalf("%s: collection Intersect of %s and %s failed: %v", desc, showRanges(A), showRanges(B), err)
			}
			ua, ub := unionOf(A), unionOf(B)
			if msg, ok := sameSet(k, unionOf(x), func(pt []int) bool { return ua(pt) && ub(pt) }); !ok {
				rt.Fatalf("collection Intersect of %s and %s = %s: %s", showRanges(A), showRanges(B), showRanges(x), msg)
			}
			if msg, ok := disjoint(k, x); !ok {
				rt.Fatalf("collection Intersect of %s and %s = %s overlaps: %s", showRanges(A), showRanges(B), showRanges(x), msg)
			}
			if msg, ok := sorted(x); !ok {
				rt.Fatalf("collection Intersect of %s and %s = %s: %s", showRanges(A), showRanges(B), showRanges(x), msg)
			}
		}

		st.Class(fmt.Sprintf("columns:%d", k))
		st.Class(fmt.Sprintf("ranges:%d", len(in)))
		st.Class(fmt.Sprintf("out-ranges:%d", min(len(out), 9)))
		if overlapping {
			st.Class("has-overlap")
		}
		if adjacent {
			st.Class("has-adjacent")
		}
		if nullBound {
			st.Class("has-null-bound")
		}
		if (len(in) >= 2 && (overlapping || adjacent)) || nullBound {
			st.NonTrivial(map[string]any{"in": showRanges(in), "out": showRanges(out)}, desc)
		}
	})
}

// TestC46Column — the one-column operations: TryIntersect, TryUnion, Subtract, Overlaps,
// IsSubsetOf, IsConnected, SimplifyRangeColumn.
func TestC46Column(t *testing.T) {
	st := stats.New("C46", "column")
	defer st.Flush()
	st.Set("exhaustive", true)
	one := func(e sql.MySQLRangeColumnExpr) pointSet {
		return func(pt []int) bool { return colContains(e, pt[0]) }
	}
	many := func(es []sql.MySQLRangeColumnExpr) pointSet {
		return func(pt []int) bool {
			for _, e := range es {
				if colContains(e, pt[0]) {
					return true
				}
			}
			return false
		}
	}
	asRanges := func(es []sql.MySQLRangeColumnExpr) []sql.MySQLRange {
		rs := make([]sql.MySQLRange, len(es))
		for i := range es {
			rs[i] = sql.MySQLRange{es[i]}
		}
		return rs
	}
	none := func([]int) bool { return false }
	rapid.Check(t, func(rt *rapid.T) {
		st.Eval()
		specs := rapid.SliceOfN(colGen, 2, 7).Draw(rt, "cols")
		es := make([]sql.MySQLRangeColumnExpr, len(specs))
		for i := range specs {
			es[i] = specs[i].expr
		}
		a, b := es[0], es[1]
		pa, pb := one(a), one(b)
		pair := fmt.Sprintf("a=%s b=%s", showCol(a), showCol(b))
		inter := func(pt []int) bool { return pa(pt) && pb(pt) }
		_, interEmpty := sameSet(1, inter, none)

		x, ok, err := a.TryIntersect(ctx, b)
		if err != nil {
			rt.Fatalf("%s: TryIntersect failed: %v", pair, err)
		}
		if msg, same := sameSet(1, one(x), inter); !same {
			rt.Fatalf("%s: TryIntersect = %s, %v: %s", pair, showCol(x), ok, msg)
		}
		if ok == interEmpty {
			rt.Fatalf("%s: TryIntersect reports non-empty=%v, the intersection is empty: %v", pair, ok, interEmpty)
		}

		u, ok, err := a.TryUnion(ctx, b)
		if err != nil {
			rt.Fatalf("%s: TryUnion failed: %v", pair, err)
		}
		if ok {
			if msg, same := sameSet(1, one(u), func(pt []int) bool { return pa(pt) || pb(pt) }); !same {
				rt.Fatalf("%s: TryUnion = %s is not the union: %s", pair, showCol(u), msg)
			}
			st.Class("union:ok")
		} else {
			st.Class("union:refused")
		}

		if !colEmpty(a) && !colEmpty(b) {
			sub, err := a.Subtract(ctx, b)
			if err != nil {
				rt.Fatalf("%s: Subtract failed: %v", pair, err)
			}
			if msg, same := sameSet(1, many(sub), func(pt []int) bool { return pa(pt) && !pb(pt) }); !same {
				rt.Fatalf("%s: Subtract = %s is not a minus b: %s", pair, showCols(sub), msg)
			}
			if msg, dj := disjoint(1, asRanges(sub)); !dj {
				rt.Fatalf("%s: Subtract = %s: %s", pair, showCols(sub), msg)
			}
			ovx, ov, err := a.Overlaps(ctx, b)
			if err != nil || ov == interEmpty {
				rt.Fatalf("%s: Overlaps = %v (err %v), the expressions share a key: %v", pair, ov, err, !interEmpty)
			}
			if ov {
				if msg, same := sameSet(1, one(ovx), inter); !same {
					rt.Fatalf("%s: Overlaps returned %s as the common part: %s", pair, showCol(ovx), msg)
				}
			}
			isSub, err := a.IsSubsetOf(ctx, b)
			_, want := sameSet(1, func(pt []int) bool { return pa(pt) && !pb(pt) }, none)
			if err != nil || isSub != want {
				rt.Fatalf("%s: IsSubsetOf = %v (err %v), pointwise %v", pair, isSub, err, want)
			}
			// connected <=> the union is one interval: no probe between the two parts is left out
			conn, err := a.IsConnected(ctx, b)
			lo := max(cutPos(a.LowerBound), cutPos(b.LowerBound))
			hi := min(cutPos(a.UpperBound), cutPos(b.UpperBound))
			if err != nil || conn != (lo <= hi) {
				rt.Fatalf("%s: IsConnected = %v (err %v), expected %v", pair, conn, err, lo <= hi)
			}
			if conn && interEmpty {
				st.Class("adjacent")
			}
		}

		simp, err := sql.SimplifyRangeColumn(ctx, es...)
		if err != nil {
			rt.Fatalf("SimplifyRangeColumn(%s) failed: %v", showCols(es), err)
		}
		if msg, same := sameSet(1, many(simp), many(es)); !same {
			rt.Fatalf("SimplifyRangeColumn(%s) = %s does not denote the union: %s", showCols(es), showCols(simp), msg)
		}
		if msg, dj := disjoint(1, asRanges(simp)); !dj {
			rt.Fatalf("SimplifyRangeColumn(%s) = %s: %s", showCols(es), showCols(simp), msg)
		}
		if msg, ok := sorted(asRanges(simp)); !ok {
			rt.Fatalf("SimplifyRangeColumn(%s) = %s: %s", showCols(es), showCols(simp), msg)
		}
		for _, e := range simp {
			if colEmpty(e) {
				rt.Fatalf("SimplifyRangeColumn(%s) = %s contains an empty expression", showCols(es), showCols(simp))
			}
		}
		st.Class(fmt.Sprintf("simplified:%d->%d", len(es), len(simp)))
		if len(simp) < len(es) || !interEmpty {
			st.NonTrivial(map[string]any{"in": showCols(es), "simplified": showCols(simp)}, showCols(es))
		}
	})
}

// TestC46Tree — the interval tree under generated insert/remove sequences. The ranges held by
// the tree are, as in RemoveOverlappingRanges (its only caller), pairwise free of common keys;
// their column-0 expressions may overlap and nest freely.
func TestC46Tree(t *testing.T) {
	st := stats.New("C46", "tree")
	defer st.Flush()
	st.Set("exhaustive", true)
	rapid.Check(t, func(rt *rapid.T) {
		st.Eval()
		k := rapid.IntRange(1, 3).Draw(rt, "k")
		// biased towards point expressions: they never nest with each other, so that trees of
		// useful size are reached inside the part of the space that is not excluded
		gen := rapid.Custom(func(rt *rapid.T) genRange {
			g := rangeGen(k, false).Draw(rt, "any")
			for c := 0; c < k; c++ {
				if rapid.IntRange(0, 9).Draw(rt, "point") < 6 {
					a := rapid.IntRange(lowKey, highKey).Draw(rt, "a")
					g.specs[c] = colSpec{kind: "closed", a: a, b: a, expr: sql.ClosedRangeColumnExpr(k8(a), k8(a), typ)}
					g.r[c] = g.specs[c].expr
				}
			}
			return g
		}).Filter(func(g genRange) bool { return !rangeEmpty(g.r) })
		first := gen.Draw(rt, "first")
		types_ := make([]sql.Type, k)
		for i := range types_ {
			types_[i] = typ
		}
		tree, err := sql.NewMySQLRangeColumnExprTree(first.r, types_)
		if err != nil {
			rt.Fatalf("NewMySQLRangeColumnExprTree(%s): %v", showRange(first.r), err)
		}
		model := []sql.MySQLRange{first.r}
		hist := []string{"new " + showRange(first.r)}
		removed, nested := false, false
		shareKey := func(a, b sql.MySQLRange) bool {
			_, empty := sameSet(k, func(pt []int) bool { return rangeContains(a, pt) && rangeContains(b, pt) }, func([]int) bool { return false })
			return !empty
		}
		var insert func(rt *rapid.T)
		actions := map[string]func(*rapid.T){
			"insert": func(rt *rapid.T) {
				g := gen.Draw(rt, "r")
				for _, m := range model {
					if shareKey(m, g.r) {
						rt.Skip("shares a key with a stored range")
					}
				}
				// region of C46-tree-max-upperbound, excluded by construction: nested expressions in
				// one (inner) tree; TestC46TreeWitness re-confirms the finding
				for _, m := range model {
					for c := 0; c < k; c++ {
						if nests(m[c], g.r[c]) {
							st.Excluded(findingTree)
							rt.Skip("nests with a stored range")
						}
					}
				}
				hist = append(hist, "insert "+showRange(g.r))
				if err := tree.Insert(ctx, g.r); err != nil {
					rt.Fatalf("%v: Insert failed: %v", hist, err)
				}
				for _, m := range model {
					if cutPos(m[0].LowerBound) < cutPos(g.r[0].UpperBound) && cutPos(g.r[0].LowerBound) < cutPos(m[0].UpperBound) && cmpRanges(m[:1], g.r[:1]) != 0 {
						nested = true // overlapping, unequal first-column expressions
					}
				}
				model = append(model, g.r)
			},
			"remove": func(rt *rapid.T) {
				if len(model) <= 1 {
					rt.Skip("keep one")
				}
				i := rapid.IntRange(0, len(model)-1).Draw(rt, "i")
				hist = append(hist, "remove "+showRange(model[i]))
				if err := tree.Remove(ctx, model[i]); err != nil {
					rt.Fatalf("%v: Remove failed: %v", hist, err)
				}
				model = append(model[:i:i], model[i+1:]...)
				removed = true
			},
			"removeAbsent": func(rt *rapid.T) {
				g := gen.Draw(rt, "r")
				for _, m := range model {
					if cmpRanges(m, g.r) == 0 {
						rt.Skip("present")
					}
				}
				hist = append(hist, "remove-absent "+showRange(g.r))
				if err := tree.Remove(ctx, g.r); err != nil {
					rt.Fatalf("%v: Remove of an absent range failed: %v", hist, err)
				}
			},
			"": func(rt *rapid.T) {
				coll, err := tree.GetRangeCollection(ctx)
				if err != nil {
					rt.Fatalf("%v: GetRangeCollection failed: %v", hist, err)
				}
				if msg, ok := sameSet(k, unionOf(coll), unionOf(model)); !ok {
					rt.Fatalf("%v\nGetRangeCollection = %s, stored %s: %s", hist, showRanges(coll), showRanges(model), msg)
				}
				if msg, ok := sorted(coll); !ok {
					rt.Fatalf("%v\nGetRangeCollection = %s: %s", hist, showRanges(coll), msg)
				}
				// FindConnections: exactly the stored ranges that touch or overlap the probe range in
				// every column
				q := gen.Draw(rt, "query").r
				found, err := tree.FindConnections(ctx, q, 0)
				if err != nil {
					rt.Fatalf("%v: FindConnections(%s) failed: %v", hist, showRange(q), err)
				}
				wantSet := map[string]int{}
				for _, m := range model {
					conn := true
					for c := 0; c < k; c++ {
						if !(cutPos(q[c].LowerBound) <= cutPos(m[c].UpperBound) && cutPos(m[c].LowerBound) <= cutPos(q[c].UpperBound)) {
							conn = false
						}
					}
					if conn {
						wantSet[showRange(m)]++
					}
				}
				gotSet := map[string]int{}
				for _, f := range found {
					gotSet[showRange(f)]++
				}
				for s, n := range wantSet {
					if gotSet[s] < n {
						rt.Fatalf("%v\nFindConnections(%s) = %s misses the stored, connected range %s (stored %s)", hist, showRange(q), showRanges(found), s, showRanges(model))
					}
				}
				for s := range gotSet {
					if wantSet[s] == 0 {
						rt.Fatalf("%v\nFindConnections(%s) = %s contains %s, which is not a stored connected range (stored %s)", hist, showRange(q), showRanges(found), s, showRanges(model))
					}
				}
			},
		}
		insert = actions["insert"]
		actions["insert2"] = func(rt *rapid.T) { insert(rt) } // inserts three times as likely as removals
		actions["insert3"] = func(rt *rapid.T) { insert(rt) }
		rt.Repeat(actions)
		st.Class(fmt.Sprintf("columns:%d", k))
		st.Class(fmt.Sprintf("final-size:%d", min(len(model), 8)))
		if removed && (nested || len(model) >= 3) {
			st.NonTrivial(map[string]any{"history": hist}, hist)
		}
	})
}

// witness of C46-tree-max-upperbound: six closed two-column ranges, e.g. the index ranges of
//
//	WHERE (a=4 AND b=0) OR (a BETWEEN 0 AND 2 AND b=1) OR (a=3 AND b BETWEEN 0 AND 1)
//	   OR (a=1 AND b=0) OR (a=2 AND b=0) OR (a BETWEEN 2 AND 3 AND b=1)
//
// on KEY (a, b).
var treeWitness = [][4]int{{4, 4, 0, 0}, {0, 2, 1, 1}, {3, 3, 0, 1}, {1, 1, 0, 0}, {2, 2, 0, 0}, {2, 3, 1, 1}}

func TestC46TreeWitness(t *testing.T) {
	st := stats.New("C46", "tree-witness")
	defer st.Flush()
	st.Eval()
	var in []sql.MySQLRange
	for _, w := range treeWitness {
		in = append(in, sql.MySQLRange{
			sql.ClosedRangeColumnExpr(k8(w[0]), k8(w[1]), typ),
			sql.ClosedRangeColumnExpr(k8(w[2]), k8(w[3]), typ),
		})
	}
	st.NonTrivial(map[string]any{"in": showRanges(in)}, showRanges(in))
	out, err := sql.RemoveOverlappingRanges(ctx, in...)
	if treeFindingSignature(2, err) {
		st.Excluded(findingTree)
		if kf.Suppress(st, findingTree) {
			t.Logf("KNOWN %s: RemoveOverlappingRanges(%s): %v", findingTree, showRanges(in), err)
			return
		}
		t.Fatalf("RemoveOverlappingRanges(%s) failed: %v", showRanges(in), err)
	}
	if err != nil {
		t.Fatalf("RemoveOverlappingRanges(%s) failed: %v", showRanges(in), err)
	}
	if msg, ok := sameSet(2, unionOf(out), unionOf(in)); !ok {
		t.Fatalf("RemoveOverlappingRanges(%s) = %s: %s", showRanges(in), showRanges(out), msg)
	}
	if msg, ok := disjoint(2, out); !ok {
		t.Fatalf("RemoveOverlappingRanges(%s) = %s: %s", showRanges(in), showRanges(out), msg)
	}
	st.Class("witness-passes")
}

// TestReplayC46 runs the SQL-level witnesses in /verif/replays/C46.
func TestReplayC46(t *testing.T) {
	st := stats.New("C46", "replay")
	defer st.Flush()
	fx.ReplayDir(t, st)
}
