package c45

import (
	"fmt"
	"sort"
	"strings"
	"sync"

	"github.com/dolthub/vitess/go/vt/sqlparser"
	"pgregory.net/rapid"
)

// ---------------------------------------------------------------------------------------
// tokens with roles: the generator knows, independently of the vitess lexer/parser, what
// every lexeme it writes is.

type role int

const (
	rKw      role = iota // keyword / operator / punctuation: structural, expected verbatim (out field)
	rIdent               // user identifier: must become a placeholder
	rLit                 // literal value: must become a placeholder
	rBind                // bind placeholder: passes through (out field)
	rVocab               // built-in function / charset name: verbatim or placeholder, never a canary
	rComment             // comment: must vanish
)

type tok struct {
	text    string // source text
	role    role
	out     string // expected output text for rKw / rBind
	key     string // identity of the lexeme for rIdent / rLit (class + canonical value)
	canon   string // the value the Mapping is expected to be keyed by ("" = unknown)
	kwNamed bool   // unquoted identifier spelled like a vitess keyword
	pos     string // syntactic position class of an identifier
	glue    bool   // no whitespace/comment between this token and the previous one
	litKind string
}

// positions (or position prefixes, ending in '/') in which a keyword-named identifier is known
// to be emitted verbatim: region of finding C45-keyword-ident-leak (DESIGN F10). Determined by
// running TestC45KeywordLeak in discovery mode (C45_DISCOVER=1); every one of them is outside
// what collectIdents reaches through sqlparser.Walk (sub-trees that Walk does not visit, or
// names the AST keeps as plain strings).
var leakyPositions = map[string]bool{
	"ddl-col":        true, // column name in a CREATE TABLE / ALTER TABLE column definition
	"ddl-col-ref":    true, // column named in ALTER ... DROP/RENAME/ALTER COLUMN, AFTER
	"ddl-index-name": true, // index name in table spec / ADD INDEX / CREATE INDEX / DROP INDEX
	"ddl-index-col":  true, // column inside an index / primary key definition of a table spec
	"ddl-constraint": true, // constraint name
	"ddl-fk-col":     true, // foreign key column list, referenced table and columns
	"ddl-like":       true, // CREATE TABLE t LIKE other
	"view-name":      true, // CREATE VIEW name / DROP VIEW name
	"proc-name":      true, // CALL name
	"prepare-name":   true, // PREPARE name FROM
	"show-db":        true, // SHOW TABLES FROM db
	"partition-name": true, // SELECT ... FROM t PARTITION (p)
	"window-name":    true, // OVER w / WINDOW w AS (...)
	"for-update-of":  true, // FOR UPDATE OF t
	"grant-db":       true, // GRANT/REVOKE ... ON db.*
	"role-name":      true, // CREATE ROLE / DROP USER name
	"ddl-expr/":      true, // any identifier inside a CHECK / DEFAULT / generated-column expression
	"explain/":       true, // any identifier inside an EXPLAINed statement
	"window-def/":    true, // any identifier inside a named window definition
	"proc-body/":     true, // any identifier inside a procedure / trigger body
	"setop-cte/":     true, // any identifier inside the WITH clause of a UNION / INTERSECT / EXCEPT
	"setop-tail/":    true, // any identifier inside the ORDER BY of a UNION / INTERSECT / EXCEPT
}

func isLeaky(pos string) bool {
	if leakyPositions[pos] {
		return true
	}
	for p := range leakyPositions {
		if strings.HasSuffix(p, "/") && strings.HasPrefix(pos, p) {
			return true
		}
	}
	return false
}

// ---------------------------------------------------------------------------------------
// keyword table, taken from vitess at run time

var (
	kwOnce     sync.Once
	allKw      map[string]bool // every keyword of the vitess lexer, lower case
	identKw    []string        // keywords the grammar accepts as column, table and alias name
	identKwSet map[string]bool
)

func initKeywords() {
	kwOnce.Do(func() {
		allKw = map[string]bool{}
		for id := 57000; id < 60000; id++ {
			if s := sqlparser.KeywordString(id); s != "" {
				allKw[strings.ToLower(s)] = true
			}
		}
		identKwSet = map[string]bool{}
		for kw := range allKw {
			if strings.ContainsAny(kw, " _") && strings.HasPrefix(kw, "_") {
				continue // charset introducers
			}
			q := fmt.Sprintf("select %s, %s.%s from %s as %s where %s.%s = 1", kw, kw, kw, kw, kw, kw, kw)
			if _, err := sqlparser.Parse(q); err == nil {
				identKw = append(identKw, kw)
				identKwSet[kw] = true
			}
		}
		sort.Strings(identKw)
	})
}

// ---------------------------------------------------------------------------------------
// builder

type mode int

const (
	modeExclude mode = iota // never put a keyword-named identifier into a leaky position
	modeForce               // prefer keyword-named identifiers in leaky positions
	modeAny                 // keyword-named identifiers anywhere (finding not listed: nothing is excluded)
)

type builder struct {
	rt       *rapid.T
	toks     []tok
	mode     mode
	ctx      string // leaky context prefix ("explain/", ...)
	excluded int    // keyword names replaced by canaries because the position is leaky
	names    []string
	nbind    int
	depth    int
	classes  map[string]bool
	noKw     bool // no keyword-named identifiers at all (statements that are damaged afterwards)
	cos      prng // cosmetic choices
}

func (b *builder) class(c string) {
	if b.classes == nil {
		b.classes = map[string]bool{}
	}
	b.classes[c] = true
}

// prng is a splitmix64 generator for the cosmetic choices (keyword case, whitespace, comments,
// quoting style). It is seeded by one rapid draw per statement, so every case stays a function
// of the rapid bit stream (replayable), while the number of rapid draws per token stays small.
type prng uint64

func (p *prng) next() uint64 {
	*p += 0x9E3779B97F4A7C15
	z := uint64(*p)
	z = (z ^ (z >> 30)) * 0xBF58476D1CE4E5B9
	z = (z ^ (z >> 27)) * 0x94D049BB133111EB
	return z ^ (z >> 31)
}
func (p *prng) intn(n int) int      { return int(p.next() % uint64(n)) }
func (p *prng) chance(pct int) bool { return p.intn(100) < pct }

func (b *builder) intn(n int, label string) int { return rapid.IntRange(0, n-1).Draw(b.rt, label) }
func (b *builder) chance(pct int, label string) bool {
	return rapid.IntRange(0, 99).Draw(b.rt, label) < pct
}

// kw appends keywords / punctuation; a multi-word string is split into tokens.
func (b *builder) kw(words string) {
	for _, w := range strings.Fields(words) {
		t := tok{text: w, role: rKw, out: w}
		if w == "<>" {
			t.out = "!="
		}
		if b.cos.chance(15) && w[0] >= 'a' && w[0] <= 'z' {
			t.text = strings.ToUpper(w)
			t.out = t.text
		}
		b.toks = append(b.toks, t)
	}
}

// p appends punctuation glued to the previous token
func (b *builder) pg(s string) {
	b.toks = append(b.toks, tok{text: s, role: rKw, out: s, glue: true})
}

func (b *builder) glueNext() { // marks the next appended token as glued
	b.toks = append(b.toks, tok{role: -1})
}

func (b *builder) add(t tok) {
	if n := len(b.toks); n > 0 && b.toks[n-1].role == -1 {
		t.glue = true
		b.toks[n-1] = t
		return
	}
	b.toks = append(b.toks, t)
}

var canarySuffix = []string{"a", "b", "c", "d", "e", "t", "u", "x1", "x2", "_k", "long_name_7", "0", "_9z"}

func (b *builder) canaryName() string {
	// reuse a name often, so that equal lexemes occur
	if len(b.names) > 0 && b.chance(55, "reuse") {
		return rapid.SampledFrom(b.names).Draw(b.rt, "name")
	}
	n := rapid.SampledFrom([]string{"zq", "Zq", "ZQ", "zQ"}).Draw(b.rt, "pfx") + rapid.SampledFrom(canarySuffix).Draw(b.rt, "sfx")
	b.names = append(b.names, n)
	return n
}

// ident appends one identifier in position class pos.
func (b *builder) ident(pos string) {
	pos = b.ctx + pos
	initKeywords()
	wantKw := b.chance(22, "kwNamed")
	if b.mode == modeForce && isLeaky(pos) {
		wantKw = b.chance(80, "kwNamedForced")
	}
	if b.noKw {
		wantKw = false
	}
	if wantKw && isLeaky(pos) && b.mode == modeExclude {
		b.excluded++
		wantKw = false
	}
	if wantKw {
		name := rapid.SampledFrom(identKw).Draw(b.rt, "kwname")
		switch b.intn(4, "kwform") {
		case 0:
			name = strings.ToUpper(name)
		case 1:
			name = strings.ToUpper(name[:1]) + name[1:]
		}
		if b.chance(15, "kwquoted") {
			b.add(tok{text: "`" + name + "`", role: rIdent, key: "i:" + name, canon: name, pos: pos})
			b.class("ident:quoted-keyword")
			return
		}
		b.add(tok{text: name, role: rIdent, key: "i:" + name, canon: name, kwNamed: true, pos: pos})
		b.class("ident:keyword-named")
		return
	}
	switch b.intn(10, "identform") {
	case 0: // quoted, with a space / a reserved word / a backtick inside
		inner := rapid.SampledFrom([]string{"zq sp", "zq-dash", "select", "zq`tick", "from zq", "zq.dot", "Zq'q", "1zq"}).Draw(b.rt, "qname")
		b.add(tok{text: "`" + strings.ReplaceAll(inner, "`", "``") + "`", role: rIdent, key: "i:" + inner, canon: inner, pos: pos})
		b.class("ident:quoted-special")
	case 1, 2:
		n := b.canaryName()
		b.add(tok{text: "`" + n + "`", role: rIdent, key: "i:" + n, canon: n, pos: pos})
		b.class("ident:quoted")
	default:
		n := b.canaryName()
		b.add(tok{text: n, role: rIdent, key: "i:" + n, canon: n, pos: pos})
	}
}

// canaryIdent appends an unquoted canary identifier (for places where the grammar is picky).
func (b *builder) canaryIdent(pos string) {
	n := b.canaryName()
	b.add(tok{text: n, role: rIdent, key: "i:" + n, canon: n, pos: b.ctx + pos})
}

func (b *builder) vocab(name string) { b.add(tok{text: name, role: rVocab}) }

var strContents = []string{"zq", "zq secret", "zq%", "zq_1", "it's zq", `zq"dq`, `zq\back`, "", "a", "1", "5", "zqé", "zq\nnl", "ZQ", "$.zqpath", "2020-01-01", "zq;semi", "zq/*c*/", "zq--d", "select zq from zq"}

func quoteStr(s string, q byte, backslash bool) string {
	var sb strings.Builder
	sb.WriteByte(q)
	for i := 0; i < len(s); i++ {
		c := s[i]
		switch {
		case c == q && backslash:
			sb.WriteByte('\\')
			sb.WriteByte(c)
		case c == q:
			sb.WriteByte(c)
			sb.WriteByte(c)
		case c == '\\':
			sb.WriteString(`\\`)
		case c == '\n' && backslash:
			sb.WriteString(`\n`)
		default:
			sb.WriteByte(c)
		}
	}
	sb.WriteByte(q)
	return sb.String()
}

func (b *builder) str(content string) {
	q := byte('\'')
	if b.cos.chance(20) {
		q = '"'
	}
	b.add(tok{text: quoteStr(content, q, b.cos.chance(50)), role: rLit, key: "s:" + content, canon: content, litKind: "string"})
	b.class("lit:string")
}

func (b *builder) strLit() { b.str(rapid.SampledFrom(strContents).Draw(b.rt, "str")) }

var numTexts = []string{"0", "1", "2", "5", "42", "7741", "18446744073709551616", "007"}
var decTexts = []string{"1.5", ".5", "1.", "0.00", "77.41", "1.50"}
var floatTexts = []string{"1e10", "1.5E-3", "7e+5", "1E3", ".5e1"}

// lit appends one literal of a random kind.
func (b *builder) lit() {
	switch b.intn(16, "litkind") {
	case 0, 1, 2, 3:
		b.strLit()
	case 4, 5, 6:
		t := rapid.SampledFrom(numTexts).Draw(b.rt, "int")
		b.add(tok{text: t, role: rLit, key: "n:" + t, canon: t, litKind: "int"})
		b.class("lit:int")
	case 7:
		t := rapid.SampledFrom(decTexts).Draw(b.rt, "dec")
		b.add(tok{text: t, role: rLit, key: "n:" + t, canon: t, litKind: "decimal"})
		b.class("lit:decimal")
	case 8:
		t := rapid.SampledFrom(floatTexts).Draw(b.rt, "float")
		b.add(tok{text: t, role: rLit, key: "n:" + t, canon: t, litKind: "float"})
		b.class("lit:float")
	case 9:
		t := rapid.SampledFrom([]string{"0x7A71", "0x7a71", "0xFF", "0x00"}).Draw(b.rt, "hexnum")
		b.add(tok{text: t, role: rLit, key: "n:" + t, canon: t, litKind: "hexnum"})
		b.class("lit:hexnum")
	case 10:
		d := rapid.SampledFrom([]string{"7A71", "7a71", "FF", ""}).Draw(b.rt, "hex")
		x := rapid.SampledFrom([]string{"X", "x"}).Draw(b.rt, "x")
		b.add(tok{text: x + "'" + d + "'", role: rLit, key: "x:" + d, canon: d, litKind: "hex"})
		b.class("lit:hex")
	case 11:
		d := rapid.SampledFrom([]string{"0101", "1", "0", "11110000"}).Draw(b.rt, "bits")
		x := rapid.SampledFrom([]string{"B", "b"}).Draw(b.rt, "b")
		b.add(tok{text: x + "'" + d + "'", role: rLit, key: "b:" + d, canon: d, litKind: "bit"})
		b.class("lit:bit")
	case 12:
		t := rapid.SampledFrom([]string{"0b0101", "0b1"}).Draw(b.rt, "0b")
		// the vitess lexer has no 0b literal: it is lexed as an identifier-like word
		b.add(tok{text: t, role: rLit, key: "i:" + t, canon: "", litKind: "0b"})
		b.class("lit:0b")
	case 13:
		b.kw(rapid.SampledFrom([]string{"date", "time", "timestamp"}).Draw(b.rt, "dt"))
		b.str(rapid.SampledFrom([]string{"2020-01-01", "2024-02-29 10:11:12", "10:11:12"}).Draw(b.rt, "dtv"))
		b.class("lit:date")
	case 14:
		b.kw(rapid.SampledFrom([]string{"true", "false", "null"}).Draw(b.rt, "const"))
		b.class("lit:const")
	case 15:
		b.kw(rapid.SampledFrom([]string{"_utf8mb4", "_latin1", "_binary"}).Draw(b.rt, "intro"))
		if b.chance(50, "introglue") {
			b.glueNext()
		}
		b.strLit()
		b.class("lit:introducer")
	}
}

func (b *builder) intLit() {
	t := rapid.SampledFrom(numTexts[:6]).Draw(b.rt, "int")
	b.add(tok{text: t, role: rLit, key: "n:" + t, canon: t, litKind: "int"})
}

func (b *builder) bind() {
	switch b.intn(3, "bindkind") {
	case 0:
		b.nbind++
		b.add(tok{text: "?", role: rBind, out: fmt.Sprintf(":v%d", b.nbind)})
	case 1:
		n := rapid.SampledFrom([]string{":v1", ":bnd7", ":status", ":B2"}).Draw(b.rt, "bind")
		b.add(tok{text: n, role: rBind, out: n})
	case 2:
		b.nbind++
		b.add(tok{text: "?", role: rBind, out: fmt.Sprintf(":v%d", b.nbind)})
	}
	b.class("bind")
}

// colRef appends [[db.]table.]column
func (b *builder) colRef() {
	switch b.intn(6, "qual") {
	case 0:
		b.ident("qual-table")
		b.pg(".")
		b.glueNext()
		b.ident("col")
	case 1:
		b.ident("qual-db")
		b.pg(".")
		b.glueNext()
		b.ident("qual-table")
		b.pg(".")
		b.glueNext()
		b.ident("col")
	default:
		b.ident("col")
	}
}

var binOps = []string{"=", "<", ">", "<=", ">=", "<>", "!=", "<=>", "+", "-", "*", "/", "%", "div", "mod", "and", "or", "xor", "&", "|", "^", "<<", ">>", "like", "not like", "regexp", "&&", "||"}
var builtins = []string{"concat", "coalesce", "lower", "abs", "ifnull", "length", "json_extract", "greatest"}

func (b *builder) exprList(min, max int) {
	n := rapid.IntRange(min, max).Draw(b.rt, "nexpr")
	for i := 0; i < n; i++ {
		if i > 0 {
			b.pg(",")
		}
		b.expr()
	}
}

// operand: an atom, or any expression in parentheses (the vitess grammar has non-associative
// comparison operators, so nested operators are always parenthesised)
func (b *builder) operand() {
	switch b.intn(8, "operand") {
	case 0, 1, 2:
		b.colRef()
	case 3, 4, 5:
		b.lit()
	case 6:
		b.bind()
	case 7:
		b.kw("(")
		b.expr()
		b.kw(")")
	}
}

func (b *builder) expr() {
	b.depth++
	defer func() { b.depth-- }()
	k := b.intn(24, "expr")
	if b.depth > 2 && k >= 8 {
		k = k % 8
	}
	switch k {
	case 0, 1, 2:
		b.colRef()
	case 3, 4, 5, 6:
		b.lit()
	case 7:
		b.bind()
	case 8, 9, 10, 11:
		b.operand()
		b.kw(rapid.SampledFrom(binOps).Draw(b.rt, "op"))
		b.operand()
	case 12:
		b.kw("(")
		b.expr()
		b.kw(")")
	case 13:
		b.kw(rapid.SampledFrom([]string{"not", "-", "~", "!"}).Draw(b.rt, "unop"))
		b.colRef()
	case 14:
		b.colRef()
		b.kw(rapid.SampledFrom([]string{"is null", "is not null", "is true", "is not false"}).Draw(b.rt, "is"))
	case 15:
		b.colRef()
		if b.chance(30, "notbetween") {
			b.kw("not")
		}
		b.kw("between")
		b.lit()
		b.kw("and")
		b.lit()
	case 16:
		b.colRef()
		if b.chance(30, "notin") {
			b.kw("not")
		}
		b.kw("in (")
		if b.chance(25, "insub") && b.depth <= 2 {
			b.selectStmt(false)
		} else {
			n := rapid.IntRange(1, 4).Draw(b.rt, "nin")
			for i := 0; i < n; i++ {
				if i > 0 {
					b.pg(",")
				}
				b.lit()
			}
		}
		b.kw(")")
	case 17:
		if b.depth <= 2 {
			b.kw("exists (")
			b.selectStmt(false)
			b.kw(")")
		} else {
			b.lit()
		}
	case 18:
		b.kw("case when")
		b.expr()
		b.kw("then")
		b.lit()
		if b.chance(60, "else") {
			b.kw("else")
			b.lit()
		}
		b.kw("end")
		b.class("expr:case")
	case 19:
		// function call: canary (user-defined) name or a built-in
		if b.chance(50, "udf") {
			b.canaryIdent("func")
		} else {
			b.vocab(rapid.SampledFrom(builtins).Draw(b.rt, "fn"))
		}
		b.pg("(")
		b.exprList(0, 3)
		b.kw(")")
		b.class("expr:func")
	case 20:
		b.kw("cast (")
		b.expr()
		b.kw("as")
		b.kwOrNum(rapid.SampledFrom([]string{"signed", "unsigned", "char", "date", "json", "decimal ( 10 , 2 )"}).Draw(b.rt, "casttype"))
		b.kw(")")
	case 21:
		b.colRef()
		b.kw(rapid.SampledFrom([]string{"->", "->>"}).Draw(b.rt, "jsonop"))
		b.str(rapid.SampledFrom([]string{"$.zqpath", "$[0]", "$.a.zq"}).Draw(b.rt, "path"))
		b.class("expr:json")
	case 22:
		b.colRef()
		b.kw(rapid.SampledFrom([]string{"+", "-"}).Draw(b.rt, "ivop"))
		b.kw("interval")
		b.intLit()
		b.kw(rapid.SampledFrom([]string{"day", "hour", "month", "year"}).Draw(b.rt, "unit"))
	case 23:
		// window function with an inline window
		b.vocab(rapid.SampledFrom([]string{"row_number", "rank", "dense_rank"}).Draw(b.rt, "wfn"))
		b.pg("(")
		b.kw(")")
		b.kw("over (")
		if b.chance(70, "part") {
			b.kw("partition by")
			b.colRef()
		}
		if b.chance(70, "word") {
			b.kw("order by")
			b.colRef()
			if b.chance(40, "desc") {
				b.kw("desc")
			}
		}
		b.kw(")")
		b.class("expr:window")
	}
}

func (b *builder) tableName() {
	if b.chance(25, "dbq") {
		b.ident("qual-db")
		b.pg(".")
		b.glueNext()
	}
	b.ident("table")
}

func (b *builder) tableRef() {
	if b.depth == 0 && b.chance(8, "derived") {
		b.kw("(")
		b.depth++
		b.selectStmt(false)
		b.depth--
		b.kw(")")
		if b.cos.chance(70) {
			b.kw("as")
		}
		b.ident("alias")
		b.class("from:derived")
		return
	}
	b.tableName()
	if b.chance(8, "partition") {
		b.kw("partition (")
		b.ident("partition-name")
		b.kw(")")
	}
	if b.chance(40, "alias") {
		if b.cos.chance(60) {
			b.kw("as")
		}
		b.ident("alias")
	}
	if b.chance(8, "hint") {
		b.kw(rapid.SampledFrom([]string{"use index (", "force index (", "ignore index ("}).Draw(b.rt, "hint"))
		b.ident("index-hint")
		b.kw(")")
	}
}

func (b *builder) selectStmt(top bool) {
	if b.chance(12, "paren-union") && b.depth <= 1 {
		b.depth++
		b.kw("(")
		b.selectCore()
		b.kw(")")
		b.kw(rapid.SampledFrom([]string{"union", "union all", "union distinct", "intersect", "except"}).Draw(b.rt, "setop"))
		b.kw("(")
		b.selectCore()
		b.kw(")")
		b.depth--
		b.class("select:setop")
		if b.chance(40, "uorder") {
			b.kw("order by")
			b.intLit()
		}
		return
	}
	// a WITH clause in front of a set operation belongs to the set operation: sqlparser.Walk does
	// not reach it (region of the known finding), so keyword names are kept out of it
	union := b.chance(10, "union") && b.depth <= 1
	b.selectCoreCtx(union, union)
	if union {
		b.kw(rapid.SampledFrom([]string{"union", "union all"}).Draw(b.rt, "setop2"))
		b.depth++
		b.selectCoreCtx(false, true)
		b.depth--
		// a trailing ORDER BY / LIMIT belongs to the set operation, which Walk does not visit either
		if b.chance(40, "setoporder") {
			saved := b.ctx
			b.ctx += "setop-tail/"
			b.kw("order by")
			b.colRef()
			b.ctx = saved
			if b.chance(40, "setoplimit") {
				b.kw("limit")
				b.intLit()
			}
		}
		b.class("select:setop")
	}
}

func (b *builder) cte() {
	b.kw("with")
	if b.chance(25, "recursive") {
		b.kw("recursive")
	}
	n := rapid.IntRange(1, 2).Draw(b.rt, "nctes")
	for i := 0; i < n; i++ {
		if i > 0 {
			b.pg(",")
		}
		b.ident("cte-name")
		if b.chance(40, "ctecols") {
			b.kw("(")
			b.ident("cte-col")
			if b.chance(40, "ctecol2") {
				b.pg(",")
				b.ident("cte-col")
			}
			b.kw(")")
		}
		b.kw("as (")
		b.depth++
		b.selectCore()
		b.depth--
		b.kw(")")
	}
	b.class("select:cte")
}

func (b *builder) selectCore() { b.selectCoreCtx(false, false) }

// selectCoreCtx: beforeSetOp marks a WITH clause that will belong to a set operation; noTail
// suppresses ORDER BY / LIMIT / FOR UPDATE (operands of an unparenthesised set operation).
func (b *builder) selectCoreCtx(beforeSetOp, noTail bool) {
	if b.chance(12, "cte") && b.depth == 0 {
		saved := b.ctx
		if beforeSetOp {
			b.ctx += "setop-cte/"
		}
		b.cte()
		b.ctx = saved
	}
	b.kw("select")
	if b.chance(12, "distinct") {
		b.kw("distinct")
	}
	namedWindow := false
	n := rapid.IntRange(1, 3).Draw(b.rt, "nitems")
	for i := 0; i < n; i++ {
		if i > 0 {
			b.pg(",")
		}
		switch b.intn(12, "item") {
		case 0:
			b.kw("*")
		case 1:
			b.ident("qual-table")
			b.pg(".")
			b.pg("*")
		case 2:
			if b.depth == 0 {
				// window function over a named window
				b.vocab("sum")
				b.pg("(")
				b.colRef()
				b.kw(")")
				b.kw("over")
				b.ident("window-name")
				namedWindow = true
				break
			}
			fallthrough
		default:
			b.expr()
			if b.chance(35, "itemalias") {
				if b.cos.chance(70) {
					b.kw("as")
				}
				b.ident("alias")
			}
		}
	}
	if b.chance(90, "from") || namedWindow {
		b.kw("from")
		b.tableRef()
		nj := rapid.SampledFrom([]int{0, 0, 0, 1, 1, 2}).Draw(b.rt, "njoins")
		if b.depth > 0 {
			nj = 0
		}
		for i := 0; i < nj; i++ {
			switch b.intn(6, "join") {
			case 0:
				b.pg(",")
				b.tableRef()
			case 1:
				b.kw(rapid.SampledFrom([]string{"join", "inner join", "left join", "right join", "left outer join"}).Draw(b.rt, "jk"))
				b.tableRef()
				b.kw("using (")
				b.ident("using-col")
				b.kw(")")
			case 2:
				b.kw(rapid.SampledFrom([]string{"cross join", "natural join"}).Draw(b.rt, "jk2"))
				b.tableRef()
			default:
				b.kw(rapid.SampledFrom([]string{"join", "inner join", "left join", "right join", "straight_join"}).Draw(b.rt, "jk3"))
				b.tableRef()
				b.kw("on")
				b.expr()
			}
			b.class("select:join")
		}
		if b.chance(60, "where") {
			b.kw("where")
			b.expr()
		}
		if b.chance(25, "group") {
			b.kw("group by")
			b.colRef()
			if b.chance(30, "group2") {
				b.pg(",")
				b.colRef()
			}
			if b.chance(40, "having") {
				b.kw("having")
				b.expr()
			}
			b.class("select:group")
		}
		if namedWindow {
			b.kw("window")
			// same position class; the generator does not insist on the same name
			b.ident("window-name")
			b.kw("as (")
			saved := b.ctx
			b.ctx += "window-def/"
			b.kw("partition by")
			b.colRef()
			if b.chance(50, "worder") {
				b.kw("order by")
				b.colRef()
			}
			b.ctx = saved
			b.kw(")")
			b.class("select:named-window")
		}
		if noTail {
			return
		}
		if b.chance(30, "order") {
			b.kw("order by")
			b.expr()
			if b.chance(50, "dir") {
				b.kw(rapid.SampledFrom([]string{"asc", "desc"}).Draw(b.rt, "dir"))
			}
		}
		if b.chance(25, "limit") {
			b.kw("limit")
			if b.chance(20, "limitbind") {
				b.bind()
			} else {
				b.intLit()
			}
			if b.chance(40, "offset") {
				b.kw("offset")
				b.intLit()
			}
		}
		if b.depth == 0 && b.chance(6, "forupdate") {
			b.kw("for update")
			if b.chance(40, "of") {
				b.kw("of")
				b.ident("for-update-of")
			}
		}
	}
}

func (b *builder) insertStmt() {
	b.kw(rapid.SampledFrom([]string{"insert into", "insert ignore into", "replace into", "insert"}).Draw(b.rt, "ins"))
	b.tableName()
	switch b.intn(4, "insform") {
	case 0:
		b.kw("set")
		b.ident("col")
		b.kw("=")
		b.lit()
		if b.chance(40, "set2") {
			b.pg(",")
			b.ident("col")
			b.kw("=")
			b.expr()
		}
	case 1:
		if b.chance(60, "cols") {
			b.kw("(")
			b.ident("col")
			b.pg(",")
			b.ident("col")
			b.kw(")")
		}
		b.selectStmt(false)
	default:
		ncol := rapid.IntRange(1, 3).Draw(b.rt, "ncol")
		if b.chance(75, "cols") {
			b.kw("(")
			for i := 0; i < ncol; i++ {
				if i > 0 {
					b.pg(",")
				}
				b.ident("col")
			}
			b.kw(")")
		}
		b.kw("values")
		nrow := rapid.IntRange(1, 3).Draw(b.rt, "nrow")
		for r := 0; r < nrow; r++ {
			if r > 0 {
				b.pg(",")
			}
			b.kw("(")
			for i := 0; i < ncol; i++ {
				if i > 0 {
					b.pg(",")
				}
				switch b.intn(8, "val") {
				case 0:
					b.kw("default")
				case 1:
					b.bind()
				case 2:
					b.expr()
				default:
					b.lit()
				}
			}
			b.kw(")")
		}
		if b.chance(30, "odku") {
			b.kw("on duplicate key update")
			b.ident("col")
			b.kw("=")
			if b.chance(50, "valuesfn") {
				b.kw("values (")
				b.ident("col")
				b.kw(")")
			} else {
				b.expr()
			}
		}
	}
	b.class("stmt:insert")
}

func (b *builder) updateStmt() {
	b.kw("update")
	b.tableRef()
	multi := b.chance(20, "ujoin")
	if multi {
		b.kw("join")
		b.tableRef()
		b.kw("on")
		b.expr()
	}
	b.kw("set")
	n := rapid.IntRange(1, 3).Draw(b.rt, "nset")
	for i := 0; i < n; i++ {
		if i > 0 {
			b.pg(",")
		}
		b.colRef()
		b.kw("=")
		b.expr()
	}
	if b.chance(75, "where") {
		b.kw("where")
		b.expr()
	}
	if !multi && b.chance(20, "order") {
		b.kw("order by")
		b.colRef()
	}
	if !multi && b.chance(20, "limit") {
		b.kw("limit")
		b.intLit()
	}
	b.class("stmt:update")
}

func (b *builder) deleteStmt() {
	b.kw("delete")
	multi := b.chance(15, "multi")
	if multi {
		b.ident("table")
		b.kw("from")
		b.tableRef()
		b.kw("join")
		b.tableRef()
		b.kw("on")
		b.expr()
	} else {
		b.kw("from")
		b.tableName()
	}
	if b.chance(80, "where") {
		b.kw("where")
		b.expr()
	}
	if !multi && b.chance(20, "order") {
		b.kw("order by")
		b.colRef()
		b.kw("limit")
		b.intLit()
	}
	b.class("stmt:delete")
}

var colTypes = []string{"int", "bigint unsigned", "varchar ( 20 )", "decimal ( 10 , 2 )", "text", "datetime ( 6 )", "char ( 3 )", "json", "double", "tinyint ( 1 )"}

func (b *builder) typeSpec() {
	if b.chance(12, "enum") {
		b.kw(rapid.SampledFrom([]string{"enum (", "set ("}).Draw(b.rt, "enumset"))
		b.strLit()
		b.pg(",")
		b.strLit()
		b.kw(")")
		return
	}
	b.kwOrNum(rapid.SampledFrom(colTypes).Draw(b.rt, "type"))
}

// kwOrNum appends keywords; words that are numbers are integer literals.
func (b *builder) kwOrNum(words string) {
	for _, w := range strings.Fields(words) {
		if w[0] >= '0' && w[0] <= '9' {
			b.add(tok{text: w, role: rLit, key: "n:" + w, canon: w, litKind: "int"})
		} else {
			b.kw(w)
		}
	}
}

func (b *builder) ddlExpr() {
	saved := b.ctx
	b.ctx += "ddl-expr/"
	b.colRef()
	b.kw(rapid.SampledFrom([]string{">", "<", "=", "+"}).Draw(b.rt, "ddlop"))
	b.lit()
	b.ctx = saved
}

func (b *builder) columnDef() {
	b.ident("ddl-col")
	b.typeSpec()
	used := map[int]bool{}
	for i, n := 0, rapid.IntRange(0, 3).Draw(b.rt, "nopts"); i < n; i++ {
		o := b.intn(8, "colopt")
		if used[o] || (o == 6 && used[1]) || (o == 1 && used[6]) || (o == 7 && used[0]) || (o == 0 && used[7]) || (o == 4 && used[7]) || (o == 7 && used[4]) {
			continue
		}
		used[o] = true
		switch o {
		case 0:
			b.kw("not null")
		case 1:
			b.kw("default")
			b.lit()
		case 2:
			b.kw("comment")
			b.strLit()
		case 3:
			b.kw("auto_increment")
		case 4:
			b.kw("primary key")
		case 5:
			b.kw("unique")
		case 6:
			b.kw("default (")
			saved := b.ctx
			b.ctx += "ddl-expr/"
			b.colRef()
			b.kw("+")
			b.intLit()
			b.ctx = saved
			b.kw(")")
		case 7:
			b.kw("null")
		}
	}
}

func (b *builder) indexCols(pos string) {
	b.kw("(")
	b.ident(pos)
	if b.chance(40, "idx2") {
		b.pg(",")
		b.ident(pos)
		if pos != "ddl-fk-col" && b.chance(30, "idxdesc") {
			b.kw("desc")
		}
	}
	b.kw(")")
}

func (b *builder) createTable() {
	b.kw("create")
	if b.chance(10, "temp") {
		b.kw("temporary")
	}
	b.kw("table")
	if b.chance(20, "ine") {
		b.kw("if not exists")
	}
	b.tableName()
	if b.chance(6, "like") {
		b.kw("like")
		b.ident("ddl-like")
		b.class("stmt:create-table-like")
		return
	}
	if b.chance(8, "ctas") {
		b.kw("as")
		b.depth++ // no WITH clause here
		b.selectStmt(false)
		b.depth--
		b.class("stmt:ctas")
		return
	}
	b.kw("(")
	n := rapid.IntRange(1, 4).Draw(b.rt, "ncols")
	for i := 0; i < n; i++ {
		if i > 0 {
			b.pg(",")
		}
		b.columnDef()
	}
	for i, k := 0, rapid.IntRange(0, 3).Draw(b.rt, "nconstr"); i < k; i++ {
		b.pg(",")
		switch b.intn(6, "constr") {
		case 0:
			b.kw("primary key")
			b.indexCols("ddl-index-col")
		case 1:
			b.kw(rapid.SampledFrom([]string{"key", "index", "unique key", "unique index", "fulltext key"}).Draw(b.rt, "keykind"))
			b.ident("ddl-index-name")
			b.indexCols("ddl-index-col")
		case 2:
			b.kw("constraint")
			b.ident("ddl-constraint")
			b.kw("foreign key")
			b.indexCols("ddl-fk-col")
			b.kw("references")
			b.ident("ddl-fk-col")
			b.indexCols("ddl-fk-col")
			if b.chance(40, "ondelete") {
				b.kw(rapid.SampledFrom([]string{"on delete cascade", "on update set null", "on delete restrict"}).Draw(b.rt, "fkact"))
			}
		case 3:
			if b.chance(50, "named") {
				b.kw("constraint")
				b.ident("ddl-constraint")
			}
			b.kw("check (")
			b.ddlExpr()
			b.kw(")")
		case 4:
			b.kw("foreign key")
			b.indexCols("ddl-fk-col")
			b.kw("references")
			b.ident("ddl-fk-col")
			b.indexCols("ddl-fk-col")
		case 5:
			b.kw("unique")
			b.indexCols("ddl-index-col")
		}
	}
	b.kw(")")
	for i, k := 0, rapid.IntRange(0, 2).Draw(b.rt, "ntopts"); i < k; i++ {
		switch b.intn(4, "topt") {
		case 0:
			b.kw("comment")
			if b.chance(60, "eq") {
				b.kw("=")
			}
			b.strLit()
		case 1:
			b.kw("engine =")
			b.canaryIdent("engine")
		case 2:
			b.kw("auto_increment =")
			b.intLit()
		case 3:
			b.kw("default charset =")
			b.vocab(rapid.SampledFrom([]string{"utf8mb4", "latin1"}).Draw(b.rt, "cs"))
		}
	}
	b.class("stmt:create-table")
}

func (b *builder) alterTable() {
	b.kw("alter table")
	b.tableName()
	switch b.intn(13, "alter") {
	case 0:
		b.kw("add column")
		b.columnDef()
		if b.chance(30, "after") {
			b.kw("after")
			b.ident("ddl-col-ref")
		}
	case 1:
		b.kw("drop column")
		b.ident("ddl-col-ref")
	case 2:
		b.kw("rename column")
		b.ident("ddl-col-ref")
		b.kw("to")
		b.ident("ddl-col-ref")
	case 3:
		b.kw(rapid.SampledFrom([]string{"add index", "add unique index", "add key"}).Draw(b.rt, "addidx"))
		b.ident("ddl-index-name")
		b.indexCols("index-col")
	case 4:
		b.kw("drop index")
		b.ident("ddl-index-name")
	case 5:
		b.kw("add constraint")
		b.ident("ddl-constraint")
		b.kw("check (")
		b.ddlExpr()
		b.kw(")")
	case 6:
		b.kw("rename to")
		b.tableName()
	case 7:
		b.kw("modify column")
		b.columnDef()
	case 8:
		b.kw("add primary key")
		b.indexCols("index-col")
	case 9:
		b.kw(rapid.SampledFrom([]string{"drop constraint", "drop foreign key", "drop check"}).Draw(b.rt, "dropc"))
		b.ident("ddl-constraint")
	case 10:
		b.kw("alter column")
		b.ident("ddl-col-ref")
		b.kw("set default")
		b.lit()
	case 11:
		b.kw("add constraint")
		b.ident("ddl-constraint")
		b.kw("foreign key")
		b.indexCols("ddl-fk-col")
		b.kw("references")
		b.ident("ddl-fk-col")
		b.indexCols("ddl-fk-col")
	case 12:
		b.kw("change column")
		b.ident("ddl-col-ref")
		b.columnDef()
	}
	b.class("stmt:alter-table")
}

func (b *builder) account() {
	if b.chance(50, "quotedacct") {
		b.str(rapid.SampledFrom([]string{"zquser", "zq adm"}).Draw(b.rt, "user"))
		b.pg("@")
		b.glueNext()
		b.str(rapid.SampledFrom([]string{"zqhost", "%", "10.7.7.%"}).Draw(b.rt, "host"))
	} else {
		b.canaryIdent("user")
		b.pg("@")
		b.glueNext()
		b.canaryIdent("host")
	}
}

func (b *builder) miscStmt() {
	switch b.intn(24, "misc") {
	case 0:
		b.kw("create")
		if b.chance(30, "uniq") {
			b.kw("unique")
		}
		b.kw("index")
		b.ident("ddl-index-name")
		b.kw("on")
		b.tableName()
		b.indexCols("index-col")
		b.class("stmt:create-index")
	case 1:
		b.kw("drop table")
		if b.chance(40, "ife") {
			b.kw("if exists")
		}
		b.tableName()
		if b.chance(40, "two") {
			b.pg(",")
			b.tableName()
		}
		b.class("stmt:drop-table")
	case 2:
		b.kw(rapid.SampledFrom([]string{"truncate table", "truncate", "describe", "show create table", "analyze table", "show columns from", "show index from"}).Draw(b.rt, "t1"))
		b.tableName()
		b.class("stmt:table-util")
	case 3:
		b.kw("rename table")
		b.tableName()
		b.kw("to")
		b.tableName()
		b.class("stmt:rename-table")
	case 4:
		b.kw("create")
		if b.chance(30, "orreplace") {
			b.kw("or replace")
		}
		b.kw("view")
		b.ident("view-name")
		b.kw("as")
		b.selectStmt(false)
		b.class("stmt:create-view")
	case 5:
		b.kw(rapid.SampledFrom([]string{"create database", "drop database", "use", "create database if not exists", "create schema"}).Draw(b.rt, "dbstmt"))
		b.ident("db-name")
		b.class("stmt:database")
	case 6:
		b.kw("set")
		n := rapid.IntRange(1, 2).Draw(b.rt, "nset")
		for i := 0; i < n; i++ {
			if i > 0 {
				b.pg(",")
			}
			switch b.intn(4, "setkind") {
			case 0:
				v := rapid.SampledFrom([]string{"@zqvar", "@Zq_v2", "@status", "@`zq v`"}).Draw(b.rt, "uservar")
				b.add(tok{text: v, role: rIdent, key: "i:" + v, canon: v, pos: "user-var"})
			case 1:
				v := rapid.SampledFrom([]string{"@@session.zqsys", "@@zqsys", "@@global.zq_g"}).Draw(b.rt, "sysvar")
				b.add(tok{text: v, role: rIdent, key: "i:" + v, canon: v, pos: "sys-var"})
			case 2:
				if b.chance(50, "scope") {
					b.kw(rapid.SampledFrom([]string{"global", "session"}).Draw(b.rt, "scope"))
				}
				b.ident("sysvar-name")
			case 3:
				b.ident("sysvar-name")
			}
			b.kw(rapid.SampledFrom([]string{"=", ":="}).Draw(b.rt, "assign"))
			b.lit()
		}
		b.class("stmt:set")
	case 7:
		b.kw(rapid.SampledFrom([]string{"show tables", "show full tables"}).Draw(b.rt, "showt"))
		if b.chance(50, "from") {
			b.kw("from")
			b.ident("show-db")
		}
		if b.chance(50, "like") {
			b.kw("like")
			b.strLit()
		}
		b.class("stmt:show")
	case 8:
		b.kw("call")
		b.ident("proc-name")
		b.pg("(")
		b.exprList(0, 3)
		b.kw(")")
		b.class("stmt:call")
	case 9:
		b.kw("prepare")
		b.ident("prepare-name")
		b.kw("from")
		b.str("select zqa from zqt where zqb = ?")
		b.class("stmt:prepare")
	case 10:
		b.kw("execute")
		b.canaryIdent("stmt-name")
		if b.chance(60, "using") {
			b.kw("using")
			b.add(tok{text: "@zqarg", role: rIdent, key: "i:@zqarg", canon: "@zqarg", pos: "user-var"})
		}
		b.class("stmt:execute")
	case 11:
		b.kw("create user")
		b.account()
		if b.chance(70, "idby") {
			b.kw("identified by")
			b.str(rapid.SampledFrom([]string{"zqpassword", "zq p@ss"}).Draw(b.rt, "pw"))
		}
		b.class("stmt:create-user")
	case 12:
		revoke := b.chance(30, "revoke")
		if revoke {
			b.kw(rapid.SampledFrom([]string{"revoke delete on", "revoke select , insert on"}).Draw(b.rt, "revoke"))
		} else {
			b.kw(rapid.SampledFrom([]string{"grant select on", "grant insert , update on", "grant all on"}).Draw(b.rt, "grant"))
		}
		if b.chance(50, "dbstar") {
			b.ident("grant-db")
			b.pg(".")
			b.pg("*")
		} else {
			b.canaryIdent("grant-db2")
			b.pg(".")
			b.glueNext()
			b.canaryIdent("grant-table")
		}
		if revoke {
			b.kw("from")
		} else {
			b.kw("to")
		}
		b.account()
		b.class("stmt:grant")
	case 13:
		b.kw(rapid.SampledFrom([]string{"savepoint", "release savepoint", "rollback to"}).Draw(b.rt, "sp"))
		b.canaryIdent("savepoint")
		b.class("stmt:savepoint")
	case 14:
		b.kw("explain")
		saved := b.ctx
		b.ctx += "explain/"
		switch b.intn(4, "explained") {
		case 0:
			b.updateStmt()
		case 1:
			b.deleteStmt()
		default:
			b.selectStmt(true)
		}
		b.ctx = saved
		b.class("stmt:explain")
	case 15:
		b.kw("create procedure")
		b.canaryIdent("proc-def-name")
		b.pg("(")
		if b.chance(60, "param") {
			b.kw(rapid.SampledFrom([]string{"in", "out", "inout"}).Draw(b.rt, "pdir"))
			b.canaryIdent("proc-param")
			b.kw("int")
		}
		b.kw(")")
		saved := b.ctx
		b.ctx += "proc-body/"
		if b.chance(50, "beginend") {
			b.kw("begin")
			for i, n := 0, rapid.IntRange(1, 2).Draw(b.rt, "nbody"); i < n; i++ {
				b.bodyStmt()
				b.pg(";")
			}
			b.kw("end")
		} else {
			b.bodyStmt()
		}
		b.ctx = saved
		b.class("stmt:create-procedure")
	case 16:
		b.kw("create trigger")
		b.canaryIdent("trigger-name")
		b.kw(rapid.SampledFrom([]string{"before insert on", "after update on", "before delete on"}).Draw(b.rt, "trg"))
		b.tableName()
		b.kw("for each row")
		saved := b.ctx
		b.ctx += "proc-body/"
		b.bodyStmt()
		b.ctx = saved
		b.class("stmt:create-trigger")
	case 17:
		b.kw(rapid.SampledFrom([]string{"create role", "drop user", "drop role"}).Draw(b.rt, "role"))
		b.ident("role-name")
		b.class("stmt:role")
	case 18:
		b.kw("drop view")
		b.ident("view-name")
		b.class("stmt:drop-view")
	case 19:
		b.kw("load data infile")
		b.str("/zq/secret/file.csv")
		b.kw("into table")
		b.tableName()
		b.class("stmt:load-data")
	case 20:
		b.selectCore()
		b.kw("into outfile")
		b.str("/zq/out.csv")
		b.class("stmt:into-outfile")
	case 21:
		b.kw("kill")
		if b.chance(50, "q") {
			b.kw("query")
		}
		b.intLit()
		b.class("stmt:kill")
	case 22:
		b.kw("values")
		for i, n := 0, rapid.IntRange(1, 3).Draw(b.rt, "nrows"); i < n; i++ {
			if i > 0 {
				b.pg(",")
			}
			b.kw("row (")
			b.lit()
			b.pg(",")
			b.lit()
			b.kw(")")
		}
		b.class("stmt:values")
	case 23:
		b.kw("table")
		b.tableName()
		b.class("stmt:table")
	}
}

func (b *builder) bodyStmt() {
	switch b.intn(4, "body") {
	case 0:
		b.selectCore()
	case 1:
		b.updateStmt()
	case 2:
		b.deleteStmt()
	case 3:
		b.insertStmt()
	}
}

func (b *builder) statement() {
	switch k := b.intn(20, "stmt"); {
	case k < 8:
		b.selectStmt(true)
		b.class("stmt:select")
	case k < 10:
		b.insertStmt()
	case k < 12:
		b.updateStmt()
	case k < 13:
		b.deleteStmt()
	case k < 15:
		b.createTable()
	case k < 16:
		b.alterTable()
	default:
		b.miscStmt()
	}
	if b.chance(10, "semi") {
		b.pg(";")
	}
}

// ---------------------------------------------------------------------------------------
// rendering

var commentPool = []string{"/* zqcomment */", "/* zq\nmultiline 'q */", "-- zq dashdash\n", "# zq hash 'x\n", "/**/", "/* select zqsecret from zqt */"}

// render joins the tokens with random whitespace and comments. It returns the SQL and the
// number of comments inserted.
func render(rt *rapid.T, toks []tok, withComments bool) (string, int) {
	var sb strings.Builder
	ncomments := 0
	r := prng(rapid.Uint64().Draw(rt, "layout"))
	comment := func() {
		sb.WriteString(commentPool[r.intn(len(commentPool))])
		ncomments++
	}
	if withComments && r.intn(10) == 0 {
		comment()
		sb.WriteString(" ")
	}
	for i, t := range toks {
		if i > 0 && !t.glue {
			switch r.intn(14) {
			case 0:
				sb.WriteString("\n")
			case 1:
				sb.WriteString("\t")
			case 2:
				sb.WriteString("  ")
			case 3:
				if withComments {
					sb.WriteString(" ")
					comment()
					sb.WriteString(" ")
				} else {
					sb.WriteString(" ")
				}
			default:
				sb.WriteString(" ")
			}
		}
		sb.WriteString(t.text)
	}
	if withComments && r.intn(10) == 0 {
		sb.WriteString(" ")
		sb.WriteString(commentPool[r.intn(2)])
		ncomments++
	}
	return sb.String(), ncomments
}

// renderPlain joins the tokens with single spaces (used for the renamed twin).
func renderPlain(toks []tok) string {
	var sb strings.Builder
	for i, t := range toks {
		if i > 0 && !t.glue {
			sb.WriteByte(' ')
		}
		sb.WriteString(t.text)
	}
	return sb.String()
}
