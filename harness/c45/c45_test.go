// Package c45 checks property C45: the redacted trace form of a SQL text contains none of the
// input's identifiers or literal values — only placeholder tokens, keywords, operators and
// bind placeholders — and keeps the token structure; equal lexemes map to equal tokens and
// different lexemes to different tokens within a Mapping; unparseable input yields only the
// marker; concurrent redactions sharing a Mapping stay consistent.
//
// Technique: statements are generated as token lists whose roles (keyword, identifier,
// literal, bind, comment) are known to the generator independently of the vitess lexer; the
// output is decided token by token against those roles.
package c45

import (
	"fmt"
	"os"
	"regexp"
	"sort"
	"strings"
	"sync"
	"testing"

	"github.com/dolthub/vitess/go/vt/sqlparser"
	"pgregory.net/rapid"

	"github.com/dolthub/go-mysql-server/sql/sqlredact"
	"github.com/dolthub/go-mysql-server/vh/internal/kf"
	"github.com/dolthub/go-mysql-server/vh/internal/stats"
)

const findingKeywordLeak = "C45-keyword-ident-leak"

var (
	reIdentPH = regexp.MustCompile("^`n[1-9][0-9]*`$")
	reValuePH = regexp.MustCompile(`^(?:'v[1-9][0-9]*'|:v[1-9][0-9]*|X'v[1-9][0-9]*'|B'v[1-9][0-9]*')$`)
	reNTok    = regexp.MustCompile(`^n[1-9][0-9]*$`)
	reVTok    = regexp.MustCompile(`^v[1-9][0-9]*$`)
	reInnerV  = regexp.MustCompile(`v[1-9][0-9]*`)
)

func isPlaceholder(s string) bool { return reIdentPH.MatchString(s) || reValuePH.MatchString(s) }

type violation struct {
	kind string // "ident-verbatim", "leak", "structure", "identity", "mapping", "unparseable", "canary"
	tok  *tok
	msg  string
}

func (v violation) String() string { return v.kind + ": " + v.msg }

// identity tracks lexeme -> output token across the statements redacted into one Mapping.
type identity struct {
	keyToOut map[string]string
	outToKey map[string]string
}

func newIdentity() *identity {
	return &identity{keyToOut: map[string]string{}, outToKey: map[string]string{}}
}

func mapsEqual(a, b map[string]string) bool {
	if len(a) != len(b) {
		return false
	}
	for k, v := range a {
		if w, ok := b[k]; !ok || w != v {
			return false
		}
	}
	return true
}

// checkMapping: both namespaces are bijections onto n1..nN / v1..vM.
func checkMapping(m *sqlredact.Mapping) []violation {
	var vs []violation
	for ns, mp := range map[string]map[string]string{"n": m.Idents(), "v": m.Values()} {
		seen := map[string]string{}
		for orig, t := range mp {
			re := reNTok
			if ns == "v" {
				re = reVTok
			}
			if !re.MatchString(t) {
				vs = append(vs, violation{kind: "mapping", msg: fmt.Sprintf("token %q for %q is not of the form %s<k>", t, orig, ns)})
			}
			if o, dup := seen[t]; dup {
				vs = append(vs, violation{kind: "mapping", msg: fmt.Sprintf("lexemes %q and %q share token %s", o, orig, t)})
			}
			seen[t] = orig
		}
		for i := 1; i <= len(mp); i++ {
			if _, ok := seen[fmt.Sprintf("%s%d", ns, i)]; !ok {
				vs = append(vs, violation{kind: "mapping", msg: fmt.Sprintf("namespace %s has %d entries but no token %s%d", ns, len(mp), ns, i)})
				break
			}
		}
	}
	return vs
}

// checkRedaction decides one redaction. before* are snapshots of the Mapping taken before the
// call (nil maps for a fresh Mapping).
func checkRedaction(toks []tok, sql, out string, err error, m *sqlredact.Mapping, beforeI, beforeV map[string]string, id *identity) []violation {
	return checkRedactionMode(toks, sql, out, err, m, beforeI, beforeV, id, false)
}

// lexesAsKeyword: the vitess lexer is the authority on the keyword vocabulary (it knows
// synonyms such as RLIKE/REGEXP that KeywordString does not enumerate).
func lexesAsKeyword(f string) bool {
	tk := sqlparser.NewStringTokenizer(f)
	typ, _ := tk.Scan()
	switch typ {
	case 0, sqlparser.ID, sqlparser.STRING, sqlparser.INTEGRAL, sqlparser.FLOAT, sqlparser.HEX, sqlparser.HEXNUM, sqlparser.BIT_LITERAL, sqlparser.LEX_ERROR, sqlparser.VALUE_ARG, sqlparser.LIST_ARG, sqlparser.COMMENT:
		return false
	}
	if typ < 256 {
		return false
	}
	next, _ := tk.Scan()
	return next == 0
}

var reOperator = regexp.MustCompile(`^[-+*/%=<>!&|^~(),.;@:]+$`)
var reBind = regexp.MustCompile(`^::?[A-Za-z_][A-Za-z0-9_.]*$`)

// checkRedactionMode: with weak set (statements damaged after generation, whose token roles are
// no longer reliable) only the role-free part is decided: marker for unparseable input, no
// canary, every output token is a placeholder, a bind placeholder, an operator or a word of
// the lexer's keyword table, and the Mapping is well formed.
func checkRedactionMode(toks []tok, sql, out string, err error, m *sqlredact.Mapping, beforeI, beforeV map[string]string, id *identity, weak bool) []violation {
	var vs []violation
	add := func(kind string, t *tok, f string, a ...any) {
		vs = append(vs, violation{kind: kind, tok: t, msg: fmt.Sprintf(f, a...)})
	}
	_, perr := sqlparser.Parse(sql)
	if perr != nil {
		if out != sqlredact.UnparseableMarker {
			add("unparseable", nil, "input does not parse (%v) but the output is %q", perr, out)
		}
		if err == nil {
			add("unparseable", nil, "input does not parse but no error was returned")
		}
		if !mapsEqual(m.Idents(), beforeI) || !mapsEqual(m.Values(), beforeV) {
			add("unparseable", nil, "input does not parse but the mapping changed: idents %v values %v", m.Idents(), m.Values())
		}
		return vs
	}
	if err != nil || out == sqlredact.UnparseableMarker {
		add("structure", nil, "input parses but redaction returned %q, err %v", out, err)
		return vs
	}
	low := strings.ToLower(out)
	for _, c := range []string{"zq", "7741", "7a71"} {
		if strings.Contains(low, c) {
			add("canary", nil, "canary %q occurs in the output", c)
		}
	}
	fields := strings.Split(out, " ")
	if weak {
		initKeywords()
		for i, f := range fields {
			if isPlaceholder(f) || reOperator.MatchString(f) || reBind.MatchString(f) || lexesAsKeyword(f) {
				continue
			}
			add("leak", nil, "output token %d %q is neither a placeholder, a bind placeholder, an operator nor a keyword", i, f)
		}
		return append(vs, checkMapping(m)...)
	}
	if len(fields) != len(toks) {
		add("structure", nil, "input has %d non-comment tokens, output has %d", len(toks), len(fields))
		return vs
	}
	identCanon := map[string]bool{}
	for i := range toks {
		if toks[i].role == rIdent {
			identCanon[toks[i].canon] = true
		}
	}
	idents, values := m.Idents(), m.Values()
	for i := range toks {
		t := &toks[i]
		o := fields[i]
		switch t.role {
		case rKw:
			if o == t.out {
				continue
			}
			// documented over-approximation: a keyword whose text equals an identifier of the
			// same statement is redacted like that identifier
			if reIdentPH.MatchString(o) && identCanon[t.text] && id.keyToOut["i:"+t.text] == o {
				continue
			}
			if reIdentPH.MatchString(o) && identCanon[t.text] {
				if _, seen := id.keyToOut["i:"+t.text]; !seen {
					id.keyToOut["i:"+t.text] = o
					id.outToKey[o] = "i:" + t.text
					continue
				}
			}
			add("structure", t, "token %d: structural token %q became %q", i, t.text, o)
		case rBind:
			if o != t.out {
				add("structure", t, "token %d: bind placeholder %q became %q (expected %q)", i, t.text, o, t.out)
			}
		case rVocab:
			if o != t.text && !isPlaceholder(o) {
				add("structure", t, "token %d: built-in name %q became %q", i, t.text, o)
			}
		case rIdent, rLit:
			if !isPlaceholder(o) {
				if o == t.text || (t.role == rIdent && o == t.canon) {
					kind := "leak"
					if t.role == rIdent {
						kind = "ident-verbatim"
					}
					add(kind, t, "token %d: %s %q (position %s) is emitted verbatim", i, map[role]string{rIdent: "identifier", rLit: "literal"}[t.role], t.text, t.pos)
				} else {
					add("leak", t, "token %d: lexeme %q became %q, which is not a placeholder", i, t.text, o)
				}
				continue
			}
			// equal lexemes -> equal tokens, different lexemes -> different tokens
			if prev, ok := id.keyToOut[t.key]; ok && prev != o {
				add("identity", t, "token %d: lexeme %q was %s before and is %s now", i, t.text, prev, o)
			}
			if k, ok := id.outToKey[o]; ok && k != t.key {
				add("identity", t, "token %d: different lexemes %q and %q share the token %s", i, k, t.key, o)
			}
			id.keyToOut[t.key] = o
			id.outToKey[o] = t.key
			// consistency of the Mapping with the output
			if t.canon != "" || t.litKind == "string" || t.litKind == "hex" {
				if reIdentPH.MatchString(o) {
					if got := idents[t.canon]; "`"+got+"`" != o {
						add("mapping", t, "token %d: output has %s for %q but Mapping.Idents has %q", i, o, t.canon, got)
					}
				} else if t.role == rLit {
					if got := values[t.canon]; got != reInnerV.FindString(o) {
						add("mapping", t, "token %d: output has %s for %q but Mapping.Values has %q", i, o, t.canon, got)
					}
				}
			}
		}
	}
	vs = append(vs, checkMapping(m)...)
	// the mapping gained nothing but what the output shows
	used := map[string]bool{}
	for _, f := range fields {
		if reIdentPH.MatchString(f) {
			used[strings.Trim(f, "`")] = true
		} else if reValuePH.MatchString(f) {
			used[reInnerV.FindString(f)] = true
		}
	}
	for orig, t := range idents {
		if _, old := beforeI[orig]; !old && !used[t] {
			add("mapping", nil, "Mapping.Idents gained %q -> %s, which does not occur in the output", orig, t)
		}
	}
	for orig, t := range values {
		if _, old := beforeV[orig]; !old && !used[t] {
			add("mapping", nil, "Mapping.Values gained %q -> %s, which does not occur in the output", orig, t)
		}
	}
	for orig, t := range beforeI {
		if idents[orig] != t {
			add("mapping", nil, "pre-existing entry %q -> %s changed to %q", orig, t, idents[orig])
		}
	}
	for orig, t := range beforeV {
		if values[orig] != t {
			add("mapping", nil, "pre-existing entry %q -> %s changed to %q", orig, t, values[orig])
		}
	}
	return vs
}

// renamedTwin applies an injective renaming to every identifier (and keeps everything else):
// the redacted string must not change. Returns nil when the relation is not applicable (a
// structural token is spelled like one of the identifiers: the documented over-approximation
// makes the output depend on the name).
func renamedTwin(toks []tok) []tok {
	names := map[string]string{}
	for _, t := range toks {
		if t.role == rIdent {
			for _, u := range toks {
				if (u.role == rKw || u.role == rVocab) && u.text == t.canon {
					return nil
				}
			}
		}
	}
	out := make([]tok, len(toks))
	copy(out, toks)
	for i := range out {
		t := &out[i]
		if t.role != rIdent || strings.HasPrefix(t.canon, "@") {
			continue
		}
		n, ok := names[t.canon]
		if !ok {
			n = fmt.Sprintf("yk%dr", len(names)+1)
			names[t.canon] = n
		}
		if strings.HasPrefix(t.text, "`") {
			t.text = "`" + n + "`"
		} else {
			t.text = n
		}
	}
	return out
}

func showViolations(vs []violation) string {
	var sb strings.Builder
	for _, v := range vs {
		sb.WriteString("\n  - ")
		sb.WriteString(v.String())
	}
	return sb.String()
}

type generated struct {
	b         *builder
	toks      []tok
	sql       string
	ncomments int
	mutated   bool
}

// genStatement draws one statement; with mutate it may be damaged (tokens dropped, doubled,
// swapped, stray parenthesis, shuffled soup) to reach the "unparseable" clause.
func genStatement(rt *rapid.T, md mode, mutate bool) *generated {
	// positions are meaningless once a statement is damaged, so damaged statements carry no
	// keyword-named identifiers (the exclusion of the known finding is by position)
	b := &builder{rt: rt, mode: md, noKw: mutate, cos: prng(rapid.Uint64().Draw(rt, "cosmetic"))}
	b.statement()
	toks := make([]tok, 0, len(b.toks))
	for _, t := range b.toks {
		if t.role != -1 {
			toks = append(toks, t)
		}
	}
	g := &generated{b: b}
	if mutate && len(toks) > 1 {
		g.mutated = true
		switch rapid.IntRange(0, 5).Draw(rt, "mutation") {
		case 0: // drop a token
			i := rapid.IntRange(0, len(toks)-1).Draw(rt, "at")
			toks = append(toks[:i:i], toks[i+1:]...)
		case 1: // double a token
			i := rapid.IntRange(0, len(toks)-1).Draw(rt, "at")
			toks = append(toks[:i+1:i+1], toks[i:]...)
		case 2: // swap two tokens
			i := rapid.IntRange(0, len(toks)-1).Draw(rt, "i")
			j := rapid.IntRange(0, len(toks)-1).Draw(rt, "j")
			toks[i], toks[j] = toks[j], toks[i]
		case 3: // stray punctuation
			i := rapid.IntRange(0, len(toks)).Draw(rt, "at")
			p := rapid.SampledFrom([]string{"(", ")", ",", "'", "`", "@", "\\", "$", "{"}).Draw(rt, "stray")
			toks = append(toks[:i:i], append([]tok{{text: p, role: rKw, out: p}}, toks[i:]...)...)
		case 4: // token soup
			toks = rapid.Permutation(toks).Draw(rt, "soup")
		case 5: // truncate
			i := rapid.IntRange(1, len(toks)-1).Draw(rt, "at")
			toks = toks[:i]
		}
		for i := range toks {
			toks[i].glue = toks[i].glue && rapid.Bool().Draw(rt, "keepglue")
			// the lexer continues the name of a bind placeholder over '.', letters and digits:
			// ":status" glued to ".zq_k" is the single placeholder ":status.zq_k", which passes
			// through by design (its name is not an identifier of the statement) and would only
			// trip the canary scan
			if i > 0 && toks[i-1].role == rBind {
				toks[i].glue = false
			}
		}
	}
	g.toks = toks
	g.sql, g.ncomments = render(rt, toks, true)
	return g
}

func classify(st *stats.Collector, g *generated, parsed bool) {
	for c := range g.b.classes {
		st.Class(c)
	}
	if parsed {
		st.Class("parse:ok")
	} else if g.mutated {
		st.Class("parse:fail-mutated")
	} else {
		st.Class("parse:fail-generated")
	}
	if g.ncomments > 0 {
		st.Class("with-comments")
	}
}

func nonTrivial(toks []tok) bool {
	ids, kinds, kwNamed := map[string]bool{}, map[string]bool{}, false
	for _, t := range toks {
		switch t.role {
		case rIdent:
			ids[t.canon] = true
			kwNamed = kwNamed || t.kwNamed
		case rLit:
			kinds[t.litKind] = true
		}
	}
	return (len(ids) >= 3 && len(kinds) >= 2) || kwNamed
}

// redactOne runs the redactor on g into m (nil: fresh Mapping through RedactSQLForTrace).
func redactOne(g *generated, m *sqlredact.Mapping) (string, *sqlredact.Mapping, map[string]string, map[string]string, error) {
	if m == nil {
		out, nm, err := sqlredact.RedactSQLForTrace(g.sql)
		return out, nm, map[string]string{}, map[string]string{}, err
	}
	bi, bv := m.Idents(), m.Values()
	out, err := sqlredact.RedactSQLForTraceInto(g.sql, m)
	return out, m, bi, bv, err
}

// searchMode: the region of finding C45-keyword-ident-leak is excluded from the main search only
// while the finding is listed as known; otherwise keyword names are drawn for every position.
func searchMode() mode {
	if kf.Listed(findingKeywordLeak) {
		return modeExclude
	}
	return modeAny
}

func TestC45(t *testing.T) {
	st := stats.New("C45", "")
	defer st.Flush()
	initKeywords()
	st.Set("keywords_in_lexer", len(allKw))
	st.Set("keywords_usable_as_identifier", len(identKw))
	rapid.Check(t, func(rt *rapid.T) {
		st.Eval()
		id := newIdentity()
		var m *sqlredact.Mapping
		nstmt := rapid.IntRange(1, 2).Draw(rt, "nstmt")
		for s := 0; s < nstmt; s++ {
			g := genStatement(rt, searchMode(), rapid.IntRange(0, 5).Draw(rt, "mutate") == 0)
			for i := 0; i < g.b.excluded; i++ {
				st.Excluded(findingKeywordLeak)
			}
			out, nm, bi, bv, err := redactOne(g, m)
			m = nm
			_, perr := sqlparser.Parse(g.sql)
			classify(st, g, perr == nil)
			if vs := checkRedactionMode(g.toks, g.sql, out, err, m, bi, bv, id, g.mutated); len(vs) > 0 {
				rt.Fatalf("statement %d: %q\nredacted: %q\nidents %v values %v%s", s, g.sql, out, m.Idents(), m.Values(), showViolations(vs))
			}
			if perr != nil {
				continue
			}
			// metamorphic twin: renaming the identifiers leaves the redacted string unchanged
			if s == 0 {
				if twin := renamedTwin(g.toks); twin != nil {
					// both sides are rendered without layout; the relation presupposes that both
					// parse (the lexer fuses some adjacent keyword pairs, e.g. "not enforced" with a
					// column named enforced parses only when a comment or newline separates them)
					tsql, psql := renderPlain(twin), renderPlain(g.toks)
					_, terr := sqlparser.Parse(tsql)
					_, perr2 := sqlparser.Parse(psql)
					if terr == nil && perr2 == nil {
						tout, _, _ := sqlredact.RedactSQLForTrace(tsql)
						pout, _, _ := sqlredact.RedactSQLForTrace(psql)
						if tout != pout {
							rt.Fatalf("renaming the identifiers changes the redacted text:\n  %q -> %q\n  %q -> %q", psql, pout, tsql, tout)
						}
						st.Class("twin-compared")
					}
				}
			}
			if g.mutated {
				st.Class("damaged-but-parses")
				continue
			}
			if nonTrivial(g.toks) {
				st.NonTrivial(map[string]any{"sql": g.sql, "redacted": out}, g.sql)
			}
			if s == 1 {
				st.Class("second-statement-into-same-mapping")
			}
		}
	})
}

// TestC45KeywordLeak searches behind finding C45-keyword-ident-leak: keyword-named identifiers
// are put into the positions that are known to leak; the only violations tolerated (and only
// if the finding is listed) are "a keyword-named, unquoted identifier in one of those positions
// is emitted verbatim". Everything else in those statements must still hold.
// With C45_DISCOVER=1 every position gets keyword names and leaks are only counted.
func TestC45KeywordLeak(t *testing.T) {
	st := stats.New("C45", "keyword-leak")
	defer st.Flush()
	discover := os.Getenv("C45_DISCOVER") != ""
	var mu sync.Mutex
	leaks, clean := map[string]int{}, map[string]int{}
	rapid.Check(t, func(rt *rapid.T) {
		st.Eval()
		g := genStatement(rt, modeForce, false)
		out, m, bi, bv, err := redactOne(g, nil)
		vs := checkRedaction(g.toks, g.sql, out, err, m, bi, bv, newIdentity())
		leaked := map[*tok]bool{}
		var other []violation
		for _, v := range vs {
			sig := v.kind == "ident-verbatim" && v.tok != nil && v.tok.kwNamed && (isLeaky(v.tok.pos) || discover)
			// a leaked identifier also shows up as the canary-free but unmapped remainder: only
			// the signature itself is tolerated
			if sig {
				leaked[v.tok] = true
				continue
			}
			other = append(other, v)
		}
		if len(other) > 0 {
			rt.Fatalf("%q\nredacted: %q%s", g.sql, out, showViolations(other))
		}
		if _, perr := sqlparser.Parse(g.sql); perr != nil {
			st.Class("parse:fail-generated")
			return
		}
		st.Class("parse:ok")
		mu.Lock()
		for i := range g.toks {
			tk := &g.toks[i]
			if tk.role == rIdent && tk.kwNamed {
				if leaked[tk] {
					leaks[tk.pos]++
				} else {
					clean[tk.pos]++
				}
			}
		}
		mu.Unlock()
		if len(leaked) > 0 {
			st.Excluded(findingKeywordLeak)
			var first *tok
			for tk := range leaked {
				if first == nil || tk.pos < first.pos {
					first = tk
				}
			}
			st.NonTrivial(map[string]any{"sql": g.sql, "redacted": out, "leaked": first.text, "position": first.pos}, g.sql)
			if !discover && !kf.Suppress(st, findingKeywordLeak) {
				rt.Fatalf("%q\nredacted: %q\nkeyword-named identifier %q in position %s is emitted verbatim", g.sql, out, first.text, first.pos)
			}
		}
	})
	var pos []string
	for p := range leaks {
		pos = append(pos, p)
	}
	for p := range clean {
		if _, ok := leaks[p]; !ok {
			pos = append(pos, p)
		}
	}
	sort.Strings(pos)
	summary := map[string]string{}
	for _, p := range pos {
		summary[p] = fmt.Sprintf("leaked %d / clean %d", leaks[p], clean[p])
		if discover {
			t.Logf("position %-40s leaked %6d clean %6d", p, leaks[p], clean[p])
		}
	}
	st.Set("keyword_named_by_position", summary)
}

// TestC45Witness re-confirms the DESIGN F10 witness literally.
func TestC45Witness(t *testing.T) {
	st := stats.New("C45", "witness")
	defer st.Flush()
	st.Eval()
	const sql = "create table secret_t (comment int, key k1 (comment))"
	out, _, err := sqlredact.RedactSQLForTrace(sql)
	if err != nil {
		t.Fatalf("%q: %v", sql, err)
	}
	twin, _, _ := sqlredact.RedactSQLForTrace("create table secret_t (zqcol int, key k1 (zqcol))")
	st.NonTrivial(map[string]any{"sql": sql, "redacted": out, "twin": twin}, sql)
	leaks := false
	for _, f := range strings.Split(out, " ") {
		if f == "comment" {
			leaks = true
		}
	}
	if !leaks && out == "create table `n1` ( `n2` int , key `n3` ( `n2` ) )" {
		st.Class("witness-no-longer-leaks")
		return
	}
	// signature: the column name, and nothing else, is emitted verbatim
	if leaks && out == "create table `n1` ( comment int , key `n2` ( comment ) )" && kf.Suppress(st, findingKeywordLeak) {
		st.Excluded(findingKeywordLeak)
		t.Logf("KNOWN %s: %q -> %q", findingKeywordLeak, sql, out)
		return
	}
	t.Fatalf("%q is redacted to %q: the column name `comment` is emitted verbatim (a non-keyword name gives %q)", sql, out, twin)
}

// TestC45Concurrent — 2..8 goroutines redact generated statements into one shared Mapping
// (built with -race); afterwards the Mapping is a bijection with gap-free counters and every
// output equals a sequential re-redaction with the final Mapping.
func TestC45Concurrent(t *testing.T) {
	st := stats.New("C45", "concurrent")
	defer st.Flush()
	rapid.Check(t, func(rt *rapid.T) {
		st.Eval()
		ng := rapid.IntRange(2, 8).Draw(rt, "goroutines")
		per := rapid.IntRange(1, 2).Draw(rt, "perGoroutine")
		m := sqlredact.NewMapping()
		if rapid.Bool().Draw(rt, "prepopulated") {
			g := genStatement(rt, searchMode(), false)
			_, _ = sqlredact.RedactSQLForTraceInto(g.sql, m)
		}
		work := make([][]*generated, ng)
		for i := range work {
			for j := 0; j < per; j++ {
				work[i] = append(work[i], genStatement(rt, searchMode(), rapid.IntRange(0, 7).Draw(rt, "mutate") == 0))
			}
		}
		outs := make([][]string, ng)
		start := make(chan struct{})
		var wg sync.WaitGroup
		for i := 0; i < ng; i++ {
			wg.Add(1)
			go func() {
				defer wg.Done()
				<-start
				for _, g := range work[i] {
					o, _ := sqlredact.RedactSQLForTraceInto(g.sql, m)
					outs[i] = append(outs[i], o)
					// readers of the shared mapping, as the rowexec spans do
					_ = m.Idents()
					_ = m.RedactIdent("zqshared")
					_ = m.RedactValue("zqshared")
					_ = m.String()
				}
			}()
		}
		close(start)
		wg.Wait()
		if vs := checkMapping(m); len(vs) > 0 {
			rt.Fatalf("shared mapping after %d goroutines: idents %v values %v%s", ng, m.Idents(), m.Values(), showViolations(vs))
		}
		fi, fv := m.Idents(), m.Values()
		distinctSQL := map[string]bool{}
		for i := range work {
			for j, g := range work[i] {
				distinctSQL[g.sql] = true
				again, _ := sqlredact.RedactSQLForTraceInto(g.sql, m)
				if again != outs[i][j] {
					rt.Fatalf("goroutine %d statement %q: concurrent output %q, sequential re-redaction with the final mapping %q", i, g.sql, outs[i][j], again)
				}
				// each output is decided on its own as well
				if vs := checkRedactionMode(g.toks, g.sql, outs[i][j], nil, m, fi, fv, newIdentity(), g.mutated); len(vs) > 0 {
					var keep []violation
					for _, v := range vs {
						// the error value is not kept per statement; everything else counts
						if v.kind == "unparseable" && strings.Contains(v.msg, "no error was returned") {
							continue
						}
						keep = append(keep, v)
					}
					if len(keep) > 0 {
						rt.Fatalf("goroutine %d statement %q -> %q%s", i, g.sql, outs[i][j], showViolations(keep))
					}
				}
			}
		}
		if !mapsEqual(fi, m.Idents()) || !mapsEqual(fv, m.Values()) {
			rt.Fatalf("sequential re-redaction changed the mapping")
		}
		st.Class(fmt.Sprintf("goroutines:%d", ng))
		if len(distinctSQL) >= 2 && len(fi) >= 3 {
			var all []string
			for s := range distinctSQL {
				all = append(all, s)
			}
			sort.Strings(all)
			st.NonTrivial(nil, all)
		}
	})
}
