package c03

import (
	"fmt"
	"os"
	"regexp"
	"strings"
	"testing"

	"github.com/dolthub/go-mysql-server/vh/internal/fx"
	"github.com/dolthub/go-mysql-server/vh/internal/kf"
	"github.com/dolthub/go-mysql-server/vh/internal/stats"
	"pgregory.net/rapid"
)

type tcase struct {
	sh      *shape
	rows    []row
	analyze bool
	script  []string // every set-up statement, for the failure message
}

func (c *tcase) String() string { return strings.Join(c.script, ";\n") + ";" }

var (
	reIndexLine  = regexp.MustCompile(`index: \[([^\]]*)\]`)
	reStaticLine = regexp.MustCompile(`static: (.*)`)
)

// planClasses derives distribution labels from the analysed plan of the ti query.
func planClasses(plan string) (usedIndex bool, labels []string) {
	if !strings.Contains(plan, "IndexedTableAccess(ti)") {
		if plan == "" {
			return false, []string{"plan:none"}
		}
		return false, []string{"plan:scan"}
	}
	labels = append(labels, "plan:index")
	if strings.Contains(plan, "Filter") {
		labels = append(labels, "plan:index+filter")
	}
	if m := reIndexLine.FindStringSubmatch(plan); m != nil {
		labels = append(labels, fmt.Sprintf("idxwidth:%d", strings.Count(m[1], ",")+1))
	}
	if m := reStaticLine.FindStringSubmatch(plan); m != nil {
		s := m[1]
		n := strings.Count(s, "{")
		switch {
		case n == 0:
			labels = append(labels, "ranges:0")
		case n == 1:
			labels = append(labels, "ranges:1")
		default:
			labels = append(labels, "ranges:many")
		}
		if strings.Contains(s, "NULL") {
			labels = append(labels, "range:null-bound")
		}
		if strings.Contains(s, "∞") {
			labels = append(labels, "range:half-open")
		}
		if strings.Contains(s, "(") && !strings.Contains(s, "∞") {
			labels = append(labels, "range:open-bound")
		}
	}
	return true, labels
}

func maxRows() int {
	if os.Getenv("VERIF_TIER") == "thorough" {
		return 48
	}
	return 16
}

// TestC03: generated table (drawn index layout) + index-free twin with identical rows;
// generated filters; the rows returned through the index must equal, as a multiset, the rows
// the full scan of the twin returns.
func TestC03(t *testing.T) {
	st := stats.New("C03", "")
	defer st.Flush()
	mr := maxRows()
	rapid.Check(t, func(rt *rapid.T) {
		st.Eval()
		runCase(rt, st, mr)
	})
}

// setup creates ti and tn with identical rows; returns the fixture session.
func setup(fail func(string, ...any), st *stats.Collector, c *tcase) (*fx.Fixture, *fx.Sess) {
	f := fx.New(fx.Opts{Stats: c.analyze})
	s := f.NewSession("", "", "")
	ti, tn := c.sh.DDL()
	c.script = append(c.script, ti, tn)
	s.MustExec(fail, ti, tn)
	if len(c.rows) > 0 {
		ins := insertSQL("ti", c.rows)
		r := s.Exec(ins)
		if r.Panic != nil || r.TimedOut {
			fail("setup insert crashed: %s\n%s -> %s\n%s", c, ins, r, r.Stack)
		}
		if r.Err != nil {
			// the whole statement was rejected (key enforcement is C14's subject): insert row by
			// row and keep, in both tables, exactly the rows that ti accepts
			st.Class("setup:bulk-insert-rejected")
			var kept []row
			for _, one := range c.rows {
				q := insertSQL("ti", []row{one})
				r1 := s.Exec(q)
				if r1.Panic != nil || r1.TimedOut {
					fail("setup insert crashed: %s\n%s -> %s\n%s", c, q, r1, r1.Stack)
				}
				if r1.Err == nil {
					kept = append(kept, one)
					c.script = append(c.script, q)
				}
			}
			c.rows = kept
		} else {
			c.script = append(c.script, ins)
		}
	}
	if len(c.rows) > 0 {
		q := insertSQL("tn", c.rows)
		c.script = append(c.script, q)
		s.MustExec(fail, q)
	}
	// ANALYZE TABLE on an empty table panics in memory/stats.go (integer divide by zero, see
	// notes; C10's subject), so statistics are only collected for non-empty tables
	if c.analyze && len(c.rows) > 0 {
		c.script = append(c.script, "ANALYZE TABLE ti")
		s.MustExec(fail, "ANALYZE TABLE ti")
	}
	return f, s
}

func newTinfo(sh *shape, rows []row) *tinfo {
	t := &tinfo{sh: sh, pools: pools(sh, rows), hasNull: make([]bool, len(sh.cols)), total: len(rows)}
	for _, r := range rows {
		for c, v := range r {
			if v.lk == lNull {
				t.hasNull[c] = true
			}
		}
	}
	return t
}

func runCase(rt *rapid.T, st *stats.Collector, maxRows int) {
	c := &tcase{sh: genShape(rt)}
	c.rows = genRows(rt, c.sh, maxRows)
	c.analyze = rapid.Bool().Draw(rt, "analyze")
	f, s := setup(rt.Fatalf, st, c)
	defer f.Close()

	// the twin must hold the same rows (sanity of the set-up; full scans on both sides)
	a, b := s.Exec("SELECT * FROM ti"), s.Exec("SELECT * FROM tn")
	if !a.OK() || !b.OK() || len(a.Rows) != len(c.rows) || !fx.MultisetEqual(fx.NormRows(a.Schema, a.Rows), fx.NormRows(b.Schema, b.Rows)) {
		rt.Fatalf("set-up: unfiltered ti and tn differ\n%s\nti: %s\ntn: %s", c, a, b)
	}
	ti := newTinfo(c.sh, c.rows)
	st.Class(fmt.Sprintf("rows:%s", bucket(ti.total)))

	g := &gctx{sh: c.sh, pools: ti.pools, st: st.Class}
	g.weights = c.sh.indexedWeight()
	for i := range g.weights {
		g.weights[i] = g.weights[i]*2 + 1 // indexed columns dominate, others still appear
	}
	nq := rapid.IntRange(1, 3).Draw(rt, "nfilters")
	for q := 0; q < nq; q++ {
		p := g.tree(rt, 3)
		steerAround(st, ti, p)
		proj := "*"
		if rapid.IntRange(0, 3).Draw(rt, "proj") == 0 {
			cols := distinctCols(rt, len(c.sh.cols), rapid.IntRange(1, len(c.sh.cols)).Draw(rt, "nproj"), "projcols")
			var names []string
			for _, pc := range cols {
				names = append(names, c.sh.cols[pc].name)
			}
			proj = strings.Join(names, ", ")
		}
		if !checkFilter(rt.Fatalf, st, c.String(), s, ti, proj, p) {
			return // fixture poisoned by a (known) panic
		}
	}
}

func bucket(n int) string {
	switch {
	case n == 0:
		return "0"
	case n <= 3:
		return "1-3"
	case n <= 8:
		return "4-8"
	case n <= 16:
		return "9-16"
	}
	return "17+"
}

// checkFilter runs one filter against both tables and applies the oracle. It returns false
// when the fixture must not be used any further.
func checkFilter(fail func(string, ...any), st *stats.Collector, script string, s *fx.Sess, t *tinfo, proj string, p pred) bool {
	where := p.SQL()
	qi := fmt.Sprintf("SELECT %s FROM ti WHERE %s", proj, where)
	qn := fmt.Sprintf("SELECT %s FROM tn WHERE %s", proj, where)
	st.Class("filters")
	walk(p, func(n pred) { st.Class("node:" + strings.TrimPrefix(fmt.Sprintf("%T", n), "*c03.p")) })

	plan := s.Plan(qi)
	used, labels := planClasses(plan)
	for _, l := range labels {
		st.Class(l)
	}
	rn := s.Exec(qn)
	ri := s.Exec(qi)
	o := outcome{ri: ri, rn: rn, total: t.total}

	violation := func(what string) {
		if suppressed(st, t, p, o) {
			return
		}
		fail("C03 violated: %s\n-- set-up\n%s\n-- query\n%s;\n-- through index (ti): %s\n-- full scan   (tn): %s\n-- plan of the ti query\n%s%s",
			what, script, qi, ri, rn, plan, ri.Stack+rn.Stack)
	}

	if ri.TimedOut || rn.TimedOut {
		fail("statement timed out: %s\n%s", script, qi)
		return false
	}
	if ri.Panic != nil || rn.Panic != nil {
		violation("panic")
		return false
	}
	switch {
	case ri.Err != nil && rn.Err != nil:
		st.Class("outcome:both-error")
		return true
	case ri.Err != nil:
		violation("the query through the index failed, the full scan returned rows")
		return true
	case rn.Err != nil:
		// only the scan failed: a per-row evaluation error of the filter can legitimately be
		// missing on the index side, which evaluates the filter on fewer rows
		st.Class("outcome:scan-only-error")
		return true
	}
	ni, nn := fx.NormRows(ri.Schema, ri.Rows), fx.NormRows(rn.Schema, rn.Rows)
	if !fx.MultisetEqual(ni, nn) {
		violation(fmt.Sprintf("row sets differ: index %s, scan %s", fx.Show(ni), fx.Show(nn)))
		return true
	}
	switch {
	case len(rn.Rows) == 0:
		st.Class("outcome:none")
	case len(rn.Rows) == t.total:
		st.Class("outcome:all")
	default:
		st.Class("outcome:some")
		if used {
			st.Class("nontrivial")
			st.NonTrivial(map[string]any{"ti": strings.SplitN(script, ";", 2)[0], "rows": t.total, "query": qi, "matched": len(rn.Rows)}, script, qi)
		}
	}
	return true
}

// TestC03Known re-confirms the minimal witness of every known finding: a witness that still
// shows the violation must be listed (else the test fails); one that no longer does is
// reported as such (the defect was repaired and the id can be retired).
func TestC03Known(t *testing.T) {
	st := stats.New("C03", "known")
	defer st.Flush()
	for i := range findings {
		fd := &findings[i]
		st.Eval()
		f := fx.New(fx.Opts{})
		s := f.NewSession("", "", "")
		s.MustExec(t.Fatalf, fd.witness.setup...)
		qi, qn := "SELECT * FROM ti WHERE "+fd.witness.where, "SELECT * FROM tn WHERE "+fd.witness.where
		rn := s.Exec(qn)
		ri := s.Exec(qi)
		f.Close()
		same := ri.OK() && rn.OK() && fx.MultisetEqual(fx.NormRows(ri.Schema, ri.Rows), fx.NormRows(rn.Schema, rn.Rows))
		switch {
		case same:
			st.Class("witness-no-longer-reproduces:" + fd.id)
			t.Logf("%s: witness no longer reproduces (index %s, scan %s)", fd.id, ri, rn)
		case kf.Suppress(st, fd.id):
			st.NonTrivial(map[string]any{"finding": fd.id, "where": fd.witness.where, "index": ri.String(), "scan": rn.String()}, fd.id)
			t.Logf("%s reproduces: WHERE %s: index %s, scan %s", fd.id, fd.witness.where, ri, rn)
		default:
			t.Errorf("C03 violated (witness of %s, not listed as known): %s\n%s;\n-- through index: %s\n-- full scan: %s\n%s",
				fd.id, strings.Join(fd.witness.setup, ";\n"), qi, ri, rn, ri.Stack)
		}
	}
}
