// Package c03 checks property C03: index lookups return exactly the rows a full scan would.
//
// gen.go holds the generators: a table shape (columns, index layout), its rows, and filter
// trees over the columns. Everything is drawn from rapid generators so that failing cases
// shrink and replay.
package c03

import (
	"fmt"
	"math/big"
	"strings"

	"pgregory.net/rapid"
)

// ---------------------------------------------------------------------------------------------
// column kinds and value domains

type kind int

const (
	kTiny kind = iota
	kUTiny
	kInt
	kBig
	kUBig
	kDec
	kDbl
	kStrBin
	kStrCI
	kStrGen
	kDate
	nKinds
)

var kindDDL = [...]string{
	kTiny:   "TINYINT",
	kUTiny:  "TINYINT UNSIGNED",
	kInt:    "INT",
	kBig:    "BIGINT",
	kUBig:   "BIGINT UNSIGNED",
	kDec:    "DECIMAL(10,2)",
	kDbl:    "DOUBLE",
	kStrBin: "VARCHAR(8)",
	kStrCI:  "VARCHAR(8) COLLATE utf8mb4_0900_ai_ci",
	kStrGen: "VARCHAR(8) COLLATE utf8mb4_general_ci",
	kDate:   "DATE",
}

var kindName = [...]string{"tinyint", "utinyint", "int", "bigint", "ubigint", "decimal", "double", "varchar_bin", "varchar_ai_ci", "varchar_general_ci", "date"}

func (k kind) isInt() bool { return k <= kUBig }
func (k kind) isNum() bool { return k <= kDbl }
func (k kind) isStr() bool { return k == kStrBin || k == kStrCI || k == kStrGen }

// intRange returns the inclusive value range of an integer kind.
func intRange(k kind) (lo, hi *big.Int) {
	switch k {
	case kTiny:
		return big.NewInt(-128), big.NewInt(127)
	case kUTiny:
		return big.NewInt(0), big.NewInt(255)
	case kInt:
		return big.NewInt(-2147483648), big.NewInt(2147483647)
	case kBig:
		lo, _ = new(big.Int).SetString("-9223372036854775808", 10)
		hi, _ = new(big.Int).SetString("9223372036854775807", 10)
		return
	case kUBig:
		hi, _ = new(big.Int).SetString("18446744073709551615", 10)
		return big.NewInt(0), hi
	}
	panic("not an integer kind")
}

// stored value domains (SQL text of a literal that stores exactly that value); small and
// built to collide
var storedDomain = [...][]string{
	kTiny:   {"-128", "-3", "-2", "-1", "0", "1", "2", "3", "4", "126", "127"},
	kUTiny:  {"0", "1", "2", "3", "4", "5", "254", "255"},
	kInt:    {"-2147483648", "-3", "-2", "-1", "0", "1", "2", "3", "4", "2147483647"},
	kBig:    {"-9223372036854775808", "-3", "-1", "0", "1", "2", "3", "4", "9223372036854775806", "9223372036854775807"},
	kUBig:   {"0", "1", "2", "3", "4", "9223372036854775807", "9223372036854775808", "18446744073709551615"},
	kDec:    {"-99999999.99", "-1.50", "-0.25", "0.00", "0.25", "1.00", "1.25", "1.50", "2.00", "3.00", "99999999.99"},
	kDbl:    {"-1.5", "-0.25", "0", "0.1", "0.25", "1", "1.5", "2", "3", "1e10"},
	kStrBin: strDomain,
	kStrCI:  strDomain,
	kStrGen: strDomain,
	kDate:   {"1000-01-01", "2019-12-31", "2020-01-01", "2020-01-02", "2020-01-03", "2020-01-31", "2020-02-29", "9999-12-31"},
}

var strDomain = []string{"", "a", "A", "á", "ab", "aB", "abc", "abd", "b", "B", "a ", "10", "9"}

// ---------------------------------------------------------------------------------------------
// literals

type litKind int

const (
	lNull litKind = iota
	lInt          // integer literal
	lDec          // exact decimal literal with a fractional part written out
	lFlt          // floating point literal (exponent notation)
	lStr          // quoted string (also used for dates)
)

type lit struct {
	lk litKind
	s  string   // SQL text for numbers; raw (unquoted) text for lStr
	r  *big.Rat // value of a numeric literal
}

func (l lit) SQL() string {
	switch l.lk {
	case lNull:
		return "NULL"
	case lStr:
		return "'" + strings.ReplaceAll(l.s, "'", "''") + "'"
	}
	return l.s
}

// typ is the SQL type class the engine gives the literal ("int64" = some signed integer
// type, "uint64" = some unsigned integer type).
func (l lit) typ() string {
	switch l.lk {
	case lNull:
		return "null"
	case lStr:
		return "string"
	case lFlt:
		return "float"
	case lDec:
		return "decimal"
	}
	// the engine gives an integer literal the smallest type that holds it, and prefers the
	// unsigned type of a width over the next wider signed one: 0..127 tinyint, 128..255 tinyint
	// unsigned, ..32767 smallint, ..65535 smallint unsigned, ..2^31-1 int, ..2^32-1 int unsigned,
	// ..2^63-1 bigint, ..2^64-1 bigint unsigned; negative literals are signed
	lo, hi := intRange(kBig)
	_, uhi := intRange(kUBig)
	n := l.r.Num()
	switch {
	case n.Cmp(lo) < 0 || n.Cmp(uhi) > 0:
	case n.Sign() < 0:
		return "int64"
	case n.Cmp(hi) > 0:
		return "uint64"
	default:
		for _, bits := range []uint{7, 15, 31} {
			smax := new(big.Int).Lsh(big.NewInt(1), bits)   // 2^bits: first value beyond the signed type
			umax := new(big.Int).Lsh(big.NewInt(1), bits+1) // first value beyond the unsigned type
			if n.Cmp(smax) < 0 {
				return "int64"
			}
			if n.Cmp(umax) < 0 {
				return "uint64"
			}
		}
		return "int64"
	}
	return "decimal" // integer literals beyond 64 bits are decimals
}

func (l lit) integral() bool { return l.r != nil && l.r.IsInt() }

// inIntRange reports whether a numeric literal is an integer inside the range of kind k.
func (l lit) inIntRange(k kind) bool {
	if !l.integral() {
		return false
	}
	lo, hi := intRange(k)
	n := l.r.Num()
	return n.Cmp(lo) >= 0 && n.Cmp(hi) <= 0
}

func numLit(s string) lit {
	r, ok := new(big.Rat).SetString(s)
	if !ok {
		panic("bad numeric literal " + s)
	}
	lk := lInt
	if strings.ContainsAny(s, "eE") {
		lk = lFlt
	} else if strings.Contains(s, ".") {
		lk = lDec
	}
	return lit{lk: lk, s: s, r: r}
}

func strLit(s string) lit { return lit{lk: lStr, s: s} }

var nullLit = lit{lk: lNull}

// valueLit turns a stored-domain text into the literal used in INSERT and in filters.
func valueLit(k kind, s string) lit {
	if k.isNum() {
		return numLit(s)
	}
	return strLit(s)
}

var (
	outOfRangeInts = []string{"-9223372036854775809", "-9223372036854775808", "-2147483649", "-32769", "-129", "-1",
		"128", "255", "256", "300", "32768", "65536", "2147483648", "4294967296", "9223372036854775807", "9223372036854775808",
		"18446744073709551615", "18446744073709551616"}
	fracs      = []string{"-128.5", "-1.5", "-0.5", "0.5", "1.5", "2.5", "1.25", "2.0", "1.0", "0.0", "127.4", "127.5", "254.5", "255.5", "1.005", "1.255", "-0.001", "100000000.00", "99999999.999"}
	floats     = []string{"-1.5e0", "0e0", "1e0", "1.5e0", "2.5e0", "1.25e0", "1e2", "3e2", "1e10", "1e19", "1e20", "-1e20", "1e-1"}
	longStrs   = []string{"abcdefghi", "aaaaaaaaaa", "ab       x"}
	dateTimes  = []string{"2020-01-01 00:00:00", "2020-01-01 12:00:00", "2020-01-02 23:59:59", "2019-12-31 00:00:01", "2020-02-29 00:00:00.000001"}
	otherDates = []string{"2020-01-04", "2019-12-30", "2020-03-01", "0999-12-31", "2020-12-31"}
)

// genLit draws a literal to compare a column of kind k with. pool holds the literals stored
// in that column (may be empty). The class of the drawn literal is returned for statistics.
func genLit(rt *rapid.T, k kind, pool []lit, allowNull bool) (lit, string) {
	type choice struct {
		w   int
		cls string
	}
	choices := []choice{{5, "stored"}, {3, "near"}, {2, "domain"}, {1, "boundary"}, {2, "outofrange"}}
	if k.isNum() {
		choices = append(choices, choice{2, "fraction"}, choice{1, "float"})
	}
	if allowNull {
		choices = append(choices, choice{1, "null"})
	}
	tot := 0
	for _, c := range choices {
		tot += c.w
	}
	x := rapid.IntRange(0, tot-1).Draw(rt, "litclass")
	cls := ""
	for _, c := range choices {
		if x < c.w {
			cls = c.cls
			break
		}
		x -= c.w
	}
	pick := func(xs []string) string { return rapid.SampledFrom(xs).Draw(rt, "v") }
	if (cls == "stored" || cls == "near") && len(pool) == 0 {
		cls = "domain"
	}
	switch cls {
	case "null":
		return nullLit, cls
	case "stored":
		return rapid.SampledFrom(pool).Draw(rt, "p"), cls
	case "domain":
		return valueLit(k, pick(storedDomain[k])), cls
	}
	switch {
	case k.isNum():
		switch cls {
		case "near":
			p := rapid.SampledFrom(pool).Draw(rt, "p")
			var d *big.Rat
			switch rapid.IntRange(0, 3).Draw(rt, "d") {
			case 0:
				d = big.NewRat(1, 1)
			case 1:
				d = big.NewRat(-1, 1)
			case 2:
				d = big.NewRat(1, 100)
			default:
				d = big.NewRat(-1, 2)
			}
			if k.isInt() && !d.IsInt() && rapid.Bool().Draw(rt, "intnear") {
				d = big.NewRat(1, 1)
			}
			r := new(big.Rat).Add(p.r, d)
			if r.IsInt() {
				return lit{lk: lInt, s: r.Num().String(), r: r}, cls
			}
			return lit{lk: lDec, s: r.FloatString(2), r: r}, cls
		case "boundary":
			if k.isInt() {
				lo, hi := intRange(k)
				if rapid.Bool().Draw(rt, "hi") {
					return numLit(hi.String()), cls
				}
				return numLit(lo.String()), cls
			}
			return numLit(pick([]string{"99999999.99", "-99999999.99", "0", "0.00"})), cls
		case "outofrange":
			return numLit(pick(outOfRangeInts)), cls
		case "fraction":
			return numLit(pick(fracs)), cls
		case "float":
			return numLit(pick(floats)), cls
		}
	case k.isStr():
		switch cls {
		case "near":
			p := rapid.SampledFrom(pool).Draw(rt, "p").s
			switch rapid.IntRange(0, 3).Draw(rt, "d") {
			case 0:
				return strLit(p + "a"), cls
			case 1:
				if rs := []rune(p); len(rs) > 0 { // cut at a rune boundary: literals stay valid UTF-8
					return strLit(string(rs[:len(rs)-1])), cls
				}
				return strLit("a"), cls
			case 2:
				return strLit(flipCase(p)), cls
			default:
				return strLit(p + " "), cls
			}
		case "boundary":
			return strLit(pick([]string{"", "zzzzzzzz", "ÿ"})), cls
		case "outofrange":
			return strLit(pick(longStrs)), cls
		}
	case k == kDate:
		switch cls {
		case "near":
			return strLit(pick(otherDates)), cls
		case "boundary":
			return strLit(pick([]string{"1000-01-01", "9999-12-31", "0001-01-01"})), cls
		case "outofrange":
			// (strings that are not dates are not generated: comparing them with a DATE column
			// raises a per-row evaluation error, whose appearance legitimately depends on which
			// rows reach the filter)
			return strLit(pick(dateTimes)), "datetime"
		}
	}
	panic(fmt.Sprintf("genLit: unhandled class %s for kind %d", cls, k))
}

func flipCase(s string) string {
	b := []byte(s)
	for i, c := range b {
		switch {
		case c >= 'a' && c <= 'z':
			b[i] = c - 32
		case c >= 'A' && c <= 'Z':
			b[i] = c + 32
		}
	}
	return string(b)
}

// ---------------------------------------------------------------------------------------------
// table shape

type column struct {
	name    string
	k       kind
	notNull bool
}

type indexDef struct {
	name   string
	cols   []int // column positions
	prefix []int // prefix length per column (0 = none)
	unique bool
}

type shape struct {
	cols    []column
	pk      []int // column positions of the primary key (empty = none)
	indexes []indexDef
}

func (sh *shape) colDDL(withCollation bool) []string {
	var parts []string
	for _, c := range sh.cols {
		d := c.name + " " + kindDDL[c.k]
		if c.notNull {
			d += " NOT NULL"
		}
		parts = append(parts, d)
	}
	return parts
}

// DDL returns CREATE TABLE statements for the indexed table ti and the key-free twin tn.
func (sh *shape) DDL() (ti, tn string) {
	parts := sh.colDDL(true)
	tn = "CREATE TABLE tn (" + strings.Join(parts, ", ") + ")"
	if len(sh.pk) > 0 {
		parts = append(parts, "PRIMARY KEY ("+sh.colList(sh.pk, nil)+")")
	}
	for _, ix := range sh.indexes {
		kw := "KEY"
		if ix.unique {
			kw = "UNIQUE KEY"
		}
		parts = append(parts, fmt.Sprintf("%s %s (%s)", kw, ix.name, sh.colList(ix.cols, ix.prefix)))
	}
	ti = "CREATE TABLE ti (" + strings.Join(parts, ", ") + ")"
	return
}

func (sh *shape) colList(cols []int, prefix []int) string {
	var names []string
	for i, c := range cols {
		n := sh.cols[c].name
		if prefix != nil && prefix[i] > 0 {
			n += fmt.Sprintf("(%d)", prefix[i])
		}
		names = append(names, n)
	}
	return strings.Join(names, ", ")
}

// uniqueSets returns the column sets on which rows must be pairwise distinct.
func (sh *shape) uniqueSets() [][]int {
	var u [][]int
	if len(sh.pk) > 0 {
		u = append(u, sh.pk)
	}
	for _, ix := range sh.indexes {
		if ix.unique {
			u = append(u, ix.cols)
		}
	}
	return u
}

// indexedWeight returns, per column, how prominent it is in the index layout: 3 for a leading
// index column, 2 for a later index column, 0 if not indexed.
func (sh *shape) indexedWeight() []int {
	w := make([]int, len(sh.cols))
	mark := func(cols []int) {
		for i, c := range cols {
			v := 2
			if i == 0 {
				v = 3
			}
			if w[c] < v {
				w[c] = v
			}
		}
	}
	mark(sh.pk)
	for _, ix := range sh.indexes {
		mark(ix.cols)
	}
	return w
}

// hasSingleColIndex reports whether column c alone forms an index (primary or secondary).
func (sh *shape) hasSingleColIndex(c int) bool {
	if len(sh.pk) == 1 && sh.pk[0] == c {
		return true
	}
	for _, ix := range sh.indexes {
		if len(ix.cols) == 1 && ix.cols[0] == c {
			return true
		}
	}
	return false
}

var kindWeights = []kind{kTiny, kTiny, kUTiny, kInt, kInt, kBig, kUBig, kDec, kDec, kDbl, kStrBin, kStrBin, kStrCI, kStrGen, kDate, kDate}

func distinctCols(rt *rapid.T, n, k int, label string) []int {
	perm := rapid.Permutation(seq(n)).Draw(rt, label)
	return perm[:k]
}

func seq(n int) []int {
	s := make([]int, n)
	for i := range s {
		s[i] = i
	}
	return s
}

func genShape(rt *rapid.T) *shape {
	sh := &shape{}
	n := rapid.IntRange(1, 4).Draw(rt, "ncols")
	for i := 0; i < n; i++ {
		sh.cols = append(sh.cols, column{name: fmt.Sprintf("c%d", i), k: rapid.SampledFrom(kindWeights).Draw(rt, "kind")})
	}
	// primary key: none / single / composite
	switch pk := rapid.IntRange(0, 5).Draw(rt, "pk"); {
	case pk <= 1:
	case pk <= 3 || n == 1:
		sh.pk = distinctCols(rt, n, 1, "pkcols")
	default:
		sh.pk = distinctCols(rt, n, rapid.IntRange(2, min(n, 3)).Draw(rt, "pkn"), "pkcols")
	}
	for _, c := range sh.pk {
		sh.cols[c].notNull = true
	}
	for i := range sh.cols {
		if !sh.cols[i].notNull && rapid.IntRange(0, 5).Draw(rt, "notnull") == 0 {
			sh.cols[i].notNull = true
		}
	}
	lo := 0
	if len(sh.pk) == 0 {
		lo = 1
	}
	nidx := rapid.IntRange(lo, 3).Draw(rt, "nidx")
	names := rapid.Permutation([]string{"ka", "kb", "kc"}).Draw(rt, "idxnames")
	for i := 0; i < nidx; i++ {
		w := rapid.IntRange(1, min(n, 3)).Draw(rt, "idxwidth")
		if w > 1 && rapid.Bool().Draw(rt, "narrow") {
			w = 1
		}
		ix := indexDef{name: names[i], cols: distinctCols(rt, n, w, "idxcols")}
		ix.prefix = make([]int, w)
		hasPrefix := false
		for j, c := range ix.cols {
			if sh.cols[c].k.isStr() && rapid.IntRange(0, 2).Draw(rt, "prefix") == 0 {
				ix.prefix[j] = rapid.IntRange(1, 2).Draw(rt, "plen")
				hasPrefix = true
			}
		}
		if !hasPrefix && rapid.IntRange(0, 3).Draw(rt, "unique") == 0 {
			ix.unique = true
		}
		sh.indexes = append(sh.indexes, ix)
	}
	return sh
}

// ---------------------------------------------------------------------------------------------
// rows

type row []lit

// foldKey maps a value to a key under which all values that any collation in the pool (or
// numeric equality) could consider equal collide; used to keep unique keys distinct by
// construction (the enforcement of keys is property C14's subject, not this one's).
func foldKey(k kind, l lit) string {
	if l.lk == lNull {
		return "\x00N"
	}
	if k.isNum() {
		return l.r.RatString()
	}
	s := strings.ToLower(l.s)
	s = strings.ReplaceAll(s, "á", "a")
	s = strings.TrimRight(s, " ")
	return s
}

func genRows(rt *rapid.T, sh *shape, maxRows int) []row {
	n := rapid.IntRange(0, maxRows).Draw(rt, "nrows")
	usets := sh.uniqueSets()
	seen := make([]map[string]bool, len(usets))
	for i := range seen {
		seen[i] = map[string]bool{}
	}
	var rows []row
	for i := 0; i < n; i++ {
		r := make(row, len(sh.cols))
		for j, c := range sh.cols {
			if !c.notNull && rapid.IntRange(0, 4).Draw(rt, "null") == 0 {
				r[j] = nullLit
				continue
			}
			r[j] = valueLit(c.k, rapid.SampledFrom(storedDomain[c.k]).Draw(rt, "val"))
		}
		ok := true
		keys := make([]string, len(usets))
		for u, set := range usets {
			var parts []string
			hasNull := false
			for _, c := range set {
				if r[c].lk == lNull {
					hasNull = true
				}
				parts = append(parts, foldKey(sh.cols[c].k, r[c]))
			}
			keys[u] = strings.Join(parts, "\x1f")
			if !hasNull && seen[u][keys[u]] {
				ok = false
			}
			if hasNull {
				keys[u] = ""
			}
		}
		if !ok {
			continue // would violate a unique key: drop the row
		}
		for u := range usets {
			if keys[u] != "" {
				seen[u][keys[u]] = true
			}
		}
		rows = append(rows, r)
	}
	return rows
}

func insertSQL(table string, rows []row) string {
	var sb strings.Builder
	sb.WriteString("INSERT INTO " + table + " VALUES ")
	for i, r := range rows {
		if i > 0 {
			sb.WriteString(", ")
		}
		sb.WriteByte('(')
		for j, v := range r {
			if j > 0 {
				sb.WriteString(", ")
			}
			sb.WriteString(v.SQL())
		}
		sb.WriteByte(')')
	}
	return sb.String()
}

// pools returns, per column, the distinct non-NULL literals stored in it.
func pools(sh *shape, rows []row) [][]lit {
	out := make([][]lit, len(sh.cols))
	for c := range sh.cols {
		seen := map[string]bool{}
		for _, r := range rows {
			if r[c].lk == lNull || seen[r[c].s] {
				continue
			}
			seen[r[c].s] = true
			out[c] = append(out[c], r[c])
		}
	}
	return out
}

// ---------------------------------------------------------------------------------------------
// filters

type pred interface {
	SQL() string
}

type (
	pCmp struct {
		col     int
		name    string
		op      string
		v       lit
		swapped bool // literal on the left
	}
	pBetween struct {
		col    int
		name   string
		lo, hi lit
		not    bool
	}
	pIn struct {
		col  int
		name string
		vs   []lit
		not  bool
	}
	pIsNull struct {
		col  int
		name string
		not  bool
	}
	pLike struct {
		col  int
		name string
		pat  string
		not  bool
	}
	pAnd struct{ l, r pred }
	pOr  struct{ l, r pred }
	pNot struct{ p pred }
)

var swapOp = map[string]string{"=": "=", "<>": "<>", "<=>": "<=>", "<": ">", "<=": ">=", ">": "<", ">=": "<="}

func (p *pCmp) SQL() string {
	if p.swapped {
		return fmt.Sprintf("%s %s %s", p.v.SQL(), swapOp[p.op], p.name)
	}
	return fmt.Sprintf("%s %s %s", p.name, p.op, p.v.SQL())
}

func (p *pBetween) SQL() string {
	n := ""
	if p.not {
		n = "NOT "
	}
	return fmt.Sprintf("%s %sBETWEEN %s AND %s", p.name, n, p.lo.SQL(), p.hi.SQL())
}

func litList(vs []lit) string {
	parts := make([]string, len(vs))
	for i, v := range vs {
		parts[i] = v.SQL()
	}
	return "(" + strings.Join(parts, ", ") + ")"
}

func (p *pIn) SQL() string {
	n := ""
	if p.not {
		n = "NOT "
	}
	return fmt.Sprintf("%s %sIN %s", p.name, n, litList(p.vs))
}

func (p *pIsNull) SQL() string {
	if p.not {
		return p.name + " IS NOT NULL"
	}
	return p.name + " IS NULL"
}

func (p *pLike) SQL() string {
	n := ""
	if p.not {
		n = "NOT "
	}
	return fmt.Sprintf("%s %sLIKE %s", p.name, n, strLit(p.pat).SQL())
}

func (p *pAnd) SQL() string { return "(" + p.l.SQL() + " AND " + p.r.SQL() + ")" }
func (p *pOr) SQL() string  { return "(" + p.l.SQL() + " OR " + p.r.SQL() + ")" }
func (p *pNot) SQL() string { return "NOT (" + p.p.SQL() + ")" }

// walk visits every node of a filter tree.
func walk(p pred, f func(pred)) {
	f(p)
	switch x := p.(type) {
	case *pAnd:
		walk(x.l, f)
		walk(x.r, f)
	case *pOr:
		walk(x.l, f)
		walk(x.r, f)
	case *pNot:
		walk(x.p, f)
	}
}

type gctx struct {
	sh      *shape
	pools   [][]lit
	weights []int // per column draw weight
	st      func(label string)
}

func (g *gctx) pickCol(rt *rapid.T, want func(kind) bool) int {
	var cands []int
	for c, w := range g.weights {
		if want != nil && !want(g.sh.cols[c].k) {
			continue
		}
		for i := 0; i < w; i++ {
			cands = append(cands, c)
		}
	}
	if len(cands) == 0 {
		return -1
	}
	return rapid.SampledFrom(cands).Draw(rt, "col")
}

func (g *gctx) lit(rt *rapid.T, c int, allowNull bool) lit {
	l, cls := genLit(rt, g.sh.cols[c].k, g.pools[c], allowNull)
	g.st("lit:" + cls)
	return l
}

var cmpOps = []string{"=", "=", "<>", "<", "<=", ">", ">=", "<=>"}

func (g *gctx) leaf(rt *rapid.T) pred {
	c := g.pickCol(rt, nil)
	col := g.sh.cols[c]
	switch x := rapid.IntRange(0, 19).Draw(rt, "leaf"); {
	case x < 7:
		op := rapid.SampledFrom(cmpOps).Draw(rt, "op")
		return &pCmp{col: c, name: col.name, op: op, v: g.lit(rt, c, op == "<=>" || op == "="), swapped: rapid.IntRange(0, 4).Draw(rt, "swap") == 0}
	case x < 10:
		return &pBetween{col: c, name: col.name, lo: g.lit(rt, c, false), hi: g.lit(rt, c, false), not: rapid.IntRange(0, 3).Draw(rt, "not") == 0}
	case x < 14:
		n := rapid.IntRange(1, 4).Draw(rt, "nin")
		p := &pIn{col: c, name: col.name, not: rapid.IntRange(0, 2).Draw(rt, "not") == 0}
		for i := 0; i < n; i++ {
			p.vs = append(p.vs, g.lit(rt, c, true))
		}
		return p
	case x < 16:
		return &pIsNull{col: c, name: col.name, not: rapid.Bool().Draw(rt, "not")}
	case x < 18:
		sc := g.pickCol(rt, kind.isStr)
		if sc < 0 {
			return &pIsNull{col: c, name: col.name, not: rapid.Bool().Draw(rt, "not")}
		}
		base := g.lit(rt, sc, false).s
		if len(base) > 0 {
			// cut at a rune boundary
			rs := []rune(base)
			base = string(rs[:rapid.IntRange(0, len(rs)).Draw(rt, "cut")])
		}
		pat := base + "%"
		switch rapid.IntRange(0, 7).Draw(rt, "patkind") {
		case 0:
			pat = base // no wildcard
		case 1:
			pat = base + "_"
		}
		return &pLike{col: sc, name: g.sh.cols[sc].name, pat: pat, not: rapid.IntRange(0, 4).Draw(rt, "not") == 0}
	default:
		// a second comparison of the same column, joined by AND / OR: closed, open and disjoint
		// ranges over one index column
		op1 := rapid.SampledFrom([]string{"<", "<=", ">", ">=", "=", "<>"}).Draw(rt, "op1")
		op2 := rapid.SampledFrom([]string{"<", "<=", ">", ">=", "=", "<>"}).Draw(rt, "op2")
		a := &pCmp{col: c, name: col.name, op: op1, v: g.lit(rt, c, false)}
		b := &pCmp{col: c, name: col.name, op: op2, v: g.lit(rt, c, false)}
		if rapid.Bool().Draw(rt, "and") {
			return &pAnd{a, b}
		}
		return &pOr{a, b}
	}
}

func (g *gctx) tree(rt *rapid.T, depth int) pred {
	if depth <= 0 || rapid.IntRange(0, 9).Draw(rt, "node") < 4 {
		return g.leaf(rt)
	}
	switch rapid.IntRange(0, 6).Draw(rt, "conn") {
	case 0, 1, 2:
		return &pAnd{g.tree(rt, depth-1), g.tree(rt, depth-1)}
	case 3, 4, 5:
		return &pOr{g.tree(rt, depth-1), g.tree(rt, depth-1)}
	default:
		return &pNot{g.tree(rt, depth-1)}
	}
}
