package c03

import (
	"math/big"
	"strings"

	"github.com/dolthub/go-mysql-server/sql/types"
	"github.com/dolthub/go-mysql-server/vh/internal/fx"
	"github.com/dolthub/go-mysql-server/vh/internal/kf"
	"github.com/dolthub/go-mysql-server/vh/internal/stats"
)

// Known findings of C03 (proposed ids; analysis, witnesses and fix proposals in
// /verif/notes/C03.md). Every finding has
//
//   - sig:     a narrow signature predicate over the generated case (table facts + filter);
//   - outcome: the shape the violation must have (which side failed / returned more);
//   - steer:   a rewrite of a filter inside the region into the closest filter outside it,
//     applied only while the id is listed in known_findings.json, so that the search continues
//     behind the finding (counted as excluded_known);
//   - witness: a minimal script that TestC03Known re-confirms.
//
// A violation is suppressed only if sig and outcome hold *and* the id is listed (kf.Suppress).

// tinfo is what signatures may look at besides the filter.
type tinfo struct {
	sh      *shape
	pools   [][]lit // distinct non-NULL literals stored per column
	hasNull []bool  // column stores at least one NULL
	total   int     // number of rows
}

type outcome struct {
	ri, rn *fx.Result // through index (ti), full scan (tn)
	total  int
}

func (o outcome) bothOK() bool { return o.ri.OK() && o.rn.OK() }

type finding struct {
	id      string
	sig     func(t *tinfo, p pred) bool
	outcome func(o outcome) bool
	steer   func(t *tinfo, p pred)
	witness witness
}

type witness struct {
	setup []string
	where string // filter run as SELECT * FROM ti/tn WHERE ...
}

// ---------------------------------------------------------------------------------------------
// helpers over filter trees

// forEachColLit calls f for every (column, literal) comparison in the filter tree and stores
// the literal f returns.
func forEachColLit(p pred, f func(col int, l lit) lit) {
	walk(p, func(n pred) {
		switch x := n.(type) {
		case *pCmp:
			x.v = f(x.col, x.v)
		case *pBetween:
			x.lo, x.hi = f(x.col, x.lo), f(x.col, x.hi)
		case *pIn:
			for i := range x.vs {
				x.vs[i] = f(x.col, x.vs[i])
			}
		}
	})
}

// anyLit reports whether some (column, literal) comparison of the filter satisfies want.
func anyLit(p pred, want func(col int, l lit) bool) bool {
	hit := false
	forEachColLit(p, func(col int, l lit) lit {
		hit = hit || want(col, l)
		return l
	})
	return hit
}

// ---------------------------------------------------------------------------------------------
// C03-in-all-out-of-range

// rootIn returns the filter as a plain positive IN over an integer column that alone forms
// an index, or nil (the IN fast path of buildRangeCollection is taken only when the whole
// filter is one IN leaf and the chosen index has a single column).
func rootIn(sh *shape, p pred) *pIn {
	neg := false
	for { // NOT (x NOT IN ..) and NOT (NOT (x IN ..)) are simplified to x IN .. by the engine
		n, ok := p.(*pNot)
		if !ok {
			break
		}
		neg, p = !neg, n.p
	}
	in, ok := p.(*pIn)
	if !ok || in.not != neg || !sh.cols[in.col].k.isInt() || !sh.hasSingleColIndex(in.col) {
		return nil
	}
	for _, v := range in.vs {
		if v.lk == lNull {
			return nil // a NULL element leaves the fast path
		}
	}
	return in
}

func sigInAllDropped(t *tinfo, p pred) bool {
	in := rootIn(t.sh, p)
	if in == nil {
		return false
	}
	for _, v := range in.vs {
		// the fast path keeps an element that is an integer value of the column's type; a
		// floating point literal is tested with float64(int(v)) == v first, which also drops
		// floats beyond the int64 range (1e19 for a BIGINT UNSIGNED column)
		if v.inIntRange(t.sh.cols[in.col].k) && !(v.lk == lFlt && !v.inIntRange(kBig)) {
			return false
		}
	}
	return true
}

// ---------------------------------------------------------------------------------------------
// C03-in-mixed-literal-types

// mixedLists calls f for every IN list over an integer column that starts with an integer
// literal and contains a later non-integral literal.
func mixedLists(sh *shape, p pred, f func(in *pIn)) {
	walk(p, func(n pred) {
		in, ok := n.(*pIn)
		if !ok || !sh.cols[in.col].k.isInt() || in.vs[0].lk != lInt {
			return
		}
		for _, v := range in.vs[1:] {
			if v.r != nil && !v.integral() {
				f(in)
				return
			}
		}
	})
}

// exactFirst reports whether an IN list over a 64-bit integer column of kind k that starts
// with literal first is compared in a type that represents all 64-bit values exactly.
func exactFirst(k kind, first lit) bool {
	switch first.typ() {
	case "decimal":
		return true
	case "int64":
		return k == kBig
	case "uint64":
		return k == kUBig
	}
	return false // NULL, float, integer of the other signedness: compared as float64
}

// floatLists calls f for every IN list over a 64-bit integer column that is compared as
// float64 (see exactFirst) and contains a literal above 2^53 in magnitude, while the column
// stores such a value.
func floatLists(t *tinfo, p pred, f func(k kind, in *pIn)) {
	walk(p, func(n pred) {
		in, ok := n.(*pIn)
		if !ok {
			return
		}
		k := t.sh.cols[in.col].k
		if (k != kUBig && k != kBig) || exactFirst(k, in.vs[0]) || !storesBig(t.pools[in.col]) {
			return
		}
		for _, v := range in.vs {
			if bigMagnitude(v) {
				f(k, in)
				return
			}
		}
	})
}

// ---------------------------------------------------------------------------------------------
// C03-decimal-out-of-range-literal-error

var decLimit = new(big.Rat).SetFrac64(9999999999500, 100000) // 99999999.995

// decOutOfRange reports whether a numeric literal cannot be represented in DECIMAL(10,2).
func decOutOfRange(l lit) bool {
	return l.r != nil && new(big.Rat).Abs(l.r).Cmp(decLimit) >= 0
}

func isDecOutOfRange(t *tinfo) func(col int, l lit) bool {
	w := t.sh.indexedWeight()
	return func(col int, l lit) bool { return t.sh.cols[col].k == kDec && w[col] > 0 && decOutOfRange(l) }
}

// ---------------------------------------------------------------------------------------------
// C03-noteq-fraction-on-decimal-or-double

// negatedFracLits calls f for every non-integral numeric literal that is compared for
// (in)equality with a DECIMAL or DOUBLE column inside a negation: `col <> v`, `col NOT IN
// (.., v, ..)`, or `=` / IN / <> / NOT IN anywhere below a NOT.
func negatedFracLits(sh *shape, p pred, f func(l *lit)) {
	var rec func(n pred, underNot bool)
	visit := func(col int, l *lit) {
		k := sh.cols[col].k
		if (k == kDec || k == kDbl) && l.r != nil && !l.r.IsInt() {
			f(l)
		}
	}
	rec = func(n pred, underNot bool) {
		switch x := n.(type) {
		case *pAnd:
			rec(x.l, underNot)
			rec(x.r, underNot)
		case *pOr:
			rec(x.l, underNot)
			rec(x.r, underNot)
		case *pNot:
			rec(x.p, true)
		case *pCmp:
			if x.op == "<>" || (underNot && x.op == "=") {
				visit(x.col, &x.v)
			}
		case *pIn:
			if x.not || underNot {
				for i := range x.vs {
					visit(x.col, &x.vs[i])
				}
			}
		}
	}
	rec(p, false)
}

// ---------------------------------------------------------------------------------------------
// C03-int64-uint64-compared-as-float

var (
	two53 = new(big.Rat).SetInt(new(big.Int).Lsh(big.NewInt(1), 53))
)

func bigMagnitude(l lit) bool { return l.r != nil && new(big.Rat).Abs(l.r).Cmp(two53) > 0 }

func storesBig(pool []lit) bool {
	for _, v := range pool {
		if bigMagnitude(v) {
			return true
		}
	}
	return false
}

// mixedSignLits calls f for every integer literal above 2^53 in magnitude that a plain
// comparison (=, <>, <, .., BETWEEN; IN lists are covered by floatLists)
// relates to a 64-bit integer column of the other signedness (BIGINT UNSIGNED with a literal
// that fits int64; BIGINT with a literal above the int64 range) while the column stores a
// value above 2^53 in magnitude.
func mixedSignLits(t *tinfo, p pred, f func(k kind, l *lit)) {
	visit := func(col int, l *lit) {
		k := t.sh.cols[col].k
		if (k != kUBig && k != kBig) || !bigMagnitude(*l) || !storesBig(t.pools[col]) {
			return
		}
		if ty := l.typ(); (k == kUBig && ty == "int64") || (k == kBig && ty == "uint64") {
			f(k, l)
		}
	}
	walk(p, func(n pred) {
		switch x := n.(type) {
		case *pCmp:
			visit(x.col, &x.v)
		case *pBetween:
			visit(x.col, &x.lo)
			visit(x.col, &x.hi)
		}
	})
}

// ---------------------------------------------------------------------------------------------
// C03-date-range-truncates-datetime-literal

// hasTimePart reports whether a string literal is a datetime with a non-zero time of day.
func hasTimePart(l lit) bool {
	if l.lk != lStr || len(l.s) <= 10 {
		return false
	}
	return strings.Trim(l.s[10:], " 0:.") != ""
}

func isDateTimeOnDate(t *tinfo) func(col int, l lit) bool {
	w := t.sh.indexedWeight()
	return func(col int, l lit) bool { return t.sh.cols[col].k == kDate && w[col] > 0 && hasTimePart(l) }
}

// ---------------------------------------------------------------------------------------------
// C03-ci-collation-ignored-in-filter

func ciKind(k kind) bool { return k == kStrCI || k == kStrGen }

// ciClash reports whether literal l, compared with a ci column whose stored values are pool,
// is equal to some stored value under a case/accent/trailing-space insensitive comparison
// without being byte-equal to it.
func ciClash(pool []lit, l lit) bool {
	if l.lk != lStr {
		return false
	}
	for _, v := range pool {
		if v.s != l.s && foldKey(kStrCI, v) == foldKey(kStrCI, l) {
			return true
		}
	}
	return false
}

// ciNodes calls f for every string literal that an IN list (inList) or a <=> comparison
// (!inList) relates to a column with a case-insensitive collation.
func ciNodes(sh *shape, p pred, inList bool, f func(col int, l *lit)) {
	walk(p, func(n pred) {
		switch x := n.(type) {
		case *pCmp:
			if !inList && x.op == "<=>" && ciKind(sh.cols[x.col].k) && x.v.lk == lStr {
				f(x.col, &x.v)
			}
		case *pIn:
			if inList && ciKind(sh.cols[x.col].k) {
				for i := range x.vs {
					if x.vs[i].lk == lStr {
						f(x.col, &x.vs[i])
					}
				}
			}
		}
	})
}

// ciFinding builds the two findings about filters that ignore the column collation.
func ciFinding(id string, inList bool, where string) finding {
	return finding{
		id: id,
		sig: func(t *tinfo, p pred) bool {
			hit := false
			ciNodes(t.sh, p, inList, func(col int, l *lit) { hit = hit || ciClash(t.pools[col], *l) })
			return hit
		},
		outcome: outcome.bothOK,
		steer: func(t *tinfo, p pred) {
			ciNodes(t.sh, p, inList, func(col int, l *lit) {
				if ciClash(t.pools[col], *l) {
					*l = strLit("zq") // equal to no stored value under any collation
				}
			})
		},
		witness: witness{
			setup: []string{"CREATE TABLE ti (s VARCHAR(8) COLLATE utf8mb4_0900_ai_ci, KEY ks (s))", "CREATE TABLE tn (s VARCHAR(8) COLLATE utf8mb4_0900_ai_ci)",
				"INSERT INTO ti VALUES ('A'), ('b')", "INSERT INTO tn VALUES ('A'), ('b')"},
			where: where,
		},
	}
}

// ---------------------------------------------------------------------------------------------
// the registry

const (
	kfInAllDropped  = "C03-in-all-out-of-range"
	kfNotEqFraction = "C03-noteq-fraction-on-decimal-or-double"
	kfDecOutOfRange = "C03-decimal-out-of-range-literal-error"
	kfDateTrunc     = "C03-date-range-truncates-datetime-literal"
	kfInFraction    = "C03-hashin-rounds-fraction"
	kfBigAsFloat    = "C03-bigint-compared-as-float"
	kfCIIn          = "C03-in-list-ignores-ci-collation"
	kfCINullSafeEq  = "C03-nullsafe-equals-ignores-ci-collation"
)

var findings = []finding{
	// ------------------------------------------------------------ index side (range construction)
	{
		// The whole WHERE clause is `col IN (list)` over an integer column that alone forms an
		// index and every list element is dropped by the IN fast path (out of the column type's
		// range or not integral): the lookup is built with zero ranges -> nil pointer panic
		// (secondary index) or every row of the table returned (primary key).
		id:  kfInAllDropped,
		sig: sigInAllDropped,
		outcome: func(o outcome) bool {
			return o.rn.OK() && len(o.rn.Rows) == 0 && (o.ri.Panic != nil || (o.ri.OK() && len(o.ri.Rows) == o.total))
		},
		steer: func(t *tinfo, p pred) {
			in := rootIn(t.sh, p)
			lo, _ := intRange(t.sh.cols[in.col].k)
			in.vs = append(in.vs, numLit(lo.String()))
		},
		witness: witness{
			setup: []string{"CREATE TABLE ti (b TINYINT, KEY kb (b))", "CREATE TABLE tn (b TINYINT)",
				"INSERT INTO ti VALUES (2), (0)", "INSERT INTO tn VALUES (2), (0)"},
			where: "b IN (-129, 300, -129)",
		},
	},
	{
		// `col <> v` (also NOT (col = v), NOT IN) with a non-integral literal v over an indexed
		// DECIMAL or DOUBLE column: MySQLIndexBuilder.NotEquals applies its "a fractional key can
		// never equal an integer column" shortcut without checking that the column is an integer
		// column, builds the range "everything but NULL", and the row holding v is returned (for
		// DECIMAL(10,2) also the row holding v rounded to two digits, e.g. 1.51 for `d <> 1.505`,
		// which the filter - comparing at the column's scale - excludes).
		id: kfNotEqFraction,
		sig: func(t *tinfo, p pred) bool {
			hit := false
			negatedFracLits(t.sh, p, func(*lit) { hit = true })
			return hit
		},
		outcome: outcome.bothOK,
		steer: func(t *tinfo, p pred) {
			negatedFracLits(t.sh, p, func(l *lit) {
				n := new(big.Int).Quo(l.r.Num(), l.r.Denom()) // truncate to an integer
				*l = numLit(n.String())
			})
		},
		witness: witness{
			setup: []string{"CREATE TABLE ti (d DECIMAL(10,2), KEY kd (d))", "CREATE TABLE tn (d DECIMAL(10,2))",
				"INSERT INTO ti VALUES (1.50), (2.00)", "INSERT INTO tn VALUES (1.50), (2.00)"},
			where: "d <> 1.5",
		},
	},
	{
		// A numeric literal outside the range of an indexed DECIMAL(10,2) column (|v| >= 10^8
		// after rounding to the column scale) anywhere in the filter: building the index range
		// converts the literal to the column type, DecimalType.BoundsCheck reports the overflow as
		// an error instead of Overflow/Underflow, and the whole query fails; the scan answers.
		id:  kfDecOutOfRange,
		sig: func(t *tinfo, p pred) bool { return anyLit(p, isDecOutOfRange(t)) },
		outcome: func(o outcome) bool {
			return o.rn.OK() && o.ri.Failed() && types.ErrConvertToDecimalLimit.Is(o.ri.Err)
		},
		steer: func(t *tinfo, p pred) {
			in := isDecOutOfRange(t)
			forEachColLit(p, func(col int, l lit) lit {
				if !in(col, l) {
					return l
				}
				if l.r.Sign() < 0 {
					return numLit("-99999999.99")
				}
				return numLit("99999999.99")
			})
		},
		witness: witness{
			setup: []string{"CREATE TABLE ti (d DECIMAL(10,2), KEY kd (d))", "CREATE TABLE tn (d DECIMAL(10,2))",
				"INSERT INTO ti VALUES (1.50), (2.00)", "INSERT INTO tn VALUES (1.50), (2.00)"},
			where: "d < 100000000",
		},
	},
	{
		// An indexed DATE column compared with a datetime literal that has a non-zero time of
		// day: the index range is built from the literal truncated to a date, so
		// `d < '2020-01-02 12:00:00'` and `d <> '2020-01-02 12:00:00'` lose the row of 2020-01-02
		// (the retained filter can only remove rows, not add the missing one).
		id:      kfDateTrunc,
		sig:     func(t *tinfo, p pred) bool { return anyLit(p, isDateTimeOnDate(t)) },
		outcome: outcome.bothOK,
		steer: func(t *tinfo, p pred) {
			in := isDateTimeOnDate(t)
			forEachColLit(p, func(col int, l lit) lit {
				if in(col, l) {
					return strLit(l.s[:10] + " 00:00:00")
				}
				return l
			})
		},
		witness: witness{
			setup: []string{"CREATE TABLE ti (d DATE, KEY kd (d))", "CREATE TABLE tn (d DATE)",
				"INSERT INTO ti VALUES ('2020-01-01'), ('2020-01-02'), ('2020-01-03')", "INSERT INTO tn VALUES ('2020-01-01'), ('2020-01-02'), ('2020-01-03')"},
			where: "d < '2020-01-02 12:00:00'",
		},
	},
	// ------------------------------------------- scan side (the same predicate evaluated as a filter)
	{
		// HashInTuple (a constant IN list evaluated as a filter) converts every list element to
		// ONE compare type derived from the column and the *first* element only. Integer column,
		// list starts with an integer literal and contains a later non-integral literal: that
		// literal is rounded to an integer (1.5 -> 2, -2.5 -> -3) and matches; the index ranges
		// treat it exactly (it matches nothing). (DESIGN.md F14; same cause as C07's
		// hashin-first-element-type.)
		id: kfInFraction,
		sig: func(t *tinfo, p pred) bool {
			hit := false
			mixedLists(t.sh, p, func(*pIn) { hit = true })
			return hit
		},
		outcome: outcome.bothOK,
		steer: func(t *tinfo, p pred) {
			mixedLists(t.sh, p, func(in *pIn) {
				// a non-integral exact decimal as first element makes the compare type exact
				for i, v := range in.vs {
					if v.lk == lDec && !v.integral() {
						in.vs[0], in.vs[i] = in.vs[i], in.vs[0]
						return
					}
				}
				for i, v := range in.vs { // only floating point fractions: write them as decimals
					if v.r != nil && !v.integral() {
						in.vs[i] = numLit(v.r.FloatString(3))
					}
				}
				for i, v := range in.vs {
					if v.lk == lDec && !v.integral() {
						in.vs[0], in.vs[i] = in.vs[i], in.vs[0]
						return
					}
				}
			})
		},
		witness: witness{
			setup: []string{"CREATE TABLE ti (b TINYINT, KEY kb (b))", "CREATE TABLE tn (b TINYINT)",
				"INSERT INTO ti VALUES (2), (0), (7)", "INSERT INTO tn VALUES (2), (0), (7)"},
			where: "b IN (300, 1.5, 0)",
		},
	},
	{
		// A 64-bit integer column that stores a value above 2^53 in magnitude, compared with an
		// integer literal above 2^53 of the other signedness (BIGINT UNSIGNED vs. a literal that
		// fits int64, BIGINT vs. a literal above 2^63-1), or by an IN list whose first element is
		// NULL, a float or an integer of the other signedness: the filter (scan side) compares as
		// float64, so 9223372036854775808 = 9223372036854775806 is TRUE and
		// 9223372036854775808 > 9223372036854775807 is FALSE; the index range compares exactly in
		// the column type.
		id: kfBigAsFloat,
		sig: func(t *tinfo, p pred) bool {
			hit := false
			mixedSignLits(t, p, func(kind, *lit) { hit = true })
			floatLists(t, p, func(kind, *pIn) { hit = true })
			return hit
		},
		outcome: outcome.bothOK,
		steer: func(t *tinfo, p pred) {
			mixedSignLits(t, p, func(k kind, l *lit) {
				if k == kUBig {
					*l = numLit("9223372036854775808") // an unsigned literal: compared exactly
				} else {
					*l = numLit("9223372036854775807")
				}
			})
			floatLists(t, p, func(k kind, in *pIn) {
				// lead with a literal of the column's own type
				for i, v := range in.vs {
					if exactFirst(k, v) && v.integral() {
						in.vs[0], in.vs[i] = in.vs[i], in.vs[0]
						return
					}
				}
				_, hi := intRange(k)
				in.vs = append([]lit{numLit(hi.String())}, in.vs...)
			})
		},
		witness: witness{
			setup: []string{"CREATE TABLE ti (u BIGINT UNSIGNED, KEY ku (u))", "CREATE TABLE tn (u BIGINT UNSIGNED)",
				"INSERT INTO ti VALUES (9223372036854775808), (1)", "INSERT INTO tn VALUES (9223372036854775808), (1)"},
			where: "u = 9223372036854775806",
		},
	},
	// IN / NOT IN lists over a VARCHAR column with a case-insensitive collation: evaluated as a
	// filter (scan side) HashInTuple hashes the strings under the default binary collation,
	// ignoring the column collation that =, <, BETWEEN and LIKE honour; the index ranges honour it.
	// The two paths disagree whenever a stored value and a literal are equal under the collation but
	// not byte-equal. (Same cause as C29-in-binary / C07-in-collation.)
	ciFinding(kfCIIn, true, "s IN ('a')"),
	// The same for the <=> operator: NullSafeEquals.Compare lacks the collation step of
	// comparison.Compare.
	ciFinding(kfCINullSafeEq, false, "s <=> 'a'"),
}

// steerAround rewrites a filter that lies in the region of a *listed* known finding into the
// closest filter outside it and counts the exclusion.
func steerAround(st *stats.Collector, t *tinfo, p pred) {
	counted := map[string]bool{}
	for pass := 0; pass < 4; pass++ { // a rewrite may move the filter into another region: iterate
		changed := false
		for i := range findings {
			f := &findings[i]
			if kf.Listed(f.id) && f.sig(t, p) {
				if !counted[f.id] {
					counted[f.id] = true
					st.Excluded(f.id)
				}
				f.steer(t, p)
				changed = true
			}
		}
		if !changed {
			return
		}
	}
}

// suppressed reports whether an observed violation matches a listed known finding.
func suppressed(st *stats.Collector, t *tinfo, p pred, o outcome) bool {
	for i := range findings {
		f := &findings[i]
		if f.sig(t, p) && f.outcome(o) && kf.Suppress(st, f.id) {
			return true
		}
	}
	return false
}
