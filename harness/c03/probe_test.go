package c03

import (
	"fmt"
	"os"
	"strings"
	"testing"

	"github.com/dolthub/go-mysql-server/vh/internal/fx"
)

// TestProbe runs the statements of $PROBE_SQL (file, one statement per line; lines starting
// with "plan " print the analysed plan) on a fresh fixture and prints the outcomes.
func TestProbe(t *testing.T) {
	p := os.Getenv("PROBE_SQL")
	if p == "" {
		t.Skip()
	}
	b, err := os.ReadFile(p)
	if err != nil {
		t.Fatal(err)
	}
	f := fx.New(fx.Opts{Stats: os.Getenv("PROBE_STATS") != ""})
	defer f.Close()
	s := f.NewSession("", "", "")
	if os.Getenv("PROBE_DEBUG") != "" {
		f.Engine.Analyzer.Debug = true
		f.Engine.Analyzer.Verbose = true
	}
	for _, line := range strings.Split(string(b), "\n") {
		line = strings.TrimSpace(line)
		if line == "" || strings.HasPrefix(line, "#") {
			continue
		}
		if strings.HasPrefix(line, "plan ") {
			fmt.Printf("PLAN %s\n%s\n", line[5:], s.Plan(line[5:]))
			continue
		}
		r := s.Exec(line)
		fmt.Printf("%s\n   -> %s\n", line, r)
		if r.Panic != nil {
			fmt.Println(r.Stack)
			f = fx.New(fx.Opts{})
			s = f.NewSession("", "", "")
		}
	}
}
