// Package c16 checks property C16: after any history of inserts, updates, deletes,
// replaces, truncations and index creations or drops, every lookup through any index
// returns exactly the current rows that satisfy the lookup.
//
// A rapid state machine drives one table t (PRIMARY KEY or keyless, 1-3 secondary
// indexes drawn from a pool of single, multi-column, unique and prefix indexes) and an
// index-free twin tn that receives the same row changes. After every step every index is
// probed (static range lookups, lookup joins, index-order scans) on t and the same
// predicate is evaluated by a plain filter over tn; the two results must be equal.
package c16

import (
	"fmt"
	"os"
	"regexp"
	"sort"
	"strings"
	"testing"

	"github.com/dolthub/go-mysql-server/vh/internal/fx"
	"github.com/dolthub/go-mysql-server/vh/internal/kf"
	"github.com/dolthub/go-mysql-server/vh/internal/stats"
	"pgregory.net/rapid"
)

type idxDef struct {
	name   string
	unique bool
	cols   []string
	prefix []int // 0 = whole column
}

func (d idxDef) colList() string {
	parts := make([]string, len(d.cols))
	for i, c := range d.cols {
		parts[i] = c
		if d.prefix[i] > 0 {
			parts[i] = fmt.Sprintf("%s(%d)", c, d.prefix[i])
		}
	}
	return strings.Join(parts, ",")
}

func (d idxDef) ddl() string {
	u := ""
	if d.unique {
		u = "UNIQUE "
	}
	return fmt.Sprintf("%sKEY %s (%s)", u, d.name, d.colList())
}

// the pool of secondary indexes; column c is never indexed
var pool = []idxDef{
	{"ka", false, []string{"a"}, []int{0}},
	{"kb", false, []string{"b"}, []int{0}},
	{"ub", true, []string{"b"}, []int{0}},
	{"kab", false, []string{"a", "b"}, []int{0, 0}},
	{"uab", true, []string{"a", "b"}, []int{0, 0}},
	{"kba", false, []string{"b", "a"}, []int{0, 0}},
	{"ks", false, []string{"s"}, []int{0}},
	{"ks1", false, []string{"s"}, []int{1}},
	{"ks2", false, []string{"s"}, []int{2}},
	{"us", true, []string{"s"}, []int{0}},
	{"ksa", false, []string{"s", "a"}, []int{0, 0}},
	{"kas2", false, []string{"a", "s"}, []int{0, 2}},
}

var intDom = []string{"-1", "0", "1", "2", "3"}
var strDom = []string{"", "a", "A", "ab", "aB", "abc", "abd", "b", "á", "áb"}

func isStrCol(c string) bool { return c == "s" }

func quote(s string) string { return "'" + strings.ReplaceAll(s, "'", "''") + "'" }

// lit converts a normalised value (fx.Norm) back to a SQL literal.
func lit(n string) string {
	switch {
	case n == "N":
		return "NULL"
	case strings.HasPrefix(n, "n:"):
		return n[2:]
	case strings.HasPrefix(n, "s:"):
		return quote(n[2:])
	}
	panic("unexpected normalised value " + n)
}

var colNames = []string{"id", "a", "b", "s", "c"}

func colIdx(c string) int {
	for i, n := range colNames {
		if n == c {
			return i
		}
	}
	panic(c)
}

type machine struct {
	st    *stats.Collector
	f     *fx.Fixture
	s     *fx.Sess
	keyed bool
	idx   map[string]idxDef
	hist  []string

	// non-triviality bookkeeping
	delNonLast   bool // a delete removed a row that was not the last one (in id order) while >= 2 secondary indexes existed
	insertAfter  bool // ... and an insert followed
	idxHitRows   bool // an index-driven probe returned >= 1 row after that
	shape        []string
	idxProbes    int
	probeNo      int
	nonIdxProbes int
}

func (m *machine) exec(rt *rapid.T, q string) *fx.Result {
	r := m.s.Exec(q)
	m.hist = append(m.hist, q+"   -- "+short(r))
	if r.Panic != nil || r.TimedOut {
		rt.Fatalf("statement crashed: %s\n -> %s\n%s\nhistory:\n%s", q, r, r.Stack, m.history())
	}
	return r
}

func short(r *fx.Result) string {
	s := r.String()
	if len(s) > 160 {
		s = s[:160] + "..."
	}
	return s
}

func (m *machine) history() string { return "  " + strings.Join(m.hist, "\n  ") }

// rows returns the current rows (from the twin), normalised and sorted.
func (m *machine) rows(rt *rapid.T) [][]string {
	r := m.exec(rt, "SELECT id,a,b,s,c FROM tn")
	if !r.OK() {
		rt.Fatalf("harness: cannot read twin: %s", r)
	}
	rows := fx.NormRows(r.Schema, r.Rows)
	sort.Slice(rows, func(i, j int) bool { return rowLess(rows[i], rows[j]) })
	return rows
}

func rowLess(a, b []string) bool {
	// by numeric id first, then textual
	ia, ib := atoi(a[0]), atoi(b[0])
	if ia != ib {
		return ia < ib
	}
	return strings.Join(a, "\x1f") < strings.Join(b, "\x1f")
}

func atoi(n string) int {
	v := 0
	fmt.Sscanf(strings.TrimPrefix(n, "n:"), "%d", &v)
	return v
}

func (m *machine) secondaryCount() int { return len(m.idx) }

func (m *machine) sortedIdx() []idxDef {
	var out []idxDef
	for _, d := range pool {
		if _, ok := m.idx[d.name]; ok {
			out = append(out, d)
		}
	}
	return out
}

// ---- value generators ------------------------------------------------------------------

// drawVal draws a literal for column col, preferring values stored in the table (and
// their neighbours) so that lookups hit.
func drawVal(rt *rapid.T, rows [][]string, col string, allowNull bool, label string) string {
	ci := colIdx(col)
	mode := rapid.IntRange(0, 9).Draw(rt, label+"-mode")
	if allowNull && mode == 0 {
		return "NULL"
	}
	if len(rows) > 0 && mode <= 6 {
		v := rows[rapid.IntRange(0, len(rows)-1).Draw(rt, label+"-row")][ci]
		if v != "N" {
			if !isStrCol(col) && mode == 6 {
				return fmt.Sprint(atoi(v) + rapid.SampledFrom([]int{-1, 1}).Draw(rt, label+"-d"))
			}
			return lit(v)
		}
	}
	if isStrCol(col) {
		return quote(rapid.SampledFrom(strDom).Draw(rt, label))
	}
	if col == "id" {
		return fmt.Sprint(rapid.IntRange(0, 11).Draw(rt, label))
	}
	if col == "c" {
		return fmt.Sprint(rapid.IntRange(0, 3).Draw(rt, label))
	}
	return rapid.SampledFrom(intDom).Draw(rt, label)
}

func (m *machine) drawRow(rt *rapid.T, rows [][]string, label string) []string {
	used := map[int]bool{}
	for _, r := range rows {
		used[atoi(r[0])] = true
	}
	var id int
	if rapid.IntRange(0, 9).Draw(rt, label+"-idmode") < 8 {
		var free []int
		for i := 0; i <= 11; i++ {
			if !used[i] {
				free = append(free, i)
			}
		}
		if len(free) > 0 {
			id = rapid.SampledFrom(free).Draw(rt, label+"-id")
		} else {
			id = rapid.IntRange(0, 11).Draw(rt, label+"-id")
		}
	} else {
		id = rapid.IntRange(0, 11).Draw(rt, label+"-id")
	}
	dom := func(d []string, str bool, l string) string {
		if rapid.IntRange(0, 4).Draw(rt, l+"-null") == 0 {
			return "NULL"
		}
		v := rapid.SampledFrom(d).Draw(rt, l)
		if str {
			return quote(v)
		}
		return v
	}
	return []string{
		fmt.Sprint(id),
		dom(intDom, false, label+"-a"),
		dom(intDom, false, label+"-b"),
		dom(strDom, true, label+"-s"),
		fmt.Sprint(rapid.IntRange(0, 3).Draw(rt, label+"-c")),
	}
}

// wherePred draws a deterministic row predicate for UPDATE / DELETE (rendered without a
// table qualifier so that it applies to t and tn alike).
func wherePred(rt *rapid.T, rows [][]string, label string) string {
	switch rapid.IntRange(0, 9).Draw(rt, label+"-kind") {
	case 0, 1, 2, 3:
		return "id = " + drawVal(rt, rows, "id", false, label+"-id")
	case 4:
		return "a = " + drawVal(rt, rows, "a", false, label+"-a")
	case 5:
		return "b " + rapid.SampledFrom([]string{"=", "<", ">="}).Draw(rt, label+"-op") + " " + drawVal(rt, rows, "b", false, label+"-b")
	case 6:
		return "s = " + drawVal(rt, rows, "s", false, label+"-s")
	case 7:
		return rapid.SampledFrom([]string{"a", "b", "s"}).Draw(rt, label+"-col") + " IS NULL"
	case 8:
		return "c = " + drawVal(rt, rows, "c", false, label+"-c")
	default:
		return "id >= " + drawVal(rt, rows, "id", false, label+"-id")
	}
}

// ---- actions ---------------------------------------------------------------------------

// apply runs a row-changing statement on t and, when it succeeded, the twin statements.
func (m *machine) apply(rt *rapid.T, onT string, onTwin ...string) bool {
	r := m.exec(rt, onT)
	if !r.OK() {
		m.st.Class("stmt-rejected")
		return false
	}
	for _, q := range onTwin {
		if r2 := m.exec(rt, q); !r2.OK() {
			rt.Fatalf("harness: twin statement failed: %s -> %s\nhistory:\n%s", q, r2, m.history())
		}
	}
	return true
}

func (m *machine) insert(rt *rapid.T) {
	rows := m.rows(rt)
	n := rapid.IntRange(1, 3).Draw(rt, "n")
	var tuples []string
	for i := 0; i < n; i++ {
		tuples = append(tuples, "("+strings.Join(m.drawRow(rt, rows, fmt.Sprintf("r%d", i)), ",")+")")
	}
	vals := strings.Join(tuples, ",")
	if m.apply(rt, "INSERT INTO t VALUES "+vals, "INSERT INTO tn VALUES "+vals) {
		m.st.Class("insert")
		if m.delNonLast {
			m.insertAfter = true
		}
	}
}

func (m *machine) update(rt *rapid.T) {
	rows := m.rows(rt)
	var sets []string
	nset := rapid.IntRange(1, 2).Draw(rt, "nset")
	seen := map[string]bool{}
	for i := 0; i < nset; i++ {
		col := rapid.SampledFrom([]string{"a", "a", "b", "b", "s", "s", "c", "id"}).Draw(rt, fmt.Sprintf("col%d", i))
		if seen[col] {
			continue
		}
		seen[col] = true
		switch {
		case col == "id":
			// key move
			if rapid.Bool().Draw(rt, "idexpr") {
				sets = append(sets, "id = id + "+fmt.Sprint(rapid.IntRange(1, 3).Draw(rt, "iddelta")))
			} else {
				sets = append(sets, "id = "+fmt.Sprint(rapid.IntRange(0, 11).Draw(rt, "newid")))
			}
		case !isStrCol(col) && col != "c" && rapid.IntRange(0, 3).Draw(rt, fmt.Sprintf("expr%d", i)) == 0:
			sets = append(sets, fmt.Sprintf("%s = %s + 1", col, col))
		default:
			sets = append(sets, col+" = "+drawVal(rt, rows, col, true, fmt.Sprintf("v%d", i)))
		}
	}
	set := strings.Join(sets, ", ")
	where := wherePred(rt, rows, "w")
	if m.apply(rt, "UPDATE t SET "+set+" WHERE "+where, "UPDATE tn SET "+set+" WHERE "+where) {
		m.st.Class("update")
		if seen["id"] {
			m.st.Class("update-key-move")
		}
	}
}

func (m *machine) delete(rt *rapid.T) {
	rows := m.rows(rt)
	var where string
	var targetsNonLast bool
	if len(rows) > 0 && rapid.IntRange(0, 2).Draw(rt, "byrow") > 0 {
		// a particular row: first / middle / last by id
		i := rapid.IntRange(0, len(rows)-1).Draw(rt, "row")
		where = "id = " + lit(rows[i][0])
		targetsNonLast = i < len(rows)-1
	} else {
		where = wherePred(rt, rows, "w")
	}
	before := len(rows)
	if m.apply(rt, "DELETE FROM t WHERE "+where, "DELETE FROM tn WHERE "+where) {
		m.st.Class("delete")
		after := m.rows(rt)
		if len(after) < before {
			if !targetsNonLast && len(after) > 0 && len(rows) > 0 {
				// did a row that is not the last survive behind a deleted one?
				last := rows[len(rows)-1]
				for _, r := range after {
					if strings.Join(r, "\x1f") == strings.Join(last, "\x1f") {
						targetsNonLast = true
					}
				}
			}
			if targetsNonLast && m.secondaryCount() >= 2 {
				m.delNonLast = true
				m.insertAfter = false
				m.idxHitRows = false
			}
			if before-len(after) > 1 {
				m.st.Class("delete-multi-row")
			}
		}
	}
}

func (m *machine) replace(rt *rapid.T) {
	rows := m.rows(rt)
	row := m.drawRow(rt, rows, "r")
	if len(rows) > 0 && rapid.Bool().Draw(rt, "hit") {
		// aim at an existing key
		row[0] = lit(rows[rapid.IntRange(0, len(rows)-1).Draw(rt, "hitrow")][0])
	}
	tuples := [][]string{row}
	// multi-row REPLACE: further rows, half of them repeating the key of the first one (a row that exists
	// only as a pending insert of the same statement is replaced again)
	for extra := rapid.IntRange(0, 2).Draw(rt, "extraRows"); extra > 0; extra-- {
		r2 := m.drawRow(rt, rows, "r2")
		if rapid.Bool().Draw(rt, "repeatKey") {
			r2[0] = row[0]
		}
		tuples = append(tuples, r2)
	}
	// twin: REPLACE works row by row and removes every row that conflicts on the primary key or on a unique index
	var twin, texts []string
	for _, row := range tuples {
		tuple := "(" + strings.Join(row, ",") + ")"
		texts = append(texts, tuple)
		var conflicts []string
		if m.keyed {
			conflicts = append(conflicts, "id = "+row[0])
		}
		for _, d := range m.sortedIdx() {
			if !d.unique {
				continue
			}
			var conj []string
			null := false
			for _, c := range d.cols {
				v := row[colIdx(c)]
				if v == "NULL" {
					null = true
				}
				conj = append(conj, c+" = "+v)
			}
			if !null {
				conflicts = append(conflicts, "("+strings.Join(conj, " AND ")+")")
			}
		}
		if len(conflicts) > 0 {
			twin = append(twin, "DELETE FROM tn WHERE "+strings.Join(conflicts, " OR "))
		}
		twin = append(twin, "INSERT INTO tn VALUES "+tuple)
	}
	if m.apply(rt, "REPLACE INTO t VALUES "+strings.Join(texts, ", "), twin...) {
		m.st.Class("replace")
		if len(tuples) > 1 {
			m.st.Class("replace-multi-row")
		}
		if m.delNonLast {
			m.insertAfter = true
		}
	}
}

func (m *machine) truncate(rt *rapid.T) {
	if rapid.IntRange(0, 3).Draw(rt, "really") != 0 {
		rt.Skip("truncate thinned out")
	}
	if m.apply(rt, "TRUNCATE TABLE t", "TRUNCATE TABLE tn") {
		m.st.Class("truncate")
	}
}

func (m *machine) createIndex(rt *rapid.T) {
	var absent []idxDef
	for _, d := range pool {
		if _, ok := m.idx[d.name]; !ok {
			absent = append(absent, d)
		}
	}
	if len(absent) == 0 || len(m.idx) >= 4 {
		rt.Skip("no index to create")
	}
	d := absent[rapid.IntRange(0, len(absent)-1).Draw(rt, "idx")]
	u := ""
	if d.unique {
		u = "UNIQUE "
	}
	var q string
	if rapid.Bool().Draw(rt, "alter") {
		q = fmt.Sprintf("ALTER TABLE t ADD %sINDEX %s (%s)", u, d.name, d.colList())
	} else {
		q = fmt.Sprintf("CREATE %sINDEX %s ON t (%s)", u, d.name, d.colList())
	}
	if m.apply(rt, q) {
		m.idx[d.name] = d
		m.st.Class("create-index")
	}
}

func (m *machine) dropIndex(rt *rapid.T) {
	present := m.sortedIdx()
	if len(present) == 0 {
		rt.Skip("no index to drop")
	}
	d := present[rapid.IntRange(0, len(present)-1).Draw(rt, "idx")]
	q := fmt.Sprintf("DROP INDEX %s ON t", d.name)
	if rapid.Bool().Draw(rt, "alter") {
		q = fmt.Sprintf("ALTER TABLE t DROP INDEX %s", d.name)
	}
	if m.apply(rt, q) {
		delete(m.idx, d.name)
		m.st.Class("drop-index")
	} else {
		rt.Fatalf("DROP INDEX of an existing index failed: %s\nhistory:\n%s", q, m.history())
	}
}

func (m *machine) togglePK(rt *rapid.T) {
	if rapid.IntRange(0, 1).Draw(rt, "really") != 0 {
		rt.Skip("pk change thinned out")
	}
	if m.keyed {
		if m.apply(rt, "ALTER TABLE t DROP PRIMARY KEY") {
			m.keyed = false
			m.st.Class("drop-pk")
		}
	} else {
		if m.apply(rt, "ALTER TABLE t ADD PRIMARY KEY (id)") {
			m.keyed = true
			m.st.Class("add-pk")
		}
	}
}

// ---- probes ----------------------------------------------------------------------------

var reIndex = regexp.MustCompile(`IndexedTableAccess\(t\)\s*\n[^\n]*index: \[([^\]]*)\]`)

// usedIndex returns the column list of the index the plan of q reads t through ("" if none).
func (m *machine) usedIndex(q string) string {
	p := m.s.Plan(q)
	mm := reIndex.FindStringSubmatch(p)
	if mm == nil {
		return ""
	}
	return mm[1]
}

// compare runs qt (on t) and qn (on tn) and demands equal results.
func (m *machine) compare(rt *rapid.T, kind, qt, qn string, seq bool) {
	rT := m.exec(rt, qt)
	rN := m.exec(rt, qn)
	if !rN.OK() {
		if !rT.OK() {
			return // both reject the statement
		}
		rt.Fatalf("harness: twin query failed but indexed query succeeded: %s -> %s", qn, rN)
	}
	// The plan is inspected (a second analysis of the statement) for one probe in four, and for
	// every probe that returns rows while the history still waits for its index-driven hit.
	used := "?"
	m.probeNo++
	if m.probeNo%4 == 0 || (m.delNonLast && m.insertAfter && !m.idxHitRows && len(rT.Rows) > 0) {
		used = m.usedIndex(qt)
		if used != "" {
			m.idxProbes++
			m.st.Class("probe-index:" + kind)
			m.st.Class("via[" + used + "]")
		} else {
			m.nonIdxProbes++
			m.st.Class("probe-noindex:" + kind)
		}
	}
	if !rT.OK() {
		m.violation(rt, kind, used, qt, qn, rT.String(), rN.String())
		return
	}
	got := fx.NormRows(rT.Schema, rT.Rows)
	want := fx.NormRows(rN.Schema, rN.Rows)
	var eq bool
	if seq {
		eq = fx.SeqEqual(got, want)
	} else {
		eq = fx.MultisetEqual(got, want)
	}
	if !eq {
		if seq {
			m.violation(rt, kind, used, qt, qn, fx.ShowSeq(got), fx.ShowSeq(want))
		} else {
			m.violation(rt, kind, used, qt, qn, fx.Show(got), fx.Show(want))
		}
		return
	}
	if used != "" && used != "?" && len(got) > 0 && m.delNonLast && m.insertAfter {
		m.idxHitRows = true
	}
}

func (m *machine) violation(rt *rapid.T, kind, used, qt, qn, got, want string) {
	for _, k := range knownFindings {
		if k.match(m, kind, used, qt) && kf.Suppress(m.st, k.id) {
			return
		}
	}
	rt.Fatalf("C16 violated (%s, index [%s])\n  %s\n    -> %s\n  %s\n    -> %s\nindexes: %v keyed=%v\nhistory:\n%s",
		kind, used, qt, got, qn, want, m.sortedIdx(), m.keyed, m.history())
}

// knownFinding is the signature of a listed finding: a narrow predicate over the failing probe.
type knownFinding struct {
	id    string
	match func(m *machine, kind, used, qt string) bool
}

var knownFindings []knownFinding

func cmpOp(rt *rapid.T, label string, str bool) string {
	if str {
		return rapid.SampledFrom([]string{"=", "=", ">", "<=", "<", ">="}).Draw(rt, label)
	}
	return rapid.SampledFrom([]string{"=", "=", "<", ">=", ">", "<=", "<=>"}).Draw(rt, label)
}

// probePred draws a predicate on the leading column(s) of an index.
func probePred(rt *rapid.T, rows [][]string, cols []string, label string) (kind, pred string) {
	c1 := cols[0]
	str := isStrCol(c1)
	v := func(c, l string) string { return drawVal(rt, rows, c, false, label+l) }
	two := len(cols) > 1 && rapid.Bool().Draw(rt, label+"-two")
	if two {
		c2 := cols[1]
		first := c1 + " = " + v(c1, "-v1")
		switch rapid.IntRange(0, 3).Draw(rt, label+"-k2") {
		case 0:
			first = c1 + " IN (" + v(c1, "-i1") + "," + v(c1, "-i2") + ")"
			kind = "in+eq"
		case 1:
			if !isStrCol(c1) && rapid.Bool().Draw(rt, label+"-null1") {
				first = c1 + " IS NULL"
			}
			kind = "eq+isnull"
			return kind, first + " AND " + c2 + " IS NULL"
		default:
			kind = "eq+cmp"
		}
		return kind, first + " AND " + c2 + " " + cmpOp(rt, label+"-op2", isStrCol(c2)) + " " + v(c2, "-v2")
	}
	switch k := rapid.IntRange(0, 6).Draw(rt, label+"-k"); {
	case k == 0:
		return "isnull", c1 + " IS NULL"
	case k == 1:
		return "between", c1 + " BETWEEN " + v(c1, "-lo") + " AND " + v(c1, "-hi")
	case k == 2:
		return "in", c1 + " IN (" + v(c1, "-i1") + "," + v(c1, "-i2") + "," + v(c1, "-i3") + ")"
	case k == 3 && str:
		p := strings.Trim(v(c1, "-like"), "'")
		r := []rune(p)
		if len(r) > 0 {
			r = r[:rapid.IntRange(0, len(r)).Draw(rt, label+"-likelen")]
		}
		return "like-prefix", c1 + " LIKE " + quote(string(r)+"%")
	case k == 3:
		return "range2", c1 + " > " + v(c1, "-lo") + " AND " + c1 + " <= " + v(c1, "-hi")
	default:
		op := cmpOp(rt, label+"-op", str)
		kind := "cmp"
		if op == "=" || op == "<=>" {
			kind = "eq"
		}
		return kind, c1 + " " + op + " " + v(c1, "-v")
	}
}

func (m *machine) check(rt *rapid.T) {
	// the twin holds the same rows (this also guards the harness's own twin maintenance)
	m.compare(rt, "full-scan", "SELECT * FROM t", "SELECT * FROM tn", false)
	rows := m.rows(rt)
	type target struct {
		name string
		cols []string
	}
	var targets []target
	if m.keyed {
		targets = append(targets, target{"PRIMARY", []string{"id"}})
	}
	for _, d := range m.sortedIdx() {
		targets = append(targets, target{d.name, d.cols})
	}
	for _, tg := range targets {
		np := 2
		if tg.name == "PRIMARY" {
			np = 1
		}
		for i := 0; i < np; i++ {
			kind, pred := probePred(rt, rows, tg.cols, fmt.Sprintf("%s-p%d", tg.name, i))
			m.compare(rt, kind, "SELECT * FROM t WHERE "+pred, "SELECT * FROM tn WHERE "+pred, false)
		}
		// lookup join through the index
		if rapid.IntRange(0, 1).Draw(rt, tg.name+"-join") == 0 {
			pcol := func(c string) string {
				if isStrCol(c) {
					return "ks"
				}
				return "k"
			}
			on := func(tbl string) string {
				s := fmt.Sprintf("%s.%s = p.%s", tbl, tg.cols[0], pcol(tg.cols[0]))
				if len(tg.cols) > 1 {
					c2 := tg.cols[1]
					p2 := "k2"
					if isStrCol(c2) {
						p2 = "ks"
					}
					s += fmt.Sprintf(" AND %s.%s = p.%s", tbl, c2, p2)
				}
				return s
			}
			m.compare(rt, "lookup-join",
				"SELECT /*+ LOOKUP_JOIN(p,t) */ p.*, t.* FROM p JOIN t ON "+on("t"),
				"SELECT p.*, tn.* FROM p JOIN tn ON "+on("tn"), false)
		}
		// index-order scan
		if rapid.IntRange(0, 1).Draw(rt, tg.name+"-order") == 0 {
			dir := rapid.SampledFrom([]string{"", " DESC"}).Draw(rt, tg.name+"-dir")
			var ob []string
			for _, c := range tg.cols {
				ob = append(ob, c+dir)
			}
			sel := strings.Join(tg.cols, ",")
			m.compare(rt, "order-scan",
				"SELECT "+sel+" FROM t ORDER BY "+strings.Join(ob, ","),
				"SELECT "+sel+" FROM tn ORDER BY "+strings.Join(ob, ","), true)
		}
	}
}

// ---- the property ------------------------------------------------------------------------

func newMachine(rt *rapid.T, st *stats.Collector) *machine {
	m := &machine{st: st, idx: map[string]idxDef{}}
	m.f = fx.New(fx.Opts{})
	m.s = m.f.NewSession("", "", "")
	m.keyed = rapid.IntRange(0, 3).Draw(rt, "keyed") > 0
	nIdx := rapid.IntRange(1, 3).Draw(rt, "nIdx")
	perm := rapid.Permutation(pool).Draw(rt, "idxPool")
	var keys []string
	if m.keyed {
		keys = append(keys, "PRIMARY KEY (id)")
	}
	for _, d := range perm[:nIdx] {
		m.idx[d.name] = d
	}
	for _, d := range m.sortedIdx() {
		keys = append(keys, d.ddl())
		m.shape = append(m.shape, d.name)
	}
	m.s.MustExec(rt.Fatalf,
		"CREATE TABLE t (id INT NOT NULL, a INT, b INT, s VARCHAR(8), c INT, "+strings.Join(keys, ", ")+")",
		"CREATE TABLE tn (id INT NOT NULL, a INT, b INT, s VARCHAR(8), c INT)",
		"CREATE TABLE p (k INT, k2 INT, ks VARCHAR(8))")
	// probe rows for the lookup joins
	var ps []string
	for i := 0; i < 8; i++ {
		pv := func(d []string, str bool, l string) string {
			if rapid.IntRange(0, 5).Draw(rt, l+"-null") == 0 {
				return "NULL"
			}
			v := rapid.SampledFrom(d).Draw(rt, l)
			if str {
				return quote(v)
			}
			return v
		}
		ps = append(ps, fmt.Sprintf("(%s,%s,%s)", pv(intDom, false, fmt.Sprintf("p%dk", i)), pv(intDom, false, fmt.Sprintf("p%dk2", i)), pv(strDom, true, fmt.Sprintf("p%dks", i))))
	}
	m.s.MustExec(rt.Fatalf, "INSERT INTO p VALUES "+strings.Join(ps, ","))
	return m
}

func TestC16(t *testing.T) {
	st := stats.New("C16", "")
	defer st.Flush()
	_ = os.Getenv("VERIF_TIER")
	rapid.Check(t, func(rt *rapid.T) {
		st.Eval()
		m := newMachine(rt, st)
		defer m.f.Close()
		if m.keyed {
			st.Class("start-keyed")
		} else {
			st.Class("start-keyless")
		}
		// rapid draws the action with a bias towards the first keys in sorted order, hence
		// the prefixes: row changes first, DDL last
		rt.Repeat(map[string]func(*rapid.T){
			"a-insert":   m.insert,
			"b-delete":   m.delete,
			"c-update":   m.update,
			"d-insert":   m.insert,
			"e-replace":  m.replace,
			"f-delete":   m.delete,
			"g-update":   m.update,
			"h-create":   m.createIndex,
			"i-drop":     m.dropIndex,
			"j-truncate": m.truncate,
			"k-pk":       m.togglePK,
			"":           m.check,
		})
		st.ClassN("inspected-probes-index-driven", m.idxProbes)
		st.ClassN("inspected-probes-not-index-driven", m.nonIdxProbes)
		st.ClassN("probes", m.probeNo)
		if m.delNonLast && m.insertAfter && m.idxHitRows {
			st.NonTrivial(map[string]any{"keyed_at_end": m.keyed, "initial_indexes": m.shape, "statements": len(m.hist)},
				strings.Join(m.hist, ";"))
			st.Class("nontrivial")
		}
	})
}
