package c29

import (
	"fmt"
	"sort"
	"strings"
	"testing"

	"github.com/dolthub/go-mysql-server/sql"
	"github.com/dolthub/go-mysql-server/vh/internal/fx"
	"github.com/dolthub/go-mysql-server/vh/internal/kf"
	"github.com/dolthub/go-mysql-server/vh/internal/stats"
	"pgregory.net/rapid"
)

// sqlAlphabet is alphabet(k) without the characters that would need escaping in a string
// literal or act as LIKE wildcards.
func sqlAlphabet(k coll) []rune {
	var out []rune
	for _, r := range alphabet(k) {
		if r < 0x20 || r == 0x7F || r == '\'' || r == '\\' || r == '%' || r == '_' || r == 0xFFFD {
			continue
		}
		out = append(out, r)
	}
	return out
}

// kfInBinary: IN / NOT IN over a list of string constants compares under the default
// (binary) collation instead of the collation of the left operand, both in the hash lookup
// (HashInTuple: hash type LONGTEXT with the default collation) and in InTuple.Eval (the
// left value is re-wrapped as a literal and loses the column's collation).
const kfInBinary = "C29-in-binary"

func lit(s string) string { return "'" + s + "'" }

func idsOf(r *fx.Result) []int {
	var out []int
	for _, row := range r.Rows {
		var id int
		fmt.Sscanf(fx.Norm(row[0], nil), "n:%d", &id)
		out = append(out, id)
	}
	sort.Ints(out)
	return out
}

func TestC29SQL(t *testing.T) {
	st := stats.New("C29", "sql")
	defer st.Flush()
	cs, _ := collations()
	var usable []coll
	for _, k := range cs {
		if k.id != sql.Collation_binary {
			usable = append(usable, k)
		}
	}
	alpha := map[sql.CollationID][]rune{}
	ctx := sql.NewEmptyContext()

	rapid.Check(t, func(rt *rapid.T) {
		st.Eval()
		k := usable[rapid.IntRange(0, len(usable)-1).Draw(rt, "collation")]
		al := alpha[k.id]
		if al == nil {
			al = sqlAlphabet(k)
			alpha[k.id] = al
		}
		str := rapid.Custom(func(rt *rapid.T) string {
			n := rapid.IntRange(0, 4).Draw(rt, "len")
			var sb strings.Builder
			for i := 0; i < n; i++ {
				sb.WriteRune(rapid.SampledFrom(al).Draw(rt, "r"))
			}
			// trailing spaces are left out: PAD SPACE handling is not part of the statement
			return strings.TrimRight(sb.String(), " ")
		})
		rows := rapid.SliceOfN(str, 2, 6).Draw(rt, "rows")
		var probe string
		if rapid.Bool().Draw(rt, "probeFromRows") {
			probe = flipASCIICase(rapid.SampledFrom(rows).Draw(rt, "probe"), nil)
		} else {
			probe = str.Draw(rt, "probe")
		}
		probe2 := str.Draw(rt, "probe2")
		indexed := rapid.Bool().Draw(rt, "indexed")

		f := fx.New(fx.Opts{})
		defer f.Close()
		s := f.NewSession("", "", "")
		key := ""
		if indexed {
			key = ", KEY ks (s)"
		}
		ddl := fmt.Sprintf("CREATE TABLE t (id INT PRIMARY KEY, s VARCHAR(20) CHARACTER SET %s COLLATE %s%s)", k.c.CharacterSet.Name(), k.c.Name, key)
		if r := s.Exec(ddl); !r.OK() {
			if r.Panic != nil {
				rt.Fatalf("%s panics: %v\n%s", ddl, r.Panic, r.Stack)
			}
			st.Class("ddl-rejected:" + k.c.Name)
			return
		}
		for i, v := range rows {
			q := fmt.Sprintf("INSERT INTO t VALUES (%d, %s)", i, lit(v))
			if r := s.Exec(q); !r.OK() {
				rt.Fatalf("%s\n%s -> %s\n%s", ddl, q, r, r.Stack)
			}
		}
		describe := func() string { return fmt.Sprintf("%s; rows %q", ddl, rows) }
		// the API comparison is the reference for every operator
		cmpTo := func(v, p string) int {
			c, err := k.cmp(ctx, v, p)
			if err != nil {
				rt.Fatalf("%s: Compare(%q, %q): %v", k.c.Name, v, p, err)
			}
			return c
		}
		want := func(pred func(v string) bool) []int {
			var out []int
			for i, v := range rows {
				if pred(v) {
					out = append(out, i)
				}
			}
			return out
		}
		// bytewise is what an operator selects when it ignores the column's collation and
		// compares the strings byte for byte (signature of finding C29-in-binary)
		check := func(q string, wantIDs []int, bytewise ...[]int) bool {
			r := s.Exec(q)
			if r.Panic != nil || r.TimedOut {
				rt.Fatalf("%s\n%s -> %s\n%s", describe(), q, r, r.Stack)
			}
			if !r.OK() {
				st.Class("query-error")
				return false
			}
			got := idsOf(r)
			if fmt.Sprint(got) != fmt.Sprint(wantIDs) {
				if len(bytewise) == 1 && fmt.Sprint(got) == fmt.Sprint(bytewise[0]) && kf.Suppress(st, kfInBinary) {
					return true
				}
				rt.Fatalf("%s\n%s\n  -> ids %v, but %s.Compare selects %v", describe(), q, got, k.c.Name, wantIDs)
			}
			return true
		}
		eq := want(func(v string) bool { return cmpTo(v, probe) == 0 })
		check(fmt.Sprintf("SELECT id FROM t WHERE s = %s", lit(probe)), eq)
		check(fmt.Sprintf("SELECT id FROM t WHERE s <> %s", lit(probe)), want(func(v string) bool { return cmpTo(v, probe) != 0 }))
		check(fmt.Sprintf("SELECT id FROM t WHERE s < %s", lit(probe)), want(func(v string) bool { return cmpTo(v, probe) < 0 }))
		check(fmt.Sprintf("SELECT id FROM t WHERE s >= %s", lit(probe)), want(func(v string) bool { return cmpTo(v, probe) >= 0 }))
		check(fmt.Sprintf("SELECT id FROM t WHERE s LIKE %s", lit(probe)), eq)
		check(fmt.Sprintf("SELECT id FROM t WHERE s IN (%s, %s)", lit(probe), lit(probe2)),
			want(func(v string) bool { return cmpTo(v, probe) == 0 || cmpTo(v, probe2) == 0 }),
			want(func(v string) bool { return v == probe || v == probe2 }))
		check(fmt.Sprintf("SELECT id FROM t WHERE s NOT IN (%s, %s)", lit(probe), lit(probe2)),
			want(func(v string) bool { return cmpTo(v, probe) != 0 && cmpTo(v, probe2) != 0 }),
			want(func(v string) bool { return v != probe && v != probe2 }))
		// the same IN as a projected value (evaluated by InTuple, not by the hash lookup)
		check(fmt.Sprintf("SELECT id FROM (SELECT id, s IN (%s, %s) AS m FROM t) x WHERE m", lit(probe), lit(probe2)),
			want(func(v string) bool { return cmpTo(v, probe) == 0 || cmpTo(v, probe2) == 0 }),
			want(func(v string) bool { return v == probe || v == probe2 }))
		lo, hi := probe, probe2
		if cmpTo(lo, hi) > 0 {
			lo, hi = hi, lo
		}
		check(fmt.Sprintf("SELECT id FROM t WHERE s BETWEEN %s AND %s", lit(lo), lit(hi)),
			want(func(v string) bool { return cmpTo(v, lo) >= 0 && cmpTo(v, hi) <= 0 }))
		// ORDER BY: the sequence must be non-decreasing under the collation
		q := "SELECT id FROM t ORDER BY s"
		r := s.Exec(q)
		if r.Panic != nil || r.TimedOut {
			rt.Fatalf("%s\n%s -> %s\n%s", describe(), q, r, r.Stack)
		}
		if r.OK() {
			if len(r.Rows) != len(rows) {
				rt.Fatalf("%s\n%s -> %d rows", describe(), q, len(r.Rows))
			}
			var seq []string
			for _, row := range r.Rows {
				var id int
				fmt.Sscanf(fx.Norm(row[0], nil), "n:%d", &id)
				seq = append(seq, rows[id])
			}
			for i := 1; i < len(seq); i++ {
				if cmpTo(seq[i-1], seq[i]) > 0 {
					rt.Fatalf("%s\n%s -> order %q: %q sorts after %q under %s", describe(), q, seq, seq[i-1], seq[i], k.c.Name)
				}
			}
		} else {
			st.Class("query-error")
		}
		// non-trivial: some row equals the probe without being identical to it, or the
		// collation order of two rows differs from their code point order
		nt := false
		for _, v := range rows {
			if v != probe && cmpTo(v, probe) == 0 {
				nt = true
			}
			if c := cmpTo(v, probe); c != 0 && sgn(c) != sgn(strings.Compare(v, probe)) {
				nt = true
			}
		}
		if indexed {
			st.Class("indexed")
		} else {
			st.Class("not-indexed")
		}
		if nt {
			st.NonTrivial(map[string]any{"collation": k.c.Name, "rows": rows, "probe": probe, "indexed": indexed}, k.c.Name, rows, probe, indexed)
		}
	})
}

// TestReplayC29 runs the SQL witness scripts of /verif/replays/C29.
func TestReplayC29(t *testing.T) {
	st := stats.New("C29", "replay")
	defer st.Flush()
	fx.ReplayDir(t, st)
}
