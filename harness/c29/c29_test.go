// Package c29 checks property C29: for every implemented collation, string comparison is a
// total preorder, coherent with weight strings and hashes; _ci collations equate letter
// case, binary collations order by code point; LIKE, IN and the comparison operators of
// SQL honour the same collation.
//
//	TestC29Exhaustive  every single code point (quick: the BMP plus samples of the astral
//	                   planes; thorough: all scalar values) for every collation with a sorter.
//	TestC29            rapid: random triples of strings per collation, API level.
//	TestC29SQL         rapid: a table with a collated column, =, <, LIKE, IN, ORDER BY
//	                   against the API comparison.
package c29

import (
	"bytes"
	"context"
	"os"
	"sort"
	"strconv"
	"strings"
	"testing"
	"unicode/utf8"

	"github.com/dolthub/go-mysql-server/sql"
	"github.com/dolthub/go-mysql-server/sql/hash"
	"github.com/dolthub/go-mysql-server/sql/types"
	"github.com/dolthub/go-mysql-server/vh/internal/stats"
	"github.com/dolthub/vitess/go/sqltypes"
	"pgregory.net/rapid"
)

type coll struct {
	c       sql.Collation
	id      sql.CollationID
	typ     sql.StringType
	ci      bool
	bin     bool // *_bin or the binary collation
	unicode bool // character set encodes all of Unicode (utf8mb3 only the BMP)
	turkish bool
}

func envInt(name string, def int) int {
	if v, err := strconv.Atoi(os.Getenv(name)); err == nil {
		return v
	}
	return def
}

// collations returns every collation with a sorter, and the number of listed collations
// without one (skipped, counted).
func collations() (out []coll, skipped int) {
	it := sql.NewCollationsIterator()
	for c, ok := it.Next(); ok; c, ok = it.Next() {
		if c.Sorter == nil || c.CharacterSet.Encoder() == nil {
			skipped++
			continue
		}
		typ, err := types.CreateString(sqltypes.VarChar, 64, c.ID)
		if err != nil {
			skipped++
			continue
		}
		cs := c.CharacterSet.Name()
		out = append(out, coll{
			c: c, id: c.ID, typ: typ,
			ci:      strings.HasSuffix(c.Name, "_ci"),
			bin:     strings.HasSuffix(c.Name, "_bin") || c.ID == sql.Collation_binary,
			unicode: cs == "utf8mb4" || cs == "utf8mb3" || cs == "utf16" || cs == "utf32" || cs == "binary",
			turkish: strings.Contains(c.Name, "turkish") || strings.Contains(c.Name, "_tr_"),
		})
	}
	sort.Slice(out, func(i, j int) bool { return out[i].id < out[j].id })
	return
}

// representable reports whether rune r can occur in a string of the collation's character set.
func (k coll) representable(r rune) bool {
	if r >= 0xD800 && r <= 0xDFFF {
		return false
	}
	if k.c.CharacterSet.Name() == "binary" {
		return true
	}
	_, ok := k.c.CharacterSet.Encoder().EncodeRune([]byte(string(r)))
	return ok
}

func (k coll) cmp(ctx context.Context, a, b string) (int, error) { return k.typ.Compare(ctx, a, b) }

func (k coll) weight(s string) ([]byte, error) {
	var buf bytes.Buffer
	err := k.id.WriteWeightString(&buf, s)
	return buf.Bytes(), err
}

func sgn(x int) int {
	switch {
	case x < 0:
		return -1
	case x > 0:
		return 1
	}
	return 0
}

type failFn func(format string, args ...any)

// caseExempt reports whether the ASCII letter r (either case) is outside the statement's
// case clause for collation k, because MySQL itself treats the two cases as different letters:
//   - Turkish collations: dotted/dotless i;
//   - latin7_general_ci: MySQL's own sort table (strings/ctype-extra, latin7.xml) has distinct
//     weights for 't' and 'T' and ties every other ASCII pair; the engine's table
//     (sql/encodings/latin7_general_ci.go, 116 -> 182, 84 -> 183) is extracted from a MySQL
//     server by collation-extractor and reproduces that. A first version of this check
//     proposed it as finding C29-latin7-ci-tT; dropped as a false alarm (the engine behaves
//     like MySQL). The exemption is counted (class "case-exempt:<collation>").
func caseExempt(k coll, r rune) bool {
	switch r | 0x20 {
	case 'i':
		return k.turkish
	case 't':
		return k.c.Name == "latin7_general_ci"
	}
	return false
}

// coherent checks the pair clauses of the statement on (a, b): antisymmetry, equality
// exactly when the weight strings are equal, equal strings hash equally (CollationID hash,
// hash.HashOfSimple and hash.HashOf). Returns cmp(a, b).
func coherent(ctx *sql.Context, k coll, a, b string, fail failFn) int {
	ab, err1 := k.cmp(ctx, a, b)
	ba, err2 := k.cmp(ctx, b, a)
	if err1 != nil || err2 != nil {
		fail("%s: Compare(%q, %q) fails: %v / %v", k.c.Name, a, b, err1, err2)
	}
	if sgn(ab) != -sgn(ba) {
		fail("%s: Compare(%q, %q) = %d but Compare(%q, %q) = %d (not antisymmetric)", k.c.Name, a, b, ab, b, a, ba)
	}
	wa, err1 := k.weight(a)
	wb, err2 := k.weight(b)
	if err1 != nil || err2 != nil {
		fail("%s: WriteWeightString(%q / %q) fails: %v / %v", k.c.Name, a, b, err1, err2)
	}
	if (ab == 0) != bytes.Equal(wa, wb) {
		fail("%s: Compare(%q, %q) = %d but weight strings are %x and %x", k.c.Name, a, b, ab, wa, wb)
	}
	if ab == 0 {
		ha, err1 := k.id.HashToUint(a)
		hb, err2 := k.id.HashToUint(b)
		if err1 != nil || err2 != nil || ha != hb {
			fail("%s: %q and %q compare equal but HashToUint gives %d (%v) and %d (%v)", k.c.Name, a, b, ha, err1, hb, err2)
		}
		sa, _, err1 := hash.HashOfSimple(ctx, a, k.typ)
		sb, _, err2 := hash.HashOfSimple(ctx, b, k.typ)
		if err1 != nil || err2 != nil || sa != sb {
			fail("%s: %q and %q compare equal but HashOfSimple gives %d (%v) and %d (%v)", k.c.Name, a, b, sa, err1, sb, err2)
		}
		sch := sql.Schema{{Name: "s", Type: k.typ}}
		ra, err1 := hash.HashOf(ctx, sch, sql.Row{a})
		rb, err2 := hash.HashOf(ctx, sch, sql.Row{b})
		if err1 != nil || err2 != nil || ra != rb {
			fail("%s: %q and %q compare equal but HashOf gives %d (%v) and %d (%v)", k.c.Name, a, b, ra, err1, rb, err2)
		}
	}
	return ab
}

// binOrder is the order a binary collation must give: by code point for the Unicode
// character sets, by the character's code in the character set otherwise.
func (k coll) binKey(s string) []byte {
	if k.unicode {
		return []byte(s) // UTF-8 byte order is code point order
	}
	e, _ := k.c.CharacterSet.Encoder().Encode([]byte(s))
	return e
}

func TestC29Exhaustive(t *testing.T) {
	st := stats.New("C29", "exhaustive")
	defer st.Flush()
	shard, shards := envInt("VERIF_SHARD", 0), envInt("VERIF_SHARDS", 1)
	thorough := os.Getenv("VERIF_TIER") == "thorough"
	cs, skipped := collations()
	st.Set("collations_with_sorter", len(cs))
	st.Set("collations_skipped_no_sorter", skipped)
	ctx := sql.NewEmptyContext()
	fail := func(format string, args ...any) { st.Flush(); t.Fatalf(format, args...) }

	// the code points of the tier
	var runes []rune
	for r := rune(0); r <= 0x10FFFF; r++ {
		if r >= 0xD800 && r <= 0xDFFF {
			continue
		}
		if !thorough && r > 0xFFFF && !(r < 0x10800 || (r >= 0x1F000 && r < 0x1F800) || r >= 0x10FF00) {
			continue
		}
		runes = append(runes, r)
	}
	st.Set("code_points_per_collation", len(runes))

	for i, k := range cs {
		if i%shards != shard {
			continue
		}
		sorter := k.c.Sorter
		type rw struct {
			r rune
			w int32
		}
		rws := make([]rw, 0, len(runes))
		for n, r := range runes {
			// strings of an 8-bit character set cannot hold other characters: keep the
			// representable code points and a sample of the rest
			if !k.unicode && n%1021 != 0 && !k.representable(r) {
				continue
			}
			rws = append(rws, rw{r, sorter(r)})
		}
		// every rune: reflexive, weight string is the weight of the sorter
		for _, x := range rws {
			s := string(x.r)
			c, err := k.cmp(ctx, s, s)
			if err != nil || c != 0 {
				fail("%s: Compare(%q, %q) = %d, %v", k.c.Name, s, s, c, err)
			}
			if k.id != sql.Collation_binary {
				w, err := k.weight(s)
				want := []byte{byte(x.w), byte(x.w >> 8), byte(x.w >> 16), byte(x.w >> 24)}
				if err != nil || !bytes.Equal(w, want) {
					fail("%s: WriteWeightString(U+%04X) = %x, %v; the sorter's weight is %d", k.c.Name, x.r, w, err, x.w)
				}
			}
		}
		st.EvalN(len(rws))
		// neighbours in weight order: Compare, weight strings and hashes must tell the same
		// story for every adjacent pair (ties and strict steps); this decides all pairs of
		// single code points, since Compare is checked against a single integer key
		sort.SliceStable(rws, func(a, b int) bool { return rws[a].w < rws[b].w })
		classes, tied, caseTies := 0, 0, 0
		for j := 1; j < len(rws); j++ {
			a, b := string(rws[j-1].r), string(rws[j].r)
			c := coherent(ctx, k, a, b, fail)
			wantC := -1
			if rws[j-1].w == rws[j].w {
				wantC = 0
				tied++
			} else {
				classes++
			}
			if k.id != sql.Collation_binary && sgn(c) != wantC {
				fail("%s: Compare(%q, %q) = %d but the weights are %d and %d", k.c.Name, a, b, c, rws[j-1].w, rws[j].w)
			}
		}
		st.EvalN(len(rws) - 1)
		// a sample of far pairs, both directions
		for j := 0; j+1 < len(rws); j += 97 {
			a, b := string(rws[j].r), string(rws[len(rws)-1-j].r)
			coherent(ctx, k, a, b, fail)
		}
		// _ci: ASCII letters differ only in case
		if k.ci {
			for ch := 'a'; ch <= 'z'; ch++ {
				if caseExempt(k, ch) {
					st.Class("case-exempt:" + k.c.Name)
					continue
				}
				lo, up := string(ch), string(ch-32)
				if !k.representable(ch) || !k.representable(ch-32) {
					continue
				}
				if c := coherent(ctx, k, lo, up, fail); c != 0 {
					fail("%s: Compare(%q, %q) = %d; a case-insensitive collation must equate them", k.c.Name, lo, up, c)
				}
				caseTies++
			}
		}
		// binary collations: strictly increasing with the code point / character code
		if k.bin {
			var prev []byte
			var prevR rune
			n := 0
			var rs []rune
			for _, r := range runes {
				if k.representable(r) {
					rs = append(rs, r)
				}
			}
			sort.Slice(rs, func(a, b int) bool { return bytes.Compare(k.binKey(string(rs[a])), k.binKey(string(rs[b]))) < 0 })
			for _, r := range rs {
				key := k.binKey(string(r))
				if prev != nil {
					c, err := k.cmp(ctx, string(prevR), string(r))
					if err != nil || c >= 0 {
						fail("%s: Compare(%q U+%04X, %q U+%04X) = %d, %v; a binary collation orders by code (keys %x < %x)",
							k.c.Name, string(prevR), prevR, string(r), r, c, err, prev, key)
					}
				}
				prev, prevR = key, r
				n++
			}
			st.ClassN("bin-order-steps", n)
		}
		st.ClassN("weight-classes", classes)
		st.ClassN("tied-neighbours", tied)
		st.ClassN("ascii-case-pairs", caseTies)
		st.NonTrivial(nil, k.c.Name, "runes")
		if tied > 0 {
			st.NonTrivial(nil, k.c.Name, "ties")
		}
	}
	st.Set("exhaustive", true)
}

// ---- random strings ----------------------------------------------------------------------

// alphabet returns runes worth combining for collation k: members of weight classes with
// several members, ASCII letters of both cases, space, combining marks, a few astral runes.
func alphabet(k coll) []rune {
	byW := map[int32][]rune{}
	for r := rune(0x20); r < 0x2000; r++ {
		if k.representable(r) {
			w := k.c.Sorter(r)
			if len(byW[w]) < 4 {
				byW[w] = append(byW[w], r)
			}
		}
	}
	var ws []int32
	for w, rs := range byW {
		if len(rs) >= 2 {
			ws = append(ws, w)
		}
	}
	sort.Slice(ws, func(i, j int) bool { return ws[i] < ws[j] })
	out := []rune{'a', 'A', 'b', 'B', 'z', 'Z', 'i', 'I', 's', 'S', ' ', '0', '9', '_', '%'}
	for i, w := range ws {
		if i%((len(ws)/24)+1) == 0 {
			out = append(out, byW[w]...)
		}
	}
	for _, r := range []rune{0xDF, 0xE9, 0xC9, 0x130, 0x131, 0x300, 0x301, 0x1F600, 0x10400, 0x10428, 0xFFFD, 0x00, 0x7F, 0x80, 0xFF} {
		if k.representable(r) {
			out = append(out, r)
		}
	}
	return out
}

// flipASCIICase flips the case of the ASCII letters of s, except those for which keep
// (may be nil) returns true.
func flipASCIICase(s string, keep func(rune) bool) string {
	var sb strings.Builder
	for _, r := range s {
		switch {
		case keep != nil && keep(r):
		case r >= 'a' && r <= 'z':
			r -= 32
		case r >= 'A' && r <= 'Z':
			r += 32
		}
		sb.WriteRune(r)
	}
	return sb.String()
}

func TestC29(t *testing.T) {
	st := stats.New("C29", "random")
	defer st.Flush()
	cs, _ := collations()
	alpha := map[sql.CollationID][]rune{}
	ctx := sql.NewEmptyContext()
	rapid.Check(t, func(rt *rapid.T) {
		st.Eval()
		k := cs[rapid.IntRange(0, len(cs)-1).Draw(rt, "collation")]
		al := alpha[k.id]
		if al == nil {
			al = alphabet(k)
			alpha[k.id] = al
		}
		str := rapid.Custom(func(rt *rapid.T) string {
			n := rapid.IntRange(0, 6).Draw(rt, "len")
			var sb strings.Builder
			for i := 0; i < n; i++ {
				sb.WriteRune(rapid.SampledFrom(al).Draw(rt, "r"))
			}
			return sb.String()
		})
		a := str.Draw(rt, "a")
		var b string
		switch rapid.IntRange(0, 3).Draw(rt, "bkind") {
		case 0:
			b = flipASCIICase(a, nil)
		case 1: // replace runes of a by weight-equal or other runes
			rs := []rune(a)
			for i := range rs {
				if rapid.Bool().Draw(rt, "swap") {
					w := k.c.Sorter(rs[i])
					var same []rune
					for _, r := range al {
						if k.c.Sorter(r) == w {
							same = append(same, r)
						}
					}
					rs[i] = rapid.SampledFrom(same).Draw(rt, "eq")
				}
			}
			b = string(rs)
		default:
			b = str.Draw(rt, "b")
		}
		c := str.Draw(rt, "c")
		fail := failFn(rt.Fatalf)

		ab := coherent(ctx, k, a, b, fail)
		bc := coherent(ctx, k, b, c, fail)
		ac := coherent(ctx, k, a, c, fail)
		if aa, err := k.cmp(ctx, a, a); err != nil || aa != 0 {
			fail("%s: Compare(%q, %q) = %d, %v", k.c.Name, a, a, aa, err)
		}
		// transitivity of <= on the triple, in every arrangement
		type e struct {
			x, y string
			v    int
		}
		le := map[[2]string]bool{}
		for _, p := range []e{{a, b, ab}, {b, c, bc}, {a, c, ac}} {
			if p.v <= 0 {
				le[[2]string{p.x, p.y}] = true
			}
			if p.v >= 0 {
				le[[2]string{p.y, p.x}] = true
			}
		}
		for _, x := range []string{a, b, c} {
			for _, y := range []string{a, b, c} {
				for _, z := range []string{a, b, c} {
					if x != y && y != z && x != z && le[[2]string{x, y}] && le[[2]string{y, z}] && !le[[2]string{x, z}] {
						fail("%s: not transitive: %q <= %q <= %q but not %q <= %q (cmp ab=%d bc=%d ac=%d for a=%q b=%q c=%q)",
							k.c.Name, x, y, z, x, z, ab, bc, ac, a, b, c)
					}
				}
			}
		}
		// case clause
		if k.ci {
			f := flipASCIICase(a, func(r rune) bool { return caseExempt(k, r) })
			if v := coherent(ctx, k, a, f, fail); v != 0 {
				fail("%s: Compare(%q, %q) = %d; the strings differ only in the case of ASCII letters", k.c.Name, a, f, v)
			}
		}
		// binary clause
		if k.bin {
			want := bytes.Compare(k.binKey(a), k.binKey(b))
			if sgn(ab) != want {
				fail("%s: Compare(%q, %q) = %d; by code the order is %d (keys %x, %x)", k.c.Name, a, b, ab, want, k.binKey(a), k.binKey(b))
			}
		}
		switch {
		case a != b && ab == 0:
			st.Class("different-strings-equal")
			st.NonTrivial(map[string]any{"collation": k.c.Name, "a": a, "b": b}, k.c.Name, a, b)
		case ab != 0 && sgn(ab) != sgn(strings.Compare(a, b)):
			st.Class("order-differs-from-code-point-order")
			st.NonTrivial(map[string]any{"collation": k.c.Name, "a": a, "b": b, "cmp": ab}, k.c.Name, a, b)
		case a == b:
			st.Class("identical")
		default:
			st.Class("code-point-order")
		}
		if !utf8.ValidString(a) {
			st.Class("invalid-utf8")
		}
	})
}
