package c05

import (
	"fmt"
	"strings"

	"pgregory.net/rapid"
)

// Wide, typed expression grammar: comparisons, arithmetic, string / date / JSON functions,
// CASE, IN, BETWEEN, LIKE, IS, logical connectives. Every operator is applied to operands of
// one type class only (integer with integer, decimal with decimal or an integer literal, string
// with string, date with date): implicit string<->number conversions are not pinned down by
// any property and are not generated. No division, no non-deterministic function, no function
// that can raise an error on the generated operands.

type cls int

const (
	cInt cls = iota
	cDec
	cStr
	cDate
	cDT
	cJSON
)

type colRef struct {
	ref string // rendered reference, e.g. "x1.c0"
	c   cls
}

// W generates expressions over the columns in scope.
type W struct {
	rt    *rapid.T
	cols  []colRef
	nCol  int           // column references emitted so far
	subq  func() string // optional: returns "<intexpr> [NOT] IN (SELECT ...)" / "[NOT] EXISTS (...)" or ""
	feats map[string]bool
}

func (w *W) intn(lo, hi int, l string) int { return rapid.IntRange(lo, hi).Draw(w.rt, l) }
func (w *W) chance(n int, l string) bool   { return rapid.IntRange(0, n-1).Draw(w.rt, l) == 0 }
func (w *W) oneOf(l string, xs ...string) string {
	return rapid.SampledFrom(xs).Draw(w.rt, l)
}
func (w *W) feat(f string) {
	if w.feats != nil {
		w.feats[f] = true
	}
}

func (w *W) colsOf(c cls) []colRef {
	var out []colRef
	for _, x := range w.cols {
		if x.c == c {
			out = append(out, x)
		}
	}
	return out
}

// col returns a column of class c, or "" when there is none.
func (w *W) col(c cls) string {
	cs := w.colsOf(c)
	if len(cs) == 0 {
		return ""
	}
	w.nCol++
	return cs[w.intn(0, len(cs)-1, "col")].ref
}

var (
	strLits  = []string{"", "a", "A", "á", "ab", "aB", "b", "a ", "10", "9", "%", "a_"}
	dateLits = []string{"2019-12-31", "2020-01-01", "2020-01-31", "2020-02-29", "2021-03-01"}
	dtLits   = []string{"2020-01-01 00:00:00", "2020-01-31 23:59:59", "2020-02-29 12:00:00"}
	jsonLits = []string{`{"a":1,"b":"x"}`, `{"a":2}`, `[1,2]`, `"s"`, `1`, `null`}
	likePats = []string{"a%", "%a", "%", "_", "a_", "%b%", "A%", "", "a", "1%", "%á%"}
)

func quote(s string) string { return "'" + strings.ReplaceAll(s, "'", "''") + "'" }

func (w *W) intLit() string {
	if w.chance(25, "nullint") {
		return "NULL"
	}
	return fmt.Sprint(w.intn(-3, 4, "intlit"))
}

func (w *W) decLit() string {
	if w.chance(25, "nulldec") {
		return "NULL"
	}
	k := w.intn(-6, 10, "declit")
	s := fmt.Sprintf("%d.%02d", abs(k)/4, (abs(k)%4)*25)
	if k < 0 {
		s = "-" + s
	}
	return s
}

func abs(i int) int {
	if i < 0 {
		return -i
	}
	return i
}

func (w *W) strLit() string {
	if w.chance(25, "nullstr") {
		return "NULL"
	}
	return quote(rapid.SampledFrom(strLits).Draw(w.rt, "strlit"))
}

func (w *W) dateLit() string {
	return "CAST(" + quote(rapid.SampledFrom(dateLits).Draw(w.rt, "datelit")) + " AS DATE)"
}

// leaf returns a column (preferred) or a literal of the class.
func (w *W) leaf(c cls) string {
	if !w.chance(3, "lit") {
		if s := w.col(c); s != "" {
			return s
		}
	}
	switch c {
	case cInt:
		return w.intLit()
	case cDec:
		return w.decLit()
	case cStr:
		return w.strLit()
	case cDate:
		return w.dateLit()
	case cDT:
		return "CAST(" + quote(rapid.SampledFrom(dtLits).Draw(w.rt, "dtlit")) + " AS DATETIME)"
	default:
		return "CAST(" + quote(rapid.SampledFrom(jsonLits).Draw(w.rt, "jsonlit")) + " AS JSON)"
	}
}

// cond wraps the NULL-handling / conditional forms shared by all classes.
func (w *W) cond(c cls, d int, sub func(int) string) string {
	switch w.intn(0, 4, "cond") {
	case 0:
		w.feat("ifnull")
		return "IFNULL(" + sub(d-1) + "," + sub(d-1) + ")"
	case 1:
		w.feat("nullif")
		return "NULLIF(" + sub(d-1) + "," + sub(d-1) + ")"
	case 2:
		w.feat("coalesce")
		return "COALESCE(" + sub(d-1) + "," + sub(d-1) + "," + sub(0) + ")"
	case 3:
		w.feat("if")
		return "IF(" + w.Bool(d-1) + "," + sub(d-1) + "," + sub(d-1) + ")"
	default:
		w.feat("case")
		s := "(CASE WHEN " + w.Bool(d-1) + " THEN " + sub(d-1)
		if w.chance(2, "when2") {
			s += " WHEN " + w.Bool(d-1) + " THEN " + sub(d-1)
		}
		if w.chance(2, "else") {
			s += " ELSE " + sub(d-1)
		}
		return s + " END)"
	}
}

// Int draws an integer-valued expression.
func (w *W) Int(d int) string {
	if d <= 0 || w.chance(3, "intleaf") {
		return w.leaf(cInt)
	}
	switch w.intn(0, 11, "int") {
	case 0, 1:
		w.feat("arith")
		return "(" + w.Int(d-1) + " " + w.oneOf("aop", "+", "-", "*") + " " + w.Int(d-1) + ")"
	case 2:
		w.feat("numfn")
		return "ABS(" + w.Int(d-1) + ")"
	case 3:
		w.feat("numfn")
		return "SIGN(" + w.Int(d-1) + ")"
	case 4:
		w.feat("numfn")
		// MOD with a negative operand yields -0 (formerly the region of C07-hashin-negzero, repaired)
		return "MOD(" + w.Int(d-1) + "," + w.oneOf("modk", "2", "3", "-2") + ")"
	case 5:
		w.feat("numfn")
		return w.oneOf("gl", "GREATEST", "LEAST") + "(" + w.Int(d-1) + "," + w.Int(d-1) + ")"
	case 6:
		w.feat("strfn")
		return w.oneOf("len", "LENGTH", "CHAR_LENGTH") + "(" + w.Str(d-1) + ")"
	case 7:
		if len(w.colsOf(cDate)) > 0 {
			w.feat("datefn")
			if w.chance(3, "datediff") {
				return "DATEDIFF(" + w.Date(d-1) + "," + w.Date(d-1) + ")"
			}
			return w.oneOf("ymd", "YEAR", "MONTH", "DAYOFMONTH") + "(" + w.Date(d-1) + ")"
		}
		return w.leaf(cInt)
	case 8:
		if c := w.col(cJSON); c != "" {
			w.feat("jsonfn")
			return "JSON_LENGTH(" + c + ")"
		}
		return w.leaf(cInt)
	case 9:
		w.feat("neg")
		return "(- " + w.Int(d-1) + ")"
	default:
		return w.cond(cInt, d, w.Int)
	}
}

// Dec draws a decimal-valued expression.
func (w *W) Dec(d int) string {
	if d <= 0 || w.chance(3, "decleaf") {
		return w.leaf(cDec)
	}
	switch w.intn(0, 6, "dec") {
	case 0, 1:
		w.feat("arith")
		r := w.Dec(d - 1)
		if w.chance(2, "decint") {
			r = w.Int(d - 1)
		}
		return "(" + w.Dec(d-1) + " " + w.oneOf("aop", "+", "-", "*") + " " + r + ")"
	case 2:
		w.feat("numfn")
		return "ABS(" + w.Dec(d-1) + ")"
	case 3:
		w.feat("numfn")
		return "ROUND(" + w.Dec(d-1) + "," + w.oneOf("rk", "0", "1") + ")"
	case 4:
		w.feat("numfn")
		return w.oneOf("gl", "GREATEST", "LEAST") + "(" + w.Dec(d-1) + "," + w.Dec(d-1) + ")"
	default:
		return w.cond(cDec, d, w.Dec)
	}
}

// Str draws a string-valued expression.
func (w *W) Str(d int) string {
	if d <= 0 || w.chance(3, "strleaf") {
		return w.leaf(cStr)
	}
	k := func() string { return fmt.Sprint(w.intn(1, 3, "k")) }
	switch w.intn(0, 9, "str") {
	case 0:
		w.feat("strfn")
		return "CONCAT(" + w.Str(d-1) + "," + w.Str(d-1) + ")"
	case 1:
		w.feat("strfn")
		if w.chance(2, "sub3") {
			return "SUBSTRING(" + w.Str(d-1) + "," + k() + "," + k() + ")"
		}
		return "SUBSTRING(" + w.Str(d-1) + "," + k() + ")"
	case 2:
		w.feat("strfn")
		return w.oneOf("case", "UPPER", "LOWER", "TRIM", "LTRIM", "RTRIM", "REVERSE") + "(" + w.Str(d-1) + ")"
	case 3:
		w.feat("strfn")
		return "REPLACE(" + w.Str(d-1) + "," + quote(w.oneOf("rf", "a", "A", "b", " ")) + "," + quote(w.oneOf("rt", "", "b", "aa")) + ")"
	case 4:
		w.feat("strfn")
		return w.oneOf("lr", "LEFT", "RIGHT") + "(" + w.Str(d-1) + "," + k() + ")"
	case 5:
		w.feat("cast")
		return "CAST(" + w.Int(d-1) + " AS CHAR)"
	case 6:
		if c := w.col(cJSON); c != "" {
			w.feat("jsonfn")
			if w.chance(2, "jtype") {
				return "JSON_TYPE(" + c + ")"
			}
			return "JSON_UNQUOTE(JSON_EXTRACT(" + c + "," + quote(w.oneOf("jp", "$.a", "$.b", "$[0]", "$")) + "))"
		}
		return w.leaf(cStr)
	case 7:
		if len(w.colsOf(cDate)) > 0 {
			w.feat("datefn")
			return "DATE_FORMAT(" + w.Date(d-1) + "," + quote(w.oneOf("df", "%Y-%m", "%d", "%Y")) + ")"
		}
		return w.leaf(cStr)
	default:
		return w.cond(cStr, d, w.Str)
	}
}

// Date draws a DATE-valued expression.
func (w *W) Date(d int) string {
	if d <= 0 || w.chance(2, "dateleaf") {
		return w.leaf(cDate)
	}
	switch w.intn(0, 3, "date") {
	case 0, 1:
		w.feat("datefn")
		return w.oneOf("addsub", "DATE_ADD", "DATE_SUB") + "(" + w.Date(d-1) + ", INTERVAL " + fmt.Sprint(w.intn(0, 31, "ival")) + " " + w.oneOf("unit", "DAY", "MONTH", "YEAR") + ")"
	case 2:
		if c := w.col(cDT); c != "" {
			w.feat("datefn")
			return "DATE(" + c + ")"
		}
		return w.leaf(cDate)
	default:
		return w.cond(cDate, d, w.Date)
	}
}

// operand draws an expression of comparison class c: ints with ints, decimals with decimals
// or integer literals, strings with strings, dates with dates.
func (w *W) operand(c cls, d int) string {
	switch c {
	case cInt:
		return w.Int(d)
	case cDec:
		if w.chance(4, "decintlit") {
			return fmt.Sprint(w.intn(-2, 3, "declit2"))
		}
		return w.Dec(d)
	case cStr:
		return w.Str(d)
	case cDT:
		return w.leaf(cDT)
	default:
		return w.Date(d)
	}
}

func (w *W) cmpClass() cls {
	var cs []cls
	for _, c := range []cls{cInt, cInt, cDec, cStr, cStr, cDate, cDT} {
		if len(w.colsOf(c)) > 0 {
			cs = append(cs, c)
		}
	}
	if len(cs) == 0 {
		return cInt
	}
	return cs[w.intn(0, len(cs)-1, "cmpclass")]
}

// Bool draws a boolean (0 / 1 / NULL) expression.
func (w *W) Bool(d int) string {
	if d > 0 && w.chance(3, "logic") {
		switch w.intn(0, 4, "lop") {
		case 0:
			return "(" + w.Bool(d-1) + " AND " + w.Bool(d-1) + ")"
		case 1:
			return "(" + w.Bool(d-1) + " OR " + w.Bool(d-1) + ")"
		case 2:
			w.feat("xor")
			return "(" + w.Bool(d-1) + " XOR " + w.Bool(d-1) + ")"
		case 3:
			w.feat("istrue")
			return "(" + w.Bool(d-1) + " IS " + w.oneOf("isnot", "", "NOT ") + w.oneOf("tf", "TRUE", "FALSE") + ")"
		default:
			return "(NOT " + w.Bool(d-1) + ")"
		}
	}
	c := w.cmpClass()
	switch w.intn(0, 10, "bool") {
	case 0, 1, 2:
		op := w.oneOf("cmp", "=", "=", "<>", "<", "<=", ">", ">=", "<=>")
		return "(" + w.operand(c, d-1) + " " + op + " " + w.operand(c, d-1) + ")"
	case 3:
		w.feat("isnull")
		cc := c
		if w.chance(4, "jsonnull") && len(w.colsOf(cJSON)) > 0 {
			w.feat("jsonfn")
			return "(JSON_EXTRACT(" + w.col(cJSON) + "," + quote(w.oneOf("jp", "$.a", "$.b", "$[1]")) + ") IS " + w.oneOf("isnot", "", "NOT ") + "NULL)"
		}
		return "(" + w.operand(cc, d-1) + " IS " + w.oneOf("isnot", "", "NOT ") + "NULL)"
	case 4:
		w.feat("between")
		return "(" + w.operand(c, d-1) + " " + w.oneOf("nb", "", "", "NOT ") + "BETWEEN " + w.operand(c, 0) + " AND " + w.operand(c, 0) + ")"
	case 5:
		w.feat("inlist")
		n := w.intn(1, 4, "nin")
		var ls []string
		for i := 0; i < n; i++ {
			switch c {
			case cInt:
				ls = append(ls, w.intLit())
			case cDec:
				ls = append(ls, w.decLit())
			case cStr:
				ls = append(ls, w.strLit())
			default:
				ls = append(ls, w.leaf(c))
			}
		}
		return "(" + w.operand(c, d-1) + " " + w.oneOf("ni", "", "", "NOT ") + "IN (" + strings.Join(ls, ",") + "))"
	case 6:
		w.feat("like")
		return "(" + w.Str(d-1) + " " + w.oneOf("nl", "", "", "NOT ") + "LIKE " + quote(rapid.SampledFrom(likePats).Draw(w.rt, "pat")) + ")"
	case 7:
		if len(w.colsOf(cJSON)) > 0 && w.chance(2, "jsonbool") {
			w.feat("jsonfn")
			if w.chance(2, "jcontains") {
				return "JSON_CONTAINS(" + w.col(cJSON) + "," + quote(w.oneOf("jc", "1", "2", `"x"`)) + ")"
			}
			return "JSON_CONTAINS_PATH(" + w.col(cJSON) + ",'one'," + quote(w.oneOf("jp", "$.a", "$.b", "$[1]")) + ")"
		}
		w.feat("jsonfn")
		return "JSON_VALID(" + w.Str(d-1) + ")"
	case 8:
		if w.subq != nil && d > 0 {
			if s := w.subq(); s != "" {
				w.feat("subquery")
				return s
			}
		}
		fallthrough
	case 9:
		if d > 0 {
			w.feat("boolcond")
			if w.chance(2, "boolif") {
				return "IF(" + w.Bool(d-1) + "," + w.Bool(d-1) + "," + w.Bool(d-1) + ")"
			}
			return "(CASE WHEN " + w.Bool(d-1) + " THEN " + w.Bool(d-1) + " ELSE " + w.Bool(d-1) + " END)"
		}
		fallthrough
	default:
		op := w.oneOf("cmp2", "=", "<>", "<", ">=")
		return "(" + w.operand(c, 0) + " " + op + " " + w.operand(c, 0) + ")"
	}
}
