// Package c05 checks property C05: a predicate partitions the rows of a query into its TRUE,
// FALSE and NULL parts (ternary-logic partitioning), and filtering by p in WHERE, HAVING or an
// inner-join ON keeps exactly the rows for which p evaluates to TRUE in the select list.
package c05

import (
	"fmt"
	"math/big"
	"os"
	"strings"
	"testing"

	"github.com/dolthub/go-mysql-server/vh/internal/fx"
	"github.com/dolthub/go-mysql-server/vh/internal/gen"
	"github.com/dolthub/go-mysql-server/vh/internal/kf"
	"github.com/dolthub/go-mysql-server/vh/internal/stats"
	"pgregory.net/rapid"
)

// extra columns every table gets besides the INT / DECIMAL / VARCHAR columns drawn by gen, so
// that date and JSON functions have column operands
type extras struct {
	rows  [][3]string // per row: DATE, DATETIME, JSON literal (or NULL)
	keyed bool        // KEY on the DATE column
}

func genExtras(rt *rapid.T, tb *gen.Table) extras {
	var e extras
	e.keyed = rapid.IntRange(0, 2).Draw(rt, "datekey") == 0
	for range tb.Rows {
		var r [3]string
		for i, pool := range [][]string{dateLits, dtLits, jsonLits} {
			if rapid.IntRange(0, 3).Draw(rt, "xnull") == 0 {
				r[i] = "NULL"
			} else {
				r[i] = quote(rapid.SampledFrom(pool).Draw(rt, "xv"))
			}
		}
		e.rows = append(e.rows, r)
	}
	return e
}

// ddl renders CREATE TABLE / INSERT for a gen table extended by the extra columns.
func ddl(tb *gen.Table, e extras) []string {
	var parts []string
	for _, c := range tb.Cols {
		d := c.Name + " " + c.Kind.DDL()
		if !c.Nullable {
			d += " NOT NULL"
		}
		parts = append(parts, d)
	}
	parts = append(parts, "d0 DATE", "dt0 DATETIME", "j0 JSON")
	names := func(idx []int) string {
		ns := make([]string, len(idx))
		for i, c := range idx {
			ns[i] = tb.Cols[c].Name
		}
		return strings.Join(ns, ",")
	}
	if len(tb.PK) > 0 {
		parts = append(parts, "PRIMARY KEY ("+names(tb.PK)+")")
	}
	for i, idx := range tb.Indexes {
		parts = append(parts, fmt.Sprintf("KEY k%d (%s)", i, names(idx)))
	}
	if e.keyed {
		parts = append(parts, "KEY kd (d0)")
	}
	out := []string{"CREATE TABLE " + tb.Name + " (" + strings.Join(parts, ", ") + ")"}
	if len(tb.Rows) > 0 {
		var rows []string
		for ri, r := range tb.Rows {
			vs := make([]string, 0, len(r)+3)
			for i, v := range r {
				vs = append(vs, v.Lit(tb.Cols[i].Kind))
			}
			vs = append(vs, e.rows[ri][0], e.rows[ri][1], e.rows[ri][2])
			rows = append(rows, "("+strings.Join(vs, ",")+")")
		}
		out = append(out, "INSERT INTO "+tb.Name+" VALUES "+strings.Join(rows, ","))
	}
	return out
}

func classOf(k gen.Kind) cls {
	switch k {
	case gen.KInt:
		return cInt
	case gen.KDec:
		return cDec
	default:
		return cStr
	}
}

// scopeCols lists the columns of the FROM items [0, upto).
func scopeCols(q *gen.Select, upto int) []colRef {
	var out []colRef
	for _, f := range q.From[:upto] {
		for _, c := range f.Table.Cols {
			out = append(out, colRef{f.Alias + "." + c.Name, classOf(c.Kind)})
		}
		out = append(out, colRef{f.Alias + ".d0", cDate}, colRef{f.Alias + ".dt0", cDT}, colRef{f.Alias + ".j0", cJSON})
	}
	return out
}

func raw(s string) gen.Expr { return &gen.Raw{Text: s, K: gen.KInt} }

// truth classifies the value of p in the select list: 1 TRUE, 0 FALSE, -1 NULL, 2 not a number.
func truth(v string) int {
	if v == "N" {
		return -1
	}
	if strings.HasPrefix(v, "n:") || strings.HasPrefix(v, "f:") {
		r, ok := new(big.Rat).SetString(v[2:])
		if !ok {
			return 2
		}
		if r.Sign() == 0 {
			return 0
		}
		return 1
	}
	return 2
}

type stmt struct {
	name string
	sql  string
	res  *fx.Result
	rows [][]string
}

func TestC05(t *testing.T) {
	st := stats.New("C05", "")
	defer st.Flush()
	maxRows, depth := 10, 3
	if os.Getenv("VERIF_TIER") == "thorough" {
		maxRows, depth = 14, 4
	}
	rapid.Check(t, func(rt *rapid.T) {
		st.Eval()
		schema := gen.GenSchema(rt, gen.SchemaOpts{MinTables: 1, MaxTables: 3, MaxRows: maxRows, Keys: true})
		var setup []string
		for _, tb := range schema.Tables {
			setup = append(setup, ddl(tb, genExtras(rt, tb))...)
		}
		g := gen.NewG(rt, schema)
		g.NoGroup, g.NoOrder, g.NoSetOp, g.MaxJoin = true, true, true, 3
		q := g.Select()
		q.Distinct = false
		if rapid.IntRange(0, 2).Draw(rt, "dropwhere") > 0 {
			q.Where = nil // most generated WHERE clauses leave Q empty at these table sizes
		}
		excl := map[string]int{}
		sanitize(rt, q, excl)
		if reorderRegion(q) {
			st.Excluded(idReorder)
			return
		}

		w := &W{rt: rt, feats: map[string]bool{}}
		nSub := 0
		w.subq = func() string {
			ints := w.colsOf(cInt)
			if len(ints) == 0 {
				return ""
			}
			w.nCol++
			oc := ints[w.intn(0, len(ints)-1, "sqoc")].ref
			tb := schema.Tables[w.intn(0, len(schema.Tables)-1, "sqtab")]
			nSub++
			z := fmt.Sprintf("z%d", nSub)
			not := w.oneOf("sqnot", "", "NOT ")
			if w.chance(2, "sqexists") {
				return "(" + not + "EXISTS (SELECT 1 FROM " + tb.Name + " " + z + " WHERE " + z + ".c0 " + w.oneOf("sqop", "=", "=", "<", ">=") + " " + oc + "))"
			}
			where := ""
			if w.chance(2, "sqwhere") {
				where = " WHERE " + z + ".c0 " + w.oneOf("sqop2", ">", "<=", "<>") + " " + fmt.Sprint(w.intn(-2, 3, "sqlit"))
			}
			return "(" + oc + " " + not + "IN (SELECT " + z + ".c0 FROM " + tb.Name + " " + z + where + "))"
		}

		// the five statements of one partition: base, projection of p, and the three filters
		var render func(p string, part int) string // part: -2 base, -1 projection, 0 TRUE, 1 FALSE, 2 NULL
		filter := func(p string, part int) gen.Expr {
			switch part {
			case 0:
				return raw("(" + p + ")")
			case 1:
				return raw("(NOT (" + p + "))")
			default:
				return raw("((" + p + ") IS NULL)")
			}
		}
		mode := rapid.SampledFrom([]string{"where", "where", "having", "on"}).Draw(rt, "mode")
		onIdx := -1
		if mode == "on" {
			// an INNER join with no RIGHT join after it (rows a later RIGHT join NULL-extends are not
			// derived from the rows of this join, so they belong to every part); while the reorder
			// finding is listed also no outer join before it (an extra ON conjunct after an outer
			// join is its region)
			for i := 1; i < len(q.From); i++ {
				ok := q.From[i].Join == "INNER"
				for j := i + 1; j < len(q.From); j++ {
					ok = ok && q.From[j].Join != "RIGHT"
				}
				for j := 1; j < i; j++ {
					if kf.Listed(idReorder) && (q.From[j].Join == "LEFT" || q.From[j].Join == "RIGHT") {
						if ok {
							excl[idReorder]++
						}
						ok = false
					}
				}
				if ok {
					onIdx = i
					break
				}
			}
			if onIdx < 0 {
				mode = "where"
			}
		}
		var p string
		switch mode {
		case "where":
			w.cols = scopeCols(q, len(q.From))
			p = w.Bool(depth)
			var items []gen.Item
			for _, c := range w.cols {
				items = append(items, gen.Item{E: raw(c.ref)})
			}
			where := q.Where
			render = func(p string, part int) string {
				q.Items, q.Where = items, where
				switch {
				case part == -1:
					q.Items = append(append([]gen.Item{}, items...), gen.Item{E: raw("(" + p + ")"), Alias: "v"})
				case part >= 0:
					q.Where = and(where, filter(p, part))
				}
				return q.SQL()
			}
		case "on":
			w.cols = scopeCols(q, onIdx+1)
			p = w.Bool(depth)
			var items []gen.Item
			for _, c := range scopeCols(q, len(q.From)) {
				items = append(items, gen.Item{E: raw(c.ref)})
			}
			on := q.From[onIdx].On
			render = func(p string, part int) string {
				q.Items, q.From[onIdx].On = items, on
				switch {
				case part == -1:
					q.Items = append(append([]gen.Item{}, items...), gen.Item{E: raw("(" + p + ")"), Alias: "v"})
				case part >= 0:
					q.From[onIdx].On = and(on, filter(p, part))
				}
				return q.SQL()
			}
		case "having":
			all := scopeCols(q, len(q.From))
			var groupable []colRef
			for _, c := range all {
				if c.c != cJSON {
					groupable = append(groupable, c)
				}
			}
			var atoms []colRef
			var items []gen.Item
			q.GroupBy = nil
			ng := rapid.IntRange(0, 2).Draw(rt, "ngroup")
			for i := 0; i < ng; i++ {
				c := groupable[rapid.IntRange(0, len(groupable)-1).Draw(rt, "gcol")]
				dup := false
				for _, a := range atoms {
					dup = dup || a.ref == c.ref
				}
				if !dup {
					atoms = append(atoms, c)
					q.GroupBy = append(q.GroupBy, raw(c.ref))
				}
			}
			na := rapid.IntRange(1, 3).Draw(rt, "nagg")
			for i := 0; i < na; i++ {
				c := groupable[rapid.IntRange(0, len(groupable)-1).Draw(rt, "aggcol")]
				var a colRef
				switch sel := rapid.IntRange(0, 4).Draw(rt, "aggfn"); {
				case sel == 0:
					a = colRef{"COUNT(*)", cInt}
				case sel == 1:
					a = colRef{"COUNT(" + c.ref + ")", cInt}
				case sel == 2 && c.c == cInt:
					a = colRef{"SUM(" + c.ref + ")", cDec}
				default:
					a = colRef{rapid.SampledFrom([]string{"MIN", "MAX"}).Draw(rt, "mm") + "(" + c.ref + ")", c.c}
				}
				atoms = append(atoms, a)
			}
			for _, a := range atoms {
				items = append(items, gen.Item{E: raw(a.ref)})
			}
			w.cols, w.subq = atoms, nil
			p = w.Bool(depth)
			q.Grouped = true
			render = func(p string, part int) string {
				q.Items, q.Having = items, nil
				switch {
				case part == -1:
					q.Items = append(append([]gen.Item{}, items...), gen.Item{E: raw("(" + p + ")"), Alias: "v"})
				case part >= 0:
					q.Having = filter(p, part)
				}
				return q.SQL()
			}
		}

		if kf.Listed(idCorrSub) && nSub > 0 && len(q.From) > 1 {
			// region of C05-correlated-subquery-filter-misplaced (while listed): p contains a
			// correlated subquery and Q joins several tables, so a conjunct of p may read one of
			// them only through the subquery
			st.Excluded(idCorrSub)
			return
		}

		f := fx.New(fx.Opts{})
		defer f.Close()
		s := f.NewSession("", "", "")
		s.MustExec(rt.Fatalf, setup...)
		names := []string{"Q", "Q+p in select list", "p", "NOT p", "p IS NULL"}
		var ss []stmt
		for i, part := range []int{-2, -1, 0, 1, 2} {
			x := stmt{name: names[i], sql: render(p, part)}
			x.res = s.Exec(x.sql)
			if x.res.OK() {
				x.rows = fx.NormRows(x.res.Schema, x.res.Rows)
			}
			ss = append(ss, x)
		}
		st.Class("mode:" + mode)
		for k, n := range g.Excl {
			for i := 0; i < n; i++ {
				st.Excluded(k)
			}
		}
		for k, n := range excl {
			for i := 0; i < n; i++ {
				st.Excluded(k)
			}
		}
		for _, x := range ss {
			if !x.res.OK() {
				// p is not total (or the engine cannot plan the statement: errors are matters of
				// C02 / C10); the statement about row sets says nothing here
				switch {
				case x.res.Panic != nil:
					st.Class("discard:panic")
				case x.res.TimedOut:
					st.Class("discard:timeout")
				default:
					msg := x.res.Err.Error()
					if len(msg) > 48 {
						msg = msg[:48]
					}
					st.Class("discard:error")
					st.Class("discard:error: " + msg)
				}
				return
			}
		}
		for _, x := range ss {
			if id := rangeHeapRegion(s.Plan(x.sql)); id != "" {
				st.Excluded(id)
				return
			}
		}
		report := func(what string) {
			var sb strings.Builder
			for _, x := range ss {
				fmt.Fprintf(&sb, "[%s]\n  %s\n  -> %s\n", x.name, x.sql, fx.Show(x.rows))
			}
			rt.Fatalf("%s (p in %s)\nsetup: %s\np: %s\n%s", what, strings.ToUpper(mode), strings.Join(setup, "; "), p, sb.String())
		}
		// evaluating p in the select list does not change the rows of Q
		base, proj := ss[0].rows, ss[1].rows
		var parts [3][][]string
		var stripped [][]string
		for _, r := range proj {
			n := len(r) - 1
			stripped = append(stripped, r[:n])
			switch truth(r[n]) {
			case 1:
				parts[0] = append(parts[0], r[:n])
			case 0:
				parts[1] = append(parts[1], r[:n])
			case -1:
				parts[2] = append(parts[2], r[:n])
			default:
				st.Class("discard:p-not-numeric")
				return
			}
		}
		if !fx.MultisetEqual(base, stripped) {
			report("adding p to the select list changed the rows of Q")
		}
		// filtering by p / NOT p / p IS NULL keeps exactly the rows whose p is TRUE / FALSE / NULL
		for i := 0; i < 3; i++ {
			if !fx.MultisetEqual(ss[2+i].rows, parts[i]) {
				report(fmt.Sprintf("filtering by [%s] does not keep exactly the rows where p is %s in the select list (%s)",
					ss[2+i].name, []string{"TRUE", "FALSE", "NULL"}[i], fx.Show(parts[i])))
			}
		}
		// (the three parts are disjoint and cover Q by construction of the classification)
		for _, l := range g.L.Sorted() {
			st.Class("q:" + l)
		}
		for l := range w.feats {
			st.Class("p:" + l)
		}
		nonEmpty := 0
		for i := 0; i < 3; i++ {
			if len(parts[i]) > 0 {
				nonEmpty++
			}
		}
		st.Class(fmt.Sprintf("nonempty-parts:%d", nonEmpty))
		if w.nCol == 0 {
			st.Class("p-without-column")
		}
		if nonEmpty >= 2 && w.nCol > 0 {
			st.NonTrivial(map[string]any{"mode": mode, "statement": ss[2].sql, "parts": []int{len(parts[0]), len(parts[1]), len(parts[2])}},
				strings.Join(setup, ";"), ss[2].sql)
		}
	})
}

func TestReplayC05(t *testing.T) {
	st := stats.New("C05", "replay")
	defer st.Flush()
	fx.ReplayDir(t, st)
}
