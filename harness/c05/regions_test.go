package c05

import (
	"strings"

	"github.com/dolthub/go-mysql-server/vh/internal/gen"
	"github.com/dolthub/go-mysql-server/vh/internal/kf"
	"pgregory.net/rapid"
)

// Regions of known findings of the join planner that a statement drawn by internal/gen can
// still reach (copied from harness/c01/aug_test.go, which explains each; internal/gen is
// lead-owned and excludes the C02 regions unconditionally). A ternary-logic partition runs four
// statements whose plans differ, so a plan-dependent defect shows up here as a broken
// partition. Each exclusion is conditional on kf.Listed so that the region is searched again
// once the finding is repaired.
const (
	idReorder  = "C01-join-reorder-drops-conjunct"
	idRound    = "C01-lookup-key-rounding"
	idOuterSub = "C02-outer-join-false-on-subquery"
	idInterm   = "C02-reorder-join-intermediate-expr"
	idRHFilter = "C01-rangeheap-drops-index-filter"
	idRHType   = "C01-rangeheap-mixed-type-compare"
	idHashDec  = "C01-hashjoin-decimal-scale-key"
	// finding of this property: a WHERE / ON conjunct whose only reference to a table is inside a
	// correlated subquery is attached to a join below the one that supplies that table
	idCorrSub = "C05-correlated-subquery-filter-misplaced"
)

func and(l, r gen.Expr) gen.Expr {
	if l == nil {
		return r
	}
	return &gen.Logic{Op: "AND", L: l, R: r}
}

// sanitize rewrites the statement out of the listed regions and counts the rewrites.
func sanitize(rt *rapid.T, q *gen.Select, excl map[string]int) {
	if kf.Listed(idHashDec) {
		fix := func(x, other gen.Expr) {
			if l, ok := x.(*gen.Lit); ok && l.K == gen.KDec && !l.V.Null && l.V.R.IsInt() && other.Kind() == gen.KInt {
				l.K = gen.KInt
				excl[idHashDec]++
			}
		}
		eachSelect(q, func(e gen.Expr) {
			if c, ok := e.(*gen.CmpE); ok && (c.Op == "=" || c.Op == "<=>") {
				fix(c.L, c.R)
				fix(c.R, c.L)
			}
		})
	}
	if kf.Listed(idOuterSub) && hasSubquery(q) {
		for i := range q.From {
			f := &q.From[i]
			if f.On != nil {
				var on gen.Expr
				for _, c := range gen.Conjuncts(f.On) {
					if gen.HasColumn(c) {
						on = and(on, c)
					} else {
						excl[idOuterSub]++
					}
				}
				if on != nil {
					f.On = on
				}
			}
		}
	}
	if kf.Listed(idRound) {
		eachSelect(q, func(e gen.Expr) {
			if b, ok := e.(*gen.Between); ok && b.Lo.SQL() == b.Hi.SQL() {
				x, xok := b.E.(*gen.ColRef)
				lo, lok := b.Lo.(*gen.ColRef)
				if xok && lok && x.K != lo.K {
					l := &gen.Lit{V: gen.GenVal(rt, x.K, false, "roundlit2"), K: x.K}
					b.Lo, b.Hi = l, l
					excl[idRound]++
				}
			}
			if c, ok := e.(*gen.CmpE); ok && c.Op == "<>" {
				l, lok := c.L.(*gen.ColRef)
				r, rok := c.R.(*gen.ColRef)
				if lok && rok && l.K != r.K {
					c.R = &gen.Lit{V: gen.GenVal(rt, r.K, false, "roundlit"), K: r.K}
					excl[idRound]++
				}
			}
		})
	}
}

// rangeHeapRegion reports whether an analysed plan lies in the region of one of the listed
// range-heap-join findings (decided on the plan, since whether a range heap join is chosen
// depends on the cost model).
func rangeHeapRegion(planText string) string {
	if !strings.Contains(planText, "RangeHeapJoin") {
		return ""
	}
	if kf.Listed(idRHFilter) {
		return idRHFilter
	}
	if kf.Listed(idRHType) {
		return idRHType
	}
	return ""
}

func hasSubquery(q *gen.Select) bool {
	found := false
	eachSelect(q, func(e gen.Expr) {
		switch e.(type) {
		case *gen.InSub, *gen.Exists, *gen.ScalarSub:
			found = true
		}
	})
	return found
}

func eachSelect(q *gen.Select, fn func(gen.Expr)) {
	for _, it := range q.Items {
		walk(it.E, fn)
	}
	for _, f := range q.From {
		walk(f.On, fn)
	}
	walk(q.Where, fn)
	for _, g := range q.GroupBy {
		walk(g, fn)
	}
	walk(q.Having, fn)
}

func walk(e gen.Expr, fn func(gen.Expr)) {
	if e == nil {
		return
	}
	fn(e)
	switch x := e.(type) {
	case *gen.CmpE:
		walk(x.L, fn)
		walk(x.R, fn)
	case *gen.IsNull:
		walk(x.E, fn)
	case *gen.Logic:
		walk(x.L, fn)
		walk(x.R, fn)
	case *gen.Not:
		walk(x.E, fn)
	case *gen.Between:
		walk(x.E, fn)
		walk(x.Lo, fn)
		walk(x.Hi, fn)
	case *gen.InList:
		walk(x.E, fn)
		for _, l := range x.List {
			walk(l, fn)
		}
	case *gen.Case:
		for i := range x.Whens {
			walk(x.Whens[i], fn)
			walk(x.Thens[i], fn)
		}
		if x.Else != nil {
			walk(x.Else, fn)
		}
	case *gen.Coalesce:
		for _, y := range x.Args {
			walk(y, fn)
		}
	case *gen.Arith:
		walk(x.L, fn)
		walk(x.R, fn)
	case *gen.InSub:
		walk(x.E, fn)
		eachSelect(x.Q, fn)
	case *gen.Exists:
		eachSelect(x.Q, fn)
	case *gen.ScalarSub:
		eachSelect(x.Q, fn)
	case *gen.Agg:
		if x.Arg != nil {
			walk(x.Arg, fn)
		}
	}
}

// reorderRegion reports whether adding a conjunct to the statement can put it into the region of
// C01-join-reorder-drops-conjunct (while listed): an INNER or CROSS join after an outer join,
// whose join condition then consists of conjuncts over different table sets (WHERE conjuncts
// over several tables are moved into such joins), one of which is lost when the memo reorders
// the joins. Such statements are skipped.
func reorderRegion(q *gen.Select) bool {
	if !kf.Listed(idReorder) {
		return false
	}
	outer := false
	for i, f := range q.From {
		if i > 0 && outer && (f.Join == "INNER" || f.Join == "CROSS") {
			return true
		}
		if f.Join == "LEFT" || f.Join == "RIGHT" {
			outer = true
		}
	}
	return false
}
