package c05

import (
	"testing"

	"github.com/dolthub/go-mysql-server/vh/internal/fx"
	"github.com/dolthub/go-mysql-server/vh/internal/stats"
)

// TestC05Known is a regression witness: MOD(-2,-2) is -0, the select list says -0 IN (1,0) is
// TRUE, and before /repo 4fbce1b30 (finding C07-hashin-negzero, status fixed) the WHERE clause
// (hashed IN list) dropped the row. The witness must satisfy the property.
func TestC05Known(t *testing.T) {
	st := stats.New("C05", "known")
	defer st.Flush()
	f := fx.New(fx.Opts{})
	defer f.Close()
	s := f.NewSession("", "", "")
	s.MustExec(t.Fatalf, "CREATE TABLE t1 (c0 INT NOT NULL, PRIMARY KEY (c0))", "INSERT INTO t1 VALUES (-2),(3),(1)")
	for _, p := range []string{"MOD(x1.c0,-2) IN (1,0)", "MOD(x1.c0,2) IN (1,0)", "MOD(x1.c0,2) NOT IN (1,0)"} {
		st.Eval()
		sel := s.Exec("SELECT x1.c0, (" + p + ") AS v FROM t1 x1")
		fil := s.Exec("SELECT x1.c0 FROM t1 x1 WHERE (" + p + ")")
		if !sel.OK() || !fil.OK() {
			t.Fatalf("witness statements failed: %s / %s", sel, fil)
		}
		var want [][]string
		for _, r := range fx.NormRows(sel.Schema, sel.Rows) {
			if truth(r[1]) == 1 {
				want = append(want, r[:1])
			}
		}
		if !fx.MultisetEqual(fx.NormRows(fil.Schema, fil.Rows), want) {
			t.Errorf("regression of C07-hashin-negzero: WHERE %s returns %s but p is TRUE in the select list for %s", p, fil, fx.Show(want))
		}
		st.NonTrivial(nil, "witness", p)
	}
}
