package c05

import (
	"testing"

	"github.com/dolthub/go-mysql-server/vh/internal/fx"
	"github.com/dolthub/go-mysql-server/vh/internal/kf"
	"github.com/dolthub/go-mysql-server/vh/internal/stats"
)

// witness: after setup, the rows of "SELECT cols FROM from WHERE p" must be exactly the rows of
// "SELECT cols, p FROM from" whose p is TRUE. id "" marks a regression witness of a repaired
// finding (must hold); otherwise: id listed => must still misbehave (else reported as stale, not
// as a failure); id not listed => must hold.
type witness struct {
	id, name   string
	setup      []string
	cols, from string
	p          string
}

var witnesses = []witness{
	// MOD(-2,-2) is -0; before /repo 4fbce1b30 (C07-hashin-negzero, fixed) the hashed IN list of
	// the filter did not find -0 among (1,0) although -0 IN (1,0) is TRUE in the select list
	{"", "hashin-negzero-1", []string{"CREATE TABLE t1 (c0 INT NOT NULL, PRIMARY KEY (c0))", "INSERT INTO t1 VALUES (-2),(3),(1)"},
		"x1.c0", "t1 x1", "MOD(x1.c0,-2) IN (1,0)"},
	{"", "hashin-negzero-2", []string{"CREATE TABLE t1 (c0 INT NOT NULL, PRIMARY KEY (c0))", "INSERT INTO t1 VALUES (-2),(3),(1)"},
		"x1.c0", "t1 x1", "MOD(x1.c0,2) NOT IN (1,3)"},
	// the conjunct reads x1 only inside the correlated subquery; the planner attaches it to the
	// join of x3 and x2, where the subquery's outer reference reads a column of x3
	{idCorrSub, "correlated-subquery", []string{"CREATE TABLE t0 (c0 INT, c1 INT)", "INSERT INTO t0 VALUES (0,NULL),(NULL,NULL),(NULL,1),(NULL,NULL),(NULL,NULL),(NULL,1),(1,NULL)"},
		"x1.c0, x2.c0, x3.c0", "t0 x1 INNER JOIN t0 x2 ON (x1.c0 = x2.c0) CROSS JOIN t0 x3",
		"(NOT EXISTS (SELECT 1 FROM t0 z1 WHERE z1.c0 < x1.c0)) OR (x3.c0 = x2.c0)"},
}

func TestC05Known(t *testing.T) {
	st := stats.New("C05", "known")
	defer st.Flush()
	for _, w := range witnesses {
		st.Eval()
		f := fx.New(fx.Opts{})
		s := f.NewSession("", "", "")
		s.MustExec(t.Fatalf, w.setup...)
		sel := s.Exec("SELECT " + w.cols + ", (" + w.p + ") AS v FROM " + w.from)
		fil := s.Exec("SELECT " + w.cols + " FROM " + w.from + " WHERE (" + w.p + ")")
		f.Close()
		if !sel.OK() {
			t.Fatalf("witness %s: select-list statement failed: %s", w.name, sel)
		}
		var want [][]string
		for _, r := range fx.NormRows(sel.Schema, sel.Rows) {
			if n := len(r) - 1; truth(r[n]) == 1 {
				want = append(want, r[:n])
			}
		}
		ok := fil.OK() && fx.MultisetEqual(fx.NormRows(fil.Schema, fil.Rows), want)
		switch {
		case ok && w.id != "" && kf.Listed(w.id):
			t.Logf("witness %s of listed finding %s no longer reproduces (stale listing?)", w.name, w.id)
		case ok:
			st.NonTrivial(nil, "witness", w.name)
		case w.id != "" && kf.Suppress(st, w.id):
			st.NonTrivial(nil, "witness", w.name)
			t.Logf("known finding %s reproduces: WHERE %s returns %s, p is TRUE in the select list for %s", w.id, w.p, fil, fx.Show(want))
		default:
			t.Errorf("witness %s (finding %q not listed as known): WHERE %s returns %s but p is TRUE in the select list for exactly %s", w.name, w.id, w.p, fil, fx.Show(want))
		}
	}
}
