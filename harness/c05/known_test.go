package c05

import (
	"testing"

	"github.com/dolthub/go-mysql-server/vh/internal/fx"
	"github.com/dolthub/go-mysql-server/vh/internal/kf"
	"github.com/dolthub/go-mysql-server/vh/internal/stats"
)

// TestC05Known re-confirms the witness of C05-hashin-negative-zero: MOD(-2,-2) is -0, the
// select list says -0 IN (1,0) is TRUE, the WHERE clause (hashed IN list) drops the row. Listed:
// must still misbehave (else reported as stale); not listed: must satisfy the property.
func TestC05Known(t *testing.T) {
	st := stats.New("C05", "known")
	defer st.Flush()
	st.Eval()
	f := fx.New(fx.Opts{})
	defer f.Close()
	s := f.NewSession("", "", "")
	s.MustExec(t.Fatalf, "CREATE TABLE t1 (c0 INT NOT NULL, PRIMARY KEY (c0))", "INSERT INTO t1 VALUES (-2),(3)")
	sel := s.Exec("SELECT x1.c0, (MOD(x1.c0,-2) IN (1,0)) AS v FROM t1 x1")
	fil := s.Exec("SELECT x1.c0 FROM t1 x1 WHERE (MOD(x1.c0,-2) IN (1,0))")
	if !sel.OK() || !fil.OK() {
		t.Fatalf("witness statements failed: %s / %s", sel, fil)
	}
	var want [][]string
	for _, r := range fx.NormRows(sel.Schema, sel.Rows) {
		if truth(r[1]) == 1 {
			want = append(want, r[:1])
		}
	}
	ok := fx.MultisetEqual(fx.NormRows(fil.Schema, fil.Rows), want)
	switch {
	case ok && kf.Listed(idNegZero):
		t.Logf("witness of listed finding %s no longer reproduces (stale listing?)", idNegZero)
	case ok:
		st.NonTrivial(nil, "witness")
	case kf.Suppress(st, idNegZero):
		st.NonTrivial(nil, "witness")
		t.Logf("known finding %s reproduces: select list %s, filter %s", idNegZero, sel, fil)
	default:
		t.Errorf("finding %s (not listed as known): WHERE MOD(c0,-2) IN (1,0) returns %s but p is TRUE in the select list for %s", idNegZero, fil, fx.Show(want))
	}
}
