package c34

import (
	"fmt"
	"math"
	"math/big"
	"strconv"
	"strings"
	"testing"

	"github.com/dolthub/go-mysql-server/vh/internal/fx"
	"github.com/dolthub/go-mysql-server/vh/internal/stats"
	"pgregory.net/rapid"
)

// Proposed known-finding ids for the conversion functions (see notes/C34.md).
const (
	kfInetNtoaInt32 = "C34-inet-ntoa-int32" // INET_NTOA converts through INT: values >= 2^31 give 127.255.255.255
)

func genBytes(rt *rapid.T, label string) []byte {
	var n int
	switch rapid.IntRange(0, 5).Draw(rt, label+"LenClass") {
	case 0:
		n = rapid.SampledFrom([]int{0, 1, 2, 3, 56, 57, 58, 114, 115}).Draw(rt, label+"Len") // around the 76-column base64 wrap
	case 1:
		n = rapid.IntRange(0, 200).Draw(rt, label+"Len")
	default:
		n = rapid.IntRange(0, 12).Draw(rt, label+"Len")
	}
	b := make([]byte, n)
	switch rapid.IntRange(0, 3).Draw(rt, label+"Content") {
	case 0: // repetitive (compressible)
		c := byte(rapid.IntRange(0, 255).Draw(rt, label+"Fill"))
		for i := range b {
			b[i] = c
		}
	case 1: // bytes that matter: NUL, quotes, 0x80.., 0xFF
		for i := range b {
			b[i] = rapid.SampledFrom([]byte{0, 1, '\'', '\\', ' ', 'a', 0x7f, 0x80, 0xc3, 0xa9, 0xff, '\n', '='}).Draw(rt, fmt.Sprintf("%s%d", label, i))
		}
	default:
		for i := range b {
			b[i] = byte(rapid.IntRange(0, 255).Draw(rt, fmt.Sprintf("%s%d", label, i)))
		}
	}
	return b
}

func genUint64(rt *rapid.T, label string) uint64 {
	switch rapid.IntRange(0, 4).Draw(rt, label+"Class") {
	case 0:
		return rapid.SampledFrom([]uint64{0, 1, 2, 9, 10, 35, 36, 255, 256, 1<<31 - 1, 1 << 31, 1<<32 - 1, 1 << 32, 1<<63 - 1, 1 << 63, 1<<63 + 1, 1<<64 - 256, 1<<64 - 2, 1<<64 - 1}).Draw(rt, label)
	case 1:
		return uint64(rapid.IntRange(0, 1000).Draw(rt, label))
	case 2:
		// top bit set: values from 2^63 (as int64: negative numbers, small and large)
		if rapid.Bool().Draw(rt, label+"NearTop") {
			return ^uint64(rapid.IntRange(0, 70000).Draw(rt, label))
		}
		return rapid.Uint64().Draw(rt, label) | 1<<63
	}
	bits := rapid.IntRange(1, 64).Draw(rt, label+"Bits")
	v := rapid.Uint64().Draw(rt, label)
	if bits < 64 {
		v &= (1 << uint(bits)) - 1
	}
	return v
}

func TestC34Conv(t *testing.T) {
	st := stats.New("C34", "conversions")
	defer st.Flush()
	rapid.Check(t, func(rt *rapid.T) {
		st.Eval()
		b := genBytes(rt, "b")
		s := genString(rt, "s", 8, false)
		m := genUint64(rt, "m")
		sn := int64(genUint64(rt, "sn")) // any int64, including negatives
		base := rapid.IntRange(2, 36).Draw(rt, "base")
		var ipn uint32
		switch rapid.IntRange(0, 2).Draw(rt, "ipClass") {
		case 0:
			ipn = rapid.SampledFrom([]uint32{0, 1, 255, 256, 1<<24 - 1, 1 << 24, 1<<31 - 1, 1 << 31, 1<<32 - 1, 0x7f000001, 0x0a000001, 0xc0a80001}).Draw(rt, "ipn")
		default:
			ipn = rapid.Uint32().Draw(rt, "ipn")
		}
		if excluding(kfInetNtoaInt32) && ipn >= 1<<31 {
			st.Excluded(kfInetNtoaInt32)
			ipn &= 1<<31 - 1
		}
		ip := refInetNtoa(ipn)

		as := &argSet{columns: rapid.IntRange(0, 2).Draw(rt, "columns") == 0}
		as.add("b", "X'"+hexUpper(b)+"'", "VARBINARY(400)")
		as.add("s", sqlQuote(s), "VARCHAR(64)")
		as.add("m", strconv.FormatUint(m, 10), "BIGINT UNSIGNED")
		as.add("sn", strconv.FormatInt(sn, 10), "BIGINT")
		as.add("base", fmt.Sprint(base), "INT")
		as.add("ipn", strconv.FormatUint(uint64(ipn), 10), "BIGINT")
		as.add("ip", sqlQuote(ip), "VARCHAR(20)")
		if rapid.IntRange(0, 7).Draw(rt, "withNull") == 0 {
			as.args[rapid.IntRange(0, len(as.args)-1).Draw(rt, "nullArg")].null = true
		}
		B, S, M, SN, K, IPN, IP := as.ref("b"), as.ref("s"), as.ref("m"), as.ref("sn"), as.ref("base"), as.ref("ipn"), as.ref("ip")
		f := func(format string, a ...any) string { return fmt.Sprintf(format, a...) }

		var items []item
		add := func(name, sql string, deps []string, check func(any) string) *item {
			items = append(items, item{name: name, sql: sql, deps: deps, check: check})
			return &items[len(items)-1]
		}
		// HEX / UNHEX
		add("UNHEX(HEX(b)) = b", f("UNHEX(HEX(%s))", B), []string{"b"}, wantStr(string(b)))
		add("HEX(b) = two hex digits per byte", f("HEX(%s)", B), []string{"b"}, wantStr(hexUpper(b)))
		add("LENGTH(HEX(b)) = 2*LENGTH(b)", f("LENGTH(HEX(%s)) - 2*LENGTH(%s)", B, B), []string{"b"}, wantInt(0))
		add("UNHEX(HEX(s)) = s", f("UNHEX(HEX(%s))", S), []string{"s"}, wantStr(s))
		add("HEX(UNHEX(h)) = h", f("HEX(UNHEX(%s))", sqlQuote(hexUpper(b))), nil, wantStr(hexUpper(b)))
		add("UNHEX(LOWER(HEX(b))) = b", f("UNHEX(LOWER(HEX(%s)))", B), []string{"b"}, wantStr(string(b)))
		add("HEX(m) = CONV(m,10,16)", f("HEX(%s)", M), []string{"m"}, wantStr(strings.ToUpper(strconv.FormatUint(m, 16))))
		// TO_BASE64 / FROM_BASE64
		add("FROM_BASE64(TO_BASE64(b)) = b", f("FROM_BASE64(TO_BASE64(%s))", B), []string{"b"}, wantStr(string(b)))
		add("TO_BASE64(b)", f("TO_BASE64(%s)", B), []string{"b"}, wantStr(refToBase64(b)))
		add("FROM_BASE64(canonical text) = b", f("FROM_BASE64(%s)", sqlQuote(refToBase64(b))), nil, wantStr(string(b)))
		add("FROM_BASE64(TO_BASE64(s)) = s", f("FROM_BASE64(TO_BASE64(%s))", S), []string{"s"}, wantStr(s))
		// CONV
		ms := strings.ToUpper(strconv.FormatUint(m, base))
		add("CONV(m,10,k)", f("CONV(%s,10,%s)", M, K), []string{"m", "base"}, wantStr(ms))
		add("CONV(CONV(m,10,k),k,10) = m", f("CONV(CONV(%s,10,%s),%s,10)", M, K, K), []string{"m", "base"}, wantStr(strconv.FormatUint(m, 10)))
		add("CONV(LOWER(CONV(m,10,k)),k,10) = m", f("CONV(LOWER(CONV(%s,10,%s)),%s,10)", M, K, K), []string{"m", "base"}, wantStr(strconv.FormatUint(m, 10)))
		add("CONV(text,k,10)", f("CONV(%s,%s,10)", sqlQuote(ms), K), []string{"base"}, wantStr(strconv.FormatUint(m, 10)))
		// signed: a negative to_base yields a signed result; a negative N is read as signed
		add("CONV(sn,10,-k)", f("CONV(%s,10,-%s)", SN, K), []string{"sn", "base"}, wantStr(strings.ToUpper(strconv.FormatInt(sn, base))))
		add("CONV(CONV(sn,10,-k),k,-10) = sn", f("CONV(CONV(%s,10,-%s),%s,-10)", SN, K, K), []string{"sn", "base"}, wantStr(strconv.FormatInt(sn, 10)))
		add("CONV(sn,10,k) is the unsigned 64-bit value", f("CONV(%s,10,%s)", SN, K), []string{"sn", "base"}, wantStr(strings.ToUpper(strconv.FormatUint(uint64(sn), base))))
		// INET_ATON / INET_NTOA
		knownNtoa := func(v any, err error) string {
			// signature: n >= 2^31 and the value is the address of min(n, 2^31-1)
			if err == nil && ipn >= 1<<31 {
				if got, ok := str(v); ok && got == "127.255.255.255" {
					return kfInetNtoaInt32
				}
			}
			return ""
		}
		add("INET_NTOA(n)", f("INET_NTOA(%s)", IPN), []string{"ipn"}, wantStr(ip)).known = knownNtoa
		add("INET_ATON(INET_NTOA(n)) = n", f("INET_ATON(INET_NTOA(%s))", IPN), []string{"ipn"}, wantInt(int64(ipn))).known = func(v any, err error) string {
			if r, ok := num(v); err == nil && ipn >= 1<<31 && ok && r.IsInt() && r.Num().Int64() == math.MaxInt32 {
				return kfInetNtoaInt32
			}
			return ""
		}
		add("INET_ATON(ip)", f("INET_ATON(%s)", IP), []string{"ip"}, wantInt(int64(ipn)))
		add("INET_NTOA(INET_ATON(ip)) = ip", f("INET_NTOA(INET_ATON(%s))", IP), []string{"ip"}, wantStr(ip)).known = knownNtoa
		// COMPRESS / UNCOMPRESS
		add("UNCOMPRESS(COMPRESS(b)) = b", f("UNCOMPRESS(COMPRESS(%s))", B), []string{"b"}, wantStr(string(b)))
		add("UNCOMPRESSED_LENGTH(COMPRESS(b)) = LENGTH(b)", f("UNCOMPRESSED_LENGTH(COMPRESS(%s))", B), []string{"b"}, wantInt(int64(len(b))))
		add("UNCOMPRESS(COMPRESS(s)) = s", f("UNCOMPRESS(COMPRESS(%s))", S), []string{"s"}, wantStr(s))
		if len(b) == 0 {
			add("COMPRESS('') = ''", f("LENGTH(COMPRESS(%s))", B), []string{"b"}, wantInt(0))
		}

		fxt := fx.New(fx.Opts{})
		defer fxt.Close()
		sess := fxt.NewSession("", "", "")
		as.setup(rt, sess)
		runItems(rt, st, sess, as, items)

		switch {
		case len(b) == 0:
			st.Class("b:empty")
		case len(b) > 57:
			st.Class("b:long(base64 wraps)")
		default:
			st.Class("b:short")
		}
		if m >= 1<<63 {
			st.Class("m:>=2^63")
		}
		if sn < 0 {
			st.Class("sn:negative")
		}
		if ipn >= 1<<31 {
			st.Class("ipn:>=2^31")
		}
		if as.columns {
			st.Class("rendering:column")
		} else {
			st.Class("rendering:literal")
		}
		hasNull := false
		for _, x := range as.args {
			hasNull = hasNull || x.null
		}
		if hasNull {
			st.Class("with-NULL-argument")
		}
		_ = big.NewInt
		if len(b) == 0 || len(b) > 57 || !isASCII(s) || m >= 1<<63 || sn < 0 || ipn >= 1<<31 || ipn == 0 || hasNull {
			st.NonTrivial(map[string]any{"args": as.describe()}, "conv", hexUpper(b), s, m, sn, base, ipn, hasNull)
		}
	})
}
