package c34

import (
	"fmt"
	"math/big"
	"os"
	"strconv"
	"strings"

	"github.com/dolthub/go-mysql-server/vh/internal/fx"
	"github.com/dolthub/go-mysql-server/vh/internal/kf"
	"github.com/dolthub/go-mysql-server/vh/internal/stats"
	"pgregory.net/rapid"
)

func thorough() bool { return os.Getenv("VERIF_TIER") == "thorough" }

// excluding reports whether the region of finding id is excluded from generation: only
// while the id is listed. VERIF_C34_NOEXCLUDE=1 (development aid) keeps generating inside
// listed regions so that every violation there must match the signature predicate.
func excluding(id string) bool {
	return kf.Listed(id) && os.Getenv("VERIF_C34_NOEXCLUDE") == ""
}

// arg is one generated argument: its name (for NULL propagation), its SQL rendering and,
// for the column rendering, the column type and the literal stored in the column.
type arg struct {
	name    string
	lit     string // SQL literal of the value
	colType string
	null    bool
}

// argSet renders arguments either as literals or as columns of a one-row table.
type argSet struct {
	args    []*arg
	columns bool
}

func (a *argSet) add(name, lit, colType string) *arg {
	x := &arg{name: name, lit: lit, colType: colType}
	a.args = append(a.args, x)
	return x
}

// ref returns the SQL text that denotes argument name.
func (a *argSet) ref(name string) string {
	for _, x := range a.args {
		if x.name == name {
			if a.columns {
				return "c_" + name
			}
			if x.null {
				return "NULL"
			}
			return x.lit
		}
	}
	panic("unknown argument " + name)
}

func (a *argSet) setup(rt *rapid.T, s *fx.Sess) {
	if !a.columns {
		return
	}
	var cols, vals []string
	for _, x := range a.args {
		cols = append(cols, "c_"+x.name+" "+x.colType)
		if x.null {
			vals = append(vals, "NULL")
		} else {
			vals = append(vals, x.lit)
		}
	}
	s.MustExec(rt.Fatalf,
		"CREATE TABLE t ("+strings.Join(cols, ", ")+")",
		"INSERT INTO t VALUES ("+strings.Join(vals, ", ")+")")
}

func (a *argSet) describe() string {
	var sb strings.Builder
	for i, x := range a.args {
		if i > 0 {
			sb.WriteString(", ")
		}
		v := x.lit
		if x.null {
			v = "NULL"
		}
		fmt.Fprintf(&sb, "%s=%s", x.name, v)
	}
	if a.columns {
		sb.WriteString(" (stored in columns)")
	}
	return sb.String()
}

// item is one expression of the batched SELECT together with what the identity requires.
type item struct {
	name  string                        // label of the identity
	sql   string                        // expression
	deps  []string                      // arguments the expression uses: a NULL argument must give NULL
	check func(v any) string            // "" when the identity holds, else the required value / relation
	known func(v any, err error) string // optional signature predicate: id of the matching finding
	// knownNull is the signature predicate for a missing NULL propagation (argument nullArg
	// was NULL, the non-NULL value v came back)
	knownNull func(nullArg string, v any) string
	// errOK: a failing evaluation satisfies the identity (the manual requires an error for
	// this argument, e.g. an out-of-range result); check still decides a returned value
	errOK bool
}

// runItems evaluates all items in one SELECT (falling back to one SELECT per item when the
// batch fails, to name the failing expression) and applies the checks.
func runItems(rt *rapid.T, st *stats.Collector, s *fx.Sess, as *argSet, items []item) {
	from := ""
	if as.columns {
		from = " FROM t"
	}
	var nullArg string
	for _, x := range as.args {
		if x.null {
			nullArg = x.name
		}
	}
	exprs := make([]string, len(items))
	for i, it := range items {
		exprs[i] = it.sql
	}
	vals := make([]any, len(items))
	errs := make([]error, len(items))
	r := s.Exec("SELECT " + strings.Join(exprs, ", ") + from)
	if r.Panic != nil {
		rt.Fatalf("panic: %v\n%s\nSQL: %s\nargs: %s", r.Panic, r.Stack, r.SQL, as.describe())
	}
	if r.OK() && len(r.Rows) == 1 && len(r.Rows[0]) == len(items) {
		copy(vals, r.Rows[0])
	} else {
		st.Class("batch-failed-isolated")
		for i, it := range items {
			ri := s.Exec("SELECT " + it.sql + from)
			if ri.Panic != nil {
				rt.Fatalf("panic: %v\n%s\nSQL: %s\nargs: %s", ri.Panic, ri.Stack, ri.SQL, as.describe())
			}
			if ri.TimedOut {
				rt.Fatalf("timeout: %s", ri.SQL)
			}
			if ri.Err != nil {
				errs[i] = ri.Err
			} else if len(ri.Rows) == 1 && len(ri.Rows[0]) == 1 {
				vals[i] = ri.Rows[0][0]
			} else {
				errs[i] = fmt.Errorf("unexpected result shape: %s", ri)
			}
		}
	}
	for i, it := range items {
		st.Class("identity:" + it.name)
		var msg string
		wantNull := false
		for _, d := range it.deps {
			if d == nullArg {
				wantNull = true
			}
		}
		switch {
		case errs[i] != nil && it.errOK && !wantNull:
			st.Class("required-error")
		case errs[i] != nil:
			msg = "no error"
			if wantNull {
				msg = "NULL"
			}
		case wantNull:
			if vals[i] != nil {
				msg = "NULL (argument " + nullArg + " is NULL)"
			}
			st.Class("null-propagation")
		default:
			msg = it.check(vals[i])
		}
		if msg == "" {
			continue
		}
		if it.known != nil && !wantNull {
			if id := it.known(vals[i], errs[i]); id != "" && kf.Suppress(st, id) {
				continue
			}
		}
		if it.knownNull != nil && wantNull && errs[i] == nil {
			if id := it.knownNull(nullArg, vals[i]); id != "" && kf.Suppress(st, id) {
				continue
			}
		}
		got := show(vals[i])
		if errs[i] != nil {
			got = "ERROR " + errs[i].Error()
		}
		rt.Fatalf("identity %q violated\n  expression: %s\n  arguments:  %s\n  got:        %s\n  required:   %s", it.name, it.sql, as.describe(), got, msg)
	}
}

// ---------------------------------------------------------------------------------------
// reading engine values

func str(v any) (string, bool) {
	switch x := v.(type) {
	case string:
		return x, true
	case []byte:
		return string(x), true
	}
	return "", false
}

func num(v any) (*big.Rat, bool) {
	n := fx.Norm(v, nil)
	if strings.HasPrefix(n, "n:") {
		r, ok := new(big.Rat).SetString(n[2:])
		return r, ok
	}
	if strings.HasPrefix(n, "f:") {
		f, err := strconv.ParseFloat(n[2:], 64)
		if err != nil {
			return nil, false
		}
		r := new(big.Rat).SetFloat64(f)
		return r, r != nil
	}
	return nil, false
}

func show(v any) string {
	switch x := v.(type) {
	case nil:
		return "NULL"
	case string:
		return strconv.Quote(x)
	case []byte:
		return "bytes " + strconv.Quote(string(x))
	}
	return fx.Norm(v, nil)
}

// wantStr builds a check that requires exactly the string want.
func wantStr(want string) func(any) string {
	return func(v any) string {
		if s, ok := str(v); ok && s == want {
			return ""
		}
		return strconv.Quote(want)
	}
}

// wantInt builds a check that requires exactly the integer want.
func wantInt(want int64) func(any) string {
	return func(v any) string {
		if r, ok := num(v); ok && r.IsInt() && r.Num().IsInt64() && r.Num().Int64() == want {
			return ""
		}
		return strconv.FormatInt(want, 10)
	}
}

// wantRat builds a check that requires exactly the number want.
func wantRat(want *big.Rat) func(any) string {
	return func(v any) string {
		if r, ok := num(v); ok && r.Cmp(want) == 0 {
			return ""
		}
		return ratStr(want)
	}
}
