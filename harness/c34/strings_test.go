package c34

import (
	"fmt"
	"strings"
	"testing"
	"unicode/utf8"

	"github.com/dolthub/go-mysql-server/vh/internal/fx"
	"github.com/dolthub/go-mysql-server/vh/internal/stats"
	"pgregory.net/rapid"
)

// Proposed known-finding ids for the string functions (see notes/C34.md).
const (
	kfInsertBytes   = "C34-insert-byte-positions" // INSERT() slices bytes, not characters
	kfPadBytes      = "C34-pad-byte-lengths"      // LPAD/RPAD measure and cut bytes
	kfLocateBytes   = "C34-locate-byte-positions" // LOCATE() returns byte positions
	kfLocateCase    = "C34-locate-ignores-case"   // LOCATE() lower-cases both strings under the case-sensitive default collation; INSTR() does not
	kfRepeatNeg     = "C34-repeat-negative-error" // REPEAT(s, n<0) fails instead of returning ''
	kfLocateNullPos = "C34-locate-null-position"  // LOCATE(t,s,NULL) is evaluated as LOCATE(t,s,1)
)

var asciiAlphabet = []string{"a", "b", "A", "B", " ", "0", "x"}
var fullAlphabet = []string{"a", "b", "A", " ", "é", "É", "ß", "€", "世", "😀", "0"}

func genString(rt *rapid.T, label string, maxLen int, ascii bool) string {
	alpha := fullAlphabet
	if ascii {
		alpha = asciiAlphabet
	}
	n := rapid.IntRange(0, maxLen).Draw(rt, label+"Len")
	var sb strings.Builder
	for i := 0; i < n; i++ {
		sb.WriteString(rapid.SampledFrom(alpha).Draw(rt, fmt.Sprintf("%s%d", label, i)))
	}
	return sb.String()
}

func isASCII(s string) bool { return len(s) == utf8.RuneCountInString(s) }

func strClass(s string) string {
	switch {
	case s == "":
		return "empty"
	case isASCII(s):
		return "ascii"
	}
	return "multibyte"
}

func posClass(p, n int) string {
	switch {
	case p < 0:
		return "neg"
	case p == 0:
		return "zero"
	case p > n:
		return "beyond"
	}
	return "inside"
}

func TestC34(t *testing.T) {
	st := stats.New("C34", "strings")
	defer st.Flush()
	rapid.Check(t, func(rt *rapid.T) {
		st.Eval()
		ascii := rapid.IntRange(0, 2).Draw(rt, "asciiOnly") == 0
		s := genString(rt, "s", 8, ascii)
		var tt string
		if sr := []rune(s); len(sr) > 0 && rapid.Bool().Draw(rt, "tSub") {
			a := rapid.IntRange(0, len(sr)-1).Draw(rt, "tFrom")
			b := rapid.IntRange(a, min(len(sr), a+3)).Draw(rt, "tTo")
			tt = string(sr[a:b])
			if rapid.IntRange(0, 5).Draw(rt, "tFlip") == 0 {
				tt = strings.ToUpper(tt) // a case variant that must NOT match under the binary collation
			}
		} else {
			tt = genString(rt, "t", 2, ascii)
		}
		u := genString(rt, "u", 3, ascii)
		sl := runeLen(s)
		n := rapid.IntRange(-2, sl+4).Draw(rt, "n")
		p := rapid.IntRange(-sl-2, sl+3).Draw(rt, "p")
		l := rapid.IntRange(-2, sl+3).Draw(rt, "l")
		k := rapid.IntRange(-2, 4).Draw(rt, "k")

		if excluding(kfRepeatNeg) && k < 0 {
			st.Excluded(kfRepeatNeg)
			k = 0
		}
		padOK := !(excluding(kfPadBytes) && !(isASCII(s) && isASCII(u)))
		if !padOK {
			st.Excluded(kfPadBytes)
		}
		insertOK := !(excluding(kfInsertBytes) && !isASCII(s))
		if !insertOK {
			st.Excluded(kfInsertBytes)
		}

		as := &argSet{columns: rapid.IntRange(0, 2).Draw(rt, "columns") == 0}
		as.add("s", sqlQuote(s), "VARCHAR(64)")
		as.add("t", sqlQuote(tt), "VARCHAR(64)")
		as.add("u", sqlQuote(u), "VARCHAR(64)")
		as.add("n", fmt.Sprint(n), "BIGINT")
		as.add("p", fmt.Sprint(p), "BIGINT")
		as.add("l", fmt.Sprint(l), "BIGINT")
		as.add("k", fmt.Sprint(k), "BIGINT")
		if rapid.IntRange(0, 7).Draw(rt, "withNull") == 0 {
			as.args[rapid.IntRange(0, len(as.args)-1).Draw(rt, "nullArg")].null = true
		}
		S, T, U, N, P, L, K := as.ref("s"), as.ref("t"), as.ref("u"), as.ref("n"), as.ref("p"), as.ref("l"), as.ref("k")
		f := func(format string, a ...any) string { return fmt.Sprintf(format, a...) }

		var items []item
		add := func(name, sql string, deps []string, check func(any) string) *item {
			items = append(items, item{name: name, sql: sql, deps: deps, check: check})
			return &items[len(items)-1]
		}
		// lengths of concatenations
		add("CHAR_LENGTH(CONCAT(s,t)) = CHAR_LENGTH(s)+CHAR_LENGTH(t)", f("CHAR_LENGTH(CONCAT(%s,%s)) - CHAR_LENGTH(%s) - CHAR_LENGTH(%s)", S, T, S, T), []string{"s", "t"}, wantInt(0))
		add("CHAR_LENGTH(s) counts characters", f("CHAR_LENGTH(%s)", S), []string{"s"}, wantInt(int64(sl)))
		add("LENGTH(CONCAT(s,t)) = LENGTH(s)+LENGTH(t)", f("LENGTH(CONCAT(%s,%s))", S, T), []string{"s", "t"}, wantInt(int64(len(s)+len(tt))))
		add("CONCAT(s,t)", f("CONCAT(%s,%s)", S, T), []string{"s", "t"}, wantStr(s+tt))
		// LEFT / RIGHT / SUBSTRING
		if n >= 0 {
			add("CONCAT(LEFT(s,n), SUBSTRING(s,n+1)) = s", f("CONCAT(LEFT(%s,%s), SUBSTRING(%s,%s+1))", S, N, S, N), []string{"s", "n"}, wantStr(s))
			add("CONCAT(SUBSTRING(s,1,CHAR_LENGTH(s)-n), RIGHT(s,n)) = s", f("CONCAT(SUBSTRING(%s,1,CHAR_LENGTH(%s)-%s), RIGHT(%s,%s))", S, S, N, S, N), []string{"s", "n"}, wantStr(s))
			add("LEFT(s,n)", f("LEFT(%s,%s)", S, N), []string{"s", "n"}, wantStr(refLeft(s, n)))
			add("RIGHT(s,n)", f("RIGHT(%s,%s)", S, N), []string{"s", "n"}, wantStr(refRight(s, n)))
		}
		add("SUBSTRING(s,p,l)", f("SUBSTRING(%s,%s,%s)", S, P, L), []string{"s", "p", "l"}, wantStr(refSubstring(s, p, l, true)))
		add("SUBSTRING(s,p)", f("SUBSTRING(%s,%s)", S, P), []string{"s", "p"}, wantStr(refSubstring(s, p, 0, false)))
		add("SUBSTRING(s,p,l) = LEFT(SUBSTRING(s,p),l)", f("LEFT(SUBSTRING(%s,%s),%s)", S, P, L), []string{"s", "p", "l"}, wantStr(refSubstring(s, p, l, true)))
		// LOCATE / INSTR / POSITION
		loc := refLocate(tt, s, 1)
		add("INSTR(s,t) = first occurrence", f("INSTR(%s,%s)", S, T), []string{"s", "t"}, wantInt(int64(loc)))
		foldMatters := strings.ToLower(s) != s || strings.ToLower(tt) != tt
		locateOK := true
		if excluding(kfLocateBytes) && !isASCII(s) {
			// region of the listed finding: a multi-byte character in the searched string
			st.Excluded(kfLocateBytes)
			locateOK = false
		}
		if excluding(kfLocateCase) && foldMatters {
			// region of the listed finding: an upper-case letter in either string
			st.Excluded(kfLocateCase)
			locateOK = false
		}
		if locateOK {
			// what the engine computes: lower-cases both strings; foldByte is the byte position
			// (kfLocateBytes), foldChar the character position of that match (kfLocateCase)
			foldPos := func(from int) (foldByte, foldChar int64) {
				if from < 1 {
					return 0, 0
				}
				if from <= len(s) || (len(s) == 0 && from == 1) {
					if i := strings.Index(strings.ToLower(s[from-1:]), strings.ToLower(tt)); i >= 0 {
						foldByte = int64(i + from)
					}
				}
				sr := []rune(s)
				if from <= len(sr) || (len(sr) == 0 && from == 1) {
					tail := strings.ToLower(string(sr[from-1:]))
					if i := strings.Index(tail, strings.ToLower(tt)); i >= 0 {
						foldChar = int64(runeLen(tail[:i]) + from)
					}
				}
				return
			}
			knownLoc := func(from int) func(any, error) string {
				return func(v any, err error) string {
					r, ok := num(v)
					if err != nil || !ok || !r.IsInt() {
						return ""
					}
					got := r.Num().Int64()
					foldByte, foldChar := foldPos(from)
					switch {
					case !isASCII(s) && foldByte != foldChar && got == foldByte:
						return kfLocateBytes // signature: the byte position of the (case-folded) match
					case foldMatters && got == foldChar:
						return kfLocateCase // signature: the character position of the case-folded match
					}
					return ""
				}
			}
			add("LOCATE(t,s) = first occurrence", f("LOCATE(%s,%s)", T, S), []string{"s", "t"}, wantInt(int64(loc))).known = knownLoc(1)
			add("LOCATE(t,s) = INSTR(s,t)", f("LOCATE(%s,%s) - INSTR(%s,%s)", T, S, S, T), []string{"s", "t"}, wantInt(0)).known = func(v any, err error) string {
				r, ok := num(v)
				if err != nil || !ok || !r.IsInt() {
					return ""
				}
				return knownLoc(1)(r.Num().Int64()+int64(loc), nil) // the engine's INSTR is exact: LOCATE = difference + INSTR
			}
			add("POSITION(t IN s) = first occurrence", f("POSITION(%s IN %s)", T, S), []string{"s", "t"}, wantInt(int64(loc))).known = knownLoc(1)
			if loc > 0 {
				it := add("SUBSTRING(s, LOCATE(t,s), CHAR_LENGTH(t)) = t", f("SUBSTRING(%s, LOCATE(%s,%s), CHAR_LENGTH(%s))", S, T, S, T), []string{"s", "t"}, wantStr(tt))
				it.known = func(v any, err error) string {
					// derived: what SUBSTRING gives at the position the engine's LOCATE returns
					got, ok := str(v)
					if err != nil || !ok {
						return ""
					}
					foldByte, foldChar := foldPos(1)
					switch {
					case !isASCII(s) && foldByte != foldChar && got == refSubstring(s, int(foldByte), runeLen(tt), true):
						return kfLocateBytes
					case foldMatters && got == refSubstring(s, int(foldChar), runeLen(tt), true):
						return kfLocateCase
					}
					return ""
				}
			}
			pNull := false
			for _, x := range as.args {
				pNull = pNull || (x.name == "p" && x.null)
			}
			if pNull && excluding(kfLocateNullPos) {
				st.Excluded(kfLocateNullPos)
			} else if tt != "" && p >= 1 && p <= sl {
				it := add("LOCATE(t,s,p) = first occurrence from p", f("LOCATE(%s,%s,%s)", T, S, P), []string{"s", "t", "p"}, wantInt(int64(refLocate(tt, s, p))))
				it.known = knownLoc(p)
				it.knownNull = func(nullArg string, v any) string {
					// signature: only the position is NULL and the value is what LOCATE(t,s) returns
					// in this engine (a NULL position is read as 1)
					r, ok := num(v)
					if nullArg != "p" || !ok || !r.IsInt() {
						return ""
					}
					foldByte, foldChar := foldPos(1)
					if got := r.Num().Int64(); got == int64(loc) || got == foldByte || got == foldChar {
						return kfLocateNullPos
					}
					return ""
				}
			}
		}
		// INSERT
		if want, defined := refInsert(s, p, l, u); defined && insertOK {
			it := add("INSERT(s,p,l,u) replaces l characters at p", f("INSERT(%s,%s,%s,%s)", S, P, L, U), []string{"s", "p", "l", "u"}, wantStr(want))
			it.known = func(v any, err error) string {
				// signature: s is multi-byte and the result is the byte-wise splice
				if err != nil || isASCII(s) {
					return ""
				}
				b := s
				wantB := b
				if p >= 1 && p-1 < len(b) {
					end := len(b)
					if l >= 0 && p-1+l < end {
						end = p - 1 + l
					}
					wantB = b[:p-1] + u + b[end:]
				}
				if got, ok := str(v); ok && got == wantB {
					return kfInsertBytes
				}
				return ""
			}
			if p >= 1 && p <= sl && l >= 0 && p-1+l <= sl {
				add("INSERT(s,p,l,u) = CONCAT(LEFT(s,p-1), u, SUBSTRING(s,p+l))", f("CONCAT(LEFT(%s,%s-1), %s, SUBSTRING(%s,%s+%s))", S, P, U, S, P, L), []string{"s", "p", "l", "u"}, wantStr(want))
			}
		}
		// LPAD / RPAD with an empty pad string and len <= CHAR_LENGTH(s): nothing has to be padded, so the
		// documented shortening rule alone decides ("If str is longer than len, the return value is shortened
		// to len characters"); len > CHAR_LENGTH(s) with an empty pad string is not pinned down and not generated
		if n >= 0 && u == "" && padOK && n <= len([]rune(s)) {
			add("LPAD(s,n,'') = LEFT(s,n) for n <= CHAR_LENGTH(s)", f("LPAD(%s,%s,%s)", S, N, U), []string{"s", "n", "u"}, wantStr(refPad(s, n, "x", true)))
			add("RPAD(s,n,'') = LEFT(s,n) for n <= CHAR_LENGTH(s)", f("RPAD(%s,%s,%s)", S, N, U), []string{"s", "n", "u"}, wantStr(refPad(s, n, "x", false)))
		}
		// LPAD / RPAD (len >= 0, non-empty pad string)
		if n >= 0 && u != "" && padOK {
			knownPad := func(left bool) func(any, error) string {
				return func(v any, err error) string {
					// signature: a multi-byte argument and the result is the byte-wise padding
					if err != nil || (isASCII(s) && isASCII(u)) {
						return ""
					}
					var wantB string
					switch {
					case n <= 0:
						wantB = ""
					case len(s) >= n:
						wantB = s[:n]
					default:
						fill := strings.Repeat(u, (n-len(s))/len(u)) + u[:(n-len(s))%len(u)]
						if left {
							wantB = (fill + s)[:n]
						} else {
							r := s + fill
							wantB = r[len(r)-n:]
						}
					}
					if got, ok := str(v); ok && got == wantB {
						return kfPadBytes
					}
					return ""
				}
			}
			add("LPAD(s,n,u) pads to n characters", f("LPAD(%s,%s,%s)", S, N, U), []string{"s", "n", "u"}, wantStr(refPad(s, n, u, true))).known = knownPad(true)
			add("RPAD(s,n,u) pads to n characters", f("RPAD(%s,%s,%s)", S, N, U), []string{"s", "n", "u"}, wantStr(refPad(s, n, u, false))).known = knownPad(false)
			it := add("CHAR_LENGTH(LPAD(s,n,u)) = n", f("CHAR_LENGTH(LPAD(%s,%s,%s))", S, N, U), []string{"s", "n", "u"}, wantInt(int64(n)))
			it.known = func(v any, err error) string {
				if !(isASCII(s) && isASCII(u)) {
					// length of the byte-wise result (or "malformed string" when a character was cut);
					// the value itself is checked above
					return kfPadBytes
				}
				return ""
			}
		}
		// REVERSE
		add("REVERSE(REVERSE(s)) = s", f("REVERSE(REVERSE(%s))", S), []string{"s"}, wantStr(s))
		add("REVERSE(s) reverses characters", f("REVERSE(%s)", S), []string{"s"}, wantStr(refReverse(s)))
		add("REVERSE(CONCAT(s,t)) = CONCAT(REVERSE(t),REVERSE(s))", f("REVERSE(CONCAT(%s,%s))", S, T), []string{"s", "t"}, wantStr(refReverse(tt)+refReverse(s)))
		// UPPER / LOWER
		add("UPPER(LOWER(UPPER(s))) = UPPER(s)", f("HEX(UPPER(LOWER(UPPER(%s)))) = HEX(UPPER(%s))", S, S), []string{"s"}, wantInt(1))
		add("LOWER(UPPER(LOWER(s))) = LOWER(s)", f("HEX(LOWER(UPPER(LOWER(%s)))) = HEX(LOWER(%s))", S, S), []string{"s"}, wantInt(1))
		add("CHAR_LENGTH(UPPER(s)) = CHAR_LENGTH(s)", f("CHAR_LENGTH(UPPER(%s))", S), []string{"s"}, wantInt(int64(sl)))
		if isASCII(s) {
			add("UPPER(s) on ASCII", f("UPPER(%s)", S), []string{"s"}, wantStr(strings.ToUpper(s)))
			add("LOWER(s) on ASCII", f("LOWER(%s)", S), []string{"s"}, wantStr(strings.ToLower(s)))
		}
		// TRIM
		add("TRIM(CONCAT(' ',s,' ')) = TRIM(s)", f("TRIM(CONCAT(' ',%s,' '))", S), []string{"s"}, wantStr(strings.Trim(s, " ")))
		add("TRIM(s)", f("TRIM(%s)", S), []string{"s"}, wantStr(strings.Trim(s, " ")))
		add("LTRIM(RTRIM(s)) = TRIM(s)", f("LTRIM(RTRIM(%s))", S), []string{"s"}, wantStr(strings.Trim(s, " ")))
		add("LTRIM(s)", f("LTRIM(%s)", S), []string{"s"}, wantStr(strings.TrimLeft(s, " ")))
		add("RTRIM(s)", f("RTRIM(%s)", S), []string{"s"}, wantStr(strings.TrimRight(s, " ")))
		// REPEAT / REPLACE
		it := add("REPEAT(s,k)", f("REPEAT(%s,%s)", S, K), []string{"s", "k"}, wantStr(refRepeat(s, k)))
		it.known = func(v any, err error) string {
			if k < 0 && err != nil && strings.Contains(err.Error(), "negative Repeat count") {
				return kfRepeatNeg
			}
			return ""
		}
		if k >= 0 {
			add("CHAR_LENGTH(REPEAT(s,k)) = k*CHAR_LENGTH(s)", f("CHAR_LENGTH(REPEAT(%s,%s))", S, K), []string{"s", "k"}, wantInt(int64(k*sl)))
		}
		add("REPLACE(s,t,u)", f("REPLACE(%s,%s,%s)", S, T, U), []string{"s", "t", "u"}, wantStr(refReplace(s, tt, u)))
		add("REPLACE(s,t,t) = s", f("REPLACE(%s,%s,%s)", S, T, T), []string{"s", "t"}, wantStr(s))
		if tt != "" {
			cnt := strings.Count(s, tt)
			add("CHAR_LENGTH(REPLACE(s,t,u)) = CHAR_LENGTH(s) + occurrences*(CHAR_LENGTH(u)-CHAR_LENGTH(t))", f("CHAR_LENGTH(REPLACE(%s,%s,%s))", S, T, U), []string{"s", "t", "u"}, wantInt(int64(sl+cnt*(runeLen(u)-runeLen(tt)))))
			// TRIM([BOTH|LEADING|TRAILING] remstr FROM str): "all remstr prefixes or suffixes removed"
			add("TRIM(LEADING t FROM s)", f("TRIM(LEADING %s FROM %s)", T, S), []string{"s", "t"}, wantStr(refTrimStr(s, tt, true, false)))
			add("TRIM(TRAILING t FROM s)", f("TRIM(TRAILING %s FROM %s)", T, S), []string{"s", "t"}, wantStr(refTrimStr(s, tt, false, true)))
			// the manual does not say whether prefixes or suffixes go first; when they overlap
			// (TRIM(BOTH 'aba' FROM 'ababa')) either order is accepted
			lt := refTrimStr(s, tt, true, true)
			tl := refTrimStr(refTrimStr(s, tt, false, true), tt, true, false)
			add("TRIM(BOTH t FROM s)", f("TRIM(BOTH %s FROM %s)", T, S), []string{"s", "t"}, func(v any) string {
				if got, ok := str(v); ok && (got == lt || got == tl) {
					return ""
				}
				return q(lt)
			})
		}
		// documented synonyms and length relations
		add("CHARACTER_LENGTH(s) = CHAR_LENGTH(s)", f("CHARACTER_LENGTH(%s)", S), []string{"s"}, wantInt(int64(sl)))
		add("OCTET_LENGTH(s) = LENGTH(s)", f("OCTET_LENGTH(%s)", S), []string{"s"}, wantInt(int64(len(s))))
		add("BIT_LENGTH(s) = 8*LENGTH(s)", f("BIT_LENGTH(%s)", S), []string{"s"}, wantInt(int64(8*len(s))))
		add("LENGTH(s) counts bytes", f("LENGTH(%s)", S), []string{"s"}, wantInt(int64(len(s))))
		add("MID(s,p,l) = SUBSTRING(s,p,l)", f("MID(%s,%s,%s)", S, P, L), []string{"s", "p", "l"}, wantStr(refSubstring(s, p, l, true)))
		add("SUBSTR(s,p) = SUBSTRING(s,p)", f("SUBSTR(%s,%s)", S, P), []string{"s", "p"}, wantStr(refSubstring(s, p, 0, false)))
		if as.columns || !(S == "NULL" || P == "NULL" || L == "NULL") {
			// (the parser of the engine rejects a literal NULL in the FROM … FOR spelling; parsing is not C34's subject)
			add("SUBSTRING(s FROM p FOR l) = SUBSTRING(s,p,l)", f("SUBSTRING(%s FROM %s FOR %s)", S, P, L), []string{"s", "p", "l"}, wantStr(refSubstring(s, p, l, true)))
		}
		if isASCII(s) {
			add("UCASE(s) = UPPER(s)", f("UCASE(%s)", S), []string{"s"}, wantStr(strings.ToUpper(s)))
			add("LCASE(s) = LOWER(s)", f("LCASE(%s)", S), []string{"s"}, wantStr(strings.ToLower(s)))
		}
		add("SPACE(k) = REPEAT(' ',k)", f("SPACE(%s)", K), []string{"k"}, wantStr(refRepeat(" ", k)))
		// CONCAT_WS: NULL separator gives NULL; NULL values after the separator are skipped
		{
			isNull := func(name string) bool {
				for _, x := range as.args {
					if x.name == name {
						return x.null
					}
				}
				return false
			}
			var parts []string
			if !isNull("s") {
				parts = append(parts, s)
			}
			if !isNull("t") {
				parts = append(parts, tt)
			}
			add("CONCAT_WS(u,s,t) joins the non-NULL values with u", f("CONCAT_WS(%s,%s,%s)", U, S, T), []string{"u"}, wantStr(strings.Join(parts, u)))
		}

		fxt := fx.New(fx.Opts{})
		defer fxt.Close()
		sess := fxt.NewSession("", "", "")
		as.setup(rt, sess)
		runItems(rt, st, sess, as, items)

		// distribution and the non-trivial rule
		st.Class("s:" + strClass(s))
		st.Class("n:" + posClass(n, sl))
		st.Class("p:" + posClass(p, sl))
		if loc > 0 {
			st.Class("t:occurs-in-s")
		}
		if as.columns {
			st.Class("rendering:column")
		} else {
			st.Class("rendering:literal")
		}
		hasNull := false
		for _, x := range as.args {
			hasNull = hasNull || x.null
		}
		if hasNull {
			st.Class("with-NULL-argument")
		}
		if !isASCII(s) || !isASCII(tt) || !isASCII(u) || n <= 0 || n > sl || p <= 0 || p > sl || l <= 0 || hasNull {
			st.NonTrivial(map[string]any{"args": as.describe()}, "strings", strClass(s), strClass(tt), strClass(u), posClass(n, sl), posClass(p, sl), posClass(l, sl), hasNull, s, tt, u, n, p, l)
		}
	})
}
