package c34

import (
	"math/big"
	"strings"
	"testing"

	"github.com/dolthub/go-mysql-server/vh/internal/fx"
	"github.com/dolthub/go-mysql-server/vh/internal/kf"
	"github.com/dolthub/go-mysql-server/vh/internal/stats"
)

// witness is one minimal statement of a finding together with what the property requires.
type witness struct {
	setup []string
	sql   string
	// want decides the single value of the single row ("" = satisfied); wantErr: the statement
	// must fail
	want    func(any) string
	wantErr bool
}

var ones56 = strings.Repeat("1", 56)

// witnesses re-confirms every proposed finding of C34 on its minimal input. While an id is
// listed the witness must still misbehave (otherwise the entry is reported as stale); when
// it is not listed (never listed, or fixed) the witness must satisfy the property.
var witnesses = map[string][]witness{
	kfInsertBytes: {
		{sql: "SELECT INSERT('éa', 2, 1, 'X')", want: wantStr("éX")},
		{sql: "SELECT INSERT('世界', 2, 1, 'X')", want: wantStr("世X")},
	},
	kfPadBytes: {
		{sql: "SELECT LPAD('é', 3, 'x')", want: wantStr("xxé")},
		{sql: "SELECT RPAD('é', 3, 'x')", want: wantStr("éxx")},
		{sql: "SELECT LPAD('ééé', 2, 'x')", want: wantStr("éé")},
		{sql: "SELECT CHAR_LENGTH(LPAD('a', 3, 'é'))", want: wantInt(3)},
	},
	kfLocateBytes: {
		{sql: "SELECT LOCATE('b', 'éb')", want: wantInt(2)},
		{sql: "SELECT LOCATE('b', 'éab', 3)", want: wantInt(3)},
		{sql: "SELECT POSITION('界' IN '世界')", want: wantInt(2)},
	},
	kfLocateCase: {
		// "INSTR(str,substr) … is the same as the two-argument form of LOCATE(), except that the
		// order of the arguments is reversed": INSTR('ba','A') = 0 under the default collation
		{sql: "SELECT LOCATE('A', 'ba') - INSTR('ba', 'A')", want: wantInt(0)},
		{sql: "SELECT LOCATE('A', 'ba')", want: wantInt(0)},
	},
	kfLocateNullPos: {
		{sql: "SELECT LOCATE('a', 'bab', NULL)", want: wantNull},
	},
	kfRepeatNeg: {
		{sql: "SELECT REPEAT('a', -1)", want: wantStr("")},
	},
	kfCeilFloorSat: {
		{sql: "SELECT CEIL(12345678901234567890.5)", want: wantRat(rat("12345678901234567891"))},
		{sql: "SELECT FLOOR(-12345678901234567890.5)", want: wantRat(rat("-12345678901234567891"))},
		{sql: "SELECT FLOOR(1e30)", want: wantRat(new(big.Rat).SetFloat64(1e30))},
	},
	kfAbsMinInt: {
		{sql: "SELECT ABS(-128)", want: wantInt(128)},
		{setup: []string{"CREATE TABLE t (a TINYINT, b INT)", "INSERT INTO t VALUES (-128, -2147483648)"}, sql: "SELECT ABS(a) FROM t", want: wantInt(128)},
		{setup: []string{"CREATE TABLE t (a TINYINT, b INT)", "INSERT INTO t VALUES (-128, -2147483648)"}, sql: "SELECT ABS(b) FROM t", want: wantInt(2147483648)},
	},
	kfAbsMinBigint: {
		{sql: "SELECT ABS(-9223372036854775808)", wantErr: true},
		{setup: []string{"CREATE TABLE t (c BIGINT)", "INSERT INTO t VALUES (-9223372036854775808)"}, sql: "SELECT ABS(c) FROM t", wantErr: true},
	},
	kfSignRounds: {
		{sql: "SELECT SIGN(0.3)", want: wantInt(1)},
		{sql: "SELECT SIGN(-0.49)", want: wantInt(-1)},
		{sql: "SELECT SIGN(3e-1)", want: wantInt(1)},
	},
	kfCeilAlias: {
		{sql: "SELECT CEIL(0.05)", want: wantInt(1)},
		{sql: "SELECT FLOOR(-0.05)", want: wantInt(-1)},
		{setup: []string{"CREATE TABLE u (x DECIMAL(10,2))", "INSERT INTO u VALUES (1.25)", "SELECT CEIL(x) FROM u"}, sql: "SELECT x FROM u", want: wantRat(rat("1.25"))},
	},
	kfRoundUnsigned: {
		{sql: "SELECT ROUND(ROUND(18446744073709551615, 0), 0)", want: wantRat(rat("18446744073709551615"))},
	},
	kfModImpossible: {
		{sql: "SELECT MOD(1, 0.007)", want: wantRat(rat("0.006"))},
		{sql: "SELECT MOD(100000.5, 0.01)", want: wantRat(rat("0"))},
	},
	kfInetNtoaInt32: {
		{sql: "SELECT INET_NTOA(3232235521)", want: wantStr("192.168.0.1")},
		{sql: "SELECT INET_NTOA(4294967295)", want: wantStr("255.255.255.255")},
	},
	kfGreatestFloat: {
		{sql: "SELECT GREATEST(9223372036854775807, 1)", want: wantRat(rat("9223372036854775807"))},
		{sql: "SELECT LEAST(9223372036854775807, 9223372036854775806)", want: wantRat(rat("9223372036854775806"))},
		{sql: "SELECT GREATEST(9007199254740993, 9007199254740992)", want: wantRat(rat("9007199254740993"))},
		{sql: "SELECT LEAST(0.5, 0)", want: wantRat(rat("0"))},
	},
	kfCastCharLen: {
		{sql: "SELECT CAST('abc' AS CHAR(2))", want: wantStr("ab")},
	},
	kfCastCharBytes: {
		{setup: []string{"CREATE TABLE t (s VARCHAR(10))", "INSERT INTO t VALUES ('éa')"}, sql: "SELECT CAST(s AS CHAR(1)) FROM t", want: wantStr("é")},
	},
	kfBase64Invalid: {
		{sql: "SELECT FROM_BASE64('!A==')", want: wantNull},
	},
	kfAsciiHighByte: {
		{sql: "SELECT ASCII(CHAR(187))", want: wantInt(187)},
		{sql: "SELECT ORD(X'BB')", want: wantInt(187)},
	},
	kfBinNegative: {
		{sql: "SELECT BIN(-256)", want: wantStr(ones56 + "00000000")},
	},
}

func TestC34Known(t *testing.T) {
	st := stats.New("C34", "witnesses")
	defer st.Flush()
	ids := make([]string, 0, len(witnesses))
	for id := range witnesses {
		ids = append(ids, id)
	}
	// deterministic order
	for i := range ids {
		for j := i + 1; j < len(ids); j++ {
			if ids[j] < ids[i] {
				ids[i], ids[j] = ids[j], ids[i]
			}
		}
	}
	for _, id := range ids {
		var bad []string
		for _, w := range witnesses[id] {
			st.Eval()
			st.NonTrivial(map[string]any{"witness": w.sql}, "witness", id, w.sql)
			f := fx.New(fx.Opts{})
			s := f.NewSession("", "", "")
			for _, q := range w.setup {
				if r := s.Exec(q); r.Panic != nil || r.Err != nil {
					t.Errorf("%s: set-up %q failed: %s", id, q, r)
				}
			}
			r := s.Exec(w.sql)
			f.Close()
			switch {
			case r.Panic != nil:
				t.Errorf("%s: %s panicked: %v\n%s", id, w.sql, r.Panic, r.Stack)
			case w.wantErr:
				if r.Err == nil {
					bad = append(bad, w.sql+" → "+r.String()+"; required: an error")
				}
			case r.Err != nil:
				bad = append(bad, w.sql+" → ERROR "+r.Err.Error()+"; required: no error")
			case len(r.Rows) != 1 || len(r.Rows[0]) != 1:
				bad = append(bad, w.sql+" → unexpected shape "+r.String())
			default:
				if msg := w.want(r.Rows[0][0]); msg != "" {
					bad = append(bad, w.sql+" → "+show(r.Rows[0][0])+"; required: "+msg)
				}
			}
		}
		switch {
		case kf.Listed(id) && len(bad) == 0:
			t.Logf("STALE known finding %s: every witness now satisfies the property", id)
		case kf.Listed(id):
			kf.Suppress(st, id)
			st.Class("witness-confirmed:" + id)
		case len(bad) > 0:
			t.Errorf("finding %s (not listed as known):\n  %s", id, strings.Join(bad, "\n  "))
		default:
			st.Class("witness-satisfied:" + id)
		}
	}
}
