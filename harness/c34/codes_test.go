package c34

import (
	"crypto/md5"
	"crypto/sha1"
	"crypto/sha256"
	"crypto/sha512"
	"fmt"
	"math/big"
	"strconv"
	"strings"
	"testing"

	"github.com/dolthub/go-mysql-server/vh/internal/fx"
	"github.com/dolthub/go-mysql-server/vh/internal/stats"
	"pgregory.net/rapid"
)

// Proposed known-finding ids for the code / digest / cast functions (see notes/C34.md).
const (
	kfCastCharLen   = "C34-cast-char-length-ignored"    // CAST(text expression AS CHAR(n)) is eliminated by the planner: the string is not shortened
	kfCastCharBytes = "C34-cast-char-byte-truncation"   // CAST(str AS CHAR(n)) cuts after n bytes, not n characters
	kfBase64Invalid = "C34-from-base64-invalid-error"   // FROM_BASE64(invalid text) fails instead of returning NULL
	kfBinNegative   = "C34-bin-negative-unpadded-bytes" // BIN(n<0) concatenates the 8 bytes without padding each to 8 bits
	kfAsciiHighByte = "C34-ascii-ord-binary-high-byte"  // ASCII()/ORD() of a binary string fail when it is not valid UTF-8
)

// wantHexFold requires the hexadecimal text want, in either letter case (the manual
// describes digests as "a string of N hexadecimal digits").
func wantHexFold(want string) func(any) string {
	return func(v any) string {
		if s, ok := str(v); ok && strings.EqualFold(s, want) {
			return ""
		}
		return strconv.Quote(want)
	}
}

func wantNull(v any) string {
	if v == nil {
		return ""
	}
	return "NULL"
}

// charBytes is CHAR(n) for one argument 0 <= n < 2^32: "CHAR() arguments larger than 255
// are converted into multiple result bytes. For example, CHAR(256) is equivalent to
// CHAR(1,0), and CHAR(256*256) is equivalent to CHAR(1,0,0)".
func charBytes(n uint32) []byte {
	switch {
	case n >= 1<<24:
		return []byte{byte(n >> 24), byte(n >> 16), byte(n >> 8), byte(n)}
	case n >= 1<<16:
		return []byte{byte(n >> 16), byte(n >> 8), byte(n)}
	case n >= 1<<8:
		return []byte{byte(n >> 8), byte(n)}
	}
	return []byte{byte(n)}
}

// TestC34Codes: BIN/OCT, ASCII/ORD/CHAR, MD5/SHA1/SHA2, CAST/CONVERT round trips and the
// NULL results the manual defines for malformed input of the inverse functions.
func TestC34Codes(t *testing.T) {
	st := stats.New("C34", "codes")
	defer st.Flush()
	rapid.Check(t, func(rt *rapid.T) {
		st.Eval()
		b := genBytes(rt, "b")
		if len(b) > 40 {
			b = b[:40]
		}
		s := genString(rt, "s", 6, rapid.IntRange(0, 3).Draw(rt, "sAscii") == 0)
		m := genUint64(rt, "m")
		sn := int64(genUint64(rt, "sn"))
		xl := genDecimal(rt, "x", 12)
		x := rat(xl)
		cn := rapid.IntRange(1, 8).Draw(rt, "cn")
		c1 := rapid.IntRange(0, 255).Draw(rt, "c1")
		c2 := rapid.IntRange(0, 255).Draw(rt, "c2")
		var w uint32
		switch rapid.IntRange(0, 2).Draw(rt, "wClass") {
		case 0:
			w = rapid.SampledFrom([]uint32{0, 1, 255, 256, 65535, 65536, 1<<24 - 1, 1 << 24, 1<<31 - 1, 1 << 31, 1<<32 - 1}).Draw(rt, "w")
		default:
			w = rapid.Uint32().Draw(rt, "w") >> uint(rapid.IntRange(0, 31).Draw(rt, "wShift"))
		}
		hl := rapid.SampledFrom([]int{0, 224, 256, 384, 512, 224, 256, 384, 512, 1, 128, 255, 257, 1024, -256}).Draw(rt, "hl")

		as := &argSet{columns: rapid.IntRange(0, 2).Draw(rt, "columns") == 0}
		as.add("b", "X'"+hexUpper(b)+"'", "VARBINARY(400)")
		as.add("s", sqlQuote(s), "VARCHAR(64)")
		as.add("m", strconv.FormatUint(m, 10), "BIGINT UNSIGNED")
		as.add("sn", strconv.FormatInt(sn, 10), "BIGINT")
		as.add("x", xl, "DECIMAL(30,8)")
		as.add("c1", fmt.Sprint(c1), "INT")
		as.add("w", strconv.FormatUint(uint64(w), 10), "BIGINT")
		as.add("hl", fmt.Sprint(hl), "INT")
		if rapid.IntRange(0, 5).Draw(rt, "withNull") == 0 {
			as.args[rapid.IntRange(0, len(as.args)-1).Draw(rt, "nullArg")].null = true
		}
		B, S, M, SN, X, C1, W, HL := as.ref("b"), as.ref("s"), as.ref("m"), as.ref("sn"), as.ref("x"), as.ref("c1"), as.ref("w"), as.ref("hl")
		f := func(format string, a ...any) string { return fmt.Sprintf(format, a...) }
		isNull := func(name string) bool {
			for _, a := range as.args {
				if a.name == name {
					return a.null
				}
			}
			return false
		}

		var items []item
		add := func(name, sql string, deps []string, check func(any) string) *item {
			items = append(items, item{name: name, sql: sql, deps: deps, check: check})
			return &items[len(items)-1]
		}

		// ---- BIN / OCT: "equivalent to CONV(N,10,2)" / "CONV(N,10,8)", N a BIGINT -----------------
		add("BIN(m) = CONV(m,10,2)", f("BIN(%s)", M), []string{"m"}, wantStr(strconv.FormatUint(m, 2)))
		add("OCT(m) = CONV(m,10,8)", f("OCT(%s)", M), []string{"m"}, wantStr(strconv.FormatUint(m, 8)))
		// what the engine's binForNegativeInt64 produces: each byte formatted without leading zeros
		binUnpadded := ""
		for i := 7; i >= 0; i-- {
			binUnpadded += strconv.FormatUint(uint64(sn)>>(8*uint(i))&255, 2)
		}
		if binRegion := sn < 0 && len(binUnpadded) < 64; binRegion && excluding(kfBinNegative) {
			st.Excluded(kfBinNegative)
		} else {
			add("BIN(sn) is the 64-bit two's complement", f("BIN(%s)", SN), []string{"sn"}, wantStr(strconv.FormatUint(uint64(sn), 2))).known = func(v any, err error) string {
				// signature: sn < 0 and the value is the unpadded per-byte concatenation
				if got, ok := str(v); err == nil && binRegion && ok && got == binUnpadded {
					return kfBinNegative
				}
				return ""
			}
		}
		add("OCT(sn) is the 64-bit two's complement", f("OCT(%s)", SN), []string{"sn"}, wantStr(strconv.FormatUint(uint64(sn), 8)))
		add("CONV(BIN(m),2,10) = m", f("CONV(BIN(%s),2,10)", M), []string{"m"}, wantStr(strconv.FormatUint(m, 10)))
		add("CONV(OCT(m),8,10) = m", f("CONV(OCT(%s),8,10)", M), []string{"m"}, wantStr(strconv.FormatUint(m, 10)))
		add("HEX(sn) = CONV(sn,10,16)", f("HEX(%s)", SN), []string{"sn"}, wantStr(strings.ToUpper(strconv.FormatUint(uint64(sn), 16))))
		add("CONV(HEX(m),16,10) = m", f("CONV(HEX(%s),16,10)", M), []string{"m"}, wantStr(strconv.FormatUint(m, 10)))

		// ---- ASCII / ORD / CHAR ------------------------------------------------------------------
		// ASCII: "numeric value of the leftmost character … 0 if str is the empty string"; ORD: "If
		// the leftmost character is not a multibyte character, ORD() returns the same value as the
		// ASCII() function"
		switch {
		case s == "":
			add("ASCII('') = 0", f("ASCII(%s)", S), []string{"s"}, wantInt(0))
			add("ORD('') = 0", f("ORD(%s)", S), []string{"s"}, wantInt(0))
		case s[0] < 0x80:
			add("ASCII(s) = code of the leftmost character", f("ASCII(%s)", S), []string{"s"}, wantInt(int64(s[0])))
			add("ORD(s) = ASCII(s) for a single-byte leftmost character", f("ORD(%s)", S), []string{"s"}, wantInt(int64(s[0])))
		}
		if s != "" {
			// CHAR(ORD(c) USING utf8mb4) rebuilds the leftmost character from its bytes
			first := string([]rune(s)[0])
			if isNull("s") {
				first = "" // ORD(NULL) = NULL and CHAR() skips NULL values
			}
			add("CHAR(ORD(s) USING utf8mb4) = LEFT(s,1)", f("CHAR(ORD(%s) USING utf8mb4)", S), nil, wantStr(first))
			add("ORD(s) = ORD(LEFT(s,1))", f("ORD(%s) = ORD(LEFT(%s,1))", S, S), []string{"s"}, wantInt(1))
		}
		// CHAR: "NULL values are skipped", so there is no NULL propagation
		wantC := []byte{}
		if !isNull("c1") {
			wantC = append(wantC, byte(c1))
		}
		add("HEX(CHAR(c1,NULL,c2)) = the bytes c1 c2 (NULL skipped)", f("HEX(CHAR(%s,NULL,%d))", C1, c2), nil, wantStr(hexUpper(append(wantC, byte(c2)))))
		// CHAR() returns a binary string and "ASCII() works for 8-bit characters"
		if c1 >= 128 && !isNull("c1") && excluding(kfAsciiHighByte) {
			st.Excluded(kfAsciiHighByte)
		} else {
			knownAscii := func(v any, err error) string {
				if err != nil && c1 >= 128 && strings.Contains(err.Error(), "Incorrect string value") {
					return kfAsciiHighByte
				}
				return ""
			}
			add("ASCII(CHAR(c1)) = c1", f("ASCII(CHAR(%s))", C1), nil, func(v any) string {
				if isNull("c1") { // CHAR(NULL) = '' and ASCII('') = 0
					return wantInt(0)(v)
				}
				return wantInt(int64(c1))(v)
			}).known = knownAscii
			add("ORD(CHAR(c1)) = c1", f("ORD(CHAR(%s))", C1), nil, func(v any) string {
				if isNull("c1") {
					return wantInt(0)(v)
				}
				return wantInt(int64(c1))(v)
			}).known = knownAscii
		}
		if !isNull("w") {
			add("HEX(CHAR(w)) = the bytes of w, most significant first", f("HEX(CHAR(%s))", W), nil, wantStr(hexUpper(charBytes(w))))
		}
		add("LENGTH(CHAR(c1,c2)) = 2", f("LENGTH(CHAR(%d,%d))", c1, c2), nil, wantInt(2))

		// ---- digests -------------------------------------------------------------------------------
		md := md5.Sum(b)
		add("MD5(b) = 32 hex digits of the MD5 checksum", f("MD5(%s)", B), []string{"b"}, wantHexFold(fmt.Sprintf("%x", md)))
		add("CHAR_LENGTH(MD5(s)) = 32", f("CHAR_LENGTH(MD5(%s))", S), []string{"s"}, wantInt(32))
		s1 := sha1.Sum(b)
		add("SHA1(b) = 40 hex digits of the SHA-1 checksum", f("SHA1(%s)", B), []string{"b"}, wantHexFold(fmt.Sprintf("%x", s1)))
		add("SHA(b) = SHA1(b)", f("SHA(%s)", B), []string{"b"}, wantHexFold(fmt.Sprintf("%x", s1)))
		ss := sha1.Sum([]byte(s))
		add("SHA1(s) on a character string", f("SHA1(%s)", S), []string{"s"}, wantHexFold(fmt.Sprintf("%x", ss)))
		add("CHAR_LENGTH(SHA1(s)) = 40", f("CHAR_LENGTH(SHA1(%s))", S), []string{"s"}, wantInt(40))
		var sha2 string
		switch hl {
		case 224:
			sha2 = fmt.Sprintf("%x", sha256.Sum224(b))
		case 0, 256:
			sha2 = fmt.Sprintf("%x", sha256.Sum256(b))
		case 384:
			sha2 = fmt.Sprintf("%x", sha512.Sum384(b))
		case 512:
			sha2 = fmt.Sprintf("%x", sha512.Sum512(b))
		}
		if sha2 != "" {
			add("SHA2(b,hl) = the SHA-2 checksum of hl bits (0 = 256)", f("SHA2(%s,%s)", B, HL), []string{"b", "hl"}, wantHexFold(sha2))
			add("CHAR_LENGTH(SHA2(b,hl)) = hl/4", f("CHAR_LENGTH(SHA2(%s,%s))", B, HL), []string{"b", "hl"}, wantInt(int64(len(sha2))))
		} else {
			add("SHA2(b,hl) = NULL for a hash length that is not permitted", f("SHA2(%s,%s)", B, HL), []string{"b", "hl"}, wantNull)
		}

		// ---- CAST / CONVERT round trips --------------------------------------------------------------
		add("CAST(sn AS CHAR) = decimal text", f("CAST(%s AS CHAR)", SN), []string{"sn"}, wantStr(strconv.FormatInt(sn, 10)))
		add("CONVERT(sn, CHAR) = CAST(sn AS CHAR)", f("CONVERT(%s, CHAR)", SN), []string{"sn"}, wantStr(strconv.FormatInt(sn, 10)))
		add("CAST(CAST(sn AS CHAR) AS SIGNED) = sn", f("CAST(CAST(%s AS CHAR) AS SIGNED)", SN), []string{"sn"}, wantInt(sn))
		add("CAST(m AS CHAR) = decimal text", f("CAST(%s AS CHAR)", M), []string{"m"}, wantStr(strconv.FormatUint(m, 10)))
		add("CAST(CAST(m AS CHAR) AS UNSIGNED) = m", f("CAST(CAST(%s AS CHAR) AS UNSIGNED)", M), []string{"m"}, wantRat(new(big.Rat).SetInt(new(big.Int).SetUint64(m))))
		add("CAST(m AS DECIMAL(20,0)) = m", f("CAST(%s AS DECIMAL(20,0))", M), []string{"m"}, wantRat(new(big.Rat).SetInt(new(big.Int).SetUint64(m))))
		add("CAST(sn AS DECIMAL(20,0)) = sn", f("CAST(%s AS DECIMAL(20,0))", SN), []string{"sn"}, wantRat(new(big.Rat).SetInt64(sn)))
		add("CAST(CAST(x AS CHAR) AS DECIMAL(30,8)) = x", f("CAST(CAST(%s AS CHAR) AS DECIMAL(30,8))", X), []string{"x"}, wantRat(x))
		add("CAST(x AS DECIMAL(30,8)) = x", f("CAST(%s AS DECIMAL(30,8))", X), []string{"x"}, wantRat(x))
		if sn > -(1<<53) && sn < 1<<53 {
			add("CAST(CAST(sn AS DOUBLE) AS SIGNED) = sn for |sn| < 2^53", f("CAST(CAST(%s AS DOUBLE) AS SIGNED)", SN), []string{"sn"}, wantInt(sn))
		}
		add("CONVERT(CAST(s AS BINARY) USING utf8mb4) = s", f("CONVERT(CAST(%s AS BINARY) USING utf8mb4)", S), []string{"s"}, wantStr(s))
		add("HEX(CAST(s AS BINARY)) = HEX(s)", f("HEX(CAST(%s AS BINARY))", S), []string{"s"}, wantStr(hexUpper([]byte(s))))
		add("CAST(s AS CHAR) = s", f("CAST(%s AS CHAR)", S), []string{"s"}, wantStr(s))
		add("CONVERT(s USING utf8mb4) = s", f("CONVERT(%s USING utf8mb4)", S), []string{"s"}, wantStr(s))
		// "CHAR(N) causes the cast to use no more than N characters of the argument"
		byteCut := s[:min(cn, len(s))]
		switch {
		case excluding(kfCastCharLen) && !as.columns && cn < runeLen(s):
			// region of the listed finding: a LONGTEXT-typed argument (a literal) longer than n
			st.Excluded(kfCastCharLen)
		case excluding(kfCastCharBytes) && byteCut != refLeft(s, cn):
			// region of the listed finding: cutting after n bytes differs from cutting after n characters
			st.Excluded(kfCastCharBytes)
		default:
			knownCast := func(v any, err error) string {
				got, ok := str(v)
				if err != nil || !ok {
					return ""
				}
				// signature: a literal, n < CHAR_LENGTH(s) and the whole string came back
				if !as.columns && cn < runeLen(s) && got == s {
					return kfCastCharLen
				}
				// signature: the first n bytes came back and they are not the first n characters
				if byteCut != refLeft(s, cn) && got == byteCut {
					return kfCastCharBytes
				}
				return ""
			}
			add("CAST(s AS CHAR(n)) = LEFT(s,n)", f("CAST(%s AS CHAR(%d))", S, cn), []string{"s"}, wantStr(refLeft(s, cn))).known = knownCast
			add("CONVERT(s, CHAR(n)) = LEFT(s,n)", f("CONVERT(%s, CHAR(%d))", S, cn), []string{"s"}, wantStr(refLeft(s, cn))).known = knownCast
		}
		// "BINARY(N) causes the cast to use no more than N bytes of the argument. Values shorter than
		// N bytes are padded with 0x00 bytes to a length of N."
		bn := []byte(s)
		if len(bn) > cn {
			bn = bn[:cn]
		}
		for len(bn) < cn {
			bn = append(bn, 0)
		}
		add("HEX(CAST(s AS BINARY(n))) = n bytes, 0x00-padded", f("HEX(CAST(%s AS BINARY(%d)))", S, cn), []string{"s"}, wantStr(hexUpper(bn)))

		// ---- malformed input of the inverse functions: documented NULL ---------------------------
		// UNHEX: "If the argument contains any nonhexadecimal digits … UNHEX() returns NULL"
		if len(b) > 0 {
			h := []byte(hexUpper(b))
			h[rapid.IntRange(0, len(h)-1).Draw(rt, "badHexAt")] = rapid.SampledFrom([]byte{'G', 'g', 'Z', ' ', '-', 'x'}).Draw(rt, "badHex")
			add("UNHEX(text with a non-hex digit) = NULL", f("UNHEX(%s)", sqlQuote(string(h))), nil, wantNull)
			// FROM_BASE64: "NULL if the argument is NULL or not a valid base-64 string"
			if excluding(kfBase64Invalid) {
				st.Excluded(kfBase64Invalid)
			} else {
				e := []byte(refToBase64(b))
				e[rapid.IntRange(0, len(e)-1).Draw(rt, "bad64At")] = rapid.SampledFrom([]byte{'!', '*', '-', '_', '.'}).Draw(rt, "bad64")
				add("FROM_BASE64(text with a non-base64 character) = NULL", f("FROM_BASE64(%s)", sqlQuote(string(e))), nil, wantNull).known = func(v any, err error) string {
					if err != nil && strings.Contains(err.Error(), "illegal base64 data") {
						return kfBase64Invalid
					}
					return ""
				}
			}
		}
		// INET_ATON "returns NULL if it does not understand its argument": an octet above 255
		{
			oct := []int{int(w >> 24 & 255), int(w >> 16 & 255), int(w >> 8 & 255), int(w & 255)}
			oct[rapid.IntRange(0, 3).Draw(rt, "badOctetAt")] = rapid.IntRange(256, 999).Draw(rt, "badOctet")
			add("INET_ATON(address with an octet > 255) = NULL", f("INET_ATON('%d.%d.%d.%d')", oct[0], oct[1], oct[2], oct[3]), nil, wantNull)
		}

		fxt := fx.New(fx.Opts{})
		defer fxt.Close()
		sess := fxt.NewSession("", "", "")
		as.setup(rt, sess)
		runItems(rt, st, sess, as, items)

		st.Class("s:" + strClass(s))
		if s != "" && s[0] >= 0x80 {
			st.Class("s:multibyte-leftmost")
		}
		if cn < runeLen(s) {
			st.Class("cast:n<length")
		}
		if m >= 1<<63 {
			st.Class("m:>=2^63")
		}
		if sn < 0 {
			st.Class("sn:negative")
		}
		if w > 255 {
			st.Class("w:multi-byte CHAR()")
		}
		if sha2 == "" {
			st.Class("sha2:invalid-length")
		}
		if as.columns {
			st.Class("rendering:column")
		} else {
			st.Class("rendering:literal")
		}
		hasNull := false
		for _, a := range as.args {
			hasNull = hasNull || a.null
		}
		if hasNull {
			st.Class("with-NULL-argument")
		}
		if !isASCII(s) || s == "" || len(b) == 0 || m >= 1<<63 || sn < 0 || w > 255 || sha2 == "" || cn < runeLen(s) || hasNull {
			st.NonTrivial(map[string]any{"args": as.describe()}, "codes", hexUpper(b), s, m, sn, xl, cn, c1, c2, w, hl, hasNull)
		}
	})
}
