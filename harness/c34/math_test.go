package c34

import (
	"fmt"
	"math"
	"math/big"
	"strconv"
	"strings"
	"testing"

	"github.com/dolthub/go-mysql-server/vh/internal/fx"
	"github.com/dolthub/go-mysql-server/vh/internal/stats"
	"pgregory.net/rapid"
)

// Proposed known-finding ids (see notes/C34.md).
const (
	// GREATEST/LEAST keep the running extremum in a float64 and compare an integer argument
	// with the accumulator truncated to int64: integer arguments beyond 2^53 are rounded
	// (2^63-1, rounded to 2^63, overflows to the BIGINT minimum) and LEAST(0.5, 0) = 0.5
	kfGreatestFloat = "C34-greatest-least-int-compare"
)

// wantFloat requires a number within rel (relative) of want.
func wantFloat(want float64, rel float64) func(any) string {
	return func(v any) string {
		r, ok := num(v)
		if ok {
			got, _ := r.Float64()
			if got == want || math.Abs(got-want) <= rel*math.Abs(want) {
				return ""
			}
		}
		return strconv.FormatFloat(want, 'g', -1, 64)
	}
}

const ulps4 = 4 * 0x1p-52

// TestC34Math: POW/POWER/SQRT relations and GREATEST/LEAST.
func TestC34Math(t *testing.T) {
	st := stats.New("C34", "math")
	defer st.Flush()
	rapid.Check(t, func(rt *rapid.T) {
		st.Eval()
		// POW / SQRT arguments: a small integer base and exponent (exactly representable powers)
		// and a DOUBLE written exactly as a literal
		pi := rapid.IntRange(-12, 12).Draw(rt, "pi")
		pj := rapid.IntRange(0, 12).Draw(rt, "pj")
		sq := int64(rapid.IntRange(0, 1<<26).Draw(rt, "sq"))
		if rapid.Bool().Draw(rt, "sqSmall") {
			sq = int64(rapid.IntRange(0, 100).Draw(rt, "sqS"))
		}
		pl := genDecimal(rt, "pf", 6) + "e" + strconv.Itoa(rapid.IntRange(-6, 6).Draw(rt, "pfExp"))
		pf, _ := strconv.ParseFloat(pl, 64)

		// GREATEST / LEAST arguments
		gs := make([]int64, 3)
		for i := range gs {
			switch rapid.IntRange(0, 2).Draw(rt, fmt.Sprintf("g%dClass", i)) {
			case 0:
				gs[i] = int64(rapid.IntRange(-5, 5).Draw(rt, fmt.Sprintf("g%d", i)))
			case 1:
				gs[i] = rapid.SampledFrom([]int64{math.MaxInt64, math.MaxInt64 - 1, math.MinInt64, math.MinInt64 + 1, 1 << 53, 1<<53 + 1, -(1 << 53) - 1, 1 << 62, 0, -1, 1}).Draw(rt, fmt.Sprintf("g%d", i))
			default:
				gs[i] = int64(genUint64(rt, fmt.Sprintf("g%d", i)))
			}
		}
		beyond53 := func() bool {
			for _, g := range gs {
				if g > 1<<53 || g < -(1<<53) {
					return true
				}
			}
			return false
		}
		if excluding(kfGreatestFloat) && beyond53() {
			// region of the listed finding: an integer argument that a float64 cannot hold
			st.Excluded(kfGreatestFloat)
			for i := range gs {
				gs[i] >>= 11
			}
		}
		inRegion := beyond53()
		ss := make([]string, 3)
		for i := range ss {
			// no trailing spaces: whether they are significant depends on the collation's pad attribute
			ss[i] = strings.TrimRight(genString(rt, fmt.Sprintf("h%d", i), 3, false), " ")
		}
		dl := []string{genDecimal(rt, "da", 6), genDecimal(rt, "db", 6)}
		for i := range dl {
			if !strings.Contains(dl[i], ".") {
				dl[i] += ".0" // a DECIMAL literal, not an integer
			}
		}
		if rapid.IntRange(0, 3).Draw(rt, "dSame") == 0 {
			dl[1] = dl[0] + "0" // same value with another scale
		}
		fl := []string{genDecimal(rt, "fa", 4) + "e" + strconv.Itoa(rapid.IntRange(-3, 8).Draw(rt, "faExp")), genDecimal(rt, "fb", 4) + "e" + strconv.Itoa(rapid.IntRange(-3, 8).Draw(rt, "fbExp"))}
		fa, _ := strconv.ParseFloat(fl[0], 64)
		fb, _ := strconv.ParseFloat(fl[1], 64)

		as := &argSet{columns: rapid.IntRange(0, 2).Draw(rt, "columns") == 0}
		as.add("pi", fmt.Sprint(pi), "INT")
		as.add("pj", fmt.Sprint(pj), "INT")
		as.add("sq", fmt.Sprint(sq), "BIGINT")
		as.add("pf", pl, "DOUBLE")
		as.add("g0", fmt.Sprint(gs[0]), "BIGINT")
		as.add("g1", fmt.Sprint(gs[1]), "BIGINT")
		as.add("g2", fmt.Sprint(gs[2]), "BIGINT")
		as.add("h0", sqlQuote(ss[0]), "VARCHAR(16)")
		as.add("h1", sqlQuote(ss[1]), "VARCHAR(16)")
		as.add("h2", sqlQuote(ss[2]), "VARCHAR(16)")
		as.add("da", dl[0], "DECIMAL(20,9)")
		as.add("db", dl[1], "DECIMAL(20,9)")
		as.add("fa", fl[0], "DOUBLE")
		as.add("fb", fl[1], "DOUBLE")
		if rapid.IntRange(0, 4).Draw(rt, "withNull") == 0 {
			as.args[rapid.IntRange(0, len(as.args)-1).Draw(rt, "nullArg")].null = true
		}
		PI, PJ, SQ, PF := as.ref("pi"), as.ref("pj"), as.ref("sq"), as.ref("pf")
		G0, G1, G2 := as.ref("g0"), as.ref("g1"), as.ref("g2")
		H0, H1, H2 := as.ref("h0"), as.ref("h1"), as.ref("h2")
		DA, DB, FA, FB := as.ref("da"), as.ref("db"), as.ref("fa"), as.ref("fb")
		f := func(format string, a ...any) string { return fmt.Sprintf(format, a...) }

		var items []item
		add := func(name, sql string, deps []string, check func(any) string) *item {
			items = append(items, item{name: name, sql: sql, deps: deps, check: check})
			return &items[len(items)-1]
		}

		// ---- POW / POWER / SQRT ------------------------------------------------------------------
		// i^j is an integer below 2^53 here (|i| <= 12, j <= 12: 12^12 < 2^44), hence exactly representable
		exact := new(big.Int).Exp(big.NewInt(int64(pi)), big.NewInt(int64(pj)), nil)
		ef, _ := new(big.Float).SetInt(exact).Float64()
		add("POW(i,j) = i^j (exactly representable)", f("POW(%s,%s)", PI, PJ), []string{"pi", "pj"}, wantFloat(ef, 0x1p-52))
		add("POWER(i,j) = POW(i,j)", f("POWER(%s,%s)", PI, PJ), []string{"pi", "pj"}, wantFloat(ef, 0x1p-52))
		add("POW(f,0) = 1", f("POW(%s,0)", PF), []string{"pf"}, wantFloat(1, 0))
		add("POW(f,1) = f", f("POW(%s,1)", PF), []string{"pf"}, wantFloat(pf, 0))
		add("POW(f,2) = f*f", f("POW(%s,2)", PF), []string{"pf"}, wantFloat(pf*pf, ulps4))
		if pi != 0 {
			add("POW(i,-j) = 1/i^j", f("POW(%s,-%s)", PI, PJ), []string{"pi", "pj"}, wantFloat(1/ef, ulps4))
		}
		add("SQRT(n*n) = n", f("SQRT(%s*%s)", SQ, SQ), []string{"sq"}, wantFloat(float64(sq), 0))
		if pf >= 0 {
			add("SQRT(f) is the square root", f("SQRT(%s)", PF), []string{"pf"}, wantFloat(math.Sqrt(pf), 0x1p-52))
			add("SQRT(f)*SQRT(f) = f", f("SQRT(%s)*SQRT(%s)", PF, PF), []string{"pf"}, wantFloat(pf, ulps4))
			add("POW(f,0.5) = SQRT(f)", f("POW(%s,0.5)", PF), []string{"pf"}, wantFloat(math.Sqrt(pf), ulps4))
			add("SQRT(POW(f,2)) = f", f("SQRT(POW(%s,2))", PF), []string{"pf"}, wantFloat(pf, ulps4))
		} else {
			// "SQRT(-16) -> NULL"
			add("SQRT(negative) = NULL", f("SQRT(%s)", PF), []string{"pf"}, wantNull)
			add("SQRT(POW(f,2)) = ABS(f)", f("SQRT(POW(%s,2))", PF), []string{"pf"}, wantFloat(-pf, ulps4))
		}

		// ---- GREATEST / LEAST: "returns the largest (smallest) argument"; NULL if any argument is NULL
		maxI, minI := gs[0], gs[0]
		for _, g := range gs[1:] {
			maxI, minI = max(maxI, g), min(minI, g)
		}
		// signature of kfGreatestFloat: an argument beyond 2^53 and the value the float64 accumulator gives
		viaFloat := func(vals []int64, greater bool) int64 {
			var sel float64
			for i, v := range vals {
				if i == 0 || (greater && v > int64(sel)) || (!greater && v < int64(sel)) {
					sel = float64(v)
				}
			}
			return int64(sel)
		}
		knownG := func(vals []int64, greater bool) func(any, error) string {
			return func(v any, err error) string {
				if r, ok := num(v); err == nil && inRegion && ok && r.IsInt() && r.Num().IsInt64() && r.Num().Int64() == viaFloat(vals, greater) {
					return kfGreatestFloat
				}
				return ""
			}
		}
		gdeps := []string{"g0", "g1", "g2"}
		add("GREATEST(g0,g1,g2) = the largest integer", f("GREATEST(%s,%s,%s)", G0, G1, G2), gdeps, wantInt(maxI)).known = knownG(gs, true)
		add("LEAST(g0,g1,g2) = the smallest integer", f("LEAST(%s,%s,%s)", G0, G1, G2), gdeps, wantInt(minI)).known = knownG(gs, false)
		add("GREATEST(g0,g0) = g0", f("GREATEST(%s,%s)", G0, G0), []string{"g0"}, wantInt(gs[0])).known = knownG([]int64{gs[0], gs[0]}, true)
		add("LEAST(g1,g0) = LEAST(g0,g1)", f("LEAST(%s,%s)", G1, G0), []string{"g0", "g1"}, wantInt(min(gs[0], gs[1]))).known = knownG([]int64{gs[1], gs[0]}, false)
		// strings compare by code point under the default collation utf8mb4_0900_bin (= UTF-8 byte order)
		maxS, minS := ss[0], ss[0]
		for _, s := range ss[1:] {
			maxS, minS = max(maxS, s), min(minS, s)
		}
		hdeps := []string{"h0", "h1", "h2"}
		add("GREATEST(h0,h1,h2) = the largest string", f("GREATEST(%s,%s,%s)", H0, H1, H2), hdeps, wantStr(maxS))
		add("LEAST(h0,h1,h2) = the smallest string", f("LEAST(%s,%s,%s)", H0, H1, H2), hdeps, wantStr(minS))
		// doubles: the result is one of the arguments, exactly
		add("GREATEST(fa,fb) = the larger double", f("GREATEST(%s,%s)", FA, FB), []string{"fa", "fb"}, wantFloat(math.Max(fa, fb), 0))
		add("LEAST(fa,fb) = the smaller double", f("LEAST(%s,%s)", FA, FB), []string{"fa", "fb"}, wantFloat(math.Min(fa, fb), 0))
		// exact decimals (<= 14 significant digits): the value is asserted, not the result type; when
		// the engine answers with a DOUBLE the stated float tolerance (1e-9 relative) applies
		da, db := rat(dl[0]), rat(dl[1])
		maxD, minD := da, da
		if db.Cmp(da) > 0 {
			maxD = db
		} else {
			minD = db
		}
		decCheck := func(want *big.Rat) func(any) string {
			return func(v any) string {
				r, ok := num(v)
				if !ok {
					return ratStr(want)
				}
				if _, isFloat := v.(float64); isFloat {
					diff := ratAbs(new(big.Rat).Sub(r, want))
					if diff.Cmp(new(big.Rat).Mul(ratAbs(want), big.NewRat(1, 1e9))) <= 0 {
						return ""
					}
					return ratStr(want)
				}
				if r.Cmp(want) != 0 {
					return ratStr(want)
				}
				return ""
			}
		}
		add("GREATEST(da,db) = the larger decimal", f("GREATEST(%s,%s)", DA, DB), []string{"da", "db"}, decCheck(maxD))
		add("LEAST(da,db) = the smaller decimal", f("LEAST(%s,%s)", DA, DB), []string{"da", "db"}, decCheck(minD))
		// an integer among decimals is compared by value as well
		small := int64(rapid.IntRange(-1000, 1000).Draw(rt, "gSmall"))
		if rapid.Bool().Draw(rt, "gSmallNear") {
			small = truncRat(da).Int64() + int64(rapid.IntRange(-1, 1).Draw(rt, "gSmallD"))
		}
		if excluding(kfGreatestFloat) {
			// region of the listed finding: an integer argument compared with a fractional accumulator
			st.Excluded(kfGreatestFloat)
		} else {
			sr := new(big.Rat).SetInt64(small)
			maxMix, minMix := da, da
			if sr.Cmp(da) > 0 {
				maxMix = sr
			} else {
				minMix = sr
			}
			daF, _ := da.Float64()
			// signature: the value of the engine's accumulator loop — the integer is compared with
			// the accumulator truncated toward zero
			knownMix := func(greater bool) func(any, error) string {
				return func(v any, err error) string {
					sel := daF
					if (greater && small > int64(sel)) || (!greater && small < int64(sel)) {
						sel = float64(small)
					}
					if r, ok := num(v); err == nil && ok && daF != math.Trunc(daF) && r.Cmp(new(big.Rat).SetFloat64(sel)) == 0 {
						return kfGreatestFloat
					}
					return ""
				}
			}
			add("GREATEST(da,k) with an integer k", f("GREATEST(%s,%d)", DA, small), []string{"da"}, decCheck(maxMix)).known = knownMix(true)
			add("LEAST(da,k) with an integer k", f("LEAST(%s,%d)", DA, small), []string{"da"}, decCheck(minMix)).known = knownMix(false)
		}

		fxt := fx.New(fx.Opts{})
		defer fxt.Close()
		sess := fxt.NewSession("", "", "")
		as.setup(rt, sess)
		runItems(rt, st, sess, as, items)

		if inRegion {
			st.Class("g:beyond-2^53")
		}
		if maxI == minI {
			st.Class("g:all-equal")
		}
		if pf < 0 {
			st.Class("pf:negative")
		}
		if pi < 0 {
			st.Class("pi:negative")
		}
		multi := !isASCII(ss[0]) || !isASCII(ss[1]) || !isASCII(ss[2])
		if multi {
			st.Class("h:multibyte")
		}
		if da.Cmp(db) == 0 {
			st.Class("d:equal")
		}
		if as.columns {
			st.Class("rendering:column")
		} else {
			st.Class("rendering:literal")
		}
		hasNull := false
		for _, a := range as.args {
			hasNull = hasNull || a.null
		}
		if hasNull {
			st.Class("with-NULL-argument")
		}
		if inRegion || pf < 0 || pi < 0 || pj == 0 || multi || hasNull || maxI == minI {
			st.NonTrivial(map[string]any{"args": as.describe()}, "math", pi, pj, sq, pl, gs[0], gs[1], gs[2], ss[0], ss[1], ss[2], dl[0], dl[1], fl[0], fl[1], hasNull)
		}
	})
}
