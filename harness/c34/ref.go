// Package c34 checks property C34: built-in scalar functions satisfy their defining
// identities. This file holds the reference side: the MySQL manual's definitions of the
// string functions on sequences of characters (runes), of the inverse pairs, and exact
// rational arithmetic for the rounding functions.
package c34

import (
	"encoding/base64"
	"fmt"
	"math/big"
	"strconv"
	"strings"
	"unicode/utf8"
)

func runeLen(s string) int { return utf8.RuneCountInString(s) }

// refLeft: "Returns the leftmost len characters from the string str" (len >= 0).
func refLeft(s string, n int) string {
	r := []rune(s)
	if n <= 0 {
		return ""
	}
	if n > len(r) {
		n = len(r)
	}
	return string(r[:n])
}

func refRight(s string, n int) string {
	r := []rune(s)
	if n <= 0 {
		return ""
	}
	if n > len(r) {
		n = len(r)
	}
	return string(r[len(r)-n:])
}

// refSubstring implements SUBSTRING(str,pos[,len]) as the manual defines it: positions
// count characters from 1; a negative pos counts from the end; pos = 0 gives the empty
// string; "If len is less than 1, the result is the empty string".
func refSubstring(s string, pos int, length int, hasLen bool) string {
	r := []rune(s)
	n := len(r)
	if pos == 0 {
		return ""
	}
	start := pos - 1
	if pos < 0 {
		start = n + pos
		if start < 0 {
			return ""
		}
	}
	if start >= n {
		return ""
	}
	end := n
	if hasLen {
		if length < 1 {
			return ""
		}
		if start+length < end {
			end = start + length
		}
	}
	return string(r[start:end])
}

// refLocate: 1-based character position of the first occurrence of sub in s at or after
// character position from (>= 1); 0 when there is none. Matching is exact (the default
// collation of the engine is utf8mb4_0900_bin).
func refLocate(sub, s string, from int) int {
	r := []rune(s)
	if from < 1 || from > len(r)+1 {
		return 0
	}
	head := string(r[:from-1])
	tail := string(r[from-1:])
	i := strings.Index(tail, sub)
	if i < 0 {
		return 0
	}
	return runeLen(head) + runeLen(tail[:i]) + 1
}

// refInsert implements INSERT(str,pos,len,newstr): "Returns the string str, with the
// substring beginning at position pos and len characters long replaced by the string
// newstr. Returns the original string if pos is not within the length of the string.
// Replaces the rest of the string from position pos if len is not within the length of the
// rest of the string." defined is false for pos = length+1, where the sentence is ambiguous.
func refInsert(s string, pos, length int, newstr string) (res string, defined bool) {
	r := []rune(s)
	n := len(r)
	if pos == n+1 {
		return "", false
	}
	if pos < 1 || pos > n {
		return s, true
	}
	if length < 0 || pos-1+length > n {
		return string(r[:pos-1]) + newstr, true
	}
	return string(r[:pos-1]) + newstr + string(r[pos-1+length:]), true
}

// refPad implements LPAD / RPAD for len >= 0 and a non-empty pad string: "Returns the
// string str, left-padded with the string padstr to a length of len characters. If str is
// longer than len, the return value is shortened to len characters."
func refPad(s string, n int, pad string, left bool) string {
	r := []rune(s)
	if n <= len(r) {
		return string(r[:n])
	}
	p := []rune(pad)
	need := n - len(r)
	var fill []rune
	for len(fill) < need {
		fill = append(fill, p...)
	}
	fill = fill[:need]
	if left {
		return string(fill) + s
	}
	return s + string(fill)
}

func refReverse(s string) string {
	r := []rune(s)
	for i, j := 0, len(r)-1; i < j; i, j = i+1, j-1 {
		r[i], r[j] = r[j], r[i]
	}
	return string(r)
}

// refRepeat: "If count is less than 1, returns an empty string."
func refRepeat(s string, n int) string {
	if n < 1 {
		return ""
	}
	return strings.Repeat(s, n)
}

// refReplace: "Returns the string str with all occurrences of the string from_str replaced
// by the string to_str. REPLACE() performs a case-sensitive match". An empty from_str
// leaves the string unchanged.
func refReplace(s, from, to string) string {
	if from == "" {
		return s
	}
	return strings.ReplaceAll(s, from, to)
}

// refTrimStr implements TRIM([{BOTH | LEADING | TRAILING} remstr FROM] str): "Returns the
// string str with all remstr prefixes or suffixes removed" (remstr non-empty).
func refTrimStr(s, rem string, leading, trailing bool) string {
	if rem == "" {
		return s
	}
	if leading {
		for strings.HasPrefix(s, rem) {
			s = s[len(rem):]
		}
	}
	if trailing {
		for strings.HasSuffix(s, rem) {
			s = s[:len(s)-len(rem)]
		}
	}
	return s
}

// refToBase64:"Encoded output consists of groups of 4 printable characters … A newline is
// added after each 76 characters of encoded output" (not after the last group).
func refToBase64(b []byte) string {
	e := base64.StdEncoding.EncodeToString(b)
	var sb strings.Builder
	for i := 0; i < len(e); i += 76 {
		if i > 0 {
			sb.WriteByte('\n')
		}
		end := i + 76
		if end > len(e) {
			end = len(e)
		}
		sb.WriteString(e[i:end])
	}
	return sb.String()
}

func refInetNtoa(n uint32) string {
	return fmt.Sprintf("%d.%d.%d.%d", n>>24, (n>>16)&255, (n>>8)&255, n&255)
}

// ---------------------------------------------------------------------------------------
// exact numbers

func rat(s string) *big.Rat {
	r, ok := new(big.Rat).SetString(s)
	if !ok {
		panic("bad number " + s)
	}
	return r
}

func pow10(d int) *big.Rat {
	p := new(big.Int).Exp(big.NewInt(10), big.NewInt(int64(abs(d))), nil)
	if d >= 0 {
		return new(big.Rat).SetInt(p)
	}
	return new(big.Rat).SetFrac(big.NewInt(1), p)
}

func abs(i int) int {
	if i < 0 {
		return -i
	}
	return i
}

// floorRat returns the largest integer <= x.
func floorRat(x *big.Rat) *big.Int {
	q := new(big.Int)
	m := new(big.Int)
	q.DivMod(x.Num(), x.Denom(), m) // Euclidean: m >= 0, so q is the floor
	return q
}

func ceilRat(x *big.Rat) *big.Int {
	f := floorRat(x)
	if new(big.Rat).SetInt(f).Cmp(x) != 0 {
		f.Add(f, big.NewInt(1))
	}
	return f
}

// truncRat rounds toward zero.
func truncRat(x *big.Rat) *big.Int {
	if x.Sign() >= 0 {
		return floorRat(x)
	}
	return ceilRat(x)
}

// refRound: "For exact-value numbers, ROUND() uses the 'round half away from zero' rule".
func refRound(x *big.Rat, d int) *big.Rat {
	scaled := new(big.Rat).Mul(x, pow10(d))
	half := big.NewRat(1, 2)
	var i *big.Int
	if scaled.Sign() >= 0 {
		i = floorRat(new(big.Rat).Add(scaled, half))
	} else {
		i = ceilRat(new(big.Rat).Sub(scaled, half))
	}
	return new(big.Rat).Mul(new(big.Rat).SetInt(i), pow10(-d))
}

// refTruncate: "Returns the number X, truncated to D decimal places" (toward zero).
func refTruncate(x *big.Rat, d int) *big.Rat {
	scaled := new(big.Rat).Mul(x, pow10(d))
	return new(big.Rat).Mul(new(big.Rat).SetInt(truncRat(scaled)), pow10(-d))
}

// refMod: "Returns the remainder of N divided by M": N - M*trunc(N/M) (sign of N).
func refMod(a, b *big.Rat) *big.Rat {
	q := truncRat(new(big.Rat).Quo(a, b))
	return new(big.Rat).Sub(a, new(big.Rat).Mul(b, new(big.Rat).SetInt(q)))
}

func ratAbs(x *big.Rat) *big.Rat { return new(big.Rat).Abs(x) }

func ratStr(x *big.Rat) string {
	if x.IsInt() {
		return x.Num().String()
	}
	return x.FloatString(12)
}

func sqlQuote(s string) string {
	return "'" + strings.ReplaceAll(strings.ReplaceAll(s, `\`, `\\`), "'", "''") + "'"
}

func hexUpper(b []byte) string { return strings.ToUpper(fmt.Sprintf("%x", b)) }

func q(s string) string { return strconv.Quote(s) }
