package c34

import (
	"fmt"
	"math"
	"math/big"
	"os"
	"strconv"
	"strings"
	"testing"

	"github.com/dolthub/go-mysql-server/vh/internal/fx"
	"github.com/dolthub/go-mysql-server/vh/internal/kf"
	"github.com/dolthub/go-mysql-server/vh/internal/stats"
	"pgregory.net/rapid"
)

// Proposed known-finding ids for the numeric functions (see notes/C34.md).
const (
	kfCeilFloorSat = "C34-ceil-floor-int64-saturation" // CEIL/FLOOR of a DECIMAL/DOUBLE beyond the BIGINT range returns ±2^63
	kfAbsMinInt    = "C34-abs-min-narrow-integer"      // ABS(-128 | -32768 | -2147483648) on a TINYINT/SMALLINT/INT value returns the argument
	kfAbsMinBigint = "C34-abs-min-bigint"              // ABS(-9223372036854775808) returns the argument instead of an out-of-range error
	kfSignRounds   = "C34-sign-rounds-to-integer"      // SIGN(x) = 0 for 0 < |x| < 0.5 (argument converted to BIGINT first)
	// CEIL/FLOOR call apd's Ceil/Floor with the argument as destination (aliasing). Two
	// symptoms: (1) the argument value is rounded in place — a DECIMAL column value changes in
	// the row and, in the memory backend, in the table; (2) CEIL(x) = 0 for 0 < x < 0.1 and
	// FLOOR(x) = 0 for -0.1 < x < 0
	kfCeilAlias = "C34-ceil-floor-aliased-decimal"
	// ROUND of a BIGINT UNSIGNED value declares a signed result type: an enclosing ROUND (or
	// any consumer that converts by type) saturates values >= 2^63 to 9223372036854775807
	kfRoundUnsigned = "C34-round-unsigned-declared-signed"
	// MOD on DECIMALs fails with "division impossible" when the integer quotient has more
	// digits than both operands
	kfModImpossible = "C34-mod-division-impossible"
)

var (
	maxInt64Rat = new(big.Rat).SetInt64(math.MaxInt64)
	minInt64Rat = new(big.Rat).SetInt64(math.MinInt64)
)

func inInt64(x *big.Rat) bool { return x.Cmp(minInt64Rat) >= 0 && x.Cmp(maxInt64Rat) <= 0 }

// genDecimal draws an exact decimal literal: sign, up to intDigits integer digits and up
// to 8 fractional digits, biased to halves (…5), zeros and nines.
func genDecimal(rt *rapid.T, label string, maxIntDigits int) string {
	var ip string
	switch rapid.IntRange(0, 4).Draw(rt, label+"IntClass") {
	case 0:
		ip = "0"
	case 1:
		ip = rapid.SampledFrom([]string{"1", "2", "9", "10", "99", "100", "999", "1000", "1234", "9999", "12345"}).Draw(rt, label+"Int")
	default:
		n := rapid.IntRange(1, maxIntDigits).Draw(rt, label+"IntDigits")
		var sb strings.Builder
		for i := 0; i < n; i++ {
			lo := 0
			if i == 0 {
				lo = 1
			}
			sb.WriteByte(byte('0' + rapid.IntRange(lo, 9).Draw(rt, fmt.Sprintf("%sI%d", label, i))))
		}
		ip = sb.String()
	}
	var fp string
	switch rapid.IntRange(0, 4).Draw(rt, label+"FracClass") {
	case 0:
		fp = ""
	case 1:
		fp = rapid.SampledFrom([]string{"5", "50", "05", "45", "55", "499", "500", "501", "999", "9995", "0005", "00000001", "99999999", "4999", "15", "25", "35"}).Draw(rt, label+"Frac")
	default:
		n := rapid.IntRange(1, 8).Draw(rt, label+"FracDigits")
		var sb strings.Builder
		for i := 0; i < n; i++ {
			sb.WriteByte(byte('0' + rapid.SampledFrom([]int{0, 0, 1, 4, 5, 5, 6, 9, 9, 2, 3, 7, 8}).Draw(rt, fmt.Sprintf("%sF%d", label, i))))
		}
		fp = sb.String()
	}
	s := ip
	if fp != "" {
		s += "." + fp
	}
	if rapid.Bool().Draw(rt, label+"Neg") {
		s = "-" + s
	}
	return s
}

// makeTie rewrites the decimal literal so that the digit after position d (d > 0: fractional
// digit d; d <= 0: integer digit 10^-d) is a 5 with nothing behind it.
func makeTie(lit string, d int) string {
	neg := strings.HasPrefix(lit, "-")
	lit = strings.TrimPrefix(lit, "-")
	ip, fp := lit, ""
	if i := strings.IndexByte(lit, '.'); i >= 0 {
		ip, fp = lit[:i], lit[i+1:]
	}
	if d >= 0 {
		fp = (fp + strings.Repeat("0", d))[:d] + "5"
	} else {
		k := -d
		for len(ip) < k+1 {
			ip = "1" + ip
		}
		ip = ip[:len(ip)-k] + "5" + strings.Repeat("0", k-1)
		fp = ""
	}
	lit = ip
	if fp != "" {
		lit += "." + fp
	}
	if neg {
		lit = "-" + lit
	}
	return lit
}

func fracDigits(lit string) int {
	if i := strings.IndexByte(lit, '.'); i >= 0 {
		return len(lit) - i - 1
	}
	return 0
}

func TestC34Num(t *testing.T) {
	st := stats.New("C34", "numeric")
	defer st.Flush()
	rapid.Check(t, func(rt *rapid.T) {
		st.Eval()
		satExcl := excluding(kfCeilFloorSat)
		maxDigits := 21
		if satExcl {
			maxDigits = 18 // stay inside the BIGINT range: the region beyond it is a listed finding
			st.Class("x:bounded-by-" + kfCeilFloorSat)
		}
		xl := genDecimal(rt, "x", maxDigits)
		d := rapid.IntRange(-4, 9).Draw(rt, "d")
		if rapid.IntRange(0, 9).Draw(rt, "dWide") == 0 {
			d = rapid.IntRange(-25, 25).Draw(rt, "dFar")
		}
		if d >= -3 && d <= 7 && rapid.IntRange(0, 3).Draw(rt, "makeTie") == 0 {
			xl = makeTie(xl, d) // an exact rounding tie at digit d: ...5 and nothing behind it
		}
		x := rat(xl)
		isBigUnsignedInt := func() bool {
			return !strings.Contains(xl, ".") && x.Cmp(maxInt64Rat) > 0 && x.Cmp(new(big.Rat).SetInt(new(big.Int).SetUint64(math.MaxUint64))) <= 0
		}
		if excluding(kfRoundUnsigned) && isBigUnsignedInt() {
			// region of the listed finding: an integer literal in 2^63 … 2^64-1; written as a DECIMAL instead
			st.Excluded(kfRoundUnsigned)
			xl += ".0"
		}
		bigUnsigned := isBigUnsignedInt()
		signExcl := excluding(kfSignRounds)
		smallFrac := func(v *big.Rat) bool { return v.Sign() != 0 && ratAbs(v).Cmp(big.NewRat(1, 2)) < 0 }
		if kf.Listed(kfCeilAlias) && os.Getenv("VERIF_C34_NOEXCLUDE") == "" && x.Sign() != 0 && ratAbs(x).Cmp(big.NewRat(1, 10)) < 0 {
			// region of the listed finding (symptom 2): 0 < |x| < 0.1
			st.Excluded(kfCeilAlias)
			xl = strings.Replace(xl, "0.", "3.", 1)
			x = rat(xl)
		}
		if signExcl && smallFrac(x) {
			// region of the listed finding: 0 < |x| < 0.5 — move x out of it
			st.Excluded(kfSignRounds)
			xl = strings.Replace(xl, "0.", "3.", 1)
			x = rat(xl)
		}
		// integer argument
		var iv int64
		switch rapid.IntRange(0, 3).Draw(rt, "iClass") {
		case 0:
			iv = rapid.SampledFrom([]int64{0, 1, -1, 5, -5, 15, 25, -15, 45, 50, 55, 149, 150, 999, 1000, -1000, math.MaxInt64, math.MinInt64 + 1, math.MinInt64, math.MaxInt32, math.MinInt32, math.MinInt16, math.MinInt8, 127, 128, 32767, 32768}).Draw(rt, "i")
		case 1:
			iv = int64(rapid.IntRange(-2000, 2000).Draw(rt, "i"))
		default:
			iv = int64(genUint64(rt, "i"))
		}
		isMinSigned := iv == math.MinInt32 || iv == math.MinInt16 || iv == math.MinInt8
		if isMinSigned && excluding(kfAbsMinInt) {
			st.Excluded(kfAbsMinInt)
			iv++
		}
		if iv == math.MinInt64 && excluding(kfAbsMinBigint) {
			st.Excluded(kfAbsMinBigint)
			iv++
		}
		// double argument: decimal mantissa with an exponent, so that it is written exactly as a literal
		fexp := rapid.IntRange(-6, 6).Draw(rt, "fExp")
		if !satExcl && rapid.IntRange(0, 7).Draw(rt, "fHuge") == 0 {
			fexp = rapid.IntRange(13, 30).Draw(rt, "fExpHuge") // beyond the BIGINT range
		}
		fl := genDecimal(rt, "f", 6) + "e" + strconv.Itoa(fexp)
		fv, _ := strconv.ParseFloat(fl, 64)
		if signExcl && fv != 0 && math.Abs(fv) < 0.5 {
			st.Excluded(kfSignRounds)
			fl = fl[:strings.IndexByte(fl, 'e')] + "e0"
			if v, _ := strconv.ParseFloat(fl, 64); math.Abs(v) < 0.5 {
				fl = strings.Replace(fl, "0.", "3.", 1)
			}
			fv, _ = strconv.ParseFloat(fl, 64)
		}
		fx64 := new(big.Rat).SetFloat64(fv) // the exact value of the double
		// MOD operands
		al := genDecimal(rt, "a", 6)
		bl := genDecimal(rt, "b", 4)
		a, b := rat(al), rat(bl)
		coefDigits := func(lit string) int {
			n := len(strings.TrimLeft(strings.NewReplacer("-", "", ".", "").Replace(lit), "0"))
			if n == 0 {
				n = 1
			}
			return n
		}
		modRegion := func() bool {
			if b.Sign() == 0 {
				return false
			}
			qd := len(new(big.Int).Abs(truncRat(new(big.Rat).Quo(a, b))).String())
			return qd > max(coefDigits(al), coefDigits(bl))
		}
		if excluding(kfModImpossible) && modRegion() {
			// region of the listed finding: more quotient digits than operand digits
			st.Excluded(kfModImpossible)
			bl = strings.Replace(bl, "0.", "7.", 1)
			b = rat(bl)
			if modRegion() {
				bl, b = "7", rat("7")
			}
		}
		inModRegion := modRegion()

		as := &argSet{columns: rapid.IntRange(0, 2).Draw(rt, "columns") == 0}
		as.add("x", xl, "DECIMAL(40,8)")
		as.add("d", fmt.Sprint(d), "INT")
		as.add("i", strconv.FormatInt(iv, 10), "BIGINT")
		as.add("f", fl, "DOUBLE")
		as.add("a", al, "DECIMAL(20,8)")
		as.add("b", bl, "DECIMAL(20,8)")
		if rapid.IntRange(0, 7).Draw(rt, "withNull") == 0 {
			as.args[rapid.IntRange(0, len(as.args)-1).Draw(rt, "nullArg")].null = true
		}
		X, D, I, F, A, B := as.ref("x"), as.ref("d"), as.ref("i"), as.ref("f"), as.ref("a"), as.ref("b")
		f := func(format string, a ...any) string { return fmt.Sprintf(format, a...) }

		var items []item
		add := func(name, sql string, deps []string, check func(any) string) *item {
			items = append(items, item{name: name, sql: sql, deps: deps, check: check})
			return &items[len(items)-1]
		}
		unit := pow10(-d)
		half := new(big.Rat).Mul(unit, big.NewRat(1, 2))
		// ---- exact decimals ------------------------------------------------------------------
		// ROUND: exact value (round half away from zero); the statement's "within one unit" follows
		add("ROUND(x,d) rounds half away from zero", f("ROUND(%s,%s)", X, D), []string{"x", "d"}, func(v any) string {
			r, ok := num(v)
			if !ok {
				return ratStr(refRound(x, d))
			}
			if diff := ratAbs(new(big.Rat).Sub(r, x)); diff.Cmp(half) > 0 {
				return "|ROUND(x,d) - x| <= 0.5*10^-d, i.e. " + ratStr(refRound(x, d))
			}
			if r.Cmp(refRound(x, d)) != 0 {
				return ratStr(refRound(x, d))
			}
			return ""
		})
		add("ROUND(ROUND(x,d),d) = ROUND(x,d)", f("ROUND(ROUND(%s,%s),%s)", X, D, D), []string{"x", "d"}, wantRat(refRound(x, d))).known = func(v any, err error) string {
			// signature: x is an unsigned integer literal >= 2^63 (literal rendering) and the nested
			// ROUND returns the BIGINT maximum
			if r, ok := num(v); err == nil && bigUnsigned && !as.columns && ok && r.Cmp(maxInt64Rat) == 0 {
				return kfRoundUnsigned
			}
			return ""
		}
		add("ROUND(x) = ROUND(x,0)", f("ROUND(%s)", X), []string{"x"}, wantRat(refRound(x, 0)))
		add("TRUNCATE(x,d) truncates toward zero", f("TRUNCATE(%s,%s)", X, D), []string{"x", "d"}, func(v any) string {
			r, ok := num(v)
			want := refTruncate(x, d)
			if !ok {
				return ratStr(want)
			}
			if ratAbs(r).Cmp(ratAbs(x)) > 0 || ratAbs(new(big.Rat).Sub(r, x)).Cmp(unit) >= 0 {
				return "|TRUNCATE(x,d)| <= |x| and within one unit 10^-d of x, i.e. " + ratStr(want)
			}
			if r.Cmp(want) != 0 {
				return ratStr(want)
			}
			return ""
		})
		knownSat := func(want *big.Int) func(any, error) string {
			return func(v any, err error) string {
				// signature: the exact result lies outside the BIGINT range and the value is the
				// nearest BIGINT bound
				w := new(big.Rat).SetInt(want)
				if err != nil || inInt64(w) {
					return ""
				}
				r, ok := num(v)
				if !ok {
					return ""
				}
				// DOUBLE results near 2^63 are reported as ±9.223372036854775807e18 as well
				if (w.Sign() > 0 && r.Cmp(maxInt64Rat) == 0) || (w.Sign() < 0 && r.Cmp(minInt64Rat) == 0) {
					return kfCeilFloorSat
				}
				return ""
			}
		}
		floorCheck := func(x *big.Rat, want *big.Int) func(any) string {
			return func(v any) string {
				r, ok := num(v)
				if ok && r.IsInt() && r.Num().Cmp(want) == 0 {
					return ""
				}
				return want.String() + " (FLOOR(x) <= x < FLOOR(x)+1)"
			}
		}
		ceilCheck := func(x *big.Rat, want *big.Int) func(any) string {
			return func(v any) string {
				r, ok := num(v)
				if ok && r.IsInt() && r.Num().Cmp(want) == 0 {
					return ""
				}
				return want.String() + " (CEIL(x)-1 < x <= CEIL(x))"
			}
		}
		XF := X
		if as.columns && kf.Listed(kfCeilAlias) { // no signature predicate: always excluded by construction while listed
			// region of the listed finding: FLOOR/CEIL applied to a DECIMAL column value. They get
			// the literal instead, so that the other identities still see the stored value.
			st.Excluded(kfCeilAlias)
			XF = as.args[0].lit
			if as.args[0].null {
				XF = "NULL"
			}
		}
		// signature of symptom (2): |x| < 0.1, the exact result is ±1 and 0 came back
		knownSmall := func(arg *big.Rat, want *big.Int) func(any, error) string {
			return func(v any, err error) string {
				if r, ok := num(v); err == nil && ok && r.Sign() == 0 && want.Sign() != 0 && ratAbs(arg).Cmp(big.NewRat(1, 10)) < 0 {
					return kfCeilAlias
				}
				return ""
			}
		}
		either := func(a, b func(any, error) string) func(any, error) string {
			return func(v any, err error) string {
				if id := a(v, err); id != "" {
					return id
				}
				return b(v, err)
			}
		}
		add("FLOOR(x) <= x < FLOOR(x)+1", f("FLOOR(%s)", XF), []string{"x"}, floorCheck(x, floorRat(x))).known = either(knownSat(floorRat(x)), knownSmall(x, floorRat(x)))
		add("CEIL(x)-1 < x <= CEIL(x)", f("CEIL(%s)", XF), []string{"x"}, ceilCheck(x, ceilRat(x))).known = either(knownSat(ceilRat(x)), knownSmall(x, ceilRat(x)))
		// CEILING(x) = -FLOOR(-x): the negations are done by the harness (the negated literal is
		// written out, the result is compared with -CEIL(x)) so that the identity does not depend
		// on the unary minus operator, which is C25's subject
		negX := "-(" + XF + ")"
		if XF != X || !as.columns {
			negX = strings.TrimPrefix("-"+xl, "--")
			if as.args[0].null {
				negX = "NULL"
			}
		}
		negCeil := new(big.Int).Neg(ceilRat(x))
		add("FLOOR(-x) = -CEILING(x)", f("FLOOR(%s)", negX), []string{"x"}, floorCheck(new(big.Rat).Neg(x), negCeil)).known = either(knownSat(negCeil), knownSmall(x, negCeil))
		add("ABS(x)", f("ABS(%s)", X), []string{"x"}, wantRat(ratAbs(x)))
		knownSign := func(arg *big.Rat) func(any, error) string {
			return func(v any, err error) string {
				// signature: 0 < |argument| < 0.5 and the value is 0
				if r, ok := num(v); err == nil && smallFrac(arg) && ok && r.Sign() == 0 {
					return kfSignRounds
				}
				return ""
			}
		}
		add("SIGN(x)", f("SIGN(%s)", X), []string{"x"}, wantInt(int64(x.Sign()))).known = knownSign(x)
		if !bigUnsigned {
			// (for a BIGINT UNSIGNED literal >= 2^63 the product of a signed and an unsigned integer is
			// the arithmetic operator's business, C25)
			add("SIGN(x)*ABS(x) = x", f("SIGN(%s)*ABS(%s)", X, X), []string{"x"}, wantRat(x)).known = knownSign(x)
		}
		// ---- integers ------------------------------------------------------------------------
		ir := new(big.Rat).SetInt64(iv)
		if rr := refRound(ir, d); inInt64(rr) {
			add("ROUND(i,d) on an integer", f("ROUND(%s,%s)", I, D), []string{"i", "d"}, wantRat(rr))
		}
		add("TRUNCATE(i,d) on an integer", f("TRUNCATE(%s,%s)", I, D), []string{"i", "d"}, wantRat(refTruncate(ir, d)))
		add("FLOOR(i) = i", f("FLOOR(%s)", I), []string{"i"}, wantRat(ir))
		add("CEIL(i) = i", f("CEIL(%s)", I), []string{"i"}, wantRat(ir))
		add("SIGN(i)", f("SIGN(%s)", I), []string{"i"}, wantInt(int64(ir.Sign())))
		it := add("ABS(i)", f("ABS(%s)", I), []string{"i"}, func(v any) string {
			if iv == math.MinInt64 {
				return "an out-of-range error (|i| is not a BIGINT)"
			}
			return wantRat(ratAbs(ir))(v)
		})
		it.errOK = iv == math.MinInt64
		it.known = func(v any, err error) string {
			// signature: i is the minimum of a signed integer width and comes back unchanged
			if r, ok := num(v); err == nil && ok && r.Cmp(ir) == 0 {
				switch {
				case isMinSigned:
					return kfAbsMinInt
				case iv == math.MinInt64:
					return kfAbsMinBigint
				}
			}
			return ""
		}
		// ---- doubles: inequalities on the exact value of the double ----------------------------
		ff, fc := floorRat(fx64), ceilRat(fx64)
		add("FLOOR(f) <= f < FLOOR(f)+1", f("FLOOR(%s)", F), []string{"f"}, floorCheck(fx64, ff)).known = knownSat(ff)
		add("CEIL(f)-1 < f <= CEIL(f)", f("CEIL(%s)", F), []string{"f"}, ceilCheck(fx64, fc)).known = knownSat(fc)
		add("ABS(f)", f("ABS(%s)", F), []string{"f"}, wantRat(ratAbs(fx64)))
		add("SIGN(f)", f("SIGN(%s)", F), []string{"f"}, wantInt(int64(fx64.Sign()))).known = knownSign(fx64)
		// approximate-value ROUND/TRUNCATE: only the statement's bound, with one ulp of slack
		ulp := new(big.Rat).SetFloat64(math.Max(math.Abs(fv), 1) * 0x1p-51)
		if d >= -4 && d <= 9 {
			add("|ROUND(f,d) - f| <= 0.5*10^-d", f("ROUND(%s,%s)", F, D), []string{"f", "d"}, func(v any) string {
				r, ok := num(v)
				if ok && ratAbs(new(big.Rat).Sub(r, fx64)).Cmp(new(big.Rat).Add(half, ulp)) <= 0 {
					return ""
				}
				return "within " + ratStr(half) + " of " + ratStr(fx64)
			})
			add("|TRUNCATE(f,d)| <= |f|, within one unit", f("TRUNCATE(%s,%s)", F, D), []string{"f", "d"}, func(v any) string {
				r, ok := num(v)
				if ok && ratAbs(r).Cmp(new(big.Rat).Add(ratAbs(fx64), ulp)) <= 0 && ratAbs(new(big.Rat).Sub(r, fx64)).Cmp(new(big.Rat).Add(unit, ulp)) <= 0 {
					return ""
				}
				return "|result| <= |f| and within " + ratStr(unit) + " of " + ratStr(fx64)
			})
		}
		// ---- MOD -------------------------------------------------------------------------------
		if b.Sign() != 0 {
			knownMod := func(v any, err error) string {
				if err != nil && inModRegion && strings.Contains(err.Error(), "division impossible") {
					return kfModImpossible
				}
				return ""
			}
			add("MOD(a,b) = a - b*trunc(a/b)", f("MOD(%s,%s)", A, B), []string{"a", "b"}, wantRat(refMod(a, b))).known = knownMod
			add("a % b = MOD(a,b)", f("%s %% %s", A, B), []string{"a", "b"}, wantRat(refMod(a, b))).known = knownMod
		} else {
			add("MOD(a,0) = NULL", f("MOD(%s,%s)", A, B), []string{"a", "b"}, func(v any) string {
				if v == nil {
					return ""
				}
				return "NULL"
			})
		}
		if iv != 0 && iv != math.MinInt64 {
			j := int64(rapid.IntRange(-50, 50).Draw(rt, "j"))
			add("MOD(j,i) on integers", f("MOD(%d,%s)", j, I), []string{"i"}, wantRat(refMod(new(big.Rat).SetInt64(j), ir)))
		}

		// evaluating the functions must not change their arguments
		add("x is unchanged after the functions were evaluated", X, []string{"x"}, wantRat(x))
		add("a is unchanged after the functions were evaluated", A, []string{"a"}, wantRat(a))
		add("f is unchanged after the functions were evaluated", F, []string{"f"}, wantRat(fx64))

		fxt := fx.New(fx.Opts{})
		defer fxt.Close()
		sess := fxt.NewSession("", "", "")
		as.setup(rt, sess)
		runItems(rt, st, sess, as, items)
		if as.columns {
			// … nor the stored row
			r := sess.Exec("SELECT c_x, c_a FROM t")
			if !r.OK() || len(r.Rows) != 1 {
				rt.Fatalf("re-reading the table failed: %s", r)
			}
			for j, want := range []*big.Rat{x, a} {
				if as.args[[]int{0, 4}[j]].null {
					continue
				}
				if got, ok := num(r.Rows[0][j]); !ok || got.Cmp(want) != 0 {
					rt.Fatalf("stored DECIMAL value changed by evaluating functions in a SELECT: column %s holds %s, inserted %s\n  arguments: %s",
						[]string{"c_x", "c_a"}[j], show(r.Rows[0][j]), ratStr(want), as.describe())
				}
			}
		}

		switch {
		case d < 0:
			st.Class("d:negative")
		case d == 0:
			st.Class("d:zero")
		case d > fracDigits(xl):
			st.Class("d:beyond-scale")
		default:
			st.Class("d:inside-scale")
		}
		tie := new(big.Rat).Sub(ratAbs(new(big.Rat).Sub(refRound(x, d), x)), half).Sign() == 0
		if tie {
			st.Class("x:exact-tie")
		}
		if x.Sign() < 0 {
			st.Class("x:negative")
		}
		if !inInt64(x) {
			st.Class("x:beyond-bigint")
		}
		if as.columns {
			st.Class("rendering:column")
		} else {
			st.Class("rendering:literal")
		}
		hasNull := false
		for _, a := range as.args {
			hasNull = hasNull || a.null
		}
		if hasNull {
			st.Class("with-NULL-argument")
		}
		if tie || d < 0 || d > fracDigits(xl) || !inInt64(x) || x.Sign() < 0 || hasNull {
			st.NonTrivial(map[string]any{"args": as.describe()}, "num", xl, d, iv, fl, al, bl, hasNull)
		}
	})
}
