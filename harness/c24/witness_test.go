package c24

import (
	"testing"

	"github.com/dolthub/go-mysql-server/vh/internal/fx"
	"github.com/dolthub/go-mysql-server/vh/internal/stats"
)

// TestReplayC24 runs the SQL witness scripts of /verif/replays/C24: one per finding, each
// stating the outcome the property requires. A deviating script whose finding is listed as
// known counts as a known hit, any other deviation is a violation.
func TestReplayC24(t *testing.T) {
	st := stats.New("C24", "replay")
	defer st.Flush()
	fx.ReplayDir(t, st)
}
