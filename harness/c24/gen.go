package c24

import (
	"fmt"

	"github.com/dolthub/go-mysql-server/vh/internal/kf"
	"github.com/dolthub/go-mysql-server/vh/internal/stats"
	"pgregory.net/rapid"
)

// Finding ids (see notes/C24.md). A construct that lies in the region of a finding is
// generated only while the finding is NOT listed in known_findings.json; once listed, the
// generator avoids it by construction (counted in excluded_known) and TestC24 re-confirms
// the witness separately.
const (
	fLeaveBlock      = "C24-leave-block-scope"     // a forward jump does not pop/push the scope operation right before its target: LEAVE of a labelled BEGIN block, ELSE branch ending with a block
	fDefaultExpr     = "C24-declare-default-expr"  // DECLARE ... DEFAULT <anything but a number literal> fails at CALL
	fDeclNoDefault   = "C24-declare-no-default"    // DECLARE v INT starts as 0, not NULL
	fIterateRepeat   = "C24-iterate-repeat"        // ITERATE inside REPEAT evaluates UNTIL instead of restarting the body
	fIntoNoData      = "C24-select-into-nodata"    // SELECT ... INTO with no row restarts the procedure / counts as SQLEXCEPTION
	fIntoReexec      = "C24-select-into-reexec"    // SELECT ... INTO executed a second time in one CALL has lost its INTO
	fOutInit         = "C24-out-param-init"        // OUT parameter readable with the caller's value instead of NULL
	fHandlerRows     = "C24-handler-rows-restart"  // handler body that yields rows (INSERT, SELECT, CALL) restarts the procedure
	fHandlerCompound = "C24-handler-compound-body" // only the first operation of a compound handler body runs
	fHandlerSelect   = "C24-handler-selection"     // outermost instead of innermost handler is chosen; end of cursor data only looks at the first handler on the scope stack
	fLabelReuse      = "C24-label-reuse"           // ITERATE/LEAVE resolve to an earlier statement that used the same label
	fUnaryMinus      = "C24-unary-minus-var"       // -v : variable under a unary operator is not substituted
	fExitScope       = "C24-exit-handler-scope"    // EXIT handler leaves the scopes of the exited block on the stack
	fHandlerScope    = "C24-handler-inner-scope"   // handler body runs in the scope of the raising statement
	fNestedCall      = "C24-nested-call-args"      // nested CALL: arguments travel through a session-wide map keyed by bare name
	fRepeatNull      = "C24-repeat-until-null"     // REPEAT ends when UNTIL evaluates to NULL
	fFetchParam      = "C24-fetch-into-param"      // FETCH ... INTO <parameter> fails: variable could not be found
)

var allFindings = []string{fLeaveBlock, fDefaultExpr, fDeclNoDefault, fIterateRepeat, fIntoNoData, fIntoReexec,
	fOutInit, fHandlerRows, fHandlerCompound, fHandlerSelect, fLabelReuse, fUnaryMinus, fExitScope, fHandlerScope,
	fNestedCall, fFetchParam, fRepeatNull}

type gen struct {
	rt *rapid.T
	st *stats.Collector

	nCounter int
	nLabel   int
	nTag     int
	counters []string
	labels   []string // every label handed out so far
	maxDepth int
	nCallQ   int
	nCursor  int
	params   map[string]bool // parameter names
}

// want decides whether a construct in the region of finding id is generated: drawn with the
// given percentage, and vetoed (and counted) when the finding is listed as known.
func (g *gen) want(id string, pct int, name string) bool {
	if rapid.IntRange(0, 99).Draw(g.rt, name) >= pct {
		return false
	}
	if kf.Listed(id) {
		g.st.Excluded(id)
		return false
	}
	return true
}

func (g *gen) chance(pct int, name string) bool {
	return rapid.IntRange(0, 99).Draw(g.rt, name) < pct
}

// scope is the static context of a statement being generated.
type scope struct {
	vars       []string // visible assignable INT variables (locals and parameters), no duplicates
	loops      []string // labels of the enclosing labelled loops, innermost last
	repeatLbls map[string]bool
	blocks     []string // labels of the enclosing labelled blocks
	depth      int
	inLoop     bool
	inHandler  bool
	excInScope bool            // an enclosing block declares an SQLEXCEPTION handler
	nfInScope  bool            // an enclosing block declares a NOT FOUND handler
	shadowing  bool            // some enclosing block re-declares a name of an outer scope
	shadowed   map[string]bool // names currently declared in more than one enclosing scope
	handlerUse map[string]bool // names mentioned by the handler bodies of the enclosing blocks
	localOver  map[string]bool // parameter names currently hidden by a local variable
	blockDepth int             // number of enclosing blocks below the procedure body
}

func (s scope) with(f func(*scope)) scope {
	c := s
	c.vars = append([]string(nil), s.vars...)
	c.loops = append([]string(nil), s.loops...)
	c.blocks = append([]string(nil), s.blocks...)
	f(&c)
	return c
}

func addVar(vars []string, n string) []string {
	for _, v := range vars {
		if v == n {
			return vars
		}
	}
	return append(vars, n)
}

// ---- expressions ------------------------------------------------------------------------

func (g *gen) lit() expr {
	if g.chance(6, "litnull") {
		return eLit{nullV()}
	}
	return eLit{intV(int64(rapid.IntRange(-3, 6).Draw(g.rt, "lit")))}
}

func (g *gen) intExpr(sc scope, depth int) expr {
	k := rapid.IntRange(0, 9).Draw(g.rt, "ie")
	switch {
	case k <= 2 || len(sc.vars) == 0 && k <= 5:
		return g.lit()
	case k <= 5:
		return eVar{rapid.SampledFrom(sc.vars).Draw(g.rt, "var")}
	case k == 6 && len(sc.vars) > 0:
		if g.want(fUnaryMinus, 50, "neg") {
			return eNeg{eVar{rapid.SampledFrom(sc.vars).Draw(g.rt, "var")}}
		}
		return eBin{"-", eLit{intV(0)}, eVar{rapid.SampledFrom(sc.vars).Draw(g.rt, "var")}}
	}
	if depth <= 0 {
		return g.lit()
	}
	op := rapid.SampledFrom([]string{"+", "+", "-", "-", "*"}).Draw(g.rt, "op")
	l := g.intExpr(sc, depth-1)
	var r expr
	if op == "*" {
		r = eLit{intV(int64(rapid.IntRange(-2, 3).Draw(g.rt, "mul")))}
	} else {
		r = g.intExpr(sc, depth-1)
	}
	return eBin{op, l, r}
}

func (g *gen) cond(sc scope, depth int) expr {
	k := rapid.IntRange(0, 11).Draw(g.rt, "ce")
	switch {
	case k <= 6 || depth <= 0:
		op := rapid.SampledFrom([]string{"=", "<>", "<", "<=", ">", ">="}).Draw(g.rt, "cmp")
		return eCmp{op, g.intExpr(sc, 1), g.intExpr(sc, 1)}
	case k == 7:
		return eIsNull{g.intExpr(sc, 1), g.chance(50, "neg")}
	case k == 8:
		return eNot{g.cond(sc, depth-1)}
	case k == 9:
		return eBool{g.chance(60, "b")}
	}
	op := rapid.SampledFrom([]string{"AND", "OR"}).Draw(g.rt, "lop")
	return eLogic{op, g.cond(sc, depth-1), g.cond(sc, depth-1)}
}

// ---- statements -------------------------------------------------------------------------

func (g *gen) newLabel(sc scope, pct int) string {
	// sequential re-use of a label that is not currently enclosing is legal MySQL
	if len(g.labels) > 0 && g.want(fLabelReuse, pct, "reuse") {
		cand := rapid.SampledFrom(g.labels).Draw(g.rt, "oldlabel")
		enclosing := false
		for _, l := range append(append([]string(nil), sc.loops...), sc.blocks...) {
			if l == cand {
				enclosing = true
			}
		}
		if !enclosing {
			return cand
		}
	}
	l := fmt.Sprintf("l%d", g.nLabel)
	g.nLabel++
	g.labels = append(g.labels, l)
	return l
}

func (g *gen) target(sc scope) string {
	return rapid.SampledFrom(sc.vars).Draw(g.rt, "target")
}

func (g *gen) simple(sc scope) stmt {
	k := rapid.IntRange(0, 9).Draw(g.rt, "simple")
	switch {
	case k <= 4 && len(sc.vars) > 0:
		return sSet{g.target(sc), g.intExpr(sc, 2)}
	case k <= 7 || len(sc.vars) == 0 || sc.inHandler:
		g.nTag++
		return sLog{g.nTag, g.intExpr(sc, 2)}
	default:
		return sSelect{g.exprs(sc)}
	}
}

func (g *gen) exprs(sc scope) []expr {
	n := rapid.IntRange(1, 2).Draw(g.rt, "ncols")
	es := make([]expr, n)
	for i := range es {
		es[i] = g.intExpr(sc, 2)
	}
	return es
}

// jump produces a LEAVE / ITERATE, usually guarded by an IF.
func (g *gen) jump(sc scope) (stmt, bool) {
	var cands []stmt
	for _, l := range sc.loops {
		cands = append(cands, sLeave{l})
		if sc.repeatLbls[l] {
			continue // decided below
		}
		cands = append(cands, sIterate{l})
	}
	for _, l := range sc.loops {
		if sc.repeatLbls[l] && g.want(fIterateRepeat, 100, "itrep") {
			cands = append(cands, sIterate{l})
		}
	}
	for _, l := range sc.blocks {
		if g.want(fLeaveBlock, 100, "leaveblk") {
			cands = append(cands, sLeave{l})
		}
	}
	if len(cands) == 0 {
		return nil, false
	}
	j := cands[rapid.IntRange(0, len(cands)-1).Draw(g.rt, "jump")]
	if len(sc.loops) >= 2 && g.chance(60, "outerjump") {
		// aim at an outer loop
		l := sc.loops[rapid.IntRange(0, len(sc.loops)-2).Draw(g.rt, "outerlabel")]
		if g.chance(50, "outerleave") || sc.repeatLbls[l] {
			j = sLeave{l}
		} else {
			j = sIterate{l}
		}
	}
	if g.chance(80, "guarded") {
		return sIf{conds: []expr{g.cond(sc, 1)}, thens: [][]stmt{{j}}}, true
	}
	return j, true
}

func (g *gen) list(sc scope, min, max int) []stmt {
	n := rapid.IntRange(min, max).Draw(g.rt, "nstmts")
	var out []stmt
	for i := 0; i < n; i++ {
		out = append(out, g.stmts(sc)...)
	}
	return out
}

func (g *gen) counter() string {
	c := fmt.Sprintf("c%d", g.nCounter)
	g.nCounter++
	g.counters = append(g.counters, c)
	return c
}

// stmts generates one statement (loops come with their counter reset, so possibly two).
func (g *gen) stmts(sc scope) []stmt {
	compound := sc.depth < g.maxDepth
	k := rapid.IntRange(0, 99).Draw(g.rt, "stmt")
	if len(sc.loops) > 0 && g.chance(30, "morejumps") {
		k = 30
	} else if sc.inLoop && compound && g.chance(25, "nestloop") {
		k = 70
	}
	switch {
	case k < 22:
		return []stmt{g.simple(sc)}
	case k < 30 && len(sc.vars) > 0:
		return g.into(sc)
	case k < 38:
		if j, ok := g.jump(sc); ok {
			return []stmt{j}
		}
		return []stmt{g.simple(sc)}
	case k < 43:
		// SIGNAL, mostly guarded; more likely where a handler can catch it
		if !sc.excInScope && g.chance(60, "nosignal") {
			return []stmt{g.simple(sc)}
		}
		if sc.inHandler {
			// a condition raised while a handler body runs is outside the grammar (see notes/C24.md)
			return []stmt{g.simple(sc)}
		}
		if g.chance(75, "guarded") {
			return []stmt{sIf{conds: []expr{g.cond(sc, 1)}, thens: [][]stmt{{sSignal{}}}}}
		}
		return []stmt{sSignal{}}
	case k < 47 && len(sc.vars) >= 2 && !sc.inHandler:
		return g.callQ(sc)
	}
	if !compound {
		return []stmt{g.simple(sc)}
	}
	in := sc.with(func(c *scope) { c.depth++ })
	switch {
	case k < 58:
		n := rapid.IntRange(1, 3).Draw(g.rt, "nif")
		s := sIf{}
		for i := 0; i < n; i++ {
			s.conds = append(s.conds, g.cond(sc, 2))
			s.thens = append(s.thens, g.list(in, 1, 2))
		}
		if g.chance(50, "else") {
			s.hasElse = true
			s.els = g.elseList(in)
		}
		return []stmt{s}
	case k < 66:
		s := sCase{}
		if g.chance(50, "simplecase") {
			s.subject = g.intExpr(sc, 1)
		}
		n := rapid.IntRange(1, 3).Draw(g.rt, "nwhen")
		for i := 0; i < n; i++ {
			if s.subject != nil {
				s.whens = append(s.whens, g.intExpr(sc, 1))
			} else {
				s.whens = append(s.whens, g.cond(sc, 1))
			}
			s.thens = append(s.thens, g.list(in, 1, 2))
		}
		if g.chance(65, "else") || sc.inHandler {
			// inside a handler body a CASE always has an ELSE: "case not found" would be a condition
			// raised while a handler runs, which is outside the grammar
			s.hasElse = true
			s.els = g.elseList(in)
		}
		return []stmt{s}
	case k < 90:
		return g.loop(sc)
	case k < 95 && len(sc.vars) > 0 && !sc.inHandler:
		return []stmt{g.cursorBlock(sc)}
	default:
		return []stmt{g.block(sc, false)}
	}
}

// endsWithScopeEnd: the last operation the statement list compiles to is the end of a BEGIN ... END
// block (directly, or through the ELSE branch of a trailing IF / CASE).
func endsWithScopeEnd(ss []stmt) bool {
	if len(ss) == 0 {
		return false
	}
	switch x := ss[len(ss)-1].(type) {
	case *sBlock:
		return true
	case sIf:
		return x.hasElse && endsWithScopeEnd(x.els)
	case sCase:
		return x.hasElse && endsWithScopeEnd(x.els)
	}
	return false
}

// elseList generates the ELSE branch of an IF / CASE. An ELSE branch that ends with a block is in the
// region of fLeaveBlock (the jump from the end of an earlier branch over it leaves the block's scope on
// the stack); while that finding is listed a simple statement is appended.
func (g *gen) elseList(in scope) []stmt {
	els := g.list(in, 1, 2)
	if endsWithScopeEnd(els) && kf.Listed(fLeaveBlock) {
		g.st.Excluded(fLeaveBlock)
		els = append(els, g.simple(in))
	}
	return els
}

// cursorBlock generates the canonical cursor loop: a block with a cursor over src, a NOT FOUND
// handler of its own (so that the end of data is always handled by the innermost block, the
// only case for which MySQL's manual fixes the behaviour), OPEN, a LOOP of FETCH + body, CLOSE.
func (g *gen) cursorBlock(sc scope) stmt {
	b := &sBlock{}
	id := g.nCursor
	g.nCursor++
	cur := fmt.Sprintf("cur%d", id)
	done := fmt.Sprintf("d%d", id)
	label := g.newLabel(sc, 0)
	b.decls = append(b.decls, decl{names: []string{done}, hasDef: true, def: eLit{intV(0)}})
	b.cursors = append(b.cursors, cursorDecl{cur, g.intExpr(sc, 1)})
	exitVariant := g.chance(30, "exitnf")
	if exitVariant && !g.want(fExitScope, 100, "exitnf2") {
		exitVariant = false
	}
	target := g.target(sc)
	if g.params[target] && !sc.shadowed[target] && !sc.localOver[target] {
		// the FETCH target is a parameter
		if kf.Listed(fFetchParam) {
			g.st.Excluded(fFetchParam)
			var locals []string
			for _, v := range sc.vars {
				if !g.params[v] || sc.localOver[v] {
					locals = append(locals, v)
				}
			}
			if len(locals) == 0 {
				return g.simple(sc)
			}
			target = rapid.SampledFrom(locals).Draw(g.rt, "fetchlocal")
		}
	}
	in := sc.with(func(s *scope) {
		s.depth++
		s.blockDepth++
	})
	// optionally an SQLEXCEPTION handler in the same block, before or after the NOT FOUND one
	nf := handler{cond: condNotFound, exit: exitVariant, body: sSet{done, eLit{intV(1)}}}
	b.handlers = []handler{nf}
	if g.chance(30, "excincursorblock") && !(sc.excInScope && kf.Listed(fHandlerSelect)) {
		hsc := in
		hsc.inHandler = true
		hsc.loops, hsc.blocks, hsc.repeatLbls = nil, nil, nil
		eh := handler{cond: condExc, body: sSet{target, g.intExpr(hsc, 1)}}
		if g.want(fHandlerSelect, 50, "excfirst") {
			b.handlers = []handler{eh, nf}
		} else {
			b.handlers = []handler{nf, eh}
		}
		in.excInScope = true
	}
	hu := map[string]bool{}
	for k := range in.handlerUse {
		hu[k] = true
	}
	for _, h := range b.handlers {
		varsOfStmt(h.body, hu)
	}
	in.handlerUse = hu
	loopSc := in.with(func(s *scope) {
		s.depth++
		s.inLoop = true
		s.loops = append(s.loops, label)
	})
	c := g.counter()
	body := []stmt{
		sSet{c, eBin{"+", eVar{c}, eLit{intV(1)}}},
		sIf{conds: []expr{eCmp{">", eVar{c}, eLit{intV(6)}}}, thens: [][]stmt{{sLeave{label}}}},
		sFetch{cur, target},
	}
	if !exitVariant {
		body = append(body, sIf{conds: []expr{eCmp{"=", eVar{done}, eLit{intV(1)}}}, thens: [][]stmt{{sLeave{label}}}})
	}
	body = append(body, g.list(loopSc, 1, 2)...)
	b.body = []stmt{sSet{c, eLit{intV(0)}}, sOpen{cur}, sLoop{label, body}, sClose{cur}}
	return b
}

func (g *gen) into(sc scope) []stmt {
	if sc.inLoop && !g.want(fIntoReexec, 100, "intoInLoop") {
		return []stmt{g.simple(sc)}
	}
	if sc.inHandler && !g.want(fHandlerRows, 100, "intoInHandler") {
		return []stmt{g.simple(sc)}
	}
	k := rapid.IntRange(0, 9).Draw(g.rt, "into")
	switch {
	case k < 4:
		return []stmt{sInto{g.target(sc), g.intExpr(sc, 2)}}
	case k < 8:
		// key may be missing in src (NOT FOUND) unless that region is excluded; never inside a handler
		// body (a condition raised while a handler runs is outside the grammar)
		if !sc.inHandler && g.want(fIntoNoData, 100, "intoSrc") {
			return []stmt{sIntoSrc{g.target(sc), g.intExpr(sc, 1)}}
		}
		// key 0 is always present
		return []stmt{sIntoSrc{g.target(sc), eLit{intV(0)}}}
	default:
		return []stmt{sIntoCount{g.target(sc)}}
	}
}

func (g *gen) callQ(sc scope) []stmt {
	o := g.target(sc)
	var io string
	for tries := 0; ; tries++ {
		io = g.target(sc)
		if io != o {
			break
		}
		if tries > 8 {
			return []stmt{g.simple(sc)}
		}
	}
	in := g.intExpr(sc, 1)
	// Region of fNestedCall: everything but the first execution, in a session, of a nested CALL
	// whose variable arguments are unshadowed names and whose IN argument is a literal.
	first := g.nCallQ == 0 && !sc.inLoop && !sc.shadowed[o] && !sc.shadowed[io]
	if _, isLit := in.(eLit); !isLit {
		first = false
	}
	if !first && kf.Listed(fNestedCall) {
		g.st.Excluded(fNestedCall)
		return []stmt{g.simple(sc)}
	}
	g.nCallQ++
	return []stmt{sCallQ{in, o, io}}
}

const maxLoop = 4

func (g *gen) loop(sc scope) []stmt {
	c := g.counter()
	bound := int64(rapid.IntRange(1, maxLoop).Draw(g.rt, "bound"))
	kind := rapid.IntRange(0, 2).Draw(g.rt, "loopkind")
	label := ""
	if kind == 2 || g.chance(70, "labelled") {
		label = g.newLabel(sc, 25)
	}
	in := sc.with(func(s *scope) {
		s.depth++
		s.inLoop = true
		if label != "" {
			s.loops = append(s.loops, label)
			rl := map[string]bool{}
			for k, v := range sc.repeatLbls {
				rl[k] = v
			}
			if kind == 1 {
				rl[label] = true
			}
			s.repeatLbls = rl
		}
	})
	inc := sSet{c, eBin{"+", eVar{c}, eLit{intV(1)}}}
	reset := sSet{c, eLit{intV(0)}}
	body := g.list(in, 1, 3)
	if len(sc.loops) > 0 && g.chance(50, "jumpout") {
		// a jump from this (inner) loop to an enclosing loop's label, somewhere in the body
		l := sc.loops[rapid.IntRange(0, len(sc.loops)-1).Draw(g.rt, "outerlabel")]
		var j stmt = sLeave{l}
		if !sc.repeatLbls[l] && g.chance(50, "outeriterate") {
			j = sIterate{l}
		}
		j = sIf{conds: []expr{g.cond(in, 1)}, thens: [][]stmt{{j}}}
		pos := rapid.IntRange(0, len(body)).Draw(g.rt, "jumppos")
		body = append(body[:pos:pos], append([]stmt{j}, body[pos:]...)...)
	} else if label != "" && in.depth < g.maxDepth && g.chance(25, "innerloop") {
		// make sure nested loops are common
		body = append(body, g.loop(in)...)
	}
	switch kind {
	case 0:
		cnd := expr(eCmp{"<", eVar{c}, eLit{intV(bound)}})
		if g.chance(50, "extracond") {
			cnd = eLogic{"AND", cnd, g.cond(sc, 1)}
		}
		return []stmt{reset, sWhile{label, cnd, append([]stmt{inc}, body...)}}
	case 1:
		until := expr(eCmp{">=", eVar{c}, eLit{intV(bound)}})
		if g.chance(50, "extracond") {
			extra := g.cond(sc, 1)
			if !g.want(fRepeatNull, 100, "untilnull") {
				extra = eIsTrue{extra} // never NULL
			}
			until = eLogic{"OR", until, extra}
		}
		pre := []stmt{inc}
		if label != "" {
			// with ITERATE restarting the body, the bound has to be enforced at the top too
			pre = append(pre, sIf{conds: []expr{eCmp{">", eVar{c}, eLit{intV(bound)}}}, thens: [][]stmt{{sLeave{label}}}})
		}
		return []stmt{reset, sRepeat{label, append(pre, body...), until}}
	default:
		pre := []stmt{inc, sIf{conds: []expr{eCmp{">", eVar{c}, eLit{intV(bound)}}}, thens: [][]stmt{{sLeave{label}}}}}
		return []stmt{reset, sLoop{label, append(pre, body...)}}
	}
}

var localNames = []string{"v0", "v1", "v2", "v3"}

func (g *gen) block(sc scope, top bool) *sBlock {
	b := &sBlock{}
	if !top && g.chance(50, "blocklabel") {
		b.label = g.newLabel(sc, 15)
	}
	in := sc.with(func(s *scope) {
		if !top {
			s.depth++
			s.blockDepth++
		}
		if b.label != "" {
			s.blocks = append(s.blocks, b.label)
		}
	})
	// declarations
	nd := rapid.IntRange(0, 2).Draw(g.rt, "ndecl")
	if top {
		nd = rapid.IntRange(1, 3).Draw(g.rt, "ndecl")
	}
	declared := map[string]bool{}
	for i := 0; i < nd; i++ {
		var d decl
		n := rapid.SampledFrom(localNames).Draw(g.rt, "dname")
		if declared[n] || g.hiddenFromHandler(sc, n) {
			continue
		}
		declared[n] = true
		d.names = []string{n}
		if g.chance(15, "twonames") {
			n2 := rapid.SampledFrom(localNames).Draw(g.rt, "dname2")
			if !declared[n2] && !g.hiddenFromHandler(sc, n2) {
				declared[n2] = true
				d.names = append(d.names, n2)
			}
		}
		for _, nm := range d.names {
			for _, v := range sc.vars {
				if v == nm {
					in.shadowing = true
					sh := map[string]bool{nm: true}
					for k := range in.shadowed {
						sh[k] = true
					}
					in.shadowed = sh
					if g.params[nm] {
						lo := map[string]bool{nm: true}
						for k := range in.localOver {
							lo[k] = true
						}
						in.localOver = lo
					}
				}
			}
		}
		switch {
		case g.want(fDeclNoDefault, 20, "nodefault"):
		case g.want(fDefaultExpr, 35, "defexpr"):
			// any expression over the variables visible so far (never the names being declared)
			d.hasDef = true
			var vis []string
			for _, v := range in.vars {
				own := false
				for _, nm := range d.names {
					if nm == v {
						own = true
					}
				}
				if !own {
					vis = append(vis, v)
				}
			}
			vs := in
			vs.vars = vis
			if g.chance(25, "defnull") {
				d.def = eLit{nullV()}
			} else {
				d.def = g.intExpr(vs, 1)
			}
		default:
			d.hasDef = true
			d.def = eLit{intV(int64(rapid.IntRange(-3, 6).Draw(g.rt, "deflit")))}
		}
		b.decls = append(b.decls, d)
		for _, nm := range d.names {
			in.vars = addVar(in.vars, nm)
		}
	}
	// handlers (at most one per condition class per block: MySQL rejects duplicates)
	hsc := in // handler bodies see the block's variables, but none of its labels' jumps are generated
	hsc.inHandler = true
	hsc.loops = nil
	hsc.blocks = nil
	hsc.repeatLbls = nil
	hsc.inLoop = sc.inLoop
	if g.chance(40, "exchandler") {
		if !(sc.excInScope && !g.want(fHandlerSelect, 100, "nestedhandler")) {
			b.handlers = append(b.handlers, g.handler(hsc, condExc, top))
			in.excInScope = true
		}
	}
	if g.chance(25, "nfhandler") {
		b.handlers = append(b.handlers, g.handler(hsc, condNotFound, top))
		in.nfInScope = true
	}
	if len(b.handlers) > 0 {
		hu := map[string]bool{}
		for k := range in.handlerUse {
			hu[k] = true
		}
		for _, h := range b.handlers {
			varsOfStmt(h.body, hu)
		}
		in.handlerUse = hu
	}
	mn := 1
	if top {
		mn = 2
	}
	b.body = g.list(in, mn, 4)
	return b
}

// hiddenFromHandler: declaring name n here would hide a variable that the body of an enclosing
// block's handler mentions (region of fHandlerScope: the engine runs a handler body in the
// scope of the raising statement instead of the scope of its own block).
func (g *gen) hiddenFromHandler(sc scope, n string) bool {
	if !sc.handlerUse[n] {
		return false
	}
	if kf.Listed(fHandlerScope) {
		g.st.Excluded(fHandlerScope)
		return true
	}
	return false
}

func varsOfExpr(e expr, out map[string]bool) {
	switch x := e.(type) {
	case eVar:
		out[x.name] = true
	case eBin:
		varsOfExpr(x.l, out)
		varsOfExpr(x.r, out)
	case eCmp:
		varsOfExpr(x.l, out)
		varsOfExpr(x.r, out)
	case eLogic:
		varsOfExpr(x.l, out)
		varsOfExpr(x.r, out)
	case eNeg:
		varsOfExpr(x.e, out)
	case eNot:
		varsOfExpr(x.e, out)
	case eIsNull:
		varsOfExpr(x.e, out)
	case eIsTrue:
		varsOfExpr(x.e, out)
	}
}

func varsOfList(ss []stmt, out map[string]bool) {
	for _, s := range ss {
		varsOfStmt(s, out)
	}
}

// varsOfStmt collects every variable name a statement mentions (reads or writes).
func varsOfStmt(s stmt, out map[string]bool) {
	switch x := s.(type) {
	case sSet:
		out[x.v] = true
		varsOfExpr(x.e, out)
	case sIf:
		for i := range x.conds {
			varsOfExpr(x.conds[i], out)
			varsOfList(x.thens[i], out)
		}
		varsOfList(x.els, out)
	case sCase:
		if x.subject != nil {
			varsOfExpr(x.subject, out)
		}
		for i := range x.whens {
			varsOfExpr(x.whens[i], out)
			varsOfList(x.thens[i], out)
		}
		varsOfList(x.els, out)
	case sWhile:
		varsOfExpr(x.cond, out)
		varsOfList(x.body, out)
	case sRepeat:
		varsOfExpr(x.until, out)
		varsOfList(x.body, out)
	case sLoop:
		varsOfList(x.body, out)
	case sSelect:
		for _, e := range x.es {
			varsOfExpr(e, out)
		}
	case sLog:
		varsOfExpr(x.e, out)
	case sInto:
		out[x.v] = true
		varsOfExpr(x.e, out)
	case sIntoSrc:
		out[x.v] = true
		varsOfExpr(x.key, out)
	case sIntoCount:
		out[x.v] = true
	case sCallQ:
		out[x.out] = true
		out[x.inout] = true
		varsOfExpr(x.in, out)
	case *sBlock:
		for _, d := range x.decls {
			if d.hasDef {
				varsOfExpr(d.def, out)
			}
		}
		for _, h := range x.handlers {
			varsOfStmt(h.body, out)
		}
		varsOfList(x.body, out)
	}
}

func (g *gen) handler(hsc scope, cond int, top bool) handler {
	h := handler{cond: cond}
	if g.chance(40, "exit") {
		if top || g.want(fExitScope, 100, "exitinner") {
			h.exit = true
		}
	}
	k := rapid.IntRange(0, 9).Draw(g.rt, "hbody")
	switch {
	case k < 4 && g.want(fHandlerCompound, 100, "hcompound"):
		bsc := hsc
		bsc.depth = g.maxDepth - 1 // a shallow block
		h.body = g.block(bsc, false)
	case k < 7 && g.want(fHandlerRows, 100, "hrows"):
		// (no SELECT result sets from handler bodies: which result sets of a CALL reach the client is
		// outside the property; the engine returns one by design)
		g.nTag++
		h.body = sLog{g.nTag, g.intExpr(hsc, 1)}
	default:
		if len(hsc.vars) == 0 {
			g.nTag++
			h.body = sLog{g.nTag, g.lit()}
		} else {
			h.body = sSet{g.target(hsc), g.intExpr(hsc, 2)}
		}
	}
	return h
}

// program generates a whole procedure with its parameters.
func (g *gen) program() *proc {
	p := &proc{}
	np := rapid.IntRange(0, 3).Draw(g.rt, "nparams")
	g.params = map[string]bool{}
	sc := scope{}
	for i := 0; i < np; i++ {
		mode := rapid.SampledFrom([]string{"IN", "OUT", "INOUT"}).Draw(g.rt, "mode")
		name := fmt.Sprintf("p%d", i)
		if g.chance(10, "paramshadow") {
			name = localNames[i] // a local of the same name may shadow it
		}
		p.params = append(p.params, param{name, mode})
		g.params[name] = true
		sc.vars = addVar(sc.vars, name)
	}
	g.maxDepth = rapid.SampledFrom([]int{1, 2, 2, 3, 3}).Draw(g.rt, "maxdepth")
	body := g.block(sc, true)
	// loop counters live in the outermost block and are never touched by generated code
	for _, c := range g.counters {
		body.decls = append(body.decls, decl{names: []string{c}, hasDef: true, def: eLit{intV(0)}})
	}
	p.body = body
	return p
}
