// Package c24 checks property C24: CALL of a stored procedure behaves like a direct
// interpretation of the procedure body (DECLARE/SET scoping, IF/CASE, WHILE/REPEAT/LOOP with
// LEAVE/ITERATE, parameter modes, condition handlers).
//
// lang.go: the abstract syntax of the generated procedure language, its rendering to SQL
// and the reference big-step interpreter (the oracle).
package c24

import (
	"fmt"
	"sort"
	"strconv"
	"strings"
)

// ---------------------------------------------------------------------------------------
// values and expressions (INT-valued, three-valued logic; no division, no functions)

type val struct {
	null bool
	n    int64
}

func nullV() val       { return val{null: true} }
func intV(n int64) val { return val{n: n} }
func (v val) String() string {
	if v.null {
		return "NULL"
	}
	return strconv.FormatInt(v.n, 10)
}

// norm renders a value in the canonical form of fx.Norm.
func (v val) norm() string {
	if v.null {
		return "N"
	}
	return "n:" + strconv.FormatInt(v.n, 10)
}

type expr interface{ sql() string }

type eLit struct{ v val }
type eVar struct{ name string }
type eBin struct { // + - *
	op   string
	l, r expr
}
type eNeg struct{ e expr } // unary minus
type eCmp struct {         // = <> < <= > >=
	op   string
	l, r expr
}
type eLogic struct { // AND OR
	op   string
	l, r expr
}
type eNot struct{ e expr }
type eIsNull struct {
	e   expr
	neg bool
}
type eBool struct{ b bool }
type eIsTrue struct{ e expr } // (e IS TRUE): never NULL

func (e eLit) sql() string {
	if e.v.null {
		return "NULL"
	}
	return strconv.FormatInt(e.v.n, 10)
}
func (e eVar) sql() string   { return e.name }
func (e eBin) sql() string   { return "(" + e.l.sql() + " " + e.op + " " + e.r.sql() + ")" }
func (e eNeg) sql() string   { return "(-" + e.e.sql() + ")" }
func (e eCmp) sql() string   { return "(" + e.l.sql() + " " + e.op + " " + e.r.sql() + ")" }
func (e eLogic) sql() string { return "(" + e.l.sql() + " " + e.op + " " + e.r.sql() + ")" }
func (e eNot) sql() string   { return "(NOT " + e.e.sql() + ")" }
func (e eIsNull) sql() string {
	if e.neg {
		return "(" + e.e.sql() + " IS NOT NULL)"
	}
	return "(" + e.e.sql() + " IS NULL)"
}
func (e eIsTrue) sql() string { return "(" + e.e.sql() + " IS TRUE)" }
func (e eBool) sql() string {
	if e.b {
		return "TRUE"
	}
	return "FALSE"
}

// limit is the magnitude beyond which a program is discarded (keeps every value far inside
// INT, so that no out-of-range question arises).
const limit = 1_000_000

func boolV(b bool) val {
	if b {
		return intV(1)
	}
	return intV(0)
}

// ---------------------------------------------------------------------------------------
// statements

type stmt interface{}

type sSet struct {
	v string
	e expr
}
type sIf struct {
	conds   []expr
	thens   [][]stmt
	els     []stmt
	hasElse bool
}
type sCase struct {
	subject expr // nil: searched CASE
	whens   []expr
	thens   [][]stmt
	els     []stmt
	hasElse bool
}
type sWhile struct {
	label string
	cond  expr
	body  []stmt
}
type sRepeat struct {
	label string
	body  []stmt
	until expr
}
type sLoop struct {
	label string
	body  []stmt
}
type sLeave struct{ label string }
type sIterate struct{ label string }
type sSelect struct{ es []expr }
type sLog struct {
	tag int
	e   expr
}
type sSignal struct{}
type sInto struct { // SELECT e INTO v
	v string
	e expr
}
type sIntoSrc struct { // SELECT w INTO v FROM src WHERE k = key
	v   string
	key expr
}
type sIntoCount struct{ v string } // SELECT COUNT(*) INTO v FROM log
type sCallQ struct {               // CALL q(in, out, inout): out := in + 1 ; inout := inout * 2 (see auxProc)
	in    expr
	out   string
	inout string
}

type sOpen struct{ cur string }
type sFetch struct {
	cur string
	v   string
}
type sClose struct{ cur string }

// cursorDecl: DECLARE cur CURSOR FOR SELECT w FROM src WHERE k >= lo ORDER BY k
type cursorDecl struct {
	name string
	lo   expr
}

type decl struct {
	names  []string
	hasDef bool
	def    expr
}

const (
	condExc      = iota // SQLEXCEPTION
	condNotFound        // NOT FOUND
)

type handler struct {
	exit bool
	cond int
	body stmt
}

type sBlock struct {
	label    string
	decls    []decl
	cursors  []cursorDecl
	handlers []handler
	body     []stmt
}

type param struct {
	name string
	mode string // IN, OUT, INOUT
}

type proc struct {
	params []param
	body   *sBlock
}

// ---------------------------------------------------------------------------------------
// rendering

func renderList(sb *strings.Builder, ss []stmt) {
	for _, s := range ss {
		render(sb, s)
		sb.WriteString("; ")
	}
}

func lbl(l string) string {
	if l == "" {
		return ""
	}
	return l + ": "
}

func endLbl(l string) string {
	if l == "" {
		return ""
	}
	return " " + l
}

func render(sb *strings.Builder, s stmt) {
	switch x := s.(type) {
	case sSet:
		fmt.Fprintf(sb, "SET %s = %s", x.v, x.e.sql())
	case sIf:
		for i := range x.conds {
			if i == 0 {
				sb.WriteString("IF ")
			} else {
				sb.WriteString("ELSEIF ")
			}
			sb.WriteString(x.conds[i].sql())
			sb.WriteString(" THEN ")
			renderList(sb, x.thens[i])
		}
		if x.hasElse {
			sb.WriteString("ELSE ")
			renderList(sb, x.els)
		}
		sb.WriteString("END IF")
	case sCase:
		sb.WriteString("CASE ")
		if x.subject != nil {
			sb.WriteString(x.subject.sql() + " ")
		}
		for i := range x.whens {
			sb.WriteString("WHEN " + x.whens[i].sql() + " THEN ")
			renderList(sb, x.thens[i])
		}
		if x.hasElse {
			sb.WriteString("ELSE ")
			renderList(sb, x.els)
		}
		sb.WriteString("END CASE")
	case sWhile:
		sb.WriteString(lbl(x.label) + "WHILE " + x.cond.sql() + " DO ")
		renderList(sb, x.body)
		sb.WriteString("END WHILE" + endLbl(x.label))
	case sRepeat:
		sb.WriteString(lbl(x.label) + "REPEAT ")
		renderList(sb, x.body)
		sb.WriteString("UNTIL " + x.until.sql() + " END REPEAT" + endLbl(x.label))
	case sLoop:
		sb.WriteString(lbl(x.label) + "LOOP ")
		renderList(sb, x.body)
		sb.WriteString("END LOOP" + endLbl(x.label))
	case sLeave:
		sb.WriteString("LEAVE " + x.label)
	case sIterate:
		sb.WriteString("ITERATE " + x.label)
	case sSelect:
		sb.WriteString("SELECT ")
		for i, e := range x.es {
			if i > 0 {
				sb.WriteString(", ")
			}
			sb.WriteString(e.sql())
		}
	case sLog:
		fmt.Fprintf(sb, "INSERT INTO log(tag, v) VALUES (%d, %s)", x.tag, x.e.sql())
	case sSignal:
		sb.WriteString("SIGNAL SQLSTATE '45000'")
	case sInto:
		fmt.Fprintf(sb, "SELECT %s INTO %s", x.e.sql(), x.v)
	case sIntoSrc:
		fmt.Fprintf(sb, "SELECT w INTO %s FROM src WHERE k = %s", x.v, x.key.sql())
	case sIntoCount:
		fmt.Fprintf(sb, "SELECT COUNT(*) INTO %s FROM log", x.v)
	case sCallQ:
		fmt.Fprintf(sb, "CALL q(%s, %s, %s)", x.in.sql(), x.out, x.inout)
	case sOpen:
		sb.WriteString("OPEN " + x.cur)
	case sFetch:
		sb.WriteString("FETCH " + x.cur + " INTO " + x.v)
	case sClose:
		sb.WriteString("CLOSE " + x.cur)
	case *sBlock:
		sb.WriteString(lbl(x.label) + "BEGIN ")
		for _, d := range x.decls {
			sb.WriteString("DECLARE " + strings.Join(d.names, ", ") + " INT")
			if d.hasDef {
				sb.WriteString(" DEFAULT " + d.def.sql())
			}
			sb.WriteString("; ")
		}
		for _, c := range x.cursors {
			sb.WriteString("DECLARE " + c.name + " CURSOR FOR SELECT w FROM src WHERE k >= " + c.lo.sql() + " ORDER BY k; ")
		}
		for _, h := range x.handlers {
			sb.WriteString("DECLARE ")
			if h.exit {
				sb.WriteString("EXIT")
			} else {
				sb.WriteString("CONTINUE")
			}
			sb.WriteString(" HANDLER FOR ")
			if h.cond == condExc {
				sb.WriteString("SQLEXCEPTION ")
			} else {
				sb.WriteString("NOT FOUND ")
			}
			render(sb, h.body)
			sb.WriteString("; ")
		}
		renderList(sb, x.body)
		sb.WriteString("END" + endLbl(x.label))
	default:
		panic(fmt.Sprintf("render: unknown statement %T", s))
	}
}

func (p *proc) createSQL(name string) string {
	var sb strings.Builder
	sb.WriteString("CREATE PROCEDURE " + name + "(")
	for i, pa := range p.params {
		if i > 0 {
			sb.WriteString(", ")
		}
		sb.WriteString(pa.mode + " " + pa.name + " INT")
	}
	sb.WriteString(") ")
	render(&sb, p.body)
	return sb.String()
}

// auxProc is the fixed callee used by sCallQ: one parameter of each mode.
const auxProc = "CREATE PROCEDURE q(IN qa INT, OUT qb INT, INOUT qc INT) BEGIN SET qb = qa + 1; SET qc = qc * 2; END"

// ---------------------------------------------------------------------------------------
// reference interpreter

const (
	kNone = iota
	kLeave
	kIterate
	kErr  // an SQLEXCEPTION-class condition without a handler: terminates the procedure
	kExit // an EXIT handler ran: unwinds to the end of the block that declared it
	kStop // the run is being discarded (fuel / magnitude)
)

type ctl struct {
	kind  int
	label string
	fr    *frame
}

type cursorState struct {
	rows []val
	pos  int
	open bool
}

type frame struct {
	blk        *sBlock
	cursors    map[string]*cursorState
	vars       map[string]*val
	noHandlers bool // while one of this block's own handlers runs, the block's handlers are not eligible
}

type interp struct {
	frames  []*frame
	src     map[int64]val
	log     [][2]val
	results [][]val
	fuel    int
	bad     string // non-empty: discard the case

	// what happened (for the non-trivial rule, the class histogram and the region predicates)
	maxIter       int
	leaves        int
	iterates      int
	leaveBlocks   int
	handlerFired  int
	exitFired     int
	contFired     int
	notFoundSeen  int
	caseNotFound  int
	shadowReads   int
	nestedCalls   int
	fetches       int
	outerJumps    int      // LEAVE/ITERATE executed whose target is not the innermost enclosing loop
	loopStack     []string // labels of the loops being executed ("" for unlabelled)
	fetchEnds     int
	iterateRepeat int
}

func (in *interp) lookup(name string) *val {
	for i := len(in.frames) - 1; i >= 0; i-- {
		if v, ok := in.frames[i].vars[name]; ok {
			if i < len(in.frames)-1 {
				// is the name also declared in an outer frame (a shadowing read/write)?
			}
			return v
		}
	}
	panic("interp: unknown variable " + name + " (generator error)")
}

func (in *interp) isShadowed(name string) bool {
	n := 0
	for _, f := range in.frames {
		if _, ok := f.vars[name]; ok {
			n++
		}
	}
	return n > 1
}

func (in *interp) eval(e expr) val {
	switch x := e.(type) {
	case eLit:
		return x.v
	case eVar:
		if in.isShadowed(x.name) {
			in.shadowReads++
		}
		return *in.lookup(x.name)
	case eNeg:
		a := in.eval(x.e)
		if a.null {
			return a
		}
		return intV(-a.n)
	case eBin:
		a, b := in.eval(x.l), in.eval(x.r)
		if a.null || b.null {
			return nullV()
		}
		var r int64
		switch x.op {
		case "+":
			r = a.n + b.n
		case "-":
			r = a.n - b.n
		case "*":
			r = a.n * b.n
		default:
			panic("eval: op " + x.op)
		}
		if r > limit || r < -limit {
			in.bad = "magnitude"
			return intV(0)
		}
		return intV(r)
	case eCmp:
		a, b := in.eval(x.l), in.eval(x.r)
		if a.null || b.null {
			return nullV()
		}
		switch x.op {
		case "=":
			return boolV(a.n == b.n)
		case "<>":
			return boolV(a.n != b.n)
		case "<":
			return boolV(a.n < b.n)
		case "<=":
			return boolV(a.n <= b.n)
		case ">":
			return boolV(a.n > b.n)
		case ">=":
			return boolV(a.n >= b.n)
		}
		panic("eval: cmp " + x.op)
	case eLogic:
		a, b := in.eval(x.l), in.eval(x.r)
		if x.op == "AND" {
			if (!a.null && a.n == 0) || (!b.null && b.n == 0) {
				return intV(0)
			}
			if a.null || b.null {
				return nullV()
			}
			return intV(1)
		}
		if (!a.null && a.n != 0) || (!b.null && b.n != 0) {
			return intV(1)
		}
		if a.null || b.null {
			return nullV()
		}
		return intV(0)
	case eNot:
		a := in.eval(x.e)
		if a.null {
			return a
		}
		return boolV(a.n == 0)
	case eIsNull:
		a := in.eval(x.e)
		return boolV(a.null != x.neg)
	case eBool:
		return boolV(x.b)
	case eIsTrue:
		a := in.eval(x.e)
		return boolV(!a.null && a.n != 0)
	}
	panic(fmt.Sprintf("eval: unknown expression %T", e))
}

func (in *interp) isTrue(e expr) bool {
	v := in.eval(e)
	return !v.null && v.n != 0
}

// raise delivers a condition at the point where it occurs. It returns kNone when execution
// continues after the raising statement (CONTINUE handler, or an unhandled NOT FOUND, which
// MySQL treats as a warning), kExit when an EXIT handler ran, kErr when the condition is an
// unhandled SQLEXCEPTION.
func (in *interp) raise(cond int) ctl {
	if cond == condNotFound {
		in.notFoundSeen++
	}
	for i := len(in.frames) - 1; i >= 0; i-- {
		f := in.frames[i]
		if f.noHandlers || f.blk == nil {
			continue
		}
		for hi := range f.blk.handlers {
			h := &f.blk.handlers[hi]
			if h.cond != cond {
				continue
			}
			in.handlerFired++
			// the handler body runs in the scope of the block that declares it; that block's
			// own handlers (and everything nested below it) are out of the picture meanwhile
			saved := in.frames
			in.frames = append([]*frame(nil), saved[:i+1]...)
			f.noHandlers = true
			out := in.exec(h.body)
			f.noHandlers = false
			in.frames = saved
			if out.kind != kNone {
				return out // condition raised inside the handler and not handled there (or stop)
			}
			if h.exit {
				in.exitFired++
				return ctl{kind: kExit, fr: f}
			}
			in.contFired++
			return ctl{}
		}
	}
	if cond == condNotFound {
		return ctl{} // warning only
	}
	return ctl{kind: kErr}
}

func (in *interp) execList(ss []stmt) ctl {
	for _, s := range ss {
		if out := in.exec(s); out.kind != kNone {
			return out
		}
	}
	return ctl{}
}

func (in *interp) assign(name string, v val) {
	*in.lookup(name) = v
}

func (in *interp) loopCtl(out ctl, label string) (brk, cont bool, ret ctl) {
	switch out.kind {
	case kNone:
		return false, false, ctl{}
	case kLeave:
		if label != "" && out.label == label {
			return true, false, ctl{}
		}
	case kIterate:
		if label != "" && out.label == label {
			return false, true, ctl{}
		}
	}
	return false, false, out
}

func (in *interp) noteJump(label string) {
	if n := len(in.loopStack); n > 0 && in.loopStack[n-1] != label {
		in.outerJumps++
	}
}

func (in *interp) noteIter(n int) {
	if n > in.maxIter {
		in.maxIter = n
	}
}

func (in *interp) exec(s stmt) ctl {
	if in.bad != "" {
		return ctl{kind: kStop}
	}
	in.fuel--
	if in.fuel < 0 {
		in.bad = "fuel"
		return ctl{kind: kStop}
	}
	switch x := s.(type) {
	case sSet:
		v := in.eval(x.e)
		in.assign(x.v, v)
	case sIf:
		for i, c := range x.conds {
			if in.isTrue(c) {
				return in.execList(x.thens[i])
			}
		}
		if x.hasElse {
			return in.execList(x.els)
		}
	case sCase:
		for i, w := range x.whens {
			var hit bool
			if x.subject != nil {
				hit = in.isTrue(eCmp{"=", x.subject, w})
			} else {
				hit = in.isTrue(w)
			}
			if hit {
				return in.execList(x.thens[i])
			}
		}
		if x.hasElse {
			return in.execList(x.els)
		}
		in.caseNotFound++
		return in.raise(condExc) // ER_SP_CASE_NOT_FOUND, SQLSTATE 20000
	case sWhile:
		n := 0
		in.loopStack = append(in.loopStack, x.label)
		defer func(d int) { in.loopStack = in.loopStack[:d] }(len(in.loopStack) - 1)
		for in.isTrue(x.cond) {
			n++
			in.noteIter(n)
			brk, _, ret := in.loopCtl(in.execList(x.body), x.label)
			if ret.kind != kNone {
				return ret
			}
			if brk {
				break
			}
		}
	case sRepeat:
		n := 0
		in.loopStack = append(in.loopStack, x.label)
		defer func(d int) { in.loopStack = in.loopStack[:d] }(len(in.loopStack) - 1)
		for {
			n++
			in.noteIter(n)
			brk, cont, ret := in.loopCtl(in.execList(x.body), x.label)
			if ret.kind != kNone {
				return ret
			}
			if brk {
				break
			}
			if cont {
				// MySQL: ITERATE jumps to the label, which for REPEAT is the start of the body
				in.iterateRepeat++
				continue
			}
			if in.isTrue(x.until) {
				break
			}
			if in.bad != "" {
				return ctl{kind: kStop}
			}
		}
	case sLoop:
		n := 0
		in.loopStack = append(in.loopStack, x.label)
		defer func(d int) { in.loopStack = in.loopStack[:d] }(len(in.loopStack) - 1)
		for {
			n++
			in.noteIter(n)
			brk, _, ret := in.loopCtl(in.execList(x.body), x.label)
			if ret.kind != kNone {
				return ret
			}
			if brk {
				break
			}
			if in.bad != "" {
				return ctl{kind: kStop}
			}
		}
	case sLeave:
		in.leaves++
		in.noteJump(x.label)
		return ctl{kind: kLeave, label: x.label}
	case sIterate:
		in.iterates++
		in.noteJump(x.label)
		return ctl{kind: kIterate, label: x.label}
	case sSelect:
		row := make([]val, len(x.es))
		for i, e := range x.es {
			row[i] = in.eval(e)
		}
		in.results = append(in.results, row)
	case sLog:
		in.log = append(in.log, [2]val{intV(int64(x.tag)), in.eval(x.e)})
	case sSignal:
		return in.raise(condExc)
	case sInto:
		in.assign(x.v, in.eval(x.e))
	case sIntoSrc:
		k := in.eval(x.key)
		w, ok := in.src[k.n]
		if k.null || !ok {
			return in.raise(condNotFound) // variable unchanged
		}
		in.assign(x.v, w)
	case sIntoCount:
		in.assign(x.v, intV(int64(len(in.log))))
	case sCallQ:
		in.nestedCalls++
		a := in.eval(x.in)
		c := *in.lookup(x.inout)
		// q: SET qb = qa + 1; SET qc = qc * 2
		b := nullV()
		if !a.null {
			b = intV(a.n + 1)
		}
		if !c.null {
			c = intV(c.n * 2)
			if c.n > limit || c.n < -limit {
				in.bad = "magnitude"
			}
		}
		in.assign(x.out, b)
		in.assign(x.inout, c)
	case sOpen:
		cs, f := in.cursor(x.cur)
		var lo expr
		for _, cd := range f.blk.cursors {
			if cd.name == x.cur {
				lo = cd.lo
			}
		}
		if cs.open {
			panic("interp: OPEN of an open cursor (generator error)")
		}
		lv := in.eval(lo)
		cs.rows, cs.pos, cs.open = nil, 0, true
		if !lv.null {
			var ks []int64
			for k := range in.src {
				if k >= lv.n {
					ks = append(ks, k)
				}
			}
			sort.Slice(ks, func(i, j int) bool { return ks[i] < ks[j] })
			for _, k := range ks {
				cs.rows = append(cs.rows, in.src[k])
			}
		}
	case sFetch:
		cs, _ := in.cursor(x.cur)
		if !cs.open {
			panic("interp: FETCH from a closed cursor (generator error)")
		}
		in.fetches++
		if cs.pos >= len(cs.rows) {
			in.fetchEnds++
			return in.raise(condNotFound)
		}
		in.assign(x.v, cs.rows[cs.pos])
		cs.pos++
	case sClose:
		cs, _ := in.cursor(x.cur)
		if !cs.open {
			panic("interp: CLOSE of a closed cursor (generator error)")
		}
		cs.open = false
	case *sBlock:
		return in.execBlock(x)
	default:
		panic(fmt.Sprintf("exec: unknown statement %T", s))
	}
	if in.bad != "" {
		return ctl{kind: kStop}
	}
	return ctl{}
}

func (in *interp) cursor(name string) (*cursorState, *frame) {
	for i := len(in.frames) - 1; i >= 0; i-- {
		if cs, ok := in.frames[i].cursors[name]; ok {
			return cs, in.frames[i]
		}
	}
	panic("interp: unknown cursor " + name + " (generator error)")
}

func (in *interp) execBlock(b *sBlock) ctl {
	f := &frame{blk: b, vars: map[string]*val{}, cursors: map[string]*cursorState{}}
	for _, cd := range b.cursors {
		f.cursors[cd.name] = &cursorState{}
	}
	depth := len(in.frames)
	in.frames = append(in.frames, f)
	defer func() { in.frames = in.frames[:depth] }()
	for _, d := range b.decls {
		v := nullV()
		if d.hasDef {
			v = in.eval(d.def)
		}
		for _, n := range d.names {
			c := v
			f.vars[n] = &c
		}
	}
	out := in.execList(b.body)
	switch out.kind {
	case kLeave:
		if b.label != "" && out.label == b.label {
			in.leaveBlocks++
			return ctl{}
		}
	case kExit:
		if out.fr == f {
			return ctl{}
		}
	}
	return out
}

// outcome of the reference run of one CALL
type refResult struct {
	failed  bool
	outVals map[string]val // final values of all parameters
	in      *interp
}

func runRef(p *proc, args map[string]val, src map[int64]val, priorLog [][2]val) *refResult {
	in := &interp{src: src, fuel: 20000}
	in.log = append(in.log, priorLog...)
	f0 := &frame{vars: map[string]*val{}}
	for _, pa := range p.params {
		v := args[pa.name]
		if pa.mode == "OUT" {
			v = nullV() // an OUT parameter starts as NULL inside the procedure
		}
		c := v
		f0.vars[pa.name] = &c
	}
	in.frames = []*frame{f0}
	out := in.execBlock(p.body)
	res := &refResult{in: in, outVals: map[string]val{}}
	switch out.kind {
	case kErr:
		res.failed = true
	case kNone, kStop:
	default:
		panic(fmt.Sprintf("runRef: control %d escaped the body (generator error)", out.kind))
	}
	for _, pa := range p.params {
		res.outVals[pa.name] = *f0.vars[pa.name]
	}
	return res
}
