package c24

import (
	"fmt"
	"os"
	"sort"
	"strings"
	"testing"
	"time"

	"github.com/dolthub/go-mysql-server/vh/internal/fx"
	"github.com/dolthub/go-mysql-server/vh/internal/kf"
	"github.com/dolthub/go-mysql-server/vh/internal/stats"
	"pgregory.net/rapid"
)

// one CALL: the initial value of the user variable (or the literal) passed per parameter
type callArgs struct {
	args map[string]val
	lit  map[string]bool
}

// one generated case: a procedure, the contents of table src and 1-3 CALLs in one session
type tcase struct {
	p     *proc
	src   map[int64]val
	calls []callArgs
}

func (c *tcase) setup() []string {
	out := []string{
		"CREATE TABLE log(id INT AUTO_INCREMENT PRIMARY KEY, tag INT, v INT)",
		"CREATE TABLE src(k INT PRIMARY KEY, w INT)",
	}
	var ks []int64
	for k := range c.src {
		ks = append(ks, k)
	}
	sort.Slice(ks, func(i, j int) bool { return ks[i] < ks[j] })
	for _, k := range ks {
		out = append(out, fmt.Sprintf("INSERT INTO src VALUES (%d, %s)", k, c.src[k]))
	}
	out = append(out, auxProc)
	return out
}

func (c *tcase) callSQL(ca callArgs) (sets []string, call string, readback string, names []string) {
	var as, rb []string
	for i, pa := range c.p.params {
		uv := fmt.Sprintf("@a%d", i)
		if ca.lit[pa.name] {
			as = append(as, ca.args[pa.name].String())
			continue
		}
		sets = append(sets, fmt.Sprintf("SET %s = %s", uv, ca.args[pa.name]))
		as = append(as, uv)
		rb = append(rb, uv)
		names = append(names, pa.name)
	}
	call = "CALL p(" + strings.Join(as, ", ") + ")"
	if len(rb) > 0 {
		readback = "SELECT " + strings.Join(rb, ", ")
	}
	return
}

const readLog = "SELECT tag, v FROM log ORDER BY id"

func (c *tcase) script() string {
	var sb strings.Builder
	for _, s := range c.setup() {
		sb.WriteString(s + ";;\n")
	}
	sb.WriteString(c.p.createSQL("p") + ";;\n")
	for _, ca := range c.calls {
		sets, call, rb, _ := c.callSQL(ca)
		for _, s := range sets {
			sb.WriteString(s + ";;\n")
		}
		sb.WriteString(call + ";;\n")
		if rb != "" {
			sb.WriteString(rb + ";;\n")
		}
		sb.WriteString(readLog + ";;\n")
	}
	return sb.String()
}

func showVals(vs []val) string {
	parts := make([]string, len(vs))
	for i, v := range vs {
		parts[i] = v.String()
	}
	return "(" + strings.Join(parts, ",") + ")"
}

// verdict of comparing the engine with the reference
type verdict struct {
	ok      bool
	discard string // non-empty: case not decided (reason)
	msg     string
	refs    []*refResult
	hang    bool
}

func (c *tcase) paramMode(n string) string {
	for _, pa := range c.p.params {
		if pa.name == n {
			return pa.mode
		}
	}
	return ""
}

// runCase decides one case. A CALL that exceeds the short deadline is not trusted (the machine
// may be loaded): the whole case is repeated on a fresh fixture with a deadline that is four
// orders of magnitude above the normal run time of these programs (a few ms), and only a
// second timeout is reported as non-termination.
func runCase(c *tcase) verdict {
	v := runCaseT(c, 2*time.Second)
	if v.hang {
		v = runCaseT(c, 30*time.Second)
	}
	return v
}

func runCaseT(c *tcase, deadline time.Duration) verdict {
	// reference first: programs whose values leave the small range are not run at all
	var refs []*refResult
	var log [][2]val
	for _, ca := range c.calls {
		ref := runRef(c.p, ca.args, c.src, log)
		if ref.in.bad != "" {
			return verdict{discard: "ref-" + ref.in.bad}
		}
		log = ref.in.log
		refs = append(refs, ref)
	}
	v := verdict{refs: refs}
	fail := func(format string, a ...any) verdict {
		v.msg = fmt.Sprintf(format, a...)
		return v
	}
	f := fx.New(fx.Opts{})
	defer f.Close()
	s := f.NewSession("", "", "")
	s.Timeout = deadline
	for _, q := range c.setup() {
		if r := s.Exec(q); !r.OK() {
			return fail("set-up statement failed: %s -> %s", q, r)
		}
	}
	if r := s.Exec(c.p.createSQL("p")); !r.OK() {
		if r.Panic != nil {
			return fail("CREATE PROCEDURE panicked: %v\n%s", r.Panic, r.Stack)
		}
		v.discard = "create-rejected"
		return fail("CREATE PROCEDURE of a legal program was rejected: %v", r.Err)
	}
	for ci, ca := range c.calls {
		ref := refs[ci]
		sets, call, rb, names := c.callSQL(ca)
		for _, q := range sets {
			if r := s.Exec(q); !r.OK() {
				return fail("set-up statement failed: %s -> %s", q, r)
			}
		}
		r := s.Exec(call)
		if r.Panic != nil {
			return fail("CALL #%d panicked: %v\n%s", ci+1, r.Panic, r.Stack)
		}
		if r.TimedOut {
			v.hang = true
			return fail("CALL #%d did not terminate (every loop of the program is bounded; the reference run ends)", ci+1)
		}
		if ref.failed != (r.Err != nil) {
			if ref.failed {
				return fail("CALL #%d succeeded (%s) but the body ends with an unhandled SQLEXCEPTION condition", ci+1, r)
			}
			return fail("CALL #%d failed (%v) but the body completes normally", ci+1, r.Err)
		}
		// table effects (also after a failed CALL: the statements that ran before the error stay)
		lr := s.Exec(readLog)
		if !lr.OK() {
			return fail("reading log failed: %s", lr)
		}
		got := fx.NormRows(lr.Schema, lr.Rows)
		want := make([][]string, len(ref.in.log))
		for i, e := range ref.in.log {
			want[i] = []string{e[0].norm(), e[1].norm()}
		}
		if !fx.SeqEqual(got, want) {
			return fail("after CALL #%d the log table (tag,v) is %s, reference %s", ci+1, fx.ShowSeq(got), fx.ShowSeq(want))
		}
		if ref.failed {
			continue
		}
		// result set: the engine returns the last result set produced by the body
		if n := len(ref.in.results); n > 0 {
			last := ref.in.results[n-1]
			wantRow := make([]string, len(last))
			for i, x := range last {
				wantRow[i] = x.norm()
			}
			if _, isOk := r.OkResult(); isOk || len(r.Rows) != 1 || !fx.SeqEqual(fx.NormRows(r.Schema, r.Rows), [][]string{wantRow}) {
				return fail("CALL #%d returned %s, the last result set of the body is %s", ci+1, r, showVals(last))
			}
		} else if _, isOk := r.OkResult(); !isOk {
			return fail("CALL #%d returned %s, but the body produces no result set", ci+1, r)
		}
		// parameters: OUT/INOUT written back, IN arguments untouched
		if rb != "" {
			vr := s.Exec(rb)
			if !vr.OK() || len(vr.Rows) != 1 {
				return fail("reading user variables failed: %s", vr)
			}
			gotv := fx.NormRow(vr.Schema, vr.Rows[0])
			for i, n := range names {
				mode := c.paramMode(n)
				w := ref.outVals[n]
				if mode == "IN" {
					w = ca.args[n]
				}
				if !fx.ValEq(gotv[i], w.norm()) {
					return fail("after CALL #%d the argument of %s parameter %s is %s, reference %s", ci+1, mode, n, gotv[i], w)
				}
			}
		}
	}
	v.ok = true
	return v
}

func drawCase(rt *rapid.T, st *stats.Collector) *tcase {
	g := &gen{rt: rt, st: st}
	c := &tcase{src: map[int64]val{}}
	c.p = g.program()
	c.src[0] = intV(int64(rapid.IntRange(-3, 6).Draw(rt, "w0")))
	for k := int64(1); k <= 3; k++ {
		if rapid.Bool().Draw(rt, "haskey") {
			if rapid.IntRange(0, 5).Draw(rt, "wnull") == 0 {
				c.src[k] = nullV()
			} else {
				c.src[k] = intV(int64(rapid.IntRange(-3, 6).Draw(rt, "w")))
			}
		}
	}
	ncalls := rapid.SampledFrom([]int{1, 1, 2, 3}).Draw(rt, "ncalls")
	if g.nCallQ > 0 && ncalls > 1 && kf.Listed(fNestedCall) {
		// a second CALL in the session sees the stale entries of the first (region of fNestedCall)
		st.Excluded(fNestedCall)
		ncalls = 1
	}
	for i := 0; i < ncalls; i++ {
		ca := callArgs{args: map[string]val{}, lit: map[string]bool{}}
		for _, pa := range c.p.params {
			v := intV(int64(rapid.IntRange(-3, 6).Draw(rt, "arg")))
			if rapid.IntRange(0, 5).Draw(rt, "argnull") == 0 {
				v = nullV()
			}
			if pa.mode == "OUT" && !v.null && !g.want(fOutInit, 100, "outinit") {
				v = nullV()
			}
			ca.args[pa.name] = v
			if pa.mode == "IN" && rapid.Bool().Draw(rt, "literalarg") {
				ca.lit[pa.name] = true
			}
		}
		c.calls = append(c.calls, ca)
	}
	return c
}

func classify(st *stats.Collector, c *tcase, refs []*refResult) bool {
	nt := false
	if len(refs) > 1 {
		st.Class("calls>=2")
	}
	for _, pa := range c.p.params {
		st.Class("param-" + pa.mode)
	}
	seen := map[string]bool{}
	cl := func(b bool, l string) {
		if b && !seen[l] {
			seen[l] = true
			st.Class(l)
		}
	}
	for _, ref := range refs {
		in := ref.in
		cl(in.maxIter >= 2, "loop>=2iter")
		cl(in.leaves > 0, "leave-executed")
		cl(in.iterates > 0, "iterate-executed")
		cl(in.leaveBlocks > 0, "leave-block")
		cl(in.outerJumps > 0, "jump-to-outer-label")
		cl(in.contFired > 0, "continue-handler-fired")
		cl(in.exitFired > 0, "exit-handler-fired")
		cl(in.caseNotFound > 0, "case-not-found")
		cl(in.notFoundSeen > 0, "not-found-condition")
		cl(in.shadowReads > 0, "shadowed-variable-read")
		cl(in.nestedCalls > 0, "nested-call")
		cl(in.fetches > 0, "cursor-fetch")
		cl(in.fetchEnds > 0, "cursor-end-of-data")
		cl(ref.failed, "call-fails")
		cl(len(in.results) > 0, "result-set")
		cl(len(in.log) > 0, "log-rows")
		if in.maxIter >= 2 && (in.leaves > 0 || in.iterates > 0 || in.handlerFired > 0) {
			nt = true
		}
	}
	return nt
}

func TestC24(t *testing.T) {
	st := stats.New("C24", "")
	defer st.Flush()
	rapid.Check(t, func(rt *rapid.T) {
		st.Eval()
		c := drawCase(rt, st)
		v := runCase(c)
		if v.discard != "" {
			st.Class("discard-" + v.discard)
			if v.discard == "create-rejected" && os.Getenv("C24_CREATE_OK") == "" {
				rt.Fatalf("%s\n%s", v.msg, c.script())
			}
			return
		}
		nt := classify(st, c, v.refs)
		if !v.ok {
			rt.Fatalf("C24 violation: %s\n--- script ---\n%s", v.msg, c.script())
		}
		if nt {
			st.NonTrivial(map[string]any{"create": c.p.createSQL("p"), "calls": len(c.calls)}, c.script())
		}
	})
}
