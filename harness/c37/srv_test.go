package c37

import (
	"context"
	"database/sql/driver"
	"fmt"
	"io"
	"net"
	"os"
	"sync"
	"sync/atomic"
	"time"

	sqle "github.com/dolthub/go-mysql-server"
	"github.com/dolthub/go-mysql-server/memory"
	"github.com/dolthub/go-mysql-server/server"
	"github.com/dolthub/go-mysql-server/sql"
	"github.com/dolthub/go-mysql-server/sql/expression"
	"github.com/dolthub/go-mysql-server/sql/types"
	"github.com/dolthub/go-mysql-server/vh/internal/stats"
	"github.com/go-sql-driver/mysql"
	"github.com/sirupsen/logrus"
)

// watchdog bounds every wait for an event the server must produce. It is never an oracle:
// when it expires the run is abandoned as inconclusive (the driver classifies the
// "test timed out" marker as exit 2), never reported as a violation.
const watchdog = 90 * time.Second

func inconclusive(st *stats.Collector, format string, a ...any) {
	st.Flush()
	fmt.Printf("panic: test timed out (harness watchdog, not a verdict): "+format+"\n", a...)
	os.Exit(3)
}

// ---------------------------------------------------------------------------------------
// gate(k): a SQL function registered by the harness (the way an integrator registers
// functions). Its evaluation announces itself and then blocks until the harness opens gate
// k or until the statement's context is cancelled - exactly what SLEEP() does with a timer.
// It gives the harness statements that are *known* to be running, without any clock.

type gate struct {
	entered chan struct{}
	release chan struct{}
	once    sync.Once
	relOnce sync.Once
	ctx     *sql.Context // context of the evaluation that entered the gate; written before entered is closed
}

// open lets the statement blocked in the gate continue (idempotent).
func (g *gate) open() { g.relOnce.Do(func() { close(g.release) }) }

// cancelled reports whether the context of the statement blocked in the gate is cancelled.
// Only valid after <-entered.
func (g *gate) cancelled() bool { return g.ctx != nil && g.ctx.Err() != nil }

type gates struct {
	mu sync.Mutex
	m  map[int64]*gate
}

func (g *gates) get(k int64) *gate {
	g.mu.Lock()
	defer g.mu.Unlock()
	if g.m == nil {
		g.m = map[int64]*gate{}
	}
	if g.m[k] == nil {
		g.m[k] = &gate{entered: make(chan struct{}), release: make(chan struct{})}
	}
	return g.m[k]
}

type gateFn struct {
	expression.UnaryExpressionStub
	g *gates
}

var _ sql.FunctionExpression = (*gateFn)(nil)

func (f *gateFn) FunctionName() string { return "gate" }
func (f *gateFn) Description() string  { return "harness: blocks until opened or cancelled" }
func (f *gateFn) String() string       { return fmt.Sprintf("gate(%s)", f.Child) }
func (f *gateFn) Type(*sql.Context) sql.Type {
	return types.Int64
}
func (f *gateFn) IsNullable(*sql.Context) bool { return false }
func (f *gateFn) WithChildren(ctx *sql.Context, children ...sql.Expression) (sql.Expression, error) {
	if len(children) != 1 {
		return nil, sql.ErrInvalidChildrenNumber.New(f, len(children), 1)
	}
	return &gateFn{expression.UnaryExpressionStub{Child: children[0]}, f.g}, nil
}
func (f *gateFn) Eval(ctx *sql.Context, row sql.Row) (interface{}, error) {
	v, err := f.Child.Eval(ctx, row)
	if err != nil || v == nil {
		return nil, err
	}
	v, _, err = types.Int64.Convert(ctx, v)
	if err != nil {
		return nil, err
	}
	g := f.g.get(v.(int64))
	g.once.Do(func() {
		g.ctx = ctx
		close(g.entered)
	})
	select {
	case <-g.release:
		return int64(1), nil
	case <-ctx.Done():
		return nil, context.Canceled
	}
}

// ---------------------------------------------------------------------------------------

// events counts the server's own connection notifications.
type events struct {
	connected    atomic.Int64
	disconnected atomic.Int64
}

func (e *events) ClientConnected()                   { e.connected.Add(1) }
func (e *events) ClientDisconnected()                { e.disconnected.Add(1) }
func (e *events) QueryStarted()                      {}
func (e *events) QueryCompleted(bool, time.Duration) {}

// wsrv is a real server on a loopback port.
type wsrv struct {
	engine *sqle.Engine
	srv    *server.Server
	addr   string
	ev     *events
	gates  *gates
	done   chan struct{}
}

func startServer() (*wsrv, error) {
	logrus.SetOutput(io.Discard) // connection life-cycle chatter of the server
	db := memory.NewDatabase("d")
	pro := memory.NewDBProvider(db)
	engine := sqle.NewDefault(pro)
	w := &wsrv{engine: engine, ev: &events{}, gates: &gates{}, done: make(chan struct{})}

	// fixed data and the gate function, set up in-process before the server starts
	sess := memory.NewSession(sql.NewBaseSession(), pro)
	ctx := sql.NewContext(context.Background(), sql.WithSession(sess))
	ctx.SetCurrentDatabase("d")
	engine.Analyzer.Catalog.RegisterFunction(ctx, sql.Function1{Name: "gate", Fn: func(ctx *sql.Context, e sql.Expression) sql.Expression {
		return &gateFn{expression.UnaryExpressionStub{Child: e}, w.gates}
	}})
	for _, q := range []string{
		"CREATE TABLE t (x INT PRIMARY KEY, y INT)",
		"INSERT INTO t VALUES (1,10),(2,20),(3,30)",
		"CREATE PROCEDURE pg(k INT) BEGIN DECLARE a INT; SELECT y INTO a FROM t WHERE x = 2; SELECT a + gate(k); END",
	} {
		_, iter, _, err := engine.Query(ctx, q)
		if err == nil {
			_, err = sql.RowIterToRows(ctx, iter)
		}
		if err != nil {
			return nil, fmt.Errorf("setup %q: %w", q, err)
		}
	}

	ln, err := net.Listen("tcp", "127.0.0.1:0")
	if err != nil {
		return nil, err
	}
	w.addr = ln.Addr().String()
	cfg := server.Config{Protocol: "tcp", Address: w.addr, Listener: ln}
	w.srv, err = server.NewServer(cfg, engine, sql.NewContext, memory.NewSessionBuilder(pro), w.ev)
	if err != nil {
		ln.Close()
		return nil, err
	}
	go func() {
		defer close(w.done)
		_ = w.srv.Start()
	}()
	return w, nil
}

// stop closes the listener, waits for the accept loop and for every connection handler.
func (w *wsrv) stop(st *stats.Collector) {
	_ = w.srv.Close()
	fin := make(chan struct{})
	go func() {
		<-w.done
		w.srv.SessionManager().WaitForClosedConnections()
		close(fin)
	}()
	select {
	case <-fin:
	case <-time.After(watchdog):
		inconclusive(st, "server teardown did not finish")
	}
	_ = w.engine.Close()
}

// waitDisconnected blocks until the server has reported n finished connection tear-downs
// (Handler.ConnectionClosed notifies the listener last, after the session was closed and the
// process-list entry removed).
func (w *wsrv) waitDisconnected(st *stats.Collector, n int64) {
	deadline := time.Now().Add(watchdog)
	for w.ev.disconnected.Load() < n {
		if time.Now().After(deadline) {
			inconclusive(st, "server did not finish closing a connection (%d of %d)", w.ev.disconnected.Load(), n)
		}
		time.Sleep(100 * time.Microsecond)
	}
}

// result of one statement
type qres struct {
	rows [][]string
	err  error
}

// wclient is one client connection (exactly one TCP connection, no pool).
type wclient struct {
	dc  driver.Conn
	raw net.Conn
	id  uint32

	// a statement running in the background (blocked in a gate)
	gateK   int64
	gateQ   string
	pending chan qres
}

func (w *wsrv) connect(user string) (*wclient, error) {
	c := &wclient{}
	cfg := mysql.NewConfig()
	cfg.User, cfg.Net, cfg.Addr, cfg.DBName = user, "tcp", w.addr, "d"
	cfg.DialFunc = func(ctx context.Context, network, addr string) (net.Conn, error) {
		var d net.Dialer
		nc, err := d.DialContext(ctx, network, addr)
		c.raw = nc
		return nc, err
	}
	conn, err := mysql.NewConnector(cfg)
	if err != nil {
		return nil, err
	}
	if c.dc, err = conn.Connect(context.Background()); err != nil {
		return nil, err
	}
	r := c.query("SELECT CONNECTION_ID()")
	if r.err != nil || len(r.rows) != 1 {
		c.dc.Close()
		return nil, fmt.Errorf("CONNECTION_ID(): %v %v", r.rows, r.err)
	}
	var id uint32
	fmt.Sscan(r.rows[0][0], &id)
	c.id = id
	return c, nil
}

// query runs a statement and returns all rows as strings ("NULL" for NULL).
func (c *wclient) query(q string) qres {
	rows, err := c.dc.(driver.QueryerContext).QueryContext(context.Background(), q, nil)
	if err != nil {
		return qres{err: err}
	}
	defer rows.Close()
	var res [][]string
	dest := make([]driver.Value, len(rows.Columns()))
	for {
		if err := rows.Next(dest); err != nil {
			if err == io.EOF {
				return qres{rows: res}
			}
			return qres{rows: res, err: err}
		}
		row := make([]string, len(dest))
		for i, v := range dest {
			switch x := v.(type) {
			case nil:
				row[i] = "NULL"
			case []byte:
				row[i] = string(x)
			default:
				row[i] = fmt.Sprint(x)
			}
		}
		res = append(res, row)
	}
}

// ping is a barrier: the connection's handler goroutine processes commands one after the
// other, so once the ping is answered the previous command's deferred EndQuery has run.
func (c *wclient) ping() error {
	return c.dc.(driver.Pinger).Ping(context.Background())
}
