// Package c37 checks property C37: the process list and KILL track and cancel exactly the
// targeted work.
//
// TestC37 (this file) is the API-level part: a rapid state machine drives
// sqle.NewProcessList() with the call protocol that server/handler.go and server/context.go
// follow for every connection and compares it, after every step, with a small model.
package c37

import (
	"context"
	"fmt"
	"strings"
	"testing"

	sqle "github.com/dolthub/go-mysql-server"
	"github.com/dolthub/go-mysql-server/sql"
	"github.com/dolthub/go-mysql-server/sql/variables"
	"github.com/dolthub/go-mysql-server/vh/internal/stats"
	"pgregory.net/rapid"
)

// mconn is the model of one connection together with the handles the "server" keeps for it.
type mconn struct {
	id    uint32
	addr  string // remote address given to AddConnection
	user  string // authenticated user / host (sess.Client())
	host  string
	sess  sql.Session
	ready bool // ConnectionReady has been called (authenticated)

	inQuery bool
	query   string
	qctx    *sql.Context // the context returned by the current BeginQuery
	qKilled bool         // Kill(id) was called while this query was current

	inOp       bool
	opctx      *sql.Context // the context returned by the current BeginOperation
	opKilled   bool
	opKillable bool // false once ConnectionReady replaced the process entry inside the operation (SetDB)
}

type machine struct {
	pl      *sqle.ProcessList
	conns   map[uint32]*mconn
	order   []uint32 // ids of live connections, in creation order (for deterministic draws)
	nextID  uint32
	nextPid uint64
	trace   []string
	baseTC  uint64 // Threads_connected / Threads_running at case start
	baseTR  uint64
	old     []*sql.Context // contexts of finished queries/operations
	maxPar  int            // max number of connections simultaneously in a query
	killNew bool           // a running query was killed and a later query started on the same connection
	killed  map[uint32]bool
}

func (m *machine) logf(f string, a ...any) { m.trace = append(m.trace, fmt.Sprintf(f, a...)) }
func (m *machine) show() string            { return "history:\n  " + strings.Join(m.trace, "\n  ") }

func statusVar(name string) uint64 {
	_, v, ok := sql.StatusVariables.GetGlobal(name)
	if !ok {
		return 0
	}
	u, _ := v.(uint64)
	return u
}

// newCtx builds the per-command context the way SessionManager.newContextAndWatch does:
// session, fresh pid from a counter, query text, process list.
func (m *machine) newCtx(c *mconn, q string) *sql.Context {
	m.nextPid++
	return sql.NewContext(context.Background(), sql.WithSession(c.sess), sql.WithPid(m.nextPid), sql.WithQuery(q), sql.WithProcessList(m.pl))
}

// check is the invariant evaluated after every step.
func (m *machine) check(rt *rapid.T) {
	procs := m.pl.Processes()
	seen := map[uint32]bool{}
	for _, p := range procs {
		c := m.conns[p.Connection]
		if c == nil {
			rt.Fatalf("process list shows connection %d which is not connected\n%s", p.Connection, m.show())
		}
		if seen[p.Connection] {
			rt.Fatalf("process list shows connection %d twice\n%s", p.Connection, m.show())
		}
		seen[p.Connection] = true
		wantCmd, wantQ := sql.ProcessCommandSleep, ""
		wantUser, wantHost := c.user, c.host
		switch {
		case !c.ready:
			wantCmd, wantUser, wantHost = sql.ProcessCommandConnect, "unauthenticated user", c.addr
		case c.inQuery:
			wantCmd, wantQ = sql.ProcessCommandQuery, c.query
		}
		if p.Command != wantCmd || p.Query != wantQ {
			rt.Fatalf("connection %d: process list shows Command=%q Query=%q, expected Command=%q Query=%q\n%s", c.id, p.Command, p.Query, wantCmd, wantQ, m.show())
		}
		if p.User != wantUser || p.Host != wantHost {
			rt.Fatalf("connection %d: process list shows User=%q Host=%q, expected %q %q\n%s", c.id, p.User, p.Host, wantUser, wantHost, m.show())
		}
	}
	if len(procs) != len(m.conns) {
		rt.Fatalf("process list has %d entries, %d connections are connected (%v)\n%s", len(procs), len(m.conns), m.order, m.show())
	}
	running := 0
	for _, id := range m.order {
		c := m.conns[id]
		if c.inQuery {
			running++
			if got := c.qctx.Err() != nil; got != c.qKilled {
				rt.Fatalf("connection %d: context of the running query %q cancelled=%v, but killed=%v\n%s", c.id, c.query, got, c.qKilled, m.show())
			}
		}
		if c.inOp && c.opKillable {
			if got := c.opctx.Err() != nil; got != c.opKilled {
				rt.Fatalf("connection %d: context of the running operation cancelled=%v, but killed=%v\n%s", c.id, got, c.opKilled, m.show())
			}
		}
	}
	if running > m.maxPar {
		m.maxPar = running
	}
	if tc := statusVar("Threads_connected") - m.baseTC; tc != uint64(len(m.conns)) {
		rt.Fatalf("Threads_connected = %d, %d connections are connected\n%s", int64(tc), len(m.conns), m.show())
	}
	if tr := statusVar("Threads_running") - m.baseTR; tr != uint64(running) {
		rt.Fatalf("Threads_running = %d, %d queries are running\n%s", int64(tr), running, m.show())
	}
}

func (m *machine) pick(rt *rapid.T, label string, pred func(*mconn) bool) *mconn {
	var ok []uint32
	for _, id := range m.order {
		if pred(m.conns[id]) {
			ok = append(ok, id)
		}
	}
	if len(ok) == 0 {
		rt.Skip("no connection in the required state")
	}
	return m.conns[rapid.SampledFrom(ok).Draw(rt, label)]
}

func idle(c *mconn) bool { return c.ready && !c.inQuery && !c.inOp }

var queryPool = []string{"SELECT 1", "select * from t", "INSERT INTO t VALUES (1)", "", "SELECT SLEEP(10)", "CALL p()"}
var tablePool = []string{"t", "u"}
var partPool = []string{"p0", "p1"}

func TestC37(t *testing.T) {
	st := stats.New("C37", "api")
	defer st.Flush()
	variables.InitStatusVariables()
	rapid.Check(t, func(rt *rapid.T) {
		st.Eval()
		maxConns := rapid.IntRange(1, 5).Draw(rt, "maxConns")
		m := &machine{pl: sqle.NewProcessList(), conns: map[uint32]*mconn{}, killed: map[uint32]bool{},
			baseTC: statusVar("Threads_connected"), baseTR: statusVar("Threads_running")}
		// pids and connection ids come from counters in the server (SessionManager.nextPid, the
		// listener's connection id); start them at drawn offsets
		m.nextID = rapid.Uint32Range(0, 3).Draw(rt, "firstID")
		m.nextPid = rapid.Uint64Range(0, 5).Draw(rt, "firstPid")

		actions := map[string]func(*rapid.T){
			// Handler.NewConnection -> SessionManager.AddConn
			"add": func(rt *rapid.T) {
				if len(m.conns) >= maxConns {
					rt.Skip("enough connections")
				}
				m.nextID++
				c := &mconn{id: m.nextID, addr: fmt.Sprintf("127.0.0.1:%d", 40000+m.nextID),
					user: rapid.SampledFrom([]string{"root", "alice", ""}).Draw(rt, "user"), host: "localhost"}
				c.sess = sql.NewBaseSessionWithClientServer("127.0.0.1:3306", sql.Client{User: c.user, Address: c.host}, c.id)
				m.pl.AddConnection(c.id, c.addr)
				m.conns[c.id] = c
				m.order = append(m.order, c.id)
				m.logf("AddConnection(%d, %q)", c.id, c.addr)
				if rapid.IntRange(0, 3).Draw(rt, "authNow") > 0 {
					// authentication normally follows at once (other connections' events can still
					// interleave when it does not)
					m.pl.ConnectionReady(c.sess)
					c.ready = true
					m.logf("ConnectionReady(%d)", c.id)
				}
			},
			// Handler.ConnectionAuthenticated -> SessionManager.ConnReady
			"ready": func(rt *rapid.T) {
				c := m.pick(rt, "c", func(c *mconn) bool { return !c.ready })
				m.pl.ConnectionReady(c.sess)
				c.ready = true
				m.logf("ConnectionReady(%d)", c.id)
			},
			// Handler.doQuery: BeginQuery(ctx from newContextAndWatch, query)
			"beginQuery": func(rt *rapid.T) {
				c := m.pick(rt, "c", idle)
				q := rapid.SampledFrom(queryPool).Draw(rt, "query")
				ctx := m.newCtx(c, q)
				nctx, err := m.pl.BeginQuery(ctx, q)
				m.logf("BeginQuery(conn %d, pid %d, %q) -> err=%v", c.id, ctx.Pid(), q, err)
				if err != nil {
					rt.Fatalf("BeginQuery failed on a protocol-conforming call: %v\n%s", err, m.show())
				}
				if m.killed[c.id] {
					m.killNew = true
				}
				c.inQuery, c.query, c.qctx, c.qKilled = true, q, nctx, false
			},
			// progress callbacks installed by analyzer/process.go on the running query's pid; also
			// with a pid that is not (or no longer) registered, which must be ignored
			"progress": func(rt *rapid.T) {
				c := m.pick(rt, "c", func(c *mconn) bool { return c.inQuery })
				pid := c.qctx.Pid()
				if rapid.IntRange(0, 5).Draw(rt, "stalePid") == 0 {
					pid = rapid.Uint64Range(0, m.nextPid+2).Draw(rt, "pid")
				}
				tbl, part := rapid.SampledFrom(tablePool).Draw(rt, "table"), rapid.SampledFrom(partPool).Draw(rt, "part")
				switch k := rapid.IntRange(0, 5).Draw(rt, "kind"); k {
				case 0:
					m.pl.AddTableProgress(pid, tbl, int64(rapid.IntRange(-1, 3).Draw(rt, "total")))
				case 1:
					m.pl.AddPartitionProgress(pid, tbl, part, -1)
				case 2:
					m.pl.UpdatePartitionProgress(pid, tbl, part, 1)
				case 3:
					m.pl.UpdateTableProgress(pid, tbl, 1)
				case 4:
					m.pl.RemovePartitionProgress(pid, tbl, part)
				case 5:
					m.pl.RemoveTableProgress(pid, tbl)
				}
				m.logf("progress call on pid %d (conn %d runs pid %d), table %s partition %s", pid, c.id, c.qctx.Pid(), tbl, part)
			},
			// the query ends: plan.TrackedRowIter calls EndQuery(ctx) when the result iterator is
			// closed (not for statements that fail before execution), then doQuery's deferred
			// EndQuery(ctx) runs with the same context
			"endQuery": func(rt *rapid.T) {
				c := m.pick(rt, "c", func(c *mconn) bool { return c.inQuery })
				n := rapid.IntRange(1, 2).Draw(rt, "calls")
				for i := 0; i < n; i++ {
					m.pl.EndQuery(c.qctx)
				}
				m.logf("EndQuery(conn %d, pid %d) x%d", c.id, c.qctx.Pid(), n)
				m.old = append(m.old, c.qctx)
				c.inQuery, c.query, c.qctx = false, "", nil
			},
			// ComPrepare / ComBind / SetDB: BeginOperation ... EndOperation
			"beginOp": func(rt *rapid.T) {
				c := m.pick(rt, "c", idle)
				ctx := m.newCtx(c, "")
				nctx, err := m.pl.BeginOperation(ctx)
				m.logf("BeginOperation(conn %d) -> err=%v", c.id, err)
				if err != nil {
					rt.Fatalf("BeginOperation failed on a protocol-conforming call: %v\n%s", err, m.show())
				}
				c.inOp, c.opctx, c.opKilled, c.opKillable = true, nctx, false, true
			},
			// SessionManager.SetDB calls ConnectionReady inside its operation (COM_INIT_DB)
			"opReady": func(rt *rapid.T) {
				c := m.pick(rt, "c", func(c *mconn) bool { return c.inOp })
				m.pl.ConnectionReady(c.sess)
				c.opKillable = false // the entry (with its cancel function) was replaced
				m.logf("ConnectionReady(%d) inside its operation (SetDB)", c.id)
			},
			"endOp": func(rt *rapid.T) {
				c := m.pick(rt, "c", func(c *mconn) bool { return c.inOp })
				m.pl.EndOperation(c.opctx)
				m.logf("EndOperation(conn %d)", c.id)
				m.old = append(m.old, c.opctx)
				c.inOp, c.opctx = false, nil
			},
			// KILL [QUERY|CONNECTION] id from any connection: ProcessList.Kill(id), any id
			"kill": func(rt *rapid.T) {
				id := rapid.Uint32Range(0, m.nextID+1).Draw(rt, "id")
				var busy []uint32
				for _, x := range m.order {
					if m.conns[x].inQuery || m.conns[x].inOp {
						busy = append(busy, x)
					}
				}
				switch k := rapid.IntRange(0, 7).Draw(rt, "target"); {
				case k >= 4 && len(busy) > 0:
					id = rapid.SampledFrom(busy).Draw(rt, "busyID")
				case k >= 1 && len(m.order) > 0:
					id = rapid.SampledFrom(m.order).Draw(rt, "liveID")
				}
				m.pl.Kill(id)
				m.logf("Kill(%d)", id)
				if c := m.conns[id]; c != nil {
					if c.inQuery {
						c.qKilled = true
						m.killed[id] = true
					}
					if c.inOp && c.opKillable {
						c.opKilled = true
					}
				}
			},
			// Handler.ConnectionClosed -> SessionManager.RemoveConn: after the command loop has
			// returned, i.e. never while the connection's own query or operation is running; also
			// for connections that never authenticated
			"remove": func(rt *rapid.T) {
				c := m.pick(rt, "c", func(c *mconn) bool { return !c.inQuery && !c.inOp })
				m.pl.RemoveConnection(c.id)
				m.logf("RemoveConnection(%d)", c.id)
				delete(m.conns, c.id)
				delete(m.killed, c.id)
				for i, id := range m.order {
					if id == c.id {
						m.order = append(m.order[:i:i], m.order[i+1:]...)
						break
					}
				}
			},
			"": m.check,
		}
		// weights: starting and killing work are what the property is about
		actions["beginQuery2"], actions["beginQuery3"], actions["kill2"] = actions["beginQuery"], actions["beginQuery"], actions["kill"]
		rt.Repeat(actions)

		// orderly shutdown: end everything, disconnect everybody, nothing may be left behind
		for _, id := range append([]uint32(nil), m.order...) {
			c := m.conns[id]
			if c.inQuery {
				m.pl.EndQuery(c.qctx)
				c.inQuery = false
			}
			if c.inOp {
				m.pl.EndOperation(c.opctx)
				c.inOp = false
			}
			m.check(rt)
			m.pl.RemoveConnection(id)
			delete(m.conns, id)
			m.order = m.order[1:]
			m.logf("shutdown: connection %d ended and removed", id)
			m.check(rt)
		}

		if m.maxPar >= 2 {
			st.Class("two-queries-at-once")
		}
		if m.killNew {
			st.Class("kill-then-new-query")
		}
		if m.maxPar >= 2 && m.killNew {
			st.NonTrivial(map[string]any{"history": m.trace}, m.trace)
		}
	})
}
