package c37

import (
	"fmt"
	"strings"
	"testing"
	"time"

	"github.com/dolthub/go-mysql-server/sql"
	"github.com/dolthub/go-mysql-server/sql/variables"
	"github.com/dolthub/go-mysql-server/vh/internal/stats"
	"pgregory.net/rapid"
)

var gateQueries = []string{
	"SELECT gate(%d)",
	"SELECT x, gate(%d) FROM t WHERE x = 1",
	"SELECT /* c37 */ count(*) FROM t WHERE x = 2 AND gate(%d) = 1",
	"CALL pg(%d)", // stored procedure: an inner statement completes before the one that blocks
}

// wireCase is one wire-level scenario: a real server, 2-4 client connections driven by one
// goroutine; statements blocked in a gate run in their own goroutine and are joined through
// a channel.
type wireCase struct {
	st     *stats.Collector
	w      *wsrv
	slots  []*wclient
	trace  []string
	gone   int64 // connection tear-downs awaited so far
	nextK  int64
	baseTC uint64
	baseTR uint64

	maxBlocked     int
	killedThenNew  bool
	killedRunning  map[uint32]bool
	bystanderAlive bool // a kill happened while another client stayed blocked and later finished normally
}

func (wc *wireCase) logf(f string, a ...any) { wc.trace = append(wc.trace, fmt.Sprintf(f, a...)) }
func (wc *wireCase) show() string            { return "history:\n  " + strings.Join(wc.trace, "\n  ") }

func (wc *wireCase) live(pred func(*wclient) bool) []int {
	var l []int
	for i, c := range wc.slots {
		if c != nil && (pred == nil || pred(c)) {
			l = append(l, i)
		}
	}
	return l
}

func isIdle(c *wclient) bool    { return c.pending == nil }
func isBlocked(c *wclient) bool { return c.pending != nil }

func (wc *wireCase) pick(rt *rapid.T, label string, pred func(*wclient) bool) (int, *wclient) {
	l := wc.live(pred)
	if len(l) == 0 {
		rt.Skip("no client in the required state")
	}
	i := rapid.SampledFrom(l).Draw(rt, label)
	return i, wc.slots[i]
}

// startGate sends a statement that blocks in gate k and waits until it is known to run.
func (wc *wireCase) startGate(c *wclient, variant int) {
	wc.nextK++
	c.gateK = wc.nextK
	c.gateQ = fmt.Sprintf(gateQueries[variant], c.gateK)
	c.pending = make(chan qres, 1)
	go func(q string, ch chan qres) { ch <- c.query(q) }(c.gateQ, c.pending)
	select {
	case <-wc.w.gates.get(c.gateK).entered:
	case r := <-c.pending:
		// the statement ended without ever reaching the gate: report through the normal path
		c.pending = make(chan qres, 1)
		c.pending <- r
	case <-time.After(watchdog):
		inconclusive(wc.st, "statement %q never started executing", c.gateQ)
	}
}

// await joins the background statement of c.
func (wc *wireCase) await(c *wclient) qres {
	select {
	case r := <-c.pending:
		c.pending = nil
		return r
	case <-time.After(watchdog):
		inconclusive(wc.st, "statement %q on connection %d did not return", c.gateQ, c.id)
	}
	return qres{}
}

// checkKilled is evaluated right after a KILL statement naming connection target returned OK.
// ProcessList.Kill cancels synchronously before the KILL statement produces its result, so at
// this point - without waiting for anything - the context of the statement running on the
// target must be cancelled, and the context of every other running statement must not be.
func (wc *wireCase) checkKilled(rt *rapid.T, q string, target uint32) {
	for _, i := range wc.live(isBlocked) {
		c := wc.slots[i]
		g := wc.w.gates.get(c.gateK)
		select {
		case <-g.entered:
		default:
			continue // ended without reaching its gate; reported by the normal path
		}
		switch got := g.cancelled(); {
		case c.id == target && !got:
			rt.Fatalf("%s returned OK but the context of %q, running on connection %d, is not cancelled\n%s", q, c.gateQ, c.id, wc.show())
		case c.id != target && got:
			rt.Fatalf("%s cancelled %q running on connection %d, which was not the target\n%s", q, c.gateQ, c.id, wc.show())
		}
	}
}

// checkpoint compares the server's view with the model at a quiescent point.
func (wc *wireCase) checkpoint(rt *rapid.T) {
	// barrier on every idle connection: its previous command has completely finished
	for _, i := range wc.live(isIdle) {
		if err := wc.slots[i].ping(); err != nil {
			rt.Fatalf("ping on idle connection %d failed: %v\n%s", wc.slots[i].id, err, wc.show())
		}
	}
	want := map[uint32]*wclient{}
	blocked := 0
	for _, i := range wc.live(nil) {
		want[wc.slots[i].id] = wc.slots[i]
		if isBlocked(wc.slots[i]) {
			blocked++
		}
	}
	if blocked > wc.maxBlocked {
		wc.maxBlocked = blocked
	}
	procs := wc.w.engine.ProcessList.Processes()
	seen := map[uint32]bool{}
	for _, p := range procs {
		c := want[p.Connection]
		if c == nil {
			rt.Fatalf("process list shows connection %d, which is not connected\n%s", p.Connection, wc.show())
		}
		seen[p.Connection] = true
		wantCmd, wantQ := sql.ProcessCommandSleep, ""
		if isBlocked(c) {
			wantCmd, wantQ = sql.ProcessCommandQuery, c.gateQ
		}
		if p.Command != wantCmd || p.Query != wantQ {
			rt.Fatalf("connection %d: process list shows Command=%q Query=%q, expected Command=%q Query=%q\n%s", c.id, p.Command, p.Query, wantCmd, wantQ, wc.show())
		}
	}
	if len(seen) != len(want) || len(procs) != len(want) {
		rt.Fatalf("process list has %d entries (%v), connected are %d\n%s", len(procs), seen, len(want), wc.show())
	}
	if tc := statusVar("Threads_connected") - wc.baseTC; tc != uint64(len(want)) {
		rt.Fatalf("Threads_connected = %d, %d clients are connected\n%s", int64(tc), len(want), wc.show())
	}
	if tr := statusVar("Threads_running") - wc.baseTR; tr != uint64(blocked) {
		rt.Fatalf("Threads_running = %d, %d statements are running\n%s", int64(tr), blocked, wc.show())
	}
	// the same through the wire, from an idle client (whose own statement is then running)
	idle := wc.live(isIdle)
	if len(idle) == 0 {
		return
	}
	obs := wc.slots[idle[0]]
	r := obs.query("SHOW PROCESSLIST")
	if r.err != nil {
		rt.Fatalf("SHOW PROCESSLIST failed: %v\n%s", r.err, wc.show())
	}
	seen = map[uint32]bool{}
	for _, row := range r.rows {
		var id uint32
		fmt.Sscan(row[0], &id)
		c := want[id]
		if c == nil || seen[id] {
			rt.Fatalf("SHOW PROCESSLIST row %v: connection not connected or listed twice\n%s", row, wc.show())
		}
		seen[id] = true
		wantCmd, wantInfo := "Sleep", ""
		if isBlocked(c) {
			wantCmd, wantInfo = "Query", c.gateQ
		} else if c == obs {
			wantCmd, wantInfo = "Query", "SHOW PROCESSLIST"
		}
		info := row[7]
		if info == "NULL" {
			info = ""
		}
		if row[4] != wantCmd || info != wantInfo {
			rt.Fatalf("SHOW PROCESSLIST row %v: expected Command=%q Info=%q\n%s", row, wantCmd, wantInfo, wc.show())
		}
	}
	if len(seen) != len(want) {
		rt.Fatalf("SHOW PROCESSLIST returned %d rows, %d clients are connected\n%s", len(r.rows), len(want), wc.show())
	}
}

func (wc *wireCase) drop(i int) {
	c := wc.slots[i]
	c.dc.Close()
	wc.slots[i] = nil
	delete(wc.killedRunning, c.id)
}

// TestC37Wire — part B: KILL QUERY / KILL CONNECTION / disconnects against a real server.
func TestC37Wire(t *testing.T) {
	st := stats.New("C37", "wire")
	defer st.Flush()
	variables.InitStatusVariables()
	rapid.Check(t, func(rt *rapid.T) {
		st.Eval()
		baseTC, baseTR := statusVar("Threads_connected"), statusVar("Threads_running")
		w, err := startServer()
		if err != nil {
			rt.Fatalf("harness: cannot start server: %v", err)
		}
		wc := &wireCase{st: st, w: w, baseTC: baseTC, baseTR: baseTR, killedRunning: map[uint32]bool{}}
		nSlots := rapid.IntRange(2, 4).Draw(rt, "clients")
		wc.slots = make([]*wclient, nSlots)
		defer func() {
			// teardown on every path: open all gates, close all sockets, join the server
			// (a driver connection is used by one goroutine at a time: a statement still running in
			// the background is joined before the connection object is closed)
			for _, c := range wc.slots {
				if c != nil {
					if c.pending != nil {
						w.gates.get(c.gateK).open()
						c.raw.Close()
						select {
						case <-c.pending:
						case <-time.After(watchdog):
							inconclusive(st, "teardown: statement %q on connection %d did not return", c.gateQ, c.id)
						}
						c.pending = nil
					}
					c.raw.Close()
					c.dc.Close()
				}
			}
			w.stop(st)
		}()
		for i := range wc.slots {
			if wc.slots[i], err = w.connect("root"); err != nil {
				rt.Fatalf("harness: connect: %v", err)
			}
			wc.logf("client %d connected with id %d", i, wc.slots[i].id)
		}

		actions := map[string]func(*rapid.T){
			"connect": func(rt *rapid.T) {
				for i, c := range wc.slots {
					if c == nil {
						if wc.slots[i], err = w.connect("root"); err != nil {
							rt.Fatalf("harness: connect: %v\n%s", err, wc.show())
						}
						wc.logf("client %d connected with id %d", i, wc.slots[i].id)
						return
					}
				}
				rt.Skip("all slots connected")
			},
			"start": func(rt *rapid.T) {
				i, c := wc.pick(rt, "c", isIdle)
				wc.startGate(c, rapid.IntRange(0, len(gateQueries)-1).Draw(rt, "variant"))
				wc.logf("client %d (id %d): %q is running (blocked in its gate)", i, c.id, c.gateQ)
				if wc.killedRunning[c.id] {
					wc.killedThenNew = true
				}
			},
			"release": func(rt *rapid.T) {
				i, c := wc.pick(rt, "c", isBlocked)
				w.gates.get(c.gateK).open()
				r := wc.await(c)
				wc.logf("client %d (id %d): gate opened, %q -> rows=%v err=%v", i, c.id, c.gateQ, r.rows, r.err)
				// never killed (a killed statement is awaited by the kill step): must complete normally
				if r.err != nil || len(r.rows) != 1 {
					rt.Fatalf("connection %d: statement %q was never killed but returned rows=%v err=%v\n%s", c.id, c.gateQ, r.rows, r.err, wc.show())
				}
			},
			"simple": func(rt *rapid.T) {
				i, c := wc.pick(rt, "c", isIdle)
				r := c.query("SELECT 1 + 1")
				wc.logf("client %d (id %d): SELECT 1 + 1 -> rows=%v err=%v", i, c.id, r.rows, r.err)
				if r.err != nil || len(r.rows) != 1 || r.rows[0][0] != "2" {
					rt.Fatalf("connection %d: SELECT 1 + 1 returned rows=%v err=%v\n%s", c.id, r.rows, r.err, wc.show())
				}
			},
			"killQuery": func(rt *rapid.T) {
				ki, killer := wc.pick(rt, "killer", isIdle)
				pred := isBlocked
				if len(wc.live(isBlocked)) == 0 || rapid.IntRange(0, 3).Draw(rt, "idleVictim") == 0 {
					pred = nil
				}
				vi, victim := wc.pick(rt, "victim", pred)
				if victim == killer {
					rt.Skip("self") // KILL QUERY of the own connection interrupts the KILL statement itself
				}
				target := victim.id
				if rapid.IntRange(0, 9).Draw(rt, "unknownID") == 0 {
					target, victim = 1000+uint32(rapid.IntRange(0, 5).Draw(rt, "id")), nil
				}
				q := fmt.Sprintf("KILL QUERY %d", target)
				r := killer.query(q)
				wc.logf("client %d (id %d): %s -> err=%v", ki, killer.id, q, r.err)
				if r.err != nil {
					rt.Fatalf("%s failed: %v\n%s", q, r.err, wc.show())
				}
				wc.checkKilled(rt, q, target)
				if victim != nil && isBlocked(victim) {
					others := len(wc.live(isBlocked)) - 1
					res := wc.await(victim)
					wc.logf("client %d (id %d): killed statement %q -> rows=%v err=%v", vi, victim.id, victim.gateQ, res.rows, res.err)
					if res.err == nil {
						rt.Fatalf("connection %d: %q was killed while it was running (its gate was never opened) but completed without error: rows=%v\n%s",
							victim.id, victim.gateQ, res.rows, wc.show())
					}
					wc.killedRunning[victim.id] = true
					if others > 0 {
						wc.bystanderAlive = true
					}
				}
			},
			"killConn": func(rt *rapid.T) {
				ki, killer := wc.pick(rt, "killer", isIdle)
				vi, victim := wc.pick(rt, "victim", nil)
				if victim == killer {
					rt.Skip("self")
				}
				q := fmt.Sprintf("%s %d", rapid.SampledFrom([]string{"KILL CONNECTION", "KILL"}).Draw(rt, "form"), victim.id)
				r := killer.query(q)
				wc.logf("client %d (id %d): %s -> err=%v", ki, killer.id, q, r.err)
				if r.err != nil {
					rt.Fatalf("%s failed: %v\n%s", q, r.err, wc.show())
				}
				wc.checkKilled(rt, q, victim.id)
				if isBlocked(victim) {
					res := wc.await(victim)
					wc.logf("client %d (id %d): statement %q on the killed connection -> rows=%v err=%v", vi, victim.id, victim.gateQ, res.rows, res.err)
					if res.err == nil {
						rt.Fatalf("connection %d was killed while %q was running but the statement completed without error\n%s", victim.id, victim.gateQ, wc.show())
					}
				}
				wc.gone++
				w.waitDisconnected(st, wc.gone)
				wc.logf("server finished closing connection %d", victim.id)
				wc.drop(vi)
			},
			"disconnect": func(rt *rapid.T) {
				i, c := wc.pick(rt, "c", nil)
				how := rapid.SampledFrom([]string{"quit", "abort"}).Draw(rt, "how")
				if isBlocked(c) || how == "abort" {
					// the socket goes away (while a statement runs: the server's disconnect watch
					// cancels it)
					c.raw.Close()
					if isBlocked(c) {
						wc.await(c)
					}
					how = "abort"
				}
				id := c.id
				wc.drop(i)
				wc.gone++
				w.waitDisconnected(st, wc.gone)
				wc.logf("client %d (id %d): disconnected (%s); server finished closing it", i, id, how)
			},
			"": wc.checkpoint,
		}
		// weights: starting and killing statements are what the property is about
		actions["start2"], actions["start3"], actions["killQuery2"] = actions["start"], actions["start"], actions["killQuery"]
		rt.Repeat(actions)

		// wind down: open all gates (never-killed statements must complete), everybody leaves
		for _, i := range wc.live(isBlocked) {
			c := wc.slots[i]
			w.gates.get(c.gateK).open()
			r := wc.await(c)
			wc.logf("client %d (id %d): gate opened at the end, %q -> rows=%v err=%v", i, c.id, c.gateQ, r.rows, r.err)
			if r.err != nil || len(r.rows) != 1 {
				rt.Fatalf("connection %d: statement %q was never killed but returned rows=%v err=%v\n%s", c.id, c.gateQ, r.rows, r.err, wc.show())
			}
		}
		wc.checkpoint(rt)
		for _, i := range wc.live(nil) {
			wc.drop(i)
			wc.gone++
		}
		w.waitDisconnected(st, wc.gone)
		wc.logf("all clients disconnected")
		wc.checkpoint(rt)

		if wc.maxBlocked >= 2 {
			st.Class("two-statements-running")
		}
		if wc.killedThenNew {
			st.Class("kill-query-then-new-statement")
		}
		if wc.bystanderAlive {
			st.Class("kill-with-running-bystander")
		}
		if wc.maxBlocked >= 2 && wc.killedThenNew {
			st.NonTrivial(map[string]any{"clients": nSlots, "history": wc.trace}, wc.trace)
		}
	})
}
