// Package c22 checks property C22: the statement printed by SHOW CREATE TABLE / VIEW /
// TRIGGER / PROCEDURE re-creates an object whose SHOW CREATE output is identical and which
// behaves the same. The engine is only ever compared with itself.
package c22

import (
	"fmt"
	"os"
	"strings"
	"testing"

	"github.com/dolthub/go-mysql-server/vh/internal/fx"
	"github.com/dolthub/go-mysql-server/vh/internal/kf"
	"github.com/dolthub/go-mysql-server/vh/internal/stats"
	"pgregory.net/rapid"
)

// Proposed known-finding ids (see notes/C22.md).
const (
	kfEnumSetDefault  = "C22-enum-set-default-index"
	kfIdxCommentQuote = "C22-index-comment-unescaped"
	kfCheckTickIdent  = "C22-check-expr-backtick-ident"
	kfMemberBackslash = "C22-enum-set-member-backslash"
	// one root cause (SHOW CREATE TABLE does not look through the VirtualColumnTable wrapper),
	// three symptoms: CHECK constraints, table comment and primary-key column order are lost
	kfVirtual = "C22-virtual-column-show-create-incomplete"
)

var parentSetup = []string{
	"CREATE TABLE p (id INT PRIMARY KEY, u INT, w VARCHAR(8), UNIQUE KEY pu (u), KEY pw (w))",
	"INSERT INTO p VALUES (1,1,'a'),(2,2,'b'),(3,NULL,'c'),(5,5,'e')",
}

func newFixture(fail func(string, ...any), setup []string) (*fx.Fixture, *fx.Sess) {
	f := fx.New(fx.Opts{Root: true})
	s := f.NewSession("", "", "")
	s.MustExec(fail, setup...)
	return f, s
}

// outcome is the comparable form of a statement result: class for failures, normalised
// rows (as a sorted multiset) for successes. Error texts are not compared.
func outcome(r *fx.Result) string {
	switch {
	case r.Panic != nil:
		return "PANIC"
	case r.TimedOut:
		return "TIMEOUT"
	case r.Err != nil:
		return "ERR"
	}
	return fx.Show(fx.NormRows(r.Schema, r.Rows))
}

func showCreate(s *fx.Sess, what, name string, col int) (string, *fx.Result) {
	r := s.Exec("SHOW CREATE " + what + " " + qid(name))
	if !r.OK() || len(r.Rows) != 1 || len(r.Rows[0]) <= col {
		return "", r
	}
	str, ok := r.Rows[0][col].(string)
	if !ok {
		return fmt.Sprint(r.Rows[0][col]), r
	}
	return str, r
}

// probePlan is the generated part of the probe battery: DML statements executed against
// both the original and the re-created table.
type probePlan struct {
	DML []string
}

func drawPlan(rt *rapid.T, td *tableDef) *probePlan {
	pl := &probePlan{}
	var insertable []int
	for i := range td.Cols {
		if td.Cols[i].Gen == "" {
			insertable = append(insertable, i)
		}
	}
	n := rapid.IntRange(4, 9).Draw(rt, "ninserts")
	for k := 0; k < n; k++ {
		var cols, vals []string
		for _, ci := range insertable {
			c := &td.Cols[ci]
			if rapid.IntRange(0, 3).Draw(rt, "omit") == 0 {
				continue
			}
			cols = append(cols, qid(c.Name))
			vals = append(vals, rapid.SampledFrom(valuePool(c)).Draw(rt, "val"))
		}
		verb := "INSERT"
		if rapid.IntRange(0, 7).Draw(rt, "ignore") == 0 {
			verb = "INSERT IGNORE"
		}
		pl.DML = append(pl.DML, fmt.Sprintf("%s INTO %s (%s) VALUES (%s)", verb, qid(td.Name), strings.Join(cols, ", "), strings.Join(vals, ", ")))
	}
	// updates (ON UPDATE columns, unique keys, checks, FK actions)
	nu := rapid.IntRange(0, 2).Draw(rt, "nupdates")
	for k := 0; k < nu && len(insertable) > 0; k++ {
		ci := rapid.SampledFrom(insertable).Draw(rt, "ucol")
		c := &td.Cols[ci]
		if c.Volatile {
			// the number of rows changed by SET c = <now> depends on the wall clock
			continue
		}
		pl.DML = append(pl.DML, fmt.Sprintf("UPDATE %s SET %s = %s", qid(td.Name), qid(c.Name), rapid.SampledFrom(valuePool(c)).Draw(rt, "uval")))
	}
	if len(td.FKs) > 0 {
		pl.DML = append(pl.DML, rapid.SampledFrom([]string{
			"DELETE FROM p WHERE id = 1", "UPDATE p SET u = 9 WHERE id = 2", "UPDATE p SET id = 7 WHERE id = 5", "DELETE FROM p WHERE u = 2",
		}).Draw(rt, "parentdml"))
	}
	return pl
}

// contentQuery selects every column; columns whose value depends on the wall clock
// (DEFAULT/ON UPDATE CURRENT_TIMESTAMP) are reduced to their NULL-ness.
func contentQuery(td *tableDef) string {
	var sel []string
	for i := range td.Cols {
		c := &td.Cols[i]
		if c.Volatile {
			sel = append(sel, "("+qid(c.Name)+" IS NULL)")
		} else {
			sel = append(sel, qid(c.Name))
		}
	}
	return "SELECT " + strings.Join(sel, ", ") + " FROM " + qid(td.Name)
}

type probeResult struct {
	Label   string
	Outcome string
}

func battery(s *fx.Sess, td *tableDef, pl *probePlan) []probeResult {
	var out []probeResult
	poisoned := false
	run := func(q string) {
		if poisoned {
			return
		}
		r := s.Exec(q)
		out = append(out, probeResult{q, outcome(r)})
		if r.Panic != nil || r.TimedOut {
			poisoned = true
		}
	}
	tn := qstr(td.Name)
	meta := func() {
		run("DESCRIBE " + qid(td.Name))
		run("SHOW FULL COLUMNS FROM " + qid(td.Name))
		run("SHOW INDEX FROM " + qid(td.Name))
		run("SELECT * FROM information_schema.COLUMNS WHERE TABLE_SCHEMA = 'd' AND TABLE_NAME = " + tn)
		run("SELECT * FROM information_schema.STATISTICS WHERE TABLE_SCHEMA = 'd' AND TABLE_NAME = " + tn)
		run("SELECT * FROM information_schema.TABLE_CONSTRAINTS WHERE TABLE_SCHEMA = 'd' AND TABLE_NAME = " + tn)
		run("SELECT * FROM information_schema.KEY_COLUMN_USAGE WHERE TABLE_SCHEMA = 'd' AND TABLE_NAME = " + tn)
		run("SELECT * FROM information_schema.REFERENTIAL_CONSTRAINTS WHERE CONSTRAINT_SCHEMA = 'd' AND TABLE_NAME = " + tn)
		run("SELECT cc.* FROM information_schema.CHECK_CONSTRAINTS cc JOIN information_schema.TABLE_CONSTRAINTS tc ON cc.CONSTRAINT_SCHEMA = tc.CONSTRAINT_SCHEMA AND cc.CONSTRAINT_NAME = tc.CONSTRAINT_NAME WHERE tc.TABLE_SCHEMA = 'd' AND tc.TABLE_NAME = " + tn)
		run("SELECT TABLE_NAME, TABLE_TYPE, ENGINE, ROW_FORMAT, AUTO_INCREMENT, TABLE_COLLATION, TABLE_COMMENT, CREATE_OPTIONS FROM information_schema.TABLES WHERE TABLE_SCHEMA = 'd' AND TABLE_NAME = " + tn)
	}
	meta()
	for _, q := range pl.DML {
		run(q)
	}
	run(contentQuery(td))
	if len(td.FKs) > 0 {
		run("SELECT * FROM p")
	}
	for i := range td.Cols {
		c := &td.Cols[i]
		if c.T.isString() || c.T.Class == "enum" || c.T.Class == "set" {
			run(fmt.Sprintf("SELECT COUNT(*) FROM %s WHERE %s = 'A'", qid(td.Name), qid(c.Name)))
			run(fmt.Sprintf("SELECT COUNT(*) FROM %s WHERE %s = 'a '", qid(td.Name), qid(c.Name)))
		}
	}
	// SHOW CREATE after the DML (AUTO_INCREMENT counter)
	run("SHOW CREATE TABLE " + qid(td.Name))
	return out
}

// diffBattery compares two battery runs. A panic or timeout inside a probe statement is
// not a C22 matter (C10 owns crashes) and some of the engine's panics are not
// deterministic, so the comparison stops at the first probe that crashed on either side.
func diffBattery(a, b []probeResult, st *stats.Collector) string {
	crashed := func(o string) bool { return o == "PANIC" || o == "TIMEOUT" }
	for i := range a {
		if crashed(a[i].Outcome) || (i < len(b) && crashed(b[i].Outcome)) {
			st.Class("battery-truncated-by-engine-panic")
			return ""
		}
		if i >= len(b) {
			return fmt.Sprintf("probe %d %q: missing on the re-created object", i, a[i].Label)
		}
		if a[i].Outcome != b[i].Outcome {
			return fmt.Sprintf("probe %q:\n   original:   %s\n   re-created: %s", a[i].Label, a[i].Outcome, b[i].Outcome)
		}
	}
	if len(b) > len(a) {
		return fmt.Sprintf("probe %d %q: missing on the original object", len(a), b[len(a)].Label)
	}
	return ""
}

// tableSignatures returns the ids of the proposed known findings whose (narrow) signature
// matches the definition.
func tableSignatures(td *tableDef) []string {
	var ids []string
	for i := range td.Cols {
		c := &td.Cols[i]
		if c.DefKind == "default-enum" || c.DefKind == "default-set" {
			ids = append(ids, kfEnumSetDefault)
			break
		}
	}
	for _, k := range td.Keys {
		if k.Comment != nil && strings.ContainsAny(*k.Comment, `'\`) {
			ids = append(ids, kfIdxCommentQuote)
			break
		}
	}
	if td.hasVirtual() && (td.hasChecks() || td.pkOutOfOrder() || td.Comment != "") {
		ids = append(ids, kfVirtual)
	}
	for i := range td.Cols {
		if strings.Contains(strings.Join(td.Cols[i].T.Members, ""), `\`) {
			ids = append(ids, kfMemberBackslash)
			break
		}
	}
	for i := range td.Cols {
		if td.Cols[i].ColCheck != "" && strings.Contains(td.Cols[i].Name, "`") {
			return append(ids, kfCheckTickIdent)
		}
	}
	for _, c := range td.Checks {
		for _, ci := range c.Cols {
			if strings.Contains(td.Cols[ci].Name, "`") {
				ids = append(ids, kfCheckTickIdent)
				return ids
			}
		}
	}
	return ids
}

// violation reports a violation unless it matches the signature of a listed finding, in
// which case it returns true and the caller abandons the case.
func violation(rt *rapid.T, st *stats.Collector, sigs []string, format string, args ...any) bool {
	for _, id := range sigs {
		if kf.Suppress(st, id) {
			st.Class("known:" + id)
			return true
		}
	}
	rt.Fatalf(format, args...)
	return false
}

func thorough() bool { return os.Getenv("VERIF_TIER") == "thorough" }

func TestC22(t *testing.T) {
	st := stats.New("C22", "table")
	defer st.Flush()
	opts := &genOpts{
		noEnumSetDefault:  kf.Listed(kfEnumSetDefault),
		noIdxCommentQuote: kf.Listed(kfIdxCommentQuote),
		noCheckTickIdent:  kf.Listed(kfCheckTickIdent),
		noVirtualChecks:   kf.Listed(kfVirtual),
		noMemberBackslash: kf.Listed(kfMemberBackslash),
		noVirtualComment:  kf.Listed(kfVirtual),
		noVirtualPKOrder:  kf.Listed(kfVirtual),
		exclude:           st.Excluded,
	}
	rapid.Check(t, func(rt *rapid.T) {
		st.Eval()
		td := drawTable(rt, opts)
		pl := drawPlan(rt, td)
		if td.virtualBeforeKeyColumn() {
			// DML on these tables is not reproducible in the engine itself (see virtualBeforeKeyColumn);
			// the SHOW CREATE round trip and the metadata probes are still compared
			pl = &probePlan{}
			st.Class("dml-skipped:virtual-column-before-key-column")
		}
		redoInPlace := rapid.Bool().Draw(rt, "redoInPlace")
		create := td.render()
		sigs := tableSignatures(td)

		fa, sa := newFixture(rt.Fatalf, parentSetup)
		defer fa.Close()
		r := sa.Exec(create)
		if !r.OK() {
			// definitions the engine rejects at first creation are discarded (counted)
			if r.Panic != nil {
				st.Class("discarded:create-panic")
			} else {
				st.Class("discarded:create-rejected")
				if os.Getenv("C22_DEBUG") != "" {
					e := r.Err.Error()
					if len(e) > 50 {
						e = e[:50]
					}
					st.Class("rej:" + e)
					if strings.HasPrefix(e, "syntax") {
						fmt.Println("SYNTAX", r.Err, "\n", create)
					}
				}
			}
			return
		}
		s1, sr := showCreate(sa, "TABLE", td.Name, 1)
		if s1 == "" {
			if violation(rt, st, sigs, "SHOW CREATE TABLE failed on a table that was created: %s\n%s", sr, create) {
				return
			}
		}

		fb, sb := newFixture(rt.Fatalf, parentSetup)
		defer fb.Close()
		r2 := sb.Exec(s1)
		if !r2.OK() {
			if violation(rt, st, sigs, "SHOW CREATE TABLE output is rejected by the engine: %s\n--- original definition\n%s\n--- SHOW CREATE output\n%s", r2, create, s1) {
				return
			}
		}
		s2, sr2 := showCreate(sb, "TABLE", td.Name, 1)
		if s2 == "" {
			if violation(rt, st, sigs, "SHOW CREATE TABLE failed on the re-created table: %s\n%s", sr2, s1) {
				return
			}
		}
		if s1 != s2 {
			if violation(rt, st, sigs, "SHOW CREATE TABLE is not idempotent\n--- original definition\n%s\n--- s1\n%s\n--- s2 (after executing s1)\n%s", create, s1, s2) {
				return
			}
		}
		ba := battery(sa, td, pl)
		bb := battery(sb, td, pl)
		if d := diffBattery(ba, bb, st); d != "" {
			if violation(rt, st, sigs, "re-created table behaves differently: %s\n--- original definition\n%s\n--- SHOW CREATE output\n%s", d, create, s1) {
				return
			}
		}
		if redoInPlace {
			// the route a user takes: drop the object and execute the printed statement in
			// the same (used) catalog
			if r := sa.Exec("DROP TABLE " + qid(td.Name)); r.OK() {
				r3 := sa.Exec(s1)
				if !r3.OK() {
					if violation(rt, st, sigs, "SHOW CREATE TABLE output is rejected after DROP TABLE: %s\n%s", r3, s1) {
						return
					}
				}
				s3, _ := showCreate(sa, "TABLE", td.Name, 1)
				if s3 != s1 {
					if violation(rt, st, sigs, "SHOW CREATE TABLE differs after DROP + re-create in place\n--- s1\n%s\n--- s3\n%s", s1, s3) {
						return
					}
				}
				st.Class("redo-in-place")
			}
		}
		st.Class("recreated")
		for _, k := range td.kindList() {
			st.Class("opt:" + k)
		}
		if len(td.Kinds) >= 3 {
			st.NonTrivial(map[string]any{"create": create, "show_create": s1, "option_kinds": td.kindList()}, create)
		}
	})
}
