package c22

import (
	"fmt"
	"sort"
	"strings"

	"pgregory.net/rapid"
)

// ---------------------------------------------------------------------------------------
// rendering helpers

func qid(id string) string { return "`" + strings.ReplaceAll(id, "`", "``") + "`" }

// qstr renders a SQL string literal (default sql_mode: backslash is an escape character).
func qstr(s string) string {
	s = strings.ReplaceAll(s, `\`, `\\`)
	s = strings.ReplaceAll(s, `'`, `''`)
	return "'" + s + "'"
}

// ---------------------------------------------------------------------------------------
// model of a generated CREATE TABLE

type colType struct {
	SQL      string // as written in the definition (without charset/collation)
	Class    string // int dec float str text bin blob date datetime timestamp time year enum set bit json geom bool
	Unsigned bool
	Fsp      int
	Members  []string
	Len      int
}

func (t colType) isString() bool { return t.Class == "str" || t.Class == "text" }
func (t colType) isNumeric() bool {
	return t.Class == "int" || t.Class == "dec" || t.Class == "float" || t.Class == "bool"
}

// keyable without a prefix length
func (t colType) keyable() bool {
	switch t.Class {
	case "text", "blob", "json", "geom":
		return false
	}
	return true
}

type column struct {
	Name     string
	T        colType
	Charset  string
	Collate  string
	NullSpec string // "", "NULL", "NOT NULL"
	Default  string // SQL text after DEFAULT, "" = none
	DefKind  string
	OnUpdate string // SQL text after ON UPDATE
	AutoInc  bool
	Comment  *string
	Gen      string // generation expression incl. parentheses
	GenKind  string // "", "STORED", "VIRTUAL"
	Inline   string // "", "PRIMARY KEY", "UNIQUE", "UNIQUE KEY"
	ColCheck string // column-level CHECK clause text
	SRID     string
	Volatile bool // value depends on the wall clock
	DependsV bool
}

type keyPart struct {
	Col    int
	Prefix int
	Dir    string
}

type keyDef struct {
	Kind    string // PRIMARY, UNIQUE, KEY, FULLTEXT, SPATIAL
	Name    string // "" = unnamed
	Parts   []keyPart
	Comment *string
}

type checkDef struct {
	Name        string
	Expr        string
	NotEnforced bool
	Cols        []int
}

type fkDef struct {
	Name      string
	Col       int
	Parent    string
	ParentCol string
	OnDelete  string
	OnUpdate  string
}

type tableDef struct {
	Name    string
	Cols    []column
	Keys    []keyDef
	Checks  []checkDef
	FKs     []fkDef
	Options []string // rendered table options
	Comment string   // table comment ("" = none or empty)
	Kinds   map[string]bool
}

func (td *tableDef) kind(k string) { td.Kinds[k] = true }

func (td *tableDef) hasVirtual() bool {
	for i := range td.Cols {
		if td.Cols[i].Gen != "" && td.Cols[i].GenKind != "STORED" {
			return true
		}
	}
	return false
}

// virtualBeforeKeyColumn: some VIRTUAL generated column is declared before a column that is part of a
// key (primary, unique, secondary, inline or foreign key). On such tables the in-memory engine computes
// key values from the stored row with shifted ordinals: key uniqueness is not enforced and UPDATE
// duplicates rows, not reproducibly (a defect of key maintenance, properties C14/C18, reported in
// notes/C22.md; not a SHOW CREATE matter). The DML part of the battery is skipped for them.
func (td *tableDef) virtualBeforeKeyColumn() bool {
	first := -1
	for i := range td.Cols {
		if td.Cols[i].Gen != "" && td.Cols[i].GenKind != "STORED" {
			first = i
			break
		}
	}
	if first < 0 {
		return false
	}
	for i := first + 1; i < len(td.Cols); i++ {
		if td.Cols[i].Inline != "" || td.Cols[i].AutoInc {
			return true
		}
	}
	for _, k := range td.Keys {
		for _, p := range k.Parts {
			if p.Col > first {
				return true
			}
		}
	}
	for _, f := range td.FKs {
		if f.Col > first {
			return true
		}
	}
	return false
}

// pkOutOfOrder: a composite primary key whose columns are not listed in schema order.
func (td *tableDef) pkOutOfOrder() bool {
	for _, k := range td.Keys {
		if k.Kind == "PRIMARY" {
			for i := 1; i < len(k.Parts); i++ {
				if k.Parts[i].Col < k.Parts[i-1].Col {
					return true
				}
			}
		}
	}
	return false
}

func (td *tableDef) hasChecks() bool {
	for i := range td.Cols {
		if td.Cols[i].ColCheck != "" {
			return true
		}
	}
	return len(td.Checks) > 0
}

func (td *tableDef) kindList() []string {
	ks := make([]string, 0, len(td.Kinds))
	for k := range td.Kinds {
		ks = append(ks, k)
	}
	sort.Strings(ks)
	return ks
}

func (c *column) render() string {
	var sb strings.Builder
	sb.WriteString(qid(c.Name))
	sb.WriteByte(' ')
	sb.WriteString(c.T.SQL)
	if c.Charset != "" {
		sb.WriteString(" CHARACTER SET " + c.Charset)
	}
	if c.Collate != "" {
		sb.WriteString(" COLLATE " + c.Collate)
	}
	if c.Gen != "" {
		sb.WriteString(" GENERATED ALWAYS AS " + c.Gen)
		if c.GenKind != "" {
			sb.WriteString(" " + c.GenKind)
		}
	}
	if c.NullSpec != "" {
		sb.WriteString(" " + c.NullSpec)
	}
	if c.SRID != "" {
		sb.WriteString(" SRID " + c.SRID)
	}
	if c.Default != "" {
		sb.WriteString(" DEFAULT " + c.Default)
	}
	if c.OnUpdate != "" {
		sb.WriteString(" ON UPDATE " + c.OnUpdate)
	}
	if c.AutoInc {
		sb.WriteString(" AUTO_INCREMENT")
	}
	if c.Inline != "" {
		sb.WriteString(" " + c.Inline)
	}
	if c.Comment != nil {
		sb.WriteString(" COMMENT " + qstr(*c.Comment))
	}
	if c.ColCheck != "" {
		sb.WriteString(" " + c.ColCheck)
	}
	return sb.String()
}

func (td *tableDef) render() string {
	var parts []string
	for i := range td.Cols {
		parts = append(parts, td.Cols[i].render())
	}
	for _, k := range td.Keys {
		var sb strings.Builder
		switch k.Kind {
		case "PRIMARY":
			sb.WriteString("PRIMARY KEY")
		case "UNIQUE":
			sb.WriteString("UNIQUE KEY")
		case "KEY":
			sb.WriteString("KEY")
		case "FULLTEXT":
			sb.WriteString("FULLTEXT KEY")
		case "SPATIAL":
			sb.WriteString("SPATIAL KEY")
		}
		if k.Name != "" && k.Kind != "PRIMARY" {
			sb.WriteString(" " + qid(k.Name))
		}
		sb.WriteString(" (")
		for i, p := range k.Parts {
			if i > 0 {
				sb.WriteString(", ")
			}
			sb.WriteString(qid(td.Cols[p.Col].Name))
			if p.Prefix > 0 {
				fmt.Fprintf(&sb, "(%d)", p.Prefix)
			}
			if p.Dir != "" {
				sb.WriteString(" " + p.Dir)
			}
		}
		sb.WriteString(")")
		if k.Comment != nil {
			sb.WriteString(" COMMENT " + qstr(*k.Comment))
		}
		parts = append(parts, sb.String())
	}
	for _, c := range td.Checks {
		s := ""
		if c.Name != "" {
			s = "CONSTRAINT " + qid(c.Name) + " "
		}
		s += "CHECK " + c.Expr
		if c.NotEnforced {
			s += " NOT ENFORCED"
		}
		parts = append(parts, s)
	}
	for _, f := range td.FKs {
		s := ""
		if f.Name != "" {
			s = "CONSTRAINT " + qid(f.Name) + " "
		}
		s += "FOREIGN KEY (" + qid(td.Cols[f.Col].Name) + ") REFERENCES " + qid(f.Parent) + " (" + qid(f.ParentCol) + ")"
		if f.OnDelete != "" {
			s += " ON DELETE " + f.OnDelete
		}
		if f.OnUpdate != "" {
			s += " ON UPDATE " + f.OnUpdate
		}
		parts = append(parts, s)
	}
	out := "CREATE TABLE " + qid(td.Name) + " (\n  " + strings.Join(parts, ",\n  ") + "\n)"
	if len(td.Options) > 0 {
		out += " " + strings.Join(td.Options, " ")
	}
	return out
}

// ---------------------------------------------------------------------------------------
// pools

var tableNames = []string{"t", "t", "t", "T2", "my tbl", "select", "a`b", "t-1", "tä", "it's", "x.y"}
var colNames = []string{"a", "b", "c", "d", "e", "f", "Gg", "h i", "key", "x`y", "order", "j-k", "ü", "1n", "it's", "DESC"}
var awkwardText = []string{"plain", "", "it's", `a"b`, `back\slash`, "two words", "x,y", "ünï", "semi;colon", "line\nbreak", "50%", "`tick`", "(paren)", "--dash", "/* c */"}
var enumMembers = []string{"a", "b", "c", "A b", "x,y", "it's", `q"r`, "", "1", "2", "ü", `b\s`, "NULL", " sp"}
var setMembers = []string{"a", "b", "c", "A b", "it's", `q"r`, "1", "2", "ü", "x y", `b\s`}

type collInfo struct{ coll, cs string }

var collations = []collInfo{
	{"utf8mb4_0900_bin", "utf8mb4"}, {"utf8mb4_0900_ai_ci", "utf8mb4"}, {"utf8mb4_general_ci", "utf8mb4"},
	{"utf8mb4_bin", "utf8mb4"}, {"utf8mb4_unicode_ci", "utf8mb4"}, {"latin1_swedish_ci", "latin1"},
	{"latin1_bin", "latin1"}, {"latin1_general_ci", "latin1"}, {"utf8mb3_general_ci", "utf8mb3"},
	{"ascii_general_ci", "ascii"}, {"ascii_bin", "ascii"}, {"utf8mb3_bin", "utf8mb3"},
}
var charsets = []string{"utf8mb4", "latin1", "utf8mb3", "ascii"}

// genOpts switch off regions that are covered by listed known findings (exclusion by
// construction); exclude is called with the label every time a draw was diverted.
type genOpts struct {
	noEnumSetDefault  bool
	noIdxCommentQuote bool
	noCheckTickIdent  bool
	noVirtualChecks   bool
	noMemberBackslash bool
	noVirtualComment  bool
	noVirtualPKOrder  bool
	extra             map[string]bool
	exclude           func(label string)
}

func (o *genOpts) off(k string) bool { return o.extra != nil && o.extra[k] }

func drawType(rt *rapid.T, o *genOpts) colType {
	switch rapid.SampledFrom([]string{"int", "int", "int", "dec", "float", "str", "str", "str", "text", "bin", "blob", "date", "datetime", "datetime", "timestamp", "time", "year", "enum", "set", "bit", "json", "geom", "bool"}).Draw(rt, "class") {
	case "int":
		base := rapid.SampledFrom([]string{"TINYINT", "SMALLINT", "MEDIUMINT", "INT", "INT", "BIGINT", "INTEGER", "INT(11)", "TINYINT(4)"}).Draw(rt, "int")
		uns := rapid.IntRange(0, 3).Draw(rt, "unsigned") == 0
		if uns {
			base += " UNSIGNED"
		}
		return colType{SQL: base, Class: "int", Unsigned: uns}
	case "dec":
		s := rapid.SampledFrom([]string{"DECIMAL(10,2)", "DECIMAL(5,0)", "DECIMAL(65,30)", "DECIMAL(1,0)", "DECIMAL", "NUMERIC(8,3)", "DECIMAL(12)", "DECIMAL(10,2) UNSIGNED"}).Draw(rt, "dec")
		return colType{SQL: s, Class: "dec", Unsigned: strings.HasSuffix(s, "UNSIGNED")}
	case "float":
		return colType{SQL: rapid.SampledFrom([]string{"FLOAT", "DOUBLE", "FLOAT(10)", "FLOAT(30)", "REAL", "DOUBLE PRECISION", "FLOAT UNSIGNED", "DOUBLE(10,2)", "FLOAT(7,3)"}).Draw(rt, "float"), Class: "float"}
	case "str":
		n := rapid.SampledFrom([]int{1, 3, 8, 10, 20, 255}).Draw(rt, "len")
		kind := rapid.SampledFrom([]string{"VARCHAR", "VARCHAR", "CHAR"}).Draw(rt, "strkind")
		return colType{SQL: fmt.Sprintf("%s(%d)", kind, n), Class: "str", Len: n}
	case "text":
		return colType{SQL: rapid.SampledFrom([]string{"TEXT", "TINYTEXT", "MEDIUMTEXT", "LONGTEXT", "TEXT(100)"}).Draw(rt, "text"), Class: "text", Len: 255}
	case "bin":
		n := rapid.SampledFrom([]int{1, 2, 4, 16}).Draw(rt, "len")
		kind := rapid.SampledFrom([]string{"VARBINARY", "BINARY"}).Draw(rt, "binkind")
		return colType{SQL: fmt.Sprintf("%s(%d)", kind, n), Class: "bin", Len: n}
	case "blob":
		return colType{SQL: rapid.SampledFrom([]string{"BLOB", "TINYBLOB", "MEDIUMBLOB", "LONGBLOB"}).Draw(rt, "blob"), Class: "blob", Len: 255}
	case "date":
		return colType{SQL: "DATE", Class: "date"}
	case "datetime":
		f := rapid.SampledFrom([]int{-1, 0, 1, 3, 6}).Draw(rt, "fsp")
		if f < 0 {
			return colType{SQL: "DATETIME", Class: "datetime"}
		}
		return colType{SQL: fmt.Sprintf("DATETIME(%d)", f), Class: "datetime", Fsp: f}
	case "timestamp":
		f := rapid.SampledFrom([]int{-1, 0, 2, 3, 6}).Draw(rt, "fsp")
		if f < 0 {
			return colType{SQL: "TIMESTAMP", Class: "timestamp"}
		}
		return colType{SQL: fmt.Sprintf("TIMESTAMP(%d)", f), Class: "timestamp", Fsp: f}
	case "time":
		return colType{SQL: rapid.SampledFrom([]string{"TIME", "TIME(6)"}).Draw(rt, "time"), Class: "time"}
	case "year":
		return colType{SQL: "YEAR", Class: "year"}
	case "enum", "set":
		isSet := false
		pool := enumMembers
		if rapid.Bool().Draw(rt, "isSet") {
			isSet = true
			pool = setMembers
		}
		n := rapid.IntRange(1, 4).Draw(rt, "nmembers")
		seen := map[string]bool{}
		var ms []string
		for len(ms) < n {
			m := rapid.SampledFrom(pool).Draw(rt, "member")
			if o.noMemberBackslash && strings.Contains(m, `\`) {
				o.exclude("enum-set-member-with-backslash")
				continue
			}
			// members must be distinct under every collation of the pool: compare case/accent-folded
			k := strings.ToLower(strings.TrimRight(m, " "))
			k = strings.NewReplacer("ü", "u").Replace(k)
			if seen[k] {
				continue
			}
			seen[k] = true
			ms = append(ms, m)
		}
		q := make([]string, len(ms))
		for i, m := range ms {
			q[i] = qstr(m)
		}
		if isSet {
			return colType{SQL: "SET(" + strings.Join(q, ",") + ")", Class: "set", Members: ms}
		}
		return colType{SQL: "ENUM(" + strings.Join(q, ",") + ")", Class: "enum", Members: ms}
	case "bit":
		n := rapid.SampledFrom([]int{1, 5, 8, 16, 64}).Draw(rt, "bits")
		return colType{SQL: fmt.Sprintf("BIT(%d)", n), Class: "bit", Len: n}
	case "json":
		return colType{SQL: "JSON", Class: "json"}
	case "geom":
		return colType{SQL: rapid.SampledFrom([]string{"POINT", "GEOMETRY", "LINESTRING", "POLYGON"}).Draw(rt, "geom"), Class: "geom"}
	case "bool":
		return colType{SQL: rapid.SampledFrom([]string{"BOOL", "BOOLEAN", "TINYINT(1)"}).Draw(rt, "bool"), Class: "bool"}
	}
	panic("unreachable")
}

func fspSuffix(f int) string {
	if f <= 0 {
		return ""
	}
	return fmt.Sprintf("(%d)", f)
}

// drawDefault draws a DEFAULT clause for column c; earlier holds indexes of earlier plain
// numeric columns usable in expression defaults.
func drawDefault(rt *rapid.T, td *tableDef, c *column, o *genOpts) {
	lit := func(kind string, alts ...string) {
		c.Default = rapid.SampledFrom(alts).Draw(rt, "deflit")
		c.DefKind = kind
	}
	if c.NullSpec != "NOT NULL" && rapid.IntRange(0, 9).Draw(rt, "defnull") == 0 {
		c.Default, c.DefKind = "NULL", "default-null"
		return
	}
	switch c.T.Class {
	case "int":
		if c.T.Unsigned {
			lit("default-literal", "0", "1", "7", "127", "(1 + 2)", "'5'")
		} else {
			lit("default-literal", "0", "1", "-5", "127", "(1 + 2)", "(-(3))", "'5'")
		}
		if strings.HasPrefix(c.Default, "(") {
			c.DefKind = "default-expr"
		}
	case "bool":
		lit("default-literal", "TRUE", "FALSE", "0", "1")
	case "dec":
		if c.T.SQL == "DECIMAL(1,0)" {
			lit("default-literal", "0", "1", "'2'")
		} else if c.T.Unsigned {
			lit("default-literal", "0", "1.50", "'2.5'")
		} else {
			lit("default-literal", "0", "1.50", "-3.25", "'2.5'", "(1.5 + 1)")
		}
	case "float":
		if strings.Contains(c.T.SQL, "UNSIGNED") {
			lit("default-literal", "0", "1.5", "1e10", "0.1")
		} else {
			lit("default-literal", "0", "1.5", "-0.25", "1e10", "0.1", "(1 / 3)")
		}
	case "str":
		alts := []string{"''", "'x'"}
		if c.T.Len >= 8 {
			alts = append(alts, "'it''s'", `'a\\b'`, "'A b'", `'q"r'`, "'ü'", "(CONCAT('a', 'b'))", "(UPPER('x'))", "'tr  '", `'n\nl'`, "'50%'")
		}
		lit("default-literal", alts...)
		if strings.HasPrefix(c.Default, "(") {
			c.DefKind = "default-expr"
		}
	case "text":
		lit("default-expr", "('x')", "('it''s')", "(CONCAT('a', 'b'))")
	case "bin":
		if c.T.Len >= 2 {
			lit("default-literal", "'ab'", "0x6162", "X'00ff'", "''", "'a'")
		} else {
			lit("default-literal", "'a'", "0x61", "''")
		}
	case "blob":
		lit("default-expr", "('x')", "(0x6162)")
	case "date":
		lit("default-literal", "'2020-01-01'", "'1000-01-01'", "'9999-12-31'", "(DATE('2021-02-03'))")
	case "datetime", "timestamp":
		if rapid.Bool().Draw(rt, "defnow") {
			c.Default = rapid.SampledFrom([]string{"CURRENT_TIMESTAMP", "NOW", "CURRENT_TIMESTAMP"}).Draw(rt, "nowfn")
			if c.T.Fsp > 0 {
				c.Default += fspSuffix(c.T.Fsp)
			} else if c.Default == "NOW" || rapid.Bool().Draw(rt, "parens") {
				c.Default += "()"
			}
			c.DefKind = "default-now"
			c.Volatile = true
		} else {
			alts := []string{"'2020-01-01 00:00:00'", "'2001-02-03 04:05:06'"}
			if c.T.Fsp >= 3 {
				alts = append(alts, "'2001-02-03 04:05:06.789'")
			}
			if c.T.Fsp == 6 {
				alts = append(alts, "'2001-02-03 04:05:06.123456'")
			}
			lit("default-literal", alts...)
		}
	case "time":
		lit("default-literal", "'10:00:00'", "'-01:02:03'", "'00:00:00'", "'838:59:59'")
	case "year":
		lit("default-literal", "2020", "'1999'", "1901", "2155")
	case "enum":
		if o.noEnumSetDefault {
			o.exclude("enum-set-literal-default")
			return
		}
		c.Default = qstr(rapid.SampledFrom(c.T.Members).Draw(rt, "defmember"))
		c.DefKind = "default-enum"
	case "set":
		if o.noEnumSetDefault {
			o.exclude("enum-set-literal-default")
			return
		}
		n := rapid.IntRange(0, len(c.T.Members)).Draw(rt, "nset")
		var ms []string
		for i := 0; i < n; i++ {
			ms = append(ms, c.T.Members[i])
		}
		c.Default = qstr(strings.Join(ms, ","))
		c.DefKind = "default-set"
	case "bit":
		if c.T.Len >= 5 {
			lit("default-literal", "b'101'", "5", "0", "b'0'", "1")
		} else {
			lit("default-literal", "b'1'", "0", "1", "b'0'")
		}
	case "json":
		lit("default-expr", "('{}')", "(JSON_OBJECT())", "('[1, 2]')", "(JSON_ARRAY(1, 'a'))")
	case "geom":
		if c.T.SQL == "POINT" || c.T.SQL == "GEOMETRY" {
			if c.SRID == "" || c.SRID == "0" {
				lit("default-expr", "(POINT(1, 2))")
			}
		}
	}
	if c.Default != "" {
		td.kind(c.DefKind)
	}
}

// valuePool returns SQL literals used by the probe battery for a column.
func valuePool(c *column) []string {
	var v []string
	switch c.T.Class {
	case "int":
		v = []string{"0", "1", "2", "3", "5", "100", "127", "128", "255", "300", "70000"}
		if !c.T.Unsigned {
			v = append(v, "-1", "-129")
		} else {
			v = append(v, "-1")
		}
	case "bool":
		v = []string{"0", "1", "TRUE", "2", "200"}
	case "dec":
		v = []string{"0", "1", "1.5", "2.25", "-3.25", "9", "10", "123456.789", "0.005"}
	case "float":
		v = []string{"0", "1.5", "-0.25", "1e10", "0.1", "3"}
	case "str", "text":
		v = []string{"''", "'a'", "'A'", "'a '", "'b'", "'ab'", "'á'", "'abcdefghijkl'", "'it''s'", "'ß'", "'B'"}
	case "bin", "blob":
		v = []string{"''", "'a'", "'A'", "'ab'", "0x00", "'abcde'", "0x6100"}
	case "date":
		v = []string{"'2020-01-01'", "'2020-01-02'", "'1999-12-31'", "'2020-02-30'"}
	case "datetime", "timestamp":
		v = []string{"'2020-01-01 00:00:00'", "'2020-01-01 00:00:00.5'", "'2020-01-01 00:00:00.123456'", "'2001-02-03 04:05:06'", "'2020-01-01 00:00:01'"}
	case "time":
		v = []string{"'10:00:00'", "'10:00:00.5'", "'-01:02:03'", "'00:00:00'"}
	case "year":
		v = []string{"2020", "1999", "0", "'2021'", "1800"}
	case "enum":
		for i, m := range c.T.Members {
			v = append(v, qstr(m))
			if i < 2 {
				v = append(v, fmt.Sprint(i+1))
			}
		}
		v = append(v, "'zzz'", "'A'", "0", "9")
	case "set":
		for _, m := range c.T.Members {
			v = append(v, qstr(m))
		}
		if len(c.T.Members) >= 2 {
			v = append(v, qstr(c.T.Members[0]+","+c.T.Members[1]), qstr(c.T.Members[1]+","+c.T.Members[0]))
		}
		v = append(v, "''", "'zzz'", "1", "3", "200")
	case "bit":
		v = []string{"0", "1", "b'101'", "5", "255", "256", "b'1'"}
	case "json":
		v = []string{"'{}'", "'[1, 2]'", `'{"a": 1}'`, "'x'", "'1'"}
	case "geom":
		srid := "0"
		if c.SRID != "" {
			srid = c.SRID
		}
		v = []string{
			fmt.Sprintf("ST_GeomFromText('POINT(1 2)', %s)", srid),
			fmt.Sprintf("ST_GeomFromText('LINESTRING(0 0, 1 1)', %s)", srid),
			fmt.Sprintf("ST_GeomFromText('POLYGON((0 0, 0 1, 1 1, 0 0))', %s)", srid),
			"ST_GeomFromText('POINT(1 2)', 4326)",
			"ST_GeomFromText('POINT(3 4)')",
		}
	}
	v = append(v, "NULL", "DEFAULT")
	return v
}

func pickNames(rt *rapid.T, pool []string, n int, label string) []string {
	perm := rapid.Permutation(pool).Draw(rt, label)
	seen := map[string]bool{}
	var out []string
	for _, p := range perm {
		k := strings.ToLower(p)
		if seen[k] {
			continue
		}
		seen[k] = true
		out = append(out, p)
		if len(out) == n {
			break
		}
	}
	return out
}

func optText(rt *rapid.T, label string) *string {
	s := rapid.SampledFrom(awkwardText).Draw(rt, label)
	return &s
}

// drawTable draws a table definition. parent is the name of the fixed FK parent table.
func drawTable(rt *rapid.T, o *genOpts) *tableDef {
	td := &tableDef{Kinds: map[string]bool{}}
	td.Name = rapid.SampledFrom(tableNames).Draw(rt, "tname")
	if td.Name != "t" {
		td.kind("awkward-table-name")
	}
	ncols := rapid.IntRange(1, 6).Draw(rt, "ncols")
	var names []string
	if rapid.IntRange(0, 2).Draw(rt, "plainnames") > 0 {
		names = colNames[:ncols] // a, b, c ...
	} else {
		names = pickNames(rt, colNames, ncols, "cnames")
		td.kind("awkward-column-name")
	}
	haveAuto := false
	for i := 0; i < ncols; i++ {
		c := column{Name: names[i]}
		c.T = drawType(rt, o)
		// charset / collation
		if c.T.isString() || c.T.Class == "enum" || c.T.Class == "set" {
			switch rapid.IntRange(0, 5).Draw(rt, "collmode") {
			case 0:
				ci := rapid.SampledFrom(collations).Draw(rt, "coll")
				c.Collate = ci.coll
				td.kind("column-collate")
			case 1:
				c.Charset = rapid.SampledFrom(charsets).Draw(rt, "cs")
				td.kind("column-charset")
			case 2:
				ci := rapid.SampledFrom(collations).Draw(rt, "coll")
				c.Collate, c.Charset = ci.coll, ci.cs
				td.kind("column-charset-collate")
			}
		}
		if c.T.Class == "geom" {
			switch rapid.IntRange(0, 3).Draw(rt, "srid") {
			case 0:
				c.SRID = "0"
				td.kind("srid")
			case 1:
				c.SRID = "4326"
				td.kind("srid")
			}
		}
		// generated column over earlier plain numeric / string columns
		var numEarlier, strEarlier []int
		for j := 0; j < i; j++ {
			p := &td.Cols[j]
			if p.Gen != "" || p.Volatile || p.AutoInc {
				continue
			}
			if p.T.Class == "int" || p.T.Class == "dec" {
				numEarlier = append(numEarlier, j)
			}
			if p.T.Class == "str" {
				strEarlier = append(strEarlier, j)
			}
		}
		isGen := false
		if rapid.IntRange(0, 2).Draw(rt, "gen") == 0 {
			if (c.T.Class == "int" || c.T.Class == "dec" || c.T.Class == "float") && len(numEarlier) > 0 && !c.T.Unsigned {
				x := qid(td.Cols[rapid.SampledFrom(numEarlier).Draw(rt, "gx")].Name)
				y := qid(td.Cols[rapid.SampledFrom(numEarlier).Draw(rt, "gy")].Name)
				c.Gen = rapid.SampledFrom([]string{
					"(" + x + " + 1)", "(" + x + " * " + y + ")", "(COALESCE(" + x + ", 0))", "(IF(" + x + " > 0, 1, -1))",
					"(" + x + " - " + y + ")", "(-" + x + ")", "(" + x + " + " + y + " * 2)", "((" + x + " + " + y + ") * 2)", "(ABS(" + x + ") % 3)",
				}).Draw(rt, "genexpr")
				isGen = true
			} else if c.T.Class == "str" && c.T.Len >= 20 && len(strEarlier) > 0 {
				x := qid(td.Cols[rapid.SampledFrom(strEarlier).Draw(rt, "gx")].Name)
				c.Gen = rapid.SampledFrom([]string{
					"(CONCAT(" + x + ", 'x'))", "(UPPER(" + x + "))", "(CONCAT(" + x + ", 'it''s'))", "(LEFT(" + x + ", 2))",
				}).Draw(rt, "genexpr")
				isGen = true
			}
			if isGen {
				c.GenKind = rapid.SampledFrom([]string{"", "STORED", "VIRTUAL"}).Draw(rt, "genkind")
				td.kind("generated-" + strings.ToLower(c.GenKind))
			}
		}
		switch rapid.IntRange(0, 3).Draw(rt, "nullspec") {
		case 0:
			c.NullSpec = "NOT NULL"
			td.kind("not-null")
		case 1:
			c.NullSpec = "NULL"
		}
		if !isGen {
			// AUTO_INCREMENT on one integer column (made a key below)
			if !haveAuto && c.T.Class == "int" && rapid.IntRange(0, 4).Draw(rt, "autoinc") == 0 {
				c.AutoInc = true
				haveAuto = true
				td.kind("auto-increment")
			}
			if !c.AutoInc && rapid.IntRange(0, 2).Draw(rt, "hasdef") == 0 {
				drawDefault(rt, td, &c, o)
			}
			if (c.T.Class == "datetime" || c.T.Class == "timestamp") && rapid.IntRange(0, 2).Draw(rt, "onupd") == 0 {
				c.OnUpdate = "CURRENT_TIMESTAMP" + fspSuffix(c.T.Fsp)
				c.Volatile = true
				td.kind("on-update")
			}
		}
		if rapid.IntRange(0, 4).Draw(rt, "hascomment") == 0 {
			c.Comment = optText(rt, "comment")
			td.kind("column-comment")
		}
		if !isGen && c.T.isNumeric() && rapid.IntRange(0, 14).Draw(rt, "colcheck") == 0 {
			if o.noCheckTickIdent && strings.Contains(c.Name, "`") {
				o.exclude("check-on-identifier-with-backtick")
			} else {
				c.ColCheck = "CHECK (" + qid(c.Name) + " <> 3)"
				td.kind("column-level-check")
			}
		}
		td.Cols = append(td.Cols, c)
	}

	// ---- keys ------------------------------------------------------------------------
	usable := func(i int) bool { c := &td.Cols[i]; return !c.Volatile && c.T.Class != "json" }
	var keyCols []int
	for i := range td.Cols {
		if usable(i) && td.Cols[i].T.Class != "geom" {
			keyCols = append(keyCols, i)
		}
	}
	drawParts := func(maxParts int, allowPrefix bool) []keyPart {
		if len(keyCols) == 0 {
			return nil
		}
		n := rapid.IntRange(1, min(maxParts, len(keyCols))).Draw(rt, "nparts")
		perm := rapid.Permutation(keyCols).Draw(rt, "kperm")
		var ps []keyPart
		for _, ci := range perm[:n] {
			p := keyPart{Col: ci}
			c := &td.Cols[ci]
			if !c.T.keyable() {
				if !allowPrefix {
					continue
				}
				p.Prefix = rapid.SampledFrom([]int{1, 3, 10}).Draw(rt, "prefix")
				td.kind("prefix-length")
			} else if allowPrefix && (c.T.Class == "str" || c.T.Class == "bin") && c.T.Len >= 8 && rapid.IntRange(0, 2).Draw(rt, "hasprefix") == 0 {
				p.Prefix = rapid.SampledFrom([]int{1, 3, 5}).Draw(rt, "prefix")
				td.kind("prefix-length")
			}
			if rapid.IntRange(0, 7).Draw(rt, "dir") == 0 {
				p.Dir = rapid.SampledFrom([]string{"ASC", "DESC"}).Draw(rt, "dirv")
			}
			ps = append(ps, p)
		}
		return ps
	}
	autoCol := -1
	for i := range td.Cols {
		if td.Cols[i].AutoInc {
			autoCol = i
		}
	}
	pkMode := rapid.IntRange(0, 3).Draw(rt, "pkmode") // 0 none, 1 inline, 2 table-level, 3 table-level
	havePK := false
	if autoCol >= 0 && pkMode == 0 {
		// the auto-increment column must be a key
		if rapid.Bool().Draw(rt, "autouniq") {
			td.Cols[autoCol].Inline = "UNIQUE"
			td.kind("inline-unique")
		} else {
			pkMode = 1
		}
	}
	switch pkMode {
	case 1:
		ci := autoCol
		if ci < 0 && len(keyCols) > 0 {
			ci = rapid.SampledFrom(keyCols).Draw(rt, "pkcol")
		}
		if ci >= 0 && td.Cols[ci].T.keyable() && td.Cols[ci].NullSpec != "NULL" && td.Cols[ci].Default != "NULL" {
			td.Cols[ci].Inline = "PRIMARY KEY"
			td.kind("inline-primary-key")
			havePK = true
		}
	case 2, 3:
		ps := drawParts(3, true)
		if autoCol >= 0 {
			found := false
			for _, p := range ps {
				if p.Col == autoCol {
					found = true
				}
			}
			if !found {
				ps = append([]keyPart{{Col: autoCol}}, ps...)
			}
		}
		ok := len(ps) > 0
		for _, p := range ps {
			if td.Cols[p.Col].NullSpec == "NULL" || td.Cols[p.Col].Default == "NULL" {
				ok = false
			}
		}
		if ok {
			td.Keys = append(td.Keys, keyDef{Kind: "PRIMARY", Parts: ps})
			td.kind("primary-key")
			if len(ps) > 1 {
				td.kind("multi-column-key")
			}
			havePK = true
		} else if autoCol >= 0 {
			td.Cols[autoCol].Inline = "PRIMARY KEY"
			havePK = true
		}
	}
	_ = havePK
	keyNames := pickNames(rt, []string{"k1", "k2", "K3", "idx name", "i`x", "key", "uq-1", "PRIMARY2"}, 4, "knames")
	nkeys := rapid.IntRange(0, 3).Draw(rt, "nkeys")
	for k := 0; k < nkeys && len(keyCols) > 0; k++ {
		kd := keyDef{Kind: rapid.SampledFrom([]string{"KEY", "KEY", "UNIQUE", "UNIQUE", "FULLTEXT"}).Draw(rt, "kkind")}
		if rapid.IntRange(0, 3).Draw(rt, "named") > 0 {
			kd.Name = keyNames[k]
		}
		if kd.Kind == "FULLTEXT" {
			var ft []int
			for _, ci := range keyCols {
				if td.Cols[ci].T.isString() && td.Cols[ci].Gen == "" {
					ft = append(ft, ci)
				}
			}
			if len(ft) == 0 {
				continue
			}
			n := rapid.IntRange(1, min(2, len(ft))).Draw(rt, "nft")
			perm := rapid.Permutation(ft).Draw(rt, "ftperm")
			for _, ci := range perm[:n] {
				kd.Parts = append(kd.Parts, keyPart{Col: ci})
			}
			td.kind("fulltext-key")
		} else {
			kd.Parts = drawParts(3, true)
			if len(kd.Parts) == 0 {
				continue
			}
			td.kind(strings.ToLower(kd.Kind) + "-index")
			if len(kd.Parts) > 1 {
				td.kind("multi-column-key")
			}
		}
		if rapid.IntRange(0, 4).Draw(rt, "kcomment") == 0 {
			kd.Comment = optText(rt, "kcommenttext")
			if o.noIdxCommentQuote && strings.ContainsAny(*kd.Comment, `'\`) {
				o.exclude("index-comment-with-quote-or-backslash")
				s := "plain"
				kd.Comment = &s
			}
			td.kind("index-comment")
		}
		td.Keys = append(td.Keys, kd)
	}
	// spatial key
	for i := range td.Cols {
		c := &td.Cols[i]
		if c.T.Class == "geom" && c.NullSpec == "NOT NULL" && c.SRID != "" && rapid.IntRange(0, 1).Draw(rt, "spatial") == 0 {
			td.Keys = append(td.Keys, keyDef{Kind: "SPATIAL", Name: "sp" + fmt.Sprint(i), Parts: []keyPart{{Col: i}}})
			td.kind("spatial-key")
		}
	}
	// inline UNIQUE
	for i := range td.Cols {
		c := &td.Cols[i]
		if c.Inline == "" && usable(i) && c.T.keyable() && c.T.Class != "geom" && rapid.IntRange(0, 9).Draw(rt, "inlineuniq") == 0 {
			c.Inline = rapid.SampledFrom([]string{"UNIQUE", "UNIQUE KEY"}).Draw(rt, "inlinekind")
			td.kind("inline-unique")
		}
	}

	// ---- checks ----------------------------------------------------------------------
	var numCols, strCols []int
	for i := range td.Cols {
		c := &td.Cols[i]
		if c.Volatile {
			continue
		}
		if c.T.Class == "int" || c.T.Class == "dec" || c.T.Class == "float" {
			numCols = append(numCols, i)
		}
		if c.T.Class == "str" {
			strCols = append(strCols, i)
		}
	}
	nchecks := rapid.IntRange(0, 2).Draw(rt, "nchecks")
	chkNames := []string{"c1", "Chk 2", "c`3"}
	for k := 0; k < nchecks; k++ {
		var cd checkDef
		if len(numCols) > 0 && (len(strCols) == 0 || rapid.Bool().Draw(rt, "numcheck")) {
			xi := rapid.SampledFrom(numCols).Draw(rt, "cx")
			yi := rapid.SampledFrom(numCols).Draw(rt, "cy")
			x, y := qid(td.Cols[xi].Name), qid(td.Cols[yi].Name)
			cd.Cols = []int{xi, yi}
			cd.Expr = rapid.SampledFrom([]string{
				"(" + x + " > 0)", "(" + x + " <= " + y + ")", "(" + x + " BETWEEN 1 AND 100)", "(" + x + " IN (1, 2, 3, 5))",
				"(" + x + " IS NOT NULL)", "(" + x + " <> 2 AND " + y + " <> 3)", "(" + x + " < 100 OR " + y + " IS NULL)", "(NOT (" + x + " = 1))",
				"((" + x + " + " + y + ") < 1000)", "(" + x + " % 2 = 0)", "(" + x + " * (" + y + " + 1) >= 0)", "(" + x + " - (" + y + " - 1) <> 0)",
			}).Draw(rt, "cexpr")
		} else if len(strCols) > 0 {
			xi := rapid.SampledFrom(strCols).Draw(rt, "cx")
			x := qid(td.Cols[xi].Name)
			cd.Cols = []int{xi}
			cd.Expr = rapid.SampledFrom([]string{
				"(" + x + " <> '')", "(" + x + " <> 'it''s')", "(" + x + " LIKE 'a%')", "(CHAR_LENGTH(" + x + ") < 5)", "(" + x + " IN ('a', 'b', 'A'))",
				`(` + x + ` <> 'b\\s')`, "(" + x + ` <> 'q"r')`, "(" + x + " NOT LIKE '%\\_%')",
			}).Draw(rt, "cexpr")
		} else {
			break
		}
		if o.noCheckTickIdent {
			tick := false
			for _, ci := range cd.Cols {
				if strings.Contains(td.Cols[ci].Name, "`") {
					tick = true
				}
			}
			if tick {
				o.exclude("check-on-identifier-with-backtick")
				continue
			}
		}
		if rapid.Bool().Draw(rt, "cnamed") {
			cd.Name = chkNames[k]
		}
		if rapid.IntRange(0, 3).Draw(rt, "notenforced") == 0 {
			cd.NotEnforced = true
			td.kind("check-not-enforced")
		}
		td.kind("check")
		td.Checks = append(td.Checks, cd)
	}

	if o.noVirtualPKOrder && td.hasVirtual() && td.pkOutOfOrder() {
		o.exclude("pk-order-on-table-with-virtual-column")
		for i := range td.Keys {
			if td.Keys[i].Kind == "PRIMARY" {
				ps := td.Keys[i].Parts
				sort.Slice(ps, func(a, b int) bool { return ps[a].Col < ps[b].Col })
			}
		}
	}
	if o.noVirtualChecks && td.hasVirtual() && td.hasChecks() {
		o.exclude("check-on-table-with-virtual-column")
		td.Checks = nil
		for i := range td.Cols {
			td.Cols[i].ColCheck = ""
		}
		delete(td.Kinds, "check")
		delete(td.Kinds, "check-not-enforced")
		delete(td.Kinds, "column-level-check")
	}

	// ---- foreign keys ----------------------------------------------------------------
	// parent: p(id INT PRIMARY KEY, u INT UNIQUE, w VARCHAR(8) KEY)
	if rapid.IntRange(0, 1).Draw(rt, "hasfk") == 0 {
		for i := range td.Cols {
			c := &td.Cols[i]
			if (c.T.SQL != "INT" && c.T.SQL != "INTEGER" && c.T.SQL != "INT(11)") || c.Gen != "" {
				continue
			}
			fk := fkDef{Col: i, Parent: "p", ParentCol: rapid.SampledFrom([]string{"id", "u"}).Draw(rt, "pcol")}
			if rapid.Bool().Draw(rt, "fknamed") {
				fk.Name = rapid.SampledFrom([]string{"fk1", "FK two", "f`k"}).Draw(rt, "fkname")
			}
			acts := []string{"", "CASCADE", "SET NULL", "RESTRICT", "NO ACTION"}
			fk.OnDelete = rapid.SampledFrom(acts).Draw(rt, "ondelete")
			fk.OnUpdate = rapid.SampledFrom(acts).Draw(rt, "onupdate")
			if c.NullSpec == "NOT NULL" || c.Inline == "PRIMARY KEY" {
				if fk.OnDelete == "SET NULL" {
					fk.OnDelete = "CASCADE"
				}
				if fk.OnUpdate == "SET NULL" {
					fk.OnUpdate = ""
				}
			}
			td.FKs = append(td.FKs, fk)
			td.kind("foreign-key")
			if fk.OnDelete != "" || fk.OnUpdate != "" {
				td.kind("fk-action")
			}
			break
		}
	}

	// ---- table options ---------------------------------------------------------------
	switch rapid.IntRange(0, 5).Draw(rt, "tcoll") {
	case 0:
		ci := rapid.SampledFrom(collations).Draw(rt, "tcollv")
		td.Options = append(td.Options, "COLLATE="+ci.coll)
		td.kind("table-collate")
	case 1:
		td.Options = append(td.Options, "DEFAULT CHARSET="+rapid.SampledFrom(charsets).Draw(rt, "tcs"))
		td.kind("table-charset")
	case 2:
		ci := rapid.SampledFrom(collations).Draw(rt, "tcollv")
		td.Options = append(td.Options, "CHARACTER SET "+ci.cs+" COLLATE "+ci.coll)
		td.kind("table-charset-collate")
	}
	if rapid.IntRange(0, 4).Draw(rt, "tcomment") == 0 {
		td.Comment = *optText(rt, "tcommenttext")
		if o.noVirtualComment && td.hasVirtual() && td.Comment != "" {
			o.exclude("table-comment-on-table-with-virtual-column")
			td.Comment = ""
		}
		td.Options = append(td.Options, "COMMENT="+qstr(td.Comment))
		td.kind("table-comment")
	}
	if haveAuto && rapid.IntRange(0, 2).Draw(rt, "tauto") == 0 {
		td.Options = append(td.Options, fmt.Sprintf("AUTO_INCREMENT=%d", rapid.SampledFrom([]int{1, 2, 10, 100}).Draw(rt, "tautov")))
		td.kind("table-auto-increment")
	}
	if rapid.IntRange(0, 9).Draw(rt, "tengine") == 0 {
		td.Options = append([]string{"ENGINE=InnoDB"}, td.Options...)
	}
	return td
}
