package c22

import (
	"fmt"
	"os"
	"strings"
	"testing"

	"github.com/dolthub/go-mysql-server/vh/internal/fx"
)

func TestZZProbe(t *testing.T) {
	p := os.Getenv("PROBE_SQL")
	if p == "" {
		t.Skip()
	}
	b, _ := os.ReadFile(p)
	f := fx.New(fx.Opts{Root: true})
	defer f.Close()
	s := f.NewSession("", "", "")
	for _, q := range strings.Split(string(b), "\n") {
		q = strings.TrimSpace(q)
		if q == "" || strings.HasPrefix(q, "#") {
			continue
		}
		r := s.Exec(q)
		fmt.Printf(">> %s\n", q)
		if r.OK() {
			fmt.Printf("   %s\n", fx.Show(fx.NormRows(r.Schema, r.Rows)))
		} else {
			fmt.Printf("   %s\n", r)
		}
	}
}
