package c22

import (
	"fmt"
	"sort"
	"strings"
	"testing"

	"github.com/dolthub/go-mysql-server/vh/internal/fx"
	"github.com/dolthub/go-mysql-server/vh/internal/stats"
	"pgregory.net/rapid"
)

var routineSetup = []string{
	"CREATE TABLE t1 (a INT PRIMARY KEY, b INT, c VARCHAR(20))",
	"CREATE TABLE `t 2` (a INT PRIMARY KEY, b INT, c VARCHAR(20))",
	"CREATE TABLE log (id INT AUTO_INCREMENT PRIMARY KEY, msg VARCHAR(50), n INT)",
	"INSERT INTO t1 VALUES (1, 10, 'x'), (2, 20, 'y')",
	"INSERT INTO `t 2` VALUES (1, 10, 'x'), (2, 20, 'y')",
	"CREATE TRIGGER tr0 BEFORE INSERT ON t1 FOR EACH ROW SET NEW.b = COALESCE(NEW.b, 0) + 100",
}

type stmtDef struct {
	Name  string
	Toks  []tok
	Kinds map[string]bool
}

func (v *stmtDef) kind(k string) { v.Kinds[k] = true }
func (v *stmtDef) kindList() []string {
	ks := make([]string, 0, len(v.Kinds))
	for k := range v.Kinds {
		ks = append(ks, k)
	}
	sort.Strings(ks)
	return ks
}

// renderStmt joins tokens with generated separators, keyword case and tails.
func renderStmt(rt *rapid.T, v *stmtDef) string {
	lower := rapid.IntRange(0, 3).Draw(rt, "lowerkw") == 0
	if lower {
		v.kind("lower-case-keywords")
	}
	sepMode := rapid.IntRange(0, 3).Draw(rt, "sepmode")
	var sb strings.Builder
	if rapid.IntRange(0, 9).Draw(rt, "leadcomment") == 0 {
		sb.WriteString("/* lead */ ")
		v.kind("leading-comment")
	}
	for i, t := range v.Toks {
		if i > 0 {
			sep := " "
			if sepMode == 1 {
				sep = rapid.SampledFrom([]string{" ", " ", "  ", "\n", "\t", "\n  "}).Draw(rt, "sep")
				if sep != " " {
					v.kind("odd-whitespace")
				}
			} else if sepMode == 2 && !t.kw && rapid.IntRange(0, 7).Draw(rt, "cmt") == 0 {
				sep = " /* c'mt */ "
				v.kind("comment")
			}
			sb.WriteString(sep)
		}
		if t.kw && lower {
			sb.WriteString(strings.ToLower(t.s))
		} else {
			sb.WriteString(t.s)
		}
	}
	switch rapid.IntRange(0, 7).Draw(rt, "tail") {
	case 0:
		sb.WriteString(";")
		v.kind("trailing-semicolon")
	case 1:
		sb.WriteString("  \n")
		v.kind("trailing-whitespace")
	}
	return sb.String()
}

// ---------------------------------------------------------------------------------------
// triggers

func drawTrigger(rt *rapid.T) (*stmtDef, string) {
	v := &stmtDef{Kinds: map[string]bool{}}
	v.Name = rapid.SampledFrom([]string{"tr", "tr", "Tr1", "my trg", "t`g", "select", "tr-2", "trü"}).Draw(rt, "name")
	if v.Name != "tr" {
		v.kind("awkward-name")
	}
	timing := rapid.SampledFrom([]string{"BEFORE", "AFTER"}).Draw(rt, "timing")
	event := rapid.SampledFrom([]string{"INSERT", "UPDATE", "DELETE"}).Draw(rt, "event")
	table := rapid.SampledFrom([]string{"t1", "t1", "`t 2`", "d.t1", "`d`.`t 2`"}).Draw(rt, "table")
	if strings.Contains(table, ".") {
		v.kind("db-qualified-table")
	}
	hdr := kws("CREATE")
	if rapid.IntRange(0, 4).Draw(rt, "definer") == 0 {
		hdr = cat(hdr, kws("DEFINER"), raw("=", rapid.SampledFrom([]string{"`root`@`localhost`", "'root'@'localhost'"}).Draw(rt, "definerv")))
		v.kind("definer")
	}
	hdr = cat(hdr, kws("TRIGGER"))
	name := qid(v.Name)
	if rapid.IntRange(0, 5).Draw(rt, "dbqual") == 0 {
		name = "d." + name
		v.kind("db-qualified-name")
	}
	hdr = cat(hdr, raw(name), kws(timing), kws(event), kws("ON"), raw(table), kws("FOR EACH ROW"))
	if event == "INSERT" && timing == "BEFORE" && (table == "t1" || table == "d.t1") && rapid.IntRange(0, 2).Draw(rt, "order") == 0 {
		hdr = cat(hdr, kws(rapid.SampledFrom([]string{"FOLLOWS", "PRECEDES"}).Draw(rt, "orderv")), raw("tr0"))
		v.kind("follows-precedes")
	}
	row := "NEW"
	if event == "DELETE" {
		row = "OLD"
	}
	// body statements
	var stmts [][]tok
	n := rapid.IntRange(1, 3).Draw(rt, "nstmts")
	for i := 0; i < n; i++ {
		k := rapid.IntRange(0, 5).Draw(rt, "stmt")
		switch {
		case k == 0 && timing == "BEFORE" && event != "DELETE":
			stmts = append(stmts, cat(kws("SET"), raw("NEW.b = COALESCE(NEW.b, 0) + "+fmt.Sprint(rapid.IntRange(1, 3).Draw(rt, "inc")))))
			v.kind("set-new")
		case k == 1 && timing == "BEFORE" && event != "DELETE":
			stmts = append(stmts, cat(kws("SET"), raw("NEW.c = CONCAT(COALESCE(NEW.c, ''), 'it''s;')")))
			v.kind("set-new")
		case k == 2:
			stmts = append(stmts, cat(kws("INSERT INTO"), raw("log (msg, n)"), kws("VALUES"), raw("('"+strings.ToLower(timing+" "+event)+"; it''s', "+row+".a)")))
			v.kind("insert-log")
		case k == 3:
			stmts = append(stmts, cat(kws("UPDATE"), raw("log"), kws("SET"), raw("n = n + "+row+".a")))
			v.kind("update-log")
		case k == 4:
			stmts = append(stmts, cat(kws("IF"), raw(row+".a > 5"), kws("THEN INSERT INTO"), raw("log (msg, n)"), kws("VALUES"), raw("('big', "+row+".b);"), kws("ELSE DELETE FROM"), raw("log"), kws("WHERE"), raw("n < 0;"), kws("END IF")))
			v.kind("if")
		default:
			stmts = append(stmts, cat(kws("INSERT INTO"), raw("log (msg, n)"), kws("SELECT"), raw("c, b"), kws("FROM"), raw("`t 2`"), kws("WHERE"), raw("a = "+row+".a")))
			v.kind("insert-select")
		}
	}
	var body []tok
	if len(stmts) == 1 && !strings.HasSuffix(stmts[0][len(stmts[0])-1].s, "IF") && rapid.Bool().Draw(rt, "bare") {
		body = stmts[0]
	} else {
		body = kws("BEGIN")
		if rapid.IntRange(0, 3).Draw(rt, "declare") == 0 {
			body = cat(body, kws("DECLARE"), raw("k"), kws("INT DEFAULT"), raw("0;"))
			v.kind("declare")
		}
		for _, s := range stmts {
			s[len(s)-1].s += ";"
			body = cat(body, s)
		}
		body = cat(body, kws("END"))
		v.kind("begin-end")
	}
	v.Toks = cat(hdr, body)
	return v, table
}

var triggerDML = []string{
	"INSERT INTO t1 VALUES (3, 30, 'z')",
	"INSERT INTO t1 (a) VALUES (9)",
	"INSERT INTO `t 2` VALUES (3, 30, 'z'), (7, NULL, NULL)",
	"UPDATE t1 SET b = b + 1 WHERE a <= 2",
	"UPDATE `t 2` SET c = 'w' WHERE a = 1",
	"DELETE FROM t1 WHERE a = 2",
	"DELETE FROM `t 2` WHERE a >= 2",
}

// cols selects the columns of a result by name (time stamps are left out).
func project(r *fx.Result, drop ...string) string {
	if !r.OK() {
		return outcome(r)
	}
	skip := map[int]bool{}
	for i, c := range r.Schema {
		for _, d := range drop {
			if strings.EqualFold(c.Name, d) {
				skip[i] = true
			}
		}
	}
	var rows [][]string
	for _, row := range fx.NormRows(r.Schema, r.Rows) {
		var nr []string
		for i, v := range row {
			if !skip[i] {
				nr = append(nr, v)
			}
		}
		rows = append(rows, nr)
	}
	return fx.Show(rows)
}

func routineBattery(s *fx.Sess, dml []string, metaQ []string) []probeResult {
	var out []probeResult
	poisoned := false
	run := func(q string) {
		if poisoned {
			return
		}
		r := s.Exec(q)
		out = append(out, probeResult{q, project(r, "Created", "Modified", "LAST_ALTERED")})
		if r.Panic != nil || r.TimedOut {
			poisoned = true
		}
	}
	for _, q := range metaQ {
		run(q)
	}
	for _, q := range dml {
		run(q)
		run("SELECT * FROM t1")
		run("SELECT * FROM `t 2`")
		run("SELECT * FROM log")
	}
	return out
}

func TestC22Trigger(t *testing.T) {
	st := stats.New("C22", "trigger")
	defer st.Flush()
	meta := []string{"SHOW TRIGGERS", "SELECT * FROM information_schema.TRIGGERS"}
	rapid.Check(t, func(rt *rapid.T) {
		st.Eval()
		v, _ := drawTrigger(rt)
		create := renderStmt(rt, v)
		fa, sa := newFixture(rt.Fatalf, routineSetup)
		defer fa.Close()
		if r := sa.Exec(create); !r.OK() {
			st.Class("discarded:create-rejected")
			return
		}
		s1, sr := showCreate(sa, "TRIGGER", v.Name, 2)
		if s1 == "" {
			rt.Fatalf("SHOW CREATE TRIGGER failed on a trigger that was created: %s\n%s", sr, create)
		}
		fb, sb := newFixture(rt.Fatalf, routineSetup)
		defer fb.Close()
		if r2 := sb.Exec(s1); !r2.OK() {
			rt.Fatalf("SHOW CREATE TRIGGER output is rejected by the engine: %s\n--- original definition\n%s\n--- SHOW CREATE output\n%s", r2, create, s1)
		}
		s2, sr2 := showCreate(sb, "TRIGGER", v.Name, 2)
		if s2 == "" {
			rt.Fatalf("SHOW CREATE TRIGGER failed on the re-created trigger: %s\n%s", sr2, s1)
		}
		if s1 != s2 {
			rt.Fatalf("SHOW CREATE TRIGGER is not idempotent\n--- original definition\n%s\n--- s1\n%s\n--- s2\n%s", create, s1, s2)
		}
		ba, bb := routineBattery(sa, triggerDML, meta), routineBattery(sb, triggerDML, meta)
		if d := diffBattery(ba, bb, st); d != "" {
			rt.Fatalf("re-created trigger behaves differently: %s\n--- original definition\n%s\n--- SHOW CREATE output\n%s", d, create, s1)
		}
		sa.MustExec(rt.Fatalf, "DROP TRIGGER "+qid(v.Name))
		if r3 := sa.Exec(s1); !r3.OK() {
			rt.Fatalf("SHOW CREATE TRIGGER output is rejected after DROP TRIGGER: %s\n%s", r3, s1)
		}
		if s3, _ := showCreate(sa, "TRIGGER", v.Name, 2); s3 != s1 {
			rt.Fatalf("SHOW CREATE TRIGGER differs after DROP + re-create in place\n--- s1\n%s\n--- s3\n%s", s1, s3)
		}
		st.Class("recreated")
		for _, k := range v.kindList() {
			st.Class("opt:" + k)
		}
		if len(v.Kinds) >= 3 {
			st.NonTrivial(map[string]any{"create": create, "show_create": s1, "option_kinds": v.kindList()}, create)
		}
	})
}

// ---------------------------------------------------------------------------------------
// procedures

type procDef struct {
	stmtDef
	Calls []string
}

func drawProc(rt *rapid.T) *procDef {
	v := &procDef{stmtDef: stmtDef{Kinds: map[string]bool{}}}
	v.Name = rapid.SampledFrom([]string{"pr", "pr", "Pr1", "my proc", "p`c", "select", "pr-2", "prü"}).Draw(rt, "name")
	if v.Name != "pr" {
		v.kind("awkward-name")
	}
	hdr := kws("CREATE")
	if rapid.IntRange(0, 4).Draw(rt, "definer") == 0 {
		hdr = cat(hdr, kws("DEFINER"), raw("=", rapid.SampledFrom([]string{"`root`@`localhost`", "'root'@'localhost'"}).Draw(rt, "definerv")))
		v.kind("definer")
	}
	hdr = cat(hdr, kws("PROCEDURE"))
	name := qid(v.Name)
	if rapid.IntRange(0, 5).Draw(rt, "dbqual") == 0 {
		name = "d." + name
		v.kind("db-qualified-name")
	}
	// parameter shapes
	shape := rapid.IntRange(0, 3).Draw(rt, "shape")
	var params string
	switch shape {
	case 0:
		params = "()"
	case 1:
		params = "(x INT)"
	case 2:
		params = "(IN x INT, OUT y BIGINT)"
		v.kind("out-param")
	case 3:
		params = "(IN `x` INT, OUT y DECIMAL(10,2), INOUT `z z` VARCHAR(20))"
		v.kind("inout-param")
	}
	hdr = cat(hdr, raw(name+params))
	for _, ch := range []struct {
		label string
		alts  []string
	}{
		{"comment", []string{"COMMENT 'plain'", "COMMENT 'it''s; \"q\"'", "COMMENT ''"}},
		{"deterministic", []string{"DETERMINISTIC", "NOT DETERMINISTIC"}},
		{"sql-security", []string{"SQL SECURITY INVOKER", "SQL SECURITY DEFINER"}},
		{"data-access", []string{"CONTAINS SQL", "NO SQL", "READS SQL DATA", "MODIFIES SQL DATA"}},
		{"language", []string{"LANGUAGE SQL"}},
	} {
		if rapid.IntRange(0, 4).Draw(rt, ch.label) == 0 {
			a := rapid.SampledFrom(ch.alts).Draw(rt, ch.label+"v")
			if strings.HasPrefix(a, "COMMENT") {
				hdr = cat(hdr, kws("COMMENT"), raw(strings.TrimPrefix(a, "COMMENT ")))
			} else {
				hdr = cat(hdr, kws(a))
			}
			v.kind(ch.label)
		}
	}
	xv := "x"
	if shape == 0 {
		xv = "3"
	}
	var stmts [][]tok
	n := rapid.IntRange(1, 3).Draw(rt, "nstmts")
	needBlock := false
	for i := 0; i < n; i++ {
		switch rapid.IntRange(0, 5).Draw(rt, "stmt") {
		case 0:
			stmts = append(stmts, cat(kws("SELECT"), raw(xv+" + 1"), kws("AS"), raw("`r 1`,"), raw("'it''s;'"), kws("AS"), raw("s")))
			v.kind("select")
		case 1:
			stmts = append(stmts, cat(kws("INSERT INTO"), raw("log (msg, n)"), kws("VALUES"), raw("('call; it''s', "+xv+")")))
			v.kind("insert-log")
		case 2:
			stmts = append(stmts, cat(kws("UPDATE"), raw("t1"), kws("SET"), raw("b = b + "+xv), kws("WHERE"), raw("a = 1")))
			v.kind("update")
		case 3:
			stmts = append(stmts, cat(kws("IF"), raw(xv+" > 2"), kws("THEN INSERT INTO"), raw("log (msg, n)"), kws("VALUES"), raw("('big', "+xv+");"), kws("ELSEIF"), raw(xv+" = 2"), kws("THEN DELETE FROM"), raw("log;"), kws("ELSE SELECT"), raw("'small';"), kws("END IF")))
			v.kind("if")
			needBlock = true
		case 4:
			stmts = append(stmts, cat(kws("SET"), raw("k = 0;"), kws("WHILE"), raw("k < "+xv), kws("DO SET"), raw("k = k + 1;"), kws("INSERT INTO"), raw("log (msg, n)"), kws("VALUES"), raw("('loop', k);"), kws("END WHILE")))
			v.kind("while")
			needBlock = true
		case 5:
			stmts = append(stmts, cat(kws("SELECT COUNT(*) INTO"), raw("k"), kws("FROM"), raw("t1"), kws("WHERE"), raw("a <= "+xv)))
			v.kind("select-into")
			needBlock = true
		}
	}
	if shape >= 2 {
		stmts = append(stmts, cat(kws("SET"), raw("y = x * 2")))
		needBlock = true
	}
	if shape == 3 {
		stmts = append(stmts, cat(kws("SET"), raw("`z z` = CONCAT(`z z`, '!')")))
	}
	var body []tok
	if len(stmts) == 1 && !needBlock && rapid.Bool().Draw(rt, "bare") {
		body = stmts[0]
	} else {
		body = cat(kws("BEGIN DECLARE"), raw("k"), kws("INT DEFAULT"), raw("0;"))
		for _, s := range stmts {
			s[len(s)-1].s += ";"
			body = cat(body, s)
		}
		body = cat(body, kws("END"))
		v.kind("begin-end")
	}
	v.Toks = cat(hdr, body)
	call := "CALL " + qid(v.Name)
	for _, a := range []string{"1", "2", "4"} {
		switch shape {
		case 0:
			v.Calls = append(v.Calls, call+"()")
		case 1:
			v.Calls = append(v.Calls, call+"("+a+")")
		case 2:
			v.Calls = append(v.Calls, call+"("+a+", @y)", "SELECT @y")
		case 3:
			v.Calls = append(v.Calls, "SET @z = 'q"+a+"'", call+"("+a+", @y, @z)", "SELECT @y, @z")
		}
	}
	return v
}

func TestC22Proc(t *testing.T) {
	st := stats.New("C22", "procedure")
	defer st.Flush()
	rapid.Check(t, func(rt *rapid.T) {
		st.Eval()
		v := drawProc(rt)
		create := renderStmt(rt, &v.stmtDef)
		ln := qstr(strings.ToLower(v.Name))
		meta := []string{
			"SHOW PROCEDURE STATUS",
			"SELECT * FROM information_schema.ROUTINES WHERE ROUTINE_SCHEMA = 'd'",
			"SELECT * FROM information_schema.PARAMETERS WHERE SPECIFIC_SCHEMA = 'd' AND LOWER(SPECIFIC_NAME) = " + ln,
		}
		fa, sa := newFixture(rt.Fatalf, routineSetup)
		defer fa.Close()
		if r := sa.Exec(create); !r.OK() {
			st.Class("discarded:create-rejected")
			return
		}
		s1, sr := showCreate(sa, "PROCEDURE", v.Name, 2)
		if s1 == "" {
			rt.Fatalf("SHOW CREATE PROCEDURE failed on a procedure that was created: %s\n%s", sr, create)
		}
		fb, sb := newFixture(rt.Fatalf, routineSetup)
		defer fb.Close()
		if r2 := sb.Exec(s1); !r2.OK() {
			rt.Fatalf("SHOW CREATE PROCEDURE output is rejected by the engine: %s\n--- original definition\n%s\n--- SHOW CREATE output\n%s", r2, create, s1)
		}
		s2, sr2 := showCreate(sb, "PROCEDURE", v.Name, 2)
		if s2 == "" {
			rt.Fatalf("SHOW CREATE PROCEDURE failed on the re-created procedure: %s\n%s", sr2, s1)
		}
		if s1 != s2 {
			rt.Fatalf("SHOW CREATE PROCEDURE is not idempotent\n--- original definition\n%s\n--- s1\n%s\n--- s2\n%s", create, s1, s2)
		}
		ba, bb := routineBattery(sa, v.Calls, meta), routineBattery(sb, v.Calls, meta)
		if d := diffBattery(ba, bb, st); d != "" {
			rt.Fatalf("re-created procedure behaves differently: %s\n--- original definition\n%s\n--- SHOW CREATE output\n%s", d, create, s1)
		}
		sa.MustExec(rt.Fatalf, "DROP PROCEDURE "+qid(v.Name))
		if r3 := sa.Exec(s1); !r3.OK() {
			rt.Fatalf("SHOW CREATE PROCEDURE output is rejected after DROP PROCEDURE: %s\n%s", r3, s1)
		}
		if s3, _ := showCreate(sa, "PROCEDURE", v.Name, 2); s3 != s1 {
			rt.Fatalf("SHOW CREATE PROCEDURE differs after DROP + re-create in place\n--- s1\n%s\n--- s3\n%s", s1, s3)
		}
		st.Class("recreated")
		for _, k := range v.kindList() {
			st.Class("opt:" + k)
		}
		if len(v.Kinds) >= 3 {
			st.NonTrivial(map[string]any{"create": create, "show_create": s1, "option_kinds": v.kindList()}, create)
		}
	})
}
