package c22

import (
	"fmt"
	"testing"

	"github.com/dolthub/go-mysql-server/vh/internal/kf"
	"github.com/dolthub/go-mysql-server/vh/internal/stats"
)

// witness is the minimal reproduction of one proposed known finding. The regions are
// excluded from the generators while the finding is listed; this sub-check re-confirms each
// witness on every run, so that the finding is reported (KNOWN-FINDING with hits) while it
// exists and the exclusion can be dropped when it is repaired.
type witness struct {
	ID     string
	What   string // TABLE | VIEW
	Name   string
	Setup  []string
	Create string
	Probes []string // statements whose outcome must agree between original and re-created object
}

var witnesses = []witness{
	{kfEnumSetDefault, "TABLE", "t", nil,
		"CREATE TABLE t (a INT PRIMARY KEY, e ENUM('2','1') DEFAULT '2', f SET('a','b','c') DEFAULT 'a,c')",
		[]string{"INSERT INTO t (a) VALUES (1)", "SELECT * FROM t"}},
	{kfIdxCommentQuote, "TABLE", "t", nil,
		"CREATE TABLE t (a INT PRIMARY KEY, b INT, KEY k (b) COMMENT 'it''s')", nil},
	{kfCheckTickIdent, "TABLE", "t", nil,
		"CREATE TABLE t (`x``y` INT, CONSTRAINT c1 CHECK (`x``y` > 0))", nil},
	{kfVirtual, "TABLE", "t", nil,
		"CREATE TABLE t (a INT, b INT GENERATED ALWAYS AS (a + 1) VIRTUAL, CONSTRAINT c1 CHECK (a <> 3))",
		[]string{"SELECT CONSTRAINT_NAME, CONSTRAINT_TYPE FROM information_schema.TABLE_CONSTRAINTS WHERE TABLE_SCHEMA = 'd' AND TABLE_NAME = 't'"}},
	{kfVirtual, "TABLE", "t", nil,
		"CREATE TABLE t (a INT, b INT GENERATED ALWAYS AS (a + 1) VIRTUAL) COMMENT='hello'",
		[]string{"SELECT TABLE_COMMENT FROM information_schema.TABLES WHERE TABLE_SCHEMA = 'd' AND TABLE_NAME = 't'"}},
	{kfVirtual, "TABLE", "t", nil,
		"CREATE TABLE t (a INT NOT NULL, b INT NOT NULL, c INT GENERATED ALWAYS AS (a + 1) VIRTUAL, PRIMARY KEY (b, a))",
		[]string{"SHOW INDEX FROM t"}},
	{kfMemberBackslash, "TABLE", "t", nil,
		`CREATE TABLE t (a INT PRIMARY KEY, e ENUM('a','b\\s'))`,
		[]string{`INSERT INTO t VALUES (1, 'b\\s')`, "SELECT * FROM t"}},
	{kfViewHeader, "VIEW", "v", []string{"CREATE TABLE b1 (a INT PRIMARY KEY, c INT)"},
		"CREATE VIEW v (x, y) AS SELECT a, c FROM b1",
		[]string{"DESCRIBE v"}},
	{kfViewHeader, "VIEW", "v", []string{"CREATE TABLE b1 (a INT PRIMARY KEY, c INT)"},
		"CREATE ALGORITHM = TEMPTABLE SQL SECURITY INVOKER VIEW v AS SELECT a, c FROM b1",
		[]string{"SELECT IS_UPDATABLE, SECURITY_TYPE FROM information_schema.VIEWS WHERE TABLE_SCHEMA = 'd' AND TABLE_NAME = 'v'"}},
	{kfViewCheckOption, "VIEW", "v", []string{"CREATE TABLE b1 (a INT PRIMARY KEY, c INT)"},
		"CREATE VIEW v AS SELECT a FROM b1 WHERE a > 1 WITH CHECK OPTION", nil},
	{kfViewNameTick, "VIEW", "v`w", []string{"CREATE TABLE b1 (a INT PRIMARY KEY, c INT)"},
		"CREATE VIEW `v``w` AS SELECT a FROM b1", nil},
}

// roundTrip applies the C22 oracle to one fixed definition and returns a description of the
// violation ("" if the property holds for it).
func roundTrip(w *witness) string {
	fail := func(f string, a ...any) { panic(fmt.Sprintf(f, a...)) }
	fa, sa := newFixture(fail, w.Setup)
	defer fa.Close()
	if r := sa.Exec(w.Create); !r.OK() {
		return "" // rejected at first creation: outside the property
	}
	s1, sr := showCreate(sa, w.What, w.Name, 1)
	if s1 == "" {
		return fmt.Sprintf("SHOW CREATE failed: %s", sr)
	}
	fb, sb := newFixture(fail, w.Setup)
	defer fb.Close()
	if r := sb.Exec(s1); !r.OK() {
		return fmt.Sprintf("SHOW CREATE output is rejected: %s\n%s", r, s1)
	}
	s2, _ := showCreate(sb, w.What, w.Name, 1)
	if s1 != s2 {
		return fmt.Sprintf("not idempotent:\n--- s1\n%s\n--- s2\n%s", s1, s2)
	}
	for _, q := range w.Probes {
		oa, ob := outcome(sa.Exec(q)), outcome(sb.Exec(q))
		if oa != ob {
			return fmt.Sprintf("probe %q: original %s, re-created %s\n%s", q, oa, ob, s1)
		}
	}
	return ""
}

// TestC22Known re-confirms the witnesses of the proposed known findings.
func TestC22Known(t *testing.T) {
	st := stats.New("C22", "witness")
	defer st.Flush()
	for i := range witnesses {
		w := &witnesses[i]
		st.Eval()
		msg := roundTrip(w)
		if msg == "" {
			t.Logf("%s: witness no longer reproduces (repaired?)", w.ID)
			st.Class("witness-holds")
			continue
		}
		st.Class("witness-violates")
		if kf.Suppress(st, w.ID) {
			t.Logf("known finding %s still reproduces: %s", w.ID, msg)
			continue
		}
		t.Errorf("witness of %s (not listed as known): %s\n%s", w.ID, w.Create, msg)
	}
}
