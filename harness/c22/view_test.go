package c22

import (
	"fmt"
	"sort"
	"strings"
	"testing"

	"github.com/dolthub/go-mysql-server/vh/internal/fx"
	"github.com/dolthub/go-mysql-server/vh/internal/kf"
	"github.com/dolthub/go-mysql-server/vh/internal/stats"
	"pgregory.net/rapid"
)

const (
	// SHOW CREATE VIEW prints only "CREATE VIEW name AS select": the column list and the
	// ALGORITHM / DEFINER / SQL SECURITY clauses of the definition are lost
	kfViewHeader      = "C22-view-header-lost"
	kfViewCheckOption = "C22-view-with-check-option-truncated"
	kfViewNameTick    = "C22-view-name-backtick-unescaped"
)

var viewSetup = []string{
	"CREATE TABLE b1 (a INT PRIMARY KEY, b VARCHAR(10), c INT)",
	"CREATE TABLE `b 2` (a INT, `x y` INT, s VARCHAR(10) COLLATE utf8mb4_0900_ai_ci)",
	"INSERT INTO b1 VALUES (1,'x',10),(2,'y',20),(3,'it''s',NULL),(4,'X',10)",
	"INSERT INTO `b 2` VALUES (1,100,'p'),(2,200,'P'),(2,201,NULL),(9,900,'z')",
	"CREATE VIEW v0 AS SELECT a, c FROM b1 WHERE c IS NOT NULL",
}

var viewDML = []string{
	"INSERT INTO b1 VALUES (5,'y',20),(6,NULL,30)",
	"UPDATE b1 SET c = c + 1 WHERE a = 1",
	"DELETE FROM `b 2` WHERE a = 9",
	"INSERT INTO `b 2` VALUES (3,300,'q'),(4,NULL,'x')",
}

// tok is one token of a generated statement; kw marks keywords (subject to case variation).
type tok struct {
	s  string
	kw bool
}

func kws(s string) []tok {
	var out []tok
	for _, w := range strings.Fields(s) {
		out = append(out, tok{w, true})
	}
	return out
}
func raw(s ...string) []tok {
	var out []tok
	for _, w := range s {
		out = append(out, tok{w, false})
	}
	return out
}
func cat(parts ...[]tok) []tok {
	var out []tok
	for _, p := range parts {
		out = append(out, p...)
	}
	return out
}

type viewDef struct {
	Name    string
	Toks    []tok
	NCols   int // 0 = unknown
	Kinds   map[string]bool
	ColList []string
	CheckOp string
	// HeaderOpt: the definition has an ALGORITHM / DEFINER / SQL SECURITY clause
	HeaderOpt bool
	Replace   bool
}

func (v *viewDef) kind(k string) { v.Kinds[k] = true }
func (v *viewDef) kindList() []string {
	ks := make([]string, 0, len(v.Kinds))
	for k := range v.Kinds {
		ks = append(ks, k)
	}
	sort.Strings(ks)
	return ks
}

var preds = []string{
	"a > 1", "b = 'x'", "b LIKE 'it''s%'", "c IS NULL", "a IN (SELECT a FROM `b 2`)",
	"EXISTS (SELECT 1 FROM `b 2` t WHERE t.a = b1.a)", "a BETWEEN 1 AND 2", "NOT (a = 1)", `b <> "y"`,
	"a = 1 OR c = 20 AND b = 'y'", "b IN ('x', 'X')", "c > (SELECT MIN(`x y`) FROM `b 2`) - 95", "`a` <> 2",
}

type itemSet struct {
	sql string
	n   int
}

var itemSets = []itemSet{
	{"*", 3}, {"a", 1}, {"a, b", 2}, {"`a`, `b` AS `B b`", 2}, {"a + 1 AS `a1`, c", 2}, {"c * 2, a", 2},
	{"CONCAT(b, 'it''s') AS q", 1}, {"'lit' AS l, a", 2}, {"UPPER(b), a", 2}, {"a AS `x``y`", 1}, {`"dq" AS c2, a`, 2},
	{"b1.a, b1.b", 2}, {"CASE WHEN a > 1 THEN 'big' ELSE 'small' END AS sz, a", 2}, {"COALESCE(c, 0) AS cc", 1},
	{"a IN (1, 2) AS isin, a", 2}, {"(SELECT MAX(c) FROM b1) AS m, a", 2}, {"-a AS neg", 1}, {"b1.*", 3},
	{"a, a", 2}, {"a, b, c, a + c AS `sum`", 4},
}

func drawSimpleSelect(rt *rapid.T, v *viewDef, label string) ([]tok, int) {
	is := rapid.SampledFrom(itemSets).Draw(rt, label+"items")
	t := cat(kws("SELECT"), raw(is.sql), kws("FROM"), raw("b1"))
	if rapid.Bool().Draw(rt, label+"where") {
		t = cat(t, kws("WHERE"), raw(rapid.SampledFrom(preds).Draw(rt, label+"pred")))
		v.kind("where")
	}
	return t, is.n
}

func drawView(rt *rapid.T, noColList, noCheckOpt, noNameTick bool, exclude func(string)) *viewDef {
	v := &viewDef{Kinds: map[string]bool{}}
	v.Name = rapid.SampledFrom([]string{"v", "v", "v1", "My View", "vw`x", "select", "v-2", "Vü"}).Draw(rt, "vname")
	if noNameTick && strings.Contains(v.Name, "`") {
		exclude("view-name-with-backtick")
		v.Name = "vw'x"
	}
	if v.Name != "v" && v.Name != "v1" {
		v.kind("awkward-name")
	}
	var body []tok
	switch rapid.IntRange(0, 11).Draw(rt, "template") {
	case 0, 1:
		body, v.NCols = drawSimpleSelect(rt, v, "s")
		if rapid.Bool().Draw(rt, "order") {
			body = cat(body, kws("ORDER BY"), raw("a"))
			if rapid.Bool().Draw(rt, "desc") {
				body = cat(body, kws("DESC"))
			}
			if rapid.Bool().Draw(rt, "limit") {
				body = cat(body, kws("LIMIT"), raw(fmt.Sprint(rapid.IntRange(1, 3).Draw(rt, "n"))))
			}
			v.kind("order-limit")
		}
	case 2:
		j := rapid.SampledFrom([]string{"JOIN", "INNER JOIN", "LEFT JOIN", "RIGHT JOIN", "LEFT OUTER JOIN"}).Draw(rt, "join")
		body = cat(kws("SELECT"), raw("b1.a,", "t2.`x y`,", "t2.s"), kws("FROM"), raw("b1"), kws(j), raw("`b 2`", "t2"), kws("ON"), raw("b1.a = t2.a"))
		v.NCols = 3
		v.kind("join")
	case 3:
		body = cat(kws("SELECT"), raw("c,", "COUNT(*)"), kws("AS"), raw("n"), kws("FROM"), raw("b1"), kws("GROUP BY"), raw("c"))
		if rapid.Bool().Draw(rt, "having") {
			body = cat(body, kws("HAVING"), raw("COUNT(*) > 1"))
		}
		v.NCols = 2
		v.kind("group-by")
	case 4:
		l, n := drawSimpleSelect(rt, v, "l")
		op := rapid.SampledFrom([]string{"UNION", "UNION ALL", "UNION DISTINCT", "INTERSECT", "EXCEPT"}).Draw(rt, "setop")
		var r []tok
		switch n {
		case 1:
			r = cat(kws("SELECT"), raw("`x y`"), kws("FROM"), raw("`b 2`"))
		case 2:
			r = cat(kws("SELECT"), raw("a, s"), kws("FROM"), raw("`b 2`"))
		case 3:
			r = cat(kws("SELECT"), raw("a, s, `x y`"), kws("FROM"), raw("`b 2`"))
		default:
			r = cat(kws("SELECT"), raw("1, 2, 3, 4"))
		}
		body = cat(l, kws(op), r)
		v.NCols = n
		v.kind("set-operation")
	case 5:
		in, n := drawSimpleSelect(rt, v, "c")
		if n == 2 && strings.Contains(in[1].s, "a, a") {
			in[1].s = "a, b"
		}
		body = cat(kws("WITH"), raw("q"), kws("AS"), raw("("), in, raw(")"), kws("SELECT"), raw("*"), kws("FROM"), raw("q"))
		v.NCols = n
		v.kind("cte")
	case 6:
		in, n := drawSimpleSelect(rt, v, "d")
		if n == 2 && strings.Contains(in[1].s, "a, a") {
			in[1].s = "a, b"
		}
		body = cat(kws("SELECT"), raw("*"), kws("FROM"), raw("("), in, raw(")"), kws("AS"), raw("dt"))
		v.NCols = n
		v.kind("derived-table")
	case 7:
		body = cat(kws("SELECT DISTINCT"), raw("c"), kws("FROM"), raw("b1"))
		v.NCols = 1
		v.kind("distinct")
	case 8:
		in, n := drawSimpleSelect(rt, v, "p")
		body = cat(raw("("), in, raw(")"))
		v.NCols = n
		v.kind("parenthesised")
	case 9:
		body = cat(kws("SELECT"), raw("1"), kws("AS"), raw("one,"), raw("'it''s'"), kws("AS"), raw("`s t`,"), raw("NULL"), kws("AS"), raw("nn"))
		v.NCols = 3
		v.kind("no-table")
	case 10:
		body = cat(kws("SELECT"), raw("*"), kws("FROM"), raw("v0"))
		if rapid.Bool().Draw(rt, "v0where") {
			body = cat(body, kws("WHERE"), raw("c > 10"))
		}
		v.NCols = 2
		v.kind("view-on-view")
	case 11:
		body = cat(kws("SELECT"), raw("d.b1.a,"), raw("`d`.`b1`.`c`"), kws("FROM"), raw("d.b1"))
		v.NCols = 2
		v.kind("db-qualified")
	}

	// header
	headerOpt := func() bool {
		if noColList {
			exclude("view-header-option")
			return false
		}
		v.HeaderOpt = true
		return true
	}
	hdr := kws("CREATE")
	if rapid.IntRange(0, 3).Draw(rt, "replace") == 0 {
		hdr = cat(hdr, kws("OR REPLACE"))
		v.Replace = true
		v.kind("or-replace")
	}
	if rapid.IntRange(0, 4).Draw(rt, "algo") == 0 && headerOpt() {
		hdr = cat(hdr, kws("ALGORITHM"), raw("="), kws(rapid.SampledFrom([]string{"UNDEFINED", "MERGE", "TEMPTABLE"}).Draw(rt, "algov")))
		v.kind("algorithm")
	}
	if rapid.IntRange(0, 4).Draw(rt, "definer") == 0 && headerOpt() {
		hdr = cat(hdr, kws("DEFINER"), raw("=", rapid.SampledFrom([]string{"`root`@`localhost`", "CURRENT_USER", "'root'@'localhost'"}).Draw(rt, "definerv")))
		v.kind("definer")
	}
	if rapid.IntRange(0, 4).Draw(rt, "security") == 0 && headerOpt() {
		hdr = cat(hdr, kws("SQL SECURITY"), kws(rapid.SampledFrom([]string{"DEFINER", "INVOKER"}).Draw(rt, "securityv")))
		v.kind("sql-security")
	}
	hdr = cat(hdr, kws("VIEW"))
	name := qid(v.Name)
	if rapid.IntRange(0, 5).Draw(rt, "dbqual") == 0 {
		name = "`d`." + name
		v.kind("db-qualified-name")
	}
	hdr = cat(hdr, raw(name))
	if v.NCols > 0 && rapid.IntRange(0, 3).Draw(rt, "collist") == 0 {
		if noColList {
			exclude("view-column-list")
		} else {
			v.ColList = pickNames(rt, []string{"x", "y", "Zz", "col 1", "c`2", "from", "w"}, v.NCols, "colnames")
			q := make([]string, len(v.ColList))
			for i, c := range v.ColList {
				q[i] = qid(c)
			}
			hdr = cat(hdr, raw("("+strings.Join(q, ", ")+")"))
			v.kind("column-list")
		}
	}
	hdr = cat(hdr, kws("AS"))
	all := cat(hdr, body)
	if rapid.IntRange(0, 5).Draw(rt, "checkopt") == 0 {
		if noCheckOpt {
			exclude("view-with-check-option")
		} else {
			v.CheckOp = rapid.SampledFrom([]string{"WITH CHECK OPTION", "WITH CASCADED CHECK OPTION"}).Draw(rt, "checkoptv")
			all = cat(all, kws(v.CheckOp))
			v.kind("check-option")
		}
	}
	v.Toks = all
	return v
}

// renderToks joins tokens with generated separators and keyword case.
func renderToks(rt *rapid.T, v *viewDef) string {
	lower := rapid.IntRange(0, 3).Draw(rt, "lowerkw") == 0
	if lower {
		v.kind("lower-case-keywords")
	}
	sepMode := rapid.IntRange(0, 3).Draw(rt, "sepmode")
	var sb strings.Builder
	for i, t := range v.Toks {
		if i > 0 {
			sep := " "
			if sepMode == 1 {
				sep = rapid.SampledFrom([]string{" ", " ", "  ", "\n", "\t", "\n  "}).Draw(rt, "sep")
				if sep != " " {
					v.kind("odd-whitespace")
				}
			} else if sepMode == 2 && !t.kw && rapid.IntRange(0, 5).Draw(rt, "cmt") == 0 {
				sep = " /* c'mt */ "
				v.kind("comment")
			}
			sb.WriteString(sep)
		}
		if t.kw && lower {
			sb.WriteString(strings.ToLower(t.s))
		} else {
			sb.WriteString(t.s)
		}
	}
	switch rapid.IntRange(0, 7).Draw(rt, "tail") {
	case 0:
		sb.WriteString(";")
		v.kind("trailing-semicolon")
	case 1:
		sb.WriteString("  \n")
		v.kind("trailing-whitespace")
	case 2:
		sb.WriteString(" ; ")
		v.kind("trailing-semicolon")
	}
	return sb.String()
}

func schemaNames(r *fx.Result) string {
	var ns []string
	for _, c := range r.Schema {
		ns = append(ns, c.Name)
	}
	return strings.Join(ns, "|")
}

func viewBattery(s *fx.Sess, name string) []probeResult {
	var out []probeResult
	poisoned := false
	run := func(q string, withSchema bool) {
		if poisoned {
			return
		}
		r := s.Exec(q)
		o := outcome(r)
		if withSchema && r.OK() {
			o = "cols[" + schemaNames(r) + "] " + o
		}
		out = append(out, probeResult{q, o})
		if r.Panic != nil || r.TimedOut {
			poisoned = true
		}
	}
	n, ln := qid(name), qstr(strings.ToLower(name))
	meta := func() {
		run("SELECT * FROM "+n, true)
		run("SELECT COUNT(*) FROM "+n, false)
		run("DESCRIBE "+n, false)
		run("SHOW FULL COLUMNS FROM "+n, false)
		run("SELECT COLUMN_NAME, ORDINAL_POSITION, IS_NULLABLE, DATA_TYPE, COLUMN_TYPE, COLLATION_NAME FROM information_schema.COLUMNS WHERE TABLE_SCHEMA = 'd' AND LOWER(TABLE_NAME) = "+ln, false)
		run("SELECT * FROM information_schema.VIEWS WHERE TABLE_SCHEMA = 'd' AND LOWER(TABLE_NAME) = "+ln, false)
		run("SELECT TABLE_TYPE FROM information_schema.TABLES WHERE TABLE_SCHEMA = 'd' AND LOWER(TABLE_NAME) = "+ln, false)
	}
	meta()
	for _, q := range viewDML {
		run(q, false)
	}
	meta()
	return out
}

func TestC22View(t *testing.T) {
	st := stats.New("C22", "view")
	defer st.Flush()
	noColList, noCheckOpt, noNameTick := kf.Listed(kfViewHeader), kf.Listed(kfViewCheckOption), kf.Listed(kfViewNameTick)
	rapid.Check(t, func(rt *rapid.T) {
		st.Eval()
		v := drawView(rt, noColList, noCheckOpt, noNameTick, st.Excluded)
		create := renderToks(rt, v)
		preexisting := v.Replace && rapid.Bool().Draw(rt, "preexisting")
		var sigs []string
		if len(v.ColList) > 0 || v.HeaderOpt {
			sigs = append(sigs, kfViewHeader)
		}
		if v.CheckOp != "" {
			sigs = append(sigs, kfViewCheckOption)
		}
		if strings.Contains(v.Name, "`") {
			sigs = append(sigs, kfViewNameTick)
		}

		fa, sa := newFixture(rt.Fatalf, viewSetup)
		defer fa.Close()
		if preexisting {
			// the definition shown afterwards must be the replacing one
			sa.MustExec(rt.Fatalf, "CREATE VIEW "+qid(v.Name)+" AS SELECT 42 AS stale")
			v.kind("replaces-existing")
		}
		r := sa.Exec(create)
		if !r.OK() {
			if r.Panic != nil {
				st.Class("discarded:create-panic")
			} else {
				st.Class("discarded:create-rejected")
			}
			return
		}
		s1, sr := showCreate(sa, "VIEW", v.Name, 1)
		if s1 == "" {
			if violation(rt, st, sigs, "SHOW CREATE VIEW failed on a view that was created: %s\n%s", sr, create) {
				return
			}
		}
		// SHOW CREATE TABLE on a view prints the same statement
		if s1t, _ := showCreate(sa, "TABLE", v.Name, 1); s1t != s1 {
			if violation(rt, st, sigs, "SHOW CREATE TABLE and SHOW CREATE VIEW disagree on a view\n--- view\n%s\n--- table\n%s", s1, s1t) {
				return
			}
		}
		fb, sb := newFixture(rt.Fatalf, viewSetup)
		defer fb.Close()
		if r2 := sb.Exec(s1); !r2.OK() {
			if violation(rt, st, sigs, "SHOW CREATE VIEW output is rejected by the engine: %s\n--- original definition\n%s\n--- SHOW CREATE output\n%s", r2, create, s1) {
				return
			}
		}
		s2, sr2 := showCreate(sb, "VIEW", v.Name, 1)
		if s2 == "" {
			if violation(rt, st, sigs, "SHOW CREATE VIEW failed on the re-created view: %s\n%s", sr2, s1) {
				return
			}
		}
		if s1 != s2 {
			if violation(rt, st, sigs, "SHOW CREATE VIEW is not idempotent\n--- original definition\n%s\n--- s1\n%s\n--- s2\n%s", create, s1, s2) {
				return
			}
		}
		ba, bb := viewBattery(sa, v.Name), viewBattery(sb, v.Name)
		if d := diffBattery(ba, bb, st); d != "" {
			if violation(rt, st, sigs, "re-created view behaves differently: %s\n--- original definition\n%s\n--- SHOW CREATE output\n%s", d, create, s1) {
				return
			}
		}
		// drop + re-create in place
		sa.MustExec(rt.Fatalf, "DROP VIEW "+qid(v.Name))
		if r3 := sa.Exec(s1); !r3.OK() {
			if violation(rt, st, sigs, "SHOW CREATE VIEW output is rejected after DROP VIEW: %s\n%s", r3, s1) {
				return
			}
		}
		if s3, _ := showCreate(sa, "VIEW", v.Name, 1); s3 != s1 {
			if violation(rt, st, sigs, "SHOW CREATE VIEW differs after DROP + re-create in place\n--- s1\n%s\n--- s3\n%s", s1, s3) {
				return
			}
		}
		st.Class("recreated")
		for _, k := range v.kindList() {
			st.Class("opt:" + k)
		}
		if len(v.Kinds) >= 3 {
			st.NonTrivial(map[string]any{"create": create, "show_create": s1, "option_kinds": v.kindList()}, create)
		}
	})
}
