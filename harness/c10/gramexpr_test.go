package c10

import (
	"fmt"
	"strings"

	"pgregory.net/rapid"
)

// gram is the grammar-based generator: every choice is a rapid draw, so cases shrink and
// replay. The type discipline is deliberately off ("type chaos"): any expression can appear
// anywhere an expression is allowed.
type gram struct {
	t      *rapid.T
	scope  []string // table names / aliases visible to the expression being generated
	stabs  []string // the tables behind the aliases
	budget int      // remaining expression nodes for the statement (bounds statement size)
	names  []string // names of objects created by earlier statements of the program
	// safe bounds numbers in length-like argument positions (REPEAT/SPACE/LPAD/... ) so that
	// the search does not allocate gigabytes on a shared machine (see notes, C10-unbounded-alloc)
	wide bool
}

func (g *gram) n(lo, hi int, l string) int { return rapid.IntRange(lo, hi).Draw(g.t, l) }
func (g *gram) p(n int, l string) bool     { return rapid.IntRange(0, n-1).Draw(g.t, l) == 0 }
func (g *gram) one(ss []string, l string) string {
	return ss[rapid.IntRange(0, len(ss)-1).Draw(g.t, l)]
}

func (g *gram) table() string {
	if g.p(25, "badtab") {
		return g.one([]string{"nosuch", "``", "mydb.nosuch", "foo.t", "information_schema.tables", "information_schema.columns", "mysql.user", "dual", "`my table`", "mydb.mytable", "MYTABLE", "information_schema.nosuch"}, "bt")
	}
	if len(g.names) > 0 && g.p(4, "newtab") {
		return g.one(g.names, "nt")
	}
	return g.one(fixTables, "tab")
}

// col draws a column reference that resolves in the current scope most of the time.
func (g *gram) col() string {
	if len(g.scope) == 0 || g.p(20, "badcol") {
		return g.one([]string{"nosuch", "``", "t.nosuch", "nosuch.a", "a", "i", "pk", "x", "mydb.t.a", "*", "t.*", "a.b.c.d", "`a b`", "1a", "_", "$", "é"}, "bc")
	}
	k := g.n(0, len(g.scope)-1, "sc")
	cols := fixCols[g.stabs[k]]
	if len(cols) == 0 {
		cols = []string{"a", "b", "c0", "c1", "id", "n"}
	}
	c := g.one(cols, "col")
	if g.p(2, "qual") {
		return g.scope[k] + "." + c
	}
	return c
}

func (g *gram) strLit() string {
	switch g.n(0, 13, "strk") {
	case 0:
		return quote(g.one(strLits, "s")) + " COLLATE " + g.one(collations, "coll")
	case 1:
		return "_" + g.one(charsets, "cs") + quote(g.one(strLits, "s"))
	case 2:
		return "_" + g.one(charsets, "cs") + " " + hexLit(g.one(append(badUTF8, strLits[:40]...), "hs"))
	case 3:
		return quoteRaw(g.one(badUTF8, "bad"))
	case 4:
		return hexLit(g.one(badUTF8, "bad"))
	case 5:
		// long strings: around the 255 / 65535 / 16383-character limits
		n := g.one([]string{"254", "255", "256", "1000", "16383", "16384", "65535", "65536", "70000"}, "len")
		var k int
		fmt.Sscan(n, &k)
		return "'" + strings.Repeat(g.one([]string{"a", "é", "😀", "%", "ab", "\\\\", "1"}, "unit"), k) + "'"
	case 6:
		return "\"" + strings.ReplaceAll(g.one(strLits, "s"), "\"", "\"\"") + "\""
	case 7:
		return quoteRaw(g.one([]string{`\0`, `\'`, `\"`, `\b`, `\n`, `\r`, `\t`, `\Z`, `\\`, `\%`, `\_`, `\x`, `\`, `a\`, `\0\0`, `A`, `a\0b`}, "esc"))
	case 8:
		return g.one([]string{"DATE", "TIME", "TIMESTAMP", "DATETIME"}, "tl") + " " + quote(g.one(strLits, "s"))
	case 9:
		return "n" + quote(g.one(strLits, "s"))
	default:
		return quote(g.one(strLits, "s"))
	}
}

func (g *gram) lit() string {
	switch g.n(0, 5, "litk") {
	case 0, 1:
		return g.one(numLits, "num")
	case 2:
		return "NULL"
	default:
		return g.strLit()
	}
}

// small draws a number that is safe as a length / count / position argument.
func (g *gram) small() string {
	return g.one([]string{"0", "1", "-1", "2", "3", "5", "10", "64", "255", "256", "1000", "65535", "65536", "-65536", "1000000", "NULL", "1.5", "'2'", "''", "0x03", "TRUE"}, "small")
}

func (g *gram) atom() string {
	switch g.n(0, 11, "atom") {
	case 0, 1, 2, 3:
		return g.col()
	case 4:
		return "@" + g.one([]string{"a", "b", "v1", "`x y`", "''", "\"q\"", "nosuch", "_1"}, "uv")
	case 5:
		return "@@" + g.one([]string{"", "session.", "global.", "SESSION.", "local.", "persist."}, "scope") + g.one(sysvars, "sv")
	default:
		return g.lit()
	}
}

// args renders n argument expressions.
func (g *gram) args(n, d int) string {
	a := make([]string, n)
	for i := range a {
		a[i] = g.expr(d)
	}
	return strings.Join(a, ", ")
}

// lengthLike lists functions whose numeric arguments size an allocation; for those, numeric
// arguments come from small() (the witness tests cover the unbounded case with a safe input).
var lengthLike = map[string]bool{"REPEAT": true, "SPACE": true, "LPAD": true, "RPAD": true, "FORMAT": true, "RANDOM_BYTES": true, "INSERT": true,
	"EXPORT_SET": true, "MAKE_SET": true, "ROUND": true, "TRUNCATE": true, "CHAR": true, "WEIGHT_STRING": true, "LEFT": true, "RIGHT": true, "SUBSTRING": true,
	"SUBSTR": true, "MID": true, "SUBSTRING_INDEX": true, "CONV": true, "BIN": true, "ELT": true, "FIELD": true, "UNCOMPRESS": true, "UNCOMPRESSED_LENGTH": true,
	"JSON_ARRAY_INSERT": true, "POW": true, "POWER": true, "EXP": true, "STRING_TO_VECTOR": true, "GENERATE_SERIES": true}

func (g *gram) call(d int) string {
	var f fnInfo
	for {
		f = registry[g.n(0, len(registry)-1, "fn")]
		if !neverCall[f.name] {
			break
		}
	}
	n := f.arity
	if n < 0 {
		n = g.n(0, 4, "nargs")
	} else if g.p(30, "wrongarity") {
		n = g.n(0, 5, "nargs2")
	}
	if lengthLike[f.name] && !g.wide {
		a := make([]string, n)
		for i := range a {
			if i == 0 {
				a[i] = g.expr(d - 1)
			} else if g.p(3, "strarg") {
				a[i] = g.strLit()
			} else {
				a[i] = g.small()
			}
		}
		return f.name + "(" + strings.Join(a, ", ") + ")"
	}
	return f.name + "(" + g.args(n, d-1) + ")"
}

func (g *gram) windowSpec(d int) string {
	var sb strings.Builder
	sb.WriteString("(")
	if g.p(2, "part") {
		sb.WriteString("PARTITION BY " + g.args(g.n(1, 2, "np"), d-1))
	}
	if g.p(2, "word") {
		sb.WriteString(" ORDER BY " + g.expr(d-1) + g.one([]string{"", " ASC", " DESC"}, "dir"))
	}
	if g.p(3, "frame") {
		b := func() string {
			return g.one([]string{"UNBOUNDED PRECEDING", "UNBOUNDED FOLLOWING", "CURRENT ROW", "1 PRECEDING", "1 FOLLOWING", "0 PRECEDING", "9223372036854775807 FOLLOWING", "18446744073709551616 PRECEDING",
				"-1 PRECEDING", "1.5 PRECEDING", "'a' FOLLOWING", "NULL PRECEDING", "INTERVAL 1 DAY PRECEDING", "INTERVAL '1' YEAR FOLLOWING", "2 PRECEDING"}, "bound")
		}
		sb.WriteString(" " + g.one([]string{"ROWS", "RANGE", "GROUPS"}, "unit") + " ")
		if g.p(2, "between") {
			sb.WriteString("BETWEEN " + b() + " AND " + b())
		} else {
			sb.WriteString(b())
		}
	}
	sb.WriteString(")")
	return sb.String()
}

func fill(tmpl string, arg func() string) string {
	for strings.Contains(tmpl, "%s") {
		tmpl = strings.Replace(tmpl, "%s", arg(), 1)
	}
	return tmpl
}

// special draws one of the syntactic forms that are not plain function calls.
func (g *gram) special(d int) string {
	e := func() string { return g.expr(d - 1) }
	switch g.n(0, 44, "special") {
	case 0:
		return "CAST(" + e() + " AS " + g.one(castTypes, "ct") + ")"
	case 1:
		return "CONVERT(" + e() + ", " + g.one(castTypes, "ct") + ")"
	case 2:
		return "CONVERT(" + e() + " USING " + g.one(charsets, "cs") + ")"
	case 3:
		return "(" + e() + " COLLATE " + g.one(collations, "coll") + ")"
	case 4:
		s := "CASE"
		if g.p(2, "simple") {
			s += " " + e()
		}
		for i, n := 0, g.n(1, 3, "nwhen"); i < n; i++ {
			s += " WHEN " + e() + " THEN " + e()
		}
		if g.p(2, "else") {
			s += " ELSE " + e()
		}
		return s + " END"
	case 5:
		return "IF(" + e() + ", " + e() + ", " + e() + ")"
	case 6:
		return "EXTRACT(" + g.one(intervalUnits, "unit") + " FROM " + e() + ")"
	case 7:
		return "(" + e() + g.one([]string{" + ", " - "}, "pm") + "INTERVAL " + e() + " " + g.one(intervalUnits, "unit") + ")"
	case 8:
		return g.one([]string{"DATE_ADD", "DATE_SUB", "ADDDATE", "SUBDATE"}, "da") + "(" + e() + ", INTERVAL " + e() + " " + g.one(intervalUnits, "unit") + ")"
	case 9:
		return "TRIM(" + g.one([]string{"BOTH ", "LEADING ", "TRAILING ", ""}, "trim") + e() + " FROM " + e() + ")"
	case 10:
		return "SUBSTRING(" + e() + " FROM " + g.small() + g.one([]string{"", " FOR " + g.small()}, "for") + ")"
	case 11:
		return "POSITION(" + e() + " IN " + e() + ")"
	case 12:
		return fill(g.one(aggFns, "agg"), e)
	case 13:
		return fill(g.one(windowFns, "wf"), func() string {
			if g.p(2, "wsmall") {
				return g.small()
			}
			return e()
		}) + " OVER " + g.one([]string{g.windowSpec(d), g.windowSpec(d), "w", "()"}, "wspec")
	case 14:
		return "MATCH(" + g.col() + g.one([]string{"", ", " + g.col()}, "m2") + ") AGAINST (" + e() + g.one([]string{"", " IN BOOLEAN MODE", " IN NATURAL LANGUAGE MODE", " WITH QUERY EXPANSION"}, "mode") + ")"
	case 15:
		return "(" + e() + g.one([]string{" REGEXP ", " NOT REGEXP ", " RLIKE "}, "re") + e() + ")"
	case 16:
		return "(" + e() + g.one([]string{" LIKE ", " NOT LIKE "}, "like") + e() + g.one([]string{"", " ESCAPE " + g.strLit(), " ESCAPE ''", " ESCAPE 'ab'", " ESCAPE '\\\\'"}, "esc") + ")"
	case 17:
		return "(" + e() + g.one([]string{" IN (", " NOT IN ("}, "in") + g.args(g.n(1, 4, "nin"), d-1) + "))"
	case 18:
		return "(" + e() + g.one([]string{" BETWEEN ", " NOT BETWEEN "}, "btw") + e() + " AND " + e() + ")"
	case 19:
		return "(" + e() + " IS " + g.one([]string{"NULL", "NOT NULL", "TRUE", "NOT TRUE", "FALSE", "NOT FALSE", "UNKNOWN", "NOT UNKNOWN"}, "is") + ")"
	case 20:
		return g.one([]string{"EXISTS ", "NOT EXISTS "}, "ex") + "(" + g.subquery(d-1, 0) + ")"
	case 21:
		return "(" + g.subquery(d-1, 1) + ")"
	case 22:
		return "(" + e() + g.one([]string{" IN ", " NOT IN ", " = ANY ", " <> ALL ", " > SOME ", " = ", " < "}, "insub") + "(" + g.subquery(d-1, 1) + "))"
	case 23:
		return "(" + e() + g.one([]string{"->", "->>"}, "arrow") + quote(g.one(strLits, "path")) + ")"
	case 24:
		n := g.n(1, 3, "ntup")
		return "((" + g.args(n, d-1) + ")" + g.one([]string{" = ", " <> ", " < ", " <=> ", " IN ", " >= "}, "tupop") + "(" + g.args(n+g.n(0, 1, "tupoff")*g.n(0, 1, "tupoff2"), d-1) + "))"
	case 25:
		return "ROW(" + g.args(g.n(1, 3, "nrow"), d-1) + ")"
	case 26:
		return "(" + e() + g.one([]string{" + ", " - ", " * ", " / ", " DIV ", " MOD ", " % ", " & ", " | ", " ^ ", " << ", " >> ", " XOR ", " AND ", " OR ", " || ", " && "}, "bop") + e() + ")"
	case 27:
		return "(" + e() + g.one([]string{" = ", " <> ", " != ", " < ", " <= ", " > ", " >= ", " <=> "}, "cmp") + e() + ")"
	case 28:
		return "(" + g.one([]string{"-", "~", "!", "NOT ", "BINARY ", "+", "- -", "NOT NOT "}, "unop") + e() + ")"
	case 29:
		return "(@" + g.one([]string{"a", "b", "v1"}, "uv") + " := " + e() + ")"
	case 30:
		return "COALESCE(" + g.args(g.n(1, 4, "ncoal"), d-1) + ")"
	case 31:
		return g.one([]string{"NULLIF", "IFNULL", "GREATEST", "LEAST", "CONCAT", "CONCAT_WS", "FIELD", "ELT", "INTERVAL"}, "nfn") + "(" + g.args(g.n(1, 4, "nn"), d-1) + ")"
	case 32:
		return g.one([]string{"JSON_EXTRACT", "JSON_UNQUOTE", "JSON_SET", "JSON_INSERT", "JSON_REPLACE", "JSON_REMOVE", "JSON_CONTAINS", "JSON_CONTAINS_PATH", "JSON_SEARCH", "JSON_KEYS", "JSON_LENGTH",
			"JSON_DEPTH", "JSON_TYPE", "JSON_VALID", "JSON_ARRAY", "JSON_OBJECT", "JSON_MERGE_PATCH", "JSON_MERGE_PRESERVE", "JSON_ARRAY_APPEND", "JSON_ARRAY_INSERT", "JSON_OVERLAPS", "JSON_PRETTY", "JSON_QUOTE",
			"JSON_STORAGE_SIZE", "JSON_VALUE", "JSON_SCHEMA_VALID"}, "jfn") + "(" + g.jsonArgs(d) + ")"
	case 33:
		return g.one([]string{"ST_GEOMFROMTEXT", "ST_ASWKT", "ST_ASWKB", "ST_GEOMFROMWKB", "ST_ASGEOJSON", "ST_GEOMFROMGEOJSON", "ST_SRID", "ST_SWAPXY", "ST_X", "ST_Y", "ST_LATITUDE", "ST_LONGITUDE", "ST_DIMENSION",
			"ST_AREA", "ST_LENGTH", "ST_PERIMETER", "ST_DISTANCE", "ST_INTERSECTS", "ST_WITHIN", "ST_EQUALS", "ST_STARTPOINT", "ST_ENDPOINT", "ST_ISCLOSED", "POINT", "LINESTRING", "POLYGON", "MULTIPOINT",
			"MULTILINESTRING", "MULTIPOLYGON", "GEOMCOLLECTION", "ST_POINTFROMTEXT", "ST_LINEFROMTEXT", "ST_POLYFROMTEXT", "ST_POINTFROMWKB", "ST_LINEFROMWKB", "ST_POLYFROMWKB", "ST_MPOINTFROMTEXT"}, "sfn") + "(" + g.geoArgs(d) + ")"
	case 34:
		return g.one([]string{"REGEXP_LIKE", "REGEXP_REPLACE", "REGEXP_INSTR", "REGEXP_SUBSTR"}, "rfn") + "(" + g.args(2, d-1) + g.one([]string{"", ", " + g.strLit(), ", " + g.small(), ", " + g.small() + ", " + g.small(), ", " + g.strLit() + ", " + g.small() + ", " + g.small() + ", " + g.strLit(),
			", " + g.small() + ", " + g.small() + ", " + g.small() + ", " + g.strLit()}, "rargs") + ")"
	case 35:
		return g.one([]string{"DATE_FORMAT", "TIME_FORMAT", "STR_TO_DATE", "FROM_UNIXTIME", "UNIX_TIMESTAMP", "CONVERT_TZ", "DATEDIFF", "TIMEDIFF", "TIMESTAMPDIFF", "TIMESTAMPADD", "ADDTIME", "SUBTIME", "MAKEDATE", "MAKETIME",
			"SEC_TO_TIME", "TIME_TO_SEC", "TO_DAYS", "FROM_DAYS", "TO_SECONDS", "PERIOD_ADD", "PERIOD_DIFF", "LAST_DAY", "WEEK", "YEARWEEK", "WEEKOFYEAR", "DAYNAME", "MONTHNAME", "DAYOFYEAR", "QUARTER", "MICROSECOND",
			"DATE", "TIME", "TIMESTAMP", "YEAR", "GET_FORMAT", "UTC_TIMESTAMP", "NOW", "CURDATE", "CURTIME", "SYSDATE"}, "dfn") + "(" + g.dateArgs(d) + ")"
	case 36:
		return "(SELECT " + e() + ")"
	case 37:
		return "DEFAULT(" + g.col() + ")"
	case 38:
		return "VALUES(" + g.col() + ")"
	case 39:
		return g.one([]string{"CURRENT_TIMESTAMP", "CURRENT_DATE", "CURRENT_TIME", "CURRENT_USER", "LOCALTIME", "UTC_DATE", "CURRENT_TIMESTAMP(6)", "CURRENT_TIMESTAMP(7)", "NOW(3)", "DATABASE()", "USER()", "FOUND_ROWS()", "ROW_COUNT()", "LAST_INSERT_ID()", "VERSION()", "CONNECTION_ID()"}, "niladic")
	case 40:
		return "(" + e() + g.one([]string{" SOUNDS LIKE ", " MEMBER OF ", " NOT LIKE ", " IS NOT DISTINCT FROM ", " <=> "}, "odd") + "(" + e() + "))"
	case 41:
		return "CHAR(" + g.args(g.n(1, 3, "nchar"), 0) + g.one([]string{"", " USING " + g.one(charsets, "cs")}, "chu") + ")"
	case 42:
		return "WEIGHT_STRING(" + e() + g.one([]string{"", " AS CHAR(3)", " AS BINARY(3)", " LEVEL 1"}, "ws") + ")"
	case 43:
		return "{" + g.one([]string{"d", "t", "ts", "fn", "x"}, "odbc") + " " + g.strLit() + "}"
	default:
		return g.call(d)
	}
}

func (g *gram) jsonArgs(d int) string {
	n := g.n(0, 4, "njs")
	a := make([]string, n)
	for i := range a {
		switch g.n(0, 3, "jsk") {
		case 0:
			a[i] = g.expr(d - 1)
		case 1:
			a[i] = g.one([]string{"js", "j", "w.js", "test.j", "NULL"}, "jcol")
		default:
			a[i] = quote(g.one(strLits, "jlit"))
		}
	}
	return strings.Join(a, ", ")
}

func (g *gram) geoArgs(d int) string {
	n := g.n(0, 3, "ngeo")
	a := make([]string, n)
	for i := range a {
		switch g.n(0, 5, "geok") {
		case 0:
			a[i] = g.expr(d - 1)
		case 1:
			a[i] = g.one([]string{"g", "pt", "w.g", "w.pt", "NULL"}, "gcol")
		case 2:
			a[i] = "ST_GEOMFROMTEXT(" + quote(g.one(strLits, "wkt")) + g.one([]string{"", ", 0", ", 4326", ", 1234", ", -1", ", 4294967296", ", 4326, 'axis-order=long-lat'", ", 0, 'axis-order=nope'"}, "srid") + ")"
		case 3:
			a[i] = g.one(numLits, "gn")
		case 4:
			a[i] = "POINT(" + g.one(numLits, "px") + ", " + g.one(numLits, "py") + ")"
		default:
			a[i] = hexLit(g.one([]string{"\x00\x00\x00\x00\x01\x01\x00\x00\x00\x00\x00\x00\x00\x00\x00\xf0\x3f\x00\x00\x00\x00\x00\x00\x00\x40", "\x00\x00\x00\x00\x01\x01\x00\x00\x00", "\x00\x00\x00\x00\x01\x02\x00\x00\x00\xff\xff\xff\xff",
				"\x00\x00\x00\x00\x01\x03\x00\x00\x00\xff\xff\xff\x7f", "\x00\x00\x00\x00\x00\x00\x00\x00\x01", "\x00\x00\x00\x00\x01\x07\x00\x00\x00\x01\x00\x00\x00", "\x01\x01\x00\x00\x00\x00\x00\x00\x00\x00\x00\xf0\x3f\x00\x00\x00\x00\x00\x00\x00\x40",
				"\x00\x00\x00\x00\x01\x09\x00\x00\x00", "\xe6\x10\x00\x00\x01\x01\x00\x00\x00\x00\x00\x00\x00\x00\x00\xf8\x7f\x00\x00\x00\x00\x00\x00\xf8\x7f", "", "\x00"}, "wkb"))
		}
	}
	return strings.Join(a, ", ")
}

func (g *gram) dateArgs(d int) string {
	n := g.n(0, 3, "ndate")
	a := make([]string, n)
	for i := range a {
		switch g.n(0, 4, "datek") {
		case 0:
			a[i] = g.expr(d - 1)
		case 1:
			a[i] = g.one([]string{"dt", "dtm", "ts", "tm", "yr", "w.dt", "w.dtm", "NULL", "NOW()", "CURDATE()"}, "dcol")
		case 2:
			a[i] = g.one(numLits, "dn")
		case 3:
			a[i] = g.one(intervalUnits, "du")
		default:
			a[i] = quote(g.one(strLits, "dlit"))
		}
	}
	return strings.Join(a, ", ")
}

// expr draws an expression of nesting depth <= d.
func (g *gram) expr(d int) string {
	g.budget--
	if d <= 0 || g.budget <= 0 || g.p(3, "leaf") {
		return g.atom()
	}
	if g.p(3, "call") {
		return g.call(d)
	}
	return g.special(d)
}

// deep draws a deliberately deep or long expression (bounded: DESIGN C10 soundness note).
func (g *gram) deep() string {
	depth := g.one([]string{"10", "40", "100", "300", "1000"}, "depth")
	var k int
	fmt.Sscan(depth, &k)
	base := g.atom()
	switch g.n(0, 9, "deepk") {
	case 0:
		return strings.Repeat("(", k) + base + strings.Repeat(")", k)
	case 1:
		return strings.Repeat("NOT ", k) + base
	case 2:
		return strings.Repeat("- ", k) + base
	case 3:
		// only functions whose result does not grow with the nesting depth: HEX/TO_BASE64/QUOTE
		// double (or grow geometrically) per level, which is a legitimately exponential statement
		f := g.one([]string{"ABS", "LOWER", "TRIM", "CONCAT", "JSON_ARRAY", "COALESCE", "IFNULL(1,", "CAST(", "(SELECT "}, "deepf")
		switch f {
		case "IFNULL(1,":
			return strings.Repeat("IFNULL(NULL, ", k) + base + strings.Repeat(")", k)
		case "CAST(":
			return strings.Repeat("CAST(", k) + base + strings.Repeat(" AS CHAR)", k)
		case "(SELECT ":
			if k > 100 {
				k = 100
			}
			return strings.Repeat("(SELECT ", k) + base + strings.Repeat(")", k)
		}
		return strings.Repeat(f+"(", k) + base + strings.Repeat(")", k)
	case 4:
		return base + strings.Repeat(g.one([]string{" + 1", " AND 1", " OR 0", " || 'a'", " * 2", " = 1", " XOR 1"}, "chain"), k)
	case 5:
		el := make([]string, k)
		for i := range el {
			el[i] = fmt.Sprint(i%7 - 3)
		}
		return g.col() + " IN (" + strings.Join(el, ",") + ")"
	case 6:
		return strings.Repeat("CASE WHEN 1 THEN ", k) + base + strings.Repeat(" END", k)
	case 7:
		return strings.Repeat("JSON_EXTRACT(", k%60+1) + quote(strings.Repeat("[", k)+strings.Repeat("]", k)) + strings.Repeat(", '$[0]')", k%60+1)
	case 8:
		return "CONCAT(" + strings.TrimSuffix(strings.Repeat(base+", ", k), ", ") + ")"
	default:
		return strings.Repeat("(", k/2) + base + strings.Repeat(" + 1)", k/2)
	}
}
