package c10

import (
	"fmt"
	"os"
	"strings"
	"testing"
	"time"
)

func TestDbg(t *testing.T) {
	qs := strings.Split(os.Getenv("DBG_Q"), ";;")
	f, s := newFixture(false, t.Fatalf)
	defer f.Close()
	for _, q := range qs {
		r := run(s, q, 20*time.Second)
		fmt.Printf("Q: %s\n  err=%v panic=%v rows=%v\n", q, r.Err, r.Panic, r.Rows)
		if r.Schema != nil {
			for _, c := range r.Schema {
				fmt.Printf("  col %q type=%v nullable=%v\n", c.Name, c.Type, c.Nullable)
			}
		}
		if r.Panic != nil && os.Getenv("DBG_STACK") != "" {
			fmt.Println(r.Stack)
		}
		fmt.Println(s.Plan(q))
	}
}
