package c10

import (
	"fmt"
	"strings"
)

// from draws a FROM clause and installs the scope for the expressions of the block.
func (g *gram) from(d int) string {
	g.scope, g.stabs = nil, nil
	n := g.n(1, 3, "nfrom")
	var sb strings.Builder
	for i := 0; i < n; i++ {
		tb := g.table()
		al := tb
		item := tb
		switch g.n(0, 9, "fromk") {
		case 0:
			if d > 0 {
				al = fmt.Sprintf("dt%d", i)
				save, saveT := g.scope, g.stabs
				item = "(" + g.subquery(d-1, 0) + ") AS " + al
				g.scope, g.stabs = save, saveT
				tb = "?"
			}
		case 1:
			al = fmt.Sprintf("x%d", i)
			item = tb + " AS " + al
		case 2:
			al = fmt.Sprintf("x%d", i)
			item = tb + " " + al + g.one([]string{" USE INDEX (PRIMARY)", " FORCE INDEX (nosuch)", " IGNORE INDEX (ti, tb)", " USE INDEX ()"}, "hint")
		case 3:
			if g.p(3, "tablefn") {
				al = "jt"
				tb = "?"
				item = "JSON_TABLE(" + g.one([]string{"'[{\"a\":1},{\"a\":2}]'", "js", "'[1,2,3]'", g.strLit(), "NULL", "'{}'"}, "jtsrc") + ", " + quote(g.one([]string{"$[*]", "$", "$.a", "$[", "$**"}, "jtpath")) +
					" COLUMNS(" + g.one([]string{"a INT PATH '$.a'", "a INT PATH '$.a' DEFAULT '5' ON EMPTY", "o FOR ORDINALITY, a VARCHAR(1) PATH '$'", "a JSON PATH '$' ERROR ON ERROR", "NESTED PATH '$.b[*]' COLUMNS (b INT PATH '$')",
					"a INT EXISTS PATH '$.a'", "a DECIMAL(65,30) PATH '$.a' NULL ON EMPTY DEFAULT 'x' ON ERROR", "a INT PATH '$['"}, "jtcols") + ")) AS jt"
			}
		case 4:
			if g.p(3, "asof") {
				item = tb + " AS OF " + g.lit()
			}
		}
		if i > 0 {
			j := g.one([]string{" JOIN ", " INNER JOIN ", " LEFT JOIN ", " RIGHT JOIN ", " CROSS JOIN ", ", ", " NATURAL JOIN ", " LEFT OUTER JOIN ", " STRAIGHT_JOIN ", " FULL OUTER JOIN ", " NATURAL LEFT JOIN ", " JOIN LATERAL "}, "join")
			if j == " JOIN LATERAL " {
				lal := fmt.Sprintf("l%d", i)
				save, saveT := g.scope, g.stabs
				item = "(" + g.subquery(d-1, 0) + ") AS " + lal
				g.scope, g.stabs = save, saveT
				al, tb = lal, "?"
			}
			sb.WriteString(j + item)
			g.scope, g.stabs = append(g.scope, al), append(g.stabs, tb)
			if !strings.Contains(j, "NATURAL") && !strings.Contains(j, "CROSS") && j != ", " {
				if g.p(5, "using") {
					sb.WriteString(" USING (" + g.one([]string{"a", "pk", "i", "b", "nosuch", "a, b"}, "ucol") + ")")
				} else {
					sb.WriteString(" ON " + g.expr(d))
				}
			}
		} else {
			sb.WriteString(item)
			g.scope, g.stabs = append(g.scope, al), append(g.stabs, tb)
		}
	}
	return sb.String()
}

// subquery draws a SELECT block; ncols > 0 fixes the number of select items.
func (g *gram) subquery(d, ncols int) string {
	save, saveT := g.scope, g.stabs
	defer func() { g.scope, g.stabs = save, saveT }()
	outer, outerT := g.scope, g.stabs
	var sb strings.Builder
	sb.WriteString("SELECT ")
	if g.p(8, "distinct") {
		sb.WriteString(g.one([]string{"DISTINCT ", "ALL ", "SQL_CALC_FOUND_ROWS ", "DISTINCTROW ", "STRAIGHT_JOIN ", "/*+ JOIN_ORDER(t, t1) */ ", "/*+ MERGE_JOIN(x0,x1) LOOKUP_JOIN(t,t1) HASH_JOIN(t,t2) */ "}, "selopt"))
	}
	noFrom := g.p(5, "nofrom")
	fromText := ""
	if !noFrom {
		fromText = g.from(d)
		// correlated references stay possible
		if len(outer) > 0 && g.p(2, "corr") {
			g.scope, g.stabs = append(g.scope, outer...), append(g.stabs, outerT...)
		}
	} else {
		g.scope, g.stabs = outer, outerT
	}
	n := ncols
	if n == 0 {
		n = g.n(1, 3, "nitems")
	}
	for i := 0; i < n; i++ {
		if i > 0 {
			sb.WriteString(", ")
		}
		if ncols == 0 && !noFrom && g.p(8, "star") {
			sb.WriteString(g.one([]string{"*", g.scope[0] + ".*"}, "stark"))
			continue
		}
		sb.WriteString(g.expr(d))
		if g.p(4, "alias") {
			sb.WriteString(" AS " + g.one([]string{"a", "x", "c0", "``", "`select`", "'q'", "i", "é", "o1", "`a.b`"}, "al"))
		}
	}
	if !noFrom {
		sb.WriteString(" FROM " + fromText)
	}
	if g.p(2, "where") {
		sb.WriteString(" WHERE " + g.expr(d))
	}
	if g.p(4, "group") {
		sb.WriteString(" GROUP BY " + g.args(g.n(1, 2, "ngroup"), d-1) + g.one([]string{"", "", " WITH ROLLUP"}, "rollup"))
		if g.p(2, "having") {
			sb.WriteString(" HAVING " + g.expr(d))
		}
	}
	if g.p(12, "window") {
		sb.WriteString(" WINDOW w AS " + g.windowSpec(d))
	}
	if g.p(3, "order") {
		sb.WriteString(" ORDER BY " + g.one([]string{g.expr(d - 1), "1", "2", "0", "99", "-1", "NULL", "1 DESC, 1 ASC", "RAND()", "'a'"}, "ord") + g.one([]string{"", " DESC", " ASC"}, "odir"))
	}
	if g.p(4, "limit") {
		sb.WriteString(" LIMIT " + g.one([]string{"0", "1", "2", "18446744073709551615", "18446744073709551616", "1 OFFSET 1", "1, 1", "0, 0", "1 OFFSET 18446744073709551615", "-1", "1.5", "'1'", "NULL", "@a", "?", "9223372036854775808"}, "lim"))
	}
	if g.p(25, "lock") {
		sb.WriteString(g.one([]string{" FOR UPDATE", " LOCK IN SHARE MODE", " FOR SHARE NOWAIT", " FOR UPDATE SKIP LOCKED", " FOR UPDATE OF t"}, "lockk"))
	}
	return sb.String()
}

func (g *gram) query(d int) string {
	q := g.subquery(d, 0)
	if g.p(8, "deepexpr") {
		g.scope, g.stabs = []string{"t"}, []string{"t"}
		q = "SELECT " + g.deep() + g.one([]string{"", " FROM t", " FROM t WHERE " + g.deep()}, "deepfrom")
	}
	if g.p(6, "setop") {
		n := g.n(1, 3, "nset")
		k := g.n(1, 3, "setcols")
		q = "(" + g.subquery(d, k) + ")"
		for i := 0; i < n; i++ {
			q += g.one([]string{" UNION ", " UNION ALL ", " UNION DISTINCT ", " INTERSECT ", " EXCEPT ", " INTERSECT ALL ", " EXCEPT ALL "}, "setk") + "(" + g.subquery(d-1, k+g.n(0, 1, "aroff")*g.n(0, 1, "aroff2")) + ")"
		}
		if g.p(3, "setord") {
			q += " ORDER BY 1" + g.one([]string{"", " LIMIT 2", " DESC LIMIT 1 OFFSET 1"}, "setlim")
		}
	}
	if g.p(6, "cte") {
		name := g.one([]string{"cte", "c", "t", "mytable", "``"}, "ctename")
		cols := g.one([]string{"", "(n)", "(a, b)", "(n, n)"}, "ctecols")
		if g.p(2, "rec") {
			lim := g.one([]string{"3", "10", "100", "1001", "0", "-1", "NULL"}, "reclim")
			body := g.one([]string{
				"SELECT 1 UNION ALL SELECT n + 1 FROM " + name + " WHERE n < " + lim,
				"SELECT 1 UNION SELECT n + 1 FROM " + name + " WHERE n < " + lim,
				"SELECT 1, 'a' UNION ALL SELECT n + 1, CONCAT(s, 'a') FROM " + name + " WHERE n < " + lim,
				"SELECT " + g.lit() + " UNION ALL SELECT " + g.expr(1) + " FROM " + name + " WHERE n < " + lim + " LIMIT 20",
				"SELECT 1 UNION ALL SELECT n + 1 FROM " + name + " WHERE n < " + lim + " UNION ALL SELECT 7",
				"SELECT n + 1 FROM " + name + " WHERE n < 3 UNION ALL SELECT 1",
				"SELECT 1 UNION ALL SELECT (SELECT MAX(n) FROM " + name + ") + 1 FROM dual WHERE 1 = 0",
				"SELECT i FROM mytable UNION ALL SELECT n + 1 FROM " + name + " JOIN xy ON n = x WHERE n < " + lim,
			}, "recbody")
			if cols == "" || cols == "(a, b)" || cols == "(n, n)" {
				cols = g.one([]string{"(n)", "(n, s)", "(n)"}, "reccols")
			}
			q = "WITH RECURSIVE " + name + cols + " AS (" + body + ") " + g.one([]string{"SELECT * FROM " + name, "SELECT COUNT(*), MAX(n) FROM " + name, q}, "recuse")
		} else {
			q = "WITH " + name + cols + " AS (" + g.subquery(d-1, 0) + ")" + g.one([]string{"", ", c2 AS (SELECT * FROM " + name + ")"}, "cte2") + " " +
				g.one([]string{"SELECT * FROM " + name, "SELECT * FROM " + name + " a JOIN " + name + " b", q}, "cteuse")
		}
	}
	return q
}

func (g *gram) newName() string {
	n := g.one([]string{"n0", "n1", "n2", "n3", "N0", "``", "`n 4`", "mytable", "t", "é1", "`select`", "n0.n1", "mydb.n2", "foo.n3", "nosuchdb.n0",
		"aaaaaaaaaaaaaaaaaaaaaaaaaaaaaaaaaaaaaaaaaaaaaaaaaaaaaaaaaaaaaaaa", "aaaaaaaaaaaaaaaaaaaaaaaaaaaaaaaaaaaaaaaaaaaaaaaaaaaaaaaaaaaaaaaaa", "`n``5`", "`n.6`", "` `"}, "newname")
	g.names = append(g.names, n)
	return n
}

func (g *gram) colDef(i int) string {
	name := g.one([]string{fmt.Sprintf("c%d", i), fmt.Sprintf("c%d", i), "a", "b", "``", "`c c`", "pk", "id", "`select`", "C0"}, "cname")
	s := name + " " + g.one(colTypes, "ctype")
	if g.p(4, "notnull") {
		s += g.one([]string{" NOT NULL", " NULL", " NOT NULL NULL"}, "nn")
	}
	if g.p(4, "default") {
		s += " DEFAULT " + g.one([]string{g.lit(), "(" + g.expr(1) + ")", "NULL", "CURRENT_TIMESTAMP", "(UUID())", "(c0 + 1)", "NOW(6)", "(RAND())", "''", "0", "(1/0)", "(DEFAULT(c0))", "(" + g.col() + ")"}, "defv")
	}
	if g.p(8, "gen") {
		s += g.one([]string{" AS (", " GENERATED ALWAYS AS ("}, "genk") + g.one([]string{"c0 + 1", g.expr(1), "c0", "c" + fmt.Sprint(i), "CONCAT(c0, 'x')", "1/0", "NOW()", "(SELECT 1)", "c9"}, "genexpr") + ")" + g.one([]string{"", " STORED", " VIRTUAL", " STORED NOT NULL", " VIRTUAL UNIQUE"}, "stored")
	}
	if g.p(6, "colkey") {
		s += g.one([]string{" PRIMARY KEY", " UNIQUE", " KEY", " AUTO_INCREMENT", " AUTO_INCREMENT PRIMARY KEY", " UNIQUE KEY", " COMMENT 'x'", " CHECK (c0 > 0)", " REFERENCES parent(id)", " ON UPDATE CURRENT_TIMESTAMP", " SRID 4326", " COLLATE utf8mb4_0900_ai_ci",
			" CHARACTER SET latin1", " INVISIBLE", " COLUMN_FORMAT FIXED", " SERIAL DEFAULT VALUE"}, "colopt")
	}
	return s
}

func (g *gram) tableElems() string {
	n := g.n(1, 4, "ncols")
	parts := make([]string, 0, n+2)
	for i := 0; i < n; i++ {
		parts = append(parts, g.colDef(i))
	}
	for g.p(3, "tcons") {
		parts = append(parts, g.one([]string{"PRIMARY KEY (c0)", "PRIMARY KEY (c0, c1)", "KEY (c0)", "KEY k (c1, c0)", "UNIQUE KEY u (c0)", "UNIQUE (c1)", "KEY (c0(2))", "KEY (c0(0))", "KEY (c0(1000))", "KEY ((c0 + 1))", "KEY (c0 DESC)",
			"FULLTEXT KEY ft (c0)", "FULLTEXT (c0, c1)", "SPATIAL KEY sp (c0)", "VECTOR INDEX vi (c0)", "KEY (nosuch)", "KEY ()", "PRIMARY KEY ()", "KEY `` (c0)", "CHECK (c0 > 0)", "CONSTRAINT chk CHECK (c0 <> c1)", "CONSTRAINT `` CHECK (1)",
			"CHECK ((SELECT 1))", "CHECK (nosuch > 0)", "CHECK (" + g.expr(1) + ")", "FOREIGN KEY (c0) REFERENCES parent (id)", "CONSTRAINT fk FOREIGN KEY (c0) REFERENCES parent (v1) ON DELETE CASCADE ON UPDATE SET NULL",
			"FOREIGN KEY (c0) REFERENCES nosuch (id)", "FOREIGN KEY (c0, c1) REFERENCES two_pk (pk1, pk2)", "FOREIGN KEY (c0) REFERENCES parent (id, v1)", "FOREIGN KEY (c0) REFERENCES n0 (c0)", "FOREIGN KEY () REFERENCES parent ()",
			"KEY (c0) USING BTREE", "KEY (c0) COMMENT 'x'", "PRIMARY KEY (c0) USING HASH", "INDEX (c0) INVISIBLE"}, "tconsk"))
	}
	return strings.Join(parts, ", ")
}

func (g *gram) ddl() string {
	tb := func() string {
		if len(g.names) > 0 && g.p(2, "ownname") {
			return g.one(g.names, "own")
		}
		return g.table()
	}
	switch g.n(0, 27, "ddl") {
	case 0, 1, 2:
		return "CREATE " + g.one([]string{"", "", "TEMPORARY "}, "temp") + "TABLE " + g.one([]string{"", "IF NOT EXISTS "}, "ine") + g.newName() + " (" + g.tableElems() + ")" +
			g.one([]string{"", "", " ENGINE=InnoDB", " DEFAULT CHARSET=latin1", " COLLATE=utf8mb4_0900_ai_ci", " CHARACTER SET utf16 COLLATE utf8mb4_bin", " AUTO_INCREMENT=18446744073709551615", " AUTO_INCREMENT=-1", " COMMENT='x'",
				" PARTITION BY HASH(c0) PARTITIONS 4", " ROW_FORMAT=DYNAMIC", " AS SELECT 1", " SELECT * FROM mytable", " CHARSET=nosuch"}, "topt")
	case 3:
		return "CREATE TABLE " + g.newName() + g.one([]string{" LIKE " + g.table(), " AS " + g.subquery(1, 0), " SELECT " + g.expr(1) + " AS c0", " (c0 INT) AS " + g.subquery(1, 1), " LIKE " + g.newName()}, "ctk")
	case 4, 5, 6, 7:
		t := tb()
		return "ALTER TABLE " + t + " " + g.one([]string{
			"ADD COLUMN " + g.colDef(9), "ADD COLUMN " + g.colDef(9) + " FIRST", "ADD COLUMN " + g.colDef(9) + " AFTER " + g.col(), "ADD (" + g.colDef(8) + ", " + g.colDef(9) + ")",
			"DROP COLUMN " + g.col(), "DROP " + g.col(), "MODIFY COLUMN " + g.colDef(0), "MODIFY " + g.col() + " " + g.one(colTypes, "mtype"), "CHANGE COLUMN " + g.col() + " " + g.colDef(1), "RENAME COLUMN " + g.col() + " TO " + g.one([]string{"z", "``", "pk", "a"}, "rn"),
			"ALTER COLUMN " + g.col() + " SET DEFAULT " + g.lit(), "ALTER COLUMN " + g.col() + " DROP DEFAULT", "ADD PRIMARY KEY (" + g.col() + ")", "DROP PRIMARY KEY", "ADD INDEX ix (" + g.col() + ")", "ADD UNIQUE INDEX ux (" + g.col() + ", " + g.col() + ")",
			"ADD INDEX `` (" + g.col() + ")", "ADD INDEX ix (" + g.col() + "(3))", "ADD FULLTEXT INDEX ft (" + g.col() + ")", "ADD SPATIAL INDEX sp (" + g.col() + ")", "DROP INDEX " + g.one([]string{"ix", "ux", "PRIMARY", "kb", "ti", "tb", "mytable_s", "nosuch", "``", "fk1"}, "dix"),
			"RENAME INDEX " + g.one([]string{"ix", "kb", "ti", "nosuch"}, "rix") + " TO " + g.one([]string{"iy", "PRIMARY", "``", "kb"}, "rix2"), "RENAME TO " + g.newName(), "RENAME " + g.newName(),
			"ADD CONSTRAINT chk1 CHECK (" + g.expr(1) + ")", "DROP CHECK " + g.one([]string{"chk1", "chk", "nosuch"}, "dchk"), "DROP CONSTRAINT " + g.one([]string{"fk1", "chk1", "nosuch"}, "dcon"),
			"ADD CONSTRAINT fk2 FOREIGN KEY (" + g.col() + ") REFERENCES " + g.table() + " (" + g.one([]string{"id", "pk", "a", "i", "v1", "nosuch"}, "fkc") + ")", "DROP FOREIGN KEY " + g.one([]string{"fk1", "fk2", "nosuch"}, "dfk"),
			"AUTO_INCREMENT = " + g.one(numLits, "ai"), "CONVERT TO CHARACTER SET " + g.one(charsets, "cs"), "COLLATE " + g.one(collations, "coll"), "DEFAULT CHARACTER SET latin1", "ENGINE = InnoDB", "COMMENT = 'x'", "ORDER BY " + g.col(),
			"DISABLE KEYS", "ADD COLUMN z INT, DROP COLUMN z", "ADD COLUMN z INT, ADD INDEX iz (z), DROP COLUMN " + g.col(), "DROP COLUMN " + g.col() + ", DROP COLUMN " + g.col(), "ALTER INDEX ix INVISIBLE", "ALTER CHECK chk1 NOT ENFORCED",
			"MODIFY " + g.col() + " " + g.one(colTypes, "mtype2") + " NOT NULL", "MODIFY " + g.col() + " INT AUTO_INCREMENT", "ADD COLUMN g2 INT AS (" + g.expr(1) + ") STORED", "ADD COLUMN g3 INT AS (" + g.col() + " + 1) VIRTUAL, ADD INDEX ig (g3)",
		}, "altk")
	case 8:
		return "DROP " + g.one([]string{"TABLE ", "TABLE IF EXISTS ", "TEMPORARY TABLE ", "VIEW ", "VIEW IF EXISTS "}, "dropk") + tb() + g.one([]string{"", "", ", " + tb(), " CASCADE"}, "drop2")
	case 9:
		return "RENAME TABLE " + tb() + " TO " + g.newName() + g.one([]string{"", ", " + tb() + " TO " + tb()}, "rn2")
	case 10:
		return "TRUNCATE " + g.one([]string{"TABLE ", ""}, "tt") + tb()
	case 11, 12:
		return "CREATE " + g.one([]string{"", "UNIQUE ", "FULLTEXT ", "SPATIAL ", "VECTOR "}, "ixk") + "INDEX " + g.one([]string{"ix", "iy", "``", "PRIMARY", "kb"}, "ixn") + " ON " + tb() + " (" +
			g.one([]string{g.col(), g.col() + ", " + g.col(), g.col() + "(3)", g.col() + "(0)", g.col() + " DESC", "(" + g.expr(1) + ")", ""}, "ixcols") + ")" + g.one([]string{"", " USING BTREE", " COMMENT 'x'"}, "ixopt")
	case 13:
		return "DROP INDEX " + g.one([]string{"ix", "iy", "kb", "ti", "tb", "PRIMARY", "`PRIMARY`", "mytable_s", "nosuch", "``", "w_vc"}, "dixn") + " ON " + tb()
	case 14, 15:
		return "CREATE " + g.one([]string{"", "OR REPLACE ", "ALGORITHM=MERGE ", "DEFINER=root@localhost SQL SECURITY INVOKER "}, "viewopt") + "VIEW " + g.newName() + g.one([]string{"", "", " (a)", " (a, b)", " (a, a)"}, "vcols") + " AS " +
			g.one([]string{g.query(1), g.subquery(1, 0), "SELECT * FROM myview", "SELECT * FROM " + tb(), "SELECT 1 AS ``", "SELECT ?"}, "vbody") + g.one([]string{"", " WITH CHECK OPTION"}, "wco")
	case 16, 17:
		body := g.one([]string{"SET new." + g.col() + " = " + g.expr(1), "SET new.v = new.v + 1", "INSERT INTO xy VALUES (new.u, 1)", "UPDATE ab SET b = b + 1", "DELETE FROM uv WHERE u = old.u", "BEGIN SET new.v = 1; SET new.v = new.v + 1; END",
			"SET @a = old.v", "SIGNAL SQLSTATE '45000' SET MESSAGE_TEXT = 'x'", "BEGIN DECLARE x INT; SET x = new.v; INSERT INTO ab VALUES (x, x); END", "CALL p1(new.v)", "INSERT INTO uv VALUES (new.u + 100, new.v)", "SET new.nosuch = 1", "SELECT 1", "BEGIN END",
			"IF new.v > 1 THEN SET new.v = 0; END IF", "DROP TABLE xy", "BEGIN INSERT INTO ab VALUES (new.u, 1) ON DUPLICATE KEY UPDATE b = b + 1; END"}, "tbody")
		return "CREATE TRIGGER " + g.one([]string{"tr0", "tr1", "trig1", "``", "mydb.tr2"}, "trn") + " " + g.one([]string{"BEFORE", "AFTER"}, "trt") + " " + g.one([]string{"INSERT", "UPDATE", "DELETE"}, "tre") + " ON " + g.one([]string{"uv", "ab", "xy", tb(), "myview"}, "trtab") +
			" FOR EACH ROW " + g.one([]string{"", "", "FOLLOWS trig1 ", "PRECEDES tr0 ", "FOLLOWS nosuch "}, "trord") + body
	case 18:
		return "DROP TRIGGER " + g.one([]string{"", "IF EXISTS "}, "ife") + g.one([]string{"tr0", "tr1", "trig1", "nosuch", "``", "mydb.trig1"}, "dtr")
	case 19, 20, 21:
		params := g.one([]string{"", "x INT", "IN x INT, OUT y INT", "INOUT x VARCHAR(10)", "x INT, x INT", "x " + g.one(colTypes, "ptype"), "`` INT", "OUT y DECIMAL(65,30)"}, "params")
		body := g.one([]string{"SELECT 1", "SELECT x + 1", "BEGIN SELECT 1; SELECT 2; END", "BEGIN DECLARE v INT DEFAULT 0; WHILE v < 3 DO SET v = v + 1; END WHILE; SELECT v; END", "BEGIN DECLARE v INT; SET v = " + g.expr(1) + "; SELECT v; END",
			"BEGIN DECLARE c CURSOR FOR SELECT i FROM mytable; DECLARE v INT; OPEN c; FETCH c INTO v; CLOSE c; SELECT v; END", "BEGIN DECLARE c CURSOR FOR SELECT i FROM mytable; DECLARE v INT; OPEN c; FETCH c INTO v; FETCH c INTO v; FETCH c INTO v; FETCH c INTO v; END",
			"BEGIN DECLARE CONTINUE HANDLER FOR NOT FOUND SET @a = 1; SELECT i INTO @b FROM mytable WHERE i > 100; END", "BEGIN DECLARE EXIT HANDLER FOR SQLEXCEPTION SELECT 'err'; INSERT INTO mytable VALUES (1, 'dup'); END",
			"BEGIN l: LOOP LEAVE l; END LOOP; END", "BEGIN l: LOOP ITERATE m; END LOOP; END", "BEGIN REPEAT SET @a = 1; UNTIL 1 END REPEAT; END", "BEGIN IF x THEN SELECT 1; ELSEIF x IS NULL THEN SELECT 2; ELSE SELECT 3; END IF; END",
			"BEGIN CASE x WHEN 1 THEN SELECT 1; END CASE; END", "CALL p1(1)", "CALL n0()", "BEGIN SET y = x; END", "INSERT INTO xy VALUES (x, x)", "BEGIN DECLARE x INT; DECLARE x INT; END", "BEGIN SIGNAL SQLSTATE '45000'; END",
			"BEGIN DECLARE cond CONDITION FOR SQLSTATE '45000'; SIGNAL cond SET MESSAGE_TEXT = 'm', MYSQL_ERRNO = 70000; END", "BEGIN START TRANSACTION; INSERT INTO xy VALUES (9, 9); ROLLBACK; END", "BEGIN DROP TABLE IF EXISTS n0; CREATE TABLE n0 (c0 INT); END",
			"BEGIN PREPARE s FROM 'SELECT 1'; EXECUTE s; END", "SELECT " + g.expr(1), "BEGIN RETURN 1; END", "BEGIN SELECT x INTO y; END", "BEGIN DECLARE v VARCHAR(2) DEFAULT 'abc'; SELECT v; END", "BEGIN END"}, "pbody")
		return "CREATE " + g.one([]string{"", "OR REPLACE ", "DEFINER=`root`@`localhost` "}, "popt") + "PROCEDURE " + g.one([]string{"n0", "n1", "p1", "p2", "``", "mydb.p3", "nosuchdb.p4"}, "pname") + "(" + params + ") " +
			g.one([]string{"", "", "COMMENT 'x' ", "DETERMINISTIC ", "SQL SECURITY INVOKER ", "READS SQL DATA "}, "pchar") + body
	case 22:
		return "DROP PROCEDURE " + g.one([]string{"", "IF EXISTS "}, "ife") + g.one([]string{"n0", "n1", "p1", "p2", "nosuch", "``", "mydb.p1"}, "dpn")
	case 23:
		return g.one([]string{"CREATE DATABASE ", "CREATE DATABASE IF NOT EXISTS ", "CREATE SCHEMA ", "DROP DATABASE ", "DROP DATABASE IF EXISTS ", "DROP SCHEMA ", "ALTER DATABASE "}, "dbk") + g.one([]string{"db2", "db2", "foo", "mydb", "``", "information_schema", "mysql", "`d b`", "nosuch"}, "dbn") +
			g.one([]string{"", "", " CHARACTER SET latin1", " COLLATE utf8mb4_0900_ai_ci", " DEFAULT CHARSET nosuch"}, "dbopt")
	case 24:
		return "CREATE EVENT " + g.one([]string{"ev0", "``"}, "evn") + " ON SCHEDULE " + g.one([]string{"EVERY 1 DAY", "AT CURRENT_TIMESTAMP + INTERVAL 1 DAY", "AT '2000-01-01'", "EVERY 0 SECOND", "EVERY -1 DAY", "EVERY 1 DAY STARTS '2020-01-01' ENDS '2019-01-01'", "AT " + g.lit(), "EVERY " + g.lit() + " HOUR"}, "sched") +
			g.one([]string{"", " ON COMPLETION PRESERVE", " DISABLE", " COMMENT 'x'"}, "evopt") + " DO " + g.one([]string{"SELECT 1", "INSERT INTO xy VALUES (9, 9)", "BEGIN END"}, "evbody")
	case 25:
		return g.one([]string{"DROP EVENT ev0", "DROP EVENT IF EXISTS nosuch", "ALTER EVENT ev0 DISABLE", "ALTER EVENT ev0 RENAME TO ev1", "ALTER EVENT ev0 ON SCHEDULE EVERY 2 DAY", "SHOW EVENTS", "SHOW CREATE EVENT ev0"}, "evk")
	case 26:
		u := g.one([]string{"u1", "u1@localhost", "'u1'@'%'", "``@``", "''@''", "root@localhost", "'u 2'", "u1@'127.0.0.1'", "CURRENT_USER()", "r1", "aaaaaaaaaaaaaaaaaaaaaaaaaaaaaaaaaaaaaaaaaaaaaaaaaaaaaaaaaaaaaaaaaa@h"}, "user")
		return g.one([]string{"CREATE USER " + u, "CREATE USER IF NOT EXISTS " + u + " IDENTIFIED BY 'pw'", "CREATE USER " + u + " IDENTIFIED WITH mysql_native_password BY ''", "CREATE USER " + u + " IDENTIFIED WITH nosuchplugin AS 'x'", "DROP USER " + u, "DROP USER IF EXISTS " + u,
			"ALTER USER " + u + " IDENTIFIED BY 'pw2'", "RENAME USER " + u + " TO u9", "CREATE ROLE r1", "DROP ROLE r1", "GRANT r1 TO " + u, "REVOKE r1 FROM " + u, "SET DEFAULT ROLE r1 TO " + u,
			"GRANT SELECT ON *.* TO " + u, "GRANT ALL ON mydb.* TO " + u + " WITH GRANT OPTION", "GRANT SELECT (i), INSERT (s) ON mydb.mytable TO " + u, "GRANT SELECT ON mydb.nosuch TO " + u, "GRANT EXECUTE ON PROCEDURE mydb.p1 TO " + u, "GRANT nosuchpriv ON *.* TO " + u,
			"REVOKE SELECT ON *.* FROM " + u, "REVOKE ALL PRIVILEGES, GRANT OPTION FROM " + u, "REVOKE INSERT ON mydb.mytable FROM " + u, "SHOW GRANTS FOR " + u, "SHOW GRANTS", "SHOW GRANTS FOR " + u + " USING r1", "FLUSH PRIVILEGES", "GRANT PROXY ON root@localhost TO " + u,
			"SELECT user, host FROM mysql.user", "SELECT * FROM mysql.db", "SELECT * FROM mysql.tables_priv", "SHOW CREATE USER " + u, "SET PASSWORD FOR " + u + " = 'x'"}, "acct")
	default:
		return "ANALYZE TABLE " + tb() + g.one([]string{"", " UPDATE HISTOGRAM ON " + g.col() + " USING DATA '{\"row_count\": 1}'", " UPDATE HISTOGRAM ON " + g.col() + " USING DATA " + g.strLit(), " DROP HISTOGRAM ON " + g.col(), " UPDATE HISTOGRAM ON " + g.col() + " WITH 10 BUCKETS"}, "an")
	}
}

func (g *gram) setScopeFor(tb string) {
	g.scope, g.stabs = []string{tb}, []string{tb}
}

func (g *gram) dml() string {
	tb := g.table()
	g.setScopeFor(tb)
	cols := fixCols[tb]
	if len(cols) == 0 {
		cols = []string{"c0", "c1"}
	}
	rowvals := func(n int) string {
		a := make([]string, n)
		for i := range a {
			switch g.n(0, 5, "valk") {
			case 0:
				a[i] = g.expr(1)
			case 1:
				a[i] = "DEFAULT"
			default:
				a[i] = g.lit()
			}
		}
		return "(" + strings.Join(a, ", ") + ")"
	}
	switch g.n(0, 13, "dml") {
	case 0, 1, 2, 3:
		n := len(cols)
		collist := ""
		if g.p(2, "collist") {
			n = g.n(1, len(cols), "ncl")
			cs := make([]string, n)
			for i := range cs {
				cs[i] = cols[(i+g.n(0, len(cols)-1, "cloff"))%len(cols)]
			}
			collist = " (" + strings.Join(cs, ", ") + ")"
		}
		if g.p(12, "wrongn") {
			n += g.n(-1, 1, "dn")
			if n < 0 {
				n = 0
			}
		}
		rows := make([]string, g.n(1, 3, "nrows"))
		for i := range rows {
			rows[i] = rowvals(n)
		}
		s := g.one([]string{"INSERT INTO ", "INSERT INTO ", "INSERT IGNORE INTO ", "REPLACE INTO ", "INSERT "}, "insk") + tb + collist + " VALUES " + strings.Join(rows, ", ")
		if g.p(4, "odku") {
			s += " ON DUPLICATE KEY UPDATE " + g.one(cols, "oc") + " = " + g.one([]string{g.expr(1), "VALUES(" + g.one(cols, "oc2") + ")", "new." + g.one(cols, "oc3"), g.one(cols, "oc4") + " + 1", "DEFAULT"}, "ov")
		}
		return s
	case 4:
		return g.one([]string{"INSERT INTO ", "REPLACE INTO ", "INSERT IGNORE INTO "}, "insk") + tb + g.one([]string{"", " (" + cols[0] + ")"}, "cl") + " " + g.one([]string{g.subquery(1, 0), "SELECT * FROM " + tb, "SELECT * FROM " + g.table(), "TABLE " + tb, "VALUES ROW(1, 2), ROW(3, 4)", g.query(1)}, "inssrc") +
			g.one([]string{"", "", " ON DUPLICATE KEY UPDATE " + cols[0] + " = " + cols[0] + " + 100"}, "odku")
	case 5:
		return "INSERT INTO " + tb + " SET " + g.one(cols, "sc") + " = " + g.expr(1) + g.one([]string{"", ", " + g.one(cols, "sc2") + " = " + g.lit()}, "set2")
	case 6, 7, 8:
		s := "UPDATE " + g.one([]string{"", "", "IGNORE "}, "ign") + tb + " SET " + g.one(cols, "uc") + " = " + g.one([]string{g.expr(2), g.lit(), "DEFAULT", g.one(cols, "uc1") + " + 1", "(SELECT MAX(" + cols[0] + ") FROM " + tb + ")", "NULL"}, "uv")
		if g.p(3, "set2") {
			s += ", " + g.one(cols, "uc2") + " = " + g.expr(1)
		}
		if g.p(2, "where") {
			s += " WHERE " + g.expr(2)
		}
		if g.p(5, "uord") {
			s += " ORDER BY " + g.one(cols, "uo") + g.one([]string{"", " DESC"}, "ud") + " LIMIT " + g.one([]string{"1", "0", "18446744073709551616", "-1"}, "ul")
		}
		return s
	case 9:
		t2 := g.table()
		g.scope, g.stabs = []string{tb, t2}, []string{tb, t2}
		return "UPDATE " + tb + g.one([]string{" JOIN ", " LEFT JOIN ", ", "}, "uj") + t2 + g.one([]string{"", " ON " + g.expr(1)}, "uon") + " SET " + g.col() + " = " + g.expr(1) + g.one([]string{"", " WHERE " + g.expr(1)}, "uw")
	case 10, 11:
		s := "DELETE " + g.one([]string{"", "", "IGNORE ", "QUICK "}, "dopt") + "FROM " + tb
		if g.p(2, "where") {
			s += " WHERE " + g.expr(2)
		}
		if g.p(5, "dord") {
			s += " ORDER BY " + g.one(cols, "do") + " LIMIT " + g.one([]string{"1", "0", "2"}, "dl")
		}
		return s
	case 12:
		t2 := g.table()
		g.scope, g.stabs = []string{tb, t2}, []string{tb, t2}
		return "DELETE " + g.one([]string{tb, tb + ", " + t2, t2, "nosuch", tb + ".*"}, "dtargets") + " FROM " + tb + " JOIN " + t2 + " ON " + g.expr(1) + g.one([]string{"", " WHERE " + g.expr(1)}, "dw")
	default:
		return g.one([]string{"WITH c AS (SELECT 1 AS n) UPDATE " + tb + " SET " + cols[0] + " = (SELECT n FROM c)", "WITH c AS (" + g.subquery(1, 1) + ") DELETE FROM " + tb + " WHERE " + cols[0] + " IN (SELECT * FROM c)",
			"INSERT INTO " + tb + " WITH c AS (SELECT * FROM " + tb + ") SELECT * FROM c", "LOAD DATA INFILE 'nosuch.csv' INTO TABLE " + tb, "SELECT * FROM " + tb + " INTO @a, @b", "SELECT " + cols[0] + " FROM " + tb + " LIMIT 1 INTO @a",
			"TABLE " + tb + " ORDER BY 1 LIMIT 1", "VALUES ROW(1, 'a'), ROW(" + g.lit() + ", " + g.lit() + ")", "HANDLER " + tb + " OPEN", "CHECK TABLE " + tb, "OPTIMIZE TABLE " + tb, "REPAIR TABLE " + tb, "CHECKSUM TABLE " + tb}, "dmlmisc")
	}
}

func (g *gram) set() string {
	v := g.one([]string{g.lit(), g.lit(), g.expr(1), "DEFAULT", "ON", "OFF", quote(g.one(sqlModes, "mode")), g.one(charsets, "cs"), "(SELECT 1)", "@@global." + g.one(sysvars, "sv0"), g.one(collations, "coll")}, "setv")
	switch g.n(0, 12, "set") {
	case 0, 1:
		return "SET @" + g.one([]string{"a", "b", "v1", "`x y`", "''"}, "uv") + g.one([]string{" = ", " := "}, "asg") + g.one([]string{g.expr(2), g.lit(), "(" + g.subquery(1, 1) + ")", "(" + g.subquery(1, 2) + ")"}, "uvv")
	case 2, 3, 4:
		return "SET " + g.one([]string{"", "SESSION ", "@@", "@@session.", "LOCAL ", "@@local."}, "sscope") + g.one(sysvars, "sv") + " = " + v
	case 5:
		return "SET " + g.one([]string{"GLOBAL ", "@@global.", "PERSIST ", "@@persist.", "PERSIST_ONLY "}, "gscope") + g.one(sysvars, "sv") + " = " + v
	case 6:
		return "SET NAMES " + g.one([]string{g.one(charsets, "cs"), quote(g.one(charsets, "cs2")), "DEFAULT", g.one(charsets, "cs3") + " COLLATE " + g.one(collations, "coll")}, "names")
	case 7:
		return g.one([]string{"SET CHARACTER SET ", "SET CHARSET "}, "csk") + g.one([]string{g.one(charsets, "cs"), "DEFAULT", "''"}, "csv")
	case 8:
		return "SET " + g.one([]string{"", "SESSION ", "GLOBAL "}, "tscope") + "TRANSACTION " + g.one([]string{"READ ONLY", "READ WRITE", "ISOLATION LEVEL SERIALIZABLE", "ISOLATION LEVEL READ UNCOMMITTED", "ISOLATION LEVEL REPEATABLE READ, READ ONLY", "READ ONLY, READ WRITE"}, "tchar")
	case 9:
		return "SET sql_mode = " + quote(g.one(sqlModes, "m1")+g.one([]string{"", "," + g.one(sqlModes, "m2")}, "m2k"))
	case 10:
		return "SET @a = 1, @@session.sql_select_limit = " + g.one(numLits, "sl") + ", autocommit = " + g.one([]string{"0", "1", "2", "'x'", "NULL"}, "ac")
	case 11:
		return "SET " + g.one(sysvars, "sv") + " = " + v + ", " + g.one(sysvars, "sv2") + " = " + g.lit()
	default:
		return "SET " + g.one([]string{"new.a = 1", "x = 1", "@@nosuch.autocommit = 1", "@@session.nosuch = 1", "@@global.version = 'x'", "autocommit = DEFAULT, autocommit = DEFAULT", "PASSWORD = 'x'", "ROLE ALL", "ROLE NONE", "RESOURCE GROUP g"}, "setodd")
	}
}

func (g *gram) show() string {
	like := g.one([]string{"", "", " LIKE " + g.strLit(), " LIKE '%'", " WHERE " + g.expr(1), " LIKE 'my%'", " WHERE `Table` = 'x'", " WHERE Variable_name LIKE 'a%'", " LIKE NULL", " WHERE 1 IN (SELECT 1)"}, "like")
	tb := g.table()
	switch g.n(0, 30, "show") {
	case 0:
		return "SHOW " + g.one([]string{"", "FULL ", "EXTENDED "}, "full") + "TABLES" + g.one([]string{"", " FROM mydb", " IN foo", " FROM nosuch", " FROM information_schema", " FROM ``", " FROM mydb AS OF " + g.lit()}, "stfrom") + like
	case 1:
		return "SHOW " + g.one([]string{"", "FULL ", "EXTENDED FULL "}, "full") + g.one([]string{"COLUMNS", "FIELDS"}, "cf") + g.one([]string{" FROM ", " IN "}, "fi") + tb + g.one([]string{"", " FROM mydb", " IN nosuch"}, "scdb") + like
	case 2:
		return "SHOW CREATE TABLE " + tb
	case 3:
		return "SHOW CREATE " + g.one([]string{"VIEW myview", "VIEW " + tb, "PROCEDURE p1", "PROCEDURE nosuch", "TRIGGER trig1", "TRIGGER nosuch", "DATABASE mydb", "DATABASE IF NOT EXISTS nosuch", "SCHEMA foo", "EVENT ev0", "FUNCTION f", "TABLE mydb.t AS OF 'x'", "USER root@localhost", "PROCEDURE ``"}, "sck")
	case 4:
		return "SHOW " + g.one([]string{"INDEX", "INDEXES", "KEYS", "EXTENDED INDEX"}, "ik") + " FROM " + tb + g.one([]string{"", " FROM mydb", " WHERE Key_name = 'PRIMARY'", " WHERE " + g.expr(1)}, "siw")
	case 5:
		return "SHOW " + g.one([]string{"", "GLOBAL ", "SESSION "}, "vs") + "VARIABLES" + like
	case 6:
		return "SHOW " + g.one([]string{"", "GLOBAL ", "SESSION "}, "vs") + "STATUS" + like
	case 7:
		return "SHOW TABLE STATUS" + g.one([]string{"", " FROM mydb", " IN nosuch"}, "tsdb") + like
	case 8:
		return "SHOW " + g.one([]string{"DATABASES", "SCHEMAS"}, "dbk") + like
	case 9:
		return "SHOW " + g.one([]string{"TRIGGERS", "TRIGGERS FROM mydb", "TRIGGERS IN nosuch", "EVENTS", "PROCEDURE STATUS", "FUNCTION STATUS", "EVENTS FROM foo"}, "trk") + like
	case 10:
		return "SHOW " + g.one([]string{"WARNINGS", "ERRORS", "WARNINGS LIMIT 1", "WARNINGS LIMIT 1, 1", "COUNT(*) WARNINGS", "COUNT(*) ERRORS", "WARNINGS LIMIT 18446744073709551616"}, "wk")
	case 11:
		return "SHOW " + g.one([]string{"PROCESSLIST", "FULL PROCESSLIST", "ENGINES", "PLUGINS", "PRIVILEGES", "CHARSET", "CHARACTER SET", "COLLATION", "MASTER STATUS", "BINARY LOGS", "BINARY LOG STATUS", "REPLICA STATUS", "SLAVE STATUS", "REPLICAS", "ENGINE INNODB STATUS", "OPEN TABLES", "PROFILES",
			"STORAGE ENGINES", "BINLOG EVENTS", "RELAYLOG EVENTS", "CREATE TABLE", "TABLES FROM", "nosuch", "FUNCTION CODE f", "PROCEDURE CODE p1"}, "smisc") + like
	case 12, 13:
		return g.one([]string{"DESCRIBE ", "DESC ", "EXPLAIN ", "EXPLAIN FORMAT=TREE ", "EXPLAIN FORMAT=JSON ", "EXPLAIN ANALYZE ", "EXPLAIN PLAN ", "EXPLAIN FORMAT=DEBUG ", "DESCRIBE FORMAT=TREE ", "EXPLAIN FORMAT=nosuch ", "EXPLAIN EXTENDED "}, "exk") + g.one([]string{tb, g.query(2), g.dml(), tb + " " + g.col(), g.query(1), "SELECT 1", g.ddl()}, "exw")
	case 14, 15, 16, 17, 18:
		is := g.one([]string{"tables", "columns", "schemata", "statistics", "table_constraints", "key_column_usage", "referential_constraints", "check_constraints", "views", "routines", "parameters", "triggers", "events", "character_sets", "collations",
			"collation_character_set_applicability", "engines", "processlist", "user_privileges", "schema_privileges", "table_privileges", "column_privileges", "partitions", "files", "innodb_tables", "innodb_columns", "innodb_indexes", "keywords", "plugins", "profiling",
			"column_statistics", "st_geometry_columns", "st_spatial_reference_systems", "optimizer_trace", "resource_groups", "tablespaces", "user_attributes", "role_table_grants", "enabled_roles", "applicable_roles", "administrable_role_authorizations",
			"view_table_usage", "view_routine_usage", "columns_extensions", "tables_extensions", "schemata_extensions", "table_constraints_extensions", "innodb_metrics", "innodb_buffer_page", "innodb_trx", "innodb_foreign", "innodb_datafiles", "innodb_fields", "innodb_virtual", "nosuch"}, "istab")
		g.scope, g.stabs = []string{"x"}, []string{"?"}
		return "SELECT " + g.one([]string{"*", "COUNT(*)", "*, " + g.expr(1)}, "issel") + " FROM information_schema." + is + " x" + g.one([]string{"", "", " WHERE table_schema = 'mydb'", " WHERE table_name = " + g.strLit(), " WHERE " + g.expr(1), " ORDER BY 1, 2 LIMIT 3", " WHERE table_schema = 'mydb' AND table_name = 'w' ORDER BY 1",
			" JOIN information_schema.columns c USING (table_name) LIMIT 5", " WHERE table_schema IN (SELECT schema_name FROM information_schema.schemata)", " GROUP BY 1"}, "iswhere")
	case 19:
		return "USE " + g.one([]string{"mydb", "foo", "nosuch", "information_schema", "mysql", "``", "`mydb/main`", "db2", "MYDB"}, "usedb")
	case 20:
		return "KILL " + g.one([]string{"", "QUERY ", "CONNECTION "}, "kk") + g.one([]string{"0", "1", "99999", "-1", "18446744073709551616", "'a'", "NULL", "CONNECTION_ID()"}, "kid")
	case 21:
		return g.one([]string{"FLUSH TABLES", "FLUSH LOGS", "FLUSH STATUS", "FLUSH PRIVILEGES", "FLUSH NO_WRITE_TO_BINLOG TABLES WITH READ LOCK", "FLUSH BINARY LOGS", "RESET MASTER", "RESET REPLICA", "RESET PERSIST", "PURGE BINARY LOGS TO 'x'", "FLUSH HOSTS", "FLUSH nosuch",
			"START REPLICA", "STOP REPLICA", "CHANGE REPLICATION SOURCE TO SOURCE_HOST='x'", "CHANGE REPLICATION FILTER REPLICATE_DO_TABLE=(mydb.t)", "SHOW REPLICA STATUS", "BINLOG 'x'"}, "flush")
	default:
		return g.query(2)
	}
}

func (g *gram) prepare() string {
	name := g.one([]string{"s1", "s2", "``", "`s 3`", "S1"}, "stmtname")
	switch g.n(0, 7, "prep") {
	case 0, 1, 2:
		src := g.one([]string{quote(g.one(strLits, "psrc")), "@a", "@nosuch", quote("SELECT ? + " + g.lit()), quote("SELECT * FROM mytable WHERE i " + g.one([]string{"=", "IN", "<", "BETWEEN ? AND", "LIKE"}, "pop") + " ?"), quote("SELECT " + strings.Repeat("?, ", g.n(0, 70, "nq")) + "?"),
			quote("INSERT INTO xy VALUES (?, ?)"), quote("SELECT * FROM xy LIMIT ? OFFSET ?"), quote("SELECT CAST(? AS " + g.one(castTypes, "pct") + ")"), quote("SELECT " + g.one(registryNames(), "pfn") + "(?)"), quote("CREATE TABLE n0 (c0 INT DEFAULT ?)"), quote("SELECT ? FROM (SELECT ?) x WHERE ? GROUP BY ? ORDER BY ?"),
			quote("PREPARE s1 FROM 'SELECT 1'"), quote("EXECUTE s1"), quote("SET @a = ?"), quote("CALL p1(?)"), quote("SELECT * FROM ti WHERE b IN (?, ?)"), quote("SELECT :v1"), quote("SELECT ?; SELECT ?"), quote("SHOW TABLES LIKE ?"), quote("USE mydb"), quote(g.queryNoQuote())}, "psrc")
		return "PREPARE " + name + " FROM " + src
	case 3, 4, 5:
		u := ""
		if n := g.n(0, 4, "nusing"); n > 0 {
			vs := make([]string, n)
			for i := range vs {
				vs[i] = "@" + g.one([]string{"a", "b", "v1", "nosuch"}, "uvar")
			}
			u = " USING " + strings.Join(vs, ", ")
		}
		return "EXECUTE " + name + u
	case 6:
		return g.one([]string{"DEALLOCATE PREPARE ", "DROP PREPARE "}, "dk") + name
	default:
		return "EXECUTE " + name + " USING " + g.one([]string{"1", "'a'", "@a, 1", "NULL", "@@autocommit"}, "badusing")
	}
}

func registryNames() []string {
	out := make([]string, 0, len(registry))
	for _, f := range registry {
		if !neverCall[f.name] {
			out = append(out, f.name)
		}
	}
	return out
}

// queryNoQuote draws a small query without single quotes (to embed into PREPARE ... FROM '...').
func (g *gram) queryNoQuote() string {
	q := g.subquery(1, 0)
	if strings.ContainsAny(q, "'\\") {
		return "SELECT * FROM t WHERE pk = ?"
	}
	return q
}

func (g *gram) callStmt() string {
	return "CALL " + g.one([]string{"p1", "p1", "n0", "n1", "p2", "nosuch", "mydb.p1", "foo.p1", "``", "P1"}, "cname") + g.one([]string{"(" + g.args(g.n(0, 3, "ncargs"), 1) + ")", "", "(@a)", "(@a, @b)", "(1)", "(NULL)", "('x')", "(DEFAULT)", "((SELECT 1))", "(*)"}, "cargs") +
		g.one([]string{"", "", " AS OF 'x'"}, "casof")
}

func (g *gram) txn() string {
	return g.one([]string{"BEGIN", "START TRANSACTION", "START TRANSACTION READ ONLY", "START TRANSACTION READ WRITE", "START TRANSACTION WITH CONSISTENT SNAPSHOT", "START TRANSACTION READ ONLY, READ WRITE", "COMMIT", "ROLLBACK", "COMMIT AND CHAIN", "ROLLBACK AND NO CHAIN RELEASE",
		"SAVEPOINT sp1", "SAVEPOINT ``", "ROLLBACK TO sp1", "ROLLBACK TO SAVEPOINT nosuch", "RELEASE SAVEPOINT sp1", "RELEASE SAVEPOINT nosuch", "SET autocommit = 0", "SET autocommit = 1", "LOCK TABLES t READ", "LOCK TABLES t WRITE, t1 READ", "LOCK TABLES nosuch READ", "UNLOCK TABLES",
		"LOCK TABLES t AS x READ LOCAL", "XA START 'x'", "SET TRANSACTION READ ONLY", "SET SESSION TRANSACTION READ ONLY", "SET SESSION TRANSACTION READ WRITE", "BEGIN WORK", "COMMIT WORK", "START TRANSACTION; COMMIT", "SET @@session.transaction_read_only = 1"}, "txn")
}

func (g *gram) misc() string {
	return g.one([]string{"", " ", ";", ";;", "SELECT", "SELECT 1;", "SELECT 1; SELECT 2", "select 1 /* c */", "/* only a comment */", "-- c", "# c", "SELECT 1 -- c", "/*! SELECT 1 */", "/*!50000 SELECT */ 1", "/*+ hint */ SELECT 1", "SELECT /*+ */ 1", "SELECT 1 FROM dual WHERE 1",
		"DO 1", "DO " + g.expr(1), "SELECT 1 INTO @a", "SELECT 1, 2 INTO @a", "SELECT 1 INTO @a, @b", "SELECT * FROM mytable INTO @a, @b", "SELECT 1 FROM", "SELECT FROM t", "SELECT * FROM", "SELECT * t", "SELEC 1", "SELECT ,", "SELECT (", "SELECT )", "SELECT 1 AS", "SELECT 'unterminated",
		"SELECT `unterminated", "SELECT \"unterminated", "SELECT /* unterminated", "SELECT 1 /*", "SELECT 0x", "SELECT 1e", "SELECT 1..2", "SELECT .", "SELECT @", "SELECT @@", "SELECT @@.", "SELECT @@global.", "SELECT ?", "SELECT :a", "SELECT ?, ?", "SELECT * FROM t WHERE pk = ?", "SELECT \\N", "SELECT {x 1}", "SELECT {d}",
		"\x00", "SELECT \x00", "SELECT 1\x00", "\xff\xfe", "SELECT \xff", "\ufeffSELECT 1", "SELECT 1", "SELECT　1", "ＳＥＬＥＣＴ 1", "SELECT 1 WHERE", "SELECT * FROM t t t", "SELECT * FROM t AS", "SELECT * FROM t ORDER", "SELECT * FROM t LIMIT", "SELECT * FROM (t)", "SELECT * FROM ((t))", "SELECT * FROM (t, t1)",
		"SELECT * FROM (SELECT 1)", "SELECT * FROM (SELECT 1) AS ``", "SELECT * FROM (VALUES ROW(1)) x", "SELECT * FROM (VALUES ROW(1), ROW(1, 2)) x", "SELECT * FROM (TABLE t) x", "TABLE", "VALUES", "VALUES ROW()", "VALUES ROW(1), ROW()", "VALUES (1)", "WITH", "WITH c AS (SELECT 1)", "WITH c AS (SELECT 1) SELECT * FROM c, c, c",
		"WITH c AS (SELECT * FROM c) SELECT * FROM c", "WITH RECURSIVE c AS (SELECT * FROM c) SELECT * FROM c", "WITH RECURSIVE c AS (SELECT 1) SELECT * FROM c", "WITH c AS (SELECT 1), c AS (SELECT 2) SELECT * FROM c", "SELECT 1 UNION", "SELECT 1 UNION SELECT 1, 2", "(SELECT 1) UNION (SELECT 2) ORDER BY nosuch", "((SELECT 1))", "(((SELECT 1)) UNION (SELECT 2))",
		"SELECT 1 UNION SELECT 2 INTERSECT SELECT 3 EXCEPT SELECT 4", "SELECT * FROM t NATURAL JOIN t", "SELECT * FROM t JOIN t", "SELECT * FROM t a JOIN t a", "SELECT * FROM t JOIN t1 USING ()", "SELECT * FROM t FULL OUTER JOIN t1 ON t.pk = t1.pk", "SELECT t.* FROM t1", "SELECT *.* FROM t", "SELECT mydb.*.* FROM t", "SELECT *, * FROM t", "SELECT t.*, * FROM t",
		"SELECT COUNT(*) FROM t GROUP BY ()", "SELECT 1 GROUP BY 1", "SELECT 1 HAVING 1", "SELECT 1 ORDER BY 2", "SELECT a FROM t GROUP BY 99", "SELECT a FROM t ORDER BY 0", "SELECT SUM(SUM(a)) FROM t", "SELECT SUM(a) OVER (ORDER BY SUM(a) OVER ()) FROM t", "SELECT ROW_NUMBER() FROM t", "SELECT ROW_NUMBER() OVER w FROM t", "SELECT a FROM t WHERE SUM(a) > 1",
		"SELECT a FROM t WHERE ROW_NUMBER() OVER () = 1", "SELECT (SELECT 1, 2)", "SELECT (SELECT 1 UNION SELECT 2)", "SELECT (SELECT * FROM t)", "SELECT 1 IN (SELECT 1, 2)", "SELECT (1, 2) IN (SELECT 1)", "SELECT (1, 2)", "SELECT ROW(1, 2) = 1", "SELECT (1, 2) = (1, 2, 3)", "SELECT ((1, 2), 3) = ((1, 2), 3)", "SELECT 1 = ANY (SELECT 1)", "SELECT EXISTS (SELECT)",
		"CALL", "CALL p1", "CALL p1(", "PREPARE", "PREPARE s FROM", "EXECUTE", "EXECUTE nosuch", "DEALLOCATE PREPARE nosuch", "SET", "SET @", "SET @a", "SET @a =", "SHOW", "USE", "CREATE", "CREATE TABLE", "CREATE TABLE x", "CREATE TABLE x ()", "CREATE TABLE x (a)", "CREATE TABLE (a INT)", "DROP", "DROP TABLE", "ALTER TABLE t", "ALTER TABLE t ADD", "INSERT", "INSERT INTO t",
		"INSERT INTO t VALUES", "INSERT INTO t VALUES ()", "INSERT INTO t () VALUES ()", "INSERT INTO w () VALUES ()", "INSERT INTO t VALUES (),()", "UPDATE", "UPDATE t", "UPDATE t SET", "DELETE", "DELETE FROM", "DELETE t", "BEGIN; SELECT 1; COMMIT", "SIGNAL SQLSTATE '45000'", "SIGNAL SQLSTATE '00000'", "SIGNAL SQLSTATE 'abc'", "SIGNAL SQLSTATE '45000' SET MESSAGE_TEXT = NULL",
		"SIGNAL SQLSTATE '45000' SET MYSQL_ERRNO = 99999999999", "SIGNAL nosuch", "RESIGNAL", "GET DIAGNOSTICS @a = NUMBER", "GET DIAGNOSTICS CONDITION 1 @a = MESSAGE_TEXT", "DECLARE x INT", "DECLARE c CURSOR FOR SELECT 1", "OPEN c", "FETCH c INTO @a", "CLOSE c", "LEAVE l", "ITERATE l", "RETURN 1", "IF 1 THEN SELECT 1; END IF", "WHILE 0 DO SELECT 1; END WHILE",
		"BEGIN SELECT 1; END", "BEGIN END", "BEGIN NOT ATOMIC SELECT 1; END", "CREATE FUNCTION f() RETURNS INT RETURN 1", "CREATE FUNCTION f(x INT) RETURNS INT DETERMINISTIC RETURN x + 1", "DROP FUNCTION f", "DROP FUNCTION IF EXISTS nosuch", "SELECT f()", "SELECT mydb.f(1)", "SELECT nosuch(1)", "SELECT mydb.nosuch(1)", "SELECT `abs`(1)", "SELECT ABS (1)", "SELECT COUNT (*) FROM t",
		"CREATE TABLESPACE ts", "CREATE SERVER s FOREIGN DATA WRAPPER mysql OPTIONS (USER 'x')", "CREATE SPATIAL REFERENCE SYSTEM 1 NAME 'x' DEFINITION 'y'", "INSTALL PLUGIN x SONAME 'y'", "SHUTDOWN", "RESTART", "CLONE LOCAL DATA DIRECTORY 'x'", "HELP 'x'", "CACHE INDEX t IN hot", "LOAD INDEX INTO CACHE t", "IMPORT TABLE FROM 'x'", "CREATE RESOURCE GROUP g TYPE = USER",
		"ALTER INSTANCE ROTATE INNODB MASTER KEY", "SET PERSIST max_connections = 1", "RESET PERSIST max_connections", "XA RECOVER", "HANDLER t READ FIRST", "PURGE BINARY LOGS BEFORE NOW()", "CREATE LOGFILE GROUP lg ADD UNDOFILE 'x'", "UNINSTALL PLUGIN x", "ANALYZE TABLE", "ANALYZE TABLE t, t1", "ANALYZE TABLE nosuch"}, "misc")
}

// statement draws one statement of any kind.
func (g *gram) statement() (kind, text string) {
	g.budget = 40
	g.scope, g.stabs = nil, nil
	switch k := g.n(0, 19, "kind"); {
	case k <= 6:
		return "select", g.query(3)
	case k <= 9:
		return "dml", g.dml()
	case k <= 12:
		return "ddl", g.ddl()
	case k == 13:
		return "set", g.set()
	case k <= 15:
		return "show", g.show()
	case k == 16:
		return "prepare", g.prepare()
	case k == 17:
		return "call", g.callStmt()
	case k == 18:
		return "txn", g.txn()
	default:
		return "misc", g.misc()
	}
}
