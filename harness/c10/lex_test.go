package c10

import (
	"strings"
	"unicode"
)

// tokKind classifies a lexeme of the harness' own (deliberately forgiving) SQL tokenizer. It
// is used only to mutate statements at token granularity; nothing depends on it agreeing
// with the engine's lexer.
type tokKind int

const (
	tkWord  tokKind = iota // identifier or keyword
	tkNum                  // numeric literal
	tkStr                  // '...' or "..." literal
	tkQuote                // `...` identifier
	tkPunct                // operator / punctuation
	tkVar                  // @x, @@x
)

type token struct {
	k tokKind
	s string
}

func isWordStart(r byte) bool { return r == '_' || r == '$' || r >= 0x80 || unicode.IsLetter(rune(r)) }
func isWordPart(r byte) bool  { return isWordStart(r) || (r >= '0' && r <= '9') }

// lex splits a statement into tokens; whitespace and comments separate tokens and are dropped
// (optimizer hints /*+ ... */ are kept as one punctuation token).
func lex(q string) []token {
	var out []token
	i := 0
	for i < len(q) {
		c := q[i]
		switch {
		case c == ' ' || c == '\t' || c == '\n' || c == '\r':
			i++
		case c == '\'' || c == '"' || c == '`':
			j := i + 1
			for j < len(q) {
				if q[j] == '\\' && c != '`' && j+1 < len(q) {
					j += 2
					continue
				}
				if q[j] == c {
					if j+1 < len(q) && q[j+1] == c {
						j += 2
						continue
					}
					break
				}
				j++
			}
			if j < len(q) {
				j++
			}
			k := tkStr
			if c == '`' {
				k = tkQuote
			}
			out = append(out, token{k, q[i:j]})
			i = j
		case c >= '0' && c <= '9' || (c == '.' && i+1 < len(q) && q[i+1] >= '0' && q[i+1] <= '9'):
			j := i
			if c == '0' && j+1 < len(q) && (q[j+1] == 'x' || q[j+1] == 'X' || q[j+1] == 'b') {
				j += 2
				for j < len(q) && isWordPart(q[j]) {
					j++
				}
			} else {
				for j < len(q) && (q[j] >= '0' && q[j] <= '9' || q[j] == '.') {
					j++
				}
				if j < len(q) && (q[j] == 'e' || q[j] == 'E') {
					k := j + 1
					if k < len(q) && (q[k] == '+' || q[k] == '-') {
						k++
					}
					if k < len(q) && q[k] >= '0' && q[k] <= '9' {
						for k < len(q) && q[k] >= '0' && q[k] <= '9' {
							k++
						}
						j = k
					}
				}
				if j < len(q) && isWordStart(q[j]) { // 1abc is an identifier in MySQL
					for j < len(q) && isWordPart(q[j]) {
						j++
					}
					out = append(out, token{tkWord, q[i:j]})
					i = j
					continue
				}
			}
			out = append(out, token{tkNum, q[i:j]})
			i = j
		case c == '@':
			j := i + 1
			for j < len(q) && (q[j] == '@' || q[j] == '.' || isWordPart(q[j])) {
				j++
			}
			out = append(out, token{tkVar, q[i:j]})
			i = j
		case isWordStart(c):
			j := i + 1
			for j < len(q) && isWordPart(q[j]) {
				j++
			}
			// x'..', b'..', n'..', _charset'..' introducers stay attached to their string
			out = append(out, token{tkWord, q[i:j]})
			i = j
		case c == '/' && i+1 < len(q) && q[i+1] == '*':
			j := strings.Index(q[i+2:], "*/")
			if j < 0 {
				j = len(q)
			} else {
				j = i + 2 + j + 2
			}
			if i+2 < len(q) && (q[i+2] == '+' || q[i+2] == '!') {
				out = append(out, token{tkPunct, q[i:j]})
			}
			i = j
		case c == '-' && i+2 < len(q) && q[i+1] == '-' && q[i+2] == ' ':
			j := strings.IndexByte(q[i:], '\n')
			if j < 0 {
				i = len(q)
			} else {
				i += j
			}
		case c == '#':
			j := strings.IndexByte(q[i:], '\n')
			if j < 0 {
				i = len(q)
			} else {
				i += j
			}
		default:
			j := i + 1
			if j < len(q) {
				two := q[i : j+1]
				switch two {
				case "<=", ">=", "<>", "!=", ":=", "||", "&&", "<<", ">>", "->":
					j++
					if j < len(q) && (q[i:j+1] == "<=>" || q[i:j+1] == "->>") {
						j++
					}
				}
			}
			out = append(out, token{tkPunct, q[i:j]})
			i = j
		}
	}
	return out
}

// render joins tokens with single spaces, except that nothing is put before "(" that
// follows a word (function calls must stay calls: MySQL's lexer distinguishes `f (`), before
// "," ")" and around ".".
func render(ts []token) string {
	var sb strings.Builder
	for i, t := range ts {
		if i > 0 {
			p := ts[i-1]
			sp := true
			switch {
			case t.s == "(" && p.k == tkWord && !spaceBeforeParen[strings.ToUpper(p.s)]:
				sp = false
			case t.s == "," || t.s == ")" || t.s == "." || p.s == "." || p.s == "(":
				sp = false
			case t.k == tkStr && p.k == tkWord && introducer(p.s):
				sp = false
			}
			if sp {
				sb.WriteByte(' ')
			}
		}
		sb.WriteString(t.s)
	}
	return sb.String()
}

func introducer(w string) bool {
	if len(w) == 1 {
		switch w[0] {
		case 'x', 'X', 'b', 'B', 'n', 'N':
			return true
		}
	}
	return strings.HasPrefix(w, "_")
}

var spaceBeforeParen = map[string]bool{
	"IN": true, "VALUES": true, "AND": true, "OR": true, "NOT": true, "ON": true, "FROM": true, "SELECT": true, "WHERE": true,
	"AS": true, "KEY": true, "INDEX": true, "UNION": true, "EXISTS": true, "BY": true, "OVER": true, "USING": true, "TABLE": true,
	"INTO": true, "SET": true, "WHEN": true, "THEN": true, "ELSE": true, "HAVING": true, "JOIN": true, "ALL": true, "ANY": true,
	"CHECK": true, "REFERENCES": true, "UNIQUE": true, "PRIMARY": true, "BETWEEN": true, "LIKE": true, "IS": true, "DISTINCT": true,
	"INTERSECT": true, "EXCEPT": true, "LATERAL": true, "DEFAULT": true, "RETURN": true, "DO": true, "CALL": false,
}
