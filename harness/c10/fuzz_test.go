package c10

import (
	"os"
	"strings"
	"testing"

	"github.com/dolthub/go-mysql-server/vh/internal/stats"
)

// FuzzSQL is the native fuzz target of the thorough tier (optional extra): one statement
// text per input, on a fresh fixture, decided by the same oracle as the rapid parts. The seed
// corpus is a slice of the repository's own statements plus hostile constants. Process-killing
// inputs are detected by the fuzzing coordinator (the worker dies).
func FuzzSQL(f *testing.F) {
	st := stats.New("C10", "fuzz")
	defer st.Flush()
	for i := 0; i < len(corpus); i += 37 {
		f.Add(corpus[i])
	}
	for _, q := range []string{"SELECT 1", "SELECT * FROM mytable WHERE i IN (1, 2)", "SELECT CONVERT('a' USING utf16)", "SELECT CAST('2020-01-01' AS DATETIME(6))",
		"INSERT INTO xy VALUES (9, 9)", "SELECT \x00", "SELECT '\xff'", "SET @a = 1", "SHOW TABLES", "WITH c AS (SELECT 1) SELECT * FROM c", "SELECT JSON_EXTRACT('[1]', '$[0]')"} {
		f.Add(q)
	}
	f.Fuzz(func(t *testing.T, q string) {
		st.Eval()
		if len(q) > 4000 || unsafeStmt(q, false) != "" {
			t.Skip()
		}
		// the fatal regions would only rediscover the listed process-killing findings
		prog := []string{q}
		v := execProgram(prog, []bool{false}, false, stmtTimeout, st)
		for _, ph := range v.Phases {
			st.Class(ph.String())
			if ph != phParse {
				st.NonTrivial(nil, q)
			}
		}
		switch v.Kind {
		case "", "known":
			return
		case "timeout":
			if ok, _ := confirmHang(prog, []bool{false}, false); !ok {
				t.Skip()
			}
			v.Detail = "HANG: the statement exceeded the deadline, and again alone in a fresh process with 10x the deadline"
		}
		stack := ""
		if v.Out != nil {
			stack = v.Out.Stack
		}
		t.Fatalf("%s\n  statement: %q\n  root cause frame: %s (%s)\n%s", v.Detail, q, v.Frame, v.Where, stack)
	})
	if strings.Contains(strings.Join(os.Args, " "), "test.fuzz=") {
		st.Set("native_fuzz", true)
	}
}
