package c10

import (
	"encoding/json"
	"fmt"
	"io"
	"os"
	"os/exec"
	"path/filepath"
	"regexp"
	"runtime/debug"
	"strings"
	"syscall"
	"testing"
	"time"

	"github.com/dolthub/go-mysql-server/sql/variables"
	"github.com/dolthub/go-mysql-server/vh/internal/fx"
	"github.com/dolthub/go-mysql-server/vh/internal/stats"
	"github.com/sirupsen/logrus"
	"pgregory.net/rapid"
)

// stmtTimeout is the "generous deadline": four orders of magnitude above the normal latency
// of a statement on tables of <= 8 rows. The confirmation run uses 10x.
var stmtTimeout = 20 * time.Second

// ---------------------------------------------------------------------------------------
// statements that are never executed

var unsafeRe = regexp.MustCompile(`(?i)\b(sleep|benchmark|get_lock|release_lock|release_all_locks|is_free_lock|is_used_lock|load_file|outfile|dumpfile|infile)\b`)

// Allocation guard (machine safety, see notes: C10-unbounded-alloc): the engine enforces no
// max_allowed_packet, so functions whose numeric argument sizes their result are not run with
// numbers of 8+ digits / exponents / wide hex literals / user variables inside their argument list.
var allocFnRe = regexp.MustCompile(`(?i)\b(repeat|space|lpad|rpad|format|random_bytes|insert|export_set|make_set|round|truncate|char|weight_string|binary|varbinary|varchar|conv|bin|uncompress|pow|power|exp|string_to_vector|ntile|lag|lead|nth_value|cast|convert)\s*\(`)
var bigNumRe = regexp.MustCompile(`(?i)(\d{8,}|\de\+?\d|0x[0-9a-f]{7,}|~|<<|\bpow|\bexp\b|@)`)

// allocRisk reports whether a length-like function call has a huge number among its arguments.
func allocRisk(q string) bool {
	for _, m := range allocFnRe.FindAllStringIndex(q, -1) {
		depth, end := 0, len(q)
		for i := m[1] - 1; i < len(q); i++ {
			if q[i] == '(' {
				depth++
			} else if q[i] == ')' {
				depth--
				if depth == 0 {
					end = i
					break
				}
			}
		}
		if bigNumRe.MatchString(q[m[1]:end]) {
			return true
		}
	}
	return false
}

// unsafeStmt returns a non-empty reason when the statement must not be executed.
func unsafeStmt(q string, grammar bool) string {
	if unsafeRe.MatchString(q) {
		return "blocking-or-file"
	}
	if allocRisk(q) {
		return "alloc-guard"
	}
	if !grammar {
		lq := strings.ToLower(q)
		if strings.Contains(lq, "recursive") {
			return "recursive-mutant"
		}
		n := strings.Count(lq, " join ") + strings.Count(lq, ",")
		if n > 12 && strings.Count(lq, "from") > 0 && strings.Count(lq, "join") > 5 {
			return "many-joins"
		}
	}
	if len(q) > 300000 {
		return "too-long"
	}
	return ""
}

// ---------------------------------------------------------------------------------------
// set-up restricted to the tables a program mentions (the full set-up costs 30 statements)

var wordRe = regexp.MustCompile(`[A-Za-z_][A-Za-z0-9_]*`)

var setupDeps = map[string][]string{"child": {"parent"}, "myview": {"mytable"}, "trig1": {"uv"}}

func setupFor(prog []string) []string {
	words := map[string]bool{}
	all := false
	for _, q := range prog {
		for _, w := range wordRe.FindAllString(q, -1) {
			words[strings.ToLower(w)] = true
		}
	}
	if words["information_schema"] || words["show"] || words["tables"] {
		all = true
	}
	for changed := true; changed; {
		changed = false
		for k, ds := range setupDeps {
			if words[k] {
				for _, d := range ds {
					if !words[d] {
						words[d], changed = true, true
					}
				}
			}
		}
	}
	var out []string
	for _, s := range setupSQL {
		ws := wordRe.FindAllString(s, 4)
		// CREATE TABLE name | INSERT INTO name | CREATE VIEW name | CREATE PROCEDURE name | CREATE TRIGGER name
		name := strings.ToLower(ws[2])
		switch {
		case all || name == "zz_seed" || words[name]:
			out = append(out, s)
		case name == "trig1" && words["uv"]:
			out = append(out, s)
		case name == "p1" && words["call"]:
			out = append(out, s)
		}
	}
	return out
}

// ---------------------------------------------------------------------------------------
// the oracle

type verdict struct {
	Kind   string // "" held; "known"; "panic"; "timeout"; "session"; "fresh"; "seed"
	Idx    int
	Stmt   string
	Detail string
	Frame  string
	Where  string
	Out    *outcome
	Phases []phase
	RanIdx []int // index into the program of each entry of Phases
	Skip   []string
}

var readOnlyVerb = map[string]bool{"SELECT": true, "SHOW": true, "SET": true, "USE": true, "EXPLAIN": true, "DESCRIBE": true, "DESC": true, "PREPARE": true, "DO": true, "TABLE": true, "VALUES": true, "": true}

func firstWord(q string) string {
	return strings.ToUpper(wordRe.FindString(q))
}

// execProgram runs a program on a fresh fixture and decides the property for it.
func execProgram(prog []string, grammar []bool, root bool, timeout time.Duration, st *stats.Collector) (v verdict) {
	variables.InitSystemVariables()
	variables.InitStatusVariables()
	f := fx.New(fx.Opts{DBs: []string{"mydb", "foo"}, Root: root})
	poisoned := false
	defer func() {
		if !poisoned {
			f.Close()
		}
	}()
	s := f.NewSession("", "", "")
	for _, q := range setupFor(prog) {
		r := run(s, q, 10*stmtTimeout)
		if !r.ok() {
			if r.TimedOut {
				poisoned = true
				return verdict{Kind: "timeout", Idx: -1, Stmt: q, Detail: "set-up statement timed out"}
			}
			panic(fmt.Sprintf("harness: set-up statement failed: %s: %v %v\n%s", q, r.Err, r.Panic, r.Stack))
		}
	}
	writes := false
	for i, q := range prog {
		g := i < len(grammar) && grammar[i]
		if why := unsafeStmt(q, g); why != "" {
			v.Skip = append(v.Skip, why)
			continue
		}
		if id := knownRegion(q); id != "" {
			v.Skip = append(v.Skip, "known:"+id)
			continue
		}
		r := run(s, q, timeout)
		if r.Panic != nil {
			poisoned = true
			fn, where := topFrame(r.Stack)
			if suppress(st, classify(r)) {
				v.Kind, v.Idx = "known", i
				return v
			}
			return verdict{Kind: "panic", Idx: i, Stmt: q, Frame: fn, Where: where, Out: r, Phases: v.Phases, RanIdx: v.RanIdx,
				Detail: fmt.Sprintf("panic escaped Engine.Query: %v", panicText(r.Panic))}
		}
		if r.TimedOut {
			poisoned = true
			return verdict{Kind: "timeout", Idx: i, Stmt: q, Out: r, Phases: v.Phases, RanIdx: v.RanIdx, Detail: "statement exceeded the deadline"}
		}
		v.Phases = append(v.Phases, r.Phase)
		v.RanIdx = append(v.RanIdx, i)
		if r.Phase != phParse && !readOnlyVerb[firstWord(q)] {
			writes = true
		}
	}
	lower := strings.ToLower(strings.Join(prog, "\n"))
	// the session stays usable
	post := func(sess *fx.Sess, kind, q string, mustOK bool) *verdict {
		r := run(sess, q, timeout)
		switch {
		case r.Panic != nil:
			poisoned = true
			fn, where := topFrame(r.Stack)
			if suppress(st, classify(r)) {
				return &verdict{Kind: "known"}
			}
			return &verdict{Kind: "panic", Idx: len(prog), Stmt: q, Frame: fn, Where: where, Out: r, Detail: fmt.Sprintf("panic in the follow-up statement (%s): %v", kind, panicText(r.Panic))}
		case r.TimedOut:
			poisoned = true
			return &verdict{Kind: "timeout", Idx: len(prog), Stmt: q, Out: r, Detail: "follow-up statement exceeded the deadline (" + kind + ")"}
		case mustOK && r.Err != nil:
			// C10-empty-column-name: a column with a zero-length name makes the table unreadable
			if f := findingByID("C10-empty-column-name"); strings.Contains(r.Err.Error(), "unable to find field with index") && f.region.MatchString(lower) && suppress(st, f) {
				return &verdict{Kind: "known"}
			}
			return &verdict{Kind: kind, Idx: len(prog), Stmt: q, Out: r, Detail: fmt.Sprintf("follow-up statement failed (%s): %v", kind, r.Err)}
		}
		return nil
	}
	if pv := post(s, "session", "SELECT 1", !acctTouched(root, lower)); pv != nil {
		pv.Phases, pv.RanIdx = v.Phases, v.RanIdx
		return *pv
	}
	if pv := post(s, "session", "SELECT k, s FROM mydb.zz_seed", false); pv != nil {
		pv.Phases, pv.RanIdx = v.Phases, v.RanIdx
		return *pv
	}
	// a fresh session still sees consistent tables
	s2 := f.NewSession("", "", "")
	if pv := post(s2, "fresh", "SELECT 1", !acctTouched(root, lower)); pv != nil {
		pv.Phases, pv.RanIdx = v.Phases, v.RanIdx
		return *pv
	}
	// with accounts enabled, a program that edits the grant tables may legitimately lock its
	// own user out (TRUNCATE mysql.user, DROP USER root@localhost): then only "no panic, no
	// hang" is demanded of the follow-up statements
	acct := acctTouched(root, lower)
	globalTouched := acct || strings.Contains(lower, "global") || strings.Contains(lower, "persist")
	seedTouched := strings.Contains(lower, "zz_seed") || (strings.Contains(lower, "drop") && (strings.Contains(lower, "database") || strings.Contains(lower, "schema")))
	r := run(s2, "SELECT k, s FROM mydb.zz_seed", timeout)
	if r.Panic != nil || r.TimedOut {
		if pv := post(s2, "fresh", "SELECT k, s FROM mydb.zz_seed", false); pv != nil {
			pv.Phases, pv.RanIdx = v.Phases, v.RanIdx
			return *pv
		}
	} else if !globalTouched && !seedTouched {
		if r.Err != nil {
			return verdict{Kind: "seed", Idx: len(prog), Stmt: r.SQL, Out: r, Phases: v.Phases, RanIdx: v.RanIdx, Detail: fmt.Sprintf("a fresh session cannot read the untouched table zz_seed: %v", r.Err)}
		}
		if got := fx.NormRows(r.Schema, r.Rows); !fx.MultisetEqual(got, seedRows) {
			return verdict{Kind: "seed", Idx: len(prog), Stmt: r.SQL, Out: r, Phases: v.Phases, RanIdx: v.RanIdx, Detail: "a fresh session reads different rows from the untouched table zz_seed: " + fx.ShowSeq(got)}
		}
	}
	if writes && !seedTouched {
		tl := run(s2, "SHOW FULL TABLES FROM mydb", timeout)
		if tl.Panic != nil || tl.TimedOut {
			if pv := post(s2, "fresh", "SHOW FULL TABLES FROM mydb", false); pv != nil {
				pv.Phases, pv.RanIdx = v.Phases, v.RanIdx
				return *pv
			}
		}
		if tl.ok() {
			for _, row := range tl.Rows {
				if len(row) != 2 || fmt.Sprint(row[1]) != "BASE TABLE" {
					continue
				}
				q := "SELECT * FROM mydb.`" + strings.ReplaceAll(fmt.Sprint(row[0]), "`", "``") + "`"
				if pv := post(s2, "fresh", q, !globalTouched); pv != nil {
					pv.Phases, pv.RanIdx = v.Phases, v.RanIdx
					return *pv
				}
			}
		}
	}
	return v
}

func acctTouched(root bool, lower string) bool {
	return root && (strings.Contains(lower, "user") || strings.Contains(lower, "mysql") || strings.Contains(lower, "role") || strings.Contains(lower, "grant") || strings.Contains(lower, "revoke"))
}

func panicText(p any) string {
	if p == nil {
		return ""
	}
	s := fmt.Sprint(p)
	if len(s) > 300 {
		s = s[:300] + "..."
	}
	return s
}

// ---------------------------------------------------------------------------------------
// hang confirmation: a single timeout is inconclusive; the program is re-run alone in a fresh
// process with 10x the deadline, and only a second timeout there is a violation.

type probeFile struct {
	Prog    []string `json:"prog"`
	Grammar []bool   `json:"grammar"`
	Root    bool     `json:"root"`
}

func confirmHang(prog []string, grammar []bool, root bool) (confirmed bool, info string) {
	dir := os.Getenv("VERIF_SCRATCH")
	if dir == "" {
		dir = os.TempDir()
	}
	fp, err := os.CreateTemp(dir, "c10-probe-*.json")
	if err != nil {
		return false, "cannot create probe file: " + err.Error()
	}
	defer os.Remove(fp.Name())
	b, _ := json.Marshal(probeFile{prog, grammar, root})
	fp.Write(b)
	fp.Close()
	cmd := exec.Command(os.Args[0], "-test.run", "^TestC10Probe$", "-test.v", "-test.timeout=1200s")
	cmd.Env = append(os.Environ(), "C10_PROBE_FILE="+fp.Name(), "VERIF_STATS_OUT=")
	out, _ := cmd.CombinedOutput()
	txt := string(out)
	switch {
	case strings.Contains(txt, "PROBE-RESULT timeout"):
		return true, txt
	case strings.Contains(txt, "PROBE-RESULT"):
		return false, txt
	}
	return false, "probe gave no result: " + txt
}

// TestC10Probe is the fresh-process half of the hang clause (and a manual tool:
// C10_PROBE_FILE=<json> go test -run TestC10Probe).
func TestC10Probe(t *testing.T) {
	p := os.Getenv("C10_PROBE_FILE")
	if p == "" {
		t.Skip("no probe file")
	}
	b, err := os.ReadFile(p)
	if err != nil {
		t.Fatal(err)
	}
	var pf probeFile
	if err := json.Unmarshal(b, &pf); err != nil {
		t.Fatal(err)
	}
	v := execProgram(pf.Prog, pf.Grammar, pf.Root, 10*stmtTimeout, nil)
	k := v.Kind
	if k == "" {
		k = "ok"
	}
	fmt.Printf("PROBE-RESULT %s idx=%d stmt=%q detail=%s frame=%s %s\n", k, v.Idx, v.Stmt, v.Detail, v.Frame, v.Where)
	if v.Out != nil && v.Out.Stack != "" {
		fmt.Println(v.Out.Stack)
	}
}

// ---------------------------------------------------------------------------------------
// development aid: C10_COLLECT=<file> appends every unlisted panic as a JSON line and carries
// on, so that one run inventories many root causes.

func collect(v verdict, prog []string, root bool) bool {
	p := os.Getenv("C10_COLLECT")
	if p == "" {
		return false
	}
	f, err := os.OpenFile(p, os.O_APPEND|os.O_CREATE|os.O_WRONLY, 0o644)
	if err != nil {
		return false
	}
	defer f.Close()
	stack := ""
	if v.Out != nil {
		stack = v.Out.Stack
	}
	b, _ := json.Marshal(map[string]any{"kind": v.Kind, "frame": v.Frame, "where": v.Where, "detail": v.Detail, "stmt": v.Stmt, "idx": v.Idx, "prog": prog, "root": root, "stack": stack})
	f.Write(append(b, '\n'))
	return true
}

// decide turns a verdict into the outcome of a rapid case.
func decide(rt *rapid.T, st *stats.Collector, v verdict, prog []string, grammar []bool, root bool) {
	for _, why := range v.Skip {
		if strings.HasPrefix(why, "known:") {
			st.Excluded(strings.TrimPrefix(why, "known:"))
		} else {
			st.Class("skipped:" + why)
		}
	}
	for _, ph := range v.Phases {
		st.Class(ph.String())
	}
	switch v.Kind {
	case "", "known":
		return
	case "timeout":
		st.Class("timeout-first")
		ok, info := confirmHang(prog, grammar, root)
		if !ok {
			st.Class("timeout-unconfirmed")
			rt.Logf("timeout not confirmed in a fresh process (inconclusive, skipped): %q\n%s", v.Stmt, tail(info, 600))
			return
		}
		v.Detail = "HANG: the statement exceeded the deadline, and again alone in a fresh process with 10x the deadline"
	}
	if collect(v, prog, root) {
		return
	}
	stack := ""
	if v.Out != nil {
		stack = v.Out.Stack
	}
	rt.Fatalf("%s\n  statement [%d]: %q\n  root cause frame: %s (%s)\n  root account: %v\n  program:\n    %s\n%s",
		v.Detail, v.Idx, v.Stmt, v.Frame, v.Where, root, strings.Join(quoteAll(prog), "\n    "), stack)
}

func quoteAll(ss []string) []string {
	out := make([]string, len(ss))
	for i, s := range ss {
		out[i] = fmt.Sprintf("%q", s)
	}
	return out
}

func tail(s string, n int) string {
	if len(s) > n {
		return s[len(s)-n:]
	}
	return s
}

func nontrivial(st *stats.Collector, v verdict, prog []string, kinds []string) {
	for k, ph := range v.Phases {
		if ph == phParse || k >= len(v.RanIdx) {
			continue
		}
		i := v.RanIdx[k]
		q := prog[i]
		var sample any
		if len(q) < 300 {
			sample = map[string]any{"kind": kinds[i], "stmt": q, "phase": ph.String()}
		}
		st.NonTrivial(sample, q)
	}
}

// ---------------------------------------------------------------------------------------
// (a) grammar-based generation

func progLen() int {
	return 8
}

func TestC10(t *testing.T) {
	st := stats.New("C10", "grammar")
	defer st.Flush()
	rapid.Check(t, func(rt *rapid.T) {
		st.Eval()
		g := &gram{t: rt}
		root := g.p(3, "root")
		n := g.n(1, progLen(), "nstmt")
		prog := make([]string, n)
		kinds := make([]string, n)
		gr := make([]bool, n)
		for i := range prog {
			kinds[i], prog[i] = g.statement()
			gr[i] = true
			st.Class("kind:" + kinds[i])
		}
		st.ClassN("statements", n)
		lastStmt(prog)
		v := execProgram(prog, gr, root, stmtTimeout, st)
		nontrivial(st, v, prog, kinds)
		decide(rt, st, v, prog, gr, root)
	})
}

// ---------------------------------------------------------------------------------------
// (b) mutation of the seed corpus

func TestC10Mutate(t *testing.T) {
	st := stats.New("C10", "mutate")
	defer st.Flush()
	rapid.Check(t, func(rt *rapid.T) {
		st.Eval()
		g := &gram{t: rt}
		root := g.p(3, "root")
		n := g.n(1, progLen(), "nstmt")
		prog := make([]string, n)
		kinds := make([]string, n)
		gr := make([]bool, n)
		for i := range prog {
			seed := corpus[g.n(0, len(corpus)-1, "seed")]
			if g.p(6, "asis") {
				prog[i], kinds[i] = seed, "seed"
			} else {
				var ops []string
				prog[i], ops = g.mutate(seed)
				kinds[i] = "mutant"
				for _, o := range ops {
					st.Class("mut:" + o)
				}
			}
		}
		st.ClassN("statements", n)
		lastStmt(prog)
		v := execProgram(prog, gr, root, stmtTimeout, st)
		nontrivial(st, v, prog, kinds)
		decide(rt, st, v, prog, gr, root)
	})
}

// lastStmt leaves the program being executed in $VERIF_SCRATCH so that a crash that kills
// the process (fatal runtime error, panic in a goroutine of the engine) still has a witness.
var lastPath = func() string {
	d := os.Getenv("VERIF_SCRATCH")
	if d == "" {
		return ""
	}
	return filepath.Join(d, fmt.Sprintf("c10-last-%d.json", os.Getpid()))
}()

func lastStmt(prog []string) {
	if lastPath == "" {
		return
	}
	b, _ := json.Marshal(prog)
	_ = os.WriteFile(lastPath, b, 0o644)
}

func TestMain(m *testing.M) {
	// Safety net for the shared machine: a statement that makes the engine allocate without
	// bound (it enforces no max_allowed_packet) must kill this process, not the machine.
	lim := syscall.Rlimit{Cur: 8 << 30, Max: 8 << 30}
	_ = syscall.Setrlimit(syscall.RLIMIT_AS, &lim)
	logrus.SetOutput(io.Discard)
	if s := os.Getenv("C10_MAXSTACK_MB"); s != "" {
		var mb int
		fmt.Sscan(s, &mb)
		if mb > 0 {
			debug.SetMaxStack(mb << 20)
		}
	}
	rc := m.Run()
	if lastPath != "" && rc == 0 {
		os.Remove(lastPath)
	}
	os.Exit(rc)
}

func TestReplayC10(t *testing.T) {
	st := stats.New("C10", "replay")
	defer st.Flush()
	fx.ReplayDir(t, st)
}
