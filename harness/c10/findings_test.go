package c10

import (
	"fmt"
	"regexp"
	"sort"
	"strings"

	"github.com/dolthub/go-mysql-server/sql"
	_ "github.com/dolthub/go-mysql-server/sql/variables"

	"github.com/dolthub/go-mysql-server/vh/internal/kf"
	"github.com/dolthub/go-mysql-server/vh/internal/stats"
)

// A finding is one root cause of a violation (almost always a panic that escapes
// Engine.Query). Its signature is the innermost engine frame of the recovered stack (function
// name; optionally also a fragment of the panic text where one function has two different
// defects). region, when set, is a predicate over the statement text that over-approximates
// the inputs reaching the defect: while the id is listed the generators skip such statements
// (counted as excluded_known) so that the search continues behind the finding; once the id
// is no longer listed (after a fix) the region is searched again.
//
// witness is the minimal program (run after the set-up of the tables it mentions) that shows
// the defect; fatal marks defects that kill the process (unrecoverable runtime errors), whose
// witnesses are only ever run in a child process.
type finding struct {
	id      string
	frames  []string       // substrings of the top engine frame's function name (any)
	msg     string         // optional substring of the panic value's text
	region  *regexp.Regexp // optional; statement texts to skip while listed
	witness []string
	root    bool   // witness needs the root account (authentication enabled)
	fatal   bool   // the witness ends the process (stack overflow)
	after   string // for non-panic findings: statement that must succeed after the witness
}

func re(s string) *regexp.Regexp { return regexp.MustCompile("(?is)" + s) }

// enumSysVarRegion matches references to the system variables of enum type (the region of
// C10-system-enum-to-string); the list is read from the engine.
func enumSysVarRegion() *regexp.Regexp {
	var names []string
	for name := range sql.SystemVariables.GetAllGlobalVariables() {
		if sv, _, ok := sql.SystemVariables.GetGlobal(name); ok && strings.Contains(fmt.Sprintf("%T", sv.GetType()), "Enum") {
			names = append(names, regexp.QuoteMeta(name))
		}
	}
	sort.Strings(names)
	if len(names) == 0 {
		return re(`@@`)
	}
	return re(`@@[\w.]*(` + strings.Join(names, "|") + `)\b`)
}

var findings = []finding{
	// ---- process-killing (fatal error: stack overflow) ------------------------------------
	{id: "C10-view-self-reference", frames: []string{"planbuilder.(*Builder).resolveView"}, fatal: true,
		region:  re(`\b(or\s+replace|alter)\b.*\bview\b|\brename\b`),
		witness: []string{"CREATE VIEW v1 AS SELECT 1 AS a", "CREATE VIEW v2 AS SELECT * FROM v1", "CREATE OR REPLACE VIEW v1 AS SELECT * FROM v2", "SELECT * FROM v1"}},
	{id: "C10-union-empty-name-recursion", frames: []string{"analyzer.exprsToTableFilters"}, fatal: true,
		region:  re("``.*\\b(union|intersect|except)\\b|\\b(union|intersect|except)\\b.*``"),
		witness: []string{"SELECT '' UNION SELECT 1 WHERE ``"}},
	// ---- recoverable panics escaping Engine.Query -------------------------------------------
	{id: "C10-in-list-out-of-range-index", frames: []string{"transform.Expr"},
		region:  re(`\b(ti|one_pk|two_pk|w)\b.*\bin\s*\(|\bin\s*\(.*\b(ti|one_pk|two_pk|w)\b`),
		witness: []string{"SELECT * FROM ti WHERE b IN (-129, 300)"}},
	{id: "C10-persist-global", frames: []string{"memory.(*Session).PersistGlobal"}, region: re(`\bpersist`),
		witness: []string{"SET PERSIST max_connections = 10"}},
	{id: "C10-readonly-txn", frames: []string{"analyzer.validateReadOnlyTransaction"}, region: re(`\bread\s+only\b|transaction_read_only|tx_read_only`),
		witness: []string{"START TRANSACTION READ ONLY", "INSERT INTO xy VALUES (9, 9)"}},
	{id: "C10-default-column-type", frames: []string{"expression.(*DefaultColumn).Type"}, region: re(`\bdefault\s*\(`),
		witness: []string{"SELECT DEFAULT(s) FROM mytable"}},
	{id: "C10-create-event-interval", frames: []string{"plan.(*CreateEvent).GetEventDefinition"}, region: re(`\bevent\b.*\bevery\b`),
		witness: []string{"CREATE EVENT ev0 ON SCHEDULE EVERY NULL HOUR DO SELECT 1"}},
	{id: "C10-execute-of-execute", frames: []string{"plan.(*ExecuteQuery).Children"}, region: re(`\bprepare\b.*\bfrom\b.*\bexecute\b`),
		witness: []string{"PREPARE s2 FROM 'EXECUTE s1'", "EXECUTE s2"}},
	{id: "C10-match-against-scope", frames: []string{"planbuilder.(*Builder).buildMatchAgainst", "transform.InspectWithOpaque"}, region: re(`\bmatch\s*\(`),
		witness: []string{"SELECT MATCH(s) AGAINST('a') FROM myview"}},
	{id: "C10-empty-name-nil-type", frames: []string{"planbuilder.(*factory).buildConvert", "expression.PreciseComparison", "expression.(*GetField).CollationCoercibility", "plan.(*LookupBuilder).GetZeroKey"},
		region:  re("``"),
		witness: []string{"SELECT CAST(`` AS SIGNED)"}},
	{id: "C10-cte-empty-name", frames: []string{"planbuilder.(*scope).getCte"}, region: re("\\bwith\\b.*``"),
		witness: []string{"WITH RECURSIVE ``(n) AS (SELECT 1 UNION SELECT n + 1 FROM `` WHERE n < 3) SELECT * FROM ``"}},
	{id: "C10-ctas-column-count", frames: []string{"rowexec.(*insertIter).Next", "rowexec.(*insertIter).validateNullability"}, region: re(`\bcreate\b.*\btable\b.*\).*\bselect\b`),
		witness: []string{"CREATE TABLE n0 (id INT) SELECT 1"}},
	{id: "C10-datetime-precision", frames: []string{"types.MustCreateDatetimeType"}, region: re(`\b(datetime|timestamp)\s*\(\s*([7-9]|\d\d+)`),
		witness: []string{"SELECT CONVERT(NULL, DATETIME(7))"}},
	{id: "C10-validate-index-expression", frames: []string{"analyzer.validateIndex"}, region: re(`\b(index|key)\b[^()]*\(\s*\(`),
		witness: []string{"CREATE VECTOR INDEX kb ON t1 ((NULL))"}},
	{id: "C10-column-statistics-table", frames: []string{"plan.(*TrackedRowIter).Next"}, region: re(`column_statistics`),
		witness: []string{"SELECT COUNT(*) FROM information_schema.column_statistics"}},
	{id: "C10-collate-system-variable", frames: []string{"expression.(*CollatedExpression).Eval"}, region: re(`@@[\w.]+\s+collate`),
		witness: []string{"SELECT @@global.version COLLATE ascii_general_ci"}},
	{id: "C10-system-enum-to-string", frames: []string{"expression.(*EnumToString).Eval"}, region: enumSysVarRegion(),
		witness: []string{"SELECT CAST(@@session.tx_isolation AS CHAR)"}},
	{id: "C10-show-variables-where", frames: []string{"rowexec.(*BaseBuilder).buildShowVariables"}, region: re(`\bshow\b.*\b(variables|status)\b.*\bwhere\b`),
		witness: []string{"SHOW VARIABLES WHERE @b"}},
	{id: "C10-interval-placeholder", frames: []string{"expression.(*Interval).Eval"}, region: re(`\binterval\b`),
		witness: []string{"SELECT INTERVAL 1 DAY"}},
	{id: "C10-fulltext-drop-pk-column", frames: []string{"fulltext.GetKeyColumns", "memory.TableData.partition"}, region: re("\\balter\\b.*\\bdrop\\s+(column\\s+)?`?(i|i2|pk|pk1|pk2|x|u|a|id)`?(\\W|$)"),
		witness: []string{"ALTER TABLE mytable DROP i"}},
	{id: "C10-insert-ignore-binary", frames: []string{"rowexec.convertDataAndWarn"}, region: re(`\bignore\b`),
		witness: []string{"INSERT IGNORE INTO othertable VALUES (CAST('abcdefghijklmnopqrstuvwxyz' AS BINARY), 9)"}},
	{id: "C10-now-family-nonliteral-arg", frames: []string{"expression.ExpressionsResolved"}, region: re(`\b(curtime|current_time|now|current_timestamp|localtime|localtimestamp|sysdate|utc_timestamp|utc_time)\s*\(\s*[^)\s]`),
		witness: []string{"SELECT CURTIME(j) FROM test"}},
	{id: "C10-analyze-empty-table", frames: []string{"memory.(*StatsProv).estimateStats"}, region: re(`\banalyze\b`),
		witness: []string{"TRUNCATE mytable", "ANALYZE TABLE mytable"}},
	{id: "C10-add-generated-column-first", frames: []string{"memory.columnsMatch"}, region: re(`\balter\b.*\b(as|generated)\b.*\bfirst\b`),
		witness: []string{"ALTER TABLE othertable ADD C0 VARBINARY(10) AS (0) FIRST"}},
	{id: "C10-star-argument", frames: []string{"expression.(*Star).Type"},
		region:  re(`\b(std|stddev|sum|avg|min|max|variance|var_pop|var_samp|stddev_pop|stddev_samp|bit_and|bit_or|bit_xor|group_concat|json_arrayagg|any_value|first|last|first_value|last_value|lag|lead|ntile|nth_value)\s*\(\s*\*`),
		witness: []string{"SELECT STD(*) OVER () FROM ab"}},
	{id: "C10-aggregate-outside-select", frames: []string{"planbuilder.(*Builder).buildAggregateFunc"}, region: re(`\bset\b.*\b(any_value|avg|sum|min|max|count|std|variance|bit_and|bit_or|bit_xor|group_concat|first|last|json_arrayagg)\s*\(`),
		witness: []string{"SET @v1 = ANY_VALUE(AVG('SECOND'))"}},
	{id: "C10-external-procedure-arg-count", frames: []string{"planbuilder.resolveExternalStoredProcedure"}, region: re(`\bcall\s+memory_`),
		witness: []string{"CALL memory_error_table_not_found(1)"}},
	{id: "C10-charset-not-implemented", frames: []string{"types.MustCreateString"}, region: re(`^\W*set\b.*\b(names|charset|character\s+set|character_set_\w+|collation_\w+)\b`),
		witness: []string{"SET NAMES koi8r", "SELECT 'a'"}},
	// ---- the tables stay consistent for a fresh session ---------------------------------------
	{id: "C10-empty-column-name", region: re("\\b(alter|create)\\b.*``"),
		witness: []string{"ALTER TABLE ab ADD COLUMN `` INT"}, after: "SELECT * FROM ab"},
}

// regressions are witnesses of defects that were repaired in /repo while this check was built
// (by fix: commits of other properties); they are kept as plain replay scripts without a
// finding id, so a returning defect is reported.
var regressions = []finding{
	{id: "C10-rangemap-encode", frames: []string{"encodings.(*RangeMap).Encode"},
		witness: []string{"SELECT HEX(CONVERT('añb' USING latin1))"}},
	{id: "C10-convert-using-no-encoder", frames: []string{"expression.(*ConvertUsing).Eval"},
		witness: []string{"SELECT CONVERT('a' USING koi8r)"}},
}

// classify returns the finding whose signature matches a recovered panic, or nil.
func classify(o *outcome) *finding {
	fn, _ := topFrame(o.Stack)
	pv := panicText(o.Panic)
	for i := range findings {
		f := &findings[i]
		if f.msg != "" && !strings.Contains(pv, f.msg) {
			continue
		}
		for _, fr := range f.frames {
			if strings.Contains(fn, fr) {
				return f
			}
		}
	}
	return nil
}

// knownRegion returns the id of a listed finding whose region contains the statement.
func knownRegion(q string) string {
	if noRegions {
		return ""
	}
	for i := range findings {
		f := &findings[i]
		if f.region != nil && kf.Listed(f.id) && f.region.MatchString(q) {
			return f.id
		}
	}
	return ""
}

func suppress(st *stats.Collector, f *finding) bool { return f != nil && kf.Suppress(st, f.id) }

func findingByID(id string) *finding {
	for i := range findings {
		if findings[i].id == id {
			return &findings[i]
		}
	}
	return nil
}
