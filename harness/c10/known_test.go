package c10

import (
	"encoding/json"
	"fmt"
	"os"
	"os/exec"
	"path/filepath"
	"runtime/debug"
	"strings"
	"testing"

	sqle "github.com/dolthub/go-mysql-server"
	"github.com/dolthub/go-mysql-server/memory"
	"github.com/dolthub/go-mysql-server/sql"
	"github.com/dolthub/go-mysql-server/sql/analyzer"
	"github.com/dolthub/go-mysql-server/vh/internal/fx"
	"github.com/dolthub/go-mysql-server/vh/internal/kf"
	"github.com/dolthub/go-mysql-server/vh/internal/stats"
)

// crashesChild runs a program alone in a child process (with a small maximum stack, so that an
// infinite recursion ends quickly) and reports whether the child died of a fatal runtime
// error or never answered within 10x the statement deadline.
func crashesChild(prog []string, root bool) (crashed bool, info string) {
	dir := os.Getenv("VERIF_SCRATCH")
	if dir == "" {
		dir = os.TempDir()
	}
	fp, err := os.CreateTemp(dir, "c10-known-*.json")
	if err != nil {
		return false, err.Error()
	}
	defer os.Remove(fp.Name())
	gr := make([]bool, len(prog))
	for i := range gr {
		gr[i] = true
	}
	b, _ := json.Marshal(probeFile{prog, gr, root})
	fp.Write(b)
	fp.Close()
	cmd := exec.Command(os.Args[0], "-test.run", "^TestC10Probe$", "-test.v", "-test.timeout=1200s")
	cmd.Env = append(os.Environ(), "C10_PROBE_FILE="+fp.Name(), "VERIF_STATS_OUT=", "VERIF_KNOWN=", "C10_MAXSTACK_MB=16")
	out, _ := cmd.CombinedOutput()
	txt := string(out)
	switch {
	case strings.Contains(txt, "fatal error:"):
		i := strings.Index(txt, "fatal error:")
		return true, strings.SplitN(txt[i:], "\n", 2)[0]
	case strings.Contains(txt, "PROBE-RESULT timeout"):
		return true, "timeout"
	case strings.Contains(txt, "PROBE-RESULT"):
		return false, ""
	}
	return true, "child gave no result: " + tail(txt, 300)
}

// TestC10Known re-confirms every listed finding on its minimal witness and, for ids that are
// not listed (any more), demands that the witness satisfies the property. The witnesses of
// recoverable panics are also kept as replay scripts (replays/C10/<id>.json, run by
// TestReplayC10); the process-killing ones (replays/C10/<id>.script) are only run here, in a
// child process.
func TestC10Known(t *testing.T) {
	st := stats.New("C10", "known")
	defer st.Flush()
	for i := range findings {
		f := &findings[i]
		st.Eval()
		st.Class("witness")
		gr := make([]bool, len(f.witness)+1)
		for k := range gr {
			gr[k] = true
		}
		prog := f.witness
		if f.after != "" {
			prog = append(append([]string(nil), prog...), f.after)
		}
		if f.fatal {
			crashed, info := crashesChild(prog, f.root)
			switch {
			case crashed && kf.Suppress(st, f.id):
				t.Logf("known finding %s still reproduces (%s): %q", f.id, info, f.witness)
			case crashed:
				fmt.Printf("REPLAY-FAIL %s\n", filepath.Join(os.Getenv("VERIF_REPLAYS"), f.id+".script"))
				t.Errorf("%s: the witness kills the process (%s): %q", f.id, info, f.witness)
			case kf.Listed(f.id):
				t.Logf("STALE: listed finding %s no longer reproduces", f.id)
			}
			continue
		}
		// run with the regions open: the witness itself lies in the region of its finding
		v := execWitness(prog, f.root, st)
		bad := v.Kind == "panic" || v.Kind == "known" || v.Kind == "timeout" || (f.after != "" && v.Kind != "")
		switch {
		case !bad:
			if kf.Listed(f.id) {
				t.Logf("STALE: listed finding %s no longer reproduces", f.id)
			}
		case v.Kind == "known":
			t.Logf("known finding %s still reproduces: %q", f.id, f.witness)
		case f.after != "" && kf.Suppress(st, f.id):
			t.Logf("known finding %s still reproduces (%s): %q", f.id, v.Detail, f.witness)
		case kf.Listed(f.id):
			t.Errorf("%s: the witness fails, but not with the recorded signature: %s frame %s (%s)", f.id, v.Detail, v.Frame, v.Where)
		default:
			t.Errorf("%s: %s\n  statement: %q\n  frame: %s (%s)", f.id, v.Detail, v.Stmt, v.Frame, v.Where)
		}
	}
	nilPersister(t, st)
}

// execWitness is execProgram without the exclusion of listed regions.
func execWitness(prog []string, root bool, st *stats.Collector) verdict {
	noRegions = true
	defer func() { noRegions = false }()
	gr := make([]bool, len(prog))
	for i := range gr {
		gr[i] = true
	}
	return execProgram(prog, gr, root, stmtTimeout, st)
}

var noRegions bool

// nilPersister: an engine built by the public constructor with accounts enabled and no
// further configuration panics on the first account statement (mysql_db.MySQLDb.persister is
// nil). The shared fixture installs the no-op persister, so this witness builds its own engine.
func nilPersister(t *testing.T, st *stats.Collector) {
	const id = "C10-create-user-nil-persister"
	st.Eval()
	st.Class("witness")
	db := memory.NewDatabase("d")
	pro := memory.NewDBProvider(db)
	e := sqle.New(analyzer.NewDefault(pro), &sqle.Config{IncludeRootAccount: true})
	defer e.Close()
	sess := memory.NewSession(sql.NewBaseSessionWithClientServer("127.0.0.1:3306", sql.Client{User: "root", Address: "localhost"}, 1), pro)
	sess.SetCurrentDatabase("d")
	var pv any
	var stack string
	func() {
		defer func() {
			if p := recover(); p != nil {
				pv, stack = p, string(debug.Stack())
			}
		}()
		ctx := sql.NewContext(t.Context(), sql.WithSession(sess))
		_, iter, _, err := e.Query(ctx, "CREATE USER u1@localhost")
		if err == nil {
			for {
				if _, err := iter.Next(ctx); err != nil {
					break
				}
			}
			iter.Close(ctx)
		}
	}()
	fn, where := topFrame(stack)
	switch {
	case pv == nil:
		if kf.Listed(id) {
			t.Logf("STALE: listed finding %s no longer reproduces", id)
		}
	case strings.Contains(fn, "mysql_db.(*MySQLDb).Persist") && kf.Suppress(st, id):
		t.Logf("known finding %s still reproduces", id)
	default:
		t.Errorf("%s: CREATE USER on an engine created with sqle.New(..., &Config{IncludeRootAccount: true}) panics: %v at %s (%s)", id, pv, fn, where)
	}
}

// TestC10WriteReplays regenerates replays/C10 from the findings table (development tool:
// C10_WRITE_REPLAYS=<dir>).
func TestC10WriteReplays(t *testing.T) {
	dir := os.Getenv("C10_WRITE_REPLAYS")
	if dir == "" {
		t.Skip("tool")
	}
	all := append(append([]finding(nil), findings...), regressions...)
	for i := range all {
		f := &all[i]
		sc := fx.Script{Finding: f.id, What: "witness of " + f.id, Root: f.root}
		if i >= len(findings) {
			sc.Finding, sc.What = "", "regression witness (repaired in /repo): "+f.id
		}
		prog := f.witness
		if f.after != "" {
			prog = append(append([]string(nil), prog...), f.after)
		}
		for _, q := range setupFor(prog) {
			sc.Steps = append(sc.Steps, fx.ScriptStep{SQL: q, Expect: "ok"})
		}
		for _, q := range f.witness {
			sc.Steps = append(sc.Steps, fx.ScriptStep{SQL: q, Expect: "any"})
		}
		if f.after != "" {
			sc.Steps = append(sc.Steps, fx.ScriptStep{SQL: f.after, Expect: "ok"})
		}
		sc.Steps = append(sc.Steps, fx.ScriptStep{SQL: "SELECT 1", Expect: "ok"})
		b, _ := json.MarshalIndent(sc, "", " ")
		ext := ".json"
		if f.fatal {
			ext = ".script"
		}
		if err := os.WriteFile(filepath.Join(dir, f.id+ext), append(b, '\n'), 0o644); err != nil {
			t.Fatal(err)
		}
	}
}
