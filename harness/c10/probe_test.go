package c10

import (
	"sort"
	"testing"
	"time"

	"github.com/dolthub/go-mysql-server/vh/internal/fx"
)

func TestSetupCost(t *testing.T) {
	n := 30
	cost := make([]time.Duration, len(setupSQL))
	var mk time.Duration
	for i := 0; i < n; i++ {
		t0 := time.Now()
		f := fx.New(fx.Opts{DBs: []string{"mydb", "foo"}, Root: i%2 == 0})
		s := f.NewSession("", "", "")
		mk += time.Since(t0)
		for k, q := range setupSQL {
			t1 := time.Now()
			r := run(s, q, 20*time.Second)
			if !r.ok() {
				t.Fatalf("%v", r.Err)
			}
			cost[k] += time.Since(t1)
		}
		f.Close()
	}
	t.Logf("new: %v", mk/time.Duration(n))
	idx := make([]int, len(cost))
	for i := range idx {
		idx[i] = i
	}
	sort.Slice(idx, func(a, b int) bool { return cost[idx[a]] > cost[idx[b]] })
	var tot time.Duration
	for _, i := range idx {
		tot += cost[i]
	}
	t.Logf("total %v", tot/time.Duration(n))
	for _, i := range idx[:12] {
		t.Logf("%v %.60s", cost[i]/time.Duration(n), setupSQL[i])
	}
}
