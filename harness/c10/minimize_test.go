package c10

import (
	"bufio"
	"encoding/json"
	"fmt"
	"os"
	"sort"
	"testing"
)

// TestC10Minimize is a development tool: it reads the violations collected with C10_COLLECT,
// groups the panics by root-cause frame and reduces one representative per group (drop
// statements of the program, then delta-debug the tokens of the failing statement) while the
// same frame keeps panicking. C10_MIN_IN=<collect file> C10_MIN_OUT=<result file>.
func TestC10Minimize(t *testing.T) {
	in, outp := os.Getenv("C10_MIN_IN"), os.Getenv("C10_MIN_OUT")
	if in == "" || outp == "" {
		t.Skip("tool")
	}
	type rec struct {
		Kind, Frame, Where, Detail, Stmt string
		Idx                              int
		Prog                             []string
		Root                             bool
	}
	f, err := os.Open(in)
	if err != nil {
		t.Fatal(err)
	}
	groups := map[string][]rec{}
	sc := bufio.NewScanner(f)
	sc.Buffer(make([]byte, 1<<20), 64<<20)
	for sc.Scan() {
		var r rec
		if json.Unmarshal(sc.Bytes(), &r) == nil && r.Kind == "panic" {
			groups[r.Frame] = append(groups[r.Frame], r)
		}
	}
	f.Close()
	keys := make([]string, 0, len(groups))
	for k := range groups {
		keys = append(keys, k)
	}
	sort.Strings(keys)
	out, _ := os.Create(outp)
	defer out.Close()
	for _, k := range keys {
		rs := groups[k]
		sort.Slice(rs, func(i, j int) bool { return len(rs[i].Stmt)+10*len(rs[i].Prog) < len(rs[j].Stmt)+10*len(rs[j].Prog) })
		r := rs[0]
		same := func(prog []string) bool {
			gr := make([]bool, len(prog))
			for i := range gr {
				gr[i] = true
			}
			v := execProgram(prog, gr, r.Root, stmtTimeout, nil)
			return v.Kind == "panic" && v.Frame == r.Frame
		}
		prog := append([]string(nil), r.Prog...)
		if r.Idx < len(prog) {
			prog = prog[:r.Idx+1]
		}
		if !same(prog) {
			fmt.Fprintf(out, "{\"frame\":%q,\"note\":\"does not reproduce\"}\n", r.Frame)
			continue
		}
		// drop statements
		for i := len(prog) - 2; i >= 0; i-- {
			cand := append(append([]string(nil), prog[:i]...), prog[i+1:]...)
			if same(cand) {
				prog = cand
			}
		}
		// reduce tokens of every remaining statement, last first
		for si := len(prog) - 1; si >= 0; si-- {
			ts := lex(prog[si])
			try := func(c []token) bool {
				cand := append([]string(nil), prog...)
				cand[si] = render(c)
				return same(cand)
			}
			for n := len(ts) / 2; n >= 1; {
				removed := false
				for i := 0; i+n <= len(ts); {
					c := append(append([]token(nil), ts[:i]...), ts[i+n:]...)
					if len(c) > 0 && try(c) {
						ts = c
						removed = true
					} else {
						i += n
					}
				}
				if !removed || n > len(ts) {
					n /= 2
				}
				if n > len(ts) {
					n = len(ts)
				}
			}
			prog[si] = render(ts)
		}
		gr := make([]bool, len(prog))
		for i := range gr {
			gr[i] = true
		}
		v := execProgram(prog, gr, r.Root, stmtTimeout, nil)
		b, _ := json.Marshal(map[string]any{"frame": r.Frame, "where": v.Where, "panic": v.Detail, "prog": prog, "root": r.Root, "setup": setupFor(prog), "count": len(rs)})
		out.Write(append(b, '\n'))
		t.Logf("%s: %q", r.Frame, prog)
	}
}
