package c10

import (
	_ "embed"
	"encoding/json"
	"strings"

	"pgregory.net/rapid"
)

// corpusJSON is a sample (<= 120 statements per file, statements <= 320 bytes) of the SQL
// strings of /repo/enginetest/queries/*.go, extracted with testdata/tool/extract.go.txt.
//
//go:embed testdata/corpus.json
var corpusJSON []byte

var corpus = func() []string {
	var out []string
	if err := json.Unmarshal(corpusJSON, &out); err != nil {
		panic(err)
	}
	return out
}()

// mutate applies 1..3 token-level mutations to a seed statement.
func (g *gram) mutate(seed string) (string, []string) {
	ts := lex(seed)
	if len(ts) == 0 {
		return seed, nil
	}
	var ops []string
	n := g.n(1, 2, "nmut")
	for m := 0; m < n && len(ts) > 0; m++ {
		i := g.n(0, len(ts)-1, "pos")
		// syntax-preserving operators (literal, identifier, function, wrap, expression) are drawn
		// three times as often as the token-level ones, so that most mutants get past the parser
		op := mutOps[g.n(0, len(mutOps)-1, "mut")]
		switch op {
		case 0:
			ops = append(ops, "delete")
			ts = append(ts[:i:i], ts[i+1:]...)
		case 1:
			ops = append(ops, "duplicate")
			ts = append(ts[:i+1:i+1], ts[i:]...)
		case 2:
			ops = append(ops, "swap")
			j := g.n(0, len(ts)-1, "pos2")
			ts[i], ts[j] = ts[j], ts[i]
		case 3:
			ops = append(ops, "keyword")
			ts[i] = token{tkWord, g.one(keywords, "kw")}
		case 4:
			ops = append(ops, "punct")
			ts[i] = token{tkPunct, g.one(puncts, "pu")}
		case 5:
			ops = append(ops, "insert")
			var nt token
			switch g.n(0, 3, "insk") {
			case 0:
				nt = token{tkWord, g.one(keywords, "kw")}
			case 1:
				nt = token{tkPunct, g.one(puncts, "pu")}
			case 2:
				nt = token{tkNum, g.lit()}
			default:
				nt = token{tkWord, g.one(fixTables, "tab")}
			}
			ts = append(ts[:i:i], append([]token{nt}, ts[i:]...)...)
		case 6:
			ops = append(ops, "truncate")
			ts = ts[:i]
		case 7, 8, 9:
			// replace a literal (or, failing that, any token) by a hostile literal
			ops = append(ops, "literal")
			k := nearest(ts, i, func(t token) bool { return t.k == tkNum || t.k == tkStr })
			if k < 0 {
				k = i
			}
			ts[k] = token{tkStr, g.lit()}
		case 10, 11:
			// replace an identifier by a name of the fixture (table after FROM/JOIN/INTO/UPDATE/TABLE, else column)
			ops = append(ops, "ident")
			k := nearest(ts, i, func(t token) bool { return t.k == tkWord || t.k == tkQuote })
			if k < 0 {
				break
			}
			prev := ""
			if k > 0 {
				prev = strings.ToUpper(ts[k-1].s)
			}
			switch prev {
			case "FROM", "JOIN", "INTO", "UPDATE", "TABLE", "ON", "DESCRIBE":
				ts[k] = token{tkWord, g.one(fixTables, "tab")}
			default:
				tb := g.one(fixTables, "tab")
				ts[k] = token{tkWord, g.one(fixCols[tb], "col")}
			}
		case 12:
			// replace a function name (word followed by "(") by another function of the registry
			ops = append(ops, "function")
			k := -1
			for d := 0; d < len(ts); d++ {
				j := (i + d) % len(ts)
				if ts[j].k == tkWord && j+1 < len(ts) && ts[j+1].s == "(" {
					k = j
					break
				}
			}
			if k < 0 {
				break
			}
			ts[k] = token{tkWord, g.one(registryNames(), "fn")}
		case 13:
			// wrap a literal or identifier into a function call / cast / charset conversion
			ops = append(ops, "wrap")
			k := nearest(ts, i, func(t token) bool { return t.k == tkNum || t.k == tkStr })
			if k < 0 {
				break
			}
			inner := ts[k].s
			w := g.one([]string{g.one(registryNames(), "fn") + "(" + inner + ")", "CAST(" + inner + " AS " + g.one(castTypes, "ct") + ")", "CONVERT(" + inner + " USING " + g.one(charsets, "cs") + ")",
				"(" + inner + " COLLATE " + g.one(collations, "coll") + ")", "(SELECT " + inner + ")", "-" + inner, "(" + inner + ", " + inner + ")"}, "wrapk")
			ts[k] = token{tkStr, w}
		case 14:
			// splice: replace the tail by the tail of another corpus statement
			ops = append(ops, "splice")
			o := lex(corpus[g.n(0, len(corpus)-1, "other")])
			if len(o) > 0 {
				j := g.n(0, len(o)-1, "opos")
				ts = append(ts[:i:i], o[j:]...)
			}
		default:
			// replace an expression-looking token by a generated expression
			ops = append(ops, "expr")
			k := nearest(ts, i, func(t token) bool { return t.k == tkNum || t.k == tkStr || t.k == tkVar })
			if k < 0 {
				k = i
			}
			g.budget = 8
			ts[k] = token{tkStr, g.expr(2)}
		}
	}
	return render(ts), ops
}

var mutOps = []int{0, 1, 2, 3, 4, 5, 6, 14, 7, 8, 9, 7, 8, 9, 10, 11, 10, 11, 10, 11, 12, 12, 12, 13, 13, 13, 15, 15, 15, 7, 10, 12}

func nearest(ts []token, i int, ok func(token) bool) int {
	for d := 0; d < len(ts); d++ {
		if i+d < len(ts) && ok(ts[i+d]) {
			return i + d
		}
		if i-d >= 0 && ok(ts[i-d]) {
			return i - d
		}
	}
	return -1
}

var _ = rapid.Check
