package c10

import (
	"reflect"
	"sort"
	"strings"

	"github.com/dolthub/go-mysql-server/sql"
	"github.com/dolthub/go-mysql-server/sql/expression/function"
)

// fnInfo is one entry of the engine's function registry with the arity its wrapper type fixes
// (-1 = variadic).
type fnInfo struct {
	name  string
	arity int
}

// registry is read from function.BuiltIns at run time, so functions added to the engine are
// covered without touching the harness.
var registry = func() []fnInfo {
	var out []fnInfo
	for _, f := range function.BuiltIns {
		a := -1
		switch f.(type) {
		case sql.Function0:
			a = 0
		case sql.Function1:
			a = 1
		case sql.Function2:
			a = 2
		case sql.Function3:
			a = 3
		case sql.Function4:
			a = 4
		case sql.Function5:
			a = 5
		case sql.Function6:
			a = 6
		case sql.Function7:
			a = 7
		default:
			_ = reflect.TypeOf(f)
		}
		out = append(out, fnInfo{strings.ToUpper(f.FunctionName()), a})
	}
	sort.Slice(out, func(i, j int) bool { return out[i].name < out[j].name })
	return out
}()

// Functions that legitimately run long, block, touch the file system or the process, or are
// non-deterministic in a way that makes a failing case irreproducible. They are never
// generated and statements containing them are not executed (DESIGN C10: "statements that can
// legitimately run long ... are excluded").
var neverCall = map[string]bool{
	"SLEEP": true, "BENCHMARK": true, "GET_LOCK": true, "RELEASE_LOCK": true, "RELEASE_ALL_LOCKS": true,
	"IS_FREE_LOCK": true, "IS_USED_LOCK": true, "LOAD_FILE": true,
}

var windowFns = []string{"ROW_NUMBER()", "RANK()", "DENSE_RANK()", "PERCENT_RANK()", "CUME_DIST()", "NTILE(%s)", "LAG(%s)", "LAG(%s, %s)", "LAG(%s, %s, %s)",
	"LEAD(%s)", "LEAD(%s, %s, %s)", "FIRST_VALUE(%s)", "LAST_VALUE(%s)", "NTH_VALUE(%s, %s)", "SUM(%s)", "COUNT(%s)", "COUNT(*)", "AVG(%s)", "MIN(%s)", "MAX(%s)",
	"GROUP_CONCAT(%s)", "JSON_ARRAYAGG(%s)", "JSON_OBJECTAGG(%s, %s)", "BIT_AND(%s)", "BIT_OR(%s)", "BIT_XOR(%s)", "STD(%s)", "VARIANCE(%s)", "ANY_VALUE(%s)"}

var aggFns = []string{"COUNT(*)", "COUNT(%s)", "COUNT(DISTINCT %s)", "COUNT(DISTINCT %s, %s)", "SUM(%s)", "SUM(DISTINCT %s)", "AVG(%s)", "AVG(DISTINCT %s)", "MIN(%s)", "MAX(%s)",
	"GROUP_CONCAT(%s)", "GROUP_CONCAT(DISTINCT %s ORDER BY %s DESC SEPARATOR %s)", "GROUP_CONCAT(%s, %s ORDER BY 1)", "JSON_ARRAYAGG(%s)", "JSON_OBJECTAGG(%s, %s)",
	"BIT_AND(%s)", "BIT_OR(%s)", "BIT_XOR(%s)", "STD(%s)", "STDDEV_SAMP(%s)", "VAR_POP(%s)", "VAR_SAMP(%s)", "ANY_VALUE(%s)", "FIRST(%s)", "LAST(%s)"}

var charsets = []string{"armscii8", "ascii", "big5", "binary", "cp1250", "cp1251", "cp1256", "cp1257", "cp850", "cp852", "cp866", "cp932", "dec8", "eucjpms",
	"euckr", "gb18030", "gb2312", "gbk", "geostd8", "greek", "hebrew", "hp8", "keybcs2", "koi8r", "koi8u", "latin1", "latin2", "latin5", "latin7", "macce",
	"macroman", "sjis", "swe7", "tis620", "ucs2", "ujis", "utf16", "utf16le", "utf32", "utf8", "utf8mb3", "utf8mb4", "nosuchcs"}

var collations = []string{"utf8mb4_0900_bin", "utf8mb4_0900_ai_ci", "utf8mb4_0900_as_cs", "utf8mb4_general_ci", "utf8mb4_unicode_ci", "utf8mb4_bin",
	"latin1_swedish_ci", "latin1_bin", "latin1_general_cs", "binary", "utf16_unicode_ci", "utf16_bin", "utf8mb3_general_ci", "utf8mb3_bin", "ascii_bin",
	"ascii_general_ci", "utf32_bin", "utf32_general_ci", "ucs2_general_ci", "sjis_japanese_ci", "utf8mb4_ja_0900_as_cs", "big5_chinese_ci", "utf8mb4_tr_0900_ai_ci",
	"utf8mb4_es_0900_ai_ci", "utf16le_bin", "cp1251_bulgarian_ci", "gb18030_chinese_ci", "nosuch_collation"}

var castTypes = []string{"SIGNED", "UNSIGNED", "SIGNED INTEGER", "UNSIGNED INTEGER", "CHAR", "CHAR(0)", "CHAR(1)", "CHAR(3)", "CHAR(255)", "CHAR(70000)",
	"CHAR CHARACTER SET latin1", "CHAR(3) CHARACTER SET utf16", "NCHAR", "NCHAR(2)", "BINARY", "BINARY(0)", "BINARY(1)", "BINARY(5)", "BINARY(70000)", "DATE", "DATETIME", "DATETIME(0)",
	"DATETIME(3)", "DATETIME(6)", "DATETIME(7)", "TIME", "TIME(6)", "YEAR", "DECIMAL", "DECIMAL(1)", "DECIMAL(1,0)", "DECIMAL(1,1)", "DECIMAL(10,2)",
	"DECIMAL(30,30)", "DECIMAL(65,30)", "DECIMAL(65,0)", "DECIMAL(66,0)", "DECIMAL(10,31)", "DECIMAL(2,3)", "DECIMAL(0,0)", "DOUBLE", "FLOAT", "FLOAT(10)",
	"FLOAT(53)", "FLOAT(54)", "REAL", "JSON", "POINT", "GEOMETRY", "VECTOR", "TEXT", "LONGTEXT", "BLOB", "INT", "BIGINT", "BOOLEAN", "SIGNED ARRAY"}

var colTypes = []string{"INT", "INT UNSIGNED", "TINYINT", "TINYINT UNSIGNED", "TINYINT(1)", "BOOLEAN", "SMALLINT", "MEDIUMINT", "MEDIUMINT UNSIGNED", "BIGINT", "BIGINT UNSIGNED",
	"INT(11) ZEROFILL", "FLOAT", "FLOAT(10,2)", "DOUBLE", "DOUBLE PRECISION", "REAL", "DECIMAL", "DECIMAL(1,1)", "DECIMAL(10,2)", "DECIMAL(65,30)", "DECIMAL(66,30)", "NUMERIC(5)",
	"CHAR", "CHAR(0)", "CHAR(5)", "CHAR(255)", "CHAR(256)", "VARCHAR(0)", "VARCHAR(1)", "VARCHAR(20)", "VARCHAR(16383)", "VARCHAR(16384)", "VARCHAR(65535)", "VARCHAR(65536)",
	"VARCHAR(10) CHARACTER SET latin1", "VARCHAR(10) COLLATE utf8mb4_0900_ai_ci", "VARCHAR(10) CHARACTER SET utf16 COLLATE utf16_unicode_ci", "VARCHAR(10) CHARACTER SET latin1 COLLATE utf8mb4_bin",
	"TEXT", "TINYTEXT", "MEDIUMTEXT", "LONGTEXT", "TEXT CHARACTER SET latin1", "BINARY", "BINARY(0)", "BINARY(4)", "VARBINARY(10)", "VARBINARY(65535)", "BLOB", "TINYBLOB", "MEDIUMBLOB", "LONGBLOB",
	"DATE", "DATETIME", "DATETIME(3)", "DATETIME(6)", "DATETIME(7)", "TIMESTAMP", "TIMESTAMP(6)", "TIME", "TIME(6)", "YEAR", "YEAR(4)", "ENUM('a','b')", "ENUM('')", "ENUM('a','a')", "ENUM('a','A')",
	"ENUM()", "SET('a','b')", "SET('a,b')", "SET('')", "BIT", "BIT(1)", "BIT(64)", "BIT(65)", "BIT(0)", "JSON", "GEOMETRY", "POINT", "LINESTRING", "POLYGON", "MULTIPOINT", "GEOMETRYCOLLECTION",
	"POINT SRID 4326", "POINT SRID 1234", "VECTOR(3)", "VECTOR(0)", "SERIAL", "NCHAR(3)", "NATIONAL VARCHAR(3)", "LONG VARCHAR", "BOOL", "INT1", "FIXED", "nosuchtype"}

var intervalUnits = []string{"MICROSECOND", "SECOND", "MINUTE", "HOUR", "DAY", "WEEK", "MONTH", "QUARTER", "YEAR", "SECOND_MICROSECOND", "MINUTE_MICROSECOND", "MINUTE_SECOND",
	"HOUR_MICROSECOND", "HOUR_SECOND", "HOUR_MINUTE", "DAY_MICROSECOND", "DAY_SECOND", "DAY_MINUTE", "DAY_HOUR", "YEAR_MONTH"}

var sysvars = []string{"autocommit", "sql_mode", "max_connections", "sql_select_limit", "character_set_client", "character_set_results", "character_set_connection",
	"collation_connection", "collation_server", "collation_database", "character_set_server", "time_zone", "foreign_key_checks", "unique_checks", "group_concat_max_len",
	"max_allowed_packet", "lower_case_table_names", "version", "version_comment", "tx_isolation", "transaction_isolation", "transaction_read_only", "read_only", "innodb_autoinc_lock_mode",
	"auto_increment_increment", "auto_increment_offset", "secure_file_priv", "sql_safe_updates", "strict_mysql_compatibility", "local_infile", "event_scheduler", "default_storage_engine",
	"information_schema_stats_expiry", "net_read_timeout", "max_execution_time", "div_precision_increment", "block_encryption_mode", "lc_time_names", "lc_messages", "last_insert_id",
	"identity", "insert_id", "timestamp", "rand_seed1", "pseudo_thread_id", "server_id", "server_uuid", "gtid_mode", "binlog_format", "log_bin", "nosuchvar", "cte_max_recursion_depth",
	"regexp_time_limit", "regexp_stack_limit", "explicit_defaults_for_timestamp", "sql_log_bin", "wait_timeout", "interactive_timeout", "lock_wait_timeout", "innodb_lock_wait_timeout"}

var sqlModes = []string{"", "ANSI", "ANSI_QUOTES", "STRICT_TRANS_TABLES", "STRICT_ALL_TABLES", "ONLY_FULL_GROUP_BY", "NO_ZERO_DATE", "NO_ZERO_IN_DATE", "ERROR_FOR_DIVISION_BY_ZERO",
	"NO_ENGINE_SUBSTITUTION", "PIPES_AS_CONCAT", "NO_BACKSLASH_ESCAPES", "NO_AUTO_VALUE_ON_ZERO", "TRADITIONAL", "ALLOW_INVALID_DATES", "HIGH_NOT_PRECEDENCE", "IGNORE_SPACE",
	"NO_UNSIGNED_SUBTRACTION", "PAD_CHAR_TO_FULL_LENGTH", "REAL_AS_FLOAT", "TIME_TRUNCATE_FRACTIONAL", "NOSUCHMODE", "ANSI_QUOTES,PIPES_AS_CONCAT", ",,"}

// ---------------------------------------------------------------------------------------
// literals

var numLits = []string{"0", "-0", "1", "-1", "2", "3", "10", "127", "128", "-128", "-129", "255", "256", "300", "32767", "32768", "65535", "65536", "8388607", "16777215", "2147483647",
	"2147483648", "-2147483648", "-2147483649", "4294967295", "4294967296", "9223372036854775807", "9223372036854775808", "-9223372036854775808", "-9223372036854775809",
	"18446744073709551615", "18446744073709551616", "99999999999999999999999999999999999999999999999999999999999999999", "-99999999999999999999999999999999999999999999999999999999999999999",
	"999999999999999999999999999999999999999999999999999999999999999999999999999999999999", "0.1", "-0.5", "1.5", "2.5", ".5", "1.", "0.0", "-0.0", "0.000000000000000000000000000001",
	"0.00000000000000000000000000000000000000000000000000000000000000000000000001", "123456789012345678901234567890.123456789012345678901234567890", "1e0", "1e1", "1e-1", "1e308", "1e309",
	"-1e308", "-1e309", "1e-320", "1e-400", "1.7976931348623157e308", "4.9e-324", "1e38", "3.4028235e38", "3.5e38", "1e15", "1e16", "9007199254740993", "1e19", "1e20", "1e65", "1e66", "1e81", "1e82",
	"0x", "0x0", "0xFF", "0xFFFF", "0xFFFFFFFFFFFFFFFF", "0xFFFFFFFFFFFFFFFFFF", "0x123", "x'00'", "x'FF'", "X'0'", "x'zz'", "x''", "b''", "b'0'", "b'1'", "b'2'", "0b101", "0b",
	"b'1111111111111111111111111111111111111111111111111111111111111111'", "b'11111111111111111111111111111111111111111111111111111111111111111'", "TRUE", "FALSE", "NULL", "true", "false"}

var strLits = []string{"", " ", "a", "A", "abc", "ABC", "aB", "a ", " a", "á", "Á", "ß", "ss", "€", "😀", "日本語", "ı", "İ", "ǆ", "\u0301", "a\u0301", "\u200b", "\ufeff", "\U0010ffff",
	"%", "_", "%a%", "a%", "\\", "\\\\", "\\%", "'", "\"", "`", ";", "--", "/*", "*/", "#", "\n", "\t", "\r\n",
	"0", "1", "-1", "1.5", "1e5", "1e400", "-1e400", "0x10", "1abc", " 1 ", "1.5e", "+1", "--1", "1 2", "٣", "１２３", "9223372036854775808", "-9223372036854775809", "18446744073709551616", "nan", "NaN", "inf", "-inf", "Infinity", "0e0",
	"true", "false", "null", "NULL", "on", "off", "yes", "default",
	"2020-01-01", "2020-1-1", "20200101", "200101", "0000-00-00", "0000-00-00 00:00:00", "2020-00-00", "2020-02-30", "2020-02-29", "2021-02-29", "2020-13-01", "2020-12-32", "9999-12-31", "9999-12-31 23:59:59.999999",
	"9999-12-31 23:59:59.9999999", "10000-01-01", "1000-01-01", "0999-12-31", "0001-01-01", "0000-01-01", "1969-12-31 23:59:59", "1970-01-01 00:00:00", "1970-01-01 00:00:01", "2038-01-19 03:14:07", "2038-01-19 03:14:08",
	"2020-01-01 24:00:00", "2020-01-01 23:60:00", "2020-01-01 23:59:60", "2020-01-01T12:00:00Z", "2020-01-01 12:00:00+14:00", "2020-01-01 12:00:00-15:00", "2020-01-01 12:00:00.1234567", "2020/01/01", "2020.01.01", "20-1-1", "70-1-1", "69-12-31",
	"-2020-01-01", "2020-01-01 -1:00:00", "99999999999999", "1e10-01-01",
	"00:00:00", "24:00:00", "838:59:59", "-838:59:59", "839:00:00", "-839:00:00", "1 1:1:1", "34 22:59:59", "35 00:00:00", "12:60:00", "12:00:60", "1:1", "11", "1111", "111111", "1111111", "-1111111", "00:00:00.000001", "00:00:00.9999999", "8385959", "8390000",
	"+00:00", "-13:59", "+14:00", "+14:01", "-14:00", "UTC", "SYSTEM", "America/New_York", "Europe/Nowhere", "00:00", "+0:0",
	"{}", "[]", "{\"a\":1}", "{\"a\": {\"b\": [1, 2, {\"c\": null}]}}", "[1,2", "{", "}", "[", "{\"a\":}", "{\"a\":1,\"a\":2}", "{\"\":1}", "\"x\"", "1", "1.0", "1e2", "-0", "1E400", "true", "nul", "[[[[[[[[[[[[[[[[[[[[[[[[[[[[[[[[]]]]]]]]]]]]]]]]]]]]]]]]]]]]]]]]", "{\"a\":\"\\ud800\"}", "{\"a\":\"\\u0000\"}", "[1, \"a\", null, true, 1.5, {\"k\": []}]",
	"$", "$.a", "$.a.b", "$[0]", "$[1]", "$[last]", "$[last-1]", "$[0 to 1]", "$[*]", "$.*", "$**.a", "$**", "$.a[*].b", "$.", "$[", "$[-1]", "$[99999999999999999999]", "$.\"a b\"", "$.\"\"", "a", "$$", "$.a.", "$ .a", "$[0][0][0][0][0][0][0][0]", "one", "all", "ONE", "neither",
	"POINT(1 2)", "POINT(1)", "POINT(", "POINT()", "POINT(1 2 3)", "POINT(1e400 0)", "POINT(nan nan)", "POINT EMPTY", "LINESTRING(0 0,1 1)", "LINESTRING(0 0)", "LINESTRING()", "POLYGON((0 0,0 1,1 1,1 0,0 0))", "POLYGON((0 0,1 1,0 0))", "POLYGON((0 0,1 1))", "POLYGON(())", "POLYGON((0 0,0 1,1 1,1 0,0 0),(0.1 0.1,0.1 0.2,0.2 0.2,0.1 0.1))",
	"MULTIPOINT(0 0,1 1)", "MULTIPOINT((0 0),(1 1))", "MULTILINESTRING((0 0,1 1),(2 2,3 3))", "MULTIPOLYGON(((0 0,0 1,1 1,0 0)))", "GEOMETRYCOLLECTION(POINT(1 1),LINESTRING(0 0,1 1))", "GEOMETRYCOLLECTION()", "GEOMETRYCOLLECTION EMPTY", "GEOMETRYCOLLECTION(GEOMETRYCOLLECTION(GEOMETRYCOLLECTION()))", "SRID=4326;POINT(1 1)", "POINT(180 90)", "POINT(181 91)",
	"{\"type\":\"Point\",\"coordinates\":[1,2]}", "{\"type\":\"Point\",\"coordinates\":[]}", "{\"type\":\"Point\"}", "{\"type\":\"LineString\",\"coordinates\":[[0,0]]}", "{\"type\":\"Polygon\",\"coordinates\":[]}", "{\"type\":\"Feature\",\"geometry\":null}", "{\"type\":\"GeometryCollection\",\"geometries\":[]}", "{\"type\":\"Nope\",\"coordinates\":[1,2]}", "{\"type\":\"Point\",\"coordinates\":[\"a\",2]}", "{\"type\":\"Point\",\"coordinates\":[1,2],\"crs\":{\"type\":\"name\",\"properties\":{\"name\":\"EPSG:0\"}}}",
	"(", ")", "[", "]", "[a", "a)", "(a", "(?i)a", "(?x) a", "a{2}", "a{1000000}", "a{2,1}", "(a*)*b", "(a|aa)+$", "(.*)*x", "\\", "\\1", "\\k<n>", "(?<n>a)\\k<n>", "[[:alpha:]]", "[[:nope:]]", "[[.a.]]", "[[=a=]]", "^$", ".*", ".", "a|", "|", "*", "+", "?", "a**", "a++", "(?=a)", "(?!a)", "(?<=a)b", "(?<!a)b", "\\p{L}", "\\p{Nope}", "\\x{110000}", "\\u00e9", "\\Qa\\E", "\\b", "\\B", "\\d+", "[z-a]", "[\\d-z]", "(?#c)a", "\\N{LATIN SMALL LETTER A}", "(((((((((((((((((((((a)))))))))))))))))))))", "aaaaaaaaaaaaaaaaaaaaaaaaaaaaaaaaaaaaaaaaaaaaaaaaaaaaaaaaaaaaaaaa", "c", "i", "m", "n", "u", "cimnu", "z", "ci",
	"%Y-%m-%d", "%Y-%m-%d %H:%i:%s.%f", "%", "%%", "%%%", "%a%b%c%D%d%e%f%H%h%I%i%j%k%l%M%m%p%r%S%s%T%U%u%V%v%W%w%X%x%Y%y", "%Q", "%1", "%é", "%Y%", "%H:%i %p", "%T %r", "%U %u %V %v %X %x", "%j", "%W %M %D", "%y", "%s%s%s%s",
	"utf8mb4", "latin1", "binary", "utf16", "SECOND", "DAY_HOUR", "en_US", "de_DE", "xx_XX", "aes-128-ecb", "aes-256-cbc", "root", "localhost", "root@localhost", "%", "127.0.0.1", "::1", "1.2.3", "256.256.256.256", "::ffff:1.2.3.4", "fe80::1%eth0", "1.2.3.4.5", "0", "12345678-1234-1234-1234-123456789012", "{12345678-1234-1234-1234-123456789012}", "12345678123412341234123456789012", "not-a-uuid",
	"mytable", "mydb", "mydb.mytable", "i", "s", "*", "nosuch", "information_schema", "PRIMARY", "mytable_s",
	"first row", "second", "x", "y", "z", "a,b", "a,b,c", "a,,b", ",", "b,a", "d",
	"SELECT 1", "SELECT ?", "SELECT * FROM mytable WHERE i = ?", "SELECT ? + ?", "INSERT INTO xy VALUES (?, ?)", "PREPARE s FROM 'SELECT 1'", "CALL p1(?)", "SET @a = ?", "", "?", "SELECT", "SHOW TABLES", "CREATE TABLE pz (a INT)", "DROP TABLE xy"}

// raw byte strings that are not valid UTF-8 (they are written into the statement text as-is
// and, separately, as hex literals)
var badUTF8 = []string{"\xff", "\xfe\xff", "\xc3", "\xc3\x28", "a\xc0\xafb", "\xe2\x82", "\xed\xa0\x80", "\xed\xbf\xbf", "\xf4\x90\x80\x80", "\xf8\x88\x80\x80\x80", "\xf0\x9f\x98", "\x80", "\xbf\xbf\xbf", "a\x00b", "\x00", "\x00\x00\x00\x00", "\x1a", "\x7f", "\xc2\x80", "\xef\xbf\xbe", "\xef\xbb\xbf", "\xe9", "caf\xe9", "\xa4", "\x81\x30\x81\x30", "\x8e\xa1", "\x82\xa0", "\xd8\x00", "\x00\xd8\x00\xdc", "\x00\x00\xd8\x00", "\x00\x11\x00\x00"}

func quote(s string) string {
	s = strings.ReplaceAll(s, `\`, `\\`)
	s = strings.ReplaceAll(s, `'`, `''`)
	return "'" + s + "'"
}

// quoteRaw quotes without escaping backslashes (so that escape sequences reach the lexer).
func quoteRaw(s string) string {
	return "'" + strings.ReplaceAll(s, `'`, `''`) + "'"
}

const hexdigits = "0123456789ABCDEF"

func hexLit(s string) string {
	var sb strings.Builder
	sb.WriteString("0x")
	for i := 0; i < len(s); i++ {
		sb.WriteByte(hexdigits[s[i]>>4])
		sb.WriteByte(hexdigits[s[i]&15])
	}
	return sb.String()
}

// keywords used by the token-level mutator
var keywords = strings.Fields(`SELECT FROM WHERE GROUP BY HAVING ORDER LIMIT OFFSET AS ON JOIN LEFT RIGHT INNER OUTER CROSS NATURAL FULL USING UNION INTERSECT EXCEPT ALL DISTINCT
AND OR NOT XOR IS NULL TRUE FALSE IN BETWEEN LIKE REGEXP RLIKE ESCAPE EXISTS ANY SOME CASE WHEN THEN ELSE END IF DIV MOD COLLATE BINARY INTERVAL
INSERT INTO VALUES VALUE UPDATE SET DELETE REPLACE IGNORE DUPLICATE KEY ON CREATE ALTER DROP TABLE INDEX VIEW TRIGGER PROCEDURE DATABASE SCHEMA EVENT USER ROLE
ADD COLUMN MODIFY CHANGE RENAME TO PRIMARY UNIQUE FOREIGN REFERENCES CONSTRAINT CHECK DEFAULT AUTO_INCREMENT COMMENT GENERATED ALWAYS VIRTUAL STORED FIRST AFTER
SHOW DESCRIBE EXPLAIN ANALYZE USE BEGIN START TRANSACTION COMMIT ROLLBACK SAVEPOINT RELEASE LOCK UNLOCK TABLES READ WRITE ONLY GRANT REVOKE PRIVILEGES
PREPARE EXECUTE DEALLOCATE CALL WITH RECURSIVE OVER PARTITION ROWS RANGE UNBOUNDED PRECEDING FOLLOWING CURRENT ROW WINDOW LATERAL JSON_TABLE COLUMNS PATH
FOR EACH BEFORE AFTER NEW OLD DECLARE HANDLER CONTINUE EXIT SIGNAL SQLSTATE LOOP WHILE REPEAT UNTIL LEAVE ITERATE RETURN CURSOR OPEN FETCH CLOSE
ASC DESC NULLS TEMPORARY FULLTEXT SPATIAL SRID CHARACTER CHARSET UNSIGNED SIGNED ZEROFILL GLOBAL SESSION PERSIST LOCAL NAMES STATUS VARIABLES COLUMNS
INDEXES KEYS PROCESSLIST GRANTS WARNINGS ERRORS ENGINES PLUGINS TRIGGERS EVENTS CHARSET COLLATION DATABASES FUNCTION LIKE MATCH AGAINST BOOLEAN MODE NATURAL LANGUAGE QUERY EXPANSION
STRAIGHT_JOIN SQL_CALC_FOUND_ROWS HIGH_PRIORITY LOW_PRIORITY DELAYED FORCE TRUNCATE OPTIMIZE KILL CONNECTION FLUSH RESET DO HANDLER CASCADE RESTRICT NO ACTION
DATE TIME TIMESTAMP DATETIME YEAR CHAR VARCHAR INT BIGINT DECIMAL DOUBLE FLOAT JSON BLOB TEXT ENUM POINT GEOMETRY DUAL OF AS OF MEMBER ROW VECTOR`)

var puncts = []string{"(", ")", ",", ".", ";", "*", "+", "-", "/", "%", "=", "<", ">", "<=", ">=", "<>", "!=", "<=>", "!", "~", "&", "|", "^", "<<", ">>", "||", "&&", ":=", "->", "->>", "?", ":", "@", "@@", "{", "}", "[", "]", "\\"}
