package c10

import (
	"github.com/dolthub/go-mysql-server/sql/variables"
	"github.com/dolthub/go-mysql-server/vh/internal/fx"
)

// The populated schema every case starts from. Table and column names are the ones the
// repository's own test scripts use most often (mytable, othertable, t, t1, t2, test, xy, uv,
// ab, one_pk, two_pk), so that statements of the seed corpus and their mutants bind; table w
// has one column of every storable type family; ti is the TINYINT-indexed table of DESIGN
// section 7 (F14/F15). Every table has at most 8 rows (the hang clause speaks of <= 64 rows).
var setupSQL = []string{
	"CREATE TABLE mytable (i BIGINT PRIMARY KEY, s VARCHAR(20) NOT NULL, UNIQUE KEY mytable_s (s), KEY mytable_i_s (i,s))",
	"INSERT INTO mytable VALUES (1,'first row'),(2,'second row'),(3,'third row')",
	"CREATE TABLE othertable (s2 VARCHAR(20) NOT NULL, i2 BIGINT PRIMARY KEY, KEY othertable_s2 (s2))",
	"INSERT INTO othertable VALUES ('first',3),('second',2),('third',1)",
	"CREATE TABLE t (pk INT PRIMARY KEY, i INT, j INT, a INT, b VARCHAR(20), c DECIMAL(10,2), v1 INT, v2 INT, KEY ti (i), KEY tv (v1,v2), KEY tb (b))",
	"INSERT INTO t VALUES (1,1,1,1,'a',1.50,1,1),(2,2,NULL,-1,'B',-2.25,2,NULL),(3,NULL,3,0,NULL,NULL,NULL,3),(4,2147483647,-2147483648,4,'',0.00,4,4)",
	"CREATE TABLE t1 (pk INT PRIMARY KEY, a INT, b INT, c VARCHAR(10), v1 INT, KEY t1a (a), KEY t1bc (b,c))",
	"INSERT INTO t1 VALUES (1,1,1,'x',1),(2,2,NULL,'y',2),(3,NULL,3,NULL,3)",
	"CREATE TABLE t2 (pk INT PRIMARY KEY, a INT, b INT, c VARCHAR(10), v1 INT, KEY t2a (a))",
	"INSERT INTO t2 VALUES (1,1,2,'x',1),(2,3,NULL,'z',NULL)",
	"CREATE TABLE test (pk INT PRIMARY KEY, id INT, a INT, b INT, v1 INT, v VARCHAR(10), x INT, j JSON)",
	`INSERT INTO test VALUES (1,1,1,1,1,'a',1,'{"a": 1, "b": [1, 2, {"c": null}]}'),(2,2,NULL,2,NULL,NULL,2,'[1, "x", 2.5]'),(3,3,3,NULL,3,'c',NULL,NULL)`,
	"CREATE TABLE xy (x INT PRIMARY KEY, y INT, KEY xy_y (y))",
	"INSERT INTO xy VALUES (0,2),(1,0),(2,1),(3,NULL)",
	"CREATE TABLE uv (u INT PRIMARY KEY, v INT)",
	"INSERT INTO uv VALUES (0,1),(1,1),(2,2),(3,2)",
	"CREATE TABLE ab (a INT PRIMARY KEY, b INT)",
	"INSERT INTO ab VALUES (0,2),(1,2),(2,2),(3,1)",
	"CREATE TABLE one_pk (pk TINYINT PRIMARY KEY, c1 TINYINT, c2 TINYINT, c3 TINYINT, c4 TINYINT, c5 TINYINT)",
	"INSERT INTO one_pk VALUES (0,0,1,2,3,4),(1,10,11,12,13,14),(2,20,21,22,23,24),(3,30,31,32,33,34)",
	"CREATE TABLE two_pk (pk1 TINYINT, pk2 TINYINT, c1 TINYINT, c2 TINYINT, c3 TINYINT, PRIMARY KEY (pk1,pk2))",
	"INSERT INTO two_pk VALUES (0,0,0,1,2),(0,1,10,11,12),(1,0,20,21,22),(1,1,30,31,32)",
	"CREATE TABLE ti (b TINYINT, KEY kb (b))",
	"INSERT INTO ti VALUES (2),(-128),(127),(NULL)",
	`CREATE TABLE w (id INT PRIMARY KEY AUTO_INCREMENT, tu TINYINT UNSIGNED, si SMALLINT, bu BIGINT UNSIGNED, f FLOAT, dbl DOUBLE,
		dc DECIMAL(20,6), ch CHAR(5), vc VARCHAR(30) COLLATE utf8mb4_0900_ai_ci, l1 VARCHAR(10) CHARACTER SET latin1, bn BINARY(4), vb VARBINARY(10),
		tx TEXT, bl BLOB, dt DATE, dtm DATETIME(6), ts TIMESTAMP, tm TIME, yr YEAR, en ENUM('x','y','z'), st SET('a','b','c'), bt BIT(10),
		js JSON, g GEOMETRY, pt POINT, KEY w_tu (tu), KEY w_vc (vc), KEY w_dt (dt), KEY w_dc (dc), KEY w_l1 (l1))`,
	`INSERT INTO w VALUES
		(1,0,-32768,0,-1.5,1e308,-99999999999999.999999,'','Ab','x',0x00000000,'',' ',0x00,'1000-01-01','1000-01-01 00:00:00.000000','1970-01-01 00:00:01','-838:59:59',1901,'x','',b'0','{}',ST_GeomFromText('POINT(1 2)'),POINT(0,0)),
		(2,255,32767,18446744073709551615,3.25,-1e-308,99999999999999.999999,'abcde','áB ','ñ',0xFFFFFFFF,0xFF00FF,'text',0xDEADBEEF,'9999-12-31','9999-12-31 23:59:59.999999','2038-01-19 03:14:07','838:59:59',2155,'z','a,b,c',b'1111111111','{"a": [1, {"b": "x"}], "c": null}',ST_GeomFromText('LINESTRING(0 0,1 1)'),POINT(-1.5,2e10)),
		(3,NULL,NULL,NULL,NULL,NULL,NULL,NULL,NULL,NULL,NULL,NULL,NULL,NULL,NULL,NULL,NULL,NULL,NULL,NULL,NULL,NULL,NULL,NULL,NULL),
		(4,7,0,9223372036854775808,0,0,0.000001,'a','A','y',0x61,'a','A',0x61,'2020-02-29','2020-02-29 12:00:00','2020-02-29 12:00:00','00:00:01',2020,'y','b',b'101','[1, "2", 3.5, true, null]',ST_GeomFromText('POLYGON((0 0,0 1,1 1,1 0,0 0))'),POINT(1,1))`,
	"CREATE TABLE parent (id INT PRIMARY KEY, v1 INT, v2 INT, KEY parent_v1 (v1))",
	"INSERT INTO parent VALUES (1,1,1),(2,2,2)",
	"CREATE TABLE child (id INT PRIMARY KEY, v1 INT, v2 INT, CONSTRAINT fk1 FOREIGN KEY (v1) REFERENCES parent (v1) ON DELETE CASCADE)",
	"INSERT INTO child VALUES (1,1,1),(2,NULL,2)",
	"CREATE VIEW myview AS SELECT * FROM mytable",
	"CREATE PROCEDURE p1(x INT) BEGIN SELECT x + 1; END",
	"CREATE TRIGGER trig1 BEFORE INSERT ON uv FOR EACH ROW SET new.v = new.v + 1",
	"CREATE TABLE zz_seed (k INT PRIMARY KEY, s VARCHAR(10), KEY zz_s (s))",
	"INSERT INTO zz_seed VALUES (1,'one'),(2,'two'),(3,NULL)",
}

// seedRows is the expected content of zz_seed (normalised, as a multiset).
var seedRows = [][]string{{"n:1", "s:one"}, {"n:2", "s:two"}, {"n:3", "N"}}

// the names generators and the mutation dictionary draw from
var fixTables = []string{"mytable", "othertable", "t", "t1", "t2", "test", "xy", "uv", "ab", "one_pk", "two_pk", "ti", "w", "parent", "child", "myview"}

var fixCols = map[string][]string{
	"mytable":    {"i", "s"},
	"othertable": {"s2", "i2"},
	"t":          {"pk", "i", "j", "a", "b", "c", "v1", "v2"},
	"t1":         {"pk", "a", "b", "c", "v1"},
	"t2":         {"pk", "a", "b", "c", "v1"},
	"test":       {"pk", "id", "a", "b", "v1", "v", "x", "j"},
	"xy":         {"x", "y"},
	"uv":         {"u", "v"},
	"ab":         {"a", "b"},
	"one_pk":     {"pk", "c1", "c2", "c3", "c4", "c5"},
	"two_pk":     {"pk1", "pk2", "c1", "c2", "c3"},
	"ti":         {"b"},
	"w":          {"id", "tu", "si", "bu", "f", "dbl", "dc", "ch", "vc", "l1", "bn", "vb", "tx", "bl", "dt", "dtm", "ts", "tm", "yr", "en", "st", "bt", "js", "g", "pt"},
	"parent":     {"id", "v1", "v2"},
	"child":      {"id", "v1", "v2"},
	"myview":     {"i", "s"},
}

// newFixture builds the engine and runs the set-up on a first session. Process-global
// registries that statements can change (SET GLOBAL ...) are reset first so that no state
// leaks from one case into the next.
func newFixture(root bool, fail func(string, ...any)) (*fx.Fixture, *fx.Sess) {
	variables.InitSystemVariables()
	variables.InitStatusVariables()
	f := fx.New(fx.Opts{DBs: []string{"mydb", "foo"}, Root: root})
	s := f.NewSession("", "", "")
	s.MustExec(fail, setupSQL...)
	return f, s
}
