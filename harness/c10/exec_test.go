package c10

import (
	"context"
	"errors"
	"io"
	"runtime/debug"
	"strings"
	"time"

	"github.com/dolthub/go-mysql-server/sql"
	"github.com/dolthub/go-mysql-server/vh/internal/fx"
)

// phase tells how far a statement got; it is what the non-trivial rule is defined on
// ("got past parsing").
type phase int

const (
	phParse phase = iota // rejected by the parser
	phBind               // error returned by Engine.Query before an iterator existed (binding / analysis)
	phExec               // error while iterating the result
	phRows               // completed
)

func (p phase) String() string {
	return [...]string{"parse-error", "bind-error", "exec-error", "rows"}[p]
}

// outcome is the result of one statement.
type outcome struct {
	SQL      string
	Phase    phase
	Schema   sql.Schema
	Rows     []sql.Row
	Err      error
	Panic    any
	Stack    string
	TimedOut bool
}

const maxKeepRows = 256

// run executes one statement exactly like fx.Sess.ExecB (fresh context per statement,
// iterator drained and closed, recover, deadline) and additionally records the phase that was
// reached. It is a copy of the shared helper because the phase is not exposed there.
func run(s *fx.Sess, q string, timeout time.Duration) (res *outcome) {
	res = &outcome{SQL: q}
	parent, cancel := context.WithTimeout(context.Background(), timeout)
	defer cancel()
	ctx := s.Ctx(parent)
	ctx.SetQueryTime(time.Now())
	done := make(chan struct{})
	go func() {
		defer close(done)
		defer func() {
			if p := recover(); p != nil {
				res.Panic = p
				res.Stack = string(debug.Stack())
			}
		}()
		sch, iter, _, err := s.F.Engine.QueryWithBindings(ctx, q, nil, nil, nil)
		if err != nil {
			res.Err = err
			if sql.ErrSyntaxError.Is(err) {
				res.Phase = phParse
			} else {
				res.Phase = phBind
			}
			return
		}
		res.Schema = sch
		res.Phase = phRows
		for {
			row, err := iter.Next(ctx)
			if err == io.EOF {
				break
			}
			if err != nil {
				res.Err = err
				res.Phase = phExec
				break
			}
			if len(res.Rows) < maxKeepRows {
				res.Rows = append(res.Rows, row)
			}
		}
		if cerr := iter.Close(ctx); cerr != nil && res.Err == nil {
			res.Err = cerr
			res.Phase = phExec
		}
	}()
	select {
	case <-done:
	case <-time.After(timeout + 5*time.Second):
		// the statement ignores cancellation; its goroutine is abandoned
		return &outcome{SQL: q, TimedOut: true}
	}
	if res.Err != nil && parent.Err() != nil {
		res.TimedOut = true
	}
	return res
}

func (o *outcome) ok() bool { return o.Err == nil && o.Panic == nil && !o.TimedOut }

// errguard converts panics of guarded goroutines into errors whose text starts with
// "panic recovered"; those are "handled" as far as the statement goes (an error came back
// through the query API). They are only counted.
func (o *outcome) guardedPanic() bool {
	return o.Err != nil && strings.Contains(o.Err.Error(), "panic recovered")
}

var errIsCtx = func(err error) bool {
	return errors.Is(err, context.DeadlineExceeded) || errors.Is(err, context.Canceled)
}

// ---------------------------------------------------------------------------------------
// stack analysis: root cause = the innermost frame that belongs to the engine's own modules

// topFrame returns the function (and file:line) of the innermost go-mysql-server / vitess
// frame of a recovered panic's stack, i.e. skipping the recover machinery, runtime frames and
// standard-library frames between panic() and the engine code that caused it.
func topFrame(stack string) (fn, where string) {
	lines := strings.Split(stack, "\n")
	// planbuilder recovers and re-panics (Builder.Parse / bindOnly), so a stack can contain
	// several panic( lines; the original one is the last (outermost in time = deepest in the trace)
	start := -1
	for i, l := range lines {
		if strings.HasPrefix(strings.TrimSpace(l), "panic(") {
			start = i
		}
	}
	for i := start + 1; start >= 0 && i+1 < len(lines); i++ {
		l := strings.TrimSpace(lines[i])
		k := strings.LastIndex(l, "(")
		if k <= 0 || !strings.HasSuffix(l, ")") {
			continue
		}
		name := l[:k]
		if !(strings.HasPrefix(name, "github.com/dolthub/go-mysql-server/") || strings.HasPrefix(name, "github.com/dolthub/vitess/")) {
			continue
		}
		if strings.Contains(name, "/vh/") { // harness frames
			continue
		}
		loc := strings.TrimSpace(lines[i+1])
		if j := strings.Index(loc, " +0x"); j >= 0 {
			loc = loc[:j]
		}
		if j := strings.LastIndex(loc, "/go-mysql-server/"); j >= 0 {
			loc = loc[j+len("/go-mysql-server/"):]
		} else if strings.HasPrefix(loc, "/repo/") {
			loc = loc[len("/repo/"):]
		} else if j := strings.Index(loc, "/sql/"); j >= 0 && strings.HasPrefix(loc, "/tmp/") {
			loc = loc[j+1:]
		}
		name = strings.TrimPrefix(name, "github.com/dolthub/go-mysql-server/")
		name = strings.TrimPrefix(name, "github.com/dolthub/")
		return name, loc
	}
	return "?", "?"
}
