package c33

import (
	"fmt"
	"regexp"
	"strings"
	"testing"

	"github.com/dolthub/go-mysql-server/vh/internal/fx"
	"github.com/dolthub/go-mysql-server/vh/internal/kf"
	"github.com/dolthub/go-mysql-server/vh/internal/stats"
	"pgregory.net/rapid"
)

const maxOcc = 5 // successive matches asked from the engine per case

var replacements = []string{"", "X", "é", "xy", "-", "aa", " "}

// val is one normalised result value: NULL, an integer or a string.
type val struct {
	null bool
	n    int
	s    string
	isN  bool
}

func parseVal(v string) (val, bool) {
	switch {
	case v == "N":
		return val{null: true}, true
	case strings.HasPrefix(v, "n:"):
		var n int
		if _, err := fmt.Sscanf(v, "n:%d", &n); err != nil {
			return val{}, false
		}
		return val{n: n, isN: true}, true
	case strings.HasPrefix(v, "s:"):
		return val{s: v[2:]}, true
	}
	return val{}, false
}

func (v val) String() string {
	switch {
	case v.null:
		return "NULL"
	case v.isN:
		return fmt.Sprint(v.n)
	}
	return fmt.Sprintf("%q", v.s)
}

func TestC33(t *testing.T) {
	st := stats.New("C33", "")
	defer st.Flush()
	rapid.Check(t, func(rt *rapid.T) {
		st.Eval()
		g := &pgen{rt: rt}
		p := g.pattern()
		icu, re2 := p.icuText(), p.re2Text()
		s := genSubject(rt, "s", 12)
		rs := []rune(s)
		n := len(rs)
		mt := rapid.SampledFrom(matchTypes).Draw(rt, "mt")
		f := parseMatchType(mt)
		pos := rapid.IntRange(1, n+1).Draw(rt, "pos")
		occ := rapid.IntRange(1, 4).Draw(rt, "occ")
		rep := rapid.SampledFrom(replacements).Draw(rt, "rep")
		occR := rapid.IntRange(0, 3).Draw(rt, "occR")
		S, P, M, R := sqlStr(s), sqlStr(icu), sqlStr(mt), sqlStr(rep)
		doReplace := pos <= n || n == 0 // a start position past the end is an error for REGEXP_REPLACE; not part of the property

		cols := []string{
			fmt.Sprintf("REGEXP_LIKE(%s, %s, %s)", S, P, M),
			fmt.Sprintf("REGEXP_INSTR(%s, %s, 1, 1, 0, %s)", S, P, M),
			fmt.Sprintf("REGEXP_SUBSTR(%s, %s, 1, 1, %s)", S, P, M),
		}
		for k := 1; k <= maxOcc; k++ {
			cols = append(cols,
				fmt.Sprintf("REGEXP_INSTR(%s, %s, %d, %d, 0, %s)", S, P, pos, k, M),
				fmt.Sprintf("REGEXP_INSTR(%s, %s, %d, %d, 1, %s)", S, P, pos, k, M),
				fmt.Sprintf("REGEXP_SUBSTR(%s, %s, %d, %d, %s)", S, P, pos, k, M))
		}
		iRepl, iShort := -1, -1
		if doReplace {
			iRepl = len(cols)
			cols = append(cols, fmt.Sprintf("REGEXP_REPLACE(%s, %s, %s, %d, %d, %s)", S, P, R, pos, occR, M))
		}
		if mt == "" {
			iShort = len(cols)
			cols = append(cols, fmt.Sprintf("%s REGEXP %s", S, P), fmt.Sprintf("REGEXP_LIKE(%s, %s)", S, P),
				fmt.Sprintf("REGEXP_INSTR(%s, %s)", S, P), fmt.Sprintf("REGEXP_SUBSTR(%s, %s)", S, P),
				fmt.Sprintf("REGEXP_REPLACE(%s, %s, %s)", S, P, R))
		}
		q := "SELECT " + strings.Join(cols, ", ")
		fxx := fx.New(fx.Opts{})
		r := fxx.NewSession("", "", "").Exec(q)
		fxx.Close()
		ctx := fmt.Sprintf("subject %q, pattern %q (RE2 %q), match_type %q, pos %d, occurrence %d, replacement %q, replace-occurrence %d", s, icu, re2, mt, pos, occ, rep, occR)
		if !r.OK() || len(r.Rows) != 1 {
			rt.Fatalf("%s\n  the functions fail on a valid pattern: %s\n%s\n  %s", ctx, r, r.Stack, q)
		}
		row := fx.NormRow(r.Schema, r.Rows[0])
		vs := make([]val, len(row))
		for i, x := range row {
			v, ok := parseVal(x)
			if !ok {
				rt.Fatalf("%s\n  unexpected value %s for %s", ctx, x, cols[i])
			}
			vs[i] = v
		}
		fail := func(format string, a ...any) {
			rt.Fatalf("%s\n  %s\n  %s\n  -> %v", ctx, fmt.Sprintf(format, a...), q, vs)
		}

		// (1a) REGEXP_LIKE <=> REGEXP_INSTR > 0 <=> REGEXP_SUBSTR IS NOT NULL
		like, i1, m1 := vs[0], vs[1], vs[2]
		if like.null || !like.isN || i1.null || !i1.isN {
			fail("REGEXP_LIKE / REGEXP_INSTR return NULL or a non-integer for non-NULL arguments")
		}
		if (like.n != 0) != (i1.n > 0) || (like.n != 0) != !m1.null {
			fail("REGEXP_LIKE = %v, REGEXP_INSTR = %v, REGEXP_SUBSTR = %v disagree on whether there is a match", like, i1, m1)
		}
		// (1b) the substring returned occurs at the reported position; return_option 1 is the position after it
		var got []span
		done := false
		for k := 1; k <= maxOcc; k++ {
			i0, ie, m := vs[3+3*(k-1)], vs[4+3*(k-1)], vs[5+3*(k-1)]
			if i0.null || ie.null || !i0.isN || !ie.isN {
				fail("REGEXP_INSTR(pos %d, occurrence %d) returns NULL", pos, k)
			}
			if (i0.n == 0) != m.null || (i0.n == 0) != (ie.n == 0) {
				fail("occurrence %d from pos %d: REGEXP_INSTR = %v, with return_option 1 = %v, REGEXP_SUBSTR = %v disagree on whether there is a match", k, pos, i0, ie, m)
			}
			if i0.n == 0 {
				done = true
				continue
			}
			if done {
				fail("occurrence %d from pos %d is reported although occurrence %d is not", k, pos, k-1)
			}
			mr := []rune(m.s)
			if i0.n < pos || i0.n-1+len(mr) > n || string(rs[i0.n-1:i0.n-1+len(mr)]) != m.s {
				fail("occurrence %d from pos %d: REGEXP_SUBSTR = %v does not occur at the position REGEXP_INSTR = %v", k, pos, m, i0)
			}
			if ie.n != i0.n+len(mr) {
				fail("occurrence %d from pos %d: return_option 1 gives %v, start %v + CHAR_LENGTH(%v) = %d", k, pos, ie, i0, m, i0.n+len(mr))
			}
			sp := span{i0.n - 1, ie.n - 1}
			if len(got) > 0 && sp.from < got[len(got)-1].to {
				fail("occurrence %d from pos %d starts at %d, inside or before the previous match %v", k, pos, i0.n, got[len(got)-1])
			}
			got = append(got, sp)
		}
		complete := done // the engine reported the end of the match sequence
		if pos == 1 {
			if e0, m0 := vs[3], vs[5]; e0.n != i1.n || e0.null != i1.null || m0.null != m1.null || m0.s != m1.s {
				fail("pos 1 / occurrence 1 differ between calls")
			}
		}
		// short forms (default arguments)
		if iShort >= 0 {
			a := vs[iShort:]
			if a[0].null || a[0].n != like.n || a[1].null || a[1].n != like.n || a[2].null || a[2].n != i1.n || a[3].null != m1.null || a[3].s != m1.s {
				fail("the operator / short forms %v disagree with the full forms", a[:4])
			}
		}
		nullable := p.nullable()
		// (1c) REGEXP_REPLACE substitutes exactly the reported matches
		checkReplace := func(spans []span, isComplete bool, what string) {
			if iRepl < 0 {
				return
			}
			var want string
			switch {
			case occR == 0:
				if !isComplete {
					st.Class("replace-all-skipped:more-than-maxOcc-matches")
					return
				}
				want = substitute(s, spans, rep)
			case occR <= len(spans):
				want = substitute(s, spans[occR-1:occR], rep)
			case isComplete || occR <= maxOcc:
				want = s
			default:
				return
			}
			if g := vs[iRepl]; g.null || g.s != want {
				fail("REGEXP_REPLACE = %v, but substituting the %s matches %v gives %q", g, what, spans, want)
			}
		}
		// (for patterns that can match the empty string this is still model-free: the reported
		// matches and the substituted ones come from the same engine)
		if n == 0 && nullable && kf.Listed(kfReplaceEmpty) {
			// region of finding C33-replace-empty-subject: the empty match in an empty subject is not
			// substituted. Excluded only while the finding is listed; otherwise the clause is checked.
			st.Excluded(kfReplaceEmpty)
		} else {
			checkReplace(got, complete, "reported")
			if iShort >= 0 && pos == 1 && complete {
				if g, want := vs[iShort+4], substitute(s, got, rep); g.null || g.s != want {
					fail("REGEXP_REPLACE(s,p,r) = %v, but substituting all reported matches %v gives %q", g, got, want)
				}
			}
		}
		if nullable {
			st.Class("nullable-pattern")
		}

		// (2) the reference engine gives the same matches
		refOK := !nullable
		if refOK && p.has(rEol) && !f.m && strings.HasSuffix(s, "\n") {
			refOK = false // ICU's $ also matches before a final line terminator, RE2's does not
			st.Class("ref-skipped:dollar-before-final-newline")
		}
		if refOK {
			re, err := regexp.Compile(f.re2Prefix() + re2)
			if err != nil {
				rt.Fatalf("harness error: reference pattern %q does not compile: %v", re2, err)
			}
			all := refMatches(re, s, 1)
			wantLike, wantI, wantM := 0, 0, val{null: true}
			if len(all) > 0 {
				wantLike, wantI, wantM = 1, all[0].from+1, val{s: string(rs[all[0].from:all[0].to])}
			}
			if like.n != wantLike || i1.n != wantI || m1.null != wantM.null || m1.s != wantM.s {
				fail("reference engine: first match %v (REGEXP_LIKE %d, REGEXP_INSTR %d, REGEXP_SUBSTR %v); engine: %v, %v, %v", all, wantLike, wantI, wantM, like, i1, m1)
			}
			if p.has(rBol) && pos > 1 {
				st.Class("ref-skipped-at-pos:caret") // ^ looks at the text before pos
			} else {
				ms := refMatches(re, s, pos)
				for k := 1; k <= maxOcc; k++ {
					var w *span
					if k <= len(ms) {
						w = &ms[k-1]
					}
					var gsp *span
					if k <= len(got) {
						gsp = &got[k-1]
					}
					if (w == nil) != (gsp == nil) || w != nil && *w != *gsp {
						fail("reference engine: matches from pos %d are %v (0-based character spans); engine reports %v", pos, ms, got)
					}
				}
				checkReplace(ms, true, "reference")
				st.Class("ref-compared")
			}
		}

		// statistics
		quant := p.has(rRep) || p.has(rAlt)
		away := false
		for _, sp := range got {
			if sp.from != 0 {
				away = true
			}
		}
		if i1.n > 1 {
			away = true
		}
		if len(got) > 0 {
			st.Class("matched-from-pos")
		}
		if like.n == 1 {
			st.Class("matched")
		}
		if len(got) >= 2 {
			st.Class("occurrence>=2-matched")
		}
		st.Class("match_type:" + mt)
		if strings.ContainsRune(s, 'é') {
			st.Class("subject-has-é")
		}
		if quant && (away || len(got) >= 2) {
			st.NonTrivial(map[string]any{"s": s, "p": icu, "mt": mt, "pos": pos, "matches": fmt.Sprint(got)}, s, icu, mt, pos)
		}
		_ = occ
	})
}
