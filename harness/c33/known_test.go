package c33

import (
	"context"
	"testing"

	"github.com/dolthub/go-mysql-server/internal/regex"
	"github.com/dolthub/go-mysql-server/vh/internal/fx"
	"github.com/dolthub/go-mysql-server/vh/internal/kf"
	"github.com/dolthub/go-mysql-server/vh/internal/stats"
)

// kfReplaceEmpty is the id of the only C33 finding (see notes/C33.md).
const kfReplaceEmpty = "C33-replace-empty-subject"

// TestC33Known re-checks the law "REGEXP_REPLACE substitutes exactly the reported matches" on
// fixed witnesses inside the region the random search excludes (finding
// C33-replace-empty-subject: empty subject, pattern that matches the empty string).
func TestC33Known(t *testing.T) {
	st := stats.New("C33", "witness")
	defer st.Flush()
	const id = kfReplaceEmpty
	holds := func(what string) {
		st.Class("witness-holds:" + id)
		if kf.Listed(id) {
			t.Logf("STALE: finding %s is listed but its witness now satisfies the property: %s", id, what)
		}
	}
	deviates := func(what, got, want string) {
		st.Class("witness-deviates:" + id)
		st.NonTrivial(nil, what)
		if kf.Suppress(st, id) {
			t.Logf("known finding %s: %s = %q, want %q", id, what, got, want)
			return
		}
		t.Errorf("%s = %q, want %q (region of %s)", what, got, want, id)
	}
	for _, p := range []string{"a*", "^", "$", "^$", "b?", "(a|b)*", ".*"} {
		for _, occ := range []string{"0", "1"} {
			st.Eval()
			f := fx.New(fx.Opts{})
			q := "SELECT REGEXP_INSTR('', '" + p + "'), REGEXP_SUBSTR('', '" + p + "'), REGEXP_INSTR('', '" + p + "', 1, 2), REGEXP_REPLACE('', '" + p + "', 'X', 1, " + occ + ")"
			r := f.NewSession("", "", "").Exec(q)
			f.Close()
			if !r.OK() || len(r.Rows) != 1 {
				t.Errorf("%s -> %s", q, r)
				continue
			}
			row := fx.NormRow(r.Schema, r.Rows[0])
			// exactly one match is reported: at position 1, empty
			if row[0] != "n:1" || row[1] != "s:" || row[2] != "n:0" {
				t.Errorf("%s: expected one empty match at 1, got %v", q, row)
				continue
			}
			if row[3] != "s:X" {
				deviates(q, row[3], "s:X")
			} else {
				holds(q)
			}
		}
	}
	// package level
	ctx := context.Background()
	re := regex.CreateRegex(1024)
	defer re.Close()
	st.Eval()
	if err := re.SetRegexString(ctx, "a*", regex.RegexFlags_None); err != nil {
		t.Fatal(err)
	}
	if err := re.SetMatchString(ctx, ""); err != nil {
		t.Fatal(err)
	}
	idx, _ := re.IndexOf(ctx, 1, 1, false)
	sub, found, _ := re.Substring(ctx, 1, 1)
	out, err := re.Replace(ctx, "X", 1, 0)
	if err != nil || idx != 1 || !found || sub != "" {
		t.Fatalf("package API on the empty subject: IndexOf %d, Substring %q %v, Replace err %v", idx, sub, found, err)
	}
	if out != "X" {
		deviates("regex.Replace(\"X\", 1, 0) on subject \"\" with pattern a*", out, "X")
	} else {
		holds("regex.Replace on the empty subject")
	}
}

// TestReplayC33 runs the SQL witness scripts in /verif/replays/C33.
func TestReplayC33(t *testing.T) {
	st := stats.New("C33", "replay")
	defer st.Flush()
	fx.ReplayDir(t, st)
}
