package c33

import (
	"context"
	"fmt"
	"regexp"
	"strings"
	"testing"

	"github.com/dolthub/go-mysql-server/internal/regex"
	"github.com/dolthub/go-mysql-server/vh/internal/fx"
	"github.com/dolthub/go-mysql-server/vh/internal/kf"
	"github.com/dolthub/go-mysql-server/vh/internal/stats"
	"pgregory.net/rapid"
)

// invalid patterns: rejected by ICU and by RE2 alike. pre/suf: the core stays invalid when a
// literal prefix / suffix is added.
var invalidCores = []struct {
	core     string
	pre, suf bool
}{
	{"(", true, true}, {"[a", true, true}, {"*a", false, true}, {"a{2,1}", true, true}, {")", true, true}, {"[z-a]", true, true},
	{"+a", false, true}, {"?a", false, true}, {`\`, true, false}, {"(?", true, false}, {"a|*", true, true}, {"(*)", true, true},
	{"[a-", true, true}, {"(a", true, true}, {"a)", true, true}, {`\p{Foo}`, true, true}, {"[]", true, true}, {"x{2,1}y", true, true},
}

func genInvalid(rt *rapid.T) string {
	c := rapid.SampledFrom(invalidCores).Draw(rt, "core")
	p := c.core
	if c.pre {
		p = rapid.StringOfN(rapid.SampledFrom([]rune("abc1_é")), 0, 3, -1).Draw(rt, "pre") + p
	}
	if c.suf {
		p += rapid.StringOfN(rapid.SampledFrom([]rune("abc1_é")), 0, 3, -1).Draw(rt, "suf")
	}
	if _, err := regexp.Compile(p); err == nil {
		rt.Fatalf("harness error: %q is accepted by the reference engine", p)
	}
	return p
}

// TestC33Invalid: invalid patterns produce errors (never a match, NULL or a crash), and a NULL
// subject or pattern makes all four functions agree (all NULL).
func TestC33Invalid(t *testing.T) {
	st := stats.New("C33", "invalid")
	defer st.Flush()
	rapid.Check(t, func(rt *rapid.T) {
		st.Eval()
		s := genSubject(rt, "s", 8)
		mt := rapid.SampledFrom(matchTypes).Draw(rt, "mt")
		n := len([]rune(s))
		pos := rapid.IntRange(1, max(1, n)).Draw(rt, "pos")
		occ := rapid.IntRange(1, 3).Draw(rt, "occ")
		S, M := sqlStr(s), sqlStr(mt)
		f := fx.New(fx.Opts{})
		defer f.Close()
		sess := f.NewSession("", "", "")
		if rapid.IntRange(0, 3).Draw(rt, "nullcase") == 0 {
			// NULL subject / pattern
			g := &pgen{rt: rt}
			P := sqlStr(g.pattern().icuText())
			if rapid.Bool().Draw(rt, "nullPattern") {
				P = "NULL"
				if rapid.Bool().Draw(rt, "castNull") {
					P = "CAST(NULL AS CHAR)"
				}
			} else {
				S = "NULL"
			}
			q := fmt.Sprintf("SELECT REGEXP_LIKE(%s, %s, %s), REGEXP_INSTR(%s, %s, %d, %d, 0, %s), REGEXP_SUBSTR(%s, %s, %d, %d, %s), REGEXP_REPLACE(%s, %s, 'X', %d, %d, %s), %s REGEXP %s",
				S, P, M, S, P, pos, occ, M, S, P, pos, occ, M, S, P, pos, occ, M, S, P)
			r := sess.Exec(q)
			if !r.OK() || len(r.Rows) != 1 {
				rt.Fatalf("NULL argument: %s\n  -> %s\n%s", q, r, r.Stack)
			}
			row := fx.NormRow(r.Schema, r.Rows[0])
			for _, v := range row {
				if v != "N" {
					rt.Fatalf("NULL subject or pattern: the functions disagree / report a match state: %v\n  %s", row, q)
				}
			}
			st.Class("null-argument")
			st.NonTrivial(nil, q)
			return
		}
		p := genInvalid(rt)
		P := sqlStr(p)
		var q string
		switch rapid.IntRange(0, 4).Draw(rt, "fn") {
		case 0:
			q = fmt.Sprintf("SELECT REGEXP_LIKE(%s, %s, %s)", S, P, M)
		case 1:
			q = fmt.Sprintf("SELECT REGEXP_INSTR(%s, %s, %d, %d, %d, %s)", S, P, pos, occ, rapid.IntRange(0, 1).Draw(rt, "ro"), M)
		case 2:
			q = fmt.Sprintf("SELECT REGEXP_SUBSTR(%s, %s, %d, %d, %s)", S, P, pos, occ, M)
		case 3:
			q = fmt.Sprintf("SELECT REGEXP_REPLACE(%s, %s, 'X', %d, %d, %s)", S, P, pos, occ-1, M)
		default:
			q = fmt.Sprintf("SELECT %s REGEXP %s", S, P)
		}
		r := sess.Exec(q)
		if !r.Failed() {
			rt.Fatalf("invalid pattern %q must produce an error: %s\n  -> %s\n%s", p, q, r, r.Stack)
		}
		st.Class("invalid-pattern")
		st.NonTrivial(map[string]any{"pattern": p}, p, q)
	})
}

// TestC33Pkg: the same laws on the package API internal/regex (the ICU wrapper), one compiled
// pattern used for several subjects, as the SQL functions do for constant patterns.
//
// Protocol taken from the callers in sql/expression/function/regexp_*.go: SetRegexString, then
// SetMatchString, then Matches(0, 0) / IndexOf(pos, occ, end) / Substring(pos, occ) /
// Replace(r, pos, occ) with 1 <= pos (REGEXP_REPLACE: pos <= length unless the subject is
// empty), occ >= 1 (Replace: occ >= 0), Close at the end.
func TestC33Pkg(t *testing.T) {
	st := stats.New("C33", "pkg")
	defer st.Flush()
	ctx := context.Background()
	rapid.Check(t, func(rt *rapid.T) {
		st.Eval()
		re := regex.CreateRegex(1024)
		defer re.Close()
		if rapid.IntRange(0, 9).Draw(rt, "invalid") == 0 {
			p := genInvalid(rt)
			if err := re.SetRegexString(ctx, p, regex.RegexFlags_None); err == nil || !regex.ErrInvalidRegex.Is(err) {
				rt.Fatalf("SetRegexString(%q) = %v, want ErrInvalidRegex", p, err)
			}
			st.Class("invalid-pattern")
			return
		}
		g := &pgen{rt: rt}
		p := g.pattern()
		icu, re2 := p.icuText(), p.re2Text()
		mt := rapid.SampledFrom(matchTypes).Draw(rt, "mt")
		f := parseMatchType(mt)
		fl := regex.RegexFlags_None
		if f.i {
			fl |= regex.RegexFlags_Case_Insensitive
		}
		if f.m {
			fl |= regex.RegexFlags_Multiline
		}
		if f.n {
			fl |= regex.RegexFlags_Dot_All
		}
		if err := re.SetRegexString(ctx, icu, fl); err != nil {
			rt.Fatalf("SetRegexString(%q, %d) fails on a valid pattern: %v", icu, fl, err)
		}
		ref, err := regexp.Compile(f.re2Prefix() + re2)
		if err != nil {
			rt.Fatalf("harness error: reference pattern %q does not compile: %v", re2, err)
		}
		nullable := p.nullable()
		subjects := rapid.IntRange(1, 3).Draw(rt, "subjects")
		for si := 0; si < subjects; si++ {
			s := genSubject(rt, "s", 12)
			rs := []rune(s)
			n := len(rs)
			pos := rapid.IntRange(1, n+1).Draw(rt, "pos")
			where := fmt.Sprintf("pattern %q (RE2 %q) flags %q, subject %q, pos %d", icu, re2, mt, s, pos)
			if err := re.SetMatchString(ctx, s); err != nil {
				rt.Fatalf("%s: SetMatchString: %v", where, err)
			}
			ok, err := re.Matches(ctx, 0, 0)
			if err != nil {
				rt.Fatalf("%s: Matches: %v", where, err)
			}
			first, err := re.IndexOf(ctx, 1, 1, false)
			if err != nil {
				rt.Fatalf("%s: IndexOf: %v", where, err)
			}
			_, found, err := re.Substring(ctx, 1, 1)
			if err != nil {
				rt.Fatalf("%s: Substring: %v", where, err)
			}
			if ok != (first > 0) || ok != found {
				rt.Fatalf("%s: Matches = %v, IndexOf = %d, Substring found = %v disagree", where, ok, first, found)
			}
			var got []span
			done := false
			for k := 1; k <= maxOcc; k++ {
				// the calls are made in a drawn order: no call may depend on the state left by another
				var i0, ie int
				var sub string
				var fnd bool
				order := rapid.Permutation([]int{0, 1, 2}).Draw(rt, "order")
				for _, o := range order {
					switch o {
					case 0:
						i0, err = re.IndexOf(ctx, pos, k, false)
					case 1:
						ie, err = re.IndexOf(ctx, pos, k, true)
					case 2:
						sub, fnd, err = re.Substring(ctx, pos, k)
					}
					if err != nil {
						rt.Fatalf("%s occurrence %d: %v", where, k, err)
					}
				}
				if (i0 == 0) != !fnd || (i0 == 0) != (ie == 0) {
					rt.Fatalf("%s occurrence %d: IndexOf = %d, end = %d, Substring found = %v disagree", where, k, i0, ie, fnd)
				}
				if i0 == 0 {
					done = true
					continue
				}
				sr := []rune(sub)
				if done || i0 < pos || i0-1+len(sr) > n || string(rs[i0-1:i0-1+len(sr)]) != sub || ie != i0+len(sr) {
					rt.Fatalf("%s occurrence %d: IndexOf = %d, end = %d, Substring = %q are inconsistent", where, k, i0, ie, sub)
				}
				if len(got) > 0 && i0-1 < got[len(got)-1].to {
					rt.Fatalf("%s occurrence %d starts inside the previous match", where, k)
				}
				got = append(got, span{i0 - 1, ie - 1})
			}
			refOK := !nullable && !(p.has(rEol) && !f.m && strings.HasSuffix(s, "\n"))
			if refOK {
				all := refMatches(ref, s, 1)
				if ok != (len(all) > 0) || ok && first != all[0].from+1 {
					rt.Fatalf("%s: reference engine matches %v; Matches = %v, IndexOf = %d", where, all, ok, first)
				}
			}
			var ms []span
			cmpAtPos := refOK && !(p.has(rBol) && pos > 1)
			if cmpAtPos {
				ms = refMatches(ref, s, pos)
				for k := 0; k < maxOcc; k++ {
					if (k < len(ms)) != (k < len(got)) || k < len(ms) && ms[k] != got[k] {
						rt.Fatalf("%s: reference engine matches %v, engine reports %v", where, ms, got)
					}
				}
				st.Class("ref-compared")
			}
			if n == 0 && nullable && kf.Listed(kfReplaceEmpty) {
				st.Excluded(kfReplaceEmpty)
			} else if pos <= n || n == 0 {
				rep := rapid.SampledFrom(replacements).Draw(rt, "rep")
				occR := rapid.IntRange(0, 3).Draw(rt, "occR")
				out, err := re.Replace(ctx, rep, pos, occR)
				if err != nil {
					rt.Fatalf("%s: Replace: %v", where, err)
				}
				spans, complete := got, done
				if cmpAtPos {
					spans, complete = ms, true
				}
				want, decided := s, true
				switch {
				case occR == 0:
					want, decided = substitute(s, spans, rep), complete
				case occR <= len(spans):
					want = substitute(s, spans[occR-1:occR], rep)
				}
				if decided && out != want {
					rt.Fatalf("%s: Replace(%q, %d, %d) = %q, substituting the matches %v gives %q", where, rep, pos, occR, out, spans, want)
				}
			}
			if (p.has(rRep) || p.has(rAlt)) && (len(got) >= 2 || len(got) == 1 && got[0].from > 0) {
				st.NonTrivial(map[string]any{"s": s, "p": icu, "mt": mt, "pos": pos}, s, icu, mt, pos)
			}
		}
	})
}
