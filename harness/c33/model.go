// Package c33 checks property C33: the regular expression functions agree with each other
// and with the pattern. This file holds the pattern grammar of the RE2/ICU common subset, its
// two renderings (ICU syntax for the engine, RE2 syntax for the Go reference), subjects and the
// reference matcher.
package c33

import (
	"fmt"
	"regexp"
	"strings"
	"unicode/utf8"

	"pgregory.net/rapid"
)

type rkind int

const (
	rLit   rkind = iota // one literal character
	rDot                // .
	rClass              // a bracket class or \d \w \s ...
	rSeq                // concatenation
	rAlt                // alternation (always rendered inside a group unless at top level)
	rGroup              // ( ... ) or (?: ... )
	rRep                // quantifier
	rBol                // ^
	rEol                // $
)

type rx struct {
	kind     rkind
	lit      rune
	escNL    bool   // render a newline literal as \n
	icu, re2 string // class spellings
	subs     []*rx
	capture  bool
	min, max int // max = -1: unbounded
	lazy     bool
	spell    int // spelling of the quantifier
}

// nullable: the expression can match the empty string.
func (r *rx) nullable() bool {
	switch r.kind {
	case rLit, rDot, rClass:
		return false
	case rBol, rEol:
		return true
	case rSeq:
		for _, s := range r.subs {
			if !s.nullable() {
				return false
			}
		}
		return true
	case rAlt:
		for _, s := range r.subs {
			if s.nullable() {
				return true
			}
		}
		return false
	case rGroup:
		return r.subs[0].nullable()
	case rRep:
		return r.min == 0 || r.subs[0].nullable()
	}
	return true
}

func (r *rx) has(k rkind) bool {
	if r.kind == k {
		return true
	}
	for _, s := range r.subs {
		if s.has(k) {
			return true
		}
	}
	return false
}

// render writes the pattern; icu selects the engine spelling, otherwise the RE2 spelling.
func (r *rx) render(sb *strings.Builder, icu bool) {
	switch r.kind {
	case rLit:
		if r.lit == '\n' && r.escNL {
			sb.WriteString(`\n`)
		} else {
			sb.WriteRune(r.lit)
		}
	case rDot:
		sb.WriteByte('.')
	case rClass:
		if icu {
			sb.WriteString(r.icu)
		} else {
			sb.WriteString(r.re2)
		}
	case rSeq:
		for _, s := range r.subs {
			s.render(sb, icu)
		}
	case rAlt:
		for i, s := range r.subs {
			if i > 0 {
				sb.WriteByte('|')
			}
			s.render(sb, icu)
		}
	case rGroup:
		if r.capture {
			sb.WriteByte('(')
		} else {
			sb.WriteString("(?:")
		}
		r.subs[0].render(sb, icu)
		sb.WriteByte(')')
	case rRep:
		r.subs[0].render(sb, icu)
		switch {
		case r.min == 0 && r.max == -1 && r.spell == 0:
			sb.WriteByte('*')
		case r.min == 1 && r.max == -1 && r.spell == 0:
			sb.WriteByte('+')
		case r.min == 0 && r.max == 1 && r.spell == 0:
			sb.WriteByte('?')
		case r.max == -1:
			fmt.Fprintf(sb, "{%d,}", r.min)
		case r.max == r.min && r.spell != 2:
			fmt.Fprintf(sb, "{%d}", r.min)
		default:
			fmt.Fprintf(sb, "{%d,%d}", r.min, r.max)
		}
		if r.lazy {
			sb.WriteByte('?')
		}
	case rBol:
		sb.WriteByte('^')
	case rEol:
		sb.WriteByte('$')
	}
}

func (r *rx) icuText() string {
	var sb strings.Builder
	r.render(&sb, true)
	return sb.String()
}

func (r *rx) re2Text() string {
	var sb strings.Builder
	r.render(&sb, false)
	return sb.String()
}

// The alphabet. Every character is in the BMP (positions of ICU are UTF-16 code units; the
// astral case is the region of finding C33-utf16-position and only appears in the witnesses).
var litRunes = []rune{'a', 'b', 'c', 'a', 'b', 'A', 'B', '1', '_', ' ', '\n', 'é'}
var subjRunes = []rune{'a', 'b', 'c', 'a', 'b', 'a', 'A', 'B', '1', '_', ' ', '\n', 'é'}

type cls struct{ icu, re2 string }

// classes: spellings with the same meaning over the alphabet in ICU and RE2. ICU's \w is
// Unicode aware ('é' is a word character), RE2's is ASCII only, hence the translation.
var classes = []cls{
	{"[a-c]", "[a-c]"}, {"[^a]", "[^a]"}, {"[ab1]", "[ab1]"}, {"[A-B_]", "[A-B_]"}, {"[^a-c]", "[^a-c]"}, {"[aé]", "[aé]"},
	{`\d`, `\d`}, {`\D`, `\D`}, {`\s`, `\s`}, {`\S`, `\S`}, {`\w`, `[\pL\pN_]`}, {`\W`, `[^\pL\pN_]`},
	{"[a-cA]", "[a-cA]"}, {`[\d_]`, `[\d_]`}, {"[^\\n]", "[^\\n]"}, {"[b-c1]", "[b-c1]"},
}

type pgen struct{ rt *rapid.T }

func (g *pgen) atom(depth int) *rx {
	k := rapid.IntRange(0, 9).Draw(g.rt, "atom")
	switch {
	case k <= 4:
		l := rapid.SampledFrom(litRunes).Draw(g.rt, "lit")
		return &rx{kind: rLit, lit: l, escNL: l == '\n' && rapid.Bool().Draw(g.rt, "escnl")}
	case k == 5:
		return &rx{kind: rDot}
	case k <= 7 || depth <= 0:
		c := rapid.SampledFrom(classes).Draw(g.rt, "class")
		return &rx{kind: rClass, icu: c.icu, re2: c.re2}
	default:
		var inner *rx
		if rapid.Bool().Draw(g.rt, "galt") {
			inner = g.alt(depth - 1)
		} else {
			inner = g.seq(depth - 1)
		}
		return &rx{kind: rGroup, subs: []*rx{inner}, capture: rapid.Bool().Draw(g.rt, "capture")}
	}
}

// piece: an atom, possibly quantified. A quantified operand is never nullable (iteration of
// empty matches is where regex engines legitimately differ).
func (g *pgen) piece(depth int) *rx {
	a := g.atom(depth)
	if rapid.IntRange(0, 9).Draw(g.rt, "quant") >= 4 || a.nullable() {
		return a
	}
	r := &rx{kind: rRep, subs: []*rx{a}, lazy: rapid.IntRange(0, 3).Draw(g.rt, "lazy") == 0}
	switch rapid.IntRange(0, 5).Draw(g.rt, "qk") {
	case 0:
		r.min, r.max = 0, -1
	case 1:
		r.min, r.max = 1, -1
	case 2:
		r.min, r.max = 0, 1
	case 3:
		r.min = rapid.IntRange(0, 3).Draw(g.rt, "qm")
		r.max = r.min
	case 4:
		r.min = rapid.IntRange(0, 2).Draw(g.rt, "qm")
		r.max = -1
	default:
		r.min = rapid.IntRange(0, 2).Draw(g.rt, "qm")
		r.max = r.min + rapid.IntRange(0, 2).Draw(g.rt, "qd")
	}
	if r.max == 0 {
		r.max = 1
	}
	r.spell = rapid.IntRange(0, 2).Draw(g.rt, "qspell")
	return r
}

func (g *pgen) seq(depth int) *rx {
	n := rapid.IntRange(1, 3).Draw(g.rt, "seqn")
	s := &rx{kind: rSeq}
	for i := 0; i < n; i++ {
		s.subs = append(s.subs, g.piece(depth))
	}
	return s
}

func (g *pgen) alt(depth int) *rx {
	n := rapid.IntRange(2, 3).Draw(g.rt, "altn")
	a := &rx{kind: rAlt}
	for i := 0; i < n; i++ {
		a.subs = append(a.subs, g.seq(depth))
	}
	return a
}

// pattern: [^] body [$], body a sequence or a top-level alternation.
func (g *pgen) pattern() *rx {
	var body *rx
	if rapid.IntRange(0, 3).Draw(g.rt, "topalt") == 0 {
		body = g.alt(1)
	} else {
		body = g.seq(2)
	}
	bol := rapid.IntRange(0, 5).Draw(g.rt, "bol") == 0
	eol := rapid.IntRange(0, 5).Draw(g.rt, "eol") == 0
	if body.kind == rAlt && (bol || eol || rapid.Bool().Draw(g.rt, "wrap")) {
		body = &rx{kind: rGroup, subs: []*rx{body}, capture: rapid.Bool().Draw(g.rt, "capture")}
	}
	if !bol && !eol {
		return body
	}
	p := &rx{kind: rSeq}
	if bol {
		p.subs = append(p.subs, &rx{kind: rBol})
	}
	p.subs = append(p.subs, body)
	if eol {
		p.subs = append(p.subs, &rx{kind: rEol})
	}
	return p
}

func genSubject(rt *rapid.T, lbl string, maxLen int) string {
	return rapid.StringOfN(rapid.SampledFrom(subjRunes), 0, maxLen, -1).Draw(rt, lbl)
}

var matchTypes = []string{"", "", "c", "i", "i", "m", "n", "ic", "ci", "im", "mn", "in"}

type flags struct{ i, m, n bool }

// parseMatchType: MySQL's rule - of c and i the rightmost wins.
func parseMatchType(mt string) flags {
	var f flags
	for _, c := range mt {
		switch c {
		case 'c':
			f.i = false
		case 'i':
			f.i = true
		case 'm':
			f.m = true
		case 'n':
			f.n = true
		}
	}
	return f
}

func (f flags) re2Prefix() string {
	s := ""
	if f.i {
		s += "i"
	}
	if f.m {
		s += "m"
	}
	if f.n {
		s += "s"
	}
	if s == "" {
		return ""
	}
	return "(?" + s + ")"
}

// span is a match in character (rune) positions, 0-based, half open.
type span struct{ from, to int }

// refMatches: all successive matches of the reference engine when the search starts at
// character position pos (1-based). Only used where searching the suffix is the same as
// searching the text from pos (no ^ in the pattern unless pos = 1).
func refMatches(re *regexp.Regexp, s string, pos int) []span {
	rs := []rune(s)
	if pos-1 > len(rs) {
		return nil
	}
	off := len(string(rs[:pos-1]))
	sub := s[off:]
	var out []span
	for _, loc := range re.FindAllStringIndex(sub, -1) {
		out = append(out, span{pos - 1 + utf8.RuneCountInString(sub[:loc[0]]), pos - 1 + utf8.RuneCountInString(sub[:loc[1]])})
	}
	return out
}

func sqlStr(s string) string {
	var sb strings.Builder
	sb.WriteByte('\'')
	for i := 0; i < len(s); i++ {
		switch c := s[i]; c {
		case '\\':
			sb.WriteString(`\\`)
		case '\'':
			sb.WriteString(`''`)
		case 0:
			sb.WriteString(`\0`)
		case '\n':
			sb.WriteString(`\n`)
		case '\r':
			sb.WriteString(`\r`)
		case 0x1a:
			sb.WriteString(`\Z`)
		default:
			sb.WriteByte(c)
		}
	}
	sb.WriteByte('\'')
	return sb.String()
}

// substitute replaces the given spans (increasing, disjoint) of s by r.
func substitute(s string, spans []span, r string) string {
	rs := []rune(s)
	var sb strings.Builder
	at := 0
	for _, sp := range spans {
		sb.WriteString(string(rs[at:sp.from]))
		sb.WriteString(r)
		at = sp.to
	}
	sb.WriteString(string(rs[at:]))
	return sb.String()
}
