package c33

import (
	"fmt"
	"regexp"
	"strings"
	"testing"

	"github.com/dolthub/go-mysql-server/vh/internal/fx"
	"github.com/dolthub/go-mysql-server/vh/internal/stats"
	"pgregory.net/rapid"
)

// TestC33Rows: subject and pattern come from table columns, so the functions compile the
// pattern per row instead of once per statement (the other code path of compile()). Rows with a
// NULL subject or pattern must yield NULL for that row only. Same laws as TestC33 at pos 1.
func TestC33Rows(t *testing.T) {
	st := stats.New("C33", "rows")
	defer st.Flush()
	rapid.Check(t, func(rt *rapid.T) {
		st.Eval()
		g := &pgen{rt: rt}
		nrows := rapid.IntRange(2, 5).Draw(rt, "rows")
		type rowT struct {
			s, icu string
			p      *rx
			sNull  bool
			pNull  bool
		}
		rows := make([]rowT, nrows)
		var vals []string
		for i := range rows {
			r := &rows[i]
			r.p = g.pattern()
			r.icu = r.p.icuText()
			r.s = genSubject(rt, "s", 10)
			switch rapid.IntRange(0, 9).Draw(rt, "null") {
			case 0:
				r.sNull = true
			case 1:
				r.pNull = true
			}
			S, P := sqlStr(r.s), sqlStr(r.icu)
			if r.sNull {
				S = "NULL"
			}
			if r.pNull {
				P = "NULL"
			}
			vals = append(vals, fmt.Sprintf("(%d, %s, %s)", i, S, P))
		}
		mt := rapid.SampledFrom(matchTypes).Draw(rt, "mt")
		f := parseMatchType(mt)
		occ := rapid.IntRange(1, 3).Draw(rt, "occ")
		rep := rapid.SampledFrom(replacements).Draw(rt, "rep")
		occR := rapid.IntRange(0, 2).Draw(rt, "occR")
		M, R := sqlStr(mt), sqlStr(rep)
		fxx := fx.New(fx.Opts{})
		defer fxx.Close()
		sess := fxx.NewSession("", "", "")
		sess.MustExec(rt.Fatalf, "CREATE TABLE t (id INT PRIMARY KEY, s VARCHAR(60), p VARCHAR(4000))", "INSERT INTO t VALUES "+strings.Join(vals, ", "))
		q := fmt.Sprintf("SELECT id, REGEXP_LIKE(s, p, %s), REGEXP_INSTR(s, p, 1, %d, 0, %s), REGEXP_INSTR(s, p, 1, %d, 1, %s), REGEXP_SUBSTR(s, p, 1, %d, %s), REGEXP_REPLACE(s, p, %s, 1, %d, %s), REGEXP_INSTR(s, p, 1, 1, 0, %s) FROM t",
			M, occ, M, occ, M, occ, M, R, occR, M, M)
		r := sess.Exec(q)
		ctx := fmt.Sprintf("rows %s, match_type %q, occurrence %d, replacement %q, replace-occurrence %d", strings.Join(vals, " "), mt, occ, rep, occR)
		if !r.OK() || len(r.Rows) != nrows {
			rt.Fatalf("%s\n  %s\n  -> %s\n%s", ctx, q, r, r.Stack)
		}
		for _, nr := range fx.NormRows(r.Schema, r.Rows) {
			var id int
			fmt.Sscanf(nr[0], "n:%d", &id)
			row := rows[id]
			vs := make([]val, len(nr))
			for i, x := range nr {
				v, ok := parseVal(x)
				if !ok {
					rt.Fatalf("%s\n  row %d: unexpected value %s", ctx, id, x)
				}
				vs[i] = v
			}
			fail := func(format string, a ...any) {
				rt.Fatalf("%s\n  row %d (subject %q, pattern %q): %s\n  %s\n  -> %v", ctx, id, row.s, row.icu, fmt.Sprintf(format, a...), q, vs)
			}
			like, i0, ie, m, repl, first := vs[1], vs[2], vs[3], vs[4], vs[5], vs[6]
			if row.sNull || row.pNull {
				for _, v := range vs[1:] {
					if !v.null {
						fail("NULL subject / pattern must give NULL in every function")
					}
				}
				st.Class("row-with-null")
				continue
			}
			if like.null || i0.null || ie.null || repl.null || first.null {
				fail("NULL result for non-NULL arguments")
			}
			rs := []rune(row.s)
			if (like.n != 0) != (first.n > 0) {
				fail("REGEXP_LIKE and REGEXP_INSTR disagree")
			}
			if (i0.n == 0) != m.null || (i0.n == 0) != (ie.n == 0) {
				fail("REGEXP_INSTR / REGEXP_SUBSTR disagree on occurrence %d", occ)
			}
			if i0.n > 0 {
				mr := []rune(m.s)
				if i0.n-1+len(mr) > len(rs) || string(rs[i0.n-1:i0.n-1+len(mr)]) != m.s || ie.n != i0.n+len(mr) {
					fail("REGEXP_SUBSTR does not occur at the reported position")
				}
			}
			if row.p.nullable() || row.p.has(rEol) && !f.m && strings.HasSuffix(row.s, "\n") {
				continue
			}
			re, err := regexp.Compile(f.re2Prefix() + row.p.re2Text())
			if err != nil {
				rt.Fatalf("harness error: %v", err)
			}
			ms := refMatches(re, row.s, 1)
			wantLike, wantFirst := 0, 0
			if len(ms) > 0 {
				wantLike, wantFirst = 1, ms[0].from+1
			}
			wi0, wie, wm := 0, 0, val{null: true}
			if occ <= len(ms) {
				wi0, wie, wm = ms[occ-1].from+1, ms[occ-1].to+1, val{s: string(rs[ms[occ-1].from:ms[occ-1].to])}
			}
			wrepl := row.s
			if occR == 0 {
				wrepl = substitute(row.s, ms, rep)
			} else if occR <= len(ms) {
				wrepl = substitute(row.s, ms[occR-1:occR], rep)
			}
			if like.n != wantLike || first.n != wantFirst || i0.n != wi0 || ie.n != wie || m.null != wm.null || m.s != wm.s || repl.s != wrepl {
				fail("reference engine: matches %v => LIKE %d, INSTR %d/%d, SUBSTR %v, REPLACE %q, first %d", ms, wantLike, wi0, wie, wm, wrepl, wantFirst)
			}
			st.Class("row-ref-compared")
			if (row.p.has(rRep) || row.p.has(rAlt)) && (len(ms) >= 2 || len(ms) == 1 && ms[0].from > 0) {
				st.NonTrivial(nil, row.s, row.icu, mt, occ)
			}
		}
	})
}
