package c42

import (
	"fmt"
	"io"
	"os"
	"sort"
	"strings"
	"testing"

	"github.com/dolthub/go-mysql-server/sql"
	"github.com/dolthub/go-mysql-server/sql/analyzer/analyzererrors"
	"github.com/dolthub/go-mysql-server/vh/internal/fx"
	"github.com/dolthub/go-mysql-server/vh/internal/kf"
	"github.com/dolthub/go-mysql-server/vh/internal/stats"
	"github.com/sirupsen/logrus"
	"pgregory.net/rapid"
)

func TestMain(m *testing.M) {
	// the engine logs trigger/savepoint complaints of the memory backend at error level
	logrus.SetOutput(io.Discard)
	rc := m.Run()
	removeScratch()
	os.Exit(rc)
}

// outcome of one generated case.
type outcome struct {
	mode  string
	kind  kindDef
	label string
	st    stmt
	sql   string // statement as executed in the read-only world

	twin    *fx.Result
	twinChg bool // the twin's fingerprint changed
	res     *fx.Result
	preErr  string
	changed string // "" or description of a fingerprint change in the read-only world
	// violations found (empty = property held on this case)
	viol []string
	// decided: the oracle made a definite assertion (writer with confirmed effect / reader
	// with a successful twin)
	decided bool
	class   string
}

func outPath() string {
	return fmt.Sprintf("%s/out-%d.txt", scratch(), fileSeq.Add(1))
}

func materialise(s string) (string, func()) {
	if !strings.Contains(s, "{OUT}") {
		return s, func() {}
	}
	p := outPath()
	return strings.ReplaceAll(s, "{OUT}", p), func() { os.Remove(p) }
}

type opts struct {
	rodbAutocommitOff bool
	checkSetup        bool // also fingerprint the twin before the statement and compare the set-ups
}

// runCase executes one (data, mode, statement) case against the read-only world and its
// read-write twin and applies the oracle.
func runCase(fail func(string, ...any), d *setupData, mode string, k kindDef, s stmt, o opts) *outcome {
	out := &outcome{mode: mode, kind: k, label: k.labelIn(mode), st: s}

	// ---- read-write twin
	tw := newWorld(modeRW, d, mode == modeRODB, false, fail)
	defer tw.close()
	var fpT0 string
	var err error
	if o.checkSetup {
		if fpT0, err = tw.fp(true); err != nil {
			fail("twin fingerprint: %v", err)
		}
	}
	twinPreOK := true
	for _, p := range s.Pre {
		if r := tw.s.Exec(p); !r.OK() {
			twinPreOK = false
		}
	}
	tsql, tclean := materialise(s.SQL)
	out.twin = tw.s.Exec(tsql)
	tclean()
	var fpT1 string
	if out.twin.Panic == nil && !out.twin.TimedOut {
		fpT1, err = tw.fp(false)
		if err != nil {
			fail("twin fingerprint after %q: %v", tsql, err)
		}
	}
	if out.twin.Panic != nil || out.twin.TimedOut {
		// the statement crashes the read-write engine as well: not a matter of read-only modes
		out.class = "twin-crashed"
		return out
	}

	// ---- world in the read-only mode
	ro := newWorld(mode, d, false, o.rodbAutocommitOff, fail)
	defer ro.close()
	fp0, err := ro.fp(true)
	if err != nil {
		// reading the state is itself a read-only activity
		out.viol = append(out.viol, "reader-failed: fingerprint before the statement: "+err.Error())
		return out
	}
	// both worlds are built by the same deterministic set-up; the equality of their initial
	// states is re-checked on a sample of the cases and otherwise relied upon
	if o.checkSetup && fp0 != fpT0 {
		fail("harness: set-up of the %s world differs from its twin: %s", mode, firstDiff(fp0, fpT0))
	}
	fpT0 = fp0
	out.twinChg = fpT1 != fpT0
	if mode == modeROTx {
		ro.s.MustExec(fail, "START TRANSACTION READ ONLY")
	}
	for _, p := range s.Pre {
		if r := ro.s.Exec(p); !r.OK() {
			out.preErr = p + " -> " + r.String()
			if r.Panic != nil {
				out.res = r
				out.sql = p
				out.viol = append(out.viol, "panic: "+fmt.Sprint(r.Panic))
				return out
			}
		}
	}
	rsql, rclean := materialise(s.SQL)
	out.sql = rsql
	out.res = ro.s.Exec(rsql)
	rclean()
	r := out.res
	if r.Panic != nil {
		out.viol = append(out.viol, "panic: "+fmt.Sprint(r.Panic))
		return out
	}
	if r.TimedOut {
		out.viol = append(out.viol, "timeout")
		return out
	}
	var fpIn string
	if mode == modeROTx {
		fpIn, err = ro.fpInSession(false)
		if err != nil {
			out.viol = append(out.viol, "reader-failed: fingerprint inside the read-only transaction: "+err.Error())
			return out
		}
		if c := ro.s.Exec("COMMIT"); !c.OK() {
			out.viol = append(out.viol, "reader-failed: COMMIT of the read-only transaction: "+c.String())
			return out
		}
	}
	fp1, err := ro.fp(false)
	if err != nil {
		out.viol = append(out.viol, "reader-failed: fingerprint after the statement: "+err.Error())
		return out
	}
	if fp1 != fp0 {
		out.changed = firstDiff(fp0, fp1)
	} else if mode == modeROTx && fpIn != fp0 {
		out.changed = "inside the transaction: " + firstDiff(fp0, fpIn)
	}

	twinOK := out.twin.OK() && twinPreOK
	switch out.label {
	case lblWriter:
		if !twinOK || !out.twinChg {
			// the statement has no effect on the read-write twin either (e.g. UPDATE
			// matching no row, or an error): "would modify" does not apply
			out.class = "writer-without-effect"
			if out.changed != "" {
				out.viol = append(out.viol, "state-changed: "+out.changed)
			}
			return out
		}
		out.decided = true
		out.class = "writer"
		if r.OK() {
			out.viol = append(out.viol, "writer-not-rejected")
		}
		if out.changed != "" {
			out.viol = append(out.viol, "state-changed: "+out.changed)
		}
	case lblReader:
		if !twinOK || out.twinChg {
			out.class = "reader-twin-failed"
			if out.changed != "" {
				out.viol = append(out.viol, "state-changed: "+out.changed)
			}
			return out
		}
		out.decided = true
		out.class = "reader"
		if !r.OK() || out.preErr != "" {
			out.viol = append(out.viol, "reader-failed: "+out.preErr+" "+r.String())
		} else if !s.NoRows {
			got, want := fx.NormRows(r.Schema, r.Rows), fx.NormRows(out.twin.Schema, out.twin.Rows)
			if !fx.MultisetEqual(got, want) {
				out.viol = append(out.viol, fmt.Sprintf("reader-result-differs: got %s, read-write twin %s", fx.Show(got), fx.Show(want)))
			}
		}
		if out.changed != "" {
			out.viol = append(out.viol, "state-changed: "+out.changed)
		}
	default:
		out.class = "neutral"
		if r.OK() && twinOK {
			if fp1 != fpT1 {
				out.viol = append(out.viol, "neutral-effect-differs-from-twin: "+firstDiff(fp1, fpT1))
			}
		} else if isReadOnlyRejection(r.Err) && out.changed != "" {
			// the only thing the statement says about a statement of undecided kind: if it is
			// rejected because of the read-only mode, then before it takes effect (whether any
			// other failing statement is atomic is not a matter of this property)
			out.viol = append(out.viol, "state-changed-by-rejected-statement: "+out.changed)
		}
	}
	return out
}

// isReadOnlyRejection: the error kinds with which the three modes reject a statement.
func isReadOnlyRejection(err error) bool {
	return err != nil && (sql.ErrReadOnly.Is(err) || sql.ErrReadOnlyTransaction.Is(err) || analyzererrors.ErrReadOnlyDatabase.Is(err))
}

func (o *outcome) describe() string {
	var sb strings.Builder
	fmt.Fprintf(&sb, "mode=%s kind=%s label=%s\n  statement: %s\n", o.mode, o.kind.name, o.label, o.sql)
	for _, p := range o.st.Pre {
		fmt.Fprintf(&sb, "  pre: %s\n", p)
	}
	if o.preErr != "" {
		fmt.Fprintf(&sb, "  pre failed: %s\n", o.preErr)
	}
	if o.res != nil {
		fmt.Fprintf(&sb, "  result: %.300s\n", o.res.String())
	}
	if o.twin != nil {
		fmt.Fprintf(&sb, "  read-write twin: %.300s (state changed: %v)\n", o.twin.String(), o.twinChg)
	}
	for _, v := range o.viol {
		fmt.Fprintf(&sb, "  VIOLATION: %s\n", v)
	}
	return sb.String()
}

func hasViol(o *outcome, prefix string) bool {
	for _, v := range o.viol {
		if strings.HasPrefix(v, prefix) {
			return true
		}
	}
	return false
}

func onlyViol(o *outcome, prefixes ...string) bool {
	for _, v := range o.viol {
		ok := false
		for _, p := range prefixes {
			if strings.HasPrefix(v, p) {
				ok = true
			}
		}
		if !ok {
			return false
		}
	}
	return len(o.viol) > 0
}

// ------------------------------------------------------------------------------------------
// Known findings: id, narrow signature over an outcome, and the cells excluded from the
// search while the finding is listed.

type finding struct {
	id  string
	sig func(o *outcome) bool
	// region reports whether a cell lies in the region excluded by construction
	region func(mode string, k kindDef) bool
	// witness re-runs the minimal witness; the defect still reproduces if the outcome has a
	// violation that matches sig
	witness func(fail func(string, ...any)) *outcome
}

// kinds that pass validateReadOnlyDatabase although they change d (see notes/C42.md)
var rodbHoleKinds = map[string]bool{
	"drop-database-d": true, "alter-database-d": true, "rename-table": true, "x-rename-out-of-d": true,
	"alter-auto-increment": true, "alter-default": true, "alter-comment": true, "alter-collate": true,
	"add-foreign-key": true, "drop-foreign-key": true, "create-view": true, "drop-view": true,
	"create-procedure": true, "drop-procedure": true, "drop-trigger": true, "drop-event": true,
	"alter-event": true,
}

func isRodbCommitErr(r *fx.Result) bool {
	return r != nil && r.Err != nil && strings.Contains(r.Err.Error(), "unknown database type memory.ReadOnlyDatabase")
}

func witnessData() *setupData {
	return &setupData{T: [][3]string{{"1", "1", "'x'"}, {"2", "2", "'y'"}}, U: [][2]string{{"1", "1"}}, G: [][2]string{{"1", "1"}}, WT: [][2]string{{"1", "1"}}}
}

func kindByName(name string) kindDef {
	for _, k := range kinds() {
		if k.name == name {
			return k
		}
	}
	panic("no kind " + name)
}

func witnessCase(fail func(string, ...any), mode, kind, sqlText string, o opts) *outcome {
	k := kindByName(kind)
	o.checkSetup = true
	return runCase(fail, witnessData(), mode, k, stmt{SQL: sqlText}, o)
}

func findings() []finding {
	return []finding{
		{
			// F13: validateReadOnlyTransaction dereferences a nil sql.TemporaryTable
			id: "C42-rotx-panic",
			sig: func(o *outcome) bool {
				return o.mode == modeROTx && o.res != nil && o.res.Panic != nil &&
					strings.Contains(fmt.Sprint(o.res.Panic), "nil pointer dereference") &&
					strings.Contains(o.res.Stack, "validateReadOnlyTransaction")
			},
			region: func(mode string, k kindDef) bool {
				return mode == modeROTx && ((k.family == "dml" || k.family == "prepared") && k.label == lblWriter || k.name == "explain-dml")
			},
			witness: func(fail func(string, ...any)) *outcome {
				return witnessCase(fail, modeROTx, "insert-values", "INSERT INTO u VALUES (6, 6)", opts{})
			},
		},
		{
			// buildCall runs the body of a procedure with the session's transaction set aside
			// (ctx.SetTransaction(nil)), so the statements of the body start a new read-write
			// transaction and are never seen by validateReadOnlyTransaction
			id: "C42-rotx-call-writer",
			sig: func(o *outcome) bool {
				return o.mode == modeROTx && o.label == lblWriter && o.kind.family == "call" && o.res != nil && o.res.OK() &&
					onlyViol(o, "writer-not-rejected", "state-changed")
			},
			region: func(mode string, k kindDef) bool {
				return mode == modeROTx && k.family == "call" && k.label == lblWriter
			},
			witness: func(fail func(string, ...any)) *outcome {
				return witnessCase(fail, modeROTx, "call-writer", "CALL pw()", opts{})
			},
		},
		{
			// Procedure.IsReadOnly is false for every stored procedure
			id: "C42-ro-call-reader",
			sig: func(o *outcome) bool {
				return o.mode == modeRO && o.kind.name == "call-reader" && o.res != nil && sql.ErrReadOnly.Is(o.res.Err) &&
					onlyViol(o, "reader-failed")
			},
			region: func(mode string, k kindDef) bool { return mode == modeRO && k.name == "call-reader" },
			witness: func(fail func(string, ...any)) *outcome {
				return witnessCase(fail, modeRO, "call-reader", "CALL pr()", opts{})
			},
		},
		{
			// validateReadOnlyDatabase recognises a writer only by a ResolvedTable of the
			// read-only database under a DDL/DML node
			id: "C42-rodb-unchecked",
			sig: func(o *outcome) bool {
				return o.mode == modeRODB && o.label == lblWriter && rodbHoleKinds[o.kind.name] && o.res != nil &&
					!analyzererrors.ErrReadOnlyDatabase.Is(o.res.Err) &&
					onlyViol(o, "writer-not-rejected", "state-changed")
			},
			region: func(mode string, k kindDef) bool { return mode == modeRODB && rodbHoleKinds[k.name] },
			witness: func(fail func(string, ...any)) *outcome {
				return witnessCase(fail, modeRODB, "drop-view", "DROP VIEW v", opts{rodbAutocommitOff: true})
			},
		},
		{
			// memory.Session.CommitTransaction does not know memory.ReadOnlyDatabase
			id: "C42-rodb-commit",
			sig: func(o *outcome) bool {
				if o.mode != modeRODB {
					return false
				}
				if isRodbCommitErr(o.res) {
					return true
				}
				for _, v := range o.viol {
					if strings.Contains(v, "unknown database type memory.ReadOnlyDatabase") {
						return true
					}
				}
				return false
			},
			region: func(mode string, k kindDef) bool { return false }, // handled by running with autocommit=0
			witness: func(fail func(string, ...any)) *outcome {
				return witnessCase(fail, modeRODB, "select", "SELECT * FROM t", opts{})
			},
		},
	}
}

// activeFindings evaluates which findings reproduce on this tree and are listed.
type active struct {
	f     finding
	repro bool
}

func reproduces(f finding, o *outcome) bool { return len(o.viol) > 0 && f.sig(o) }

func probeFindings(t *testing.T) []active {
	var as []active
	for _, f := range findings() {
		as = append(as, active{f, reproduces(f, f.witness(t.Fatalf))})
	}
	return as
}

var modes = []string{modeRO, modeROTx, modeRODB}

func TestC42(t *testing.T) {
	st := stats.New("C42", "")
	defer st.Flush()
	survey := os.Getenv("C42_SURVEY") != ""
	ks := kinds()
	as := probeFindings(t)
	o := opts{}
	for _, a := range as {
		if a.f.id == "C42-rodb-commit" && a.repro && kf.Listed(a.f.id) {
			o.rodbAutocommitOff = true
			st.Set("rodb_sessions_run_with_autocommit_off", true)
		}
	}
	excluded := func(mode string, k kindDef) string {
		for _, a := range as {
			if a.repro && kf.Listed(a.f.id) && a.f.region(mode, k) {
				return a.f.id
			}
		}
		return ""
	}
	cells := map[string]bool{}
	visited := map[string]bool{}
	exCells := map[string]bool{}
	surveyLines := map[string]int{}
	rapid.Check(t, func(rt *rapid.T) {
		st.Eval()
		var mode string
		var k kindDef
		for try := 0; ; try++ {
			// rapid's integer generators favour small values; the cells of the matrix are
			// unordered, so the drawn number is mixed to make every cell equally likely
			cell := mix(rapid.Uint64().Draw(rt, "cell")^mix(mix(rapid.Uint64().Draw(rt, "cell2")))) % uint64(len(modes)*len(ks))
			mode = modes[cell%uint64(len(modes))]
			k = ks[cell/uint64(len(modes))]
			id := excluded(mode, k)
			if id == "" {
				break
			}
			st.Excluded(id)
			exCells[k.name+"/"+mode] = true
			if try > 50 {
				rt.Skip("only excluded cells drawn")
			}
		}
		d := genSetup(rt)
		s := k.gen(rt, &genEnv{d: d})
		d.Event = needsEvent(k, s)
		oc := o
		oc.checkSetup = rapid.IntRange(0, 7).Draw(rt, "checkSetup") == 0
		out := runCase(rt.Fatalf, d, mode, k, s, oc)
		st.Class("label:" + out.label)
		st.Class("mode:" + mode)
		st.Class("class:" + out.class)
		if out.class == "reader-twin-failed" || out.class == "twin-crashed" {
			st.Class(out.class + ":" + k.name)
		}
		visited[k.name+"/"+mode] = true
		if len(out.viol) > 0 {
			suppressed := false
			for _, a := range as {
				if a.f.sig(out) {
					if survey {
						surveyLines[fmt.Sprintf("%-18s %-10s %-26s %s", a.f.id, mode, k.name, out.viol[0][:min(60, len(out.viol[0]))])]++
						suppressed = true
						break
					}
					if kf.Suppress(st, a.f.id) {
						suppressed = true
						break
					}
				}
			}
			if !suppressed {
				if survey {
					surveyLines[fmt.Sprintf("%-18s %-10s %-26s %s | %s", "UNMATCHED", mode, k.name, strings.Join(out.viol, "; ")[:min(160, len(strings.Join(out.viol, "; ")))], out.sql)]++
					return
				}
				rt.Fatalf("read-only property violated:\n%s  data: %+v", out.describe(), *d)
			}
			return
		}
		if out.decided {
			cells[k.name+"/"+mode] = true
			st.NonTrivial(map[string]any{"mode": mode, "kind": k.name, "label": out.label, "sql": out.sql, "result": fmt.Sprintf("%.80s", out.res)}, k.name, mode)
		}
	})
	st.Set("cells_decided", sortedKeys(cells))
	st.Set("cells_excluded_known", sortedKeys(exCells))
	var undecided []string
	for c := range visited {
		if !cells[c] {
			undecided = append(undecided, c)
		}
	}
	sort.Strings(undecided)
	st.Set("cells_visited_without_definite_assertion", undecided)
	st.Set("matrix", fmt.Sprintf("%d kinds x %d modes", len(ks), len(modes)))
	if survey {
		var ls []string
		for l, n := range surveyLines {
			ls = append(ls, fmt.Sprintf("%4d  %s", n, l))
		}
		sort.Strings(ls)
		fmt.Println("SURVEY\n" + strings.Join(ls, "\n"))
		fmt.Println("decided cells:", len(cells))
	}
}

// mix is the splitmix64 finaliser.
func mix(x uint64) uint64 {
	x += 0x9e3779b97f4a7c15
	x = (x ^ (x >> 30)) * 0xbf58476d1ce4e5b9
	x = (x ^ (x >> 27)) * 0x94d049bb133111eb
	return x ^ (x >> 31)
}

func sortedKeys(m map[string]bool) []string {
	var ks []string
	for k := range m {
		ks = append(ks, k)
	}
	sort.Strings(ks)
	return ks
}

// TestC42Known re-confirms the minimal witness of every proposed finding. A witness that
// still reproduces must be listed as known (otherwise this test fails and the driver reports
// the violation); a witness that no longer reproduces is reported in the log.
func TestC42Known(t *testing.T) {
	st := stats.New("C42", "known")
	defer st.Flush()
	for _, f := range findings() {
		st.Eval()
		o := f.witness(t.Fatalf)
		desc := o.describe()
		if !reproduces(f, o) {
			t.Logf("finding %s no longer reproduces:\n%s", f.id, desc)
			st.Class("witness-fixed:" + f.id)
			continue
		}
		st.Class("witness-reproduces:" + f.id)
		st.NonTrivial(nil, f.id)
		if !kf.Suppress(st, f.id) {
			t.Errorf("finding %s reproduces and is not listed as known:\n%s", f.id, desc)
		}
	}
}
