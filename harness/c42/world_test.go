package c42

import (
	"fmt"
	"os"
	"path/filepath"
	"sort"
	"strings"
	"sync"
	"sync/atomic"

	sqle "github.com/dolthub/go-mysql-server"
	"github.com/dolthub/go-mysql-server/memory"
	"github.com/dolthub/go-mysql-server/sql"
	"github.com/dolthub/go-mysql-server/sql/analyzer"
	"github.com/dolthub/go-mysql-server/sql/mysql_db"
	"github.com/dolthub/go-mysql-server/vh/internal/fx"
)

// Modes of the property. "rw" is the read-write twin.
const (
	modeRW   = "rw"
	modeRO   = "engine-ro" // Config.IsReadOnly
	modeROTx = "ro-tx"     // START TRANSACTION READ ONLY
	modeRODB = "ro-db"     // memory.ReadOnlyDatabase
)

// scratch directory of this process (secure_file_priv points at it).
var (
	scratchOnce sync.Once
	scratchDir  string
	loadFile    string
	fileSeq     atomic.Int64
)

func scratch() string {
	scratchOnce.Do(func() {
		base := os.Getenv("VERIF_SCRATCH")
		if base == "" {
			base = os.TempDir()
		}
		d, err := os.MkdirTemp(base, "c42-files-")
		if err != nil {
			panic(err)
		}
		scratchDir = d
		loadFile = filepath.Join(d, "load.csv")
		if err := os.WriteFile(loadFile, []byte("201,5\n202,6\n"), 0o644); err != nil {
			panic(err)
		}
		if err := sql.SystemVariables.AssignValues(map[string]interface{}{"secure_file_priv": d}); err != nil {
			panic(err)
		}
	})
	return scratchDir
}

func removeScratch() {
	if scratchDir != "" {
		os.RemoveAll(scratchDir)
	}
}

// world is one engine with the fixed schema, in one of the modes.
type world struct {
	mode string
	f    *fx.Fixture // engine under test
	s    *fx.Sess    // session under test
	// rawDBs are the underlying databases (mode ro-db: the HistoryDatabase that the
	// ReadOnlyDatabase wraps), used to read the stored state without going through the
	// read-only wrapper.
	hist    *memory.HistoryDatabase
	wdb     *memory.Database
	closers []func()
	// autocommitOff is set in mode ro-db when the session runs with autocommit=0 to get
	// behind finding C42-rodb-commit.
	autocommitOff bool
}

func (w *world) close() {
	for i := len(w.closers) - 1; i >= 0; i-- {
		w.closers[i]()
	}
}

func newEngine(pro *memory.DbProvider, readOnly bool) *fx.Fixture {
	e := sqle.New(analyzer.NewDefault(pro), &sqle.Config{IsReadOnly: readOnly, IncludeRootAccount: true})
	// an embedding application installs a persister for the grant tables; without one every
	// account statement dereferences nil
	e.Analyzer.Catalog.MySQLDb.SetPersister(&mysql_db.NoopPersister{})
	return &fx.Fixture{Pro: pro, Engine: e}
}

// setupData is the generated content of the fixed schema.
type setupData struct {
	Event bool        // create event ev (slow to create; only for the kinds that need it)
	T     [][3]string // id, a, b (SQL literals)
	U     [][2]string
	C     [][2]string
	G     [][2]string
	WT    [][2]string
}

// stmts returns the set-up: schema statements (content of the databases) and engine-level
// statements (accounts, and the histogram, which lives in the engine's statistics provider and
// not in a database; it is left out when d is a HistoryDatabase, i.e. in mode ro-db and its twin).
func (d *setupData) stmts(hist bool) (schema []string, accounts []string) {
	schema = []string{
		"CREATE TABLE t (id INT PRIMARY KEY, a INT, b VARCHAR(20), KEY ka (a))",
		"CREATE TABLE u (id INT PRIMARY KEY AUTO_INCREMENT, x INT)",
		"CREATE TABLE c (id INT PRIMARY KEY, tid INT, KEY ktid (tid), CONSTRAINT ck CHECK (id >= 0), CONSTRAINT fk FOREIGN KEY (tid) REFERENCES t (id))",
		"CREATE TABLE g (id INT PRIMARY KEY, x INT)",
		"CREATE TABLE w.wt (id INT PRIMARY KEY, x INT)",
	}
	ins := func(tbl string, rows []string) {
		if len(rows) > 0 {
			schema = append(schema, "INSERT INTO "+tbl+" VALUES "+strings.Join(rows, ","))
		}
	}
	var rs []string
	for _, r := range d.T {
		rs = append(rs, "("+r[0]+","+r[1]+","+r[2]+")")
	}
	ins("t", rs)
	rs = nil
	for _, r := range d.U {
		rs = append(rs, "("+r[0]+","+r[1]+")")
	}
	ins("u", rs)
	rs = nil
	for _, r := range d.C {
		rs = append(rs, "("+r[0]+","+r[1]+")")
	}
	ins("c", rs)
	rs = nil
	for _, r := range d.G {
		rs = append(rs, "("+r[0]+","+r[1]+")")
	}
	ins("g", rs)
	rs = nil
	for _, r := range d.WT {
		rs = append(rs, "("+r[0]+","+r[1]+")")
	}
	ins("w.wt", rs)
	schema = append(schema,
		"CREATE VIEW v AS SELECT id, a FROM t WHERE a IS NOT NULL",
		"CREATE TRIGGER trg BEFORE INSERT ON g FOR EACH ROW SET NEW.x = NEW.x + 1",
		"CREATE PROCEDURE pw() INSERT INTO u (x) VALUES (77)",
		"CREATE PROCEDURE pr() SELECT COUNT(*) FROM t",
	)
	if d.Event {
		schema = append(schema, "CREATE EVENT ev ON SCHEDULE EVERY 1 DAY STARTS '2037-01-01 00:00:00' DISABLE DO INSERT INTO u (x) VALUES (88)")
	}
	accounts = []string{
		"CREATE USER bob@localhost IDENTIFIED BY 'pw1'",
		"CREATE USER eve@localhost",
		"CREATE ROLE rl",
		"GRANT SELECT ON d.* TO bob@localhost",
		"GRANT rl TO eve@localhost",
	}
	if !hist {
		accounts = append(accounts, "ANALYZE TABLE g UPDATE HISTOGRAM ON x USING DATA '{\"row_count\": 3}'")
	}
	return
}

// newWorld builds a world in the given mode with the generated data. fail reports a harness
// error (set-up must always succeed). hist: store d in a HistoryDatabase (always so in mode
// ro-db; its read-write twin does the same so that both sides run on one implementation).
func newWorld(mode string, d *setupData, hist bool, rodbAutocommitOff bool, fail func(string, ...any)) *world {
	scratch()
	w := &world{mode: mode}
	schema, accounts := d.stmts(hist || mode == modeRODB)
	w.wdb = memory.NewDatabase("w")
	switch mode {
	case modeRODB:
		// Set-up exactly as enginetest's NewReadOnlyEngine does it: fill a HistoryDatabase
		// through a read-write engine, then wrap it in a ReadOnlyDatabase for a second engine.
		w.hist = memory.NewHistoryDatabase("d")
		p1 := memory.NewDBProvider(w.hist, w.wdb)
		f1 := newEngine(p1, false)
		s1 := f1.NewSession("", "", "d")
		s1.MustExec(fail, schema...)
		f1.Close()
		p2 := memory.NewDBProvider(memory.ReadOnlyDatabase{HistoryDatabase: w.hist}, w.wdb)
		w.f = newEngine(p2, false)
		w.closers = append(w.closers, w.f.Close)
		w.s = w.f.NewSession("", "", "d")
		w.s.MustExec(fail, accounts...)
		if rodbAutocommitOff {
			w.s.MustExec(fail, "SET autocommit = 0")
			w.autocommitOff = true
		}
	default:
		var dd sql.Database
		if hist {
			w.hist = memory.NewHistoryDatabase("d")
			dd = w.hist
		} else {
			dd = memory.NewDatabase("d")
		}
		p := memory.NewDBProvider(dd, w.wdb)
		w.f = newEngine(p, mode == modeRO)
		w.closers = append(w.closers, w.f.Close)
		// "server configured read-only": the data exists before the server is (re)started
		// read-only; the flag is the only state Config.IsReadOnly sets, so it is toggled
		// around the set-up.
		w.f.Engine.ReadOnly.Store(false)
		w.s = w.f.NewSession("", "", "d")
		w.s.MustExec(fail, schema...)
		w.s.MustExec(fail, accounts...)
		if mode == modeRO {
			w.f.Engine.ReadOnly.Store(true)
		}
	}
	return w
}

// fingerprint renders the observable database state: databases, tables, rows, table
// definitions, views, triggers, routines, events, statistics, accounts and grants.
// meta statements run in a session of the engine under test (sMeta); everything about the
// content of the databases runs in sData.
//
// strict: every query must succeed (state before the statement under test). Otherwise an
// ordinary error of a catalog query becomes part of the fingerprint text (a statement can
// leave the catalog in a state that a listing rejects, e.g. RENAME TABLE of a table that has a
// trigger makes information_schema.triggers fail with "table not found" — that concerns other
// properties; here only equality of states matters); panics and timeouts are always errors.
func fingerprint(sMeta, sData *fx.Sess, strict bool) (string, error) {
	var sb strings.Builder
	q := func(s *fx.Sess, label, query string, sorted bool) ([][]string, error) {
		cols := -1
		if label == "view" {
			cols = 2 // the other columns of SHOW CREATE VIEW echo session character set variables
		}
		r := s.Exec(query)
		if !r.OK() {
			if strict || !r.Failed() {
				return nil, fmt.Errorf("fingerprint query %q: %s", query, r)
			}
			fmt.Fprintf(&sb, "## %s\nERROR %s\n", label, r.Err.Error())
			return nil, nil
		}
		rows := fx.NormRows(r.Schema, r.Rows)
		lines := make([]string, len(rows))
		for i, row := range rows {
			if cols > 0 && len(row) > cols {
				row = row[:cols]
			}
			lines[i] = strings.Join(row, "\x1f")
		}
		if sorted {
			sort.Strings(lines)
		}
		fmt.Fprintf(&sb, "## %s\n%s\n", label, strings.Join(lines, "\n"))
		return rows, nil
	}
	dbs, err := q(sMeta, "databases", "SHOW DATABASES", true)
	if err != nil {
		return "", err
	}
	if _, err := q(sMeta, "schemata", "SELECT schema_name, default_character_set_name, default_collation_name FROM information_schema.schemata", true); err != nil {
		return "", err
	}
	for _, dbRow := range dbs {
		db := strings.TrimPrefix(dbRow[0], "s:")
		if db == "information_schema" || db == "mysql" {
			continue
		}
		chk := sData.Exec("SHOW FULL TABLES FROM `" + db + "`")
		if !chk.OK() {
			if strict || !chk.Failed() {
				return "", fmt.Errorf("fingerprint: SHOW FULL TABLES FROM %s: %s", db, chk)
			}
			fmt.Fprintf(&sb, "## %s: ERROR %s\n", db, chk.Err.Error())
			continue
		}
		tabs := fx.NormRows(chk.Schema, chk.Rows)
		sort.Slice(tabs, func(i, j int) bool { return tabs[i][0] < tabs[j][0] })
		for _, tr := range tabs {
			name := strings.TrimPrefix(tr[0], "s:")
			kind := strings.TrimPrefix(tr[1], "s:")
			fmt.Fprintf(&sb, "## %s.%s %s\n", db, name, kind)
			if kind == "VIEW" {
				if _, err := q(sData, "view", "SHOW CREATE VIEW `"+db+"`.`"+name+"`", false); err != nil {
					return "", err
				}
				continue
			}
			// SHOW CREATE TABLE carries columns, keys, constraints, the AUTO_INCREMENT counter,
			// collation and comment
			if _, err := q(sData, "create", "SHOW CREATE TABLE `"+db+"`.`"+name+"`", false); err != nil {
				return "", err
			}
			if _, err := q(sData, "rows", "SELECT * FROM `"+db+"`.`"+name+"`", true); err != nil {
				return "", err
			}
		}
	}
	for _, x := range [][2]string{
		{"triggers", "SELECT trigger_schema, trigger_name, event_manipulation, event_object_table, action_statement, action_timing FROM information_schema.triggers"},
		{"routines", "SELECT routine_schema, routine_name, routine_type, routine_definition FROM information_schema.routines"},
		{"events", "SELECT event_schema, event_name, event_definition, status, interval_value, interval_field, event_comment FROM information_schema.events"},
		{"statistics", "SELECT schema_name, table_name, column_name FROM information_schema.column_statistics"},
	} {
		if _, err := q(sData, x[0], x[1], true); err != nil {
			return "", err
		}
	}
	users, err := q(sMeta, "users", "SELECT user, host, plugin, authentication_string FROM mysql.user", true)
	if err != nil {
		return "", err
	}
	if _, err := q(sMeta, "role_edges", "SELECT * FROM mysql.role_edges", true); err != nil {
		return "", err
	}
	type uh struct{ u, h string }
	var us []uh
	for _, r := range users {
		us = append(us, uh{strings.TrimPrefix(r[0], "s:"), strings.TrimPrefix(r[1], "s:")})
	}
	sort.Slice(us, func(i, j int) bool { return us[i].u+"@"+us[i].h < us[j].u+"@"+us[j].h })
	for _, x := range us {
		if _, err := q(sMeta, "grants "+x.u, "SHOW GRANTS FOR `"+x.u+"`@`"+x.h+"`", true); err != nil {
			return "", err
		}
	}
	return sb.String(), nil
}

// fp takes the fingerprint of the committed state of a world through a fresh session.
// Exception: a ro-db world that runs with autocommit=0 (to get behind finding
// C42-rodb-commit) cannot commit anything that touched d, so its state is read through the
// session under test itself.
func (w *world) fp(strict bool) (string, error) {
	if w.autocommitOff {
		return w.fpInSession(strict)
	}
	s := w.f.NewSession("", "", "d")
	return fingerprint(s, s, strict)
}

// fpInSession takes the fingerprint as the session under test sees it (its own uncommitted
// changes included).
func (w *world) fpInSession(strict bool) (string, error) {
	// some catalog listings depend on the current database (information_schema.views omits
	// a view whose definition does not resolve from it), so go back to d first
	w.s.Exec("USE d")
	return fingerprint(w.s, w.s, strict)
}

func firstDiff(a, b string) string {
	la, lb := strings.Split(a, "\n"), strings.Split(b, "\n")
	for i := 0; i < len(la) || i < len(lb); i++ {
		var x, y string
		if i < len(la) {
			x = la[i]
		}
		if i < len(lb) {
			y = lb[i]
		}
		if x != y {
			lo := i - 3
			if lo < 0 {
				lo = 0
			}
			return fmt.Sprintf("line %d:\n  context: %q\n  one:   %q\n  other: %q", i, la[lo:min(i, len(la))], x, y)
		}
	}
	return "(equal)"
}

func memoryProvider() *memory.DbProvider {
	return memory.NewDBProvider(memory.NewDatabase("d"), memory.NewDatabase("w"))
}
