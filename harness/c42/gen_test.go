package c42

import (
	"strconv"
	"strings"

	"pgregory.net/rapid"
)

// Ground truth of a statement kind, known to the generator that builds it.
const (
	lblWriter  = "writer"  // would modify data, schema or accounts: must be rejected without effect
	lblReader  = "reader"  // read-only statement: must succeed with the twin's result
	lblNeutral = "neutral" // the statement does not say; only "no crash" and state consistency
)

type stmt struct {
	Kind   string
	Family string
	Pre    []string // run in the session under test, after the mode is active (PREPARE ...)
	SQL    string
	NoRows bool // result rows are time/counter dependent: only success is compared
}

type kindDef struct {
	name   string
	family string
	label  string
	// rodb overrides label in mode ro-db ("" = same): statements that do not touch the
	// read-only database d at all, or only read it while writing elsewhere.
	rodb string
	gen  func(rt *rapid.T, e *genEnv) stmt
}

// implicitCommitFamilies: statement families that MySQL documents as causing an implicit commit
// (DDL incl. TRUNCATE, account management, ANALYZE TABLE). Inside START TRANSACTION READ ONLY
// such a statement first ends the read-only transaction and then runs outside it, in MySQL
// and, deliberately, in validateReadOnlyTransaction ("DDL statements have an implicit commits
// which makes them valid to be executed in READ ONLY transactions"). The statement does not
// decide these cells, so they are neutral in mode ro-tx (see notes/C42.md, false alarm 1).
var implicitCommitFamilies = map[string]bool{"ddl": true, "acct": true, "stats": true}

func (k kindDef) labelIn(mode string) string {
	if mode == modeRODB && k.rodb != "" {
		return k.rodb
	}
	if mode == modeROTx && k.label == lblWriter && implicitCommitFamilies[k.family] {
		return lblNeutral
	}
	return k.label
}

// genEnv carries what the statement generators need to know about the generated data.
type genEnv struct {
	d *setupData
}

func (e *genEnv) tid(rt *rapid.T) string { // an id of t that probably exists
	return strconv.Itoa(rapid.IntRange(1, 4).Draw(rt, "tid"))
}

func lit(rt *rapid.T, label string) string {
	return rapid.SampledFrom([]string{"0", "1", "2", "3", "7", "-1", "NULL"}).Draw(rt, label)
}

func strlit(rt *rapid.T, label string) string {
	return rapid.SampledFrom([]string{"'x'", "'y'", "''", "'ab c'", "NULL"}).Draw(rt, label)
}

func pick(rt *rapid.T, label string, xs ...string) string {
	return rapid.SampledFrom(xs).Draw(rt, label)
}

// needsEvent: kinds that operate on the event ev.
func needsEvent(k kindDef, s stmt) bool {
	return strings.Contains(k.name, "event") || strings.Contains(s.SQL, "EVENT")
}

func genSetup(rt *rapid.T) *setupData {
	d := &setupData{}
	nT := rapid.IntRange(1, 4).Draw(rt, "nT")
	for i := 1; i <= nT; i++ {
		d.T = append(d.T, [3]string{strconv.Itoa(i), lit(rt, "a"), strlit(rt, "b")})
	}
	nU := rapid.IntRange(0, 3).Draw(rt, "nU")
	for i := 1; i <= nU; i++ {
		d.U = append(d.U, [2]string{strconv.Itoa(i), lit(rt, "x")})
	}
	nC := rapid.IntRange(0, 2).Draw(rt, "nC")
	for i := 1; i <= nC; i++ {
		d.C = append(d.C, [2]string{strconv.Itoa(i), strconv.Itoa(rapid.IntRange(1, nT).Draw(rt, "ctid"))})
	}
	nG := rapid.IntRange(0, 2).Draw(rt, "nG")
	for i := 1; i <= nG; i++ {
		d.G = append(d.G, [2]string{strconv.Itoa(i), strconv.Itoa(rapid.IntRange(0, 3).Draw(rt, "gx"))})
	}
	nW := rapid.IntRange(1, 3).Draw(rt, "nW")
	for i := 1; i <= nW; i++ {
		d.WT = append(d.WT, [2]string{strconv.Itoa(i), lit(rt, "wx")})
	}
	return d
}

func simple(family, name, label string, alts ...string) kindDef {
	return kindDef{name: name, family: family, label: label, gen: func(rt *rapid.T, e *genEnv) stmt {
		return stmt{SQL: pick(rt, "alt", alts...)}
	}}
}

func where(rt *rapid.T, col string) string {
	switch rapid.IntRange(0, 4).Draw(rt, "where") {
	case 0:
		return ""
	case 1:
		return " WHERE " + col + " >= " + strconv.Itoa(rapid.IntRange(0, 3).Draw(rt, "k"))
	case 2:
		return " WHERE " + col + " IN (SELECT id FROM u)"
	case 3:
		return " WHERE " + col + " = " + strconv.Itoa(rapid.IntRange(1, 3).Draw(rt, "k"))
	default:
		return " WHERE " + col + " IS NOT NULL"
	}
}

// kinds is the statement corpus: one generator per statement kind that can reach Engine.Query.
func kinds() []kindDef {
	ks := []kindDef{
		// ---------------------------------------------------------------- DML on d
		{name: "insert-values", family: "dml", label: lblWriter, gen: func(rt *rapid.T, e *genEnv) stmt {
			id := strconv.Itoa(rapid.IntRange(10, 20).Draw(rt, "id"))
			return stmt{SQL: pick(rt, "alt",
				"INSERT INTO t VALUES ("+id+","+lit(rt, "a")+","+strlit(rt, "b")+")",
				"INSERT INTO t (id, a) VALUES ("+id+", 1), ("+id+"+1, 2)",
				"INSERT INTO u (x) VALUES ("+lit(rt, "x")+")",
				"INSERT INTO d.u VALUES ("+id+", 3)",
				"INSERT INTO c VALUES ("+id+", 1)")}
		}},
		{name: "insert-trigger-table", family: "dml", label: lblWriter, gen: func(rt *rapid.T, e *genEnv) stmt {
			return stmt{SQL: "INSERT INTO g VALUES (" + strconv.Itoa(rapid.IntRange(10, 20).Draw(rt, "id")) + ", 1)"}
		}},
		{name: "insert-set", family: "dml", label: lblWriter, gen: func(rt *rapid.T, e *genEnv) stmt {
			return stmt{SQL: "INSERT INTO t SET id = " + strconv.Itoa(rapid.IntRange(10, 20).Draw(rt, "id")) + ", a = " + lit(rt, "a")}
		}},
		{name: "insert-select", family: "dml", label: lblWriter, gen: func(rt *rapid.T, e *genEnv) stmt {
			return stmt{SQL: pick(rt, "alt",
				"INSERT INTO u (id, x) SELECT id + 100, a FROM t"+where(rt, "id"),
				"INSERT INTO t (id, a) SELECT id + 100, a FROM t",
				"INSERT INTO t (id, a) SELECT id + 100, x FROM w.wt",
				"INSERT INTO u (x) SELECT MAX(a) FROM t",
				"INSERT INTO u (id, x) WITH q AS (SELECT id + 50 AS i, a FROM t) SELECT i, a FROM q")}
		}},
		{name: "insert-odku", family: "dml", label: lblWriter, gen: func(rt *rapid.T, e *genEnv) stmt {
			return stmt{SQL: "INSERT INTO t (id, a) VALUES (" + e.tid(rt) + ", 41) ON DUPLICATE KEY UPDATE a = 42"}
		}},
		{name: "insert-ignore", family: "dml", label: lblWriter, gen: func(rt *rapid.T, e *genEnv) stmt {
			return stmt{SQL: "INSERT IGNORE INTO t (id, a) VALUES (" + e.tid(rt) + ", 41), (" + strconv.Itoa(rapid.IntRange(10, 20).Draw(rt, "id")) + ", 5)"}
		}},
		{name: "replace", family: "dml", label: lblWriter, gen: func(rt *rapid.T, e *genEnv) stmt {
			return stmt{SQL: pick(rt, "alt",
				"REPLACE INTO t VALUES ("+e.tid(rt)+", 55, 'r')",
				"REPLACE INTO u (id, x) VALUES (30, 1)",
				"REPLACE INTO u (id, x) SELECT id + 60, a FROM t")}
		}},
		{name: "update", family: "dml", label: lblWriter, gen: func(rt *rapid.T, e *genEnv) stmt {
			return stmt{SQL: pick(rt, "alt",
				"UPDATE t SET a = 91"+where(rt, "id"),
				"UPDATE t SET b = 'upd', a = COALESCE(a, 0) + 100"+where(rt, "a"),
				"UPDATE u SET x = 92",
				"UPDATE t SET a = 93 ORDER BY id DESC LIMIT 1",
				"UPDATE t SET a = (SELECT COUNT(*) + 94 FROM u)",
				"UPDATE d.t AS tt SET tt.a = 95 WHERE tt.id = "+e.tid(rt))}
		}},
		{name: "update-join", family: "dml", label: lblWriter, gen: func(rt *rapid.T, e *genEnv) stmt {
			return stmt{SQL: pick(rt, "alt",
				"UPDATE t JOIN w.wt ON t.id = wt.id SET t.a = 96",
				"UPDATE t JOIN c ON c.tid = t.id SET t.a = 97, c.tid = t.id",
				"UPDATE t, w.wt SET t.b = 'j' WHERE t.id = wt.id")}
		}},
		{name: "with-update", family: "dml", label: lblWriter, gen: func(rt *rapid.T, e *genEnv) stmt {
			return stmt{SQL: "WITH q AS (SELECT 98 AS v) UPDATE t SET a = (SELECT v FROM q)" + where(rt, "id")}
		}},
		{name: "delete", family: "dml", label: lblWriter, gen: func(rt *rapid.T, e *genEnv) stmt {
			return stmt{SQL: pick(rt, "alt",
				"DELETE FROM u"+where(rt, "id"),
				"DELETE FROM g",
				"DELETE FROM c",
				"DELETE FROM u ORDER BY id LIMIT 1",
				"DELETE FROM d.g WHERE id IN (SELECT id FROM t)")}
		}},
		{name: "delete-join", family: "dml", label: lblWriter, gen: func(rt *rapid.T, e *genEnv) stmt {
			return stmt{SQL: pick(rt, "alt",
				"DELETE u FROM u JOIN t ON u.id = t.id",
				"DELETE g FROM g JOIN w.wt ON g.id = wt.id")}
		}},
		{name: "truncate", family: "ddl", label: lblWriter, gen: func(rt *rapid.T, e *genEnv) stmt {
			return stmt{SQL: "TRUNCATE TABLE " + pick(rt, "tbl", "u", "g", "d.u")}
		}},
		{name: "load-data", family: "dml", label: lblWriter, gen: func(rt *rapid.T, e *genEnv) stmt {
			return stmt{SQL: "LOAD DATA INFILE '" + loadFile + "' INTO TABLE u FIELDS TERMINATED BY ','"}
		}},
		{name: "call-writer", family: "call", label: lblWriter, gen: func(rt *rapid.T, e *genEnv) stmt {
			return stmt{SQL: pick(rt, "alt", "CALL pw()", "CALL d.pw()")}
		}},
		{name: "execute-writer", family: "prepared", label: lblWriter, gen: func(rt *rapid.T, e *genEnv) stmt {
			q := pick(rt, "q", "INSERT INTO u (x) VALUES (61)", "UPDATE t SET a = 62", "DELETE FROM u")
			return stmt{Pre: []string{"PREPARE ps FROM '" + q + "'"}, SQL: "EXECUTE ps"}
		}},
		{name: "execute-ddl", family: "ddl", label: lblWriter, gen: func(rt *rapid.T, e *genEnv) stmt {
			q := pick(rt, "q", "CREATE TABLE pz (i INT)", "DROP TABLE g", "ALTER TABLE t ADD COLUMN z INT")
			return stmt{Pre: []string{"PREPARE ps FROM '" + q + "'"}, SQL: "EXECUTE ps"}
		}},
		{name: "execute-writer-args", family: "prepared", label: lblWriter, gen: func(rt *rapid.T, e *genEnv) stmt {
			return stmt{Pre: []string{"PREPARE ps FROM 'INSERT INTO u (x) VALUES (?)'", "SET @p = 63"}, SQL: "EXECUTE ps USING @p"}
		}},
		// ---------------------------------------------------------------- cross-database (d is the read-only one)
		{name: "x-insert-w-from-d", family: "dml", label: lblWriter, rodb: lblNeutral, gen: func(rt *rapid.T, e *genEnv) stmt {
			return stmt{SQL: "INSERT INTO w.wt SELECT id + 100, a FROM t" + where(rt, "id")}
		}},
		{name: "x-write-w-only", family: "dml", label: lblWriter, rodb: lblNeutral, gen: func(rt *rapid.T, e *genEnv) stmt {
			return stmt{SQL: pick(rt, "alt", "INSERT INTO w.wt VALUES (40, 1)", "UPDATE w.wt SET x = 44", "DELETE FROM w.wt")}
		}},
		{name: "x-ddl-w-only", family: "ddl", label: lblWriter, rodb: lblNeutral, gen: func(rt *rapid.T, e *genEnv) stmt {
			return stmt{SQL: pick(rt, "alt", "CREATE TABLE w.nt (i INT PRIMARY KEY)", "DROP TABLE w.wt", "ALTER TABLE w.wt ADD COLUMN y INT")}
		}},
		{name: "x-update-w-from-d", family: "dml", label: lblWriter, rodb: lblNeutral, gen: func(rt *rapid.T, e *genEnv) stmt {
			return stmt{SQL: pick(rt, "alt",
				"UPDATE w.wt SET x = (SELECT COUNT(*) + 45 FROM t)",
				"DELETE FROM w.wt WHERE id IN (SELECT id FROM t)",
				"UPDATE t JOIN w.wt ON t.id = wt.id SET wt.x = 46")}
		}},
		{name: "x-ctas-w-from-d", family: "ddl", label: lblWriter, rodb: lblNeutral, gen: func(rt *rapid.T, e *genEnv) stmt {
			return stmt{SQL: pick(rt, "alt", "CREATE TABLE w.cp AS SELECT * FROM t", "CREATE TABLE w.cp LIKE t")}
		}},
		{name: "x-rename-out-of-d", family: "ddl", label: lblWriter, gen: func(rt *rapid.T, e *genEnv) stmt {
			return stmt{SQL: "RENAME TABLE g TO w.g2"}
		}},
		// ---------------------------------------------------------------- DDL on d
		{name: "create-table", family: "ddl", label: lblWriter, gen: func(rt *rapid.T, e *genEnv) stmt {
			return stmt{SQL: pick(rt, "alt",
				"CREATE TABLE nt (i INT PRIMARY KEY, j VARCHAR(5))",
				"CREATE TABLE d.nt (i INT)",
				"CREATE TABLE IF NOT EXISTS nt (i INT, KEY (i))",
				"CREATE TABLE nt (i INT PRIMARY KEY, r INT, FOREIGN KEY (r) REFERENCES t (id))")}
		}},
		simple("ddl", "create-table-like", lblWriter, "CREATE TABLE nt LIKE t", "CREATE TABLE nt LIKE w.wt"),
		simple("ddl", "create-table-select", lblWriter, "CREATE TABLE nt AS SELECT * FROM t", "CREATE TABLE nt AS SELECT id, x FROM w.wt", "CREATE TABLE nt SELECT 1 AS one"),
		simple("ddl", "drop-table", lblWriter, "DROP TABLE g", "DROP TABLE IF EXISTS u", "DROP TABLE c, g", "DROP TABLE d.u"),
		simple("ddl", "rename-table", lblWriter, "RENAME TABLE g TO g2", "RENAME TABLE u TO u2, g TO g2", "ALTER TABLE g RENAME TO g2", "ALTER TABLE g RENAME g3"),
		simple("ddl", "alter-add-column", lblWriter, "ALTER TABLE t ADD COLUMN z INT", "ALTER TABLE u ADD COLUMN z VARCHAR(3) DEFAULT 'q' FIRST", "ALTER TABLE g ADD z INT NOT NULL DEFAULT 5 AFTER id"),
		simple("ddl", "alter-drop-column", lblWriter, "ALTER TABLE t DROP COLUMN b", "ALTER TABLE g DROP x"),
		simple("ddl", "alter-modify-column", lblWriter, "ALTER TABLE t MODIFY COLUMN a BIGINT", "ALTER TABLE g MODIFY x BIGINT NOT NULL DEFAULT 0", "ALTER TABLE t CHANGE COLUMN b b2 VARCHAR(30)"),
		simple("ddl", "alter-rename-column", lblWriter, "ALTER TABLE t RENAME COLUMN b TO b2", "ALTER TABLE g RENAME COLUMN x TO y"),
		simple("ddl", "create-index", lblWriter, "CREATE INDEX kb ON t (b)", "ALTER TABLE t ADD INDEX kab (a, b)", "CREATE UNIQUE INDEX ux ON g (id, x)", "ALTER TABLE u ADD KEY kx (x)"),
		simple("ddl", "drop-index", lblWriter, "DROP INDEX ka ON t", "ALTER TABLE t DROP INDEX ka", "ALTER TABLE t DROP KEY ka"),
		simple("ddl", "rename-index", lblWriter, "ALTER TABLE t RENAME INDEX ka TO kz"),
		simple("ddl", "alter-pk", lblWriter, "ALTER TABLE g DROP PRIMARY KEY", "ALTER TABLE g DROP PRIMARY KEY, ADD PRIMARY KEY (id, x)"),
		simple("ddl", "add-check", lblWriter, "ALTER TABLE g ADD CONSTRAINT ck2 CHECK (id > -5)", "ALTER TABLE t ADD CHECK (id <> -1)"),
		simple("ddl", "drop-check", lblWriter, "ALTER TABLE c DROP CHECK ck", "ALTER TABLE c DROP CONSTRAINT ck"),
		simple("ddl", "add-foreign-key", lblWriter, "ALTER TABLE g ADD CONSTRAINT fk2 FOREIGN KEY (id) REFERENCES t (id)"),
		simple("ddl", "drop-foreign-key", lblWriter, "ALTER TABLE c DROP FOREIGN KEY fk", "ALTER TABLE c DROP CONSTRAINT fk"),
		simple("ddl", "alter-auto-increment", lblWriter, "ALTER TABLE u AUTO_INCREMENT = 500"),
		simple("ddl", "alter-default", lblWriter, "ALTER TABLE t ALTER COLUMN a SET DEFAULT 9", "ALTER TABLE g ALTER x SET DEFAULT 8"),
		simple("ddl", "alter-comment", lblWriter, "ALTER TABLE t COMMENT = 'hello'"),
		simple("ddl", "alter-collate", lblWriter, "ALTER TABLE t COLLATE utf8mb4_general_ci", "ALTER TABLE t DEFAULT CHARACTER SET utf8mb4 COLLATE utf8mb4_unicode_ci"),
		simple("ddl", "alter-multi", lblWriter, "ALTER TABLE t ADD COLUMN z INT, DROP COLUMN b", "ALTER TABLE g ADD COLUMN z INT, ADD INDEX kz (z)"),
		simple("ddl", "create-view", lblWriter, "CREATE VIEW v2 AS SELECT 1 AS one", "CREATE VIEW v2 AS SELECT id FROM t", "CREATE OR REPLACE VIEW v AS SELECT id FROM t", "CREATE VIEW v2 AS SELECT * FROM w.wt"),
		simple("ddl", "drop-view", lblWriter, "DROP VIEW v", "DROP VIEW IF EXISTS v", "DROP VIEW d.v"),
		simple("ddl", "create-trigger", lblWriter,
			"CREATE TRIGGER tr2 BEFORE INSERT ON t FOR EACH ROW SET NEW.a = 1",
			"CREATE TRIGGER tr2 AFTER DELETE ON u FOR EACH ROW INSERT INTO g VALUES (OLD.id + 70, 0)",
			"CREATE TRIGGER tr2 BEFORE UPDATE ON g FOR EACH ROW SET NEW.x = OLD.x"),
		simple("ddl", "drop-trigger", lblWriter, "DROP TRIGGER trg", "DROP TRIGGER IF EXISTS trg", "DROP TRIGGER d.trg"),
		simple("ddl", "create-procedure", lblWriter,
			"CREATE PROCEDURE p2() SELECT 1",
			"CREATE PROCEDURE p2(IN n INT) BEGIN INSERT INTO u (x) VALUES (n); END",
			"CREATE PROCEDURE d.p2() DELETE FROM u"),
		simple("ddl", "drop-procedure", lblWriter, "DROP PROCEDURE pw", "DROP PROCEDURE IF EXISTS pr", "DROP PROCEDURE d.pr"),
		simple("ddl", "create-event", lblWriter,
			"CREATE EVENT ev2 ON SCHEDULE EVERY 1 DAY STARTS '2037-01-01 00:00:00' DISABLE DO INSERT INTO u (x) VALUES (1)",
			"CREATE EVENT ev2 ON SCHEDULE AT '2037-01-01 00:00:00' DISABLE DO DELETE FROM u"),
		simple("ddl", "alter-event", lblWriter, "ALTER EVENT ev RENAME TO ev3", "ALTER EVENT ev COMMENT 'c'", "ALTER EVENT ev DO DELETE FROM g"),
		simple("ddl", "drop-event", lblWriter, "DROP EVENT ev", "DROP EVENT IF EXISTS ev"),
		{name: "create-database", family: "ddl", label: lblWriter, rodb: lblNeutral, gen: func(rt *rapid.T, e *genEnv) stmt {
			return stmt{SQL: pick(rt, "alt", "CREATE DATABASE nd", "CREATE SCHEMA nd", "CREATE DATABASE IF NOT EXISTS nd")}
		}},
		simple("ddl", "drop-database-d", lblWriter, "DROP DATABASE d", "DROP SCHEMA d", "DROP DATABASE IF EXISTS d"),
		{name: "drop-database-w", family: "ddl", label: lblWriter, rodb: lblNeutral, gen: func(rt *rapid.T, e *genEnv) stmt {
			return stmt{SQL: "DROP DATABASE w"}
		}},
		simple("ddl", "alter-database-d", lblWriter, "ALTER DATABASE d COLLATE utf8mb4_general_ci", "ALTER DATABASE COLLATE utf8mb4_unicode_ci", "ALTER DATABASE d CHARACTER SET latin1"),
		// statistics live in the engine's statistics provider, not in database d
		{name: "update-histogram", family: "stats", label: lblWriter, rodb: lblNeutral, gen: func(rt *rapid.T, e *genEnv) stmt {
			return stmt{SQL: "ANALYZE TABLE t UPDATE HISTOGRAM ON a USING DATA '{\"row_count\": 10}'"}
		}},
		{name: "drop-histogram", family: "stats", label: lblWriter, rodb: lblNeutral, gen: func(rt *rapid.T, e *genEnv) stmt {
			return stmt{SQL: "ANALYZE TABLE g DROP HISTOGRAM ON x"}
		}},
		// ---------------------------------------------------------------- accounts (server-wide, not part of d)
		{name: "create-user", family: "acct", label: lblWriter, rodb: lblNeutral, gen: func(rt *rapid.T, e *genEnv) stmt {
			return stmt{SQL: pick(rt, "alt", "CREATE USER amy@localhost", "CREATE USER amy@'%' IDENTIFIED BY 'secret'", "CREATE USER IF NOT EXISTS amy")}
		}},
		{name: "drop-user", family: "acct", label: lblWriter, rodb: lblNeutral, gen: func(rt *rapid.T, e *genEnv) stmt {
			return stmt{SQL: pick(rt, "alt", "DROP USER bob@localhost", "DROP USER IF EXISTS eve@localhost", "DROP USER bob@localhost, eve@localhost")}
		}},
		{name: "alter-user", family: "acct", label: lblWriter, rodb: lblNeutral, gen: func(rt *rapid.T, e *genEnv) stmt {
			return stmt{SQL: "ALTER USER bob@localhost IDENTIFIED BY 'other'"}
		}},
		{name: "rename-user", family: "acct", label: lblWriter, rodb: lblNeutral, gen: func(rt *rapid.T, e *genEnv) stmt {
			return stmt{SQL: "RENAME USER bob@localhost TO bobby@localhost"}
		}},
		{name: "grant", family: "acct", label: lblWriter, rodb: lblNeutral, gen: func(rt *rapid.T, e *genEnv) stmt {
			return stmt{SQL: pick(rt, "alt", "GRANT INSERT ON d.* TO bob@localhost", "GRANT ALL ON *.* TO eve@localhost", "GRANT UPDATE ON d.t TO eve@localhost", "GRANT SELECT ON w.* TO bob@localhost WITH GRANT OPTION")}
		}},
		{name: "revoke", family: "acct", label: lblWriter, rodb: lblNeutral, gen: func(rt *rapid.T, e *genEnv) stmt {
			return stmt{SQL: pick(rt, "alt", "REVOKE SELECT ON d.* FROM bob@localhost", "REVOKE ALL PRIVILEGES, GRANT OPTION FROM bob@localhost")}
		}},
		{name: "create-role", family: "acct", label: lblWriter, rodb: lblNeutral, gen: func(rt *rapid.T, e *genEnv) stmt {
			return stmt{SQL: pick(rt, "alt", "CREATE ROLE r2", "CREATE ROLE IF NOT EXISTS r2, r3")}
		}},
		{name: "drop-role", family: "acct", label: lblWriter, rodb: lblNeutral, gen: func(rt *rapid.T, e *genEnv) stmt {
			return stmt{SQL: "DROP ROLE rl"}
		}},
		{name: "grant-role", family: "acct", label: lblWriter, rodb: lblNeutral, gen: func(rt *rapid.T, e *genEnv) stmt {
			return stmt{SQL: "GRANT rl TO bob@localhost"}
		}},
		{name: "revoke-role", family: "acct", label: lblWriter, rodb: lblNeutral, gen: func(rt *rapid.T, e *genEnv) stmt {
			return stmt{SQL: "REVOKE rl FROM eve@localhost"}
		}},
		// ---------------------------------------------------------------- neither clause of the statement applies
		simple("misc", "analyze-table", lblNeutral, "ANALYZE TABLE t", "ANALYZE TABLE t, u"),
		simple("misc", "flush-privileges", lblNeutral, "FLUSH PRIVILEGES"),
		simple("misc", "lock-tables", lblNeutral, "LOCK TABLES t READ", "LOCK TABLES t WRITE, u READ", "UNLOCK TABLES"),
		// EXPLAIN of a data-modifying statement modifies nothing, but whether it counts as a
		// "read-only statement" is not said (the engine analyses the inner statement)
		simple("misc", "explain-dml", lblNeutral, "EXPLAIN UPDATE t SET a = 1", "EXPLAIN DELETE FROM u", "EXPLAIN INSERT INTO u (x) VALUES (1)"),
		simple("misc", "kill", lblNeutral, "KILL QUERY 4242", "KILL CONNECTION 4242"),
		{name: "select-into-outfile", family: "misc", label: lblNeutral, gen: func(rt *rapid.T, e *genEnv) stmt {
			return stmt{SQL: "SELECT * FROM t INTO OUTFILE '{OUT}'"}
		}},
		// ---------------------------------------------------------------- read-only statements
		{name: "select", family: "read", label: lblReader, gen: func(rt *rapid.T, e *genEnv) stmt {
			return stmt{SQL: pick(rt, "alt",
				"SELECT * FROM t"+where(rt, "id"),
				"SELECT id, a + 1, UPPER(b) FROM t"+where(rt, "a"),
				"SELECT * FROM d.t ORDER BY a DESC, id LIMIT 2",
				"SELECT DISTINCT a FROM t",
				"SELECT 1, 'x', NULL",
				"SELECT * FROM t WHERE a = "+lit(rt, "a")+" OR b = "+strlit(rt, "b"))}
		}},
		{name: "select-join", family: "read", label: lblReader, gen: func(rt *rapid.T, e *genEnv) stmt {
			return stmt{SQL: pick(rt, "alt",
				"SELECT t.id, u.x FROM t JOIN u ON t.id = u.id",
				"SELECT t.id, wt.x FROM t LEFT JOIN w.wt ON t.id = wt.id",
				"SELECT * FROM t, c WHERE c.tid = t.id",
				"SELECT * FROM t NATURAL JOIN u")}
		}},
		{name: "select-agg", family: "read", label: lblReader, gen: func(rt *rapid.T, e *genEnv) stmt {
			return stmt{SQL: pick(rt, "alt",
				"SELECT COUNT(*), SUM(a), MIN(b) FROM t",
				"SELECT a, COUNT(*) FROM t GROUP BY a HAVING COUNT(*) >= 1",
				"SELECT id, ROW_NUMBER() OVER (ORDER BY id) FROM t",
				"SELECT GROUP_CONCAT(id ORDER BY id) FROM t")}
		}},
		{name: "select-subquery", family: "read", label: lblReader, gen: func(rt *rapid.T, e *genEnv) stmt {
			return stmt{SQL: pick(rt, "alt",
				"SELECT * FROM t WHERE id IN (SELECT tid FROM c)",
				"SELECT * FROM t WHERE EXISTS (SELECT 1 FROM u WHERE u.id = t.id)",
				"SELECT (SELECT MAX(x) FROM u), id FROM t",
				"SELECT * FROM (SELECT id, a FROM t) AS dt WHERE dt.a IS NOT NULL",
				"WITH q AS (SELECT id FROM t) SELECT * FROM q",
				"WITH RECURSIVE r (n) AS (SELECT 1 UNION ALL SELECT n + 1 FROM r WHERE n < 3) SELECT * FROM r")}
		}},
		{name: "select-setop", family: "read", label: lblReader, gen: func(rt *rapid.T, e *genEnv) stmt {
			return stmt{SQL: pick(rt, "alt",
				"SELECT id FROM t UNION SELECT id FROM u",
				"SELECT id FROM t UNION ALL SELECT id FROM w.wt",
				"SELECT id FROM t INTERSECT SELECT id FROM u",
				"SELECT id FROM t EXCEPT SELECT id FROM u",
				"TABLE t",
				"VALUES ROW(1, 2), ROW(3, 4)")}
		}},
		simple("read", "select-view", lblReader, "SELECT * FROM v", "SELECT v.id, t.b FROM v JOIN t ON v.id = t.id", "SELECT COUNT(*) FROM d.v"),
		simple("read", "select-index", lblReader, "SELECT * FROM t WHERE a = 1", "SELECT * FROM t WHERE a BETWEEN 1 AND 3", "SELECT * FROM t WHERE id = 2", "SELECT * FROM t WHERE a IN (1, 2, 7)"),
		simple("read", "select-function", lblReader, "SELECT DATABASE(), USER(), 1 + 1", "SELECT CONCAT('a', 'b'), ABS(-3), COALESCE(NULL, 2)", "SELECT LAST_INSERT_ID()",
			"SELECT GET_LOCK('c42', 0)", "SELECT RELEASE_LOCK('c42')", "SELECT IS_FREE_LOCK('c42')", "SELECT @@autocommit IS NOT NULL, @@session.sql_mode IS NOT NULL"),
		simple("read", "select-into-var", lblReader, "SELECT 5 INTO @v5", "SELECT COUNT(*) FROM t INTO @cnt", "SELECT id, a FROM t ORDER BY id LIMIT 1 INTO @i, @a"),
		simple("read", "select-information-schema", lblReader,
			"SELECT table_name FROM information_schema.tables WHERE table_schema = 'd'",
			"SELECT column_name, data_type FROM information_schema.columns WHERE table_schema = 'd' AND table_name = 't'",
			"SELECT index_name, column_name FROM information_schema.statistics WHERE table_schema = 'd'",
			"SELECT schema_name FROM information_schema.schemata",
			"SELECT constraint_name FROM information_schema.table_constraints WHERE table_schema = 'd'",
			"SELECT user, host FROM mysql.user"),
		simple("read", "select-for-update", lblReader, "SELECT * FROM t WHERE id = 1 LOCK IN SHARE MODE"),
		simple("read", "show-tables", lblReader, "SHOW TABLES", "SHOW FULL TABLES", "SHOW TABLES FROM w", "SHOW TABLES LIKE 't%'", "SHOW DATABASES", "SHOW SCHEMAS"),
		simple("read", "show-create", lblReader, "SHOW CREATE TABLE t", "SHOW CREATE TABLE c", "SHOW CREATE TABLE w.wt", "SHOW CREATE VIEW v", "SHOW CREATE DATABASE d"),
		simple("read", "show-columns", lblReader, "SHOW COLUMNS FROM t", "SHOW FULL COLUMNS FROM u", "SHOW FIELDS FROM c", "DESCRIBE t", "DESC g", "SHOW INDEX FROM t", "SHOW KEYS FROM c", "SHOW INDEXES FROM d.u"),
		simple("read", "show-server", lblReader, "SHOW VARIABLES LIKE 'max_connections'", "SHOW SESSION VARIABLES LIKE 'sql_mode'", "SHOW GLOBAL VARIABLES LIKE 'autocommit'", "SHOW WARNINGS", "SHOW ERRORS", "SHOW CHARSET", "SHOW COLLATION LIKE 'utf8mb4_0900_bin'", "SHOW ENGINES", "SHOW PLUGINS", "SHOW PRIVILEGES"),
		{name: "show-volatile", family: "read", label: lblReader, gen: func(rt *rapid.T, e *genEnv) stmt {
			return stmt{NoRows: true, SQL: pick(rt, "alt", "SHOW PROCESSLIST", "SHOW FULL PROCESSLIST", "SHOW STATUS", "SHOW GLOBAL STATUS LIKE 'Com%'", "SHOW TRIGGERS", "SHOW EVENTS", "SHOW PROCEDURE STATUS", "SHOW FUNCTION STATUS", "SHOW TABLE STATUS", "SHOW CREATE EVENT ev", "SHOW CREATE TRIGGER trg", "SHOW CREATE PROCEDURE pw", "SHOW REPLICA STATUS", "SHOW BINARY LOG STATUS")}
		}},
		simple("read", "show-grants", lblReader, "SHOW GRANTS", "SHOW GRANTS FOR bob@localhost", "SHOW GRANTS FOR eve@localhost", "SHOW GRANTS FOR CURRENT_USER"),
		simple("read", "explain", lblReader, "EXPLAIN SELECT * FROM t WHERE a = 1", "EXPLAIN FORMAT=TREE SELECT * FROM t JOIN u ON t.id = u.id", "EXPLAIN t", "EXPLAIN PLAN SELECT * FROM v"),
		simple("read", "set-uservar", lblReader, "SET @x = 1", "SET @x = (SELECT COUNT(*) FROM t)", "SET @x = 1, @y = 'two'"),
		simple("read", "set-session", lblReader, "SET SESSION sql_mode = 'STRICT_TRANS_TABLES'", "SET @@session.group_concat_max_len = 2048", "SET sql_select_limit = 100", "SET NAMES utf8mb4", "SET CHARACTER SET utf8mb4", "SET autocommit = 1"),
		simple("read", "use", lblReader, "USE d", "USE w", "USE information_schema", "USE mysql"),
		{name: "execute-reader", family: "prepared", label: lblReader, gen: func(rt *rapid.T, e *genEnv) stmt {
			if rapid.Bool().Draw(rt, "args") {
				return stmt{Pre: []string{"PREPARE ps FROM 'SELECT * FROM t WHERE id >= ?'", "SET @p = 2"}, SQL: "EXECUTE ps USING @p"}
			}
			return stmt{Pre: []string{"PREPARE ps FROM '" + pick(rt, "q", "SELECT COUNT(*) FROM t", "SHOW TABLES", "SELECT * FROM v") + "'"}, SQL: "EXECUTE ps"}
		}},
		{name: "prepare-only", family: "prepared", label: lblReader, gen: func(rt *rapid.T, e *genEnv) stmt {
			return stmt{SQL: "PREPARE ps FROM '" + pick(rt, "q", "SELECT COUNT(*) FROM t", "SELECT * FROM t WHERE id = ?") + "'"}
		}},
		{name: "deallocate", family: "prepared", label: lblReader, gen: func(rt *rapid.T, e *genEnv) stmt {
			return stmt{Pre: []string{"PREPARE ps FROM 'SELECT 1'"}, SQL: pick(rt, "alt", "DEALLOCATE PREPARE ps", "DROP PREPARE ps")}
		}},
		simple("call", "call-reader", lblReader, "CALL pr()", "CALL d.pr()"),
		simple("read", "transaction-control", lblReader, "BEGIN", "START TRANSACTION", "START TRANSACTION READ ONLY", "COMMIT", "ROLLBACK", "SET TRANSACTION READ ONLY", "SET SESSION TRANSACTION ISOLATION LEVEL READ COMMITTED"),
	}
	return ks
}
