// Package c07 checks property C07: grouping and de-duplication use the same equality
// as '='. The oracle is the engine's own '=' evaluated pairwise over the value pool (in a
// projection over a cross join, where no hashing operator is involved); every hashing
// operator (GROUP BY, DISTINCT, COUNT(DISTINCT), UNION/INTERSECT/EXCEPT [ALL], IN list,
// IN subquery, hash join) must agree with the classes / matches that relation defines.
package c07

import (
	"fmt"
	"strings"

	"pgregory.net/rapid"
)

// kind is one column type with a pool of SQL literals that can be stored in it without
// any conversion error. Pools are built so that different representations of '='-equal
// values meet (case / accent variants, trailing spaces, trailing-zero decimals, int /
// decimal / float spellings of one number, -0.0, DATE vs DATETIME at midnight, strings
// that contain the separators the hash functions use).
type kind struct {
	label string   // short name used in class labels
	ddl   string   // column type text
	fam   string   // comparison family: kinds of one family may meet in '=' / set operations
	pool  []string // SQL literals
}

func q(ss ...string) []string {
	out := make([]string, len(ss))
	for i, s := range ss {
		out[i] = "'" + s + "'"
	}
	return out
}

var (
	strCase = q("a", "A", "á", "Á", "ab", "AB", "aB", "b")
	strPad  = q("a", "a ", "a  ", " a", "", " ", "A ", "A")
	strExp  = q("ß", "ss", "SS", "s", "æ", "ae", "e", "é")
	strSep  = q("a", "b", "a,", ",b", ",", `a\0`, `\0b`, `\0`, "")
	strAll  = uniq(strCase, strPad, strExp, strSep)

	intPool  = []string{"-2", "-1", "0", "1", "2", "3", "10", "100", "20"} // incl. values that differ only by trailing zeros
	uintPool = []string{"0", "1", "2", "3", "10", "100"}
	decPool  = []string{"-0.50", "-1", "0", "0.00", "0.25", "0.5", "1", "1.0", "1.50", "2.00", "3", "0.1", "0.10", "10", "100", "10.00"}
	dblPool  = []string{"0e0", "-0e0", "1e0", "1.0", "1.5", "15e-1", "0.25", "0.1", "1e-1", "2", "3", "-1", "-0.5"}

	datePool = q("2020-01-01", "2020-01-02", "2019-12-31")
	dtPool   = q("2020-01-01 00:00:00", "2020-01-01", "2020-01-02 00:00:00", "2020-01-01 12:00:00", "2019-12-31 23:59:59", "2019-12-31")
	dt6Pool  = q("2020-01-01 00:00:00.000000", "2020-01-01", "2020-01-01 00:00:00.000001", "2020-01-02 00:00:00", "2019-12-31 23:59:59.999999", "2020-01-01 12:00:00.5", "2019-12-31")
	todPool  = q("00:00:00", "00:00:01", "-00:00:01", "24:00:00", "12:30:00")
	tod6Pool = q("00:00:00", "00:00:00.000001", "00:00:01.000000", "-00:00:01", "24:00:00", "12:30:00.5")
)

func uniq(ps ...[]string) []string {
	seen := map[string]bool{}
	var out []string
	for _, p := range ps {
		for _, s := range p {
			if !seen[s] {
				seen[s] = true
				out = append(out, s)
			}
		}
	}
	return out
}

var collations = []string{
	"utf8mb4_0900_bin", "utf8mb4_0900_ai_ci", "utf8mb4_general_ci", "utf8mb4_unicode_ci",
	"utf8mb4_0900_as_cs", "utf8mb4_0900_as_ci", "utf8mb4_bin",
}

var strShapes = []string{"VARCHAR(8)", "CHAR(8)", "TEXT"}
var binShapes = []string{"VARBINARY(8)", "BLOB"}

var strThemes = map[string][]string{"case": strCase, "pad": strPad, "exp": strExp, "sep": strSep, "all": strAll}
var strThemeNames = []string{"case", "pad", "exp", "sep", "all"}

var numKinds = []kind{
	{"tinyint", "TINYINT", "num", intPool},
	{"int", "INT", "num", intPool},
	{"bigint", "BIGINT", "num", intPool},
	{"uint", "INT UNSIGNED", "num", uintPool},
	{"ubigint", "BIGINT UNSIGNED", "num", uintPool},
	{"dec2", "DECIMAL(10,2)", "num", decPool},
	{"dec4", "DECIMAL(10,4)", "num", decPool},
	{"dec0", "DECIMAL(6,0)", "num", intPool},
	{"double", "DOUBLE", "num", uniq(dblPool, intPool)},
	{"float", "FLOAT", "num", uniq(dblPool, intPool)},
}

var timeKinds = []kind{
	{"date", "DATE", "time", datePool},
	{"datetime", "DATETIME", "time", dtPool},
	{"datetime6", "DATETIME(6)", "time", dt6Pool},
	{"timestamp", "TIMESTAMP", "time", dtPool},
	{"timestamp6", "TIMESTAMP(6)", "time", dt6Pool},
}

var todKinds = []kind{
	{"time", "TIME", "tod", todPool},
	{"time6", "TIME(6)", "tod", tod6Pool},
}

// drawKinds draws the pair (L, R) of column kinds of one comparison family. With
// probability 1/2 both columns have the same type.
func drawKinds(rt *rapid.T) (l, r kind) {
	fam := rapid.SampledFrom([]string{"str", "str", "str", "num", "num", "num", "time", "tod", "bin"}).Draw(rt, "family")
	same := rapid.Bool().Draw(rt, "sameType")
	switch fam {
	case "str":
		coll := rapid.SampledFrom(collations).Draw(rt, "collation")
		theme := rapid.SampledFrom(strThemeNames).Draw(rt, "theme")
		mk := func(name string) kind {
			sh := rapid.SampledFrom(strShapes).Draw(rt, name)
			return kind{
				label: strings.ToLower(strings.TrimSuffix(sh, "(8)")) + "/" + strings.TrimPrefix(coll, "utf8mb4_"),
				ddl:   sh + " COLLATE " + coll,
				fam:   "str/" + coll,
				pool:  strThemes[theme],
			}
		}
		l = mk("lshape")
		if same {
			return l, l
		}
		return l, mk("rshape")
	case "bin":
		theme := rapid.SampledFrom(strThemeNames).Draw(rt, "theme")
		mk := func(name string) kind {
			sh := rapid.SampledFrom(binShapes).Draw(rt, name)
			return kind{label: strings.ToLower(strings.TrimSuffix(sh, "(8)")), ddl: sh, fam: "bin", pool: strThemes[theme]}
		}
		l = mk("lshape")
		if same {
			return l, l
		}
		return l, mk("rshape")
	case "num":
		l = rapid.SampledFrom(numKinds).Draw(rt, "lkind")
		if same {
			return l, l
		}
		r = rapid.SampledFrom(numKinds).Draw(rt, "rkind")
		// The engine's '=' with a DECIMAL(p,0) operand rounds the other operand to scale 0
		// (1 = 0.5 is TRUE, and l = r differs from r = l): '=' is then no usable oracle. That
		// defect belongs to the comparison properties (C26); here DECIMAL(p,0) only meets
		// integer-valued partners.
		if l.label == "dec0" && !integral(r) {
			r = numKinds[1]
		}
		if r.label == "dec0" && !integral(l) {
			l = numKinds[1]
		}
		return l, r
	case "time":
		l = rapid.SampledFrom(timeKinds).Draw(rt, "lkind")
		if same {
			return l, l
		}
		return l, rapid.SampledFrom(timeKinds).Draw(rt, "rkind")
	default:
		l = rapid.SampledFrom(todKinds).Draw(rt, "lkind")
		if same {
			return l, l
		}
		return l, rapid.SampledFrom(todKinds).Draw(rt, "rkind")
	}
}

func integral(k kind) bool {
	switch k.label {
	case "tinyint", "int", "bigint", "uint", "ubigint", "dec0":
		return true
	}
	return false
}

// tcase is one generated case: a table t(id, w, l, r) with n rows.
type tcase struct {
	L, R   kind
	lv, rv []string // SQL literals per row ("NULL" for NULL)
	inList []string // literals of the IN list
}

func drawVal(rt *rapid.T, k kind, name string) string {
	if rapid.IntRange(0, 6).Draw(rt, name+"null") == 0 {
		return "NULL"
	}
	return rapid.SampledFrom(k.pool).Draw(rt, name)
}

func drawCase(rt *rapid.T, maxRows int) *tcase {
	c := &tcase{}
	c.L, c.R = drawKinds(rt)
	n := rapid.IntRange(1, maxRows).Draw(rt, "rows")
	for i := 0; i < n; i++ {
		c.lv = append(c.lv, drawVal(rt, c.L, "l"))
		c.rv = append(c.rv, drawVal(rt, c.R, "r"))
	}
	// IN list: literals from one pool (L's or R's), so the list is type-homogeneous in the
	// sense MySQL's documentation asks for; sometimes with a NULL element.
	src := c.L
	if rapid.Bool().Draw(rt, "inFromR") {
		src = c.R
	}
	k := rapid.IntRange(1, 12).Draw(rt, "inLen")
	for i := 0; i < k; i++ {
		c.inList = append(c.inList, rapid.SampledFrom(src.pool).Draw(rt, "inLit"))
	}
	if rapid.IntRange(0, 5).Draw(rt, "inNull") == 0 {
		c.inList = append(c.inList, "NULL")
	}
	return c
}

func (c *tcase) ddl() string {
	return fmt.Sprintf("CREATE TABLE t (id INT PRIMARY KEY, w BIGINT NOT NULL, l %s, r %s)", c.L.ddl, c.R.ddl)
}

func (c *tcase) insert() string {
	var sb strings.Builder
	sb.WriteString("INSERT INTO t VALUES ")
	for i := range c.lv {
		if i > 0 {
			sb.WriteString(", ")
		}
		fmt.Fprintf(&sb, "(%d, %d, %s, %s)", i+1, int64(1)<<uint(i), c.lv[i], c.rv[i])
	}
	return sb.String()
}

func (c *tcase) String() string {
	return c.ddl() + ";\n" + c.insert() + ";"
}
