package c07

import (
	"context"
	"math"
	"strings"
	"testing"

	"github.com/dolthub/go-mysql-server/sql"
	"github.com/dolthub/go-mysql-server/sql/hash"
	"github.com/dolthub/go-mysql-server/sql/types"
	"github.com/dolthub/go-mysql-server/vh/internal/fx"
	"github.com/dolthub/go-mysql-server/vh/internal/stats"
	"pgregory.net/rapid"
)

// TestC07API checks the hashing API the operators are built on, under the protocol its
// callers follow (values of one column, hashed with that column's type supplied):
// a = b (engine's '=') implies HashOf(schema, [a]) == HashOf(schema, [b]) and
// HashOfSimple(a, type) == HashOfSimple(b, type); for two-column rows the row hash of
// '='-equal pairs must agree. (Nothing is asserted for unequal values: collisions of a
// 64-bit hash are legal - except through the separator finding, which is a systematic
// collision and is looked for by the SQL-level GROUP BY check.)
func TestC07API(t *testing.T) {
	st := stats.New("C07", "api")
	defer st.Flush()
	rapid.Check(t, func(rt *rapid.T) {
		st.Eval()
		c := drawCase(rt, maxRows())
		f := fx.New(fx.Opts{})
		defer f.Close()
		s := f.NewSession("", "", "")
		w, sk := load(rt, c, s)
		if sk != nil {
			st.Class("skip:" + sk.why)
			return
		}
		w.st = st
		ctx := s.Ctx(context.Background())
		st.Class("family:" + strings.SplitN(c.L.fam, "/", 2)[0])
		sch1 := sql.Schema{{Name: "l", Type: w.lType}}
		sch2 := sql.Schema{{Name: "l", Type: w.lType}, {Name: "r", Type: w.rType}}
		nontrivial := false
		for i := 0; i < w.n; i++ {
			for j := i + 1; j < w.n; j++ {
				if w.lN[i] == "N" || w.lN[j] == "N" || w.ll[i][j] != tT || w.ll[j][i] != tT {
					continue
				}
				hi, err1 := hash.HashOf(ctx, sch1, sql.Row{w.lGo[i]})
				hj, err2 := hash.HashOf(ctx, sch1, sql.Row{w.lGo[j]})
				if err1 != nil || err2 != nil {
					st.Class("skip:hash-error")
					continue
				}
				if hi != hj {
					rt.Fatalf("C07 violated at API level: the engine says l%d = l%d (%s, %s) but hash.HashOf with the column type %s supplied gives %d and %d\n%s",
						i+1, j+1, w.lR[i], w.lR[j], w.lType, hi, hj, c)
				}
				si, _, err1 := hash.HashOfSimple(ctx, w.lGo[i], w.lType)
				sj, _, err2 := hash.HashOfSimple(ctx, w.lGo[j], w.lType)
				if err1 == nil && err2 == nil && si != sj {
					rt.Fatalf("C07 violated at API level: the engine says l%d = l%d (%s, %s) but hash.HashOfSimple with type %s gives %d and %d\n%s",
						i+1, j+1, w.lR[i], w.lR[j], w.lType, si, sj, c)
				}
				if w.lR[i] != w.lR[j] {
					nontrivial = true
				}
				if w.rN[i] != "N" && w.rN[j] != "N" && w.rr[i][j] == tT && w.rr[j][i] == tT {
					pi, err1 := hash.HashOf(ctx, sch2, sql.Row{w.lGo[i], w.rGo[i]})
					pj, err2 := hash.HashOf(ctx, sch2, sql.Row{w.lGo[j], w.rGo[j]})
					if err1 == nil && err2 == nil && pi != pj {
						rt.Fatalf("C07 violated at API level: rows %d and %d are '='-equal in both columns but the row hashes differ\n%s", i+1, j+1, c)
					}
				}
			}
		}
		// synthetic floating point values (negative zero cannot be stored through SQL - the
		// engine normalises it on conversion - but arises from arithmetic, e.g. 0e0 * -1, so
		// hashing callers do see it): equality is the type's own Compare
		{
			fpool := []float64{0, math.Copysign(0, -1), 1, -1, 0.5}
			a := rapid.SampledFrom(fpool).Draw(rt, "fa")
			b := rapid.SampledFrom(fpool).Draw(rt, "fb")
			var va, vb any = a, b
			var typ sql.Type = types.Float64
			if rapid.Bool().Draw(rt, "float32") {
				va, vb, typ = float32(a), float32(b), types.Float32
			}
			if c, err := typ.Compare(ctx, va, vb); err == nil && c == 0 {
				fs := sql.Schema{{Name: "f", Type: typ}}
				ha, err1 := hash.HashOf(ctx, fs, sql.Row{va})
				hb, err2 := hash.HashOf(ctx, fs, sql.Row{vb})
				if err1 == nil && err2 == nil && ha != hb {
					rt.Fatalf("C07 violated at API level: %s.Compare(%v, %v) == 0 (signs %v %v) but hash.HashOf gives %d and %d", typ, va, vb, math.Signbit(a), math.Signbit(b), ha, hb)
				}
				sa, _, err1 := hash.HashOfSimple(ctx, va, typ)
				sb, _, err2 := hash.HashOfSimple(ctx, vb, typ)
				if err1 == nil && err2 == nil && sa != sb {
					rt.Fatalf("C07 violated at API level: %s.Compare(%v, %v) == 0 (signs %v %v) but hash.HashOfSimple gives %d and %d", typ, va, vb, math.Signbit(a), math.Signbit(b), sa, sb)
				}
				if math.Signbit(a) != math.Signbit(b) {
					st.Class("clash:negative-zero")
					st.NonTrivial(nil, "negzero", typ.String())
				}
			}
		}
		if nontrivial {
			st.Class("clash:single-column")
			st.NonTrivial(map[string]any{"ddl": c.ddl(), "insert": c.insert()}, c.L.ddl, w.lR)
		}
	})
}
